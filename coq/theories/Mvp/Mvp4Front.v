(* The skeleton of MVP-4 (Mvp4Skel.v) keeps its invariant (Mvp4Inv.v), never gets
   stuck on a well-formed path, and makes progress: a potential decreases in every
   cycle in which no instruction is executed. *)
From Coq Require Import ZArith List Bool Lia.
From Maj Require Import Base.Outcome Base.GoInt Base.GoTypes Isa.Spec Isa.Embed Isa.Seq Isa.Refine.
From Maj Require Import Gen.Latency Gen.RiscTables Gen.Opcodes Comp.Cache Comp.CacheProofs.
From Maj Require Import Mvp.Mvp12 Mvp.Mvp12Proofs Mvp.Mvp3 Mvp.Mvp3Proofs Mvp.Mvp4 Mvp.Mvp4Skel Mvp.Mvp4Inv Mvp.Mvp4Units.
Import ListNotations.
Open Scope Z_scope.

(* ------------------------------------------------------------------ *)
(* the scoreboard of pending writes                                     *)

Lemma upd_oob d n v : (length d <= n)%nat -> Cache.upd d n v = d.
Proof. revert n. induction d as [|x d IH]; intros [|n] H; cbn in *; try reflexivity; try lia. rewrite IH by lia. reflexivity. Qed.

Lemma zero_pw_length : length zero_pw = 32%nat.
Proof. reflexivity. Qed.

Lemma pw_get_zero r : pw_get zero_pw r = 0.
Proof. unfold pw_get, zero_pw. apply nth_repeat. Qed.

Lemma pw_hazard_zero rs : pw_hazard zero_pw rs = false.
Proof.
  unfold pw_hazard. induction rs as [|r t IH]; cbn [existsb]; [reflexivity|].
  rewrite pw_get_zero, IH. cbn. rewrite andb_false_r. reflexivity.
Qed.

Definition padd1 (pw : list Z) (n : nat) : list Z := Cache.upd pw n (nth n pw 0 + 1).
Definition pdel1 (pw : list Z) (n : nat) : list Z := Cache.upd pw n (Z.max 0 (nth n pw 0 - 1)).

Lemma pw_add_1 pw r : pw_add pw [r] = padd1 pw (Z.to_nat r).
Proof. reflexivity. Qed.
Lemma pw_del_1 pw r : pw_del pw [r] = pdel1 pw (Z.to_nat r).
Proof. reflexivity. Qed.

Lemma forall_lt_32 (P : nat -> bool) : forallb P (seq 0 32) = true -> forall n, (n < 32)%nat -> P n = true.
Proof. intros H n Hn. rewrite forallb_forall in H. apply H. apply in_seq. lia. Qed.

Lemma padd1_oob pw n : (length pw <= n)%nat -> padd1 pw n = pw.
Proof. apply upd_oob. Qed.
Lemma pdel1_oob pw n : (length pw <= n)%nat -> pdel1 pw n = pw.
Proof. apply upd_oob. Qed.
Lemma padd1_length pw n : length (padd1 pw n) = length pw.
Proof. apply upd_length. Qed.

Definition zlist_eqb (a b : list Z) : bool := if list_eq_dec Z.eq_dec a b then true else false.
Lemma zlist_eqb_eq a b : zlist_eqb a b = true -> a = b.
Proof. unfold zlist_eqb. destruct (list_eq_dec Z.eq_dec a b); [auto | discriminate]. Qed.

Lemma pdel_padd_zero n : pdel1 (padd1 zero_pw n) n = zero_pw.
Proof.
  destruct (Nat.lt_ge_cases n 32) as [Hlt|Hge].
  - apply zlist_eqb_eq. revert n Hlt. apply forall_lt_32. vm_compute. reflexivity.
  - rewrite padd1_oob by (rewrite zero_pw_length; lia). apply pdel1_oob. rewrite zero_pw_length. lia.
Qed.

Lemma pdel_padd_padd n1 n : pdel1 (padd1 (padd1 zero_pw n1) n) n1 = padd1 zero_pw n.
Proof.
  destruct (Nat.lt_ge_cases n1 32) as [Hlt1|Hge1].
  2:{ rewrite (padd1_oob zero_pw n1) by (rewrite zero_pw_length; lia).
      apply pdel1_oob. rewrite padd1_length, zero_pw_length. lia. }
  destruct (Nat.lt_ge_cases n 32) as [Hlt|Hge].
  2:{ rewrite !(padd1_oob _ n) by (rewrite ?padd1_length, zero_pw_length; lia). apply pdel_padd_zero. }
  apply zlist_eqb_eq. revert n Hlt. apply forall_lt_32.
  apply forallb_forall. intros n Hn. revert n1 Hlt1. apply forall_lt_32. revert n Hn. apply forallb_forall.
  vm_compute. reflexivity.
Qed.

Lemma wdel_pwof wb : (forall wr, wb = Some wr -> (length wr <= 1)%nat) -> wdel (pwof wb) wb = zero_pw.
Proof.
  intros H. destruct wb as [wr|]; [|reflexivity]. specialize (H wr eq_refl). cbn [wdel pwof].
  destruct wr as [|r [|? ?]]; [reflexivity| |cbn in H; lia].
  rewrite pw_add_1, pw_del_1. apply pdel_padd_zero.
Qed.

Lemma wdel_add_pwof wb wr : (forall w, wb = Some w -> (length w <= 1)%nat) -> (length wr <= 1)%nat ->
  wdel (pw_add (pwof wb) wr) wb = pwof (Some wr).
Proof.
  intros H Hwr. destruct wb as [w|]; [|reflexivity]. specialize (H w eq_refl). cbn [wdel pwof].
  destruct w as [|r1 [|? ?]]; [reflexivity| |cbn in H; lia].
  destruct wr as [|r [|? ?]]; [| |cbn in Hwr; lia].
  - change (pw_add (pw_add zero_pw [r1]) []) with (pw_add zero_pw [r1]). change (pw_add zero_pw []) with zero_pw.
    rewrite pw_add_1, pw_del_1. apply pdel_padd_zero.
  - rewrite !pw_add_1, pw_del_1. apply pdel_padd_padd.
Qed.

Lemma pwof_hazard wb rs : pw_hazard (pwof wb) rs = true -> wb <> None.
Proof. intros H ->. cbn [pwof] in H. rewrite pw_hazard_zero in H. discriminate. Qed.

(* ------------------------------------------------------------------ *)
(* the queue and the fetch unit                                         *)

Section Front.
  Variable app : list instr.
  Hypothesis Happ : wf_app app.

  Lemma nlen_small : 4 * nlen app < 2147483640.
  Proof. destruct Happ as [_ H]. exact H. Qed.

  (* all queue members are non-negative, those before the last are in the text *)
  Lemma consec4_in h n p : In p (consec4 h n) -> h <= p /\ p <= h + 4 * (Z.of_nat n - 1).
  Proof.
    unfold consec4. intros H. apply in_map_iff in H as (j & <- & Hj). apply in_seq in Hj. lia.
  Qed.

  Lemma fq_fu head n X f l1i dbus fu1 l1i1 dbus1 :
    0 <= head < 2147483644 ->
    FQ app head n (X ++ q_sb dbus) f ->
    IInv l1i -> (fu_processing f = true -> 1 <= fu_remaining f <= MemoryAccess) ->
    fu_cycle app f l1i dbus = Ok (fu1, l1i1, dbus1) ->
    IInv l1i1 /\ (fu_processing fu1 = true -> 1 <= fu_remaining fu1 <= MemoryAccess) /\
    (exists n1, FQ app head n1 (X ++ q_sb dbus1) fu1) /\
    sb_current dbus1 = sb_current dbus /\
    ((dbus1 = dbus /\ fu_complete fu1 = fu_complete f /\
      (fu_complete f = false -> sbus_can_add dbus = true -> fuphi fu1 < fuphi f))
     \/ (fu_complete f = false /\ sbus_can_add dbus = true /\ dbus1 = sbus_add dbus (fu_pc f))).
  Proof.
    intros Hh [Hq Hpc Hend Hin2 Hin1] HI Hrem E.
    pose proof nlen_small as Hsmall.
    assert (Hb : fu_complete f = false -> 0 <= fu_pc f /\ fu_pc f + 4 < 2147483648).
    { intros Hc. rewrite (Hpc Hc). destruct n as [|n]; [lia|].
      specialize (Hin1 ltac:(lia) Hc). lia. }
    destruct (fu_cycle_spec app f l1i dbus HI Hb Hrem) as (f' & l1i' & dbus' & E' & HI' & Hrem' & Hc).
    rewrite E in E'. injection E' as -> -> ->. split; [assumption|]. split; [assumption|].
    destruct Hc as [(-> & Hpc' & Hc' & Hphi) | (Hc & Hadd & -> & ->)].
    - split; [|split; [reflexivity | left; auto]].
      exists n. constructor; auto; rewrite ?Hc', ?Hpc'; auto.
    - split; [|split; [reflexivity | right; auto]].
      exists (S n). rewrite (q_sb_add dbus _ Hadd), app_assoc, Hq, (Hpc Hc), <- consec4_snoc.
      destruct (Hb Hc) as [Hp0 Hp4]. rewrite (Hpc Hc) in Hp0, Hp4.
      constructor; cbn [fu_complete fu_pc].
      + reflexivity.
      + intros _. lia.
      + intros Hcc. apply Z.leb_le in Hcc. rewrite Z.quot_div_nonneg in Hcc by lia.
        replace (head + 4 * Z.of_nat (S n)) with (head + 4 * Z.of_nat n + 4) by lia. exact Hcc.
      + intros Hn. assert (Hn1 : (1 <= n)%nat) by lia. specialize (Hin1 Hn1 Hc).
        replace (Z.of_nat (S n) - 2) with (Z.of_nat n - 1) by lia. exact Hin1.
      + intros _ Hcc. apply Z.leb_gt in Hcc. rewrite Z.quot_div_nonneg in Hcc by lia.
        replace (Z.of_nat (S n) - 1) with (Z.of_nat n) by lia. lia.
  Qed.

  (* an entry outside the text is the last one of the queue, and the fetch unit is complete *)
  Lemma fq_drop head n Y p rest f :
    0 <= head ->
    FQ app head n (Y ++ p :: rest) f -> nlen app <= p / 4 ->
    rest = [] /\ fu_complete f = true /\ FQ app head (length Y) Y f.
  Proof.
    intros Hh [Hq Hpc Hend Hin2 Hin1] Hout.
    destruct (consec4_split _ _ _ _ Hq) as (HY & Hp & Hn).
    change (length (p :: rest)) with (S (length rest)) in Hp, Hn. rewrite consec4_S in Hp. apply cons_inj in Hp as [Hp Hrest].
    assert (Hr : rest = []).
    { destruct rest as [|x rest]; [reflexivity|]. exfalso. change (length (x :: rest)) with (S (length rest)) in Hn.
      specialize (Hin2 ltac:(lia)). subst n. lia. }
    subst rest. change (length (@nil Z)) with O in Hn.
    assert (Hc : fu_complete f = true).
    { destruct (fu_complete f) eqn:Ec; [reflexivity|]. exfalso. specialize (Hin1 ltac:(lia) eq_refl). subst n. lia. }
    split; [reflexivity|]. split; [assumption|].
    constructor; auto.
    - intros Hcf. rewrite Hc in Hcf. discriminate.
    - intros _. subst p. exact Hout.
    - intros H2. specialize (Hin2 ltac:(lia)). subst n. lia.
    - intros _ Hcf. rewrite Hc in Hcf. discriminate.
  Qed.

  Lemma q_parts_alt e ebus dbus : q_parts e ebus dbus = map snd (q_eu e ++ q_sb ebus) ++ q_sb dbus.
  Proof. unfold q_parts. rewrite map_app, app_assoc. reflexivity. Qed.

  Definition act_q (act : eu_act) : list (instr * Z) :=
    match act with AExec i pc => [(i, pc)] | _ => [] end.

  Lemma sk_eu_flow e ebus pw e1 ebus2 act :
    eu_pending_read e = false ->
    Forall (entry_ok app) (q_eu e ++ q_sb ebus) ->
    (eu_processing e = true -> 1 <= eu_remaining e <= Cmax /\ eu_runner e <> None) ->
    sk_eu e ebus pw = (e1, ebus2, act) ->
    act <> AStuck /\
    act_q act ++ q_eu e1 ++ q_sb ebus2 = q_eu e ++ q_sb ebus /\
    eu_pending_read e1 = false /\
    (eu_processing e1 = true -> 1 <= eu_remaining e1 <= Cmax /\ eu_runner e1 <> None) /\
    (match act with AExec _ _ => eu_processing e1 = false | _ => True end).
  Proof.
    intros Hpr Hent Hproc. unfold sk_eu.
    destruct (eu_intake e ebus) as [[em ebus1] have] eqn:Ei.
    destruct (intake_flow app e ebus em ebus1 have Hpr Hent Hproc Ei) as (Hq & Hpr1 & Hhave & Hproc1 & _).
    destruct have; cbn [negb].
    2:{ intros H. injection H as <- <- <-. cbn [act_q List.app].
        split; [discriminate|]. split; [exact Hq|]. split; [exact Hpr1|]. split; [exact Hproc1 | exact I]. }
    symmetry in Hhave. destruct (Hproc1 Hhave) as [Hrem Hrun].
    destruct (Z.eqb_spec (eu_remaining em - 1) 0) as [E0|E0]; cbn [negb].
    2:{ intros H. injection H as <- <- <-. cbn [act_q List.app].
        split; [discriminate|]. split; [exact Hq|]. split; [exact Hpr1|]. split; [|exact I].
        intros _. cbn [set_rem eu_remaining eu_runner]. split; [lia | exact Hrun]. }
    destruct (eu_runner em) as [[i pc]|] eqn:Er; [|congruence].
    destruct (pw_hazard pw (instr_ReadRegisters i)).
    - intros H. injection H as <- <- <-. cbn [act_q List.app].
      split; [discriminate|]. split; [exact Hq|]. split; [exact Hpr1|]. split; [|exact I].
      intros _. cbn [set_rem eu_remaining eu_runner]. split; [unfold Cmax; lia | rewrite Er; discriminate].
    - intros H. injection H as <- <- <-. cbn [act_q].
      split; [discriminate|]. split; [|split; [exact Hpr1|split; [discriminate | reflexivity]]].
      rewrite <- Hq. unfold q_eu at 2. rewrite Hhave, Er. reflexivity.
  Qed.

  Lemma consec4_nonneg h n p : 0 <= h -> In p (consec4 h n) -> 0 <= p.
  Proof. intros Hh Hp. apply consec4_in in Hp. lia. Qed.

  Lemma front_flow head a fu1 l1i1 dbus1 dbus2 ebus1 e1 ebus2 act :
    FInv app head a ->
    fu_cycle app (k_fu a) (k_l1i a) (k_dbus a) = Ok (fu1, l1i1, dbus1) ->
    du_cycle app dbus1 (k_ebus a) = Ok (dbus2, ebus1) ->
    sk_eu (k_eu a) ebus1 (k_pw a) = (e1, ebus2, act) ->
    IInv l1i1 /\ (fu_processing fu1 = true -> 1 <= fu_remaining fu1 <= MemoryAccess) /\
    act <> AStuck /\
    (exists n', FQ app head n' (map snd (act_q act) ++ q_parts e1 ebus2 dbus2) fu1) /\
    Forall (entry_ok app) (act_q act ++ q_eu e1 ++ q_sb ebus2) /\
    eu_pending_read e1 = false /\
    (eu_processing e1 = true -> 1 <= eu_remaining e1 <= Cmax /\ eu_runner e1 <> None) /\
    (match act with AExec _ _ => eu_processing e1 = false | _ => True end).
  Proof.
    intros [Hh [n Hq] Hent Hfu Heu Hpr HI Hpw Hwb] Ef Ed Ee.
    unfold qlist in Hq. rewrite q_parts_alt in Hq.
    destruct (fq_fu head n _ _ _ _ _ _ _ Hh Hq HI Hfu Ef) as (HI1 & Hfu1 & [n1 Hq1] & Hcur & _).
    assert (Hpos : forall p, sb_current dbus1 = Some p -> 0 <= p).
    { intros p Hp. apply (consec4_nonneg head n1); [lia|]. rewrite <- (q_eq _ _ _ _ _ Hq1).
      apply in_or_app. right. unfold q_sb. rewrite Hp. left. reflexivity. }
    apply Forall_app in Hent as [Hent_eu Hent_eb].
    destruct (du_flow app dbus1 (k_ebus a) dbus2 ebus1 Hpos Hent_eb Ed) as (Hent1 & Hdu).
    assert (Hq2 : exists n2, FQ app head n2 (map snd (q_eu (k_eu a) ++ q_sb ebus1) ++ q_sb dbus2) fu1).
    { destruct Hdu as [Heq | (p & Hp & Hout & -> & _)].
      - exists n1. rewrite map_app, <- app_assoc, Heq, app_assoc, <- map_app. exact Hq1.
      - rewrite Hp in Hq1. destruct (fq_drop head n1 _ p _ fu1 ltac:(lia) Hq1 Hout) as (Hr & _ & Hq').
        rewrite Hr, app_nil_r. eauto. }
    destruct Hq2 as [n2 Hq2].
    assert (Hent2 : Forall (entry_ok app) (q_eu (k_eu a) ++ q_sb ebus1)) by (apply Forall_app; auto).
    destruct (sk_eu_flow _ _ _ _ _ _ Hpr Hent2 Heu Ee) as (Hns & Hfl & Hpr1 & Heu1 & Hex).
    split; [assumption|]. split; [assumption|]. split; [assumption|].
    split; [|split; [rewrite Hfl; assumption | auto]].
    exists n2. rewrite q_parts_alt, app_assoc, <- map_app, Hfl. exact Hq2.
  Qed.

  Lemma fq_shift head m q f : FQ app head (S m) (head :: q) f -> FQ app (head + 4) m q f.
  Proof.
    intros [Hq Hpc Hend Hin2 Hin1]. rewrite consec4_S in Hq. apply cons_inj in Hq as [_ Hq].
    constructor.
    - exact Hq.
    - intros Hc. rewrite (Hpc Hc). lia.
    - intros Hc. specialize (Hend Hc). replace (head + 4 + 4 * Z.of_nat m) with (head + 4 * Z.of_nat (S m)) by lia. exact Hend.
    - intros Hm. specialize (Hin2 ltac:(lia)).
      replace (head + 4 + 4 * (Z.of_nat m - 2)) with (head + 4 * (Z.of_nat (S m) - 2)) by lia. exact Hin2.
    - intros Hm Hc. specialize (Hin1 ltac:(lia) Hc).
      replace (head + 4 + 4 * (Z.of_nat m - 1)) with (head + 4 * (Z.of_nat (S m) - 1)) by lia. exact Hin1.
  Qed.

  Lemma fq_head head n pc q f : FQ app head n (pc :: q) f -> pc = head /\ exists m, n = S m.
  Proof.
    intros [Hq _ _ _ _]. destruct n as [|m]; [discriminate|]. rewrite consec4_S in Hq.
    apply cons_inj in Hq as [-> _]. eauto.
  Qed.

  Lemma path_wf_tail pc next rest : path_wf app (pc :: next :: rest) ->
    path_wf app (next :: rest) /\ 0 <= next < 2147483644.
  Proof. cbn [path_wf]. intros (_ & _ & H). split; [exact H|]. destruct H as [H _]. exact H. Qed.

  Theorem finv_step head rest a a' path' dc :
    FInv app head a -> path_wf app (head :: rest) ->
    sk_cycle app a (head :: rest) = KStep a' path' dc ->
    exists head' rest', path' = head' :: rest' /\ FInv app head' a' /\ path_wf app path' /\
      (path' = head :: rest \/ path' = rest).
  Proof.
    intros HF Hwf H. unfold sk_cycle in H.
    destruct (fu_cycle app (k_fu a) (k_l1i a) (k_dbus a)) as [[[fu1 l1i1] dbus1]| |] eqn:Ef; try discriminate.
    destruct (du_cycle app dbus1 (k_ebus a)) as [[dbus2 ebus1]| |] eqn:Ed; try discriminate.
    destruct (sk_eu (k_eu a) ebus1 (k_pw a)) as [[e1 ebus2] act] eqn:Ee.
    destruct (front_flow head a _ _ _ _ _ _ _ _ HF Ef Ed Ee) as (HI1 & Hfu1 & Hns & [n' Hq'] & Hent' & Hpr' & Heu' & Hex).
    destruct HF as [Hh _ _ _ _ _ _ Hpw Hwb].
    destruct act as [|i pc|]; [| |discriminate].
    - (* nothing executed *)
      destruct (sk_complete _); [discriminate|]. injection H as <- <- <-.
      exists head, rest. split; [reflexivity|]. split; [|auto].
      constructor; cbn [k_fu k_l1i k_dbus k_ebus k_eu k_pw k_wb]; auto.
      + exists n'. exact Hq'.
      + rewrite Hpw. apply wdel_pwof. exact Hwb.
      + discriminate.
    - (* (i, pc) executed *)
      cbn [act_q map snd List.app] in Hq', Hent'.
      destruct (fq_head _ _ _ _ _ Hq') as (-> & m & ->).
      rewrite Z.eqb_refl in H. cbn [negb] in H.
      destruct (is_ret i); [destruct rest; discriminate|].
      destruct rest as [|next rest']; [discriminate|].
      destruct (path_wf_tail _ _ _ Hwf) as [Hwf' Hnext].
      destruct (sk_flush i head next) eqn:Efl; injection H as <- <- <-.
      + exists next, rest'. split; [reflexivity|]. split; [|auto].
        constructor; cbn [k_fu k_l1i k_dbus k_ebus k_eu k_pw k_wb fu_processing]; auto; try discriminate.
        * exists O. unfold qlist, q_parts, q_eu. cbn [k_eu k_ebus k_dbus]. rewrite Hex. cbn [map List.app q_sb sbus_empty sb_current sb_pending olist].
          constructor; cbn [fu_complete fu_pc]; try discriminate; try lia. reflexivity.
        * unfold q_eu. rewrite Hex. constructor.
      + unfold sk_flush in Efl. apply orb_false_elim in Efl as [_ Efl]. apply negb_false_iff, Z.eqb_eq in Efl.
        assert (Hadd : addS 32 head 4 = head + 4).
        { unfold addS. apply wrapS_id; [lia|]. apply int32_bounds. lia. }
        rewrite Hadd in Efl. subst next.
        exists (head + 4), rest'. split; [reflexivity|]. split; [|auto].
        constructor; cbn [k_fu k_l1i k_dbus k_ebus k_eu k_pw k_wb]; auto.
        * exists m. apply fq_shift. exact Hq'.
        * inversion Hent'; assumption.
        * rewrite Hpw. apply wdel_add_pwof; [exact Hwb | apply write_regs_length].
        * intros wr Hwr. injection Hwr as <-. apply write_regs_length.
  Qed.

  (* ---------------------------------------------------------------- *)
  (* progress                                                           *)

  Definition phi (a : sk) : Z :=
    if eu_processing (k_eu a) then 2 * eu_remaining (k_eu a) + (match k_wb a with Some _ => 1 | None => 0 end)
    else match sb_current (k_ebus a) with Some _ => 2 * Cmax + 2 | None =>
         match sb_pending (k_ebus a) with Some _ => 2 * Cmax + 3 | None =>
         match sb_current (k_dbus a) with Some _ => 2 * Cmax + 3 | None =>
         match sb_pending (k_dbus a) with Some _ => 2 * Cmax + 4 | None =>
         2 * Cmax + 4 + fuphi (k_fu a) end end end end.

  Definition phi_max : Z := 2 * Cmax + 5 + MemoryAccess.

  Lemma fuphi_bounds f : (fu_processing f = true -> 1 <= fu_remaining f <= MemoryAccess) -> 1 <= fuphi f <= MemoryAccess + 1.
  Proof. unfold fuphi. destruct (fu_processing f); intros H; [specialize (H eq_refl)|]; unfold MemoryAccess in *; lia. Qed.

  Lemma phi_bounds head a : FInv app head a -> 0 <= phi a <= phi_max.
  Proof.
    intros HF. pose proof (fuphi_bounds _ (f_fu _ _ _ HF)) as Hf. pose proof (f_eu _ _ _ HF) as He.
    unfold phi, phi_max. destruct (eu_processing (k_eu a)).
    - destruct (He eq_refl) as [Hr _]. unfold Cmax, MemoryAccess in *. destruct (k_wb a); lia.
    - unfold Cmax, MemoryAccess in *.
      destruct (sb_current (k_ebus a)), (sb_pending (k_ebus a)), (sb_current (k_dbus a)), (sb_pending (k_dbus a)); lia.
  Qed.

  (* the state after a cycle in which nothing is executed *)
  Definition after_none (a : sk) fu1 l1i1 dbus2 ebus2 e1 : sk :=
    mk_sk fu1 l1i1 dbus2 ebus2 e1 (wdel (k_pw a) (k_wb a)) None.

  Lemma finv_none head a fu1 l1i1 dbus1 dbus2 ebus1 e1 ebus2 :
    FInv app head a ->
    fu_cycle app (k_fu a) (k_l1i a) (k_dbus a) = Ok (fu1, l1i1, dbus1) ->
    du_cycle app dbus1 (k_ebus a) = Ok (dbus2, ebus1) ->
    sk_eu (k_eu a) ebus1 (k_pw a) = (e1, ebus2, ANone) ->
    FInv app head (after_none a fu1 l1i1 dbus2 ebus2 e1).
  Proof.
    intros HF Ef Ed Ee.
    destruct (front_flow head a _ _ _ _ _ _ _ _ HF Ef Ed Ee) as (HI1 & Hfu1 & Hns & [n' Hq'] & Hent' & Hpr' & Heu' & Hex).
    destruct HF as [Hh _ _ _ _ _ _ Hpw Hwb].
    constructor; cbn [after_none k_fu k_l1i k_dbus k_ebus k_eu k_pw k_wb]; auto.
    - exists n'. exact Hq'.
    - rewrite Hpw. apply wdel_pwof. exact Hwb.
    - discriminate.
  Qed.

  Lemma complete_exit head rest a : FInv app head a -> sk_complete a = true -> path_wf app (head :: rest) -> rest = [].
  Proof.
    intros HF Hc Hwf. destruct rest as [|next r]; [reflexivity|]. exfalso.
    unfold sk_complete in Hc. repeat (apply andb_prop in Hc as [Hc ?]).
    destruct HF as [Hh [n Hq] _ _ _ _ _ _ _].
    assert (Hn : qlist a = []).
    { unfold qlist, q_parts, q_eu, q_sb. apply negb_true_iff in H2. rewrite H2.
      unfold sbus_is_empty in H0, H1. destruct (sb_pending (k_ebus a)), (sb_current (k_ebus a)); try discriminate.
      destruct (sb_pending (k_dbus a)), (sb_current (k_dbus a)); try discriminate. reflexivity. }
    rewrite Hn in Hq. destruct Hq as [Hq _ Hend _ _]. destruct n; [|discriminate].
    specialize (Hend Hc). cbn [path_wf] in Hwf. destruct Hwf as (_ & (i & Hi & _) & _).
    assert ((Z.to_nat (head / 4) < length app)%nat) by (apply nth_error_Some; congruence).
    unfold nlen in Hend. lia.
  Qed.

  Lemma sk_cycle_exec head rest a fu1 l1i1 dbus1 dbus2 ebus1 e1 ebus2 i pc :
    FInv app head a -> path_wf app (head :: rest) ->
    fu_cycle app (k_fu a) (k_l1i a) (k_dbus a) = Ok (fu1, l1i1, dbus1) ->
    du_cycle app dbus1 (k_ebus a) = Ok (dbus2, ebus1) ->
    sk_eu (k_eu a) ebus1 (k_pw a) = (e1, ebus2, AExec i pc) ->
    match sk_cycle app a (head :: rest) with
    | KStuck => False
    | KDone _ => rest = []
    | KStep _ path' _ => path' = rest
    end.
  Proof.
    intros HF Hwf Ef Ed Ee.
    destruct (front_flow head a _ _ _ _ _ _ _ _ HF Ef Ed Ee) as (_ & _ & _ & [n' Hq'] & Hent' & _).
    cbn [act_q map snd List.app] in Hq', Hent'.
    destruct (fq_head _ _ _ _ _ Hq') as (-> & m & ->).
    inversion Hent' as [|x l [_ Hi] _]; subst. cbn [fst snd] in Hi.
    unfold sk_cycle. rewrite Ef, Ed, Ee. rewrite Z.eqb_refl. cbn [negb].
    cbn [path_wf] in Hwf. destruct Hwf as (_ & Hwf). rewrite Hi in Hwf.
    destruct rest as [|next r].
    - rewrite Hwf. reflexivity.
    - destruct Hwf as ((i' & Hi' & Hr) & _). injection Hi' as <-. rewrite Hr.
      destruct (sk_flush i head next); reflexivity.
  Qed.

  Lemma sk_cycle_none head rest a fu1 l1i1 dbus1 dbus2 ebus1 e1 ebus2 :
    fu_cycle app (k_fu a) (k_l1i a) (k_dbus a) = Ok (fu1, l1i1, dbus1) ->
    du_cycle app dbus1 (k_ebus a) = Ok (dbus2, ebus1) ->
    sk_eu (k_eu a) ebus1 (k_pw a) = (e1, ebus2, ANone) ->
    sk_cycle app a (head :: rest) =
      if sk_complete (after_none a fu1 l1i1 dbus2 ebus2 e1) then KDone 1
      else KStep (after_none a fu1 l1i1 dbus2 ebus2 e1) (head :: rest) 1.
  Proof. intros Ef Ed Ee. unfold sk_cycle. rewrite Ef, Ed, Ee. reflexivity. Qed.

  Lemma sk_eu_idle_none e ebus pw : eu_processing e = false -> sb_current ebus = None ->
    sk_eu e ebus pw = (e, mk_sbus None (sb_pending ebus), ANone).
  Proof. intros Ep Ec. unfold sk_eu, eu_intake, sbus_get. rewrite Ep, Ec. reflexivity. Qed.

  Lemma none_phi head a fu1 l1i1 dbus1 dbus2 ebus1 e1 ebus2 :
    FInv app head a ->
    fu_cycle app (k_fu a) (k_l1i a) (k_dbus a) = Ok (fu1, l1i1, dbus1) ->
    du_cycle app dbus1 (k_ebus a) = Ok (dbus2, ebus1) ->
    sk_eu (k_eu a) ebus1 (k_pw a) = (e1, ebus2, ANone) ->
    sk_complete (after_none a fu1 l1i1 dbus2 ebus2 e1) = false ->
    phi (after_none a fu1 l1i1 dbus2 ebus2 e1) < phi a.
  Proof.
    intros HF Ef Ed Ee Hnc.
    destruct a as [f l1i dbus ebus e pw wb]. cbn [k_fu k_l1i k_dbus k_ebus k_eu k_pw k_wb] in *.
    pose proof HF as [Hh [n Hq] Hent Hfu Heu Hpr HI Hpw Hwb].
    cbn [k_fu k_l1i k_dbus k_ebus k_eu k_pw k_wb] in *.
    unfold qlist in Hq. cbn [k_eu k_ebus k_dbus] in Hq. rewrite q_parts_alt in Hq.
    destruct (fq_fu head n _ _ _ _ _ _ _ Hh Hq HI Hfu Ef) as (HI1 & Hfu1 & [n1 Hq1] & Hcur & Hfc).
    assert (Hpos : forall p, sb_current dbus1 = Some p -> 0 <= p).
    { intros p Hp. apply (consec4_nonneg head n1); [lia|]. rewrite <- (q_eq _ _ _ _ _ Hq1).
      apply in_or_app. right. unfold q_sb. rewrite Hp. left. reflexivity. }
    destruct (du_cycle_spec app dbus1 ebus Hpos) as (d & eb & E & Hdu). rewrite Ed in E. injection E as <- <-.
    assert (Hec : sb_current ebus1 = sb_current ebus).
    { destruct Hdu as [(_ & _ & ->) | (_ & _ & [(_ & ->) | [(p & _ & _ & ->) | (p & i & _ & _ & _ & ->)]])]; reflexivity. }
    pose proof (fuphi_bounds _ Hfu) as Hphif.
    unfold phi, after_none. cbn [k_fu k_l1i k_dbus k_ebus k_eu k_pw k_wb].
    destruct (eu_processing e) eqn:Ep.
    - (* the execute unit is busy *)
      unfold sk_eu, eu_intake in Ee. rewrite Ep in Ee. cbn [negb] in Ee. destruct (Heu eq_refl) as [Hr Hrun].
      destruct (Z.eqb_spec (eu_remaining e - 1) 0); cbn [negb] in Ee.
      + destruct (eu_runner e) as [[i pc]|]; [|congruence].
        destruct (pw_hazard pw (instr_ReadRegisters i)) eqn:Ehz; [|discriminate]. injection Ee as <- <-.
        cbn [set_rem eu_processing eu_remaining]. rewrite Ep. subst pw. apply pwof_hazard in Ehz.
        destruct wb; [lia | congruence].
      + injection Ee as <- <-. cbn [set_rem eu_processing eu_remaining]. rewrite Ep. destruct wb; lia.
    - destruct ebus as [ep ec]. cbn [sb_current sb_pending] in *.
      destruct ec as [[i pc]|].
      + (* the head is in the execute bus, current slot *)
        unfold sk_eu, eu_intake, sbus_get in Ee. rewrite Ep, Hec in Ee. cbn [negb eu_remaining eu_runner] in Ee.
        pose proof (cyc_of_bounds i) as Hc.
        destruct (Z.eqb_spec (cyc_of i - 1) 0); cbn [negb] in Ee.
        * destruct (pw_hazard pw (instr_ReadRegisters i)); [|discriminate]. injection Ee as <- <-.
          cbn [set_rem eu_processing eu_remaining]. unfold Cmax. lia.
        * injection Ee as <- <-. cbn [set_rem eu_processing eu_remaining]. lia.
      + rewrite (sk_eu_idle_none e ebus1 pw Ep Hec) in Ee. injection Ee as <- <-. rewrite Ep.
        cbn [sb_current sb_pending].
        destruct ep as [x|].
        * (* pending slot of the execute bus *)
          destruct Hdu as [(_ & _ & ->) | (Hadd & _)]; [|discriminate]. cbn [sb_pending]. lia.
        * destruct dbus as [dp dc]. cbn [sb_current sb_pending] in *.
          destruct Hdu as [(Hadd & _) | (_ & -> & Hdu)]; [discriminate|]. cbn [sb_current sb_pending].
          destruct dc as [p|].
          -- (* current slot of the decode bus *)
             destruct Hdu as [(Hc & _) | [(p' & Hc & Hout & ->) | (p' & i & Hc & _ & _ & ->)]].
             ++ congruence.
             ++ exfalso. rewrite Hcur in Hc. injection Hc as <-.
                assert (Hqd : q_sb dbus1 = p :: olist (sb_pending dbus1)) by (unfold q_sb; rewrite Hcur; reflexivity).
                rewrite Hqd in Hq1. destruct (fq_drop head n1 _ p _ fu1 ltac:(lia) Hq1 Hout) as (Hr & Hcf & _).
                unfold sk_complete, after_none in Hnc. cbn [k_fu k_eu k_dbus k_ebus k_wb sb_pending sb_current sbus_is_empty] in Hnc.
                rewrite Hcf, Ep in Hnc. destruct (sb_pending dbus1); [discriminate|]. discriminate.
             ++ cbn [sbus_add sb_pending sb_current]. lia.
          -- destruct dp as [p|].
             ++ (* pending slot of the decode bus *)
                destruct Hfc as [(-> & _) | (_ & Hadd & _)]; [|discriminate].
                cbn [sb_pending]. destruct Hdu as [(_ & ->) | [(p' & Hc & _) | (p' & i & Hc & _)]]; try discriminate.
                cbn [sb_pending sb_current]. lia.
             ++ (* the fetch unit *)
                assert (Heb : ebus1 = mk_sbus None None).
                { destruct Hdu as [(_ & ->) | [(p' & Hc & _) | (p' & i & Hc & _)]]; [reflexivity| |]; rewrite Hcur in Hc; discriminate. }
                subst ebus1. cbn [sb_pending sb_current].
                destruct Hfc as [(-> & Hcc & Hphi) | (Hcf & _ & ->)]; cbn [sb_pending sb_current sbus_add].
                ** destruct (fu_complete f) eqn:Ecf.
                   { exfalso. unfold sk_complete, after_none in Hnc. cbn [k_fu k_eu k_dbus k_ebus k_wb sb_pending sb_current sbus_is_empty] in Hnc.
                     rewrite Hcc, Ep in Hnc. discriminate. }
                   specialize (Hphi eq_refl eq_refl). lia.
                ** lia.
  Qed.

  Theorem sk_progress head rest a :
    FInv app head a -> path_wf app (head :: rest) ->
    match sk_cycle app a (head :: rest) with
    | KStuck => False
    | KDone _ => rest = []
    | KStep a' path' _ => path' = rest \/ (path' = head :: rest /\ phi a' < phi a)
    end.
  Proof.
    intros HF Hwf.
    pose proof HF as [Hh [n Hq] Hent Hfu Heu Hpr HI Hpw Hwb].
    unfold qlist in Hq. rewrite q_parts_alt in Hq.
    destruct (fu_cycle app (k_fu a) (k_l1i a) (k_dbus a)) as [[[fu1 l1i1] dbus1]| |] eqn:Ef.
    2,3: exfalso; destruct (fu_cycle_spec app (k_fu a) (k_l1i a) (k_dbus a) HI) as (? & ? & ? & E & _); [| assumption | congruence].
    2,3: intros Hc; rewrite (q_pc _ _ _ _ _ Hq Hc); pose proof nlen_small; destruct n as [|n]; [lia | pose proof (q_in1 _ _ _ _ _ Hq ltac:(lia) Hc); lia].
    destruct (fq_fu head n _ _ _ _ _ _ _ Hh Hq HI Hfu Ef) as (HI1 & Hfu1 & [n1 Hq1] & Hcur & Hfc).
    assert (Hpos : forall p, sb_current dbus1 = Some p -> 0 <= p).
    { intros p Hp. apply (consec4_nonneg head n1); [lia|]. rewrite <- (q_eq _ _ _ _ _ Hq1).
      apply in_or_app. right. unfold q_sb. rewrite Hp. left. reflexivity. }
    destruct (du_cycle_spec app dbus1 (k_ebus a) Hpos) as (dbus2 & ebus1 & Ed & _).
    destruct (sk_eu (k_eu a) ebus1 (k_pw a)) as [[e1 ebus2] act] eqn:Ee.
    destruct act as [|i pc|].
    - rewrite (sk_cycle_none head rest a _ _ _ _ _ _ _ Ef Ed Ee).
      destruct (sk_complete (after_none a fu1 l1i1 dbus2 ebus2 e1)) eqn:Ec.
      + eapply complete_exit; [eapply finv_none; eassumption | exact Ec | exact Hwf].
      + right. split; [reflexivity|]. eapply none_phi; eassumption.
    - pose proof (sk_cycle_exec head rest a _ _ _ _ _ _ _ _ _ HF Hwf Ef Ed Ee) as H.
      destruct (sk_cycle app a (head :: rest)); auto.
    - destruct (front_flow head a _ _ _ _ _ _ _ _ HF Ef Ed Ee) as (_ & _ & Hns & _). congruence.
  Qed.

  Lemma sk_cycle_dc a path :
    match sk_cycle app a path with
    | KDone dc => dc = 1
    | KStep _ _ dc => dc = 1 \/ dc = 2
    | KStuck => True
    end.
  Proof.
    unfold sk_cycle.
    destruct (fu_cycle app (k_fu a) (k_l1i a) (k_dbus a)) as [[[fu1 l1i1] dbus1]| |]; try exact I.
    destruct (du_cycle app dbus1 (k_ebus a)) as [[dbus2 ebus1]| |]; try exact I.
    destruct (sk_eu (k_eu a) ebus1 (k_pw a)) as [[e1 ebus2] act].
    destruct act as [|i pc|]; try exact I.
    - destruct (sk_complete _); auto.
    - destruct path as [|p rest]; try exact I. destruct (negb (p =? pc)); try exact I.
      destruct (is_ret i); [destruct rest; auto|]. destruct rest as [|next r]; try exact I.
      destruct (sk_flush i pc next); auto.
  Qed.

  Definition Kstep : nat := S (Z.to_nat phi_max).

  (* the skeleton run terminates: at most phi_max + 1 iterations between two
     executed instructions; every iteration counts one or two cycles *)
  Lemma sk_run_term : forall (m : nat) rest a head cyc fuel,
    FInv app head a -> path_wf app (head :: rest) ->
    (Z.to_nat (phi a) + length rest * Kstep <= m)%nat -> (m < fuel)%nat ->
    exists c, sk_run fuel app a (head :: rest) cyc = Some c /\
              cyc + Z.of_nat (length (head :: rest)) <= c <= cyc + 2 * (Z.of_nat m + 1).
  Proof.
    induction m as [m IH] using lt_wf_ind. intros rest a head cyc fuel HF Hwf Hm Hfuel.
    destruct fuel as [|f]; [lia|]. cbn [sk_run].
    pose proof (sk_progress head rest a HF Hwf) as Hp.
    pose proof (sk_cycle_dc a (head :: rest)) as Hdc.
    pose proof (phi_bounds head a HF) as Hphi.
    destruct (sk_cycle app a (head :: rest)) as [a' path' dc|dc|] eqn:Ec; [| |contradiction].
    - destruct (finv_step head rest a a' path' dc HF Hwf Ec) as (head' & rest' & -> & HF' & Hwf' & _).
      pose proof (phi_bounds head' a' HF') as Hphi'.
      destruct Hp as [Hp | [Hp Hlt]].
      + (* an instruction was executed *)
        subst rest. cbn [length] in Hm.
        assert (Hk : (S (length rest') * Kstep = Kstep + length rest' * Kstep)%nat) by reflexivity.
        assert (Hm1 : (1 <= m)%nat) by (unfold Kstep in *; lia).
        assert (Hm' : (Z.to_nat (phi a') + length rest' * Kstep <= m - 1)%nat) by (unfold Kstep in *; lia).
        destruct (IH (m - 1)%nat ltac:(lia) rest' a' head' (cyc + dc) f HF' Hwf' Hm' ltac:(lia)) as (c & Hc & Hb).
        exists c. split; [exact Hc|]. cbn [length] in *. lia.
      + injection Hp as -> ->.
        assert (Hm' : (Z.to_nat (phi a') + length rest * Kstep <= m - 1)%nat) by lia.
        destruct (IH (m - 1)%nat ltac:(lia) rest a' head (cyc + dc) f HF' Hwf' Hm' ltac:(lia)) as (c & Hc & Hb).
        exists c. split; [exact Hc|]. cbn [length] in *. lia.
    - subst rest dc. exists (cyc + 1). split; [reflexivity|]. cbn [length]. lia.
  Qed.
End Front.
