(* H: faithful cycle-level model of proc/mvp6-2 (superscalar, operand forwarding between
   execute units, speculative register state), AS THE CODE IS at /repo HEAD (1ed8ef8: an error of
   Runner.Run inside the flush loop is returned - `return 0, resp.err` - no longer `return 0, nil`):
     cpu.go  Run loop, flush loop, isEmpty       -> step62 (front62, back62, drain62, inner62, flush_adv62), run62_st, mvp62_run
     fu.go   fetch unit (coroutine)              -> Mvp60.fu_cycle6 (identical), fu_reset62 / fu_flush62 (IncSequenceID)
     du.go   decode unit                         -> du_cycle62 (sequence ids, clears the forward of the decoded instruction)
     cu.go   control unit                        -> cu_cycle62, handle_runner62, should_forward, skip_hazard
     eu.go   execute units (coroutine + Pre)     -> eu_cycle62, eu_prepare62, eu_run62, eu_run_exe62
     wu.go   write units                         -> wu_cycle62 (TransactionWriteRegister)
     bu.go   branch unit                         -> bu_assert62, bu_resolved62, Commit / Rollback through Comp/Tx.v
     mmu.go  identical to mvp6-0                 -> Mvp60.get_from_l3, push_line_to_l3, fetch_line_at
     common/coroutine                            -> the explicit states fu_co / eu_co / wu_co of Mvp60.v; Pre = pre_flush
   risc/app.go: Registers + Transaction = Comp/Tx.v (ctx, tx_write, commit, rollback, register_read with
   sequenceID 0: every Run / MemoryRead call of eu.go passes 0); ctx.sequenceID = n_seq.

   Pointers and channels.  The execute bus carries *InstructionRunnerPc: every pushed runner gets a
   fresh identity q_id; `previousRunner.Forwarder = ch` updates the bus entry with that identity
   (the control unit runs before the execute units, so the entry is still on the bus).  A channel has
   exactly one sender (a runner can only be chosen as previousRunner in the cycle after its push,
   and the control unit stops after one forwarding), so a channel is named by the identity of its
   sender: q_fwd = "Forwarder != nil", q_recv = Some id = "Receiver is the channel of sender id",
   n_chan = the values sent and not yet received.  The forward value lives in the STATIC
   instruction (op.forward, shared by all dynamic instances): n_fw, keyed by pc/4.

   Go map iteration: (1) the store lookup of Mvp60.v (argument ord, ghost flag); (2) the range over
   pushedRunnersInPreviousCycle in shouldUseForwarding: the model takes the push order and raises the
   same ghost flag when more than one previous runner matches (never observed; two previous runners
   writing the same register would have been a write-after-write hazard).  Commit / Rollback range
   over Transaction with distinct keys: order-independent (Comp/TxProofs.v), hint [].

   One Gallina step per ctx.VerifTick(); fuel = tick budget.  No proofs in this file. *)
From Coq Require Import ZArith List Bool Lia.
From Maj Require Import Base.Outcome Base.GoInt Base.GoTypes Isa.Spec Isa.Seq.
From Maj Require Import Gen.Latency Gen.RiscTables Gen.Opcodes Comp.Cache Mvp.Mvp12 Mvp.Mvp3 Mvp.Mvp5 Mvp.Mvp60.
From Maj Require Comp.Rat Comp.Tx.
Import ListNotations.
Open Scope Z_scope.

(* ------------------------------------------------------------------ *)
(* state                                                                *)
(* ------------------------------------------------------------------ *)

(* risc.InstructionRunnerPc: Runner, Pc, SequenceID, Forwarder (q_fwd), Receiver (q_recv), ForwardRegister;
   q_id = identity of the pointer pushed on the execute bus (0 before the push) *)
Record runner2 := mk_r2 { q_instr : instr; q_pc : Z; q_seq : Z; q_id : Z; q_fwd : bool; q_recv : option Z; q_freg : Z }.

(* executeUnit: coroutine state, memory, runner (kept after the execution), sequenceID *)
Record eu62 := mk_eu62 { x_co : eu_co; x_memory : list Z; x_runner : option runner2; x_seq : Z }.

(* ctx (Registers + Transaction = n_ctx, Memory, scoreboard, sequenceID), mmu, fetch unit, decode flags,
   control unit (pendings, pushedRunnersInPreviousCycle, pendingConditionalBranch), branch unit, buses,
   pointer counter, channels, op.forward of the static instructions *)
Record mach2 := mk_mach2 {
  n_ctx : Tx.ctx;
  n_mem : list Z;
  n_pw : list Z;
  n_pr : list Z;
  n_l1i : cache;
  n_l3 : cache;
  n_pend : list (Z * Z);
  n_fu : fu6;
  n_dret : bool;
  n_dpbr : bool;
  n_cu : list runner2;
  n_prev : list runner2;
  n_pcb : bool;
  n_bu : bu6;
  n_dbus : bbus Z;
  n_cbus : bbus runner2;
  n_ebus : bbus runner2;
  n_wbus : bbus wb6;
  n_seq : Z;
  n_nid : Z;
  n_chan : list (Z * Z);
  n_fw : list (Z * (Z * Z)) }.

Definition set_n_ctx (m : mach2) (x : Tx.ctx) : mach2 :=
  mk_mach2 x (n_mem m) (n_pw m) (n_pr m) (n_l1i m) (n_l3 m) (n_pend m) (n_fu m) (n_dret m) (n_dpbr m) (n_cu m) (n_prev m) (n_pcb m) (n_bu m) (n_dbus m) (n_cbus m) (n_ebus m) (n_wbus m) (n_seq m) (n_nid m) (n_chan m) (n_fw m).
Definition set_n_mem (m : mach2) (x : list Z) : mach2 :=
  mk_mach2 (n_ctx m) x (n_pw m) (n_pr m) (n_l1i m) (n_l3 m) (n_pend m) (n_fu m) (n_dret m) (n_dpbr m) (n_cu m) (n_prev m) (n_pcb m) (n_bu m) (n_dbus m) (n_cbus m) (n_ebus m) (n_wbus m) (n_seq m) (n_nid m) (n_chan m) (n_fw m).
Definition set_n_pw (m : mach2) (x : list Z) : mach2 :=
  mk_mach2 (n_ctx m) (n_mem m) x (n_pr m) (n_l1i m) (n_l3 m) (n_pend m) (n_fu m) (n_dret m) (n_dpbr m) (n_cu m) (n_prev m) (n_pcb m) (n_bu m) (n_dbus m) (n_cbus m) (n_ebus m) (n_wbus m) (n_seq m) (n_nid m) (n_chan m) (n_fw m).
Definition set_n_pr (m : mach2) (x : list Z) : mach2 :=
  mk_mach2 (n_ctx m) (n_mem m) (n_pw m) x (n_l1i m) (n_l3 m) (n_pend m) (n_fu m) (n_dret m) (n_dpbr m) (n_cu m) (n_prev m) (n_pcb m) (n_bu m) (n_dbus m) (n_cbus m) (n_ebus m) (n_wbus m) (n_seq m) (n_nid m) (n_chan m) (n_fw m).
Definition set_n_l1i (m : mach2) (x : cache) : mach2 :=
  mk_mach2 (n_ctx m) (n_mem m) (n_pw m) (n_pr m) x (n_l3 m) (n_pend m) (n_fu m) (n_dret m) (n_dpbr m) (n_cu m) (n_prev m) (n_pcb m) (n_bu m) (n_dbus m) (n_cbus m) (n_ebus m) (n_wbus m) (n_seq m) (n_nid m) (n_chan m) (n_fw m).
Definition set_n_l3 (m : mach2) (x : cache) : mach2 :=
  mk_mach2 (n_ctx m) (n_mem m) (n_pw m) (n_pr m) (n_l1i m) x (n_pend m) (n_fu m) (n_dret m) (n_dpbr m) (n_cu m) (n_prev m) (n_pcb m) (n_bu m) (n_dbus m) (n_cbus m) (n_ebus m) (n_wbus m) (n_seq m) (n_nid m) (n_chan m) (n_fw m).
Definition set_n_pend (m : mach2) (x : list (Z * Z)) : mach2 :=
  mk_mach2 (n_ctx m) (n_mem m) (n_pw m) (n_pr m) (n_l1i m) (n_l3 m) x (n_fu m) (n_dret m) (n_dpbr m) (n_cu m) (n_prev m) (n_pcb m) (n_bu m) (n_dbus m) (n_cbus m) (n_ebus m) (n_wbus m) (n_seq m) (n_nid m) (n_chan m) (n_fw m).
Definition set_n_fu (m : mach2) (x : fu6) : mach2 :=
  mk_mach2 (n_ctx m) (n_mem m) (n_pw m) (n_pr m) (n_l1i m) (n_l3 m) (n_pend m) x (n_dret m) (n_dpbr m) (n_cu m) (n_prev m) (n_pcb m) (n_bu m) (n_dbus m) (n_cbus m) (n_ebus m) (n_wbus m) (n_seq m) (n_nid m) (n_chan m) (n_fw m).
Definition set_n_dret (m : mach2) (x : bool) : mach2 :=
  mk_mach2 (n_ctx m) (n_mem m) (n_pw m) (n_pr m) (n_l1i m) (n_l3 m) (n_pend m) (n_fu m) x (n_dpbr m) (n_cu m) (n_prev m) (n_pcb m) (n_bu m) (n_dbus m) (n_cbus m) (n_ebus m) (n_wbus m) (n_seq m) (n_nid m) (n_chan m) (n_fw m).
Definition set_n_dpbr (m : mach2) (x : bool) : mach2 :=
  mk_mach2 (n_ctx m) (n_mem m) (n_pw m) (n_pr m) (n_l1i m) (n_l3 m) (n_pend m) (n_fu m) (n_dret m) x (n_cu m) (n_prev m) (n_pcb m) (n_bu m) (n_dbus m) (n_cbus m) (n_ebus m) (n_wbus m) (n_seq m) (n_nid m) (n_chan m) (n_fw m).
Definition set_n_cu (m : mach2) (x : list runner2) : mach2 :=
  mk_mach2 (n_ctx m) (n_mem m) (n_pw m) (n_pr m) (n_l1i m) (n_l3 m) (n_pend m) (n_fu m) (n_dret m) (n_dpbr m) x (n_prev m) (n_pcb m) (n_bu m) (n_dbus m) (n_cbus m) (n_ebus m) (n_wbus m) (n_seq m) (n_nid m) (n_chan m) (n_fw m).
Definition set_n_prev (m : mach2) (x : list runner2) : mach2 :=
  mk_mach2 (n_ctx m) (n_mem m) (n_pw m) (n_pr m) (n_l1i m) (n_l3 m) (n_pend m) (n_fu m) (n_dret m) (n_dpbr m) (n_cu m) x (n_pcb m) (n_bu m) (n_dbus m) (n_cbus m) (n_ebus m) (n_wbus m) (n_seq m) (n_nid m) (n_chan m) (n_fw m).
Definition set_n_pcb (m : mach2) (x : bool) : mach2 :=
  mk_mach2 (n_ctx m) (n_mem m) (n_pw m) (n_pr m) (n_l1i m) (n_l3 m) (n_pend m) (n_fu m) (n_dret m) (n_dpbr m) (n_cu m) (n_prev m) x (n_bu m) (n_dbus m) (n_cbus m) (n_ebus m) (n_wbus m) (n_seq m) (n_nid m) (n_chan m) (n_fw m).
Definition set_n_bu (m : mach2) (x : bu6) : mach2 :=
  mk_mach2 (n_ctx m) (n_mem m) (n_pw m) (n_pr m) (n_l1i m) (n_l3 m) (n_pend m) (n_fu m) (n_dret m) (n_dpbr m) (n_cu m) (n_prev m) (n_pcb m) x (n_dbus m) (n_cbus m) (n_ebus m) (n_wbus m) (n_seq m) (n_nid m) (n_chan m) (n_fw m).
Definition set_n_dbus (m : mach2) (x : bbus Z) : mach2 :=
  mk_mach2 (n_ctx m) (n_mem m) (n_pw m) (n_pr m) (n_l1i m) (n_l3 m) (n_pend m) (n_fu m) (n_dret m) (n_dpbr m) (n_cu m) (n_prev m) (n_pcb m) (n_bu m) x (n_cbus m) (n_ebus m) (n_wbus m) (n_seq m) (n_nid m) (n_chan m) (n_fw m).
Definition set_n_cbus (m : mach2) (x : bbus runner2) : mach2 :=
  mk_mach2 (n_ctx m) (n_mem m) (n_pw m) (n_pr m) (n_l1i m) (n_l3 m) (n_pend m) (n_fu m) (n_dret m) (n_dpbr m) (n_cu m) (n_prev m) (n_pcb m) (n_bu m) (n_dbus m) x (n_ebus m) (n_wbus m) (n_seq m) (n_nid m) (n_chan m) (n_fw m).
Definition set_n_ebus (m : mach2) (x : bbus runner2) : mach2 :=
  mk_mach2 (n_ctx m) (n_mem m) (n_pw m) (n_pr m) (n_l1i m) (n_l3 m) (n_pend m) (n_fu m) (n_dret m) (n_dpbr m) (n_cu m) (n_prev m) (n_pcb m) (n_bu m) (n_dbus m) (n_cbus m) x (n_wbus m) (n_seq m) (n_nid m) (n_chan m) (n_fw m).
Definition set_n_wbus (m : mach2) (x : bbus wb6) : mach2 :=
  mk_mach2 (n_ctx m) (n_mem m) (n_pw m) (n_pr m) (n_l1i m) (n_l3 m) (n_pend m) (n_fu m) (n_dret m) (n_dpbr m) (n_cu m) (n_prev m) (n_pcb m) (n_bu m) (n_dbus m) (n_cbus m) (n_ebus m) x (n_seq m) (n_nid m) (n_chan m) (n_fw m).
Definition set_n_seq (m : mach2) (x : Z) : mach2 :=
  mk_mach2 (n_ctx m) (n_mem m) (n_pw m) (n_pr m) (n_l1i m) (n_l3 m) (n_pend m) (n_fu m) (n_dret m) (n_dpbr m) (n_cu m) (n_prev m) (n_pcb m) (n_bu m) (n_dbus m) (n_cbus m) (n_ebus m) (n_wbus m) x (n_nid m) (n_chan m) (n_fw m).
Definition set_n_nid (m : mach2) (x : Z) : mach2 :=
  mk_mach2 (n_ctx m) (n_mem m) (n_pw m) (n_pr m) (n_l1i m) (n_l3 m) (n_pend m) (n_fu m) (n_dret m) (n_dpbr m) (n_cu m) (n_prev m) (n_pcb m) (n_bu m) (n_dbus m) (n_cbus m) (n_ebus m) (n_wbus m) (n_seq m) x (n_chan m) (n_fw m).
Definition set_n_chan (m : mach2) (x : list (Z * Z)) : mach2 :=
  mk_mach2 (n_ctx m) (n_mem m) (n_pw m) (n_pr m) (n_l1i m) (n_l3 m) (n_pend m) (n_fu m) (n_dret m) (n_dpbr m) (n_cu m) (n_prev m) (n_pcb m) (n_bu m) (n_dbus m) (n_cbus m) (n_ebus m) (n_wbus m) (n_seq m) (n_nid m) x (n_fw m).
Definition set_n_fw (m : mach2) (x : list (Z * (Z * Z))) : mach2 :=
  mk_mach2 (n_ctx m) (n_mem m) (n_pw m) (n_pr m) (n_l1i m) (n_l3 m) (n_pend m) (n_fu m) (n_dret m) (n_dpbr m) (n_cu m) (n_prev m) (n_pcb m) (n_bu m) (n_dbus m) (n_cbus m) (n_ebus m) (n_wbus m) (n_seq m) (n_nid m) (n_chan m) x.

Definition Wr (r : runner2) : list Z := instr_WriteRegisters (q_instr r).
Definition Rd (r : runner2) : list Z := instr_ReadRegisters (q_instr r).
Definition Ty (r : runner2) : Z := instr_InstructionType (q_instr r).

(* ctx.AddPendingRegisters / ctx.DeletePendingRegisters *)
Definition add_pending62 (m : mach2) (reads writes : list Z) : mach2 :=
  set_n_pr (set_n_pw m (sb_incr (n_pw m) writes)) (sb_incr (n_pr m) reads).
Definition del_pending62 (m : mach2) (reads writes : list Z) : mach2 :=
  set_n_pr (set_n_pw m (sb_decr (n_pw m) writes)) (sb_decr (n_pr m) reads).

(* ctx.SequenceID(pc) = pc + ctx.sequenceID*1000 (int32) *)
Definition seq_id (m : mach2) (pc : Z) : Z := addS 32 pc (mulS 32 (n_seq m) 1000).

(* op.forward of app.Instructions[idx]; Forward{} = (Zero, 0) *)
Definition fw_get (m : mach2) (idx : Z) : Z * Z :=
  match Rat.aget idx (n_fw m) with Some f => f | None => (0, 0) end.
Definition fw_set (m : mach2) (idx : Z) (f : Z * Z) : mach2 := set_n_fw m (Rat.aset idx f (n_fw m)).
Definition idx_of (pc : Z) : Z := Z.quot pc 4.

(* registerRead(ctx, op.forward, reg, 0) for the instruction of runner r *)
Definition rr62 (m : mach2) (r : runner2) : Z -> Z :=
  fun reg => Tx.register_read (n_ctx m) (fw_get m (idx_of (q_pc r))) reg 0.

(* ctx.Registers as the 32-entry list of the result *)
Definition regs_of (c : Tx.ctx) : list Z := map (fun i => Tx.reg_get c (Z.of_nat i)) (seq 0 32).

(* ------------------------------------------------------------------ *)
(* fu.go: cycle / start / memoryAccess are Mvp60.fu_cycle6; reset and   *)
(* flush also call ctx.IncSequenceID()                                  *)
(* ------------------------------------------------------------------ *)

Definition fu_reset62 (m : mach2) (pc : Z) : mach2 :=
  set_n_seq (set_n_fu m (fu_reset6 (n_fu m) pc)) (addS 32 (n_seq m) 1).
Definition fu_flush62 (m : mach2) (pc : Z) : mach2 :=
  set_n_seq (set_n_fu m (fu_flush6 (n_fu m) pc)) (addS 32 (n_seq m) 1).

(* ------------------------------------------------------------------ *)
(* du.go                                                                *)
(* ------------------------------------------------------------------ *)

(* the for loop of decodeUnit.cycle over the queue of the decode bus; returns
   (ret, pendingBranchResolution, rest of the queue, control bus, forwards) *)
Fixpoint du_loop62 (q : list Z) (app : list instr) (cycle : Z) (sq : Z) (ret pbr : bool) (cbus : bbus runner2)
         (fw : list (Z * (Z * Z))) : outcome (bool * bool * list Z * bbus runner2 * list (Z * (Z * Z))) :=
  match q with
  | [] => Ok (ret, pbr, [], cbus, fw)
  | pc :: q' =>
      if nlen6 app <=? Z.quot pc 4 then Ok (ret, pbr, q', cbus, fw)
      else if Z.quot pc 4 <? 0 then Panic
      else match nth_error app (Z.to_nat (Z.quot pc 4)) with
           | None => Panic
           | Some i =>
               let ty := instr_InstructionType i in
               let jump := InstructionType_IsUnconditionalBranch ty in
               (* runner.Forward(risc.Forward{}) *)
               let fw' := Rat.aset (idx_of pc) (0, 0) fw in
               let cbus' := bb_add cbus (mk_r2 i pc (addS 32 pc (mulS 32 sq 1000)) 0 false None 0) cycle in
               if jump then Ok (ret, true, q', cbus', fw')
               else if ty =? Ret then Ok (true, pbr, q', cbus', fw')
               else du_loop62 q' app cycle sq ret pbr cbus' fw'
           end
  end.

(* decodeUnit.cycle *)
Definition du_cycle62 (app : list instr) (cycle : Z) (m : mach2) : outcome mach2 :=
  if n_dret m then Ok m
  else if n_dpbr m then Ok m
  else
    r <- du_loop62 (bb_q (n_dbus m)) app cycle (n_seq m) (n_dret m) (n_dpbr m) (n_cbus m) (n_fw m) ;;
    let '(ret, pbr, q', cbus', fw') := r in
    let d := n_dbus m in
    Ok (set_n_fw (set_n_cbus (set_n_dbus (set_n_dpbr (set_n_dret m ret) pbr) (mk_bb (bb_buf d) q' (bb_ql d) (bb_bl d))) cbus') fw').

(* ------------------------------------------------------------------ *)
(* cu.go                                                                *)
(* ------------------------------------------------------------------ *)

(* what controlUnit.cycle resets at its start: pushedRunnersInCurrentCycle (in push order),
   skippedInCurrentCycle, pushedBranchInCurrentCycle *)
Record cu_loc := mk_cul { c_cur : list runner2; c_skip : list runner2; c_pb : bool }.

(* isDataHazardWithSkippedRunners *)
Definition skip_hazard (skipped : list runner2) (r : runner2) : bool :=
  existsb (fun s =>
    existsb (fun reg => negb (reg =? 0) && existsb (Z.eqb reg) (Wr s)) (Rd r) ||
    existsb (fun reg => negb (reg =? 0) && (existsb (Z.eqb reg) (Wr s) || existsb (Z.eqb reg) (Rd s))) (Wr r)) skipped.

(* ctx.IsDataHazard3: number of hazards and which types occur *)
Definition hz_raw (m : mach2) (r : runner2) : Z :=
  zlen (filter (fun x => negb (x =? 0) && (0 <? sb_get (n_pw m) x)) (Rd r)).
Definition hz_waw (m : mach2) (r : runner2) : Z :=
  zlen (filter (fun x => negb (x =? 0) && (0 <? sb_get (n_pw m) x)) (Wr r)).
Definition hz_war (m : mach2) (r : runner2) : Z :=
  zlen (filter (fun x => negb (x =? 0) && (0 <? sb_get (n_pr m) x)) (Wr r)).

(* the two inner loops of shouldUseForwarding for one previous runner *)
Fixpoint fwd_match (ws reads : list Z) : option Z :=
  match ws with
  | [] => None
  | w :: t => match find (fun x => negb (x =? 0) && (x =? w)) reads with
              | Some x => Some x
              | None => fwd_match t reads
              end
  end.
(* every previous runner that would be returned if the map iteration reached it first *)
Definition fwd_candidates (prevs : list runner2) (r : runner2) : list (runner2 * Z) :=
  flat_map (fun p => match fwd_match (Wr p) (Rd r) with Some reg => [(p, reg)] | None => [] end) prevs.

Definition bb_map {T} (f : T -> T) (b : bbus T) : bbus T :=
  mk_bb (map (fun p => (fst p, f (snd p))) (bb_buf b)) (map f (bb_q b)) (bb_ql b) (bb_bl b).
(* previousRunner.Forwarder = ch, on the pointer that is on the execute bus *)
Definition mark_fwd (id : Z) (r : runner2) : runner2 :=
  if q_id r =? id then mk_r2 (q_instr r) (q_pc r) (q_seq r) (q_id r) true (q_recv r) (q_freg r) else r.

(* pushRunner: None when the execute bus cannot add; the pushed pointer gets a fresh identity *)
Definition push_runner62 (m : mach2) (cycle : Z) (r : runner2) : option (mach2 * runner2) :=
  if negb (bb_canadd (n_ebus m)) then None else
  let r' := mk_r2 (q_instr r) (q_pc r) (q_seq r) (n_nid m) (q_fwd r) (q_recv r) (q_freg r) in
  Some (add_pending62 (set_n_nid (set_n_ebus m (bb_add (n_ebus m) r' cycle)) (n_nid m + 1)) (Rd r) (Wr r), r').

(* handleRunner: (push, stop, ghost, machine, locals, the runner as modified through the pointer) *)
Definition handle_runner62 (m : mach2) (cycle : Z) (l : cu_loc) (r : runner2)
  : bool * bool * bool * mach2 * cu_loc * runner2 :=
  let ty := Ty r in
  if InstructionType_IsBranch ty && c_pb l then (false, true, false, m, l, r)
  else if (ty =? Ret) && (negb (bb_isempty (n_ebus m)) || n_pcb m) then (false, true, false, m, l, r)
  else if skip_hazard (c_skip l) r then (false, false, false, m, l, r)
  else
    let nraw := hz_raw m r in let nwaw := hz_waw m r in let nwar := hz_war m r in
    if nraw + nwaw + nwar =? 0 then
      match push_runner62 m cycle r with
      | None => (false, true, false, m, l, r)
      | Some (m1, r1) => (true, false, false, m1, mk_cul (c_cur l ++ [r1]) (c_skip l) (c_pb l), r1)
      end
    else if (nraw + nwaw + nwar =? 1) && (nraw =? 1) then
      (* shouldUseForwarding: exactly one hazard, read-after-write *)
      match fwd_candidates (n_prev m) r with
      | [] => (false, true, false, m, l, r)
      | (p, reg) :: more =>
          let g := negb (zlen more =? 0) in
          let m0 := set_n_ebus m (bb_map (mark_fwd (q_id p)) (n_ebus m)) in
          let r0 := mk_r2 (q_instr r) (q_pc r) (q_seq r) (q_id r) (q_fwd r) (Some (q_id p)) reg in
          match push_runner62 m0 cycle r0 with
          | None => (false, true, g, m0, l, r0)
          | Some (m1, r1) => (true, true, g, m1, mk_cul (c_cur l ++ [r1]) (c_skip l) (c_pb l), r1)
          end
      end
    else (false, true, false, m, l, r).

(* after a push: pushedBranchInCurrentCycle / pendingConditionalBranch *)
Definition cu_after_push (m : mach2) (l : cu_loc) (r : runner2) : mach2 * cu_loc :=
  (if InstructionType_IsConditionalBranch (Ty r) then set_n_pcb m true else m,
   if InstructionType_IsBranch (Ty r) then mk_cul (c_cur l) (c_skip l) true else l).

(* for elem := range u.pendings.Iterator() (snapshot of the queue, in order);
   returns (stopped, queue afterwards, machine, locals, ghost) *)
Fixpoint cu_pending62 (ps kept : list runner2) (m : mach2) (cycle : Z) (l : cu_loc) (g : bool)
  : bool * list runner2 * mach2 * cu_loc * bool :=
  match ps with
  | [] => (false, rev kept, m, l, g)
  | r :: t =>
      let '(push, stop, g1, m1, l1, r1) := handle_runner62 m cycle l r in
      let kept' := if push then kept else r :: kept in
      let '(m2, l2) := if push then cu_after_push m1 l1 r1
                       else (m1, mk_cul (c_cur l1) (c_skip l1 ++ [r1]) (c_pb l1)) in
      if stop then (true, rev kept' ++ t, m2, l2, g || g1)
      else cu_pending62 t kept' m2 cycle l2 (g || g1)
  end.

(* for !u.pendings.IsFull() { runner, exists := u.inBus.Get(); ... } over the queue of the control bus;
   returns (rest of that queue, pendings, machine, locals, ghost) *)
Fixpoint cu_incoming62 (q : list runner2) (pend : list runner2) (m : mach2) (cycle : Z) (l : cu_loc) (g : bool)
  : list runner2 * list runner2 * mach2 * cu_loc * bool :=
  if pendingLength <=? zlen pend then (q, pend, m, l, g) else
  match q with
  | [] => (q, pend, m, l, g)
  | r :: q' =>
      let '(push, stop, g1, m1, l1, r1) := handle_runner62 m cycle l r in
      let pend' := if push then pend else pend ++ [r1] in
      let '(m2, l2) := if push then cu_after_push m1 l1 r1
                       else (m1, mk_cul (c_cur l1) (c_skip l1 ++ [r1]) (c_pb l1)) in
      if stop then (q', pend', m2, l2, g || g1)
      else cu_incoming62 q' pend' m2 cycle l2 (g || g1)
  end.

(* controlUnit.cycle; the deferred function makes pushedRunnersInPreviousCycle the runners pushed now *)
Definition cu_cycle62 (cycle : Z) (m : mach2) : mach2 * bool :=
  if negb (bb_canadd (n_ebus m)) then (set_n_prev m [], false) else
  let '(stopped, pend1, m1, l1, g1) := cu_pending62 (n_cu m) [] m cycle (mk_cul [] [] false) false in
  if stopped then (set_n_prev (set_n_cu m1 pend1) (c_cur l1), g1) else
  let '(q', pend2, m2, l2, g2) := cu_incoming62 (bb_q (n_cbus m1)) pend1 m1 cycle l1 g1 in
  let c := n_cbus m2 in
  (set_n_prev (set_n_cu (set_n_cbus m2 (mk_bb (bb_buf c) q' (bb_ql c) (bb_bl c))) pend2) (c_cur l2), g2).

(* ------------------------------------------------------------------ *)
(* bu.go                                                                *)
(* ------------------------------------------------------------------ *)

(* btbBranchUnit.assert *)
Definition bu_assert62 (m : mach2) (r : runner2) : mach2 :=
  let ty := Ty r in
  let b := n_bu m in
  if InstructionType_IsUnconditionalBranch ty then
    match btb_get (b_btb b) (q_pc r) with
    | None => set_n_bu m (mk_bu6 true (-1) (b_btb b))
    | Some nextPc => fu_reset62 (set_n_bu m (mk_bu6 false (b_expect b) (b_btb b))) nextPc
    end
  else if InstructionType_IsConditionalBranch ty then
    set_n_bu m (mk_bu6 true (addS 32 (q_pc r) 4) (b_btb b))
  else set_n_bu m (mk_bu6 false (b_expect b) (b_btb b)).

(* notifyUnconditionalJumpAddressResolved(pc, pcTo): btb.add, fu.reset(pcTo, true), du.notifyBranchResolved() *)
Definition bu_resolved62 (m : mach2) (pc pcTo : Z) : mach2 :=
  let b := n_bu m in
  set_n_dpbr (fu_reset62 (set_n_bu m (mk_bu6 (b_check b) (b_expect b) (btb_add (b_btb b) pc pcTo))) pcTo) false.

(* notifyConditionalBranchTaken(sequenceID): cu.notifyConditionalBranch(); wu.rollback(sequenceID) *)
Definition bu_taken62 (m : mach2) (sq : Z) : mach2 :=
  set_n_ctx (set_n_pcb m false) (Tx.rollback [] sq (n_ctx m)).
(* notifyConditionalBranchNotTaken(): cu.notifyConditionalBranch(); wu.commit() *)
Definition bu_nottaken62 (m : mach2) : mach2 :=
  set_n_ctx (set_n_pcb m false) (Tx.commit [] (n_ctx m)).

(* ------------------------------------------------------------------ *)
(* eu.go                                                                *)
(* ------------------------------------------------------------------ *)

(* euResp: flush, sequenceID, pc, isReturn (err = the outcome) *)
Record eu_out62 := mk_euo62 { p_flush : bool; p_seq : Z; p_pc : Z; p_ret : bool }.
Definition euo62_none : eu_out62 := mk_euo62 false 0 0 false.

Definition eu_res62 : Type := bool * outcome (mach2 * eu62 * eu_out62).
Definition quiet62 (o : outcome (mach2 * eu62 * eu_out62)) : eu_res62 := (false, o).

(* v := <-ch (non-blocking): the value the sender `id` has sent, removed from the channel *)
Fixpoint chan_take (ch : list (Z * Z)) (id : Z) : option (Z * list (Z * Z)) :=
  match ch with
  | [] => None
  | (i, v) :: t => if i =? id then Some (v, t)
                   else match chan_take t id with Some (x, t') => Some (x, (i, v) :: t') | None => None end
  end.

(* executeUnit.run after Runner.Run returned exe without error (the coroutine has been Reset) *)
Definition eu_run_exe62 (ord : Z -> Z -> list Z -> list Z) (cycle : Z) (m : mach2) (e : eu62) (r : runner2) (exe : execution)
  : outcome (mach2 * eu62 * eu_out62) :=
  let i := q_instr r in
  let e0 := mk_eu62 ENone (x_memory e) (x_runner e) (x_seq e) in
  if Return exe then Ok (m, e0, mk_euo62 false 0 0 true) else
  let reads := instr_ReadRegisters i in
  let writes := instr_WriteRegisters i in
  let keys := map fst (sort_changes (MemoryChanges exe)) in
  st <- (if MemoryChange exe then
           g <- get_from_l3 (n_l3 m) (n_pend m) (ord cycle (q_pc r) keys) [] ;;
           let '(c1, p1, res) := g in
           match res with
           | L3Hit _ =>
               match sort_changes (MemoryChanges exe) with
               | [] => Panic
               | (a0, _) :: _ =>
                   c2 <- write c1 a0 (map snd (sort_changes (MemoryChanges exe))) ;;
                   Ok (set_n_pend (set_n_l3 m c2) p1, true)
               end
           | _ => Ok (set_n_pend (set_n_l3 m c1) p1, false)
           end
         else Ok (m, false)) ;;
  let '(m1, in_l3) := st in
  if in_l3 then Ok (del_pending62 m1 reads writes, e0, euo62_none) else
  let m2 := set_n_wbus m1 (bb_add (n_wbus m1) (mk_wb6 (q_seq r) exe reads writes) cycle) in
  let ty := instr_InstructionType i in
  if negb (q_fwd r) then
    let m3 := if InstructionType_IsUnconditionalBranch ty then bu_resolved62 m2 (q_pc r) (NextPc exe) else m2 in
    let m4 := if InstructionType_IsConditionalBranch ty then
                if PcChange exe && negb (NextPc exe =? addS 32 (q_pc r) 4) then bu_taken62 m3 (q_seq r)
                else bu_nottaken62 m3
              else m3 in
    if PcChange exe then
      let '(b', fl) := bu_should_flush6 (n_bu m4) (NextPc exe) in
      Ok (set_n_bu m4 b', e0, if fl then mk_euo62 true (q_seq r) (NextPc exe) false else euo62_none)
    else Ok (m4, e0, euo62_none)
  else
    (* u.runner.Forwarder <- execution.RegisterValue; a branch panics afterwards *)
    if InstructionType_IsBranch ty then Panic
    else Ok (set_n_chan m2 (n_chan m2 ++ [(q_id r, RegisterValue exe)]), e0, euo62_none).

(* executeUnit.run: Runner.Run, then the forward of the static instruction is cleared (also on an error) *)
Definition eu_run62 (labels : Z -> option Z) (ord : Z -> Z -> list Z -> list Z) (cycle : Z) (m : mach2) (e : eu62)
  : eu_res62 :=
  match x_runner e with
  | None => quiet62 Panic
  | Some r =>
      match instr_Run (q_instr r) (rr62 m r) labels (q_pc r) (x_memory e) 0 with
      | Ok exe =>
          let m' := fw_set m (idx_of (q_pc r)) (0, 0) in
          (negb (Return exe) && MemoryChange exe &&
           store_order_matters (n_l3 m) (n_pend m) (map fst (sort_changes (MemoryChanges exe))),       (* ghost *)
           eu_run_exe62 ord cycle m' e r exe)
      | Err er => quiet62 (Err er)
      | Panic => quiet62 Panic
      end
  end.

(* executeUnit.prepareRun *)
Definition eu_prepare62 (labels : Z -> option Z) (ord : Z -> Z -> list Z -> list Z) (cycle : Z) (m : mach2) (e : eu62)
  : eu_res62 :=
  if negb (bb_canadd (n_wbus m)) then quiet62 (Ok (m, e, euo62_none)) else
  match x_runner e with
  | None => quiet62 Panic
  | Some r =>
      (* if u.runner.Receiver != nil { select { case v := <-Receiver: ... default: return } } *)
      let rcv := match q_recv r with
                 | None => Some (m, r)
                 | Some id =>
                     match chan_take (n_chan m) id with
                     | None => None
                     | Some (v, ch') =>
                         Some (fw_set (set_n_chan m ch') (idx_of (q_pc r)) (q_freg r, v),
                               mk_r2 (q_instr r) (q_pc r) (q_seq r) (q_id r) (q_fwd r) None (q_freg r))
                     end
                 end in
      match rcv with
      | None => quiet62 (Ok (m, e, euo62_none))
      | Some (m0, r0) =>
          let e := mk_eu62 (x_co e) (x_memory e) (Some r0) (x_seq e) in
          let m1 := bu_assert62 m0 r0 in
          let addrs := instr_MemoryRead (q_instr r0) (rr62 m1 r0) 0 in
          match addrs with
          | [] => eu_run62 labels ord cycle m1 (mk_eu62 ENone (x_memory e) (x_runner e) (x_seq e))
          | _ :: _ =>
              quiet62 (
              g <- get_from_l3 (n_l3 m1) (n_pend m1) addrs [] ;;
              let '(c1, p1, res) := g in
              let m2 := set_n_pend (set_n_l3 m1 c1) p1 in
              match res with
              | L3Pending => Ok (m2, e, euo62_none)
              | L3Hit bytes => Ok (m2, mk_eu62 (EWaitL3 (L3Access - 1)) bytes (x_runner e) (x_seq e), euo62_none)
              | L3Miss => Ok (m2, mk_eu62 (EWaitMem (MemoryAccess - 1) addrs) (x_memory e) (x_runner e) (x_seq e), euo62_none)
              end)
          end
      end
  end.

(* the memory-wait closure when remainingCycles has reached 0: fetchCacheLine, pushLineToL3, getFromL3 *)
Definition eu_fill62 (m : mach2) (e : eu62) (addrs : list Z) : outcome (mach2 * eu62) :=
  match addrs with
  | [] => Panic
  | a0 :: _ =>
      ln <- fetch_line_at (n_mem m) a0 ;;
      p <- push_line_to_l3 (n_l3 m) (n_pend m) (n_mem m) a0 ln ;;
      let '(c1, p1, mem1) := p in
      g <- get_from_l3 c1 p1 addrs [] ;;
      let '(c2, p2, res) := g in
      match res with
      | L3Hit bytes => Ok (set_n_mem (set_n_pend (set_n_l3 m c2) p2) mem1, mk_eu62 (x_co e) bytes (x_runner e) (x_seq e))
      | _ => Panic                               (* panic("cache line doesn't exist") *)
      end
  end.

(* the Pre function of the execute unit: a unit holding an instruction younger than eu.sequenceID is flushed *)
Definition pre_flush (e : eu62) : bool :=
  negb (x_seq e =? 0) &&
  match x_runner e with Some r => x_seq e <? q_seq r | None => false end.

(* executeUnit.Cycle = Coroutine.Cycle: Pre, then the current function *)
Definition eu_cycle62 (labels : Z -> option Z) (ord : Z -> Z -> list Z -> list Z) (cycle : Z) (m : mach2) (e : eu62)
  : eu_res62 :=
  if pre_flush e then quiet62 (Ok (m, mk_eu62 ENone (x_memory e) (x_runner e) 0, euo62_none)) else
  match x_co e with
  | ENone =>
      let '(ebus', got) := bb_get (n_ebus m) in
      match got with
      | None => quiet62 (Ok (m, e, euo62_none))
      | Some r => eu_prepare62 labels ord cycle (set_n_ebus m ebus') (mk_eu62 EPrepare (x_memory e) (Some r) (x_seq e))
      end
  | EPrepare => eu_prepare62 labels ord cycle m e
  | EWaitL3 rem =>
      if 0 <? rem then quiet62 (Ok (m, mk_eu62 (EWaitL3 (rem - 1)) (x_memory e) (x_runner e) (x_seq e), euo62_none))
      else eu_run62 labels ord cycle m e
  | EWaitMem rem addrs =>
      if 0 <? rem then quiet62 (Ok (m, mk_eu62 (EWaitMem (rem - 1) addrs) (x_memory e) (x_runner e) (x_seq e), euo62_none))
      else
        match eu_fill62 m e addrs with
        | Ok (m1, e1) => eu_run62 labels ord cycle m1 e1
        | Err er => quiet62 (Err er)
        | Panic => quiet62 Panic
        end
  end.

Definition eu_empty62 (e : eu62) : bool := match x_co e with ENone => true | _ => false end.
Definition eu_set_seq (sq : Z) (e : eu62) : eu62 := mk_eu62 (x_co e) (x_memory e) (x_runner e) sq.

(* acc = the local variables (flush, sequenceID, pc, ret) of the main loop *)
Definition acc_step (acc o : eu_out62) : eu_out62 :=
  (* if resp.flush && (!flush || resp.sequenceID < sequenceID) { sequenceID = resp.sequenceID; pc = resp.pc } *)
  let take := p_flush o && (negb (p_flush acc) || (p_seq o <? p_seq acc)) in
  mk_euo62 (p_flush acc || p_flush o) (if take then p_seq o else p_seq acc)
           (if take then p_pc o else p_pc acc) (p_ret acc || p_ret o).

(* main loop: for i, eu := range m.executeUnits { eu.sequenceID = sequenceID; resp := eu.Cycle(...); ... } *)
Fixpoint eus_main62 (labels : Z -> option Z) (ord : Z -> Z -> list Z -> list Z) (cycle : Z)
         (m : mach2) (eus : list eu62) (acc : eu_out62) : bool * outcome (mach2 * list eu62 * eu_out62) :=
  match eus with
  | [] => (false, Ok (m, [], acc))
  | e :: t =>
      let '(os1, r1) := eu_cycle62 labels ord cycle m (eu_set_seq (p_seq acc) e) in
      match r1 with
      | Ok (m1, e1, o) =>
          let '(os2, r) := eus_main62 labels ord cycle m1 t (acc_step acc o) in
          (os1 || os2, x <- r ;; let '(m2, t', acc2) := x in Ok (m2, e1 :: t', acc2))
      | Err er => (os1, Err er)
      | Panic => (os1, Panic)
      end
  end.

(* drain loop after ret: for _, eu := range m.executeUnits { if eu.isEmpty() { continue }; eu.Cycle(...) } *)
Fixpoint eus_drain62 (labels : Z -> option Z) (ord : Z -> Z -> list Z -> list Z) (cycle : Z)
         (m : mach2) (eus : list eu62) : bool * outcome (mach2 * list eu62) :=
  match eus with
  | [] => (false, Ok (m, []))
  | e :: t =>
      if eu_empty62 e then
        let '(os, r) := eus_drain62 labels ord cycle m t in
        (os, x <- r ;; Ok (fst x, e :: snd x))
      else
        let '(os1, r1) := eu_cycle62 labels ord cycle m e in
        match r1 with
        | Ok (m1, e1, _) =>
            let '(os2, r) := eus_drain62 labels ord cycle m1 t in
            (os1 || os2, x <- r ;; Ok (fst x, e1 :: snd x))
        | Err er => (os1, Err er)
        | Panic => (os1, Panic)
        end
  end.

(* flush loop: for _, eu := range m.executeUnits { if !eu.isEmpty() { resp := eu.Cycle(euReq{fromCycle, ..}) ... } };
   an inner flush replaces (sequenceID, pc) whatever its age.  (sq, pc) = the local variables. *)
Fixpoint eus_inner62 (labels : Z -> option Z) (ord : Z -> Z -> list Z -> list Z) (fromc : Z)
         (m : mach2) (eus : list eu62) (sq pc : Z) : bool * outcome (mach2 * list eu62 * Z * Z) :=
  match eus with
  | [] => (false, Ok (m, [], sq, pc))
  | e :: t =>
      if eu_empty62 e then
        let '(os, r) := eus_inner62 labels ord fromc m t sq pc in
        (os, x <- r ;; let '(m2, t', sq2, pc2) := x in Ok (m2, e :: t', sq2, pc2))
      else
        let '(os1, r1) := eu_cycle62 labels ord fromc m e in
        match r1 with
        | Ok (m1, e1, o) =>
            let '(os2, r) := eus_inner62 labels ord fromc m1 t (if p_flush o then p_seq o else sq) (if p_flush o then p_pc o else pc) in
            (os1 || os2, x <- r ;; let '(m2, t', sq2, pc2) := x in Ok (m2, e1 :: t', sq2, pc2))
        | Err er => (os1, Err er)
        | Panic => (os1, Panic)
        end
  end.

(* ------------------------------------------------------------------ *)
(* wu.go                                                                *)
(* ------------------------------------------------------------------ *)

(* writeUnit.Cycle(wuReq{before}) *)
Definition wu_cycle62 (m : mach2) (w : wu6) (before : Z) : outcome (mach2 * wu6) :=
  match u_co w with
  | WMem rem =>
      if 0 <? rem then Ok (m, mk_wu6 (WMem (rem - 1)) (u_mw w))
      else
        match u_mw w with
        | None => Panic
        | Some x =>
            if negb (forallb (in_mem (n_mem m)) (map fst (MemoryChanges (w_exe x)))) then Panic
            else Ok (del_pending62 (set_n_mem m (mset_all (n_mem m) (MemoryChanges (w_exe x)))) (w_reads x) (w_writes x),
                     mk_wu6 WNone (u_mw w))
        end
  | WNone =>
      let '(wbus', got) := bb_get (n_wbus m) in
      let m := set_n_wbus m wbus' in
      match got with
      | None => Ok (m, w)
      | Some x =>
          if negb (before =? -1) && (before <? w_seq x) then Ok (m, w)      (* dropped *)
          else if RegisterChange (w_exe x) then
            (* ctx.TransactionWriteRegister(exe, sequenceID) *)
            Ok (del_pending62 (set_n_ctx m (Tx.tx_write (n_ctx m) (Register (w_exe x)) (RegisterValue (w_exe x)) (w_seq x)))
                              (w_reads x) (w_writes x), w)
          else if MemoryChange (w_exe x) then Ok (m, mk_wu6 (WMem MemoryAccess) (Some x))
          else Ok (del_pending62 m (w_reads x) (w_writes x), w)
      end
  end.

Fixpoint wus_cycle62 (m : mach2) (wus : list wu6) (before : Z) : outcome (mach2 * list wu6) :=
  match wus with
  | [] => Ok (m, [])
  | w :: t =>
      r1 <- wu_cycle62 m w before ;;
      r <- wus_cycle62 (fst r1) t before ;;
      Ok (fst r, snd r1 :: snd r)
  end.

(* ------------------------------------------------------------------ *)
(* cpu.go                                                               *)
(* ------------------------------------------------------------------ *)

(* which loop of Run the next tick belongs to *)
Inductive mode62 :=
| NNormal                                        (* the main for loop *)
| NRet                                           (* the drain loop after a ret *)
| NFlushE (sq pc fromc : Z)                      (* top of the `for {` of the flush branch *)
| NFlushW (k : nat) (sq pc fromc : Z) (isEmpty : bool).  (* `for !wu.isEmpty() || !writeBus.IsEmpty()` of write unit k in it *)

Record st62 := mk_st62 { t_m : mach2; t_eus : list eu62; t_wus : list wu6; t_cycle : Z; t_mode : mode62;
                         t_os : bool (* ghost *) }.

Inductive step_res62 := TDone (r : mres) (os : bool) | TCont (s : st62).

(* cycle += mmu.flush(); m.ctx.Commit(); return cycle, nil *)
Definition finish62 (m : mach2) (cycle : Z) : mres :=
  match flush_lines (lines (n_l3 m)) (n_mem m) 0 with
  | Ok (mem', c) => MDone (cycle + c) (mk_arch (regs_of (Tx.commit [] (n_ctx m))) mem')
  | _ => MPanic
  end.

(* CPU.flush(pc) *)
Definition do_flush62 (m : mach2) (pc : Z) : mach2 :=
  let m := fu_flush62 m pc in
  mk_mach2 (n_ctx m) (n_mem m) zero_sb zero_sb (n_l1i m) (n_l3 m) (n_pend m)
           (n_fu m) false false [] [] false (n_bu m)
           (bb_clean (n_dbus m)) (bb_clean (n_cbus m)) (bb_clean (n_ebus m)) (bb_clean (n_wbus m))
           (n_seq m) (n_nid m) (n_chan m) (n_fw m).

(* CPU.isEmpty() *)
Definition is_empty62 (m : mach2) (eus : list eu62) (wus : list wu6) : bool :=
  f_complete (n_fu m) && (zlen (n_cu m) =? 0) && forallb wu_empty wus &&
  bb_isempty (n_dbus m) && bb_isempty (n_cbus m) && bb_isempty (n_ebus m) && bb_isempty (n_wbus m) &&
  forallb eu_empty62 eus.

(* condition of the drain loop after ret *)
Definition ret_check62 (s : st62) : step_res62 :=
  if forallb eu_empty62 (t_eus s) && forallb wu_empty (t_wus s) && bb_isempty (n_wbus (t_m s))
  then TDone (finish62 (t_m s) (t_cycle s)) (t_os s)
  else TCont (mk_st62 (t_m s) (t_eus s) (t_wus s) (t_cycle s) NRet (t_os s)).

(* inside one iteration of the flush loop, after writeBus.Connect(cycle+1): the loops of the write units from
   unit k on; when all are over: `if isEmpty { break }`, then m.flush(pc); cycle += latency.Flush; continue *)
Definition flush_adv62 (s : st62) (k : nat) (sq pc fromc : Z) (isEmpty : bool) : step_res62 :=
  match flush_next (skipn k (t_wus s)) k (bb_isempty (n_wbus (t_m s))) with
  | Some k' => TCont (mk_st62 (t_m s) (t_eus s) (t_wus s) (t_cycle s) (NFlushW k' sq pc fromc isEmpty) (t_os s))
  | None =>
      if isEmpty then
        TCont (mk_st62 (do_flush62 (t_m s) pc) (map (fun e => mk_eu62 ENone (x_memory e) (x_runner e) 0) (t_eus s))
                       (t_wus s) (t_cycle s + Flush) NNormal (t_os s))
      else TCont (mk_st62 (t_m s) (t_eus s) (t_wus s) (t_cycle s) (NFlushE sq pc fromc) (t_os s))
  end.

Definition res_of62 {A} (os : bool) (o : outcome A) (k : A -> step_res62) : step_res62 :=
  match o with Ok x => k x | Err e => TDone (MErr e) os | Panic => TDone MPanic os end.

(* the first half of an iteration of the main loop: the four Connect calls, fetch, decode, control *)
Definition front62 (app : list instr) (cycle : Z) (m : mach2) : outcome (mach2 * bool) :=
  let m := set_n_wbus (set_n_ebus (set_n_cbus (set_n_dbus m (bb_connect (n_dbus m) cycle)) (bb_connect (n_cbus m) cycle))
                                  (bb_connect (n_ebus m) cycle)) (bb_connect (n_wbus m) cycle) in
  r <- fu_cycle6 app cycle (n_fu m) (n_l1i m) (n_dbus m) ;;
  let '(fu1, l1i1, dbus1) := r in
  m <- du_cycle62 app cycle (set_n_dbus (set_n_l1i (set_n_fu m fu1) l1i1) dbus1) ;;
  Ok (cu_cycle62 cycle m).

(* the rest of the iteration once the execute units have run *)
Definition back62 (s : st62) (cycle : Z) (os : bool) (x : mach2 * list eu62 * eu_out62) : step_res62 :=
  let '(m, eus1, o) := x in
  res_of62 os (wus_cycle62 m (t_wus s) (if p_flush o then p_seq o else -1)) (fun r =>
  let '(m, wus1) := r in
  if p_ret o then
    let cycle := cycle + 1 in
    ret_check62 (mk_st62 (set_n_wbus m (bb_connect (n_wbus m) cycle)) eus1 wus1 cycle NRet os)
  else if p_flush o then
    (* for _, eu := range m.executeUnits { eu.sequenceID = sequenceID }; fromCycle := cycle *)
    TCont (mk_st62 m (map (eu_set_seq (p_seq o)) eus1) wus1 cycle (NFlushE (p_seq o) (p_pc o) cycle) os)
  else if is_empty62 m eus1 wus1 then TDone (finish62 m cycle) os
  else TCont (mk_st62 m eus1 wus1 cycle NNormal os)).

(* one ctx.VerifTick() of Run *)
Definition step62 (app : list instr) (labels : Z -> option Z) (ord : Z -> Z -> list Z -> list Z) (s : st62) : step_res62 :=
  let m := t_m s in
  let os := t_os s in
  match t_mode s with
  | NNormal =>
      let cycle := t_cycle s + 1 in
      res_of62 os (front62 app cycle m) (fun mg =>
      let '(m, g) := mg in
      let '(os1, re) := eus_main62 labels ord cycle m (t_eus s) euo62_none in
      res_of62 (os || g || os1) re (back62 s cycle (os || g || os1)))
  | NRet =>
      let '(os1, re) := eus_drain62 labels ord (t_cycle s) m (t_eus s) in
      res_of62 (os || os1) re (fun x =>
      res_of62 (os || os1) (wus_cycle62 (fst x) (t_wus s) (-1)) (fun r =>
      let '(m, wus1) := r in
      let cycle := t_cycle s + 1 in
      ret_check62 (mk_st62 (set_n_wbus m (bb_connect (n_wbus m) cycle)) (snd x) wus1 cycle NRet (os || os1))))
  | NFlushE sq pc fromc =>
      let cycle := t_cycle s + 1 in
      let isEmpty := forallb eu_empty62 (t_eus s) in
      let '(os1, re) := eus_inner62 labels ord fromc m (t_eus s) sq pc in
      match re with
      | Ok (m1, eus1, sq1, pc1) =>
          flush_adv62 (mk_st62 (set_n_wbus m1 (bb_connect (n_wbus m1) (cycle + 1))) eus1 (t_wus s) cycle (t_mode s) (os || os1))
                      0 sq1 pc1 fromc isEmpty
      | Err er => TDone (MErr er) (os || os1)                                          (* return 0, resp.err (since commit 1ed8ef8) *)
      | Panic => TDone MPanic (os || os1)
      end
  | NFlushW k sq pc fromc isEmpty =>
      match nth_error (t_wus s) k with
      | None => TDone MPanic os
      | Some w =>
          res_of62 os (wu_cycle62 m w sq) (fun r =>
          flush_adv62 (mk_st62 (fst r) (t_eus s) (set_nth6 (t_wus s) k (snd r)) (t_cycle s) (t_mode s) os) k sq pc fromc isEmpty)
      end
  end.

Fixpoint run62_st (fuel : nat) (app : list instr) (labels : Z -> option Z) (ord : Z -> Z -> list Z -> list Z) (s : st62)
  : (mres * bool) + st62 :=
  match fuel with
  | O => inr s
  | S f =>
      match step62 app labels ord s with
      | TDone r os => inl (r, os)
      | TCont s' => run62_st f app labels ord s'
      end
  end.

(* NewCPU(debug, memoryBytes, eu = par, wu = par); the harness then fills ctx.Registers and ctx.Memory *)
Definition init62 (par : nat) (st : arch) : outcome st62 :=
  match new_cache l1LineSize l1Size, new_cache l3LineSize l3Size with
  | Ok ci, Ok c3 =>
      let busSize := 2 in
      let c0 := Tx.new_context false in
      let c := Tx.mkCtx (combine (map Z.of_nat (seq 0 (length (regs st)))) (regs st)) [] (Tx.crat c0) (Tx.trat c0) false in
      let m := mk_mach2 c (mem st) zero_sb zero_sb ci c3 []
                        (mk_fu6 0 false false FNone 0) false false [] [] false (mk_bu6 false 0 [])
                        (bb_new busSize busSize) (bb_new busSize busSize) (bb_new busSize busSize) (bb_new busSize busSize)
                        0 1 [] [] in
      Ok (mk_st62 m (repeat (mk_eu62 ENone [] None 0) par) (repeat (mk_wu6 WNone None) par) 0 NNormal false)
  | _, _ => Panic
  end.

(* NewCPU + Run(app); second component = ghost flag *)
Definition mvp62_run_os (par : nat) (ord : Z -> Z -> list Z -> list Z) (fuel : nat) (app : list instr)
           (labels : Z -> option Z) (st : arch) : mres * bool :=
  match init62 par st with
  | Ok s => match run62_st fuel app labels ord s with
            | inl r => r
            | inr s' => (MOutOfFuel, t_os s')
            end
  | _ => (MPanic, false)
  end.

Definition mvp62_run (par : nat) (ord : Z -> Z -> list Z -> list Z) (fuel : nat) (app : list instr)
           (labels : Z -> option Z) (st : arch) : mres :=
  fst (mvp62_run_os par ord fuel app labels st).

(* the same, but a run that exhausts its fuel returns what the Go harness can see of ctx at that
   moment: (cycle, Registers, Memory, PendingWriteRegisters, PendingReadRegisters) *)
Definition mvp62_run_snap (par : nat) (ord : Z -> Z -> list Z -> list Z) (fuel : nat) (app : list instr)
           (labels : Z -> option Z) (st : arch) : (mres * bool) + (Z * arch * list Z * list Z * bool) :=
  match init62 par st with
  | Ok s =>
      match run62_st fuel app labels ord s with
      | inl r => inl r
      | inr s' => inr (t_cycle s', mk_arch (regs_of (n_ctx (t_m s'))) (n_mem (t_m s')), n_pw (t_m s'), n_pr (t_m s'), t_os s')
      end
  | _ => inl (MPanic, false)
  end.
