(* MVP-6.0 beyond straight-line programs: what happens at a conditional branch.

   1. mvp60_taken_branch_shadow_error_refuted (FINDING).  The refinement theorems of
      Mvp60RefProofs.v (straight-line programs; forward control flow WITHOUT div / rem)
      do not extend to programs with one taken forward branch and a division behind it:
        li x5,0 ; beq x5,x5,L ; div x6,x5,x5 ; L: li x7,9
      The sequential machine executes three instructions (the div is skipped) and ends
      with x7 = 9.  MVP-6.0 with two or more execute units dispatches the branch and the
      div in the same cycle (handleRunner only refuses a BRANCH as second instruction);
      one cycle later the first free unit executes the branch - taken, flush requested -
      and, in the same iteration of `for _, eu := range m.executeUnits`, the next unit
      executes the div on the wrong path: division by zero, executeUnit.cycle returns
      the error and Run returns it.  With one execute unit the div is still in the
      execute bus when the flush cleans it, and the run is correct.
      The instruction in the shadow need not change any register: div x0,x5,x5 (writes
      nothing) fails in the same way (second witness).

   2. mvp60_taken_branch_shadow_write_example.  The shadow of a taken branch may write
      registers without harm: wrong-path results are still in the write bus when the
      flush starts and `writeUnit.cycle(ctx, from)` drops every entry younger than the
      branch.  (On register-only programs an execute unit is never kept waiting by a
      full write bus, so a wrong-path instruction never reaches a write unit before
      the branch has executed.)  Proved for all programs of the class fwd_ok:
      Mvp60RefProofs.mvp60_refines_seq_forward. *)
From Coq Require Import ZArith List Bool Lia.
From Maj Require Import Base.Outcome Base.GoInt Base.GoTypes Isa.Spec Isa.Seq Isa.Refine Gen.RiscTables Gen.Opcodes.
From Maj Require Import Mvp.Mvp12 Mvp.Mvp12Proofs Mvp.Mvp4Skel Mvp.Mvp4Proofs Mvp.Mvp60 Mvp.Mvp60RefDefs.
Import ListNotations.
Open Scope Z_scope.

(* the program is register-only and its only branch instruction is one conditional
   branch to a label that is defined, forward, 4-aligned and inside the text *)
Definition one_forward_branch (app : list instr) (labels : Z -> option Z) : bool :=
  match filter (fun ki => negb (nobranch (snd ki))) (combine (seq 0 (length app)) app) with
  | [(k, i)] =>
      InstructionType_IsConditionalBranch (instr_InstructionType i) &&
      match sinstr_of i with
      | SBeq _ _ l | SBne _ _ l | SBlt _ _ l | SBge _ _ l | SBle _ _ l | SBltu _ _ l | SBgeu _ _ l
      | SBeqz _ l | SBnez _ l =>
          match labels l with
          | Some a => (4 * Z.of_nat k <? a) && (a <=? 4 * Z.of_nat (length app)) && (a mod 4 =? 0)
          | None => false
          end
      | _ => false
      end
  | _ => false
  end.

Definition shadow_div_prog : list sinstr := [SLi 5 0; SBeq 5 5 1; SDiv 6 5 5; SLi 7 9].
Definition shadow_div0_prog : list sinstr := [SLi 5 0; SBeq 5 5 1; SRem 0 5 5; SLi 7 9].
Definition shadow_labels : Z -> option Z := lookup [(1, 12)].

Theorem mvp60_taken_branch_shadow_error_refuted :
  let app := map instr_of shadow_div_prog in
  wf_app app /\ reg_only app = true /\ one_forward_branch app shadow_labels = true /\
  exists st' tr,
    seq_run 10 (map sinstr_of app) shadow_labels zero_state = Done st' tr /\
    length tr = 3%nat /\ rget (regs st') 7 = 9 /\
    mvp60_run 1 (ord_policy 0) 3000 app shadow_labels zero_state = MDone 323 st' /\
    mvp60_run 2 (ord_policy 0) 3000 app shadow_labels zero_state = MErr EDivZero /\
    mvp60_run 3 (ord_policy 0) 3000 app shadow_labels zero_state = MErr EDivZero /\
    mvp60_run 4 (ord_policy 0) 3000 app shadow_labels zero_state = MErr EDivZero.
Proof.
  cbv zeta. split; [|split; [|split]].
  - split; [|vm_compute; reflexivity]. repeat constructor; vm_compute; discriminate.
  - vm_compute. reflexivity.
  - vm_compute. reflexivity.
  - do 2 eexists. split; [vm_compute; reflexivity|]. repeat split; vm_compute; reflexivity.
Qed.

(* the same with a shadow instruction that writes no register (rem x0,x5,x5) *)
Theorem mvp60_taken_branch_shadow_x0_error_refuted :
  let app := map instr_of shadow_div0_prog in
  wf_app app /\ reg_only app = true /\ one_forward_branch app shadow_labels = true /\
  exists st' tr,
    seq_run 10 (map sinstr_of app) shadow_labels zero_state = Done st' tr /\
    length tr = 3%nat /\ rget (regs st') 7 = 9 /\
    mvp60_run 1 (ord_policy 0) 3000 app shadow_labels zero_state = MDone 323 st' /\
    mvp60_run 2 (ord_policy 0) 3000 app shadow_labels zero_state = MErr EDivZero.
Proof.
  cbv zeta. split; [|split; [|split]].
  - split; [|vm_compute; reflexivity]. repeat constructor; vm_compute; discriminate.
  - vm_compute. reflexivity.
  - vm_compute. reflexivity.
  - do 2 eexists. split; [vm_compute; reflexivity|]. repeat split; vm_compute; reflexivity.
Qed.

(* register writes in the shadow of a taken branch are dropped by the flush:
   li x5,3 ; beq x5,x5,L ; li x6,77 ; li x7,88 ; L: addi x8,x5,1 *)
Definition shadow_write_prog : list sinstr := [SLi 5 3; SBeq 5 5 1; SLi 6 77; SLi 7 88; SAddi 8 5 1].
Definition shadow_write_labels : Z -> option Z := lookup [(1, 16)].

Example mvp60_taken_branch_shadow_write_example :
  let app := map instr_of shadow_write_prog in
  wf_app app /\ reg_only app = true /\ one_forward_branch app shadow_write_labels = true /\
  exists st' tr,
    seq_run 10 (map sinstr_of app) shadow_write_labels zero_state = Done st' tr /\
    length tr = 3%nat /\ rget (regs st') 6 = 0 /\ rget (regs st') 7 = 0 /\ rget (regs st') 8 = 4 /\
    mvp60_run 1 (ord_policy 0) 3000 app shadow_write_labels zero_state = MDone 323 st' /\
    mvp60_run 2 (ord_policy 0) 3000 app shadow_write_labels zero_state = MDone 324 st' /\
    mvp60_run 3 (ord_policy 0) 3000 app shadow_write_labels zero_state = MDone 324 st' /\
    mvp60_run 4 (ord_policy 0) 3000 app shadow_write_labels zero_state = MDone 324 st'.
Proof.
  cbv zeta. split; [|split; [|split]].
  - split; [|vm_compute; reflexivity]. repeat constructor; vm_compute; discriminate.
  - vm_compute. reflexivity.
  - vm_compute. reflexivity.
  - do 2 eexists. split; [vm_compute; reflexivity|]. repeat split; vm_compute; reflexivity.
Qed.
