(* Every function of the model of MVP-8.0 (Mvp80.v) is a CONGRUENCE for msi_equiv (Mvp80OrdSnoop.v, section 4):
   two directories that only differ in the representation of k_done (used as a set) and of k_l3lock / k_l3write
   (used as maps) are indistinguishable for the memory system and for the pipeline, with the SAME order function on
   both sides and everything else literally equal.

     1. msi level   set_*, sem_put, msi_send, cmd_done, msi_requests, run_post, msi_l1rlock, msi_l1lock,
                    msi_evict_l1, msi_evict_l3, l3_setlock, l3_unlock, set_l3write/aset, unlock_all
     2. mw level    cc_push_l3, cc_write_l3, rd_*, cc_read_cycle, wr_*, cc_write_cycle, sn_step, sn_run, sn_create,
                    sn_create_all, cc_snoop_cycle, snoops_cycle, cc_flush, cc_writeback*, ccs_writeback, l3_writeback_lines
     3. my level    mw_of, put_mw, put_cc, eu_preference8, cu_cycle8, front8, snoops8, eu_*8, eus_*8, finish8, ...
     4. step8_equiv, run8_st_equiv *)
From Coq Require Import ZArith List Bool Lia.
From Maj Require Import Base.Outcome Base.GoInt Base.GoTypes Isa.Spec Isa.Seq.
From Maj Require Import Gen.Latency Gen.RiscTables Gen.Opcodes Comp.Cache Comp.Rat Comp.RatProofs Mvp.Mvp12 Mvp.Mvp3 Mvp.Mvp5 Mvp.Mvp60 Mvp.Mvp63 Mvp.Mvp80.
From Maj Require Import Mvp.Mvp80OrdSnoop.
Import ListNotations.
Open Scope Z_scope.

(* ------------------------------------------------------------------ *)
(* 0. relations and tactics                                             *)
(* ------------------------------------------------------------------ *)

Definition orel {A} (R : A -> A -> Prop) (o1 o2 : outcome A) : Prop :=
  match o1, o2 with Ok a, Ok b => R a b | Err e1, Err e2 => e1 = e2 | Panic, Panic => True | _, _ => False end.

Definition mw_equiv (w1 w2 : mw) : Prop := w_mem w1 = w_mem w2 /\ w_l3 w1 = w_l3 w2 /\ msi_equiv (w_msi w1) (w_msi w2).
Definition my_equiv (y1 y2 : my) : Prop :=
  y_x y1 = y_x y2 /\ msi_equiv (y_msi y1) (y_msi y2) /\ y_copy y1 = y_copy y2 /\ y_pref y1 = y_pref y2 /\ y_ccs y1 = y_ccs y2.
Definition st_equiv (s1 s2 : st8) : Prop :=
  my_equiv (v_y s1) (v_y s2) /\ v_eus s1 = v_eus s2 /\ v_wus s1 = v_wus s2 /\ v_cycle s1 = v_cycle s2 /\ v_mode s1 = v_mode s2.
Definition res_equiv (r1 r2 : step_res8) : Prop :=
  match r1, r2 with
  | VDone a os1, VDone b os2 => a = b /\ os1 = os2
  | VCont s1, VCont s2 => st_equiv s1 s2
  | _, _ => False
  end.

(* results: a related first component, the rest equal *)
Definition krel2 {B} (r1 r2 : msi8 * B) : Prop := msi_equiv (fst r1) (fst r2) /\ snd r1 = snd r2.
Definition wrel2 {B} (r1 r2 : mw * B) : Prop := mw_equiv (fst r1) (fst r2) /\ snd r1 = snd r2.
Definition wrel3 {B C} (r1 r2 : mw * B * C) : Prop :=
  mw_equiv (fst (fst r1)) (fst (fst r2)) /\ snd (fst r1) = snd (fst r2) /\ snd r1 = snd r2.
Definition yrel2 {B} (r1 r2 : my * B) : Prop := my_equiv (fst r1) (fst r2) /\ snd r1 = snd r2.
Definition yrel3 {B C} (r1 r2 : my * B * C) : Prop :=
  my_equiv (fst (fst r1)) (fst (fst r2)) /\ snd (fst r1) = snd (fst r2) /\ snd r1 = snd r2.

Lemma orel_refl : forall A (R : A -> A -> Prop) o, (forall a, R a a) -> orel R o o.
Proof. intros A R [a|e|] H; cbn [orel]; auto. Qed.

Lemma orel_bind : forall A B (R : A -> A -> Prop) (S : B -> B -> Prop) m1 m2 f g,
  orel R m1 m2 -> (forall a b, R a b -> orel S (f a) (g b)) -> orel S (bind m1 f) (bind m2 g).
Proof.
  intros A B R S [a|e|] [b|e'|] f g H K; cbn [orel bind] in *; try contradiction; auto.
Qed.

Lemma orel_impl : forall A (R S : A -> A -> Prop) o1 o2, (forall a b, R a b -> S a b) -> orel R o1 o2 -> orel S o1 o2.
Proof. intros A R S [a|e|] [b|e'|] K H; cbn [orel] in *; auto. Qed.

Lemma mw_equiv_refl : forall w, mw_equiv w w.
Proof. intros w. unfold mw_equiv. split; [reflexivity|]. split; [reflexivity|]. apply msi_equiv_refl. Qed.

Lemma my_equiv_refl : forall y, my_equiv y y.
Proof. intros y. unfold my_equiv. split; [reflexivity|]. split; [apply msi_equiv_refl|]. repeat split. Qed.

Lemma st_equiv_refl : forall s, st_equiv s s.
Proof. intros s. unfold st_equiv. split; [apply my_equiv_refl|]. repeat split. Qed.

Create HintDb cong.

(* split a hypothesis msi_equiv k1 k2 into equal fields *)
Ltac msi_destruct k1 k2 H :=
  destruct k1 as [?s1 ?st1 ?sl1 ?cm1 ?d1 ?n1 ?ll1 ?lw1], k2 as [?s2 ?st2 ?sl2 ?cm2 ?d2 ?n2 ?ll2 ?lw2];
  unfold msi_equiv in H; cbn [k_sems k_states k_stale k_cmds k_done k_next k_l3lock k_l3write] in H;
  destruct H as (?Hs & ?Hst & ?Hsl & ?Hcm & ?Hn & ?Hd & ?Hll & ?Hlw); subst.

Ltac msi_fields := cbn [k_sems k_states k_stale k_cmds k_done k_next k_l3lock k_l3write
                         set_sems set_states set_cmds set_l3lock set_l3write].

(* prove msi_equiv of two records with literally equal other fields *)
Ltac msi_close := unfold msi_equiv; msi_fields; repeat split; try reflexivity; try assumption.

(* ------------------------------------------------------------------ *)
(* 1. msi level                                                         *)
(* ------------------------------------------------------------------ *)

Lemma aget_aset_ext : forall (A : Type) a b (v : A) m1 m2,
  (forall x, aget x m1 = aget x m2) -> aget a (aset b v m1) = aget a (aset b v m2).
Proof. intros A a b v m1 m2 H. rewrite !aget_aset. rewrite H. reflexivity. Qed.

Lemma memZ_snoc_ext : forall cid x l1 l2, (forall c, memZ c l1 = memZ c l2) -> memZ cid (l1 ++ [x]) = memZ cid (l2 ++ [x]).
Proof. intros cid x l1 l2 H. rewrite !memZ_app, H. reflexivity. Qed.

Lemma set_sems_equiv : forall k1 k2 s, msi_equiv k1 k2 -> msi_equiv (set_sems k1 s) (set_sems k2 s).
Proof. intros k1 k2 s H. msi_destruct k1 k2 H. msi_close. Qed.

Lemma set_states_equiv : forall k1 k2 s b, msi_equiv k1 k2 -> msi_equiv (set_states k1 s b) (set_states k2 s b).
Proof. intros k1 k2 s b H. msi_destruct k1 k2 H. msi_close. Qed.

Lemma set_cmds_equiv : forall k1 k2 c d1 d2 n, msi_equiv k1 k2 -> (forall cid, memZ cid d1 = memZ cid d2) ->
  msi_equiv (set_cmds k1 c d1 n) (set_cmds k2 c d2 n).
Proof. intros k1 k2 c d1 d2 n H D. msi_destruct k1 k2 H. msi_close. Qed.

Lemma set_l3lock_equiv : forall k1 k2 l1 l2, msi_equiv k1 k2 -> (forall a, aget a l1 = aget a l2) ->
  msi_equiv (set_l3lock k1 l1) (set_l3lock k2 l2).
Proof. intros k1 k2 l1 l2 H D. msi_destruct k1 k2 H. msi_close. Qed.

Lemma set_l3write_equiv : forall k1 k2 l1 l2, msi_equiv k1 k2 -> (forall a, aget a l1 = aget a l2) ->
  msi_equiv (set_l3write k1 l1) (set_l3write k2 l2).
Proof. intros k1 k2 l1 l2 H D. msi_destruct k1 k2 H. msi_close. Qed.

(* the form in which the model writes k_l3write *)
Lemma set_l3write_aset_equiv : forall k1 k2 a b, msi_equiv k1 k2 ->
  msi_equiv (set_l3write k1 (aset a b (k_l3write k1))) (set_l3write k2 (aset a b (k_l3write k2))).
Proof.
  intros k1 k2 a b H. apply set_l3write_equiv; [exact H|].
  intros x. apply aget_aset_ext. destruct H as (_ & _ & _ & _ & _ & _ & _ & W). exact W.
Qed.

Lemma sem_put_equiv : forall k1 k2 a s, msi_equiv k1 k2 -> msi_equiv (sem_put k1 a s) (sem_put k2 a s).
Proof. intros k1 k2 a s H. unfold sem_put. msi_destruct k1 k2 H. msi_close. Qed.

Lemma msi_send_equiv : forall k1 k2 key, msi_equiv k1 k2 -> krel2 (msi_send k1 key) (msi_send k2 key).
Proof.
  intros k1 k2 key H. unfold msi_send, krel2. msi_destruct k1 k2 H. msi_fields.
  destruct (pget ck_eqb key cm2); cbn [fst snd]; (split; [msi_close | reflexivity]).
Qed.

Lemma cmd_done_equiv : forall k1 k2 key cid, msi_equiv k1 k2 -> msi_equiv (cmd_done k1 key cid) (cmd_done k2 key cid).
Proof.
  intros k1 k2 key cid H. unfold cmd_done. msi_destruct k1 k2 H.
  destruct ((ck_req key =? rq_l1Evict) || (ck_req key =? rq_l1WriteBack)); msi_fields; msi_close;
    intros c; apply memZ_snoc_ext; assumption.
Qed.

Lemma msi_requests_equiv : forall sts k1 k2 id a on_shared, msi_equiv k1 k2 ->
  krel2 (msi_requests sts k1 id a on_shared) (msi_requests sts k2 id a on_shared).
Proof.
  induction sts as [|[[eid ea] st] t IH]; intros k1 k2 id a on_shared H; cbn [msi_requests].
  - split; [exact H | reflexivity].
  - destruct ((eid =? id) || negb (ea =? a)); [apply IH; exact H|].
    destruct (st =? st_modified).
    + pose proof (msi_send_equiv k1 k2 (mk_ck eid a rq_l1WriteBack) H) as S.
      destruct (msi_send k1 _) as [k1' c1], (msi_send k2 _) as [k2' c2]. destruct S as [S1 S2]. cbn [fst snd] in S1, S2. subst c2.
      pose proof (IH k1' k2' id a on_shared S1) as R.
      destruct (msi_requests t k1' _ _ _) as [k1'' r1], (msi_requests t k2' _ _ _) as [k2'' r2].
      destruct R as [R1 R2]. cbn [fst snd] in R1, R2. subst r2. split; [exact R1 | reflexivity].
    + destruct ((st =? st_shared) && on_shared); [|apply IH; exact H].
      pose proof (msi_send_equiv k1 k2 (mk_ck eid a rq_l1Evict) H) as S.
      destruct (msi_send k1 _) as [k1' c1], (msi_send k2 _) as [k2' c2]. destruct S as [S1 S2]. cbn [fst snd] in S1, S2. subst c2.
      pose proof (IH k1' k2' id a on_shared S1) as R.
      destruct (msi_requests t k1' _ _ _) as [k1'' r1], (msi_requests t k2' _ _ _) as [k2'' r2].
      destruct R as [R1 R2]. cbn [fst snd] in R1, R2. subst r2. split; [exact R1 | reflexivity].
Qed.

Lemma run_post_equiv : forall k1 k2 id p, msi_equiv k1 k2 -> orel msi_equiv (run_post k1 id p) (run_post k2 id p).
Proof.
  intros k1 k2 id p H. unfold run_post.
  assert (E : msi_equiv (match p_set p with Some st => set_states k1 (pset zz_eqb (id, p_addr p) st (k_states k1)) true | None => k1 end)
                        (match p_set p with Some st => set_states k2 (pset zz_eqb (id, p_addr p) st (k_states k2)) true | None => k2 end)).
  { destruct (p_set p); [|exact H]. replace (k_states k2) with (k_states k1) by (destruct H as (_ & B & _); exact B).
    apply set_states_equiv. exact H. }
  cbv zeta. revert E.
  generalize (match p_set p with Some st => set_states k1 (pset zz_eqb (id, p_addr p) st (k_states k1)) true | None => k1 end).
  generalize (match p_set p with Some st => set_states k2 (pset zz_eqb (id, p_addr p) st (k_states k2)) true | None => k2 end).
  intros kb ka E. rewrite (sem_get_equiv ka kb _ E).
  destruct (if p_w p then _ else _); cbn [bind orel]; auto. apply sem_put_equiv. exact E.
Qed.

Lemma msi_lock_tail : forall k1 k2 a s id b (rk : rkind) (p : post), msi_equiv k1 k2 ->
  orel (@krel2 (option (rkind * list Z * post)))
    (let '(k2', pend) := msi_requests (k_states k1) (sem_put k1 a s) id a b in Ok (k2', Some (rk, pend, p)))
    (let '(k2', pend) := msi_requests (k_states k2) (sem_put k2 a s) id a b in Ok (k2', Some (rk, pend, p))).
Proof.
  intros k1 k2 a s id b rk p H.
  replace (k_states k2) with (k_states k1) by (destruct H as (_ & B & _); exact B).
  pose proof (msi_requests_equiv (k_states k1) _ _ id a b (sem_put_equiv k1 k2 a s H)) as R.
  destruct (msi_requests _ (sem_put k1 a s) _ _ _) as [k1' r1], (msi_requests _ (sem_put k2 a s) _ _ _) as [k2' r2].
  destruct R as [R1 R2]. cbn [fst snd] in R1, R2. subst r2. cbn [orel]. split; [exact R1 | reflexivity].
Qed.

Lemma krel2_ok : forall B k1 k2 (b : B), msi_equiv k1 k2 -> orel (@krel2 B) (Ok (k1, b)) (Ok (k2, b)).
Proof. intros B k1 k2 b H. cbn [orel]. split; [exact H | reflexivity]. Qed.

Lemma msi_l1rlock_equiv : forall k1 k2 id a, msi_equiv k1 k2 -> orel krel2 (msi_l1rlock k1 id a) (msi_l1rlock k2 id a).
Proof.
  intros k1 k2 id a H. unfold msi_l1rlock. cbv zeta.
  rewrite (st_get_equiv k1 k2 id a H), (sem_get_equiv k1 k2 a H).
  destruct (st_get k2 id a =? st_invalid).
  { destruct (sem_rlock _); [apply msi_lock_tail; exact H | apply krel2_ok; exact H]. }
  destruct (st_get k2 id a =? st_modified).
  { destruct (sem_lock _); apply krel2_ok; [apply sem_put_equiv|]; exact H. }
  destruct (st_get k2 id a =? st_shared); [|exact I].
  destruct (sem_rlock _); apply krel2_ok; [apply sem_put_equiv|]; exact H.
Qed.

Lemma msi_l1lock_equiv : forall k1 k2 id a, msi_equiv k1 k2 -> orel krel2 (msi_l1lock k1 id a) (msi_l1lock k2 id a).
Proof.
  intros k1 k2 id a H. unfold msi_l1lock. cbv zeta.
  rewrite (st_get_equiv k1 k2 id a H), (sem_get_equiv k1 k2 a H).
  destruct (st_get k2 id a =? st_invalid).
  { destruct (sem_lock _); [apply msi_lock_tail; exact H | apply krel2_ok; exact H]. }
  destruct (st_get k2 id a =? st_modified).
  { destruct (sem_lock _); apply krel2_ok; [apply sem_put_equiv|]; exact H. }
  destruct (st_get k2 id a =? st_shared); [|exact I].
  destruct (sem_lock _); [apply msi_lock_tail; exact H | apply krel2_ok; exact H].
Qed.

Lemma msi_evict_l1_equiv : forall k1 k2 id a, msi_equiv k1 k2 -> orel krel2 (msi_evict_l1 k1 id a) (msi_evict_l1 k2 id a).
Proof.
  intros k1 k2 id a H. unfold msi_evict_l1. cbv zeta. rewrite (st_get_equiv k1 k2 id a H).
  destruct (_ || _); [cbn [orel]; apply msi_send_equiv; exact H|].
  destruct (_ =? st_modified); [cbn [orel]; apply msi_send_equiv; exact H | exact I].
Qed.

Lemma msi_evict_l3_equiv : forall k1 k2 id a, msi_equiv k1 k2 -> krel2 (msi_evict_l3 k1 id a) (msi_evict_l3 k2 id a).
Proof.
  intros k1 k2 id a H. unfold msi_evict_l3.
  replace (aget a (k_l3write k1)) with (aget a (k_l3write k2)) by (destruct H as (_ & _ & _ & _ & _ & _ & _ & W); symmetry; apply W).
  destruct (aget a (k_l3write k2)) as [[|]|]; apply msi_send_equiv; exact H.
Qed.

Lemma l3_setlock_equiv : forall k1 k2 a b, msi_equiv k1 k2 -> msi_equiv (l3_setlock k1 a b) (l3_setlock k2 a b).
Proof.
  intros k1 k2 a b H. unfold l3_setlock. apply set_l3lock_equiv; [exact H|].
  intros x. apply aget_aset_ext. destruct H as (_ & _ & _ & _ & _ & _ & L & _). exact L.
Qed.

Lemma l3_unlock_equiv : forall k1 k2 a, msi_equiv k1 k2 -> orel msi_equiv (l3_unlock k1 a) (l3_unlock k2 a).
Proof.
  intros k1 k2 a H. unfold l3_unlock. rewrite (l3_locked_equiv k1 k2 a H).
  destruct (l3_locked k2 a); cbn [orel]; [apply l3_setlock_equiv; exact H | exact I].
Qed.

Lemma unlock_all_equiv : forall addrs k1 k2 w, msi_equiv k1 k2 -> orel msi_equiv (unlock_all k1 addrs w) (unlock_all k2 addrs w).
Proof.
  induction addrs as [|a t IH]; intros k1 k2 w H; cbn [unlock_all]; [exact H|].
  rewrite (sem_get_equiv k1 k2 a H).
  destruct (if w then _ else _); cbn [bind orel]; auto. apply IH. apply sem_put_equiv. exact H.
Qed.

Lemma forallb_isdone_equiv : forall k1 k2 l, msi_equiv k1 k2 -> forallb (cmd_isdone k1) l = forallb (cmd_isdone k2) l.
Proof.
  intros k1 k2 l H. induction l as [|c t IH]; [reflexivity|]. cbn [forallb].
  rewrite (cmd_isdone_equiv k1 k2 c H), IH. reflexivity.
Qed.

Lemma set_stale_equiv : forall k1 k2 b, msi_equiv k1 k2 -> msi_equiv (set_states k1 (k_states k1) b) (set_states k2 (k_states k2) b).
Proof.
  intros k1 k2 b H. replace (k_states k2) with (k_states k1) by (destruct H as (_ & B & _); exact B).
  apply set_states_equiv. exact H.
Qed.

Lemma msi_evict_l3_fst : forall k1 k2 id a, msi_equiv k1 k2 -> msi_equiv (fst (msi_evict_l3 k1 id a)) (fst (msi_evict_l3 k2 id a)).
Proof. intros k1 k2 id a H. apply (msi_evict_l3_equiv k1 k2 id a H). Qed.

Lemma msi_evict_l3_snd : forall k1 k2 id a, msi_equiv k1 k2 -> snd (msi_evict_l3 k1 id a) = snd (msi_evict_l3 k2 id a).
Proof. intros k1 k2 id a H. apply (msi_evict_l3_equiv k1 k2 id a H). Qed.

Lemma mk_mw_equiv : forall m l k1 k2, msi_equiv k1 k2 -> mw_equiv (mk_mw m l k1) (mk_mw m l k2).
Proof. intros m l k1 k2 H. unfold mw_equiv. cbn [w_mem w_l3 w_msi]. split; [reflexivity|]. split; [reflexivity | exact H]. Qed.

#[export] Hint Resolve msi_equiv_refl set_sems_equiv set_states_equiv set_stale_equiv set_l3write_aset_equiv sem_put_equiv
  cmd_done_equiv l3_setlock_equiv msi_evict_l3_fst mk_mw_equiv mw_equiv_refl
  run_post_equiv msi_l1rlock_equiv msi_l1lock_equiv msi_evict_l1_equiv l3_unlock_equiv unlock_all_equiv : cong.

(* ------------------------------------------------------------------ *)
(* 2. mw level: tactics                                                 *)
(* ------------------------------------------------------------------ *)

Ltac mw_destruct w1 w2 H :=
  destruct w1 as [?m1 ?l1 ?k1], w2 as [?m2 ?l2 ?k2]; unfold mw_equiv in H; cbn [w_mem w_l3 w_msi] in H;
  destruct H as (?Hm & ?Hl & ?Hk); subst.

Ltac mw_cbn := cbn [fst snd w_mem w_l3 w_msi set_wmsi set_wl3 set_wmem].

(* a hypothesis produced by orel_bind *)
Ltac rel_destruct :=
  repeat match goal with
  | H : wrel3 ?a ?b |- _ =>
      destruct a as [[? ?] ?], b as [[? ?] ?]; unfold wrel3 in H; cbn [fst snd] in H; destruct H as (? & ? & ?); subst
  | H : wrel2 ?a ?b |- _ =>
      destruct a as [? ?], b as [? ?]; unfold wrel2 in H; cbn [fst snd] in H; destruct H as (? & ?); subst
  | H : krel2 ?a ?b |- _ =>
      destruct a as [? ?], b as [? ?]; unfold krel2 in H; cbn [fst snd] in H; destruct H as (? & ?); subst
  | H : mw_equiv ?a ?b |- _ => is_var a; is_var b; mw_destruct a b H
  end.

Ltac rel_close :=
  match goal with
  | |- wrel3 _ _ => unfold wrel3; cbn [fst snd]; split; [solve [eauto 12 with cong] | split; reflexivity]
  | |- wrel2 _ _ => unfold wrel2; cbn [fst snd]; split; [solve [eauto 12 with cong] | reflexivity]
  | |- krel2 _ _ => unfold krel2; cbn [fst snd]; split; [solve [eauto 12 with cong] | reflexivity]
  | |- mw_equiv _ _ => solve [eauto 12 with cong]
  | |- msi_equiv _ _ => solve [eauto 12 with cong]
  end.

Ltac cong1 :=
  match goal with
  | H : msi_equiv ?k1 ?k2 |- context [forallb (cmd_isdone ?k1) ?l] => rewrite (forallb_isdone_equiv k1 k2 l H)
  | H : msi_equiv ?k1 ?k2 |- context [cmd_isdone ?k1 ?c] => rewrite (cmd_isdone_equiv k1 k2 c H)
  | H : msi_equiv ?k1 ?k2 |- context [l3_locked ?k1 ?a] => rewrite (l3_locked_equiv k1 k2 a H)
  | H : msi_equiv ?k1 ?k2 |- context [st_get ?k1 ?i ?a] => rewrite (st_get_equiv k1 k2 i a H)
  | |- orel _ (Ok _) (Ok _) => cbn [orel]; rel_close
  | |- orel _ Panic Panic => exact I
  | |- orel _ (Err _) (Err _) => reflexivity
  | |- orel _ (bind ?m _) (bind ?m _) => destruct m; cbn [bind]
  | |- orel _ (if ?b then _ else _) (if ?b then _ else _) => destruct b
  | |- orel _ (match ?e with _ => _ end) (match ?e with _ => _ end) => destruct e
  | |- orel _ (bind _ _) (bind _ _) => eapply orel_bind; [solve [eauto 12 with cong] | intros ? ? ?Hr; rel_destruct]
  end.

Ltac cong := repeat (mw_cbn; cong1); try solve [eauto 12 with cong].

Ltac mw_start :=
  intros; match goal with H : mw_equiv ?w1 ?w2 |- _ => mw_destruct w1 w2 H end.

(* ------------------------------------------------------------------ *)
(* 2a. cc.go: pushLineToL3, writeToL3, coRead                           *)
(* ------------------------------------------------------------------ *)

Lemma cc_push_l3_equiv : forall w1 w2 addr ln, mw_equiv w1 w2 -> orel wrel2 (cc_push_l3 w1 addr ln) (cc_push_l3 w2 addr ln).
Proof. mw_start. unfold cc_push_l3. cong. Qed.

Lemma cc_write_l3_equiv : forall w1 w2 l1a d, mw_equiv w1 w2 -> orel mw_equiv (cc_write_l3 w1 l1a d) (cc_write_l3 w2 l1a d).
Proof. mw_start. unfold cc_write_l3. cong. Qed.

#[export] Hint Resolve cc_push_l3_equiv cc_write_l3_equiv : cong.

Lemma rd_stay_equiv : forall w1 w2 c s, mw_equiv w1 w2 -> orel wrel3 (rd_stay w1 c s) (rd_stay w2 c s).
Proof. mw_start. unfold rd_stay. cong. Qed.
#[export] Hint Resolve rd_stay_equiv : cong.

Lemma rd_fin_equiv : forall w1 w2 c addrs data, mw_equiv w1 w2 -> orel wrel3 (rd_fin w1 c addrs data) (rd_fin w2 c addrs data).
Proof. mw_start. unfold rd_fin. cong. Qed.
#[export] Hint Resolve rd_fin_equiv : cong.

Lemma rd_l1wait_equiv : forall w1 w2 c addrs rem data, mw_equiv w1 w2 ->
  orel wrel3 (rd_l1wait w1 c addrs rem data) (rd_l1wait w2 c addrs rem data).
Proof. mw_start. unfold rd_l1wait. cong. Qed.
#[export] Hint Resolve rd_l1wait_equiv : cong.

Lemma rd_from_l1_equiv : forall w1 w2 c addrs, mw_equiv w1 w2 -> orel wrel3 (rd_from_l1 w1 c addrs) (rd_from_l1 w2 c addrs).
Proof. mw_start. unfold rd_from_l1. cong. Qed.
#[export] Hint Resolve rd_from_l1_equiv : cong.

Lemma rd_evict_wait_equiv : forall w1 w2 c addrs cmd, mw_equiv w1 w2 ->
  orel wrel3 (rd_evict_wait w1 c addrs cmd) (rd_evict_wait w2 c addrs cmd).
Proof. mw_start. unfold rd_evict_wait. cong. Qed.
#[export] Hint Resolve rd_evict_wait_equiv : cong.

Lemma rd_push_l1_equiv : forall w1 w2 c addrs l1a l1dt, mw_equiv w1 w2 ->
  orel wrel3 (rd_push_l1 w1 c addrs l1a l1dt) (rd_push_l1 w2 c addrs l1a l1dt).
Proof. mw_start. unfold rd_push_l1. cong. Qed.
#[export] Hint Resolve rd_push_l1_equiv : cong.

Lemma rd_sync_equiv : forall w1 w2 c addrs, mw_equiv w1 w2 -> orel wrel3 (rd_sync w1 c addrs) (rd_sync w2 c addrs).
Proof. mw_start. unfold rd_sync. cong. Qed.
#[export] Hint Resolve rd_sync_equiv : cong.

Lemma rd_l3push_equiv : forall w1 w2 c addrs rem l3a l3d, mw_equiv w1 w2 ->
  orel wrel3 (rd_l3push w1 c addrs rem l3a l3d) (rd_l3push w2 c addrs rem l3a l3d).
Proof.
  mw_start. unfold rd_l3push. cong.
  match goal with |- context [match ?o with Some _ => _ | None => _ end] => destruct o end; cong.
Qed.
#[export] Hint Resolve rd_l3push_equiv : cong.

Lemma rd_l3lock_equiv : forall w1 w2 c addrs l3a l3d, mw_equiv w1 w2 ->
  orel wrel3 (rd_l3lock w1 c addrs l3a l3d) (rd_l3lock w2 c addrs l3a l3d).
Proof. mw_start. unfold rd_l3lock. cong. Qed.
#[export] Hint Resolve rd_l3lock_equiv : cong.

Lemma rd_memwait_equiv : forall w1 w2 c addrs rem l3a l3d, mw_equiv w1 w2 ->
  orel wrel3 (rd_memwait w1 c addrs rem l3a l3d) (rd_memwait w2 c addrs rem l3a l3d).
Proof. mw_start. unfold rd_memwait. cong. Qed.
#[export] Hint Resolve rd_memwait_equiv : cong.

Lemma rd_l3wait_equiv : forall w1 w2 c addrs rem, mw_equiv w1 w2 ->
  orel wrel3 (rd_l3wait w1 c addrs rem) (rd_l3wait w2 c addrs rem).
Proof. mw_start. unfold rd_l3wait. cong. Qed.
#[export] Hint Resolve rd_l3wait_equiv : cong.

Lemma rd_pend_equiv : forall w1 w2 c addrs rk pend, mw_equiv w1 w2 ->
  orel wrel3 (rd_pend w1 c addrs rk pend) (rd_pend w2 c addrs rk pend).
Proof. mw_start. unfold rd_pend. cong. Qed.
#[export] Hint Resolve rd_pend_equiv : cong.

Lemma rd_start_equiv : forall w1 w2 c addrs, mw_equiv w1 w2 -> orel wrel3 (rd_start w1 c addrs) (rd_start w2 c addrs).
Proof. mw_start. unfold rd_start. cong. Qed.
#[export] Hint Resolve rd_start_equiv : cong.

Theorem cc_read_cycle_equiv : forall w1 w2 c addrs, mw_equiv w1 w2 ->
  orel wrel3 (cc_read_cycle w1 c addrs) (cc_read_cycle w2 c addrs).
Proof. intros. unfold cc_read_cycle. destruct (c_read c); eauto 12 with cong. Qed.
#[export] Hint Resolve cc_read_cycle_equiv : cong.

(* ------------------------------------------------------------------ *)
(* 2b. cc.go: coWrite                                                   *)
(* ------------------------------------------------------------------ *)

Lemma wr_stay_equiv : forall w1 w2 c s, mw_equiv w1 w2 -> orel wrel3 (wr_stay w1 c s) (wr_stay w2 c s).
Proof. mw_start. unfold wr_stay. cong. Qed.
#[export] Hint Resolve wr_stay_equiv : cong.

Lemma wr_fin_equiv : forall w1 w2 c addrs data, mw_equiv w1 w2 -> orel wrel3 (wr_fin w1 c addrs data) (wr_fin w2 c addrs data).
Proof. mw_start. unfold wr_fin. cong. Qed.
#[export] Hint Resolve wr_fin_equiv : cong.

Lemma wr_final_equiv : forall w1 w2 c addrs data rem, mw_equiv w1 w2 ->
  orel wrel3 (wr_final w1 c addrs data rem) (wr_final w2 c addrs data rem).
Proof. mw_start. unfold wr_final. cong. Qed.
#[export] Hint Resolve wr_final_equiv : cong.

Lemma wr_to_l1_equiv : forall w1 w2 c addrs data, mw_equiv w1 w2 -> orel wrel3 (wr_to_l1 w1 c addrs data) (wr_to_l1 w2 c addrs data).
Proof. intros. unfold wr_to_l1. eauto 12 with cong. Qed.
#[export] Hint Resolve wr_to_l1_equiv : cong.

Lemma wr_to_l1_after_equiv : forall w1 w2 c addrs data rem, mw_equiv w1 w2 ->
  orel wrel3 (wr_to_l1_after w1 c addrs data rem) (wr_to_l1_after w2 c addrs data rem).
Proof. mw_start. unfold wr_to_l1_after. cong. Qed.
#[export] Hint Resolve wr_to_l1_after_equiv : cong.

Lemma wr_evict_wait_equiv : forall w1 w2 c addrs data cmd, mw_equiv w1 w2 ->
  orel wrel3 (wr_evict_wait w1 c addrs data cmd) (wr_evict_wait w2 c addrs data cmd).
Proof. mw_start. unfold wr_evict_wait. cong. Qed.
#[export] Hint Resolve wr_evict_wait_equiv : cong.

Lemma wr_push_l1_equiv : forall w1 w2 c addrs data l1a l1dt, mw_equiv w1 w2 ->
  orel wrel3 (wr_push_l1 w1 c addrs data l1a l1dt) (wr_push_l1 w2 c addrs data l1a l1dt).
Proof. mw_start. unfold wr_push_l1. cong. Qed.
#[export] Hint Resolve wr_push_l1_equiv : cong.

Lemma wr_l1push_equiv : forall w1 w2 c addrs data rem l1a l1dt, mw_equiv w1 w2 ->
  orel wrel3 (wr_l1push w1 c addrs data rem l1a l1dt) (wr_l1push w2 c addrs data rem l1a l1dt).
Proof. mw_start. unfold wr_l1push. cong. Qed.
#[export] Hint Resolve wr_l1push_equiv : cong.

Lemma wr_sync_equiv : forall w1 w2 c addrs data, mw_equiv w1 w2 -> orel wrel3 (wr_sync w1 c addrs data) (wr_sync w2 c addrs data).
Proof. mw_start. unfold wr_sync. cong. Qed.
#[export] Hint Resolve wr_sync_equiv : cong.

Lemma wr_l3evict_wait_equiv : forall w1 w2 c addrs data cmd, mw_equiv w1 w2 ->
  orel wrel3 (wr_l3evict_wait w1 c addrs data cmd) (wr_l3evict_wait w2 c addrs data cmd).
Proof. mw_start. unfold wr_l3evict_wait. cong. Qed.
#[export] Hint Resolve wr_l3evict_wait_equiv : cong.

Lemma wr_l3wait_equiv : forall w1 w2 c addrs data rem l3a l3d, mw_equiv w1 w2 ->
  orel wrel3 (wr_l3wait w1 c addrs data rem l3a l3d) (wr_l3wait w2 c addrs data rem l3a l3d).
Proof.
  mw_start. unfold wr_l3wait. cong.
  match goal with H : msi_equiv ?a ?b |- context [snd (msi_evict_l3 ?a ?i ?x)] => rewrite (msi_evict_l3_snd a b i x H) end.
  cong.
Qed.
#[export] Hint Resolve wr_l3wait_equiv : cong.

Lemma wr_memwait_equiv : forall w1 w2 c addrs data rem l3a l3d, mw_equiv w1 w2 ->
  orel wrel3 (wr_memwait w1 c addrs data rem l3a l3d) (wr_memwait w2 c addrs data rem l3a l3d).
Proof. mw_start. unfold wr_memwait. cong. Qed.
#[export] Hint Resolve wr_memwait_equiv : cong.

Lemma wr_pend_equiv : forall w1 w2 c addrs data rk pend, mw_equiv w1 w2 ->
  orel wrel3 (wr_pend w1 c addrs data rk pend) (wr_pend w2 c addrs data rk pend).
Proof. mw_start. unfold wr_pend. cong. Qed.
#[export] Hint Resolve wr_pend_equiv : cong.

Lemma wr_start_equiv : forall w1 w2 c addrs data, mw_equiv w1 w2 -> orel wrel3 (wr_start w1 c addrs data) (wr_start w2 c addrs data).
Proof. mw_start. unfold wr_start. cong. Qed.
#[export] Hint Resolve wr_start_equiv : cong.

Theorem cc_write_cycle_equiv : forall w1 w2 c addrs data, mw_equiv w1 w2 ->
  orel wrel3 (cc_write_cycle w1 c addrs data) (cc_write_cycle w2 c addrs data).
Proof. intros. unfold cc_write_cycle. destruct (c_write c); eauto 12 with cong. Qed.
#[export] Hint Resolve cc_write_cycle_equiv : cong.

(* ------------------------------------------------------------------ *)
(* 2c. cc.go: coSnoop                                                   *)
(* ------------------------------------------------------------------ *)

Lemma sn_step_equiv : forall w1 w2 c s, mw_equiv w1 w2 -> orel wrel3 (sn_step w1 c s) (sn_step w2 c s).
Proof. mw_start. unfold sn_step. destruct s; cong. Qed.
#[export] Hint Resolve sn_step_equiv : cong.

Lemma sn_run_equiv : forall l w1 w2 c, mw_equiv w1 w2 -> orel wrel3 (sn_run w1 c l) (sn_run w2 c l).
Proof.
  induction l as [|s t IH]; intros w1 w2 c H; cbn [sn_run].
  - cong.
  - cong.
Qed.
#[export] Hint Resolve sn_run_equiv : cong.

Lemma sn_create_equiv : forall w1 w2 c key cid, mw_equiv w1 w2 -> orel wrel2 (sn_create w1 c key cid) (sn_create w2 c key cid).
Proof. mw_start. unfold sn_create. cong. Qed.
#[export] Hint Resolve sn_create_equiv : cong.

Lemma sn_create_all_equiv : forall reqs w1 w2 c, mw_equiv w1 w2 -> orel wrel2 (sn_create_all w1 c reqs) (sn_create_all w2 c reqs).
Proof.
  induction reqs as [|[key cid] t IH]; intros w1 w2 c H; cbn [sn_create_all]; cong.
Qed.
#[export] Hint Resolve sn_create_all_equiv : cong.

Theorem cc_snoop_cycle_equiv : forall ord cycle w1 w2 c, mw_equiv w1 w2 ->
  fst (cc_snoop_cycle ord cycle w1 c) = fst (cc_snoop_cycle ord cycle w2 c) /\
  orel wrel2 (snd (cc_snoop_cycle ord cycle w1 c)) (snd (cc_snoop_cycle ord cycle w2 c)).
Proof.
  intros ord cycle w1 w2 c H. unfold cc_snoop_cycle. destruct (c_snoop c) as [|s0 t0]; cbn [fst snd].
  - replace (k_cmds (w_msi w2)) with (k_cmds (w_msi w1)) by (destruct H as (_ & _ & (_ & _ & _ & C & _)); exact C).
    split; [reflexivity|]. eauto 12 with cong.
  - split; [reflexivity|]. cong.
Qed.

Theorem snoops_cycle_equiv : forall ord cycle ccs w1 w2, mw_equiv w1 w2 ->
  fst (snoops_cycle ord cycle w1 ccs) = fst (snoops_cycle ord cycle w2 ccs) /\
  orel wrel2 (snd (snoops_cycle ord cycle w1 ccs)) (snd (snoops_cycle ord cycle w2 ccs)).
Proof.
  intros ord cycle. induction ccs as [|c t IH]; intros w1 w2 H; cbn [snoops_cycle].
  - cbn [fst snd]. split; [reflexivity|]. cong.
  - destruct (cc_snoop_cycle_equiv ord cycle w1 w2 c H) as [F S].
    destruct (cc_snoop_cycle ord cycle w1 c) as [os1 r1], (cc_snoop_cycle ord cycle w2 c) as [os2 r2].
    cbn [fst snd] in F, S. subst os2.
    destruct r1 as [[wa ca]|e1|], r2 as [[wb cb]|e2|]; cbn [orel] in S; try contradiction.
    + destruct S as [S1 S2]. cbn [fst snd] in S1, S2. subst cb.
      destruct (IH wa wb S1) as [F2 S2].
      destruct (snoops_cycle ord cycle wa t) as [osa ra], (snoops_cycle ord cycle wb t) as [osb rb].
      cbn [fst snd] in F2, S2 |- *. subst osb. split; [reflexivity|].
      eapply orel_bind; [exact S2|]. intros a b R. rel_destruct. cong.
    + subst e2. cbn [fst snd orel]. split; reflexivity.
    + cbn [fst snd orel]. split; [reflexivity | exact I].
Qed.

(* ------------------------------------------------------------------ *)
(* 2d. flush, writeBack, l3WriteBack                                    *)
(* ------------------------------------------------------------------ *)

Lemma cc_flush_equiv : forall k1 k2 c, msi_equiv k1 k2 -> orel krel2 (cc_flush k1 c) (cc_flush k2 c).
Proof. intros k1 k2 c H. unfold cc_flush. cong. Qed.
#[export] Hint Resolve cc_flush_equiv : cong.

Lemma cc_writeback_lines_equiv : forall ls w1 w2 id cycles, mw_equiv w1 w2 ->
  orel wrel2 (cc_writeback_lines ls w1 id cycles) (cc_writeback_lines ls w2 id cycles).
Proof.
  induction ls as [|l t IH]; intros w1 w2 id cycles H; cbn [cc_writeback_lines].
  - cong.
  - mw_destruct w1 w2 H. cong.
Qed.
#[export] Hint Resolve cc_writeback_lines_equiv : cong.

Lemma cc_writeback_equiv : forall w1 w2 c, mw_equiv w1 w2 -> orel wrel2 (cc_writeback w1 c) (cc_writeback w2 c).
Proof. intros. unfold cc_writeback. cong. Qed.
#[export] Hint Resolve cc_writeback_equiv : cong.

Lemma ccs_writeback_equiv : forall ccs w1 w2 cycles, mw_equiv w1 w2 ->
  orel wrel2 (ccs_writeback w1 ccs cycles) (ccs_writeback w2 ccs cycles).
Proof.
  induction ccs as [|c t IH]; intros w1 w2 cycles H; cbn [ccs_writeback]; cong.
Qed.
#[export] Hint Resolve ccs_writeback_equiv : cong.

Lemma l3_writeback_lines_equiv : forall ls w1 w2 cycles, mw_equiv w1 w2 ->
  orel wrel2 (l3_writeback_lines ls w1 cycles) (l3_writeback_lines ls w2 cycles).
Proof.
  induction ls as [|l t IH]; intros w1 w2 cycles H; cbn [l3_writeback_lines].
  - cong.
  - mw_destruct w1 w2 H. cong.
Qed.
#[export] Hint Resolve l3_writeback_lines_equiv : cong.

(* ------------------------------------------------------------------ *)
(* 3. my level                                                          *)
(* ------------------------------------------------------------------ *)

Lemma mk_my_equiv : forall x k1 k2 cp pf ccs, msi_equiv k1 k2 -> my_equiv (mk_my x k1 cp pf ccs) (mk_my x k2 cp pf ccs).
Proof.
  intros x k1 k2 cp pf ccs H. unfold my_equiv. cbn [y_x y_msi y_copy y_pref y_ccs].
  split; [reflexivity|]. split; [exact H|]. split; [reflexivity|]. split; reflexivity.
Qed.
#[export] Hint Resolve mk_my_equiv my_equiv_refl : cong.

Ltac my_destruct y1 y2 H :=
  destruct y1 as [?x1 ?k1 ?cp1 ?pf1 ?ccs1], y2 as [?x2 ?k2 ?cp2 ?pf2 ?ccs2]; unfold my_equiv in H;
  cbn [y_x y_msi y_copy y_pref y_ccs] in H; destruct H as (?Hx & ?Hk & ?Hcp & ?Hpf & ?Hccs); subst.

Ltac mw_cbn ::= cbn [fst snd w_mem w_l3 w_msi set_wmsi set_wl3 set_wmem
                      y_x y_msi y_copy y_pref y_ccs set_x set_ymsi set_ccs mw_of put_mw put_cc or_os8 wbus_connect8 y_os].

Ltac rel_destruct ::=
  repeat match goal with
  | H : wrel3 ?a ?b |- _ =>
      destruct a as [[? ?] ?], b as [[? ?] ?]; unfold wrel3 in H; cbn [fst snd] in H; destruct H as (? & ? & ?); subst
  | H : wrel2 ?a ?b |- _ =>
      destruct a as [? ?], b as [? ?]; unfold wrel2 in H; cbn [fst snd] in H; destruct H as (? & ?); subst
  | H : krel2 ?a ?b |- _ =>
      destruct a as [? ?], b as [? ?]; unfold krel2 in H; cbn [fst snd] in H; destruct H as (? & ?); subst
  | H : yrel3 ?a ?b |- _ =>
      destruct a as [[? ?] ?], b as [[? ?] ?]; unfold yrel3 in H; cbn [fst snd] in H; destruct H as (? & ? & ?); subst
  | H : yrel2 ?a ?b |- _ =>
      destruct a as [? ?], b as [? ?]; unfold yrel2 in H; cbn [fst snd] in H; destruct H as (? & ?); subst
  | H : mw_equiv ?a ?b |- _ => is_var a; is_var b; mw_destruct a b H
  | H : my_equiv ?a ?b |- _ => is_var a; is_var b; my_destruct a b H
  end.

Ltac rel_close ::=
  match goal with
  | |- wrel3 _ _ => unfold wrel3; cbn [fst snd]; split; [solve [eauto 12 with cong] | split; reflexivity]
  | |- wrel2 _ _ => unfold wrel2; cbn [fst snd]; split; [solve [eauto 12 with cong] | reflexivity]
  | |- krel2 _ _ => unfold krel2; cbn [fst snd]; split; [solve [eauto 12 with cong] | reflexivity]
  | |- yrel3 _ _ => unfold yrel3; cbn [fst snd]; split; [solve [eauto 12 with cong] | split; reflexivity]
  | |- yrel2 _ _ => unfold yrel2; cbn [fst snd]; split; [solve [eauto 12 with cong] | reflexivity]
  | |- mw_equiv _ _ => solve [eauto 12 with cong]
  | |- my_equiv _ _ => solve [eauto 12 with cong]
  | |- msi_equiv _ _ => solve [eauto 12 with cong]
  end.

Ltac my_start :=
  intros; match goal with H : my_equiv ?y1 ?y2 |- _ => my_destruct y1 y2 H end.

Lemma mw_of_equiv : forall y1 y2, my_equiv y1 y2 -> mw_equiv (mw_of y1) (mw_of y2).
Proof. my_start. mw_cbn. eauto 12 with cong. Qed.

Lemma put_mw_equiv : forall y1 y2 w1 w2, my_equiv y1 y2 -> mw_equiv w1 w2 -> my_equiv (put_mw y1 w1) (put_mw y2 w2).
Proof. my_start. rel_destruct. mw_cbn. eauto 12 with cong. Qed.

Lemma put_cc_equiv : forall y1 y2 i c, my_equiv y1 y2 -> my_equiv (put_cc y1 i c) (put_cc y2 i c).
Proof. my_start. mw_cbn. eauto 12 with cong. Qed.

Lemma set_x_equiv : forall y1 y2 x, my_equiv y1 y2 -> my_equiv (set_x y1 x) (set_x y2 x).
Proof. my_start. mw_cbn. eauto 12 with cong. Qed.

Lemma set_ymsi_equiv : forall y1 y2 k1 k2, my_equiv y1 y2 -> msi_equiv k1 k2 -> my_equiv (set_ymsi y1 k1) (set_ymsi y2 k2).
Proof. my_start. mw_cbn. eauto 12 with cong. Qed.

Lemma set_ccs_equiv : forall y1 y2 l, my_equiv y1 y2 -> my_equiv (set_ccs y1 l) (set_ccs y2 l).
Proof. my_start. mw_cbn. eauto 12 with cong. Qed.

Lemma eu_preference8_equiv : forall y1 y2 r, my_equiv y1 y2 -> eu_preference8 y1 r = eu_preference8 y2 r.
Proof. my_start. reflexivity. Qed.

Lemma cu_cycle8_equiv : forall ord cycle y1 y2, my_equiv y1 y2 -> my_equiv (cu_cycle8 ord cycle y1) (cu_cycle8 ord cycle y2).
Proof.
  my_start. msi_destruct k1 k2 Hk. unfold cu_cycle8. mw_cbn. msi_fields.
  destruct sl2.
  - apply mk_my_equiv. msi_close.
  - apply mk_my_equiv. msi_close.
Qed.
#[export] Hint Resolve cu_cycle8_equiv : cong.

Lemma front8_equiv : forall app ord cycle y1 y2, my_equiv y1 y2 -> orel my_equiv (front8 app ord cycle y1) (front8 app ord cycle y2).
Proof. my_start. unfold front8. cong. Qed.
#[export] Hint Resolve front8_equiv : cong.

Lemma snoops8_equiv : forall ord cycle y1 y2, my_equiv y1 y2 -> orel my_equiv (snoops8 ord cycle y1) (snoops8 ord cycle y2).
Proof.
  my_start. unfold snoops8. mw_cbn.
  match goal with |- orel _ (let '(_, _) := snoops_cycle _ _ ?wa ?cs in _) (let '(_, _) := snoops_cycle _ _ ?wb _ in _) =>
    assert (W : mw_equiv wa wb) by eauto 12 with cong;
    destruct (snoops_cycle_equiv ord cycle cs wa wb W) as [F S];
    destruct (snoops_cycle ord cycle wa cs) as [osa ra], (snoops_cycle ord cycle wb cs) as [osb rb]
  end.
  cbn [fst snd] in F, S. subst osb.
  eapply orel_bind; [exact S|]. intros a b R. rel_destruct. cong.
Qed.
#[export] Hint Resolve snoops8_equiv : cong.

Lemma eu_flush8_equiv : forall y1 y2 i e, my_equiv y1 y2 -> orel yrel2 (eu_flush8 y1 i e) (eu_flush8 y2 i e).
Proof. my_start. unfold eu_flush8. cong. Qed.
#[export] Hint Resolve eu_flush8_equiv : cong.

Lemma eu_write8_equiv : forall y1 y2 i e addrs data, my_equiv y1 y2 ->
  orel yrel3 (eu_write8 y1 i e addrs data) (eu_write8 y2 i e addrs data).
Proof. my_start. unfold eu_write8. cong. Qed.
#[export] Hint Resolve eu_write8_equiv : cong.

Lemma eu_run8_equiv : forall labels ord cycle y1 y2 i e, my_equiv y1 y2 ->
  orel yrel3 (eu_run8 labels ord cycle y1 i e) (eu_run8 labels ord cycle y2 i e).
Proof. my_start. unfold eu_run8. cong. Qed.
#[export] Hint Resolve eu_run8_equiv : cong.

Lemma eu_read8_equiv : forall labels ord cycle y1 y2 i e addrs, my_equiv y1 y2 ->
  orel yrel3 (eu_read8 labels ord cycle y1 i e addrs) (eu_read8 labels ord cycle y2 i e addrs).
Proof. my_start. unfold eu_read8. cong. Qed.
#[export] Hint Resolve eu_read8_equiv : cong.

Lemma eu_prepare8_equiv : forall labels ord cycle y1 y2 i e, my_equiv y1 y2 ->
  orel yrel3 (eu_prepare8 labels ord cycle y1 i e) (eu_prepare8 labels ord cycle y2 i e).
Proof. my_start. unfold eu_prepare8. cong. Qed.
#[export] Hint Resolve eu_prepare8_equiv : cong.

Lemma eu_pending8_equiv : forall y1 y2 e, my_equiv y1 y2 -> eu_pending8 y1 e = eu_pending8 y2 e.
Proof. my_start. reflexivity. Qed.

Lemma eu_cycle8_equiv : forall labels ord cycle y1 y2 i e, my_equiv y1 y2 ->
  orel yrel3 (eu_cycle8 labels ord cycle y1 i e) (eu_cycle8 labels ord cycle y2 i e).
Proof. my_start. unfold eu_cycle8, eu_pending8. cong. Qed.
#[export] Hint Resolve eu_cycle8_equiv : cong.

Lemma eus_main8_equiv : forall labels ord cycle eus y1 y2 i acc, my_equiv y1 y2 ->
  orel yrel3 (eus_main8 labels ord cycle y1 i eus acc) (eus_main8 labels ord cycle y2 i eus acc).
Proof.
  intros labels ord cycle. induction eus as [|e t IH]; intros y1 y2 i acc H; cbn [eus_main8]; cong.
Qed.
#[export] Hint Resolve eus_main8_equiv : cong.

Lemma eus_drain8_equiv : forall labels ord cycle eus y1 y2 i, my_equiv y1 y2 ->
  orel yrel3 (eus_drain8 labels ord cycle y1 i eus) (eus_drain8 labels ord cycle y2 i eus).
Proof.
  intros labels ord cycle. induction eus as [|e t IH]; intros y1 y2 i H; cbn [eus_drain8]; cong.
Qed.
#[export] Hint Resolve eus_drain8_equiv : cong.

Lemma eus_flush8_equiv : forall labels ord from eus y1 y2 i acc, my_equiv y1 y2 ->
  orel yrel3 (eus_flush8 labels ord from y1 i eus acc) (eus_flush8 labels ord from y2 i eus acc).
Proof.
  intros labels ord from. induction eus as [|e t IH]; intros y1 y2 i acc H; cbn [eus_flush8];
    [|rewrite (eu_pending8_equiv y1 y2 e H)]; cong.
Qed.
#[export] Hint Resolve eus_flush8_equiv : cong.

Lemma eus_final8_equiv : forall labels ord cycle eus y1 y2 i, my_equiv y1 y2 ->
  orel yrel3 (eus_final8 labels ord cycle y1 i eus) (eus_final8 labels ord cycle y2 i eus).
Proof.
  intros labels ord cycle. induction eus as [|e t IH]; intros y1 y2 i H; cbn [eus_final8].
  - cong.
  - replace (y_ccs y2) with (y_ccs y1) by (destruct H as (_ & _ & _ & _ & C); exact C). cong.
Qed.
#[export] Hint Resolve eus_final8_equiv : cong.

Lemma eus_flush_all8_equiv : forall eus y1 y2 i, my_equiv y1 y2 ->
  orel yrel2 (eus_flush_all8 y1 i eus) (eus_flush_all8 y2 i eus).
Proof.
  induction eus as [|e t IH]; intros y1 y2 i H; cbn [eus_flush_all8]; cong.
Qed.
#[export] Hint Resolve eus_flush_all8_equiv : cong.

(* the end of Run: the results are EQUAL *)
Theorem finish8_equiv : forall ord y1 y2 cycle, my_equiv y1 y2 -> finish8 ord y1 cycle = finish8 ord y2 cycle.
Proof.
  my_start. unfold finish8.
  match goal with |- match ?A with _ => _ end = match ?B with _ => _ end =>
    assert (R : orel wrel2 A B) by cong; destruct A as [[wa ca]|ea|], B as [[wb cb]|eb|]; cbn [orel] in R; try contradiction;
    try reflexivity
  end.
  destruct R as [R1 R2]. cbn [fst snd] in R1, R2. subst cb. mw_destruct wa wb R1. mw_cbn. reflexivity.
Qed.

Lemma wbus_connect8_equiv : forall y1 y2 cycle, my_equiv y1 y2 -> my_equiv (wbus_connect8 y1 cycle) (wbus_connect8 y2 cycle).
Proof. my_start. mw_cbn. eauto 12 with cong. Qed.

(* ------------------------------------------------------------------ *)
(* 4. the step function and the run                                     *)
(* ------------------------------------------------------------------ *)

Lemma mk_st8_equiv : forall y1 y2 eus wus cycle mode, my_equiv y1 y2 ->
  st_equiv (mk_st8 y1 eus wus cycle mode) (mk_st8 y2 eus wus cycle mode).
Proof.
  intros. unfold st_equiv. cbn [v_y v_eus v_wus v_cycle v_mode].
  split; [assumption|]. split; [reflexivity|]. split; [reflexivity|]. split; reflexivity.
Qed.
#[export] Hint Resolve mk_st8_equiv : cong.

Lemma yrel3_mk : forall B C y1 y2 (b : B) (c : C), my_equiv y1 y2 -> yrel3 (y1, b, c) (y2, b, c).
Proof. intros. unfold yrel3. cbn [fst snd]. split; [assumption|]. split; reflexivity. Qed.
#[export] Hint Resolve yrel3_mk : cong.

Ltac st_destruct s1 s2 H :=
  destruct s1 as [?y1 ?eus1 ?wus1 ?cyc1 ?md1], s2 as [?y2 ?eus2 ?wus2 ?cyc2 ?md2]; unfold st_equiv in H;
  cbn [v_y v_eus v_wus v_cycle v_mode] in H; destruct H as (?Hy & ?He & ?Hw & ?Hc & ?Hmd); subst;
  match goal with Hy : my_equiv ?a ?b |- _ => my_destruct a b Hy end.

Ltac st_start := intros; match goal with H : st_equiv ?s1 ?s2 |- _ => st_destruct s1 s2 H end.

Ltac st_cbn := try unfold y_os; cbn [v_y v_eus v_wus v_cycle v_mode]; mw_cbn.

Lemma res_of8_equiv : forall A (R : A -> A -> Prop) os o1 o2 k1 k2,
  orel R o1 o2 -> (forall a b, R a b -> res_equiv (k1 a) (k2 b)) -> res_equiv (res_of8 os o1 k1) (res_of8 os o2 k2).
Proof.
  intros A R os [a|e|] [b|e'|] k1 k2 H K; cbn [orel res_of8 res_equiv] in *; try contradiction; auto.
  subst. auto.
Qed.

Ltac rcong1 :=
  match goal with
  | |- res_equiv (VDone _ _) (VDone _ _) =>
      cbn [res_equiv]; split; [first [reflexivity | apply finish8_equiv; solve [eauto 12 with cong]] | reflexivity]
  | |- res_equiv (VCont _) (VCont _) => cbn [res_equiv]; solve [eauto 12 with cong]
  | |- res_equiv (res_of8 ?os ?o _) (res_of8 ?os ?o _) => destruct o; cbn [res_of8]
  | |- res_equiv (if ?b then _ else _) (if ?b then _ else _) => destruct b
  | |- res_equiv (match ?e with _ => _ end) (match ?e with _ => _ end) => destruct e
  | |- res_equiv (res_of8 _ _ _) (res_of8 _ _ _) =>
      eapply res_of8_equiv; [solve [eauto 12 with cong] | intros ? ? ?Hr; rel_destruct]
  end.

Ltac rcong := repeat (st_cbn; rcong1); try solve [eauto 12 with cong].

Lemma ret_check8_equiv : forall s1 s2, st_equiv s1 s2 -> res_equiv (ret_check8 s1) (ret_check8 s2).
Proof. st_start. unfold ret_check8. rcong. Qed.
#[export] Hint Resolve ret_check8_equiv : cong.

Lemma flush_advance8_equiv : forall s1 s2 k seq pc from empty, st_equiv s1 s2 ->
  res_equiv (flush_advance8 s1 k seq pc from empty) (flush_advance8 s2 k seq pc from empty).
Proof. st_start. unfold flush_advance8. rcong. Qed.
#[export] Hint Resolve flush_advance8_equiv : cong.

Lemma back8_equiv : forall s1 s2 cycle z1 z2, st_equiv s1 s2 -> yrel3 z1 z2 ->
  res_equiv (back8 s1 cycle z1) (back8 s2 cycle z2).
Proof. st_start. rel_destruct. unfold back8. rcong. Qed.
#[export] Hint Resolve back8_equiv : cong.

Theorem step8_equiv : forall app labels ord s1 s2, st_equiv s1 s2 ->
  res_equiv (step8 app labels ord s1) (step8 app labels ord s2).
Proof.
  st_start. unfold step8. st_cbn. destruct md2.
  - rcong.
  - rcong.
  - rcong.
  - rcong.
  - rcong.
Qed.

Theorem run8_st_equiv : forall fuel app labels ord s1 s2, st_equiv s1 s2 ->
  match run8_st fuel app labels ord s1, run8_st fuel app labels ord s2 with
  | inl r1, inl r2 => r1 = r2
  | inr a, inr b => st_equiv a b
  | _, _ => False
  end.
Proof.
  induction fuel as [|f IH]; intros app labels ord s1 s2 H; cbn [run8_st]; [exact H|].
  pose proof (step8_equiv app labels ord s1 s2 H) as S.
  destruct (step8 app labels ord s1) as [r1 os1|s1'], (step8 app labels ord s2) as [r2 os2|s2']; cbn [res_equiv] in S;
    try contradiction.
  - destruct S as [-> ->]. reflexivity.
  - apply IH. exact S.
Qed.

Print Assumptions step8_equiv.
Print Assumptions run8_st_equiv.
