(* Refinement of MVP-6.3 to the sequential machine on single-assignment register-only programs with FORWARD control
   flow - the theorems: the two one-tick lemmas of Mvp63RefFwdStep.v discharge the propositions StepN3 / StepR3 of
   Mvp63RefFwdProofs.v.

   PROVED, for every app with wf_app, reg_only, ssa, regs_ok, fwd_ok app labels, seq_ids_fit3 app, every initial state with
   32 int32 registers and x0 = 0, every par >= 1, EVERY order function ord, whenever seq_run ... = Done st' tr:
     mvp63_refines_seq_ssa_forward   exists c, forall fuel' >= fuel_bound63_fwd (length app),
                                       mvp63_run_os par ord fuel' app labels st = (MDone c st', false)
     mvp63_no_panic_ssa_forward      no panic, no error, no exhausted budget, ghost flag clear.

   Structure of the proof (all in coq/theories/Mvp)
     Mvp63RefFwdDefs.v   sid, TabOK (alias tables), BIq (Mvp63RefInv.BI with a base, ctx.sequenceID = sq > 0, branches in
                         flight, pendingConditionalBranch), G3q / GR3q (main loop, drain loop), GF3 (flush loops), Fresh3
     Mvp63RefFwdRat.v    the alias tables across TransactionRATWrite / RATCommit / RATRollback / RATFlush / a new segment
     Mvp63RefFwdFront.v  fetch + decode with tags: the front-end invariant of the MVP-6.0 proof on the machine with the
                         tags of the control bus erased (untag_m)
     Mvp63RefFwdInv.v    controlUnit.cycle on BIq (cu_cycle_okq)
     Mvp63RefFwdExec.v   executeUnit.Cycle on the head of the execute bus: plain instruction / not-taken branch (RATCommit),
                         ret, jump / taken branch (RATRollback, flush request), the shadow executed behind a taken branch in
                         the same tick; the write units with `before`
     Mvp63RefFwdStep.v   one tick of the main loop / of the drain loop (step_normal3q, step_ret3q)
     Mvp63RefFwdFlush.v  NFlushE, NFlushW, CPU.flush: GF3 -> Fresh3 (flush_run)
     Mvp63RefFwdProofs.v Fresh3 -> G3q, NewCPU ; InitRAT, one segment (seg_run3q), induction over the segments (fwd_core3)
     this file           the theorems. *)
From Coq Require Import ZArith List Bool Lia Permutation.
From Maj Require Import Base.Outcome Base.GoInt Base.GoTypes Isa.Spec Isa.Embed Isa.Seq Isa.Refine Gen.Opcodes.
From Maj Require Import Gen.Latency Gen.RiscTables Comp.Cache Comp.Rat Comp.RatProofs.
From Maj Require Import Mvp.Mvp12 Mvp.Mvp12Proofs Mvp.Mvp3 Mvp.Mvp3Proofs Mvp.Mvp4Skel Mvp.Mvp4Inv Mvp.Mvp5 Mvp.Mvp60 Mvp.Mvp60Proofs
     Mvp.Mvp60RefSem Mvp.Mvp60RefDefs Mvp.Mvp60RefFront Mvp.Mvp60RefBack Mvp.Mvp60RefStep Mvp.Mvp60RefStep2 Mvp.Mvp60RefSeg Mvp.Mvp60RefProofs
     Mvp.Mvp63 Mvp.Mvp63Proofs Mvp.Mvp63RefDefs Mvp.Mvp63RefStep Mvp.Mvp63RefProofs
     Mvp.Mvp63RefFwdDefs Mvp.Mvp63RefFwdStep Mvp.Mvp63RefFwdProofs.
Import ListNotations.
Open Scope Z_scope.

Section Thm3.
  Variables (app : list instr) (labels : Z -> option Z).
  Hypothesis Happ : wf_app app.
  Hypothesis Hreg : reg_only app = true.
  Hypothesis Hssa : ssa app = true.
  Hypothesis Hrng : regs_ok app = true.
  Hypothesis Hfwd : fwd_ok app labels = true.

  (* no instruction of the class fails, whatever the registers: wrong-path execution included *)
  Lemma htot3 k rr : (k < length app)%nat -> exists e, exec (sinstr_of (ik app k)) rr labels (pcz k) [] = Ok e.
  Proof. intros Hk. destruct (fwd_total app labels k rr Hfwd Hk) as (e & He & _). exists e. exact He. Qed.

  Lemma stepN3_holds : StepN3 app labels.
  Proof. exact (stepN3_fwd app labels Happ Hreg Hssa Hrng Hfwd). Qed.

  Lemma stepR3_holds : StepR3 app labels.
  Proof. exact (stepR3_fwd app labels Happ Hreg Hssa Hrng Hfwd). Qed.

  Hypothesis Hfit : seq_ids_fit3 app.

  Theorem mvp63_refines_seq_ssa_forward par ord fuel st st' tr : (1 <= par)%nat ->
    Forall int32 (regs st) -> length (regs st) = 32%nat -> nth 0 (regs st) 0 = 0 ->
    seq_run fuel (map sinstr_of app) labels st = Done st' tr ->
    exists c, forall fuel', (fuel_bound63_fwd (length app) <= fuel')%nat -> mvp63_run_os par ord fuel' app labels st = (MDone c st', false).
  Proof. exact (mvp63_run_ssa_forward_core app labels Hreg Hrng Hfwd Hfit stepN3_holds stepR3_holds par ord fuel st st' tr). Qed.

  Corollary mvp63_no_panic_ssa_forward par ord fuel st st' tr : (1 <= par)%nat ->
    Forall int32 (regs st) -> length (regs st) = 32%nat -> nth 0 (regs st) 0 = 0 ->
    seq_run fuel (map sinstr_of app) labels st = Done st' tr ->
    forall fuel', (fuel_bound63_fwd (length app) <= fuel')%nat ->
      mvp63_run par ord fuel' app labels st <> MPanic /\ mvp63_run par ord fuel' app labels st <> MOutOfFuel /\
      (forall e, mvp63_run par ord fuel' app labels st <> MErr e) /\ snd (mvp63_run_os par ord fuel' app labels st) = false.
  Proof.
    intros Hpar HR HlR Hx0 Hrun fuel' Hf.
    destruct (mvp63_refines_seq_ssa_forward par ord fuel st st' tr Hpar HR HlR Hx0 Hrun) as (c & Hc).
    unfold mvp63_run. rewrite (Hc fuel' Hf). cbn [fst snd]. repeat split; try discriminate.
  Qed.
End Thm3.

Print Assumptions mvp63_refines_seq_ssa_forward.
Print Assumptions mvp63_no_panic_ssa_forward.
