(* The MVP-5 model on a register-only program is, cycle for cycle, its skeleton
   (Mvp5Skel.v) plus the values of the sequential machine. *)
From Coq Require Import ZArith List Bool Lia.
From Maj Require Import Base.Outcome Base.GoInt Base.GoTypes Isa.Spec Isa.Embed Isa.Seq Isa.Refine.
From Maj Require Import Gen.Latency Gen.RiscTables Gen.Opcodes Comp.Cache Comp.CacheProofs.
From Maj Require Import Mvp.Mvp12 Mvp.Mvp12Proofs Mvp.Mvp3 Mvp.Mvp3Proofs Mvp.Mvp4 Mvp.Mvp5
     Mvp.Mvp4Skel Mvp.Mvp4Inv Mvp.Mvp4Units Mvp.Mvp4Front Mvp.Mvp4Sim Mvp.Mvp5Skel Mvp.Mvp5Inv Mvp.Mvp5Front.
Import ListNotations.
Open Scope Z_scope.

(* ------------------------------------------------------------------ *)
(* the branch unit                                                      *)

(* toCheck and expectation after btbBranchUnit.assert *)
Definition asrt (btb : list (Z * Z)) (tc : bool) (ex : Z) (i : instr) (pc : Z) : bool * Z :=
  if uncond i then match btb_get btb pc with None => (true, -1) | Some _ => (false, ex) end
  else if condbr i then (true, addS 32 pc 4) else (false, ex).

Lemma bu5_assert_eq regs mem pw l1d e wbus tc ex btb fu du i pc :
  bu5_assert (mk_env5 regs mem pw l1d e wbus (mk_bu5 tc ex btb) fu du) i pc =
  mk_env5 regs mem pw l1d e wbus (mk_bu5 (fst (asrt btb tc ex i pc)) (snd (asrt btb tc ex i pc)) btb)
          (sk5_assert fu btb (Some (i, pc))) du.
Proof.
  unfold bu5_assert, asrt, sk5_assert, uncond, condbr.
  cbn [v_regs v_mem v_pw v_l1d v_eu v_wbus v_bu v_fu v_du b5_to_check b5_expectation b5_btb].
  destruct (InstructionType_IsUnconditionalBranch (instr_InstructionType i)).
  - destruct (btb_get btb pc); reflexivity.
  - destruct (InstructionType_IsConditionalBranch (instr_InstructionType i)); reflexivity.
Qed.

(* ------------------------------------------------------------------ *)
(* the execute unit against its skeleton                                *)

Lemma eu5_cycle_none labels regs mem pw l1d e wbus tc ex btb fu du ebus e1 ebus2 :
  eu_pending_read e = false -> sbus_can_add wbus = true ->
  sk_eu e ebus pw = (e1, ebus2, ANone) ->
  exists tc' ex', eu5_cycle labels (mk_env5 regs mem pw l1d e wbus (mk_bu5 tc ex btb) fu du) ebus
                  = inl (Ok (mk_env5 regs mem pw l1d e1 wbus (mk_bu5 tc' ex' btb)
                                     (sk5_assert fu btb (eu_issue e ebus)) du, ebus2, eu_none)).
Proof.
  intros Hpr Hadd. unfold sk_eu, eu5_cycle, eu_issue, eu_intake, set_rem.
  cbn [v_regs v_mem v_pw v_l1d v_eu v_wbus v_bu v_fu v_du]. rewrite Hpr, Hadd.
  destruct (eu_processing e) eqn:Ep.
  - cbn [negb]. destruct (negb (eu_remaining e - 1 =? 0)).
    + intros H. injection H as <- <-. do 2 eexists. reflexivity.
    + destruct (eu_runner e) as [[i pc]|]; [|discriminate].
      destruct (pw_hazard pw (instr_ReadRegisters i)); [|discriminate].
      intros H. injection H as <- <-. unfold set_eu at 2. cbn [v_regs v_mem v_pw v_l1d v_eu v_wbus v_bu v_fu v_du].
      rewrite bu5_assert_eq. do 2 eexists. reflexivity.
  - destruct (sbus_get ebus) as [ebus' got]. destruct got as [[i pc]|].
    + cbn [negb eu_remaining eu_runner eu_processing eu_pending_read eu_addrs eu_memory].
      fold (cyc_of i).
      destruct (negb (cyc_of i - 1 =? 0)).
      * intros H. injection H as <- <-. do 2 eexists. reflexivity.
      * destruct (pw_hazard pw (instr_ReadRegisters i)); [|discriminate].
        intros H. injection H as <- <-. unfold set_eu at 2. cbn [v_regs v_mem v_pw v_l1d v_eu v_wbus v_bu v_fu v_du].
        rewrite bu5_assert_eq. do 2 eexists. reflexivity.
    + cbn [negb]. intros H. injection H as <- <-. do 2 eexists. reflexivity.
Qed.

Definition eu5_post (r : outcome (eu5_env * eu_out) + err_class) (ebus : sbus (instr * Z))
  : outcome (eu5_env * sbus (instr * Z) * eu_out) + err_class :=
  match r with
  | inr er => inr er
  | inl (Ok (env2, o)) => inl (Ok (set_eu env2 (clear_runner (v_eu env2)), ebus, o))
  | inl (Err er) => inl (Err er)
  | inl Panic => inl Panic
  end.

Lemma eu5_cycle_exec labels regs mem pw l1d e wbus bu fu du ebus e1 ebus2 i pc :
  eu_pending_read e = false -> sbus_can_add wbus = true ->
  sk_eu e ebus pw = (e1, ebus2, AExec i pc) ->
  instr_MemoryRead i (rget regs) 0 = [] ->
  exists e2, e1 = eu_done e2 /\ pw_hazard pw (instr_ReadRegisters i) = false /\
    eu5_cycle labels (mk_env5 regs mem pw l1d e wbus bu fu du) ebus
    = eu5_post (eu5_run labels (bu5_assert (mk_env5 regs mem pw l1d e2 wbus bu fu du) i pc) i pc []) ebus2.
Proof.
  intros Hpr Hadd. unfold sk_eu, eu5_cycle, eu_intake, set_rem.
  cbn [v_regs v_mem v_pw v_l1d v_eu v_wbus v_bu v_fu v_du]. rewrite Hpr, Hadd.
  destruct (eu_processing e) eqn:Ep.
  - cbn [negb]. destruct (negb (eu_remaining e - 1 =? 0)); [discriminate|].
    destruct (eu_runner e) as [[i0 pc0]|]; [|discriminate].
    destruct (pw_hazard pw (instr_ReadRegisters i0)) eqn:Ehz; [discriminate|].
    intros H. injection H as <- <- <- <-. intros Hmr. rewrite Hmr.
    eexists. split; [reflexivity|]. split; [assumption|]. reflexivity.
  - destruct (sbus_get ebus) as [ebus' got]. destruct got as [[i0 pc0]|].
    + cbn [negb eu_remaining eu_runner eu_processing eu_pending_read eu_addrs eu_memory].
      fold (cyc_of i0).
      destruct (negb (cyc_of i0 - 1 =? 0)); [discriminate|].
      destruct (pw_hazard pw (instr_ReadRegisters i0)) eqn:Ehz; [discriminate|].
      intros H. injection H as <- <- <- <-. intros Hmr. rewrite Hmr.
      eexists. split; [reflexivity|]. split; [assumption|]. reflexivity.
    + cbn [negb]. discriminate.
Qed.

Lemma eu5_run_ret labels env i pc :
  instr_Run i (rget (v_regs env)) labels pc [] 0 = Ok (embed EReturn) ->
  eu5_run labels env i pc [] = inl (Ok (env, mk_euo false 0 true)).
Proof. intros H. unfold eu5_run. rewrite H. reflexivity. Qed.

(* the flush decision of executeUnit.run, given toCheck and expectation *)
Definition fl5 (tc : bool) (ex : Z) (exe : execution) : bool := PcChange exe && tc && negb (ex =? NextPc exe).

Lemma eu5_run_reg labels regs mem pw l1d e2 wbus tc ex btb fu du i pc exe :
  instr_Run i (rget regs) labels pc [] 0 = Ok exe -> Return exe = false -> MemoryChange exe = false ->
  exists tc',
  eu5_run labels (mk_env5 regs mem pw l1d e2 wbus (mk_bu5 tc ex btb) fu du) i pc [] =
    inl (Ok (mk_env5 regs mem (pw_add pw (instr_WriteRegisters i)) l1d
                     (mk_eu false (eu_pending_read e2) (eu_addrs e2) (eu_memory e2) (eu_remaining e2) (eu_runner e2))
                     (sbus_add wbus (exe, instr_WriteRegisters i))
                     (mk_bu5 tc' ex (if uncond i then btb_add btb pc (NextPc exe) else btb))
                     (if uncond i then fu5_reset fu (NextPc exe) else fu)
                     (if uncond i then false else du),
             if fl5 tc ex exe then mk_euo true (NextPc exe) false else eu_none)).
Proof.
  intros H Hr Hm. unfold eu5_run, fl5, uncond.
  cbn [v_regs v_mem v_pw v_l1d v_eu v_wbus v_bu v_fu v_du]. rewrite H, Hr, Hm. cbn [bind].
  destruct (InstructionType_IsUnconditionalBranch (instr_InstructionType i));
    destruct (PcChange exe); unfold bu5_should_flush; cbn [b5_to_check b5_expectation b5_btb andb];
    destruct tc; cbn [negb andb]; eexists; reflexivity.
Qed.

(* the flush decision of MVP-5 from the one of MVP-4 (Mvp4Sim.exec_cases) *)
Lemma flush5_agree btb tc ex i pc next exe :
  snd (flush_dec (bu_assert (mk_bu false 0) i pc) exe) = sk_flush i pc next ->
  (sk_flush i pc next = true -> NextPc exe = next) ->
  (uncond i = true -> NextPc exe = next) /\
  fl5 (fst (asrt btb tc ex i pc)) (snd (asrt btb tc ex i pc)) exe = sk5_flush btb i pc next /\
  (sk5_flush btb i pc next = true -> NextPc exe = next).
Proof.
  unfold flush_dec, bu_assert, sk_flush, asrt, sk5_flush, fl5, bu_should_flush. fold (uncond i) (condbr i).
  destruct (uncond i) eqn:Eu; cbn [orb].
  - cbn [bu_to_check bu_expectation negb]. intros Hfl Hn. specialize (Hn eq_refl).
    split; [auto|]. split; [|auto].
    destruct (PcChange exe); cbn [snd] in Hfl; [|discriminate].
    destruct (btb_get btb pc); cbn [fst snd andb]; [reflexivity | exact Hfl].
  - intros Hfl Hn. split; [discriminate|]. split; [|exact Hn].
    destruct (condbr i); cbn [fst snd bu_to_check bu_expectation negb] in *.
    + rewrite <- Hfl. destruct (PcChange exe); reflexivity.
    + rewrite <- Hfl. destruct (PcChange exe); cbn [snd andb]; rewrite ?andb_false_r; reflexivity.
Qed.

(* ------------------------------------------------------------------ *)

Lemma finish5_reg regs mem pw l1i l1d fu du dbus ebus eu wbus wu bu cyc :
  lines l1d = [] ->
  m5_finish (mk_m5 regs mem pw l1i l1d fu du dbus ebus eu wbus wu bu) cyc = MDone cyc (mk_arch regs mem).
Proof. intros H. unfold m5_finish. cbn [t_l1d t_mem t_regs]. rewrite H. cbn [flush_lines]. rewrite Z.add_0_r. reflexivity. Qed.

Lemma complete5_agree regs mem pw pw' l1i l1d fu du dbus ebus eu w bu btb :
  m5_is_complete (mk_m5 regs mem pw l1i l1d fu du dbus ebus eu (mk_sbus None None) (mk_wu false w) bu)
  = sk5_complete (mk_sk5 fu du l1i dbus ebus eu pw' None btb).
Proof.
  unfold m5_is_complete, sk5_complete.
  cbn [t_fu t_eu t_wu t_dbus t_ebus t_wbus k5_fu k5_eu k5_dbus k5_ebus k5_wb wu_pending].
  destruct (f5_complete fu), (eu_processing eu), (sbus_is_empty dbus), (sbus_is_empty ebus); reflexivity.
Qed.

Lemma complete5_false regs mem pw l1i l1d fu du dbus ebus eu x w bu :
  m5_is_complete (mk_m5 regs mem pw l1i l1d fu du dbus ebus eu (mk_sbus None (Some x)) (mk_wu false w) bu) = false.
Proof. unfold m5_is_complete. cbn [t_wbus sbus_is_empty sb_pending sb_current]. apply andb_false_r. Qed.

Section Sim5.
  Variables (app : list instr) (labels : Z -> option Z).
  Hypothesis Happ : wf_app app.
  Hypothesis Hlab : wf_labels labels.
  Hypothesis Hreg : reg_only app = true.

  (* the model state [s] is the skeleton [a] plus the values of the sequential state
     [st]: the registers lag behind by the one entry of the write bus *)
  Inductive R5 : m5state -> sk5 -> arch -> Prop :=
  | R5_intro a rg l1d w tc ex cur st :
      lines l1d = [] -> Forall int32 rg -> Forall int32 (regs st) -> (length rg <= 32)%nat ->
      cur_wr cur = k5_wb a ->
      (forall x, cur = Some x -> item_ok x /\ wb_rel (fst x) (snd x)) ->
      regs st = cur_regs cur rg ->
      R5 (mk_m5 rg (mem st) (k5_pw a) (k5_l1i a) l1d (k5_fu a) (k5_du a) (k5_dbus a) (k5_ebus a) (k5_eu a)
                (mk_sbus None cur) (mk_wu false w) (mk_bu5 tc ex (k5_btb a))) a st.

  Lemma sim_step5 f a head rest cyc s st stf :
    R5 s a st -> F5 app head a -> sexec app labels st (head :: rest) stf ->
    match sk5_cycle app a (head :: rest) with
    | K5Stuck => True
    | K5Done dc => m5run (S f) app labels s cyc = MDone (cyc + dc) stf
    | K5Step a' path' dc =>
        exists s' st', m5run (S f) app labels s cyc = m5run f app labels s' (cyc + dc) /\
                       R5 s' a' st' /\ sexec app labels st' path' stf
    end.
  Proof.
    intros HR HF HS.
    destruct HR as [a rg l1d w tc ex cur st Hl Hri Hsi Hlen Hcw Hitem Hregs].
    pose proof HF as [Hh _ _ _ _ _ _ Hpr _ Hpw _ _].
    assert (Hitem1 : forall x, cur = Some x -> item_ok x) by (intros x Hx; apply Hitem; exact Hx).
    unfold sk5_cycle.
    cbn [m5run t_fu t_du t_l1i t_dbus t_ebus t_regs t_mem t_pw t_l1d t_eu t_wbus t_bu t_wu].
    destruct (fu5_cycle app (k5_fu a) (k5_l1i a) (k5_dbus a)) as [[[fu1 l1i1] dbus1]| |] eqn:Ef; try exact I.
    destruct (du5_cycle app (k5_du a) dbus1 (k5_ebus a)) as [[[du1 dbus2] ebus1]| |] eqn:Ed; try exact I.
    destruct (sk_eu (k5_eu a) ebus1 (k5_pw a)) as [[e1 ebus2] act] eqn:Ee.
    destruct act as [|i pc|]; [| |exact I].
    - (* nothing executed this cycle *)
      destruct (eu5_cycle_none labels rg (mem st) (k5_pw a) l1d (k5_eu a) (mk_sbus None cur) tc ex (k5_btb a) fu1 du1
                               ebus1 e1 ebus2 Hpr eq_refl Ee) as (tc' & ex' & Eeu).
      rewrite Eeu. cbn [v_regs v_mem v_pw v_l1d v_eu v_wbus v_bu v_fu v_du eu_none eo_ret eo_flush].
      rewrite (wu_cycle_reg rg (mem st) (k5_pw a) w None cur Hitem1).
      rewrite (complete5_agree _ _ _ (wdel (k5_pw a) (k5_wb a)) _ _ _ _ _ _ _ _ _ (k5_btb a)). rewrite Hcw.
      pose proof (f5_none app Happ head a _ _ _ _ _ _ _ _ HF Ef Ed Ee) as HF2. unfold after_none5 in HF2.
      destruct (sk5_complete _) eqn:Ec.
      + rewrite finish5_reg by exact Hl.
        pose proof (complete_out5 app head _ HF2 Ec) as Hout.
        assert (Hst : Seq.step (map sinstr_of app) labels st head = Halt st) by (apply step_out; [lia | exact Hout]).
        assert (stf = st).
        { inversion HS as [? ? ? Hs|? ? ? ? ? ? Hs]; subst; rewrite Hst in Hs; [injection Hs as <-; reflexivity | discriminate]. }
        subst stf. rewrite <- Hregs. destruct st; reflexivity.
      + eexists _, st. split; [reflexivity|]. split; [|exact HS].
        apply (R5_intro (mk_sk5 _ du1 l1i1 dbus2 ebus2 e1 (wdel (k5_pw a) (k5_wb a)) None (k5_btb a))
                        (cur_regs cur rg) l1d w tc' ex' None st); auto; try discriminate.
        * rewrite <- Hregs. exact Hsi.
        * rewrite cur_regs_length. exact Hlen.
    - (* (i, pc) is executed *)
      destruct (Z.eqb_spec head pc) as [<-|]; cbn [negb]; [|exact I].
      destruct (front_flow5 app Happ head a _ _ _ _ _ _ _ _ _ HF Ef Ed Ee) as (_ & _ & _ & _ & Hmid & _).
      destruct Hmid as (_ & _ & _ & Hent').
      cbn [act_q List.app] in Hent'. inversion Hent' as [|x l [_ Hi] _]; subst x l. cbn [fst snd] in Hi.
      pose proof (nomem_nth app Hreg _ _ Hi) as Hnm.
      destruct (eu5_cycle_exec labels rg (mem st) (k5_pw a) l1d (k5_eu a) (mk_sbus None cur) (mk_bu5 tc ex (k5_btb a)) fu1 du1
                  ebus1 e1 ebus2 i head Hpr eq_refl Ee (nomem_no_read i _ _ Hnm)) as (e2 & -> & Hhz & Eeu).
      rewrite Eeu. rewrite bu5_assert_eq. rewrite (eu_issue_exec _ _ _ _ _ _ _ Ee).
      pose proof (reads_agree (proj a) rg cur st i Hlen Hcw Hpw Hitem Hregs Hhz) as Hread.
      pose proof (exec_cases app labels Happ Hlab Hreg st rg head i (mk_bu false 0) Hh Hi Hri Hsi Hread) as Hcases.
      inversion HS as [? ? ? Hs|? ? st' next rest' ? Hs HS']; subst; rewrite Hs in Hcases.
      + (* the run halts here: ret *)
        destruct Hcases as (-> & Hret & Hrun). rewrite Hret.
        rewrite eu5_run_ret by exact Hrun.
        cbn [eu5_post set_eu v_regs v_mem v_pw v_l1d v_eu v_wbus v_bu v_fu v_du eo_ret eo_flush].
        rewrite (wu_cycle_reg rg (mem st) (k5_pw a) w None cur Hitem1).
        rewrite drain_empty. rewrite finish5_reg by exact Hl. rewrite <- Hregs. destruct st; reflexivity.
      + destruct Hcases as (Hret & e & Hrun & Hr & Hm & Hit & Hrel & Hregs' & Hmem' & Hsi' & Hfl & Hnpc).
        rewrite Hret.
        destruct (eu5_run_reg labels rg (mem st) (k5_pw a) l1d e2 (mk_sbus None cur)
                    (fst (asrt (k5_btb a) tc ex i head)) (snd (asrt (k5_btb a) tc ex i head)) (k5_btb a)
                    (sk5_assert fu1 (k5_btb a) (Some (i, head))) du1 i head (embed e) Hrun Hr Hm) as (tc' & Erun).
        rewrite Erun.
        pose proof (sexec_head_nonneg _ _ _ _ _ _ HS') as Hnext. specialize (Hfl Hnext).
        destruct (flush5_agree (k5_btb a) tc ex i head next (embed e) Hfl Hnpc) as (Hunc & Hfl5 & Hnpc5).
        rewrite Hfl5.
        assert (Hfu_eq : (if uncond i then fu5_reset (sk5_assert fu1 (k5_btb a) (Some (i, head))) (NextPc (embed e))
                          else sk5_assert fu1 (k5_btb a) (Some (i, head)))
                         = (if uncond i then fu5_reset (sk5_assert fu1 (k5_btb a) (Some (i, head))) next
                            else sk5_assert fu1 (k5_btb a) (Some (i, head)))).
        { destruct (uncond i); [rewrite (Hunc eq_refl)|]; reflexivity. }
        assert (Hbtb_eq : (if uncond i then btb_add (k5_btb a) head (NextPc (embed e)) else k5_btb a)
                          = (if uncond i then btb_add (k5_btb a) head next else k5_btb a)).
        { destruct (uncond i); [rewrite (Hunc eq_refl)|]; reflexivity. }
        rewrite Hfu_eq, Hbtb_eq.
        cbn [eu5_post set_eu v_regs v_mem v_pw v_l1d v_eu v_wbus v_bu v_fu v_du]. rewrite sbus_add_mk.
        rewrite (wu_cycle_reg rg (mem st) _ w _ cur Hitem1).
        destruct (sk5_flush (k5_btb a) i head next) eqn:Esf.
        * (* not predicted / mispredicted: drain and flush *)
          cbn [eo_ret eo_flush eo_pc].
          rewrite (drain_one _ _ _ _ w _ _ true Hit). cbn [fst snd]. rewrite (Hnpc5 eq_refl).
          eexists _, st'. split; [replace (cyc + 2) with (cyc + 1 + 1) by lia; reflexivity|]. split; [|exact HS'].
          rewrite <- Hmem'.
          apply (R5_intro (mk_sk5 (mk_fu5 next _ false false _) false l1i1 sbus_empty sbus_empty (eu_flushed (eu_done e2)) zero_pw None _)
                          (wapply (embed e) (cur_regs cur rg)) l1d w tc' _ None st'); auto; try discriminate.
          -- rewrite <- Hregs, <- Hregs'. exact Hsi'.
          -- rewrite wapply_length, cur_regs_length. exact Hlen.
          -- cbn [cur_regs]. rewrite <- Hregs. exact Hregs'.
        * cbn [eo_ret eo_flush]. rewrite complete5_false.
          eexists _, st'. split; [reflexivity|]. split; [|exact HS'].
          rewrite <- Hmem', Hcw.
          apply (R5_intro (mk_sk5 _ _ l1i1 dbus2 ebus2 (eu_done e2) (wdel (pw_add (k5_pw a) (instr_WriteRegisters i)) (k5_wb a))
                                  (Some (instr_WriteRegisters i)) _)
                          (cur_regs cur rg) l1d w tc' _ (Some (embed e, instr_WriteRegisters i)) st'); auto.
          -- rewrite <- Hregs. exact Hsi.
          -- rewrite cur_regs_length. exact Hlen.
          -- intros x Hx. injection Hx as <-. split; assumption.
          -- cbn [cur_regs]. rewrite <- Hregs. exact Hregs'.
  Qed.
End Sim5.
