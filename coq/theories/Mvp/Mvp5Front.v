(* The skeleton of MVP-5 (Mvp5Skel.v) keeps its invariant (Mvp5Inv.v), never gets
   stuck on a well-formed path, and makes progress: the potential of MVP-4 (on the
   decode bus as the fetch unit will see it) decreases in every cycle in which no
   instruction is executed. *)
From Coq Require Import ZArith List Bool Lia.
From Maj Require Import Base.Outcome Base.GoInt Base.GoTypes Isa.Spec Isa.Embed Isa.Seq Isa.Refine.
From Maj Require Import Gen.Latency Gen.RiscTables Gen.Opcodes Comp.Cache Comp.CacheProofs.
From Maj Require Import Mvp.Mvp12 Mvp.Mvp12Proofs Mvp.Mvp3 Mvp.Mvp3Proofs Mvp.Mvp4 Mvp.Mvp5
     Mvp.Mvp4Skel Mvp.Mvp4Inv Mvp.Mvp4Units Mvp.Mvp4Front Mvp.Mvp5Skel Mvp.Mvp5Inv.
Import ListNotations.
Open Scope Z_scope.

(* ------------------------------------------------------------------ *)
(* the decode unit, with the stall flag it leaves                        *)

Lemma du5_cycle_spec app dbus ebus :
  (forall p, sb_current dbus = Some p -> 0 <= p) ->
  exists du' dbus' ebus', du5_cycle app false dbus ebus = Ok (du', dbus', ebus') /\
    du_cycle app dbus ebus = Ok (dbus', ebus') /\ sb_current ebus' = sb_current ebus /\
    ((sbus_can_add ebus = false /\ dbus' = dbus /\ ebus' = ebus /\ du' = false)
     \/ (sbus_can_add ebus = true /\ dbus' = mk_sbus None (sb_pending dbus) /\
         ((sb_current dbus = None /\ ebus' = ebus /\ du' = false)
          \/ (exists p, sb_current dbus = Some p /\ nlen app <= p / 4 /\ ebus' = ebus /\ du' = false)
          \/ (exists p i, sb_current dbus = Some p /\ p / 4 < nlen app /\
                          nth_error app (Z.to_nat (p / 4)) = Some i /\ ebus' = sbus_add ebus (i, p) /\ du' = uncond i)))).
Proof.
  intros Hpos. unfold du5_cycle, du_cycle. destruct (sbus_can_add ebus) eqn:Eadd; cbn [negb].
  2:{ do 3 eexists. split; [reflexivity|]. split; [reflexivity|]. split; [reflexivity|]. left. auto. }
  unfold sbus_get. destruct (sb_current dbus) as [p|] eqn:Ecur.
  2:{ do 3 eexists. split; [reflexivity|]. split; [reflexivity|]. split; [reflexivity|]. right. repeat split. left. auto. }
  specialize (Hpos p eq_refl). rewrite (Z.quot_div_nonneg p 4) by lia.
  destruct (Z.leb_spec (nlen app) (p / 4)) as [Hout|Hin].
  { do 3 eexists. split; [reflexivity|]. split; [reflexivity|]. split; [reflexivity|]. right. repeat split. right. left. eauto. }
  assert (0 <= p / 4) by (apply Z.div_pos; lia).
  destruct (Z.ltb_spec (p / 4) 0); [lia|].
  destruct (nth_error app (Z.to_nat (p / 4))) as [i|] eqn:En.
  - do 3 eexists. split; [reflexivity|]. split; [reflexivity|]. split; [reflexivity|].
    right. repeat split. right. right. exists p, i. auto.
  - exfalso. apply nth_error_None in En. unfold nlen in Hin. lia.
Qed.

(* ------------------------------------------------------------------ *)
(* the instruction at issue                                             *)

Lemma intake_have e ebus e1 ebus1 have : eu_intake e ebus = (e1, ebus1, have) -> have = eu_processing e1.
Proof.
  unfold eu_intake. destruct (eu_processing e) eqn:Ep.
  - intros H. injection H as <- <- <-. symmetry. exact Ep.
  - unfold sbus_get. destruct (sb_current ebus) as [[i pc]|]; intros H; injection H as <- <- <-; [reflexivity | symmetry; exact Ep].
Qed.

Lemma eu_issue_spec e ebus pw e1 ebus2 act :
  sk_eu e ebus pw = (e1, ebus2, act) ->
  match eu_issue e ebus with
  | Some x => act = AExec (fst x) (snd x) \/ (act = ANone /\ q_eu e1 = [x])
  | None => match act with AExec _ _ => False | _ => True end
  end.
Proof.
  unfold sk_eu, eu_issue. destruct (eu_intake e ebus) as [[em eb1] have] eqn:Ei.
  pose proof (intake_have _ _ _ _ _ Ei) as Hh.
  destruct have; cbn [negb].
  2:{ intros H. injection H as <- <- <-. exact I. }
  destruct (negb (eu_remaining em - 1 =? 0)).
  { intros H. injection H as <- <- <-. exact I. }
  destruct (eu_runner em) as [[i pc]|] eqn:Er.
  - destruct (pw_hazard pw (instr_ReadRegisters i)); intros H; injection H as <- <- <-.
    + right. split; [reflexivity|]. unfold q_eu, set_rem. cbn [eu_processing eu_runner]. rewrite <- Hh, Er. reflexivity.
    + left. reflexivity.
  - intros H. injection H as <- <- <-. exact I.
Qed.

Lemma eu_issue_exec e ebus pw e1 ebus2 i pc :
  sk_eu e ebus pw = (e1, ebus2, AExec i pc) -> eu_issue e ebus = Some (i, pc).
Proof.
  intros H. pose proof (eu_issue_spec _ _ _ _ _ _ H) as Hs.
  destruct (eu_issue e ebus) as [[i0 pc0]|]; [|contradiction].
  destruct Hs as [Hs | [Hs _]]; [|discriminate]. cbn [fst snd] in Hs. injection Hs as <- <-. reflexivity.
Qed.

Lemma eu_issue_in e ebus x : eu_issue e ebus = Some x -> In x (q_eu e ++ olist (sb_current ebus)).
Proof.
  unfold eu_issue, eu_intake. destruct (eu_processing e) eqn:Ep.
  - cbn [negb]. destruct (negb (eu_remaining e - 1 =? 0)); [discriminate|]. intros Hr.
    unfold q_eu. rewrite Ep, Hr. left. reflexivity.
  - unfold sbus_get. destruct (sb_current ebus) as [[i pc]|]; cbn [negb eu_remaining eu_runner]; [|discriminate].
    destruct (negb (cyc_of i - 1 =? 0)); [discriminate|]. intros H. injection H as <-.
    unfold q_eu. rewrite Ep. left. reflexivity.
Qed.

Section Front5.
  Variable app : list instr.
  Hypothesis Happ : wf_app app.

  Lemma entry_in_text x : entry_ok app x -> snd x / 4 < nlen app.
  Proof.
    intros [H0 Hn]. assert ((Z.to_nat (snd x / 4) < length app)%nat) by (apply nth_error_Some; congruence).
    pose proof (Z.div_pos (snd x) 4 H0 ltac:(lia)). unfold nlen. lia.
  Qed.

  (* ---------------------------------------------------------------- *)
  (* fetch and decode                                                   *)

  (* the state of the queue between the decode unit and the execute unit *)
  Definition mid_ok (head : Z) (A1 : list (instr * Z)) (du1 : bool) (dbus2 : sbus Z) (f4 : fu_t) : Prop :=
    map snd A1 = consec4 head (length A1) /\
    (exists g n, FQ app g n (q_sb dbus2) f4 /\ 0 <= g < 2147483644 /\
                 (du1 = false -> g = head + 4 * Z.of_nat (length A1))) /\
    du_ok du1 A1 /\ Forall (entry_ok app) A1.

  Lemma decode_flow5 head a fu1 l1i1 dbus1 du1 dbus2 ebus1 :
    F5 app head a ->
    fu5_cycle app (k5_fu a) (k5_l1i a) (k5_dbus a) = Ok (fu1, l1i1, dbus1) ->
    du5_cycle app (k5_du a) dbus1 (k5_ebus a) = Ok (du1, dbus2, ebus1) ->
    IInv l1i1 /\ (f5_processing fu1 = true -> 1 <= f5_remaining fu1 <= MemoryAccess) /\ f5_clean fu1 = false /\
    sb_current ebus1 = sb_current (k5_ebus a) /\
    mid_ok head (q_eu (k5_eu a) ++ q_sb ebus1) du1 dbus2 (to4 fu1).
  Proof.
    intros [Hh HA (g & n & Hq & Hg & Hgd) Hdu Hent Hfu Heu Hpr HI Hpw Hwb Hbtb] Ef Ed.
    apply fu5_cycle_inv in Ef as [Ef Hcl].
    destruct (fq_fu app Happ g n [] _ _ _ _ _ _ Hg Hq HI Hfu Ef) as (HI1 & Hfu1 & [n1 Hq1] & Hcur & _).
    cbn [List.app] in Hq1.
    split; [exact HI1|]. split; [exact Hfu1|]. split; [exact Hcl|].
    assert (Hpos : forall p, sb_current dbus1 = Some p -> 0 <= p).
    { intros p Hp. apply (consec4_nonneg g n1); [lia|]. rewrite <- (q_eq _ _ _ _ _ Hq1).
      unfold q_sb. rewrite Hp. left. reflexivity. }
    unfold aq in *.
    destruct (k5_du a) eqn:Edu.
    - (* the decode unit is stalled *)
      rewrite du5_stalled in Ed. injection Ed as <- <- <-. split; [reflexivity|].
      split; [exact HA|]. split; [|split; assumption].
      exists g, n1. split; [exact Hq1|]. split; [exact Hg | discriminate].
    - specialize (Hgd eq_refl).
      destruct (du5_cycle_spec app dbus1 (k5_ebus a) Hpos) as (du' & d' & e' & E & _ & Hec & Hc).
      rewrite Ed in E. injection E as -> -> ->. split; [exact Hec|].
      pose proof (du_ok_false _ Hdu) as Hnu.
      destruct Hc as [(_ & -> & -> & ->) | (Hadd & -> & [(Ecur & -> & ->) | [(p & Ecur & Hout & -> & ->) | (p & i & Ecur & Hin & En & -> & ->)]])].
      + split; [exact HA|]. split; [|split; assumption]. exists g, n1. auto.
      + split; [exact HA|]. split; [|split; assumption]. exists g, n1.
        split; [|auto]. rewrite q_sb_shift. rewrite q_sb_cur, Ecur in Hq1. exact Hq1.
      + split; [exact HA|]. split; [|split; assumption]. exists g, O.
        split; [|auto]. rewrite q_sb_shift. rewrite q_sb_cur, Ecur in Hq1. cbn [olist List.app] in Hq1.
        destruct (fq_drop app g n1 [] p _ _ ltac:(lia) Hq1 Hout) as (-> & _ & Hq'). exact Hq'.
      + rewrite q_sb_cur, Ecur in Hq1. cbn [olist List.app] in Hq1.
        destruct (fq_head _ _ _ _ _ _ Hq1) as (-> & m & ->).
        rewrite (q_sb_add _ _ Hadd), app_assoc.
        pose proof nlen_small app Happ as Hsmall.
        split; [|split; [|split]].
        * rewrite map_app, app_length, HA. cbn [map snd length]. rewrite Nat.add_1_r, consec4_snoc, <- Hgd. reflexivity.
        * exists (g + 4), m. split; [rewrite q_sb_shift; apply fq_shift; exact Hq1|].
          split; [lia|]. intros _. rewrite app_length. cbn [length]. lia.
        * apply (du_ok_snoc _ (i, g)). exact Hnu.
        * apply Forall_app. split; [exact Hent|]. constructor; [|constructor]. split; cbn [fst snd]; [lia | exact En].
  Qed.

  Lemma front_flow5 head a fu1 l1i1 dbus1 du1 dbus2 ebus1 e1 ebus2 act :
    F5 app head a ->
    fu5_cycle app (k5_fu a) (k5_l1i a) (k5_dbus a) = Ok (fu1, l1i1, dbus1) ->
    du5_cycle app (k5_du a) dbus1 (k5_ebus a) = Ok (du1, dbus2, ebus1) ->
    sk_eu (k5_eu a) ebus1 (k5_pw a) = (e1, ebus2, act) ->
    IInv l1i1 /\ (f5_processing fu1 = true -> 1 <= f5_remaining fu1 <= MemoryAccess) /\ f5_clean fu1 = false /\
    act <> AStuck /\
    mid_ok head (act_q act ++ q_eu e1 ++ q_sb ebus2) du1 dbus2 (to4 fu1) /\
    eu_pending_read e1 = false /\
    (eu_processing e1 = true -> 1 <= eu_remaining e1 <= Cmax /\ eu_runner e1 <> None) /\
    (match act with AExec _ _ => eu_processing e1 = false | _ => True end) /\
    (k5_du a = false -> sk5_assert fu1 (k5_btb a) (eu_issue (k5_eu a) ebus1) = fu1).
  Proof.
    intros HF Ef Ed Ee.
    destruct (decode_flow5 head a _ _ _ _ _ _ HF Ef Ed) as (HI1 & Hfu1 & Hcl & Hec & Hmid).
    destruct HF as [Hh HA _ Hdu Hent Hfu Heu Hpr HI Hpw Hwb Hbtb].
    pose proof Hmid as (_ & _ & _ & Hent1).
    destruct (sk_eu_flow app _ _ _ _ _ _ Hpr Hent1 Heu Ee) as (Hns & Hfl & Hpr1 & Heu1 & Hex).
    rewrite Hfl. repeat (split; [assumption|]).
    intros Edu. destruct (eu_issue (k5_eu a) ebus1) as [[i pc]|] eqn:Ei; [|reflexivity]. cbn [sk5_assert].
    apply eu_issue_in in Ei. rewrite Hec in Ei.
    assert (Hin : In (i, pc) (aq a)).
    { unfold aq. rewrite q_sb_cur, app_assoc. apply in_or_app. left. exact Ei. }
    rewrite Edu in Hdu. apply du_ok_false in Hdu. rewrite Forall_forall in Hdu. specialize (Hdu _ Hin).
    unfold nonunc in Hdu. cbn [fst] in Hdu. rewrite Hdu. reflexivity.
  Qed.

  (* ---------------------------------------------------------------- *)
  (* a cycle in which nothing is executed                               *)

  Definition after_none5 (a : sk5) fuA du1 l1i1 dbus2 ebus2 e1 : sk5 :=
    mk_sk5 fuA du1 l1i1 dbus2 ebus2 e1 (wdel (k5_pw a) (k5_wb a)) None (k5_btb a).

  Lemma fq_clean_false g n f d : f5_clean f = false -> FQ app g n (q_sb d) (to4 f) -> FQ app g n (q_sb (dclean f d)) (to4 f).
  Proof. intros H. unfold dclean. rewrite H. auto. Qed.

  Lemma f5_none head a fu1 l1i1 dbus1 du1 dbus2 ebus1 e1 ebus2 :
    F5 app head a ->
    fu5_cycle app (k5_fu a) (k5_l1i a) (k5_dbus a) = Ok (fu1, l1i1, dbus1) ->
    du5_cycle app (k5_du a) dbus1 (k5_ebus a) = Ok (du1, dbus2, ebus1) ->
    sk_eu (k5_eu a) ebus1 (k5_pw a) = (e1, ebus2, ANone) ->
    F5 app head (after_none5 a (sk5_assert fu1 (k5_btb a) (eu_issue (k5_eu a) ebus1)) du1 l1i1 dbus2 ebus2 e1).
  Proof.
    intros HF Ef Ed Ee.
    destruct (front_flow5 head a _ _ _ _ _ _ _ _ _ HF Ef Ed Ee) as (HI1 & Hfu1 & Hcl & Hns & Hmid & Hpr' & Heu' & _ & _).
    cbn [act_q List.app] in Hmid. destruct Hmid as (HA' & (g & n & Hq & Hg & Hgd) & Hdu' & Hent').
    pose proof (eu_issue_spec _ _ _ _ _ _ Ee) as Hiss.
    destruct HF as [Hh _ _ _ _ _ _ _ _ Hpw Hwb Hbtb].
    assert (Hcase : sk5_assert fu1 (k5_btb a) (eu_issue (k5_eu a) ebus1) = fu1 \/
                    exists t, sk5_assert fu1 (k5_btb a) (eu_issue (k5_eu a) ebus1) = fu5_reset fu1 t /\
                              0 <= t < 2147483644 /\ du1 = true).
    { destruct (eu_issue (k5_eu a) ebus1) as [[i pc]|]; [|left; reflexivity]. cbn [sk5_assert].
      destruct (uncond i) eqn:Eu; [|left; reflexivity].
      destruct (btb_get (k5_btb a) pc) as [t|] eqn:Eb; [|left; reflexivity].
      right. exists t. split; [reflexivity|]. split; [eapply btb_get_ok; eassumption|].
      destruct Hiss as [Hiss | [_ Hiss]]; [discriminate|]. rewrite Hiss in Hdu'. cbn [List.app] in Hdu'.
      apply (du_ok_head_unc _ _ _ Hdu'). exact Eu. }
    destruct Hcase as [-> | (t & -> & Ht & ->)].
    - constructor; cbn [after_none5 k5_fu k5_du k5_l1i k5_dbus k5_ebus k5_eu k5_pw k5_wb k5_btb]; unfold aq;
        cbn [k5_eu k5_ebus]; auto.
      + exists g, n. split; [apply fq_clean_false; assumption | auto].
      + rewrite Hpw. apply wdel_pwof. exact Hwb.
      + discriminate.
    - constructor; cbn [after_none5 k5_fu k5_du k5_l1i k5_dbus k5_ebus k5_eu k5_pw k5_wb k5_btb]; unfold aq;
        cbn [k5_eu k5_ebus]; auto.
      + exists t, O. split; [apply fq_reset|]. split; [exact Ht | discriminate].
      + rewrite Hpw. apply wdel_pwof. exact Hwb.
      + discriminate.
  Qed.

  (* ---------------------------------------------------------------- *)
  (* the invariant is kept                                              *)

  Lemma fq_fresh t f : f5_complete f = false -> f5_pc f = t -> FQ app t 0 (q_sb (dclean f sbus_empty)) (to4 f).
  Proof.
    intros Hc Hp. assert (Hd : dclean f sbus_empty = @sbus_empty Z) by (unfold dclean; destruct (f5_clean f); reflexivity).
    rewrite Hd. constructor; cbn [to4 fu_pc fu_complete]; try (rewrite Hc; discriminate); try reflexivity; try lia.
  Qed.

  Theorem f5_step head rest a a' path' dc :
    F5 app head a -> path_wf app (head :: rest) ->
    sk5_cycle app a (head :: rest) = K5Step a' path' dc ->
    exists head' rest', path' = head' :: rest' /\ F5 app head' a' /\ path_wf app path' /\
      (path' = head :: rest \/ path' = rest).
  Proof.
    intros HF Hwf H. unfold sk5_cycle in H.
    destruct (fu5_cycle app (k5_fu a) (k5_l1i a) (k5_dbus a)) as [[[fu1 l1i1] dbus1]| |] eqn:Ef; try discriminate.
    destruct (du5_cycle app (k5_du a) dbus1 (k5_ebus a)) as [[[du1 dbus2] ebus1]| |] eqn:Ed; try discriminate.
    destruct (sk_eu (k5_eu a) ebus1 (k5_pw a)) as [[e1 ebus2] act] eqn:Ee.
    destruct act as [|i pc|]; [| |discriminate].
    - (* nothing executed *)
      pose proof (f5_none head a _ _ _ _ _ _ _ _ HF Ef Ed Ee) as HF'. unfold after_none5 in HF'.
      destruct (sk5_complete _); [discriminate|]. injection H as <- <- <-.
      exists head, rest. auto.
    - (* (i, pc) executed *)
      destruct (front_flow5 head a _ _ _ _ _ _ _ _ _ HF Ef Ed Ee) as (HI1 & Hfu1 & Hcl & Hns & Hmid & Hpr' & Heu' & Hex & _).
      rewrite (eu_issue_exec _ _ _ _ _ _ _ Ee) in H. cbn [sk5_assert] in H.
      destruct HF as [Hh _ _ _ _ _ _ _ _ Hpw Hwb Hbtb].
      cbn [act_q List.app] in Hmid. destruct Hmid as (HA' & (g & n & Hq & Hg & Hgd) & Hdu' & Hent').
      cbn [map snd length] in HA'. rewrite consec4_S in HA'. apply cons_inj in HA' as [-> HA'].
      rewrite Z.eqb_refl in H. cbn [negb] in H.
      destruct (is_ret i); [destruct rest; discriminate|].
      destruct rest as [|next rest']; [discriminate|].
      destruct (path_wf_tail _ _ _ _ Hwf) as [Hwf' Hnext].
      assert (Hq_eu : q_eu e1 = []) by (unfold q_eu; rewrite Hex; reflexivity).
      destruct (sk5_flush (k5_btb a) i head next) eqn:Efl; injection H as <- <- <-.
      + (* flush *)
        exists next, rest'. split; [reflexivity|]. split; [|auto].
        constructor; cbn [k5_fu k5_du k5_l1i k5_dbus k5_ebus k5_eu k5_pw k5_wb k5_btb f5_processing]; unfold aq;
          cbn [k5_eu k5_ebus eu_flushed q_eu eu_processing eu_pending_read q_sb sbus_empty sb_current sb_pending olist List.app map length];
          auto; try discriminate; try constructor.
        * exists next, O. split; [apply fq_fresh; reflexivity|]. split; [exact Hnext | intros _; lia].
        * constructor.
        * destruct (uncond i); [apply btb_add_ok; assumption | exact Hbtb].
      + (* no flush *)
        unfold sk5_flush in Efl.
        destruct (uncond i) eqn:Eu.
        * (* an unconditional jump found in the BTB: the fetch unit is redirected, nothing is flushed *)
          destruct (du_ok_head_unc _ _ _ Hdu' Eu) as [HA0 _].
          rewrite Hq_eu in HA0. cbn [List.app] in HA0.
          destruct (btb_get (k5_btb a) head) as [t|]; [|discriminate].
          exists next, rest'. split; [reflexivity|]. split; [|auto].
          constructor; cbn [k5_fu k5_du k5_l1i k5_dbus k5_ebus k5_eu k5_pw k5_wb k5_btb]; unfold aq;
            cbn [k5_eu k5_ebus fu5_reset f5_processing f5_remaining]; rewrite ?Hq_eu, ?HA0; cbn [List.app map length]; auto.
          -- exists next, O. split; [apply fq_reset|]. split; [exact Hnext | intros _; lia].
          -- constructor. constructor.
          -- rewrite Hpw. apply wdel_add_pwof; [exact Hwb | apply write_regs_length].
          -- intros wr Hwr. injection Hwr as <-. apply write_regs_length.
          -- apply btb_add_ok; assumption.
        * apply negb_false_iff, Z.eqb_eq in Efl.
          assert (Hadd : addS 32 head 4 = head + 4).
          { unfold addS. apply wrapS_id; [lia|]. apply int32_bounds. lia. }
          rewrite Hadd in Efl. subst next.
          exists (head + 4), rest'. split; [reflexivity|]. split; [|auto].
          constructor; cbn [k5_fu k5_du k5_l1i k5_dbus k5_ebus k5_eu k5_pw k5_wb k5_btb]; unfold aq;
            cbn [k5_eu k5_ebus]; auto.
          -- exists g, n. split; [apply fq_clean_false; assumption|]. split; [exact Hg|].
             intros Hd. rewrite (Hgd Hd). cbn [length]. lia.
          -- apply (du_ok_tail _ _ _ Hdu'). exact Eu.
          -- inversion Hent'; assumption.
          -- rewrite Hpw. apply wdel_add_pwof; [exact Hwb | apply write_regs_length].
          -- intros wr Hwr. injection Hwr as <-. apply write_regs_length.
  Qed.
End Front5.

(* ------------------------------------------------------------------ *)
(* progress                                                             *)

(* the MVP-4 skeleton an MVP-5 skeleton looks like to its fetch unit *)
Definition proj (a : sk5) : sk :=
  mk_sk (to4 (k5_fu a)) (k5_l1i a) (dclean (k5_fu a) (k5_dbus a)) (k5_ebus a) (k5_eu a) (k5_pw a) (k5_wb a).

Definition phi5 (a : sk5) : Z := phi (proj a).

Section Progress5.
  Variable app : list instr.
  Hypothesis Happ : wf_app app.

  Lemma consec4_nth head k j : (j < k)%nat -> In (head + 4 * Z.of_nat j) (consec4 head k).
  Proof. intros H. unfold consec4. apply in_map_iff. exists j. split; [reflexivity|]. apply in_seq. lia. Qed.

  (* the j-th entry of the decoded part lies in the text *)
  Lemma aq_in_text head (A : list (instr * Z)) j :
    map snd A = consec4 head (length A) -> Forall (entry_ok app) A -> (j < length A)%nat ->
    (head + 4 * Z.of_nat j) / 4 < nlen app.
  Proof.
    intros HA Hent Hj. pose proof (consec4_nth head (length A) j Hj) as Hin. rewrite <- HA in Hin.
    apply in_map_iff in Hin as (x & Hx & Hin). rewrite Forall_forall in Hent. specialize (Hent x Hin).
    rewrite <- Hx. apply entry_in_text. exact Hent.
  Qed.

  (* when the decode unit is not stalled, the MVP-5 skeleton satisfies the MVP-4 invariant *)
  Lemma proj_finv head a : F5 app head a -> k5_du a = false -> FInv app head (proj a).
  Proof.
    intros [Hh HA (g & n & Hq & Hg & Hgd) Hdu Hent Hfu Heu Hpr HI Hpw Hwb Hbtb] Edu.
    specialize (Hgd Edu). unfold aq in *.
    constructor; cbn [proj k_fu k_l1i k_dbus k_ebus k_eu k_pw k_wb]; auto.
    exists (length (q_eu (k5_eu a) ++ q_sb (k5_ebus a)) + n)%nat.
    set (A := q_eu (k5_eu a) ++ q_sb (k5_ebus a)) in *. set (k := length A) in *.
    destruct Hq as [Hq Hpc Hend Hin2 Hin1].
    constructor.
    - unfold qlist, proj. cbn [k_eu k_ebus k_dbus]. rewrite q_parts_alt. fold A. rewrite HA, Hq, consec4_app, <- Hgd. reflexivity.
    - intros Hc. rewrite (Hpc Hc). lia.
    - intros Hc. specialize (Hend Hc). replace (head + 4 * Z.of_nat (k + n)) with (g + 4 * Z.of_nat n) by lia. exact Hend.
    - intros H2. destruct (Nat.le_gt_cases 2 n) as [Hn|Hn].
      + specialize (Hin2 Hn). replace (head + 4 * (Z.of_nat (k + n) - 2)) with (g + 4 * (Z.of_nat n - 2)) by lia. exact Hin2.
      + replace (head + 4 * (Z.of_nat (k + n) - 2)) with (head + 4 * Z.of_nat (k + n - 2)) by lia.
        apply (aq_in_text head A); auto. fold k. lia.
    - intros H1 Hc. destruct (Nat.le_gt_cases 1 n) as [Hn|Hn].
      + specialize (Hin1 Hn Hc). replace (head + 4 * (Z.of_nat (k + n) - 1)) with (g + 4 * (Z.of_nat n - 1)) by lia. exact Hin1.
      + replace (head + 4 * (Z.of_nat (k + n) - 1)) with (head + 4 * Z.of_nat (k + n - 1)) by lia.
        apply (aq_in_text head A); auto. fold k. lia.
  Qed.

  Lemma phi5_bounds head a : F5 app head a -> 0 <= phi5 a <= phi_max.
  Proof.
    intros HF. pose proof (fuphi_bounds (to4 (k5_fu a)) (g_fu _ _ _ HF)) as Hf. pose proof (g_eu _ _ _ HF) as He.
    unfold phi5, phi, proj, phi_max. cbn [k_fu k_l1i k_dbus k_ebus k_eu k_pw k_wb]. destruct (eu_processing (k5_eu a)).
    - destruct (He eq_refl) as [Hr _]. unfold Cmax, MemoryAccess in *. destruct (k5_wb a); lia.
    - unfold Cmax, MemoryAccess in *.
      destruct (sb_current (k5_ebus a)), (sb_pending (k5_ebus a)), (sb_current (dclean (k5_fu a) (k5_dbus a))),
        (sb_pending (dclean (k5_fu a) (k5_dbus a))); lia.
  Qed.

  Lemma aq_nil a : eu_processing (k5_eu a) = false -> sbus_is_empty (k5_ebus a) = true -> aq a = [].
  Proof.
    intros Hp He. unfold aq, q_eu, q_sb. rewrite Hp. unfold sbus_is_empty in He.
    destruct (sb_pending (k5_ebus a)), (sb_current (k5_ebus a)); try discriminate. reflexivity.
  Qed.

  Lemma complete_out5 head a : F5 app head a -> sk5_complete a = true -> nlen app <= head / 4.
  Proof.
    intros HF Hc. unfold sk5_complete in Hc. repeat (apply andb_prop in Hc as [Hc ?]).
    apply negb_true_iff in H2. pose proof (aq_nil a H2 H0) as HA.
    destruct HF as [Hh _ (g & n & Hq & Hg & Hgd) Hdu _ _ _ _ _ _ _ _].
    rewrite HA in Hdu, Hgd. assert (Edu : k5_du a = false).
    { destruct (k5_du a); [|reflexivity]. apply du_ok_true in Hdu. congruence. }
    specialize (Hgd Edu). cbn [length] in Hgd.
    assert (Hd : dclean (k5_fu a) (k5_dbus a) = sbus_empty).
    { unfold dclean. destruct (f5_clean (k5_fu a)); [reflexivity|]. unfold sbus_is_empty in H1.
      destruct (k5_dbus a) as [[?|] [?|]]; try discriminate. reflexivity. }
    rewrite Hd in Hq. destruct Hq as [Hq _ Hend _ _]. destruct n; [|discriminate].
    specialize (Hend Hc). replace (g + 4 * Z.of_nat 0) with head in Hend by lia. exact Hend.
  Qed.

  Lemma complete_exit5 head rest a : F5 app head a -> sk5_complete a = true -> path_wf app (head :: rest) -> rest = [].
  Proof.
    intros HF Hc Hwf. destruct rest as [|next r]; [reflexivity|]. exfalso.
    pose proof (complete_out5 head a HF Hc) as Hout. destruct HF as [Hh _ _ _ _ _ _ _ _ _ _ _].
    cbn [path_wf] in Hwf. destruct Hwf as (_ & (i & Hi & _) & _).
    assert ((Z.to_nat (head / 4) < length app)%nat) by (apply nth_error_Some; congruence).
    unfold nlen in Hout. lia.
  Qed.

  Lemma sk5_cycle_none head rest a fu1 l1i1 dbus1 du1 dbus2 ebus1 e1 ebus2 :
    fu5_cycle app (k5_fu a) (k5_l1i a) (k5_dbus a) = Ok (fu1, l1i1, dbus1) ->
    du5_cycle app (k5_du a) dbus1 (k5_ebus a) = Ok (du1, dbus2, ebus1) ->
    sk_eu (k5_eu a) ebus1 (k5_pw a) = (e1, ebus2, ANone) ->
    sk5_cycle app a (head :: rest) =
      let a2 := after_none5 a (sk5_assert fu1 (k5_btb a) (eu_issue (k5_eu a) ebus1)) du1 l1i1 dbus2 ebus2 e1 in
      if sk5_complete a2 then K5Done 1 else K5Step a2 (head :: rest) 1.
  Proof. intros Ef Ed Ee. unfold sk5_cycle. rewrite Ef, Ed, Ee. reflexivity. Qed.

  Lemma sk5_cycle_exec head rest a fu1 l1i1 dbus1 du1 dbus2 ebus1 e1 ebus2 i pc :
    F5 app head a -> path_wf app (head :: rest) ->
    fu5_cycle app (k5_fu a) (k5_l1i a) (k5_dbus a) = Ok (fu1, l1i1, dbus1) ->
    du5_cycle app (k5_du a) dbus1 (k5_ebus a) = Ok (du1, dbus2, ebus1) ->
    sk_eu (k5_eu a) ebus1 (k5_pw a) = (e1, ebus2, AExec i pc) ->
    match sk5_cycle app a (head :: rest) with
    | K5Stuck => False
    | K5Done _ => rest = []
    | K5Step _ path' _ => path' = rest
    end.
  Proof.
    intros HF Hwf Ef Ed Ee.
    destruct (front_flow5 app Happ head a _ _ _ _ _ _ _ _ _ HF Ef Ed Ee) as (_ & _ & _ & _ & Hmid & _).
    cbn [act_q List.app] in Hmid. destruct Hmid as (HA' & _ & _ & Hent').
    cbn [map snd length] in HA'. rewrite consec4_S in HA'. apply cons_inj in HA' as [-> _].
    inversion Hent' as [|x l [_ Hi] _]; subst. cbn [fst snd] in Hi.
    unfold sk5_cycle. rewrite Ef, Ed, Ee. rewrite Z.eqb_refl. cbn [negb].
    cbn [path_wf] in Hwf. destruct Hwf as (_ & Hwf). rewrite Hi in Hwf.
    destruct rest as [|next r].
    - rewrite Hwf. reflexivity.
    - destruct Hwf as ((i' & Hi' & Hr) & _). injection Hi' as <-. rewrite Hr.
      destruct (sk5_flush (k5_btb a) i head next); reflexivity.
  Qed.

  (* stalled decode unit: the decoded part is not empty and only it moves *)
  Lemma none_phi5_stalled head a fuA l1i1 dbus2 e1 ebus2 :
    F5 app head a -> k5_du a = true ->
    sk_eu (k5_eu a) (k5_ebus a) (k5_pw a) = (e1, ebus2, ANone) ->
    phi5 (after_none5 a fuA true l1i1 dbus2 ebus2 e1) < phi5 a.
  Proof.
    intros HF Edu Ee.
    destruct a as [f du l1i dbus ebus e pw wb btb]. cbn [k5_fu k5_du k5_l1i k5_dbus k5_ebus k5_eu k5_pw k5_wb k5_btb] in *.
    destruct HF as [Hh _ _ Hdu _ _ Heu _ _ Hpw _ _].
    unfold aq in Hdu. cbn [k5_fu k5_du k5_l1i k5_dbus k5_ebus k5_eu k5_pw k5_wb k5_btb] in *. subst du.
    apply du_ok_true in Hdu.
    unfold phi5, phi, proj, after_none5. cbn [k5_fu k5_du k5_l1i k5_dbus k5_ebus k5_eu k5_pw k5_wb k5_btb k_fu k_l1i k_dbus k_ebus k_eu k_pw k_wb].
    destruct (eu_processing e) eqn:Ep.
    - unfold sk_eu, eu_intake in Ee. rewrite Ep in Ee. cbn [negb] in Ee. destruct (Heu eq_refl) as [Hr Hrun].
      destruct (Z.eqb_spec (eu_remaining e - 1) 0); cbn [negb] in Ee.
      + destruct (eu_runner e) as [[i pc]|]; [|congruence].
        destruct (pw_hazard pw (instr_ReadRegisters i)) eqn:Ehz; [|discriminate]. injection Ee as <- <-.
        cbn [set_rem eu_processing eu_remaining]. rewrite Ep. subst pw. apply pwof_hazard in Ehz.
        destruct wb; [lia | congruence].
      + injection Ee as <- <-. cbn [set_rem eu_processing eu_remaining]. rewrite Ep. destruct wb; lia.
    - destruct ebus as [ep ec]. cbn [sb_current sb_pending] in *.
      destruct ec as [[i pc]|].
      + unfold sk_eu, eu_intake, sbus_get in Ee. rewrite Ep in Ee. cbn [sb_current sb_pending negb eu_remaining eu_runner] in Ee.
        pose proof (cyc_of_bounds i) as Hc.
        destruct (Z.eqb_spec (cyc_of i - 1) 0); cbn [negb] in Ee.
        * destruct (pw_hazard pw (instr_ReadRegisters i)); [|discriminate]. injection Ee as <- <-.
          cbn [set_rem eu_processing eu_remaining]. unfold Cmax. lia.
        * injection Ee as <- <-. cbn [set_rem eu_processing eu_remaining]. lia.
      + rewrite (sk_eu_idle_none e (mk_sbus ep None) pw Ep eq_refl) in Ee. injection Ee as <- <-. rewrite Ep.
        cbn [sb_current sb_pending].
        destruct ep as [x|]; [lia|]. exfalso. apply Hdu. unfold q_eu, q_sb. rewrite Ep. reflexivity.
  Qed.

  Theorem sk5_progress head rest a :
    F5 app head a -> path_wf app (head :: rest) ->
    match sk5_cycle app a (head :: rest) with
    | K5Stuck => False
    | K5Done _ => rest = []
    | K5Step a' path' _ => path' = rest \/ (path' = head :: rest /\ phi5 a' < phi5 a)
    end.
  Proof.
    intros HF Hwf.
    pose proof HF as [Hh HA (g & n & Hq & Hg & Hgd) Hdu Hent Hfu Heu Hpr HI Hpw Hwb Hbtb].
    (* the fetch unit does not fail *)
    assert (Hfok : exists fu1 l1i1 dbus1, fu5_cycle app (k5_fu a) (k5_l1i a) (k5_dbus a) = Ok (fu1, l1i1, dbus1)).
    { rewrite fu5_cycle_to4.
      destruct (fu_cycle_spec app (to4 (k5_fu a)) (k5_l1i a) (dclean (k5_fu a) (k5_dbus a)) HI) as (f' & c' & d' & E & _).
      - intros Hc. rewrite (q_pc _ _ _ _ _ Hq Hc). pose proof (nlen_small app Happ). destruct n as [|n]; [lia|].
        pose proof (q_in1 _ _ _ _ _ Hq ltac:(lia) Hc). lia.
      - exact Hfu.
      - rewrite E. eauto. }
    destruct Hfok as (fu1 & l1i1 & dbus1 & Ef).
    assert (Hdok : exists du1 dbus2 ebus1, du5_cycle app (k5_du a) dbus1 (k5_ebus a) = Ok (du1, dbus2, ebus1)).
    { destruct (k5_du a); [rewrite du5_stalled; eauto|].
      pose proof (fu5_cycle_inv _ _ _ _ _ _ _ Ef) as [Ef4 _].
      destruct (fq_fu app Happ g n [] _ _ _ _ _ _ Hg Hq HI Hfu Ef4) as (_ & _ & [n1 Hq1] & _). cbn [List.app] in Hq1.
      destruct (du5_cycle_spec app dbus1 (k5_ebus a)) as (du' & d' & e' & E & _); [|eauto].
      intros p Hp. apply (consec4_nonneg g n1); [lia|]. rewrite <- (q_eq _ _ _ _ _ Hq1).
      unfold q_sb. rewrite Hp. left. reflexivity. }
    destruct Hdok as (du1 & dbus2 & ebus1 & Ed).
    destruct (sk_eu (k5_eu a) ebus1 (k5_pw a)) as [[e1 ebus2] act] eqn:Ee.
    destruct act as [|i pc|].
    - rewrite (sk5_cycle_none head rest a _ _ _ _ _ _ _ _ Ef Ed Ee). cbv zeta.
      pose proof (f5_none app Happ head a _ _ _ _ _ _ _ _ HF Ef Ed Ee) as HF2.
      destruct (sk5_complete _) eqn:Ec.
      + eapply complete_exit5; [exact HF2 | exact Ec | exact Hwf].
      + right. split; [reflexivity|].
        destruct (k5_du a) eqn:Edu.
        * rewrite du5_stalled in Ed. injection Ed as <- <- <-. eapply none_phi5_stalled; eassumption.
        * assert (Ed' : du5_cycle app (k5_du a) dbus1 (k5_ebus a) = Ok (du1, dbus2, ebus1)) by (rewrite Edu; exact Ed).
          destruct (front_flow5 app Happ head a _ _ _ _ _ _ _ _ _ HF Ef Ed' Ee) as (_ & _ & Hcl & _ & _ & _ & _ & _ & Hnr).
          rewrite (Hnr Edu) in *.
          pose proof (fu5_cycle_inv _ _ _ _ _ _ _ Ef) as [Ef4 _].
          destruct (du5_false _ _ _ _ _ _ Ed) as [Ed4 _].
          pose proof (none_phi app Happ head (proj a) (to4 fu1) l1i1 dbus1 dbus2 ebus1 e1 ebus2 (proj_finv head a HF Edu) Ef4 Ed4 Ee) as Hphi.
          unfold phi5. unfold proj at 1, after_none5. cbn [k5_fu k5_du k5_l1i k5_dbus k5_ebus k5_eu k5_pw k5_wb k5_btb].
          unfold dclean at 1. rewrite Hcl. apply Hphi.
          unfold sk5_complete, after_none5 in Ec. cbn [k5_fu k5_du k5_l1i k5_dbus k5_ebus k5_eu k5_pw k5_wb k5_btb] in Ec.
          exact Ec.
    - pose proof (sk5_cycle_exec head rest a _ _ _ _ _ _ _ _ _ _ HF Hwf Ef Ed Ee) as H.
      destruct (sk5_cycle app a (head :: rest)); auto.
    - destruct (front_flow5 app Happ head a _ _ _ _ _ _ _ _ _ HF Ef Ed Ee) as (_ & _ & _ & Hns & _). congruence.
  Qed.

  Lemma sk5_cycle_dc a path :
    match sk5_cycle app a path with
    | K5Done dc => dc = 1
    | K5Step _ _ dc => dc = 1 \/ dc = 2
    | K5Stuck => True
    end.
  Proof.
    unfold sk5_cycle.
    destruct (fu5_cycle app (k5_fu a) (k5_l1i a) (k5_dbus a)) as [[[fu1 l1i1] dbus1]| |]; try exact I.
    destruct (du5_cycle app (k5_du a) dbus1 (k5_ebus a)) as [[[du1 dbus2] ebus1]| |]; try exact I.
    destruct (sk_eu (k5_eu a) ebus1 (k5_pw a)) as [[e1 ebus2] act].
    destruct act as [|i pc|]; try exact I.
    - destruct (sk5_complete _); auto.
    - destruct path as [|p rest]; try exact I. destruct (negb (p =? pc)); try exact I.
      destruct (is_ret i); [destruct rest; auto|]. destruct rest as [|next r]; try exact I.
      destruct (sk5_flush (k5_btb a) i pc next); auto.
  Qed.

  (* the skeleton run terminates: at most phi_max + 1 iterations between two
     executed instructions; every iteration counts one or two cycles *)
  Lemma sk5_run_term : forall (m : nat) rest a head cyc fuel,
    F5 app head a -> path_wf app (head :: rest) ->
    (Z.to_nat (phi5 a) + length rest * Kstep <= m)%nat -> (m < fuel)%nat ->
    exists c, sk5_run fuel app a (head :: rest) cyc = Some c /\
              cyc + Z.of_nat (length (head :: rest)) <= c <= cyc + 2 * (Z.of_nat m + 1).
  Proof.
    induction m as [m IH] using lt_wf_ind. intros rest a head cyc fuel HF Hwf Hm Hfuel.
    destruct fuel as [|f]; [lia|]. cbn [sk5_run].
    pose proof (sk5_progress head rest a HF Hwf) as Hp.
    pose proof (sk5_cycle_dc a (head :: rest)) as Hdc.
    pose proof (phi5_bounds head a HF) as Hphi.
    destruct (sk5_cycle app a (head :: rest)) as [a' path' dc|dc|] eqn:Ec; [| |contradiction].
    - destruct (f5_step app Happ head rest a a' path' dc HF Hwf Ec) as (head' & rest' & -> & HF' & Hwf' & _).
      pose proof (phi5_bounds head' a' HF') as Hphi'.
      destruct Hp as [Hp | [Hp Hlt]].
      + (* an instruction was executed *)
        subst rest. cbn [length] in Hm.
        assert (Hk : (S (length rest') * Kstep = Kstep + length rest' * Kstep)%nat) by reflexivity.
        assert (Hm1 : (1 <= m)%nat) by (unfold Kstep in *; lia).
        assert (Hm' : (Z.to_nat (phi5 a') + length rest' * Kstep <= m - 1)%nat) by (unfold Kstep in *; lia).
        destruct (IH (m - 1)%nat ltac:(lia) rest' a' head' (cyc + dc) f HF' Hwf' Hm' ltac:(lia)) as (c & Hc & Hb).
        exists c. split; [exact Hc|]. cbn [length] in *. lia.
      + injection Hp as -> ->.
        assert (Hm' : (Z.to_nat (phi5 a') + length rest * Kstep <= m - 1)%nat) by lia.
        destruct (IH (m - 1)%nat ltac:(lia) rest a' head (cyc + dc) f HF' Hwf' Hm' ltac:(lia)) as (c & Hc & Hb).
        exists c. split; [exact Hc|]. cbn [length] in *. lia.
    - subst rest dc. exists (cyc + 1). split; [reflexivity|]. cbn [length]. lia.
  Qed.
End Progress5.
