(* Refinement of MVP-6.1 to the sequential machine on register-only programs with FORWARD
   control flow - part 6b: an idle execute unit takes ANY instruction x of the segment from
   the head of the execute bus - conditional branches and jumps included - and runs it at
   once (eu_exec2); the response is bresp x: nothing, ret, or a flush request with the
   sequence id of x and the target.  exec_fin: the end of run() for an instruction without
   Forwarder (jump resolved, pendingConditionalBranch cleared, shouldFlush). *)
From Coq Require Import ZArith List Bool Lia Permutation.
From Maj Require Import Base.Outcome Base.GoInt Base.GoTypes Isa.Spec Isa.Embed Isa.Seq Isa.Refine.
From Maj Require Import Gen.Latency Gen.RiscTables Gen.Opcodes Comp.Cache.
From Maj Require Import Mvp.Mvp12 Mvp.Mvp12Proofs Mvp.Mvp3 Mvp.Mvp3Proofs Mvp.Mvp4Skel Mvp.Mvp4Inv Mvp.Mvp5 Mvp.Mvp60 Mvp.Mvp61
     Mvp.Mvp60RefSem Mvp.Mvp60RefDefs Mvp.Mvp60RefFront Mvp.Mvp60RefBack Mvp.Mvp60RefStep
     Mvp.Mvp61RefSem Mvp.Mvp61RefFront Mvp.Mvp61RefBack Mvp.Mvp61RefInv Mvp.Mvp61RefExec.
Import ListNotations.
Open Scope Z_scope.

(* the end of run() when the runner has no Forwarder *)
Definition exec_fin (m2 : mach1) (ty pc : Z) (exe : execution) (sidv : Z) : mach1 * resp1 :=
  let m3 := if InstructionType_IsUnconditionalBranch ty then bu_resolved1 m2 pc (NextPc exe) else m2 in
  let m4 := if InstructionType_IsConditionalBranch ty then set_x m3 (xs_pcb (y_x m3) false) else m3 in
  if PcChange exe then
    let '(b', fl) := bu_should_flush6 (m_bu (y_m m4)) (NextPc exe) in
    (set_m m4 (set_bu (y_m m4) b'), if fl then mk_resp1 true sidv (NextPc exe) false None else resp0)
  else (m4, resp0).

(* what an execute unit leaves alone, whatever it executes *)
Record EuFrameW (m m1 : mach1) : Prop := mkEFW {
  w1_regs : m_regs (y_m m1) = m_regs (y_m m); w1_mem : m_mem (y_m m1) = m_mem (y_m m);
  w1_pw : m_pw (y_m m1) = m_pw (y_m m); w1_pr : m_pr (y_m m1) = m_pr (y_m m);
  w1_l1i : m_l1i (y_m m1) = m_l1i (y_m m); w1_l3 : m_l3 (y_m m1) = m_l3 (y_m m); w1_pend : m_pend (y_m m1) = m_pend (y_m m);
  w1_dret : m_dret (y_m m1) = m_dret (y_m m); w1_cu : m_cu (y_m m1) = m_cu (y_m m);
  w1_dbus : m_dbus (y_m m1) = m_dbus (y_m m); w1_cbus : m_cbus (y_m m1) = m_cbus (y_m m); w1_ebus : m_ebus (y_m m1) = m_ebus (y_m m);
  w1_wq : bb_q (m_wbus (y_m m1)) = bb_q (m_wbus (y_m m)); w1_wql : bb_ql (m_wbus (y_m m1)) = bb_ql (m_wbus (y_m m));
  w1_wbl : bb_bl (m_wbus (y_m m1)) = bb_bl (m_wbus (y_m m));
  w1_fwd : x_fwd (y_x m1) = x_fwd (y_x m); w1_xcu : x_cu (y_x m1) = x_cu (y_x m);
  w1_prev : x_prev (y_x m1) = x_prev (y_x m); w1_xcbus : x_cbus (y_x m1) = x_cbus (y_x m);
  w1_nch : x_nch (y_x m1) = x_nch (y_x m); w1_nid : x_nid (y_x m1) = x_nid (y_x m);
  w1_ebuf : bb_buf (x_ebus (y_x m1)) = bb_buf (x_ebus (y_x m)); w1_eql : bb_ql (x_ebus (y_x m1)) = bb_ql (x_ebus (y_x m));
  w1_ebl : bb_bl (x_ebus (y_x m1)) = bb_bl (x_ebus (y_x m)) }.

Lemma EuFrameW_refl m : EuFrameW m m.
Proof. constructor; reflexivity. Qed.
Lemma EuFrameW_trans a b c : EuFrameW a b -> EuFrameW b c -> EuFrameW a c.
Proof. intros [] []. constructor; congruence. Qed.
Lemma EuFrame1_W m m1 : EuFrame1 m m1 -> EuFrameW m m1.
Proof. intros []. constructor; assumption. Qed.

(* exec_fin changes the branch unit, the fetch unit (a resolved jump), the decode flag,
   ctx.sequenceID and pendingConditionalBranch only *)
Lemma exec_fin_frame m2 ty pc exe sidv :
  let m5 := fst (exec_fin m2 ty pc exe sidv) in
  EuFrameW m2 m5 /\ m_wbus (y_m m5) = m_wbus (y_m m2) /\ x_ebus (y_x m5) = x_ebus (y_x m2) /\ x_ch (y_x m5) = x_ch (y_x m2) /\
  (x_pcb (y_x m5) = true -> x_pcb (y_x m2) = true /\ InstructionType_IsConditionalBranch ty = false) /\
  (InstructionType_IsUnconditionalBranch ty = false ->
     m_fu (y_m m5) = m_fu (y_m m2) /\ m_dpbr (y_m m5) = m_dpbr (y_m m2) /\ b_btb (m_bu (y_m m5)) = b_btb (m_bu (y_m m2)) /\
     x_seq (y_x m5) = x_seq (y_x m2)) /\
  b_btb (m_bu (y_m m5)) = (if InstructionType_IsUnconditionalBranch ty then btb_add (b_btb (m_bu (y_m m2))) pc (NextPc exe) else b_btb (m_bu (y_m m2))) /\
  (x_seq (y_x m5) = x_seq (y_x m2) \/ x_seq (y_x m5) = addS 32 (x_seq (y_x m2)) 1).
Proof.
  cbv zeta. unfold exec_fin.
  destruct (InstructionType_IsUnconditionalBranch ty), (InstructionType_IsConditionalBranch ty), (PcChange exe);
    unfold bu_should_flush6, bu_resolved1, bu_resolved6, inc_seq;
    cbn [set_m set_x y_m y_x set_bu set_fu set_du m_bu b_check b_expect b_btb xs_pcb xs_seq];
    repeat match goal with |- context [if ?c then _ else _] => destruct c end;
    cbn [fst set_m set_x y_m y_x set_bu set_fu set_du m_bu m_wbus m_fu m_dpbr b_check b_expect b_btb xs_pcb xs_seq x_pcb x_ebus x_ch x_seq];
    (split; [constructor; reflexivity|]); repeat split; try reflexivity; try discriminate; auto;
    try (destruct (y_x m2); reflexivity); try (intros H; destruct (y_x m2); cbn in H; try discriminate H; auto);
    try (left; destruct (y_x m2); reflexivity); try (right; destruct (y_x m2); reflexivity).
Qed.

Section Exec2.
  Variables (app : list instr) (labels : Z -> option Z) (regs0 mem0 : list Z) (base : nat) (sq : Z).
  Hypothesis Happ : wf_app app.
  Hypothesis Hreg : reg_only app = true.
  Hypothesis Hrng : regs_in_range app = true.
  Hypothesis Hlen32 : length regs0 = 32%nat.
  Hypothesis Hbase : (base <= length app)%nat.
  Let n := length app.
  Let N := stop_from app base.
  Hypothesis Hsq : 0 <= sq /\ 1000 * sq + 4 * Z.of_nat n < 2147483648.

  Notation sreg := (sreg app labels regs0 base).
  Notation eff := (eff app labels regs0 base).
  Notation ik := (ik app).
  Notation rnq := (rnq app sq).
  Notation sid := (sid sq).
  Notation CoreI := (CoreI app labels regs0 mem0 base sq).
  Notation BackSemF := (BackSemF app labels regs0 base).
  Notation FL1 := (FL1 sq).
  Notation wbq := (wbq app labels regs0 base sq).
  Notation regval := (regval app labels regs0 base).

  Hypothesis Hsem : forall k, (base <= k <= N)%nat -> (k < n)%nat ->
    exec (sinstr_of (ik k)) (rget (sreg k)) labels (pcz k) [] = Ok (eff k) /\
    (forall a, etarget (eff k) = Some a -> exists t, a = pcz t /\ (k < t <= n)%nat).
  Hypothesis Hr32 : Forall int32 regs0.

  Set Default Proof Using "All".
  Notation "'IA' L" := (L app labels regs0 mem0 base sq Happ Hreg Hrng Hlen32 Hbase Hsq Hsem) (at level 10, L at level 9, only parsing).
  Notation "'IE' L" := (L app labels regs0 mem0 base sq Happ Hreg Hrng Hlen32 Hbase Hsq Hsem Hr32) (at level 10, L at level 9, only parsing).

  (* the response of the unit that executes instruction k *)
  Definition bresp (k : nat) : resp1 :=
    if is_ret (ik k) then mk_resp1 false 0 0 true None else
    match etarget (eff k) with
    | Some a => if is_jump (ik k) || negb (pcz (S k) =? a) then mk_resp1 true (sid k) a false None else resp0
    | None => resp0
    end.

  Lemma bresp_plain k : (base <= k <= N)%nat -> (k < n)%nat -> notbr app k -> bresp k = presp app k.
  Proof.
    intros H1 H2 Hb. unfold bresp, Mvp61RefExec.presp. destruct (is_ret (ik k)) eqn:Er; [reflexivity|].
    rewrite (IA eff_plain k H1 H2 Er Hb). reflexivity.
  Qed.

  Lemma bresp_err k : p_err (bresp k) = None.
  Proof. unfold bresp. destruct (is_ret (ik k)); [reflexivity|]. destruct (etarget (eff k)); [|reflexivity]. destruct (_ || _); reflexivity. Qed.

  (* the branch unit after assert *)
  Definition bua (b : bu6) (k : nat) : bu6 :=
    if is_jump (ik k) then mk_bu6 true (-1) (b_btb b)
    else if condbr (ik k) then mk_bu6 true (addS 32 (pcz k) 4) (b_btb b)
    else mk_bu6 false (b_expect b) (b_btb b).

  Lemma addS_pcz k : (k < n)%nat -> addS 32 (pcz k) 4 = pcz (S k).
  Proof.
    intros H. rewrite pcz_S. unfold addS. apply wrapS_id; [lia|]. pose proof (n_small app Happ). fold n in H0. apply int32_bounds. unfold pcz. lia.
  Qed.

  (* shouldFlush after the assert of instruction k *)
  Lemma fin_resp m2 k : (base <= k <= N)%nat -> (k < n)%nat -> is_ret (ik k) = false ->
    m_bu (y_m m2) = bua (m_bu (y_m m2)) k ->
    snd (exec_fin m2 (instr_InstructionType (ik k)) (pcz k) (embed (eff k)) (sid k)) = bresp k.
  Proof.
    intros H1 H2 Hnr Hbu. destruct (IA embed_flags1 k H1 H2) as (_ & _ & Hpc & Hnp).
    pose proof (eff_kind app labels regs0 base Hsem k H1 H2) as Hkind. destruct (Hsem k H1 H2) as [_ Htgt].
    unfold exec_fin, bresp. rewrite Hnr, Hpc. fold (is_jump (ik k)). fold (condbr (ik k)).
    destruct (etarget (eff k)) as [a|] eqn:Ea.
    2:{ destruct (is_jump (ik k)), (condbr (ik k)); reflexivity. }
    rewrite (Hnp a eq_refl). destruct (Htgt a eq_refl) as (t & -> & Ht).
    destruct (is_jump (ik k)) eqn:Ej.
    - (* resolved jump: the branch unit keeps check = true, expectation -1 *)
      cbn [orb]. unfold bu_resolved1, bu_resolved6, inc_seq, bu_should_flush6.
      destruct (condbr (ik k)); cbn [set_m set_x y_m y_x set_bu set_fu set_du m_bu b_check b_expect b_btb xs_pcb xs_seq];
        rewrite Hbu; unfold bua; rewrite Ej; cbn [b_check b_expect negb];
        (assert (Hneg : (-1 =? pcz t) = false) by (apply Z.eqb_neq; unfold pcz; lia)); rewrite Hneg; reflexivity.
    - assert (Hc : condbr (ik k) = true).
      { destruct (eff k) as [rd v|bs| |a'|rd v a'|]; cbn [etarget] in Ea; try discriminate; try congruence.
        destruct Hkind as [Hx|[_ Hx]]; [congruence | exact Hx]. }
      rewrite Hc. cbn [orb]. unfold bu_should_flush6. cbn [set_x y_m]. rewrite Hbu. unfold bua. rewrite Ej, Hc. cbn [b_check b_expect negb].
      rewrite (addS_pcz k H2). destruct (pcz (S k) =? pcz t); reflexivity.
  Qed.

  Lemma bresp_flush_jump k : (base <= k <= N)%nat -> (k < n)%nat -> is_jump (ik k) = true -> p_flush (bresp k) = true.
  Proof.
    intros H1 H2 Hj. unfold bresp.
    assert (Hr : is_ret (ik k) = false).
    { destruct (is_ret (ik k)) eqn:E; [|reflexivity]. destruct (ret_not_branch _ E). congruence. }
    rewrite Hr, Hj. cbn [orb].
    pose proof (eff_kind app labels regs0 base Hsem k H1 H2) as Hk.
    pose proof (IA eff_ret1 k H1 H2) as Hrt.
    pose proof (eff_nostore app labels regs0 base Hreg Hsem k) as Hns.
    destruct (eff k) as [rd v|bs| |a|rd v a|]; cbn [etarget]; try reflexivity; try congruence; exfalso.
    - exact (Hns bs H1 H2 eq_refl).
    - rewrite (proj1 Hrt eq_refl) in Hr. discriminate.
  Qed.

  (* an idle unit takes x - any instruction of the segment - from the head of the execute bus and runs it at once *)
  Lemma eu_exec2 ord cy d P m e r qt bound :
    CoreI d P m -> EuNone1 e -> eu_pre1 e = false -> BusOK cy (m_wbus (y_m m)) -> bb_canadd (m_wbus (y_m m)) = true ->
    bb_q (x_ebus (y_x m)) = r :: qt ->
    (is_jump (ik (kr1 r)) = true -> btb_get (b_btb (m_bu (y_m m))) (pcz (kr1 r)) = None) ->
    Forall (fun en => fst en < bound) (b_btb (m_bu (y_m m))) -> pcz (kr1 r) < bound ->
    exists m1 e1, eu_cycle1 labels ord cy m e = (false, Ok (m1, e1, bresp (kr1 r))) /\ EuNone1 e1 /\ u_sid e1 = u_sid e /\
      e_runner (u_e e1) = Some (rnq (kr1 r)) /\
      CoreI d P m1 /\ BusOK cy (m_wbus (y_m m1)) /\ EuFrameW m m1 /\
      bb_q (x_ebus (y_x m1)) = qt /\
      bb_buf (m_wbus (y_m m1)) = bb_buf (m_wbus (y_m m)) ++ (if is_ret (ik (kr1 r)) then [] else [(cy + 1, wbq (kr1 r))]) /\
      (base <= kr1 r < d)%nat /\ (kr1 r <= N)%nat /\ (kr1 r < n)%nat /\ r_b r = rnq (kr1 r) /\
      (p_flush (bresp (kr1 r)) = false ->
         m_fu (y_m m1) = m_fu (y_m m) /\ m_dpbr (y_m m1) = m_dpbr (y_m m) /\ b_btb (m_bu (y_m m1)) = b_btb (m_bu (y_m m)) /\ x_seq (y_x m1) = x_seq (y_x m)) /\
      Forall (fun en => fst en < bound) (b_btb (m_bu (y_m m1))) /\
      (x_seq (y_x m1) = x_seq (y_x m) \/ x_seq (y_x m1) = addS 32 (x_seq (y_x m)) 1).
  Proof.
    intros HC [Hmem Hco] Hpre HW Hadd Hq Hget Hbtb Hxb.
    pose proof HC as [H1 H2 H3 (fs & HS & Hlk) H5 H6 H7 H8 H9 H10 [C1 C2 C3 C4 C5 C6] H12 H13 H14].
    assert (HEB : EB m = r :: (qt ++ map snd (bb_buf (x_ebus (y_x m))))) by (unfold EB, flat; rewrite Hq; reflexivity).
    set (E2 := qt ++ map snd (bb_buf (x_ebus (y_x m)))) in *.
    assert (Hr : RunOK1 app base sq d r) by (rewrite HEB in H1; inversion H1; assumption).
    destruct (IA RunOK1_kr d r Hr) as (Hkd & HkN & Hkn & Hrb). set (x := kr1 r) in *.
    assert (HxF : In x (FL1 m)) by (unfold Mvp61RefInv.FL1; rewrite HEB; left; reflexivity).
    set (ty := instr_InstructionType (ik x)).
    (* the Receiver *)
    assert (Hrcv : exists chs f, (match r_rc r with
                                  | None => chs = x_ch (y_x m) /\ f = no_fwd
                                  | Some ch => ch_take (x_ch (y_x m)) ch = Some (snd f, chs) /\ fst f = r_freg r /\
                                               (forall c' v', In (c', v') chs <-> In (c', v') (x_ch (y_x m)) /\ c' <> ch) /\
                                               (forall c', In c' (keys chs) <-> In c' (keys (x_ch (y_x m))) /\ c' <> ch)
                                  end) /\ NoDup (keys chs) /\ FwdVal app labels regs0 base (fs x) x f).
    { pose proof (Hlk r ltac:(rewrite HEB; left; reflexivity)) as Elk. fold x in Elk. rewrite Elk. unfold rcreg. destruct (r_rc r) as [ch|] eqn:Erc.
      - rewrite HEB in C5. cbn [AvE] in C5. destruct C5 as [Ca _]. specialize (Ca ch Erc).
        destruct (ch_take_spec (x_ch (y_x m)) ch (nodup_app_r _ _ C2) Ca) as (v & chs & Et & Hv & T1 & T2 & T3).
        exists chs, (r_freg r, v). cbn [fst snd]. split; [auto|]. split; [exact T3|]. unfold FwdVal.
        destruct (C4 r ch ltac:(apply in_or_app; right; rewrite HEB; left; reflexivity) Erc) as [Cv _]. rewrite (Cv v Hv). reflexivity.
      - exists (x_ch (y_x m)), no_fwd. split; [auto|]. split; [exact (nodup_app_r _ _ C2) | reflexivity]. }
    destruct Hrcv as (chs & f & Hrc & Hndc & Hfv).
    pose proof ((IE run_val) d (m_regs (y_m m)) (m_pw (y_m m)) (m_pr (y_m m)) (FL1 m) fs x f HS HxF ltac:(lia) Hkn Hfv) as Hrun.
    destruct (IA embed_flags1 x ltac:(lia) Hkn) as (Hret & Hmc & Hpc & _).
    (* the Forwarder *)
    assert (Hfwk : forall ch, r_fw r = Some ch -> ~ In ch (keys chs)).
    { intros ch Ef Hin. rewrite HEB, fws_cons in C2. unfold fwl in C2. rewrite Ef in C2. cbn [List.app] in C2. inversion C2 as [|? ? Hno _]; subst.
      apply Hno. apply in_or_app. right. destruct (r_rc r); [apply Hrc; exact Hin | destruct Hrc as [-> _]; exact Hin]. }
    assert (Hfwnb : forall ch, r_fw r = Some ch -> is_ret (ik x) = false /\ InstructionType_IsBranch ty = false).
    { intros ch Ef. apply (H14 r ch ltac:(rewrite HEB; left; reflexivity) Ef). }
    set (ebus' := mk_bb (bb_buf (x_ebus (y_x m))) qt (bb_ql (x_ebus (y_x m))) (bb_bl (x_ebus (y_x m)))).
    set (bu' := bua (m_bu (y_m m)) x).
    set (xx := xs_ch (xs_ebus (y_x m) ebus') chs).
    set (m2 := mk_m1 (set_wbus (set_bu (y_m m) bu') (bb_add (m_wbus (y_m m)) (wbq x) cy)) xx).
    set (m1 := if is_ret (ik x) then mk_m1 (set_bu (y_m m) bu') xx
               else match r_fw r with
                    | Some ch => set_x m2 (xs_ch xx (chs ++ [(ch, regval x)]))
                    | None => fst (exec_fin m2 ty (pcz x) (embed (eff x)) (sid x))
                    end).
    set (e1 := mk_eu1 (mk_eu6 ENone (e_memory (u_e e)) (Some (r_b r))) (r_fw r) None (r_freg r) (u_sid e)).
    assert (Hbu2 : m_bu (y_m m2) = bua (m_bu (y_m m2)) x) by (unfold m2, bu', bua; cbn [y_m set_wbus set_bu m_bu]; destruct (is_jump (ik x)), (condbr (ik x)); reflexivity).
    assert (Ecyc : eu_cycle1 labels ord cy m e = (false, Ok (m1, mk_eu1 (mk_eu6 ENone (e_memory (u_e e)) (Some (r_b r))) (r_fw r)
                       (match r_rc r with Some _ => None | None => None end) (r_freg r) (u_sid e), bresp x))).
    { unfold eu_cycle1. rewrite Hpre. rewrite Hco. unfold bb_get. rewrite Hq. fold ebus'.
      unfold eu_prepare1. cbn [y_m set_x]. rewrite Hadd. cbn [negb u_e e_runner u_rc u_fw u_freg u_sid e_memory y_x xs_ebus x_ch].
      rewrite Hrb. cbn [Mvp61RefFront.rnq r_pc r_instr].
      assert (Hgot : forall mb (eb : eu1), y_m mb = y_m m -> x_fwd (y_x mb) = Seq.upd (repeat no_fwd n) x f \/ (f = no_fwd /\ x_fwd (y_x mb) = repeat no_fwd n) ->
                e_runner (u_e eb) = Some (rnq x) -> e_memory (u_e eb) = [] -> u_fw eb = r_fw r ->
                xs_fwd (y_x mb) (repeat no_fwd n) = xx ->
                eu_run1 labels ord cy (bu_assert1 mb (rnq x)) eb = (false, Ok (m1, eu_co_set eb ENone, bresp x))).
      { intros mb eb Ey Efw Er Em Ef Hxx.
        assert (Eb1 : bu_assert1 mb (rnq x) = set_m mb (set_bu (y_m m) bu')).
        { unfold bu_assert1, bu_assert6. cbn [Mvp61RefFront.rnq r_instr r_pc]. unfold bu', bua.
          change (InstructionType_IsUnconditionalBranch (instr_InstructionType (ik x))) with (is_jump (ik x)).
          change (InstructionType_IsConditionalBranch (instr_InstructionType (ik x))) with (condbr (ik x)).
          cbn [set_m y_m]. rewrite Ey. destruct (is_jump (ik x)) eqn:Ej.
          - rewrite (Hget eq_refl). reflexivity.
          - cbn [andb]. destruct (condbr (ik x)); reflexivity. }
        rewrite Eb1. unfold eu_run1. rewrite Er. cbn [Mvp61RefFront.rnq r_instr r_pc r_seq]. rewrite Em.
        assert (Egf : get_fwd (set_m mb (set_bu (y_m m) bu')) (pcz x) = f).
        { unfold get_fwd. cbn [set_m y_x]. rewrite (iidx_pcz x). destruct Efw as [Efw|[-> Efw]]; rewrite Efw.
          - apply supd_nth_eq. rewrite repeat_length. exact Hkn.
          - apply nth_repeat. }
        rewrite Egf. cbn [set_m y_m set_bu m_regs]. rewrite Hrun.
        assert (Esf : set_fwd (set_m mb (set_bu (y_m m) bu')) (pcz x) no_fwd = mk_m1 (set_bu (y_m m) bu') xx).
        { unfold set_fwd. cbn [set_m y_x y_m set_x]. rewrite (iidx_pcz x). rewrite <- Hxx.
          destruct Efw as [Efw|[_ Efw]]; rewrite Efw; [rewrite upd_upd|]; rewrite upd_repeat; reflexivity. }
        rewrite Esf. rewrite Hret. unfold bresp, m1. destruct (is_ret (ik x)) eqn:Eret; [reflexivity|].
        rewrite Hmc. cbn [andb bind]. rewrite Ef. cbn [y_m set_wbus m_wbus set_bu].
        change (mk_wb6 (Mvp61RefFront.sid sq x) (embed (eff x)) (instr_ReadRegisters (ik x)) (instr_WriteRegisters (ik x))) with (wbq x).
        change (set_m (mk_m1 (set_bu (y_m m) bu') xx) (set_wbus (set_bu (y_m m) bu') (bb_add (m_wbus (y_m m)) (wbq x) cy))) with m2.
        destruct (r_fw r) as [ch|] eqn:Ef'.
        - destruct (Hfwnb ch eq_refl) as [_ Hnbr]. fold ty. rewrite Hnbr.
          assert (Hxch : x_ch (y_x m2) = chs) by reflexivity. rewrite Hxch, ((IE existsb_keys) ch _ (Hfwk ch eq_refl)).
          unfold Mvp61RefInv.regval.
          (* not a branch: nothing, whatever the effect *)
          unfold InstructionType_IsBranch in Hnbr. apply orb_false_iff in Hnbr as [Hu Hc].
          rewrite (IA eff_plain x ltac:(lia) Hkn Eret ltac:(unfold notbr, InstructionType_IsBranch; fold ty; rewrite Hu, Hc; reflexivity)). reflexivity.
        - fold ty. pose proof (fin_resp m2 x ltac:(lia) Hkn Eret Hbu2) as Hfr. fold ty in Hfr.
          unfold exec_fin in Hfr |- *. unfold bresp in Hfr. rewrite Eret in Hfr.
          destruct (PcChange (embed (eff x))); [|rewrite <- Hfr; reflexivity].
          destruct (bu_should_flush6 _ _) as [b' fl]. cbn [fst snd] in Hfr |- *. rewrite <- Hfr. reflexivity. }
      cbn [y_x set_x xs_ebus x_ch]. destruct f as [f1 f2]. destruct (r_rc r) as [ch|] eqn:Erc.
      - destruct Hrc as (Et & Ef1 & T1 & T2). cbn [fst snd] in Et, Ef1. subst f1. rewrite Et.
        rewrite (nomem_no_read _ _ _ (IA ik_nomem1 x)).
        rewrite Hgot; [| reflexivity | left; unfold set_fwd; cbn [set_x y_x xs_ch xs_fwd x_fwd xs_ebus]; rewrite (iidx_pcz x), H8; reflexivity
                       | reflexivity | exact Hmem | reflexivity |].
        + unfold eu_co_set. cbn [u_e e_memory e_runner u_fw u_rc u_freg u_sid e_co]. reflexivity.
        + unfold xx, set_fwd. cbn [set_x y_x]. destruct (y_x m) as [a1 a2 a3 a4 a5 a6 a7 a8 a9 a10]. cbn in H8 |- *. rewrite H8. reflexivity.
      - destruct Hrc as [-> Ef]. injection Ef as -> ->.
        rewrite (nomem_no_read _ _ _ (IA ik_nomem1 x)).
        rewrite Hgot; [| reflexivity | right; split; [reflexivity | exact H8]
                       | reflexivity | exact Hmem | reflexivity |].
        + unfold eu_co_set. cbn [u_e e_memory e_runner u_fw u_rc u_freg u_sid e_co]. reflexivity.
        + unfold xx. cbn [set_x y_x]. destruct (y_x m) as [a1 a2 a3 a4 a5 a6 a7 a8 a9 a10]. cbn in H8 |- *. rewrite H8. reflexivity. }
    exists m1, e1. split; [rewrite Ecyc; unfold e1; destruct (r_rc r); reflexivity|].
    split; [split; [exact Hmem | reflexivity]|]. split; [reflexivity|]. split; [unfold e1; cbn [u_e e_runner]; rewrite Hrb; reflexivity|].
    (* the machine afterwards, relative to m2 / m *)
    destruct (exec_fin_frame m2 ty (pcz x) (embed (eff x)) (sid x)) as (Ffr & Fwb & Feb & Fch & Fpcb & Fnj & Fbtb & Fseq).
    set (m5 := fst (exec_fin m2 ty (pcz x) (embed (eff x)) (sid x))) in *.
    assert (Hfwret : is_ret (ik x) = true -> r_fw r = None).
    { intros Er. destruct (r_fw r) as [ch|] eqn:Ef; [|reflexivity]. destruct (Hfwnb ch eq_refl) as [Hx _]. congruence. }
    set (chs' := if is_ret (ik x) then chs else match r_fw r with Some ch => chs ++ [(ch, regval x)] | None => chs end).
    assert (Xch : x_ch (y_x m1) = chs').
    { unfold m1, chs'. destruct (is_ret (ik x)); [reflexivity|]. destruct (r_fw r); [reflexivity | exact Fch]. }
    assert (Xeb : x_ebus (y_x m1) = ebus').
    { unfold m1. destruct (is_ret (ik x)); [reflexivity|]. destruct (r_fw r); [reflexivity | exact Feb]. }
    assert (HE1 : EB m1 = E2) by (unfold EB; rewrite Xeb; reflexivity).
    assert (Xwb : m_wbus (y_m m1) = if is_ret (ik x) then m_wbus (y_m m) else bb_add (m_wbus (y_m m)) (wbq x) cy).
    { unfold m1. destruct (is_ret (ik x)); [reflexivity|]. destruct (r_fw r); [reflexivity | exact Fwb]. }
    assert (HW1 : WB m1 = WB m ++ (if is_ret (ik x) then [] else [wbq x])).
    { unfold WB. rewrite Xwb. destruct (is_ret (ik x)); [rewrite app_nil_r; reflexivity | apply add_flat]. }
    assert (HFW : EuFrameW m m1).
    { unfold m1. destruct (is_ret (ik x)); [constructor; reflexivity|]. destruct (r_fw r); [constructor; reflexivity|].
      eapply EuFrameW_trans; [|exact Ffr]. constructor; reflexivity. }
    assert (Hpcb1 : x_pcb (y_x m1) = true -> x_pcb (y_x m) = true /\ condbr (ik x) = false).
    { unfold m1. destruct (is_ret (ik x)) eqn:Eret.
      - cbn [y_x xx xs_ch xs_ebus x_pcb]. intros Hp. split; [destruct (y_x m); exact Hp | apply (ret_not_branch _ Eret)].
      - destruct (r_fw r) as [ch|] eqn:Ef.
        + intros Hp. split; [destruct (y_x m); exact Hp|]. destruct (Hfwnb ch eq_refl) as [_ Hb]. unfold InstructionType_IsBranch in Hb. apply orb_false_iff in Hb as [_ Hb]. exact Hb.
        + intros Hp. destruct (Fpcb Hp) as [A B]. split; [destruct (y_x m); exact A | exact B]. }
    assert (Hsub : forall r0, In r0 E2 -> In r0 (EB m)) by (intros r0 Hr0; rewrite HEB; right; exact Hr0).
    assert (Hkeys' : keys chs' = keys chs ++ (if is_ret (ik x) then [] else fwl r)).
    { unfold chs', fwl. destruct (is_ret (ik x)); [rewrite app_nil_r; reflexivity|]. destruct (r_fw r); [rewrite keys_app; reflexivity | rewrite app_nil_r; reflexivity]. }
    assert (Hfwl : (if is_ret (ik x) then [] else fwl r) = fwl r).
    { destruct (is_ret (ik x)) eqn:Er; [|reflexivity]. unfold fwl. rewrite (Hfwret eq_refl). reflexivity. }
    rewrite Hfwl in Hkeys'.
    assert (Hk : forall c, In c (keys chs) <-> In c (keys (x_ch (y_x m))) /\ r_rc r <> Some c).
    { intros c. destruct (r_rc r) as [ch|]; [destruct Hrc as (_ & _ & _ & T2); rewrite T2; split; intros [A B]; (split; [exact A | congruence])
                                           | destruct Hrc as [-> _]; split; [intros A; split; [exact A | discriminate] | tauto]]. }
    assert (Hv : forall c v, In (c, v) chs -> In (c, v) (x_ch (y_x m))).
    { intros c v Hin. destruct (r_rc r) as [ch|]; [destruct Hrc as (_ & _ & T1 & _); apply T1 in Hin; tauto | destruct Hrc as [-> _]; exact Hin]. }
    assert (Hv' : forall c v, In (c, v) chs' -> In (c, v) chs \/ (r_fw r = Some c /\ v = regval x)).
    { intros c v Hin. unfold chs' in Hin. destruct (is_ret (ik x)); [left; exact Hin|]. destruct (r_fw r) as [ch|]; [|left; exact Hin].
      apply in_app_or in Hin as [Hin|[Hin|[]]]; [left; exact Hin | right; injection Hin as <- <-; auto]. }
    assert (Hrcne : forall c, In c (rcs (P ++ E2)) -> r_rc r <> Some c).
    { intros c Hc Er. rewrite HEB in C3. rewrite rcs_app, rcs_cons in C3. unfold rcl in C3. rewrite Er in C3. rewrite rcs_app in Hc.
      apply NoDup_remove_2 in C3. apply C3. cbn [List.app]. exact Hc. }
    assert (HC1 : CoreI d P m1).
    { constructor; rewrite ?HE1, ?HW1.
      - rewrite HEB in H1. inversion H1; assumption.
      - exact H2.
      - apply Forall_app. split; [exact H3|]. destruct (is_ret (ik x)) eqn:Eret; [constructor|]. constructor; [|constructor].
        exists x. repeat split; auto; lia.
      - exists fs. split; [|intros r0 Hr0; apply Hlk; apply Hsub; exact Hr0].
        rewrite (w1_regs _ _ HFW), (w1_pw _ _ HFW), (w1_pr _ _ HFW).
        unfold Mvp61RefInv.FL1. rewrite HE1, HW1. destruct (is_ret (ik x)) eqn:Eret.
        + rewrite app_nil_r. destruct (ret_slots app x Eret) as [A B].
          eapply (bf_drop app labels regs0 base); [|exact B | exact A].
          eapply bf_perm; [|exact HS]. unfold Mvp61RefInv.FL1. rewrite HEB. cbn [map List.app]. apply Permutation_refl.
        + eapply bf_perm; [|exact HS]. unfold Mvp61RefInv.FL1. rewrite HEB, map_app. cbn [map List.app]. fold x. rewrite (IA kw1_wbq). perm_nat.
      - rewrite (w1_mem _ _ HFW). exact H5.
      - rewrite (w1_l3 _ _ HFW). exact H6.
      - intros Ed Hr'. left. destruct (H7 Ed Hr') as [Hx|Hx]; rewrite HEB in Hx; [discriminate | apply (f_equal (@tl runner)) in Hx; exact Hx].
      - rewrite (w1_fwd _ _ HFW). exact H8.
      - exact I.
      - intros Hp. destruct (Hpcb1 Hp) as [Hp0 Hncb]. destruct (H10 Hp0) as (r0 & Hin & Hc). exists r0. split; [|exact Hc]. rewrite HEB in Hin. destruct Hin as [<-|Hin]; [|exact Hin].
        exfalso. rewrite Hrb in Hc. cbn [Mvp61RefFront.rnq r_instr] in Hc. congruence.
      - rewrite Forall_forall in C1.
        constructor; rewrite ?HE1, ?Xch, ?(w1_nch _ _ HFW), ?Hkeys'.
        + apply Forall_forall. intros c Hc. apply C1. rewrite HEB, fws_cons. rewrite !in_app_iff in Hc. rewrite !in_app_iff.
          destruct Hc as [[Hc|Hc]|[Hc|Hc]]; [apply Hk in Hc; tauto | tauto | tauto|].
          right. right. rewrite rcs_app in Hc |- *. rewrite rcs_cons. rewrite !in_app_iff in *. tauto.
        + rewrite HEB, fws_cons in C2.
          eapply Permutation_NoDup; [|apply (nodup_app_incl_r (fwl r ++ fws E2) (keys (x_ch (y_x m))) (keys chs)); [exact C2 | exact Hndc | intros c Hc; apply Hk in Hc; tauto]].
          rewrite <- app_assoc. rewrite (app_assoc (fws E2)). apply Permutation_app_comm.
        + rewrite HEB in C3. rewrite rcs_app, rcs_cons in C3. rewrite rcs_app. exact (nodup_remove_mid _ _ _ C3).
        + intros r0 c Hin Hc.
          assert (Hin0 : In r0 (P ++ EB m)) by (apply in_app_or in Hin as [Hin|Hin]; apply in_or_app; [left; exact Hin | right; apply Hsub; exact Hin]).
          destruct (C4 r0 c Hin0 Hc) as [A B]. split.
          * intros v Hin'. destruct (Hv' c v Hin') as [Hin''|[Ef ->]]; [apply A, Hv; exact Hin''|].
            apply (B r ltac:(rewrite HEB; left; reflexivity) Ef).
          * intros p0 Hp0. apply B. apply Hsub. exact Hp0.
        + rewrite HEB in C5. cbn [AvE] in C5. destruct C5 as [_ C5]. eapply AvE_mono; [|exact C5].
          intros c Hc Hin. apply in_app_or in Hin as [Hin|Hin]; apply in_or_app; [left | right; exact Hin].
          apply Hk. split; [exact Hin|]. apply Hrcne. rewrite rcs_app. apply in_or_app. right. exact Hc.
        + intros r0 c Hr0 Hc. destruct (C6 r0 c Hr0 Hc) as [Hin|Hin].
          * left. apply in_or_app. left. apply Hk. split; [exact Hin|]. apply Hrcne. rewrite rcs_app. apply in_or_app. left. apply rcs_in. exists r0. auto.
          * rewrite HEB, fws_cons in Hin. apply in_app_or in Hin as [Hin|Hin]; [left; apply in_or_app; right; exact Hin | right; exact Hin].
      - rewrite HEB in H12. cbn [map] in H12. inversion H12; assumption.
      - rewrite (w1_nid _ _ HFW). rewrite HEB in H13. inversion H13; assumption.
      - intros p0 c Hp0. apply H14. apply Hsub. exact Hp0. }
    split; [exact HC1|]. split.
    { rewrite Xwb. destruct (is_ret (ik x)); [exact HW | apply add_ok; exact HW]. }
    split; [exact HFW|]. split; [rewrite Xeb; reflexivity|]. split.
    { rewrite Xwb. destruct (is_ret (ik x)); [rewrite app_nil_r; reflexivity | reflexivity]. }
    split; [exact Hkd|]. split; [exact HkN|]. split; [exact Hkn|]. split; [exact Hrb|].
    (* the front end and the BTB *)
    assert (Hbtb2 : b_btb (m_bu (y_m m2)) = b_btb (m_bu (y_m m))) by (unfold m2, bu', bua; cbn [y_m set_wbus set_bu m_bu]; destruct (is_jump (ik x)), (condbr (ik x)); reflexivity).
    assert (Hseq2 : x_seq (y_x m2) = x_seq (y_x m)) by (unfold m2, xx; cbn [y_x]; destruct (y_x m); reflexivity).
    split; [|split].
    3:{ unfold m1. destruct (is_ret (ik x)); [left; unfold xx; cbn [y_x]; destruct (y_x m); reflexivity|].
        destruct (r_fw r); [left; unfold xx; cbn [set_x y_x]; destruct (y_x m); reflexivity|]. fold m5. rewrite <- Hseq2. exact Fseq. }
    - intros Hnf. unfold m1. destruct (is_ret (ik x)) eqn:Eret.
      + cbn [y_m y_x set_bu m_fu m_dpbr m_bu]. unfold bu', bua. repeat split; try (destruct (is_jump (ik x)), (condbr (ik x)); reflexivity); try (unfold xx; destruct (y_x m); reflexivity).
      + destruct (r_fw r) as [ch|] eqn:Ef.
        * cbn [set_x y_m y_x m2 set_wbus set_bu m_fu m_dpbr m_bu]. unfold bu', bua. repeat split; try (destruct (is_jump (ik x)), (condbr (ik x)); reflexivity); try (unfold xx; destruct (y_x m); reflexivity).
        * assert (Hnj : InstructionType_IsUnconditionalBranch ty = false).
          { change (InstructionType_IsUnconditionalBranch ty) with (is_jump (ik x)). destruct (is_jump (ik x)) eqn:Ej; [|reflexivity]. rewrite (bresp_flush_jump x ltac:(lia) Hkn Ej) in Hnf. discriminate. }
          destruct (Fnj Hnj) as (A & B & C & D). rewrite A, B, C, D, Hbtb2. repeat split; try (unfold m2, xx; cbn [y_x]; destruct (y_x m); reflexivity).
    - unfold m1. destruct (is_ret (ik x)) eqn:Eret.
      + cbn [y_m set_bu m_bu]. unfold bu', bua. destruct (is_jump (ik x)), (condbr (ik x)); exact Hbtb.
      + destruct (r_fw r) as [ch|] eqn:Ef.
        * cbn [set_x y_m]. rewrite Hbtb2. exact Hbtb.
        * fold m5. rewrite Fbtb, Hbtb2. destruct (InstructionType_IsUnconditionalBranch ty); [|exact Hbtb].
          apply btb_add_bound; assumption.
  Qed.
End Exec2.
