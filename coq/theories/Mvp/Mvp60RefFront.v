(* Refinement of MVP-6.0 to the sequential machine on register-only
   programs - part 3: the front end (fetch unit with the L1I, decode unit) keeps
   the stream of fetched pcs / decoded runners consecutive, never panics, and
   never increases the potential. *)
From Coq Require Import ZArith List Bool Lia Permutation.
From Maj Require Import Base.Outcome Base.GoInt Base.GoTypes Isa.Spec Isa.Embed Isa.Seq Isa.Refine.
From Maj Require Import Gen.Latency Gen.RiscTables Gen.Opcodes Comp.Cache.
From Maj Require Import Mvp.Mvp12 Mvp.Mvp12Proofs Mvp.Mvp3 Mvp.Mvp3Proofs Mvp.Mvp4Skel Mvp.Mvp5 Mvp.Mvp60
     Mvp.Mvp60RefSem Mvp.Mvp60RefDefs.
Import ListNotations.
Open Scope Z_scope.

(* ------------------------------------------------------------------ *)
(* L1I                                                                  *)

Lemma l1i_get c pc : IInv c -> 0 <= pc ->
  exists c1 hit, get_all c [pc] [] = Ok (c1, hit) /\ IInv c1.
Proof.
  intros (HN & HL & Hf) Hpc. cbn [get_all]. unfold get.
  destruct (find_line_i (lines c) pc Hf) as (r & -> & Hr). cbn [bind].
  destruct r as [[[v l] rest]|].
  - destruct Hr as (Hl & Hrest & _). do 2 eexists. split; [reflexivity|].
    repeat split; cbn [set_lines nlines llen lines]; auto; try apply Hl.
  - do 2 eexists. split; [reflexivity|]. repeat split; auto.
Qed.

Lemma l1i_push c pc : IInv c -> 0 <= pc ->
  exists p, push_line c pc (repeat 0 (Z.to_nat l1LineSize)) = Ok p /\ IInv (fst p).
Proof.
  intros (HN & HL & Hf) Hpc. unfold push_line.
  set (nl := new_line c pc (repeat 0 (Z.to_nat l1LineSize))).
  assert (Hnl : iline_ok nl).
  { unfold nl, new_line, iline_ok. cbn [data hi lo]. split; [|split; [exact Hpc|]].
    - unfold zlen. rewrite repeat_length. reflexivity.
    - rewrite HL. reflexivity. }
  rewrite HN. destruct (Z.gtb_spec (zlen (nl :: lines c)) 16) as [Hgt|Hle].
  - change (16 <? 0) with false. cbn iota. eexists. split; [reflexivity|]. cbn [fst].
    repeat split; cbn [set_lines nlines llen lines]; auto. apply Forall_firstn. constructor; auto.
  - eexists. split; [reflexivity|]. cbn [fst]. repeat split; cbn [set_lines nlines llen lines]; auto.
Qed.

Definition stamped {T} (c : Z) (l : list T) : list (Z * T) := map (fun x => (c, x)) l.

Lemma stamped_snd {T} c (l : list T) : map snd (stamped c l) = l.
Proof. unfold stamped. rewrite map_map. cbn [snd]. apply map_id. Qed.
Lemma stamped_len {T} c (l : list T) : zlen (stamped c l) = zlen l.
Proof. unfold stamped, zlen. rewrite map_length. reflexivity. Qed.
Lemma stamped_forall {T} c c' (l : list T) : c <= c' -> Forall (fun x => fst x <= c') (stamped c l).
Proof. intros H. unfold stamped. apply Forall_forall. intros x Hx. apply in_map_iff in Hx as (y & <- & _). cbn [fst]. exact H. Qed.

Definition bus_push {T} (b : bbus T) (c : Z) (l : list T) : bbus T :=
  mk_bb (bb_buf b ++ stamped c l) (bb_q b) (bb_ql b) (bb_bl b).

Lemma bus_push_nil {T} (b : bbus T) c : bus_push b c [] = b.
Proof. unfold bus_push, stamped. cbn [map]. rewrite app_nil_r. destruct b; reflexivity. Qed.

Lemma bus_push_add {T} (b : bbus T) c l x : bb_add (bus_push b (c + 1) l) x c = bus_push b (c + 1) (l ++ [x]).
Proof. unfold bus_push, bb_add, stamped. cbn [bb_buf bb_q bb_ql bb_bl]. rewrite map_app, app_assoc. reflexivity. Qed.

Lemma bus_push_flat {T} (b : bbus T) c l : flat (bus_push b c l) = flat b ++ l.
Proof. unfold flat, bus_push. cbn [bb_q bb_buf]. rewrite map_app, stamped_snd, app_assoc. reflexivity. Qed.

Lemma bus_push_ok {T} cyc (b : bbus T) l : BusOK cyc b -> BusOK cyc (bus_push b (cyc + 1) l).
Proof.
  intros [H1 H2 H3 H4]. constructor; cbn [bus_push bb_ql bb_bl bb_buf]; auto.
  apply Forall_app. split; [exact H4 | apply stamped_forall; lia].
Qed.

Lemma pcz_nonneg k : 0 <= pcz k. Proof. unfold pcz. lia. Qed.
Lemma pcz_S k : pcz (S k) = pcz k + 4. Proof. unfold pcz. lia. Qed.
Lemma pcz_quot k : Z.quot (pcz k) 4 = Z.of_nat k.
Proof. unfold pcz. rewrite Z.mul_comm. apply Z.quot_mul. lia. Qed.
Lemma pcz_div k : pcz k / 4 = Z.of_nat k.
Proof. unfold pcz. rewrite Z.mul_comm. apply Z.div_mul. lia. Qed.

Lemma seq_cons_min c X : (c < X)%nat -> seq c (X - c) = c :: seq (S c) (X - S c).
Proof. intros H. replace (X - c)%nat with (S (X - S c)) by lia. reflexivity. Qed.

Section Front.
  (* [base]: start of the current straight-line segment; the decode unit stops at
     N = the first ret or unconditional jump at or after base *)
  Variables (app : list instr) (base : nat).
  Hypothesis Happ : wf_app app.
  Let n := length app.
  Let N := stop_from app base.
  Let M := Nat.max n 1.

  Definition rn (k : nat) : runner := mk_runner (ik app k) (pcz k) (pcz k).

  Lemma n_small : 4 * Z.of_nat n < 2147483640.
  Proof. apply Happ. Qed.

  Lemma ik_nth k : (k < n)%nat -> nth_error app k = Some (ik app k).
  Proof. intros H. unfold ik. apply nth_error_nth'. exact H. Qed.

  Lemma ik_not_stop k : (base <= k < N)%nat -> is_ret (ik app k) = false /\ is_jump (ik app k) = false.
  Proof.
    intros H. pose proof (stop_from_before app dfl base k H) as Hs. unfold is_stop in Hs.
    apply orb_false_iff in Hs. exact Hs.
  Qed.

  Lemma ik_stop : (N < n)%nat -> is_stop (ik app N) = true.
  Proof. intros H. apply (stop_from_at app dfl base H). Qed.

  (* ---------------------------------------------------------------- *)
  (* fetch unit                                                        *)

  Record FetchI (f : nat) (fu : fu6) (l1i : cache) : Prop := mkFetchI {
    fi_pc : f_pc fu = pcz f;
    fi_l1 : IInv l1i;
    fi_rem : f_co fu = FWait -> 0 <= f_rem fu <= MemoryAccess - 1;
    fi_nc : f_complete fu = false -> (f <= M)%nat /\ f_co fu <> FDone;
    fi_c : f_complete fu = true -> f_co fu <> FNone /\ (M <= f <= M + 2)%nat /\ (f_co fu = FWait -> (f <= M + 1)%nat) }.

  Definition phi_co (fu : fu6) : Z :=
    match f_co fu with FNone => MemoryAccess + 1 | FWait => f_rem fu + 1 | FDone => 0 end.
  Definition phiF (fu : fu6) : Z := 100 * (4 * (Z.of_nat M + 2) - f_pc fu) + phi_co fu.

  Lemma M_bound : 4 * Z.of_nat M + 8 < 2147483648.
  Proof. pose proof n_small. unfold M. lia. Qed.

  (* one push *)
  Lemma fu_push_spec cycle fu dbus f : f_pc fu = pcz f -> (f <= M + 1)%nat ->
    fu_push app cycle fu dbus =
      (mk_fu6 (pcz (S f)) (f_clean fu) (f_complete fu || (n <=? S f)%nat)
              (if (n <=? S f)%nat then FDone else f_co fu) (f_rem fu),
       bb_add dbus (pcz f) cycle).
  Proof.
    intros Hpc Hf. unfold fu_push. rewrite Hpc.
    assert (Hadd : addS 32 (pcz f) 4 = pcz (S f)).
    { rewrite pcz_S. unfold addS. apply wrapS_id; [lia|]. pose proof M_bound. pose proof (pcz_nonneg f).
      apply int32_bounds. unfold pcz in *. lia. }
    rewrite Hadd, pcz_quot. unfold nlen6. fold n.
    assert (Hb : (Z.of_nat n <=? Z.of_nat (S f)) = (n <=? S f)%nat).
    { destruct (Z.leb_spec (Z.of_nat n) (Z.of_nat (S f))), (Nat.leb_spec n (S f)); try reflexivity; lia. }
    rewrite Hb. reflexivity.
  Qed.

  (* state of the fetch unit inside coFetch *)
  Definition LoopI (f : nat) (fu : fu6) : Prop :=
    f_pc fu = pcz f /\ f_clean fu = false /\
    (f_complete fu = false -> (f <= M)%nat /\ f_co fu = FNone) /\
    (f_complete fu = true -> f_co fu = FDone /\ (M <= f)%nat).

  Lemma co_fetch_ok cycle : forall cnt f fu l1i dbus l,
    LoopI f fu -> IInv l1i -> (f + cnt <= M + 2)%nat ->
    exists fu' l1i' k,
      co_fetch cnt app cycle fu l1i (bus_push dbus (cycle + 1) l)
        = Ok (fu', l1i', bus_push dbus (cycle + 1) (l ++ map pcz (seq f k))) /\
      (k <= cnt)%nat /\ IInv l1i' /\
      ((LoopI (f + k) fu' /\ (f + k <= M + 2)%nat /\
        (k = O -> fu' = fu /\ (cnt = O \/ bb_canadd (bus_push dbus (cycle + 1) l) = false))) \/
       (f_pc fu' = pcz (f + k) /\ f_clean fu' = false /\ f_co fu' = FWait /\ f_rem fu' = MemoryAccess - 1 /\
        (f_complete fu' = false -> (f + k <= M)%nat) /\ (f_complete fu' = true -> (M <= f + k <= M + 1)%nat))).
  Proof.
    induction cnt as [|cnt IH]; intros f fu l1i dbus l HL HI Hcnt.
    - exists fu, l1i, O. cbn [co_fetch seq map]. rewrite app_nil_r, Nat.add_0_r. split; [reflexivity|].
      split; [lia|]. split; [exact HI|]. left. split; [exact HL|]. split; [lia|]. auto.
    - cbn [co_fetch]. destruct (bb_canadd (bus_push dbus (cycle + 1) l)) eqn:Eadd; cbn [negb].
      2:{ exists fu, l1i, O. cbn [seq map]. rewrite app_nil_r, Nat.add_0_r. split; [reflexivity|].
          split; [lia|]. split; [exact HI|]. left. split; [exact HL|]. split; [lia|]. auto. }
      destruct HL as (Hpc & Hcl & Hnc & Hc).
      destruct (l1i_get l1i (f_pc fu) HI ltac:(rewrite Hpc; apply pcz_nonneg)) as (c1 & hit & Eg & HI1).
      rewrite Eg. cbn [bind]. destruct hit as [bytes|].
      + (* hit: push and go on *)
        assert (HfM : (f <= M + 1)%nat) by lia.
        rewrite (fu_push_spec cycle fu _ f Hpc HfM). rewrite bus_push_add.
        set (fu1 := mk_fu6 (pcz (S f)) (f_clean fu) (f_complete fu || (n <=? S f)%nat)
                           (if (n <=? S f)%nat then FDone else f_co fu) (f_rem fu)).
        assert (HL1 : LoopI (S f) fu1).
        { unfold LoopI, fu1. cbn [f_pc f_clean f_complete f_co]. split; [reflexivity|]. split; [exact Hcl|].
          destruct (Nat.leb_spec n (S f)) as [Hle|Hgt].
          - rewrite orb_true_r. split; [discriminate|]. intros _. split; [reflexivity|]. unfold M. lia.
          - rewrite orb_false_r. split.
            + intros Hcf. destruct (Hnc Hcf) as [_ Hco]. split; [unfold M; lia | exact Hco].
            + intros Hct. destruct (Hc Hct) as [_ HM]. unfold M in HM. lia. }
        destruct (IH (S f) fu1 c1 dbus (l ++ [pcz f]) HL1 HI1 ltac:(lia)) as (fu' & l1i' & k & E & Hk & HI' & Hpost).
        exists fu', l1i', (S k). cbn [seq map]. rewrite E. rewrite <- app_assoc. cbn [List.app].
        split; [reflexivity|]. split; [lia|]. split; [exact HI'|].
        replace (f + S k)%nat with (S f + k)%nat by lia.
        destruct Hpost as [(A & B & _)|Hw]; [left | right; exact Hw].
        split; [exact A|]. split; [exact B|]. intros Hk0. discriminate Hk0.
      + (* miss: wait *)
        exists (mk_fu6 (f_pc fu) (f_clean fu) (f_complete fu) FWait (MemoryAccess - 1)), c1, O.
        cbn [seq map]. rewrite app_nil_r, Nat.add_0_r. split; [reflexivity|]. split; [lia|]. split; [exact HI1|].
        right. cbn [f_pc f_clean f_co f_rem f_complete].
        split; [exact Hpc|]. split; [exact Hcl|]. split; [reflexivity|]. split; [reflexivity|]. split.
        * intros Hcf. apply Hnc. exact Hcf.
        * intros Hct. destruct (Hc Hct) as [_ HM]. lia.
  Qed.

  Lemma phi_co_le fu f l1i : FetchI f fu l1i -> 0 <= phi_co fu <= MemoryAccess + 1.
  Proof. intros H. unfold phi_co. destruct (f_co fu) eqn:E; unfold MemoryAccess in *; try lia. pose proof (fi_rem _ _ _ H E). unfold MemoryAccess in *. lia. Qed.

  Lemma phiF_nonneg fu f l1i : FetchI f fu l1i -> 0 <= phiF fu.
  Proof.
    intros H. pose proof (phi_co_le _ _ _ H). unfold phiF. rewrite (fi_pc _ _ _ H). unfold pcz.
    assert ((f <= M + 2)%nat).
    { destruct (f_complete fu) eqn:E; [apply (fi_c _ _ _ H) in E | apply (fi_nc _ _ _ H) in E]; lia. }
    lia.
  Qed.

  (* fetchUnit.cycle, toCleanPending not set *)
  Lemma fu_ok0 cyc f fu l1i dbus : FetchI f fu l1i -> BusOK cyc dbus -> f_clean fu = false ->
    exists fu' l1i' k,
      fu_cycle6 app (cyc + 1) fu l1i dbus = Ok (fu', l1i', bus_push dbus (cyc + 2) (map pcz (seq f k))) /\
      FetchI (f + k) fu' l1i' /\ f_clean fu' = false /\
      phiF fu' + 10 * Z.of_nat k <= phiF fu /\
      (f_co fu = FWait \/ (f_co fu = FNone /\ bb_canadd dbus = true) -> phiF fu' + 10 * Z.of_nat k < phiF fu).
  Proof.
    intros HF HB Hcl. pose proof HF as [Hpc HI Hrem Hnc Hc]. pose proof HB as [Hql Hbl _ _].
    unfold fu_cycle6. rewrite Hcl.
    set (fu0 := mk_fu6 (f_pc fu) false (f_complete fu) (f_co fu) (f_rem fu)).
    assert (Efu0 : fu0 = fu) by (unfold fu0; rewrite <- Hcl; destruct fu; reflexivity).
    rewrite Efu0. clear fu0 Efu0.
    replace (cyc + 2) with (cyc + 1 + 1) by lia.
    destruct (f_co fu) eqn:Eco.
    - (* FNone *)
      assert (Hncomp : f_complete fu = false).
      { destruct (f_complete fu) eqn:E; [|reflexivity]. destruct (Hc eq_refl) as [Hx _]. contradiction. }
      destruct (Hnc Hncomp) as [HfM _].
      assert (HL : LoopI f fu).
      { split; [exact Hpc|]. split; [exact Hcl|]. split; [auto|]. intros E. rewrite E in Hncomp. discriminate. }
      rewrite Hbl. change (Z.to_nat 2) with 2%nat.
      destruct (co_fetch_ok (cyc + 1) 2 f fu l1i dbus [] HL HI ltac:(lia)) as (fu' & l1i' & k & E & Hk & HI' & Hpost).
      rewrite bus_push_nil in E. rewrite E. cbn [List.app]. exists fu', l1i', k. split; [reflexivity|].
      destruct Hpost as [(HL' & HfM' & Hk0)|(Hpc' & Hcl' & Hco' & Hrem' & Hnc' & Hc')].
      + destruct HL' as (Hpc' & Hcl' & Hnc' & Hc').
        assert (HF' : FetchI (f + k) fu' l1i').
        { constructor; auto.
          - intros Hw. destruct (f_complete fu') eqn:Ec; [destruct (Hc' eq_refl) as [Hx _] | destruct (Hnc' eq_refl) as [_ Hx]]; congruence.
          - intros Ec. destruct (Hnc' Ec) as [A B]. split; [exact A | congruence].
          - intros Ec. destruct (Hc' Ec) as [A B]. split; [congruence|]. split; [lia | congruence]. }
        split; [exact HF'|]. split; [exact Hcl'|].
        pose proof (phi_co_le _ _ _ HF') as Hle. unfold phiF. rewrite Hpc', Hpc. unfold phi_co at 2 4. rewrite Eco.
        destruct k as [|k].
        * destruct (Hk0 eq_refl) as [-> Hstall]. rewrite Nat.add_0_r. unfold phi_co. rewrite Eco.
          split; [lia|]. intros [Hx|[_ Hx]]; [discriminate|]. rewrite bus_push_nil in Hstall.
          destruct Hstall as [Hx'|Hx']; [discriminate | congruence].
        * unfold pcz. split; [lia|]. intros _. lia.
      + assert (HF' : FetchI (f + k) fu' l1i').
        { constructor; auto.
          - intros _. rewrite Hrem'. unfold MemoryAccess. lia.
          - intros Ec. split; [apply Hnc'; exact Ec | congruence].
          - intros Ec. split; [congruence|]. specialize (Hc' Ec). split; [lia | intros _; lia]. }
        split; [exact HF'|]. split; [exact Hcl'|].
        unfold phiF. rewrite Hpc', Hpc. unfold phi_co. rewrite Eco, Hco', Hrem'. unfold pcz, MemoryAccess.
        split; [lia|]. intros _. lia.
    - (* FWait *)
      destruct (Hrem eq_refl) as [Hr0 Hr1].
      destruct (Z.eqb_spec (f_rem fu) 0) as [Ez|Enz]; cbn [negb].
      + (* the line arrives: one push *)
        destruct (l1i_push l1i (f_pc fu) HI ltac:(rewrite Hpc; apply pcz_nonneg)) as (p & Ep & HIp).
        rewrite Ep. cbn [bind].
        assert (HfM : (f <= M + 1)%nat).
        { destruct (f_complete fu) eqn:Ec; [destruct (Hc eq_refl) as (_ & _ & Hx); specialize (Hx eq_refl); lia | destruct (Hnc eq_refl); lia]. }
        rewrite (fu_push_spec (cyc + 1) (mk_fu6 (f_pc fu) false (f_complete fu) FNone (f_rem fu)) dbus f Hpc HfM). cbn [f_clean f_complete f_co f_rem].
        exists (mk_fu6 (pcz (S f)) false (f_complete fu || (n <=? S f)%nat) (if (n <=? S f)%nat then FDone else FNone) (f_rem fu)),
               (fst p), 1%nat.
        cbn [seq map]. split; [unfold bus_push, bb_add, stamped; cbn [map]; reflexivity|].
        replace (f + 1)%nat with (S f) by lia.
        assert (HF' : FetchI (S f) (mk_fu6 (pcz (S f)) false (f_complete fu || (n <=? S f)%nat)
                                         (if (n <=? S f)%nat then FDone else FNone) (f_rem fu)) (fst p)).
        { constructor; cbn [f_pc f_clean f_complete f_co f_rem]; auto.
          - destruct (Nat.leb_spec n (S f)) as [Hle|Hgt]; [rewrite orb_true_r; discriminate|].
            rewrite orb_false_r. intros Ec. destruct (Hnc Ec) as [A _]. split; [unfold M; lia | discriminate].
          - destruct (Nat.leb_spec n (S f)) as [Hle|Hgt].
            + intros _. split; [discriminate|]. split; [|discriminate]. unfold M in *. lia.
            + rewrite orb_false_r. intros Ec. destruct (Hc Ec) as (_ & Hx & _). unfold M in Hx. lia. }
        split; [exact HF'|]. split; [reflexivity|].
        pose proof (phi_co_le _ _ _ HF') as Hle. unfold phiF in *. cbn [f_pc] in *. rewrite Hpc.
        unfold phi_co at 2 4. rewrite Eco. set (x := phi_co _) in *. unfold pcz, MemoryAccess in *.
        split; [lia|]. intros _. lia.
      + (* count down *)
        exists (mk_fu6 (f_pc fu) false (f_complete fu) FWait (f_rem fu - 1)), l1i, O.
        cbn [seq map]. rewrite bus_push_nil, Nat.add_0_r. split; [reflexivity|].
        split.
        * constructor; cbn [f_pc f_clean f_complete f_co f_rem]; auto; try (intros _; lia).
        * split; [reflexivity|]. unfold phiF, phi_co. cbn [f_pc f_co f_rem]. rewrite Eco. split; [lia|]. intros _. lia.
    - (* FDone *)
      exists fu, l1i, O. cbn [seq map]. rewrite bus_push_nil, Nat.add_0_r. split; [reflexivity|].
      split; [exact HF|]. split; [exact Hcl|]. split; [lia|]. intros [Hx|[Hx _]]; discriminate.
  Qed.

  (* fetchUnit.cycle: when toCleanPending is set the decode bus is already clean *)
  Lemma fu_ok cyc f fu l1i dbus : FetchI f fu l1i -> BusOK cyc dbus ->
    (f_clean fu = true -> bb_buf dbus = [] /\ bb_q dbus = []) ->
    exists fu' l1i' k,
      fu_cycle6 app (cyc + 1) fu l1i dbus = Ok (fu', l1i', bus_push dbus (cyc + 2) (map pcz (seq f k))) /\
      FetchI (f + k) fu' l1i' /\ f_clean fu' = false /\
      phiF fu' + 10 * Z.of_nat k <= phiF fu /\
      (f_co fu = FWait \/ (f_co fu = FNone /\ bb_canadd dbus = true) -> phiF fu' + 10 * Z.of_nat k < phiF fu).
  Proof.
    intros HF HB Hclean.
    set (fu0 := mk_fu6 (f_pc fu) false (f_complete fu) (f_co fu) (f_rem fu)).
    assert (Ecyc : fu_cycle6 app (cyc + 1) fu l1i dbus = fu_cycle6 app (cyc + 1) fu0 l1i dbus).
    { unfold fu_cycle6. cbn [fu0 f_clean f_pc f_complete f_co f_rem].
      assert (Edb : (if f_clean fu then bb_clean dbus else dbus) = dbus).
      { destruct (f_clean fu); [|reflexivity]. destruct (Hclean eq_refl) as [A B]. unfold bb_clean. rewrite <- A, <- B. destruct dbus; reflexivity. }
      rewrite Edb. reflexivity. }
    rewrite Ecyc. apply (fu_ok0 cyc f fu0 l1i dbus); [|exact HB | reflexivity].
    destruct HF as [H1 H2 H3 H4 H5]. constructor; auto.
  Qed.

  (* ---------------------------------------------------------------- *)
  (* decode unit                                                       *)

  Lemma du_loop_ok cycle : forall len c cbus l, (base <= c)%nat -> (Nat.min c n <= N)%nat ->
    exists j ret' pbr',
      du_loop (map pcz (seq c len)) app cycle false false (bus_push cbus (cycle + 1) l)
      = Ok (ret', pbr', map pcz (seq (c + j) (len - j)),
            bus_push cbus (cycle + 1) (l ++ map rn (seq (Nat.min c n) (Nat.min (c + j) n - Nat.min c n)))) /\
      (j <= len)%nat /\ ((0 < len)%nat -> (0 < j)%nat) /\
      (ret' = true -> (N < n)%nat /\ (c + j)%nat = S N /\ is_ret (ik app N) = true) /\
      (pbr' = true -> (N < n)%nat /\ (c + j)%nat = S N /\ is_jump (ik app N) = true) /\
      (ret' = false -> pbr' = false -> (Nat.min (c + j) n <= N)%nat).
  Proof.
    induction len as [|len IH]; intros c cbus l Hbc Hc.
    - exists O, false, false. cbn [seq map du_loop]. replace (Nat.min (c + 0) n - Nat.min c n)%nat with O by (rewrite Nat.add_0_r; lia).
      cbn [seq map]. rewrite app_nil_r.
      split; [reflexivity|]. split; [lia|]. split; [lia|]. split; [discriminate|]. split; [discriminate|]. intros _ _. rewrite Nat.add_0_r. exact Hc.
    - cbn [seq map du_loop]. rewrite pcz_quot. unfold nlen6. fold n.
      destruct (Z.leb_spec (Z.of_nat n) (Z.of_nat c)) as [Hout|Hin].
      + (* outside the text: dropped, the loop ends *)
        exists 1%nat, false, false. replace (S len - 1)%nat with len by lia. replace (c + 1)%nat with (S c) by lia.
        replace (Nat.min (S c) n - Nat.min c n)%nat with O by lia. cbn [seq map]. rewrite app_nil_r.
        split; [reflexivity|]. split; [lia|]. split; [lia|]. split; [discriminate|]. split; [discriminate|]. intros _ _. lia.
      + assert (Hcn : (c < n)%nat) by lia.
        destruct (Z.ltb_spec (Z.of_nat c) 0); [lia|]. rewrite Nat2Z.id, (ik_nth c Hcn).
        fold (is_jump (ik app c)). rewrite is_ret_type. rewrite bus_push_add. fold (rn c).
        assert (HcN : (c <= N)%nat) by lia.
        assert (HatN : is_ret (ik app c) = true \/ is_jump (ik app c) = true -> c = N).
        { intros Hx. destruct (Nat.eq_dec c N) as [|Hne]; [assumption|]. exfalso.
          destruct (ik_not_stop c ltac:(lia)) as [A B]. destruct Hx; congruence. }
        destruct (is_jump (ik app c)) eqn:Ejmp.
        * (* an unconditional jump: decoded, the unit waits for its resolution *)
          assert (c = N) by (apply HatN; right; reflexivity). subst c.
          exists 1%nat, false, true. replace (S len - 1)%nat with len by lia. replace (N + 1)%nat with (S N) by lia.
          replace (Nat.min (S N) n - Nat.min N n)%nat with 1%nat by lia. replace (Nat.min N n) with N by lia.
          cbn [seq map]. split; [reflexivity|]. split; [lia|]. split; [lia|]. split; [discriminate|].
          split; [intros _; auto | discriminate].
        * destruct (is_ret (ik app c)) eqn:Eret.
          -- (* the ret: decoded, the loop ends *)
             assert (c = N) by (apply HatN; left; reflexivity). subst c.
             exists 1%nat, true, false. replace (S len - 1)%nat with len by lia. replace (N + 1)%nat with (S N) by lia.
             replace (Nat.min (S N) n - Nat.min N n)%nat with 1%nat by lia. replace (Nat.min N n) with N by lia.
             cbn [seq map]. split; [reflexivity|]. split; [lia|]. split; [lia|]. split; [intros _; auto|].
             split; discriminate.
          -- assert (Hne : c <> N).
             { intros ->. pose proof (ik_stop Hcn) as Hx. unfold is_stop in Hx. rewrite Eret, Ejmp in Hx. discriminate. }
             destruct (IH (S c) cbus (l ++ [rn c]) ltac:(lia) ltac:(lia)) as (j & ret' & pbr' & E & Hj & Hj0 & Hrt & Hpt & Hrf).
             exists (S j), ret', pbr'. rewrite E. replace (c + S j)%nat with (S c + j)%nat by lia. cbn [Nat.sub].
             replace (Nat.min c n) with c by lia. replace (Nat.min (S c) n) with (S c) in * by lia.
             rewrite (seq_cons_min c (Nat.min (S c + j) n)) by lia. cbn [map]. rewrite <- app_assoc. cbn [List.app].
             split; [reflexivity|]. split; [lia|]. split; [lia|]. split; [assumption|]. split; assumption.
  Qed.

  (* decodeUnit.cycle when it is active *)
  Lemma du_ok cyc m c len : bb_q (m_dbus m) = map pcz (seq c len) -> (base <= c)%nat -> (Nat.min c n <= N)%nat ->
    m_dret m = false -> m_dpbr m = false ->
    exists j ret' pbr',
      du_cycle6 app (cyc + 1) m
      = Ok (set_cbus (set_dbus (set_du m ret' pbr')
                               (mk_bb (bb_buf (m_dbus m)) (map pcz (seq (c + j) (len - j))) (bb_ql (m_dbus m)) (bb_bl (m_dbus m))))
                     (bus_push (m_cbus m) (cyc + 2) (map rn (seq (Nat.min c n) (Nat.min (c + j) n - Nat.min c n))))) /\
      (j <= len)%nat /\ ((0 < len)%nat -> (0 < j)%nat) /\
      (ret' = true -> (N < n)%nat /\ (c + j)%nat = S N /\ is_ret (ik app N) = true) /\
      (pbr' = true -> (N < n)%nat /\ (c + j)%nat = S N /\ is_jump (ik app N) = true) /\
      (ret' = false -> pbr' = false -> (Nat.min (c + j) n <= N)%nat).
  Proof.
    intros Hq Hbc Hc Hr Hp. unfold du_cycle6. rewrite Hr, Hp, Hq.
    destruct (du_loop_ok (cyc + 1) len c (m_cbus m) [] Hbc Hc) as (j & ret' & pbr' & E & Hrest).
    rewrite bus_push_nil in E. rewrite E. cbn [bind List.app]. exists j, ret', pbr'.
    replace (cyc + 1 + 1) with (cyc + 2) by lia. split; [reflexivity | exact Hrest].
  Qed.

  Lemma du_idle cyc m : m_dret m = true \/ m_dpbr m = true -> du_cycle6 app (cyc + 1) m = Ok m.
  Proof. intros [H|H]; unfold du_cycle6; rewrite H; [|destruct (m_dret m)]; reflexivity. Qed.
End Front.
