(* The MVP-4 model on a program whose stores hit in the L1D is, cycle for cycle,
   its skeleton (Mvp4mSkel.v) plus the values of the sequential machine; the
   L1D + memory of the model are related to the sequential memory by the
   invariant VInv of Mvp3Proofs.v. *)
From Coq Require Import ZArith List Bool Lia.
From Maj Require Import Base.Outcome Base.GoInt Base.GoTypes Isa.Spec Isa.Embed Isa.Seq Isa.Refine.
From Maj Require Import Gen.Latency Gen.RiscTables Gen.Opcodes Comp.Cache Comp.CacheSpec Comp.CacheProofs.
From Maj Require Import Mvp.Mvp12 Mvp.Mvp12Proofs Mvp.Mvp3 Mvp.Mvp3Proofs Mvp.Mvp4 Mvp.Mvp4Skel Mvp.Mvp4Inv Mvp.Mvp4Units
     Mvp.Mvp4Front Mvp.Mvp4Sim Mvp.Mvp4mSkel Mvp.Mvp4mInv Mvp.Mvp4mFront.
Import ListNotations.
Open Scope Z_scope.

(* the skeleton does not keep the loaded bytes *)
Definition eu_erase (e : eu_t) : eu_t :=
  mk_eu (eu_processing e) (eu_pending_read e) (eu_addrs e) (option_map (fun _ => []) (eu_memory e))
        (eu_remaining e) (eu_runner e).

Lemma eu_erase_id e : eu_memory e = None -> eu_erase e = e.
Proof. intros H. unfold eu_erase. rewrite H. destruct e; cbn in *; subst; reflexivity. Qed.

(* the data phase of a load that completes *)
Definition load_got (l1d : cache) (mem : list Z) (e : eu_t) : outcome (cache * list Z * list Z) :=
  match eu_memory e with
  | Some m => Ok (l1d, mem, m)
  | None =>
      match eu_addrs e with
      | [] => Panic
      | a0 :: _ =>
          ln <- fetch_cache_line mem a0 ;;
          r2 <- push_line_to_l1d l1d mem a0 ln ;;
          r3 <- get_all (fst r2) (eu_addrs e) [] ;;
          match r3 with
          | (d3, Some bytes) => Ok (d3, snd r2, bytes)
          | (_, None) => Panic
          end
      end
  end.

Definition wait_eu (ce : eu_t) : eu_t :=
  mk_eu (eu_processing ce) true (eu_addrs ce) (eu_memory ce) (eu_remaining ce - 1) (eu_runner ce).

Lemma eu_cycle_m_pending labels regs mem pw l1d ce wbus bu ebus dt la e1 ebus2 dt1 act :
  eu_pending_read ce = true ->
  skm_eu (eu_erase ce) ebus pw dt la = (e1, ebus2, dt1, act) ->
  match act with
  | ANone =>
      eu_cycle labels (mk_env regs mem pw l1d ce wbus bu) ebus
      = inl (Ok (mk_env regs mem pw l1d (wait_eu ce) wbus bu, ebus, eu_none)) /\
      e1 = eu_erase (wait_eu ce) /\ dt1 = dt /\ ebus2 = ebus
  | AExec i pc =>
      ebus2 = ebus /\
      e1 = eu_done (mk_eu (eu_processing ce) false (eu_addrs ce) None (eu_remaining ce - 1) (eu_runner ce)) /\
      eu_cycle labels (mk_env regs mem pw l1d ce wbus bu) ebus
      = match load_got l1d mem ce with
        | Ok (d', mem', bytes) =>
            eu_post (eu_run labels (mk_env regs mem' pw d'
                                           (mk_eu (eu_processing ce) false (eu_addrs ce) None (eu_remaining ce - 1) (eu_runner ce))
                                           wbus bu) i pc bytes) ebus
        | Err er => inl (Err er)
        | Panic => inl Panic
        end
  | AStuck => True
  end.
Proof.
  intros Hpr. unfold skm_eu, eu_cycle, load_got, set_rem, wait_eu. cbn [eu_erase eu_pending_read eu_remaining eu_runner eu_memory eu_addrs eu_processing e_eu e_wbus e_regs e_mem e_pw e_l1d e_bu].
  rewrite Hpr.
  destruct (negb (eu_remaining ce - 1 =? 0)).
  - intros H. injection H as <- <- <- <-. repeat split; reflexivity.
  - destruct (eu_runner ce) as [[i pc]|] eqn:Er.
    + intros H. injection H as <- <- <- <-. split; [reflexivity|]. split; [reflexivity|].
      destruct (eu_memory ce) as [m|]; [reflexivity|].
      destruct (eu_addrs ce) as [|a0 t]; reflexivity.
    + intros H. injection H as <- <- <- <-. exact I.
Qed.

(* the execute unit with no load in flight: count down, stall, issue a load, or execute *)
Lemma eu_cycle_m_idle labels regs mem pw l1d ce wbus bu ebus dt la d1 bytes e1 ebus2 dt1 act :
  eu_pending_read ce = false -> eu_memory ce = None -> sbus_can_add wbus = true ->
  (forall i pc, hd_error (q_eu ce ++ q_sb ebus) = Some (i, pc) ->
                pw_hazard pw (instr_ReadRegisters i) = false -> instr_MemoryRead i (rget regs) 0 = la) ->
  (la <> [] -> get_all l1d la [] = Ok (d1, if snd (a_get_all dt la) then Some bytes else None)) ->
  skm_eu ce ebus pw dt la = (e1, ebus2, dt1, act) ->
  match act with
  | ANone =>
      exists bu' ce1 l1d',
        eu_cycle labels (mk_env regs mem pw l1d ce wbus bu) ebus
        = inl (Ok (mk_env regs mem pw l1d' ce1 wbus bu', ebus2, eu_none)) /\
        eu_erase ce1 = e1 /\
        ((l1d' = l1d /\ dt1 = dt /\ eu_pending_read ce1 = false /\ eu_memory ce1 = eu_memory ce) \/
         (la <> [] /\ l1d' = d1 /\ dt1 = fst (a_get_all dt la) /\ eu_pending_read ce1 = true /\
          eu_memory ce1 = (if snd (a_get_all dt la) then Some bytes else eu_memory ce)))
  | AExec i pc =>
      la = [] /\ dt1 = dt /\
      exists e2, e1 = eu_done e2 /\ pw_hazard pw (instr_ReadRegisters i) = false /\
        hd_error (q_eu ce ++ q_sb ebus) = Some (i, pc) /\
        eu_cycle labels (mk_env regs mem pw l1d ce wbus bu) ebus
        = eu_post (eu_run labels (mk_env regs mem pw l1d e2 wbus (bu_assert bu i pc)) i pc []) ebus2
  | AStuck => True
  end.
Proof.
  intros Hpr Hm Hadd Hmr Hga. unfold skm_eu, eu_cycle, eu_intake, set_rem, eu_erase. cbn [e_eu e_wbus e_regs e_mem e_pw e_l1d e_bu].
  rewrite Hpr, Hadd, Hm. unfold q_eu in Hmr.
  destruct (eu_processing ce) eqn:Ep.
  - cbn [negb]. destruct (negb (eu_remaining ce - 1 =? 0)).
    + intros H. injection H as <- <- <- <-. do 3 eexists. split; [reflexivity|].
      split; [cbn; rewrite ?Hpr, ?Hm; reflexivity|]. left. auto.
    + destruct (eu_runner ce) as [[i pc]|] eqn:Er; [|intros H; injection H as <- <- <- <-; exact I].
      destruct (pw_hazard pw (instr_ReadRegisters i)) eqn:Ehz.
      * intros H. injection H as <- <- <- <-. do 3 eexists. split; [reflexivity|].
        split; [cbn; rewrite ?Hpr, ?Hm; reflexivity|]. left. auto.
      * rewrite (Hmr i pc eq_refl Ehz).
        destruct la as [|a0 la'].
        -- intros H. injection H as <- <- <- <-. split; [reflexivity|]. split; [reflexivity|].
           eexists. split; [reflexivity|]. split; [exact Ehz|]. split; [unfold q_eu; rewrite ?Ep, ?Er; reflexivity | reflexivity].
        -- rewrite (Hga ltac:(discriminate)).
           destruct (snd (a_get_all dt (a0 :: la'))); intros H; injection H as <- <- <- <-;
             do 3 eexists; (split; [reflexivity|]); (split; [cbn; rewrite ?Hpr, ?Hm; reflexivity|]);
             right; (split; [discriminate|]); auto.
  - destruct ebus as [ep ec]. unfold sbus_get. cbn [sb_current sb_pending q_sb] in *.
    destruct ec as [[i pc]|].
    + cbn [negb eu_remaining eu_runner eu_processing eu_pending_read eu_addrs eu_memory].
      fold (cyc_of i).
      destruct (negb (cyc_of i - 1 =? 0)).
      * intros H. injection H as <- <- <- <-. do 3 eexists. split; [reflexivity|].
        split; [cbn; rewrite ?Hpr, ?Hm; reflexivity|]. left. auto.
      * destruct (pw_hazard pw (instr_ReadRegisters i)) eqn:Ehz.
        -- intros H. injection H as <- <- <- <-. do 3 eexists. split; [reflexivity|].
           split; [cbn; rewrite ?Hpr, ?Hm; reflexivity|]. left. auto.
        -- rewrite (Hmr i pc eq_refl Ehz).
           destruct la as [|a0 la'].
           ++ intros H. injection H as <- <- <- <-. split; [reflexivity|]. split; [reflexivity|].
              eexists. split; [reflexivity|]. split; [exact Ehz|]. split; [unfold q_eu; rewrite ?Ep, ?Er; reflexivity | reflexivity].
           ++ rewrite (Hga ltac:(discriminate)).
              destruct (snd (a_get_all dt (a0 :: la'))); intros H; injection H as <- <- <- <-;
                do 3 eexists; (split; [reflexivity|]); (split; [cbn; rewrite ?Hpr, ?Hm; reflexivity|]);
                right; (split; [discriminate|]); auto.
    + cbn [negb]. intros H. injection H as <- <- <- <-. do 3 eexists. split; [reflexivity|].
      split; [destruct ce; cbn in *; subst; reflexivity|]. left. auto.
Qed.

(* ------------------------------------------------------------------ *)
(* executeUnit.run                                                      *)

Lemma eu_run_reg_b labels regs mem pw l1d e2 wbus bu i pc bytes exe :
  instr_Run i (rget regs) labels pc bytes 0 = Ok exe -> Return exe = false -> MemoryChange exe = false ->
  eu_run labels (mk_env regs mem pw l1d e2 wbus bu) i pc bytes =
    inl (Ok (mk_env regs mem (pw_add pw (instr_WriteRegisters i)) l1d
                    (mk_eu false (eu_pending_read e2) (eu_addrs e2) (eu_memory e2) (eu_remaining e2) (eu_runner e2))
                    (sbus_add wbus (exe, instr_WriteRegisters i)) (fst (flush_dec bu exe)),
             if snd (flush_dec bu exe) then mk_euo true (NextPc exe) false else eu_none)).
Proof.
  intros H Hr Hm. unfold eu_run. cbn [e_regs e_mem e_pw e_l1d e_eu e_wbus e_bu]. rewrite H, Hr, Hm. cbn [bind].
  unfold flush_dec. destruct (PcChange exe); [destruct (bu_should_flush bu (NextPc exe))|]; reflexivity.
Qed.

Lemma eu_run_store_hit labels regs mem pw l1d e2 wbus bu i pc bs d2 vs a0 v0 t d3 :
  instr_Run i (rget regs) labels pc [] 0 = Ok (embed (EStore bs)) ->
  get_all l1d (map fst bs) [] = Ok (d2, Some vs) ->
  sort_changes bs = (a0, v0) :: t ->
  write d2 a0 (map snd ((a0, v0) :: t)) = Ok d3 ->
  eu_run labels (mk_env regs mem pw l1d e2 wbus bu) i pc [] =
    inl (Ok (mk_env regs mem pw d3
                    (mk_eu false (eu_pending_read e2) (eu_addrs e2) (eu_memory e2) (eu_remaining e2) (eu_runner e2))
                    wbus bu, eu_none)).
Proof.
  intros H Hg Hs Hw. unfold eu_run. cbn [e_regs e_mem e_pw e_l1d e_eu e_wbus e_bu]. rewrite H.
  cbn [embed Return MemoryChange MemoryChanges]. rewrite Hg. cbn [bind]. rewrite Hs, Hw. reflexivity.
Qed.

(* ------------------------------------------------------------------ *)
(* the two halves of a load through the L1D (cf. load_block_ok)          *)

Lemma load_issue_ok c sc m ms a0 t : VInv c sc m ms ->
  forallb (in_mem ms) (a0 :: t) = true -> same_line (a0 :: t) = true ->
  exists c1 sc1,
    get_all c (a0 :: t) [] =
      Ok (c1, if snd (a_get_all (s_rec sc) (a0 :: t)) then Some (map (mget ms) (a0 :: t)) else None) /\
    VInv c1 sc1 m ms /\ s_rec sc1 = fst (a_get_all (s_rec sc) (a0 :: t)) /\
    (snd (a_get_all (s_rec sc) (a0 :: t)) = false -> forall a, In a (a0 :: t) -> view sc1 a = None).
Proof.
  intros [HD Hl Hsm Heq] Hin Hsl. set (addrs := a0 :: t) in *.
  assert (Hr : forall a, In a addrs -> 0 <= a < zlen ms).
  { intros a Ha. apply in_mem_range. rewrite forallb_forall in Hin. auto. }
  destruct (get_all_ok sc addrs c sc [] HD ltac:(auto)) as (c1 & sc1 & E1 & HD1 & Hv1 & Hr1 & Hh1).
  exists c1, sc1. rewrite <- Hh1, <- Hr1.
  assert (HV1 : VInv c1 sc1 m ms).
  { constructor; auto. intros x Hx. unfold lm. rewrite Hv1. apply (Heq x Hx). }
  split; [|split; [exact HV1|split; [reflexivity|]]].
  - rewrite E1. destruct (forallb (fun a => is_some (view sc a)) addrs) eqn:Eall; [|reflexivity].
    cbn [rev List.app]. do 3 f_equal. apply map_ext_in. intros a Ha. rewrite <- (Heq a (Hr a Ha)). unfold lm, vget.
    rewrite forallb_forall in Eall. specialize (Eall a Ha). destruct (view sc a); [reflexivity | discriminate].
  - intros Eall a Ha. rewrite Hv1. exact (all_hit_or_first_miss c sc a0 t HD Hsl Eall a Ha).
Qed.

Lemma load_complete_ok c sc m ms a0 t : VInv c sc m ms ->
  forallb (in_mem ms) (a0 :: t) = true -> same_line (a0 :: t) = true ->
  (forall a, In a (a0 :: t) -> view sc a = None) ->
  exists c3 sc3 m3,
    (ln <- fetch_cache_line m a0 ;;
     r2 <- push_line_to_l1d c m a0 ln ;;
     r3 <- get_all (fst r2) (a0 :: t) [] ;;
     match r3 with
     | (d3, Some bytes) => Ok (d3, snd r2, bytes)
     | (_, None) => Panic
     end) = Ok (c3, m3, map (mget ms) (a0 :: t)) /\
    VInv c3 sc3 m3 ms /\ s_rec sc3 = fst (a_get_all (a_fill (s_rec sc) a0) (a0 :: t)).
Proof.
  intros [HD Hl Hsm Heq] Hin Hsl Hnone. set (addrs := a0 :: t) in *.
  assert (Hr : forall a, In a addrs -> 0 <= a < zlen ms).
  { intros a Ha. apply in_mem_range. rewrite forallb_forall in Hin. auto. }
  assert (Ha0 : 0 <= a0 < zlen m).
  { unfold zlen. rewrite Hl. apply Hr. left; reflexivity. }
  assert (Hm0 : view sc a0 = None) by (apply Hnone; left; reflexivity).
  destruct (fill_ok c sc m a0 HD Ha0 ltac:(unfold zlen in *; rewrite Hl; exact Hsm) Hm0)
    as (ln & c2 & sc2 & m2 & Ef & Ep & HD2 & Hl2 & Hlm2 & Hres & Hr2).
  rewrite Ef. cbn [bind]. rewrite Ep. cbn [bind fst snd].
  destruct (get_all_ok sc2 addrs c2 sc2 [] HD2 ltac:(auto)) as (c3 & sc3 & E3 & HD3 & Hv3 & Hr3 & Hh3). rewrite E3. cbn [bind].
  assert (Hall : forallb (fun a => is_some (view sc2 a)) addrs = true).
  { apply forallb_forall. intros a Ha. pose proof (same_line_spec _ _ _ Hsl Ha) as Hq.
    specialize (Hres a ltac:(lia)). destruct (view sc2 a); [reflexivity | congruence]. }
  rewrite Hall. cbn [rev List.app].
  assert (Hlm3 : forall x, 0 <= x < zlen ms -> lm sc3 m2 x = mget ms x).
  { intros x Hx. unfold lm. rewrite Hv3. fold (lm sc2 m2 x). rewrite Hlm2 by (unfold zlen in *; rewrite Hl; exact Hx).
    auto. }
  exists c3, sc3, m2. split; [|split].
  - do 2 f_equal. apply map_ext_in. intros a Ha. rewrite <- (Hlm3 a (Hr a Ha)). unfold lm, vget. rewrite Hv3.
    rewrite forallb_forall in Hall. specialize (Hall a Ha). destruct (view sc2 a); [reflexivity | discriminate].
  - constructor; auto. congruence.
  - rewrite Hr3, Hr2. reflexivity.
Qed.

(* a store that hits (cf. store_block_ok) *)
Lemma store_hit_m c sc m ms bs a0 : VInv c sc m ms -> bs <> [] ->
  map fst bs = consec a0 (length bs) ->
  forallb (in_mem ms) (map fst bs) = true -> same_line (map fst bs) = true ->
  snd (a_get_all (s_rec sc) (map fst bs)) = true ->
  exists c1 vs v0 t c' sc',
    get_all c (map fst bs) [] = Ok (c1, Some vs) /\ sort_changes bs = (a0, v0) :: t /\
    write c1 a0 (map snd ((a0, v0) :: t)) = Ok c' /\
    VInv c' sc' m (mset_all ms bs) /\ s_rec sc' = fst (a_get_all (s_rec sc) (map fst bs)).
Proof.
  intros HV Hne Hcs Hin Hsl Hhit. pose proof HV as [HD Hl Hsm Heq].
  destruct (get_all_ok sc (map fst bs) c sc [] HD ltac:(auto)) as (c1 & sc1 & E1 & HD1 & Hv1 & Hr1 & Hh1).
  rewrite <- Hh1 in Hhit. rewrite Hhit in E1.
  assert (HV1 : VInv c1 sc1 m ms).
  { constructor; auto. intros x Hx. unfold lm. rewrite Hv1. apply (Heq x Hx). }
  assert (Hhd : exists v0 t, bs = (a0, v0) :: t).
  { destruct bs as [|[a0' v0] t]; [congruence|]. cbn [length] in Hcs. rewrite consec_S in Hcs.
    cbn [map fst] in Hcs. injection Hcs as -> _. eauto. }
  destruct Hhd as (v0 & t & Ebs).
  assert (Hhit1 : view sc1 a0 <> None).
  { rewrite Hv1. rewrite forallb_forall in Hhit. specialize (Hhit a0).
    rewrite Ebs in Hhit. cbn [map fst] in Hhit. specialize (Hhit (or_introl eq_refl)).
    destruct (view sc a0); discriminate. }
  destruct (store_hit_ok c1 sc1 m ms bs a0 HV1 Hne Hcs Hin Hsl Hhit1) as (c' & sc' & Ew & HV' & Hr').
  exists c1, (rev [] ++ map (vget sc) (map fst bs)), v0, t, c', sc'. split; [exact E1|]. split; [rewrite (sort_changes_consec bs a0 Hcs); exact Ebs|].
  split; [rewrite <- Ebs; exact Ew|]. split; [exact HV'|]. rewrite Hr', Hr1. reflexivity.
Qed.

(* ------------------------------------------------------------------ *)
(* one iteration of the Run loop, split after the execute unit          *)

Definition m4_tail (f : nat) (app : list instr) (labels : Z -> option Z) (wu : wu_t) (l1i1 : cache) (fu1 : fu_t)
           (dbus2 : sbus Z) (cycle : Z)
           (r : outcome (eu_env * sbus (instr * Z) * eu_out) + err_class) : mres :=
  match r with
  | inr e => MErr e
  | inl (Ok (env1, ebus2, o)) =>
      match wu_cycle (e_regs env1) (e_mem env1) (e_pw env1) wu (e_wbus env1) with
      | Ok (regs2, mem2, pw2, wu2, wbus2) =>
          let s2 := mk_m4 regs2 mem2 pw2 l1i1 (e_l1d env1) fu1 dbus2 ebus2 (e_eu env1) wbus2 wu2 (e_bu env1) in
          if eo_ret o then
            match m4_drain (S (S (Z.to_nat MemoryAccess * 4)%nat)) regs2 mem2 pw2 wu2 wbus2 cycle false with
            | Ok (regs3, mem3, pw3, wu3, wbus3, cycle3) =>
                m4_finish (mk_m4 regs3 mem3 pw3 l1i1 (e_l1d env1) fu1 dbus2 ebus2 (e_eu env1) wbus3 wu3 (e_bu env1)) cycle3
            | _ => MPanic
            end
          else if eo_flush o then
            match m4_drain (S (S (Z.to_nat MemoryAccess * 4)%nat)) regs2 mem2 pw2 wu2 wbus2 cycle true with
            | Ok (regs3, mem3, pw3, wu3, wbus3, cycle3) =>
                let fu3 := mk_fu (eo_pc o) (fu_remaining fu1) false false in
                m4run f app labels
                      (mk_m4 regs3 mem3 zero_pw l1i1 (e_l1d env1) fu3 sbus_empty sbus_empty (e_eu env1) sbus_empty wu3 (e_bu env1))
                      cycle3
            | _ => MPanic
            end
          else if m4_is_complete s2 then m4_finish s2 cycle
          else m4run f app labels s2 cycle
      | _ => MPanic
      end
  | inl _ => MPanic
  end.

Lemma m4run_S f app labels s cyc :
  m4run (S f) app labels s cyc =
  match fu_cycle app (s_fu s) (s_l1i s) (s_dbus s) with
  | Ok (fu1, l1i1, dbus1) =>
      match du_cycle app dbus1 (s_ebus s) with
      | Ok (dbus2, ebus1) =>
          m4_tail f app labels (s_wu s) l1i1 fu1 dbus2 (cyc + 1)
                  (eu_cycle labels (mk_env (s_regs s) (s_mem s) (s_pw s) (s_l1d s) (s_eu s) (s_wbus s) (s_bu s)) ebus1)
      | _ => MPanic
      end
  | _ => MPanic
  end.
Proof.
  cbn [m4run]. destruct (fu_cycle app (s_fu s) (s_l1i s) (s_dbus s)) as [[[fu1 l1i1] dbus1]| |]; reflexivity.
Qed.

(* the skeleton once the execute unit has executed (i, pc) *)
Definition skm_exec (a : skm) (fu1 : fu_t) (l1i1 : cache) (dbus2 : sbus Z) (ebus2 : sbus (instr * Z)) (e1 : eu_t)
           (dt1 : list Z) (i : instr) (pc : Z) (path : list event) : skm_res :=
  match path with
  | [] => MStuck
  | ev :: rest =>
      if negb (ev_pc ev =? pc) then MStuck
      else if is_ret i then match rest with [] => MFin 1 dt1 | _ :: _ => MStuck end
      else match rest with
           | [] => MStuck
           | nxt :: _ =>
               match ev_sa ev with
               | _ :: _ =>
                   if snd (a_get_all dt1 (ev_sa ev)) && (ev_pc nxt =? addS 32 pc 4) then
                     MStep (mk_skm fu1 l1i1 dbus2 ebus2 e1 (wdel (m_pw a) (m_wb a)) None
                                   (fst (a_get_all dt1 (ev_sa ev)))) rest 1
                   else MStuck
               | [] =>
                   let wr := instr_WriteRegisters i in
                   if sk_flush i pc (ev_pc nxt) then
                     MStep (mk_skm (mk_fu (ev_pc nxt) (fu_remaining fu1) false false) l1i1 sbus_empty sbus_empty
                                   e1 zero_pw None dt1) rest 2
                   else
                     MStep (mk_skm fu1 l1i1 dbus2 ebus2 e1 (wdel (pw_add (m_pw a) wr) (m_wb a)) (Some wr) dt1) rest 1
               end
           end
  end.

Lemma skm_pre_exec_eq app a path fu1 l1i1 dbus1 dbus2 ebus1 e1 ebus2 dt1 i pc :
  fu_cycle app (m_fu a) (m_l1i a) (m_dbus a) = Ok (fu1, l1i1, dbus1) ->
  du_cycle app dbus1 (m_ebus a) = Ok (dbus2, ebus1) ->
  skm_eu (m_eu a) ebus1 (m_pw a) (m_dt a) (match path with ev :: _ => ev_la ev | [] => [] end) = (e1, ebus2, dt1, AExec i pc) ->
  skm_pre app a path = skm_exec a fu1 l1i1 dbus2 ebus2 e1 dt1 i pc path.
Proof. intros Ef Ed Ee. unfold skm_pre. rewrite Ef, Ed, Ee. reflexivity. Qed.

Lemma if_false_r {A} (b : bool) (x y : A) : b = false -> (if b then y else x) = x.
Proof. intros ->. reflexivity. Qed.

Section SimM.
  Variables (app : list instr) (labels : Z -> option Z).
  Hypothesis Happ : wf_app app.
  Hypothesis Hlab : wf_labels labels.
  Let sp := map sinstr_of app.

  Definition ev_of (st : arch) (pc : Z) : event :=
    (pc,
     match nth_error sp (Z.to_nat (pc / 4)) with Some i => load_addrs i (rget (regs st)) | None => [] end,
     match nth_error sp (Z.to_nat (pc / 4)) with Some i => store_addrs i (rget (regs st)) | None => [] end).

  (* the sequential machine follows the events [path] from [st] and halts in [stf];
     every access stays inside one 64-byte line *)
  Inductive sexecm : arch -> list event -> arch -> Prop :=
  | SM_halt st pc st' : Seq.step sp labels st pc = Halt st' -> sexecm st [ev_of st pc] st'
  | SM_next st pc st' pc' rest stf :
      Seq.step sp labels st pc = Next st' pc' ->
      same_line (ev_la (ev_of st pc)) = true -> same_line (ev_sa (ev_of st pc)) = true ->
      sexecm st' (ev_of st' pc' :: rest) stf -> sexecm st (ev_of st pc :: ev_of st' pc' :: rest) stf.

  Lemma ev_of_at st pc i : nth_error app (Z.to_nat (pc / 4)) = Some i ->
    ev_of st pc = (pc, load_addrs (sinstr_of i) (rget (regs st)), store_addrs (sinstr_of i) (rget (regs st))).
  Proof. intros H. unfold ev_of, sp. rewrite (map_nth_error sinstr_of _ _ H). reflexivity. Qed.

  Lemma step_at st pc i : 0 <= pc -> nth_error app (Z.to_nat (pc / 4)) = Some i ->
    Seq.step sp labels st pc =
      let rr := rget (regs st) in
      let la := load_addrs (sinstr_of i) rr in
      if negb (forallb (in_mem (mem st)) la) then Fail EBounds else
      match exec (sinstr_of i) rr labels pc (map (mget (mem st)) la) with
      | Err e => Fail e
      | Panic => Fail EOther
      | Ok (EReg rd v) => Next (mk_arch (rset (regs st) rd v) (mem st)) (pc + 4)
      | Ok (EStore bs) =>
          if negb (forallb (in_mem (mem st)) (map fst bs)) then Fail EBounds
          else Next (mk_arch (regs st) (mset_all (mem st) bs)) (pc + 4)
      | Ok EFall => Next st (pc + 4)
      | Ok (EGoto a) => Next st a
      | Ok (ELink rd v a) => Next (mk_arch (rset (regs st) rd v) (mem st)) a
      | Ok EReturn => Halt st
      end.
  Proof.
    intros Hpc Hi. unfold Seq.step. destruct (Z.ltb_spec pc 0); [lia|].
    unfold sp. rewrite (map_nth_error sinstr_of _ _ Hi). reflexivity.
  Qed.

  Lemma store_no_load si rr pc m bs : exec si rr labels pc m = Ok (EStore bs) -> load_addrs si rr = [].
  Proof.
    destruct si; cbn [exec load_addrs]; unfold branch; intros H; try reflexivity;
      repeat match type of H with
             | context [if ?c then _ else _] => destruct c
             | context [match ?c with Some _ => _ | None => _ end] => destruct c
             end; discriminate.
  Qed.

  Lemma exec_pc_no_load si rr rr' pc m e : exec si rr labels pc m = Ok e ->
    match e with EGoto _ | ELink _ _ _ => load_addrs si rr' = [] | _ => True end.
  Proof.
    destruct si; cbn [exec load_addrs]; unfold branch; intros H;
      repeat match type of H with
             | context [if ?c then _ else _] => destruct c
             | context [match ?c with Some _ => _ | None => _ end] => destruct c
             end; try discriminate; injection H as <-; try exact I; reflexivity.
  Qed.

  (* one executed instruction: sequential step against the generated Run *)
  Lemma exec_cases_m st regs0 pc i bu :
    0 <= pc < 2147483644 -> nth_error app (Z.to_nat (pc / 4)) = Some i ->
    Forall int32 regs0 -> Forall int32 (regs st) -> Forall int8 (mem st) ->
    (forall r, In r (instr_ReadRegisters i) -> rget (regs st) r = rget regs0 r) ->
    let la := load_addrs (sinstr_of i) (rget (regs st)) in
    let bytes := map (mget (mem st)) la in
    match Seq.step sp labels st pc with
    | Halt st' => st' = st /\ is_ret i = true /\ la = [] /\ instr_Run i (rget regs0) labels pc bytes 0 = Ok (embed EReturn)
    | Next st' next =>
        is_ret i = false /\ forallb (in_mem (mem st)) la = true /\
        exists e, instr_Run i (rget regs0) labels pc bytes 0 = Ok (embed e) /\
          Forall int32 (regs st') /\ Forall int8 (mem st') /\
          (((forall bs, e <> EStore bs) /\ store_addrs (sinstr_of i) (rget (regs st)) = [] /\
            Return (embed e) = false /\ MemoryChange (embed e) = false /\
            item_ok (embed e, instr_WriteRegisters i) /\ wb_rel (embed e) (instr_WriteRegisters i) /\
            regs st' = wapply (embed e) (regs st) /\ mem st' = mem st /\
            (0 <= next -> snd (flush_dec (bu_assert bu i pc) (embed e)) = sk_flush i pc next) /\
            (sk_flush i pc next = true -> NextPc (embed e) = next) /\
            (PcChange (embed e) = true -> la = []))
           \/ (exists bs, e = EStore bs /\ la = [] /\ bs <> [] /\
                 map fst bs = store_addrs (sinstr_of i) (rget (regs st)) /\
                 forallb (in_mem (mem st)) (map fst bs) = true /\
                 regs st' = regs st /\ mem st' = mset_all (mem st) bs /\ next = pc + 4))
    | Fail _ => True
    end.
  Proof.
    intros Hpc Hi Hr0 Hrs Hm8 Hread la bytes. rewrite (step_at st pc i ltac:(lia) Hi). cbv zeta. fold la. fold bytes.
    assert (Hrr : forall r, int32 (rget regs0 r)) by (intros r; apply rget_int32; assumption).
    rewrite read_registers_exact in Hread.
    destruct (spec_reads_sound (sinstr_of i) (rget (regs st)) (rget regs0) labels pc bytes Hread) as (Hex & Hla & Hsa).
    pose proof (run_refines_spec (rget regs0) labels pc bytes 0 Hrr i (imm_ok app Happ _ _ Hi)
                  (load_addrs_mem_ok _ (rget (regs st)) (mem st) Hm8)) as Hrun.
    destruct (negb (forallb (in_mem (mem st)) la)) eqn:Ein; [exact I|]. apply negb_false_iff in Ein.
    rewrite Hex. rewrite Hrun.
    destruct (exec (sinstr_of i) (rget regs0) labels pc bytes) as [e|err|] eqn:Ee; [|exact I|exact I].
    pose proof (exec_ranges _ _ _ _ _ _ Hlab Ee) as Hrange.
    pose proof (spec_writes_sound _ _ _ _ _ _ Ee) as Hwr. rewrite <- write_registers_exact in Hwr.
    pose proof (exec_branch_class _ _ _ _ _ _ Ee) as Hcls.
    pose proof (exec_return_is_ret _ _ _ _ _ _ Ee) as Hret.
    pose proof (store_addrs_effect _ _ _ _ _ _ Ee) as Hse. rewrite <- Hsa in Hse.
    pose proof (exec_pc_no_load _ _ (rget (regs st)) _ _ _ Ee) as Hpcl. fold la in Hpcl.
    destruct (pc_next app Happ pc i ltac:(lia) Hi) as [Hpc4 _].
    assert (Hnr : forall e', e = e' -> e' <> EReturn -> is_ret i = false).
    { intros e' <- Hne. destruct (is_ret i); [|reflexivity]. exfalso. apply Hne. apply Hret. reflexivity. }
    cbn [omap].
    destruct e as [rd v|bs| |a|rd v a|].
    - (* register write *)
      split; [eapply Hnr; [reflexivity | discriminate]|]. split; [exact Ein|]. exists (EReg rd v). split; [reflexivity|].
      cbn [regs mem]. split; [apply rset_int32; assumption|]. split; [assumption|]. left.
      split; [intros bs; discriminate|]. split; [exact Hse|].
      rewrite wapply_embed. cbn [embed]. destruct (reg_pair rd v) as [r x] eqn:Erp.
      cbn [Return MemoryChange]. split; [reflexivity|]. split; [reflexivity|].
      split; [split; [reflexivity | discriminate]|].
      split. { intros _. exists rd. split; [exact Hwr|]. unfold reg_pair in Erp. cbn [Register].
               destruct (rd =? 0); injection Erp as <- _; reflexivity. }
      split; [reflexivity|]. split; [reflexivity|].
      unfold flush_dec, sk_flush. cbn [PcChange snd]. fold (uncond i). rewrite Hcls, Hpc4, Z.eqb_refl. split; [reflexivity | split; discriminate].
    - (* store *)
      destruct (negb (forallb (in_mem (mem st)) (map fst bs))) eqn:Eb2; [exact I|]. apply negb_false_iff in Eb2.
      split; [eapply Hnr; [reflexivity | discriminate]|]. split; [exact Ein|]. exists (EStore bs). split; [reflexivity|].
      cbn [regs mem]. split; [assumption|]. split; [apply mset_all_int8; assumption|]. right.
      exists bs. split; [reflexivity|].
      split; [unfold la; rewrite Hla; eapply store_no_load; exact Ee|].
      split; [eapply estore_nonempty; exact Ee|].
      split; [rewrite Hsa; eapply spec_store_addrs; exact Ee|]. auto.
    - (* fall through *)
      split; [eapply Hnr; [reflexivity | discriminate]|]. split; [exact Ein|]. exists EFall. split; [reflexivity|].
      split; [assumption|]. split; [assumption|]. left.
      split; [intros bs; discriminate|]. split; [exact Hse|].
      cbn [embed Return MemoryChange]. split; [reflexivity|]. split; [reflexivity|].
      split; [split; [reflexivity | intros _; exact Hwr]|].
      split; [intros H; discriminate H|].
      split; [reflexivity|]. split; [reflexivity|].
      unfold flush_dec, sk_flush. cbn [PcChange snd]. fold (uncond i). rewrite Hcls, Hpc4, Z.eqb_refl. split; [reflexivity | split; discriminate].
    - (* taken branch / jump *)
      split; [eapply Hnr; [reflexivity | discriminate]|]. split; [exact Ein|]. exists (EGoto a). split; [reflexivity|].
      split; [assumption|]. split; [assumption|]. left.
      split; [intros bs; discriminate|]. split; [exact Hse|].
      cbn [embed Return MemoryChange]. split; [reflexivity|]. split; [reflexivity|].
      split; [split; [reflexivity | intros _; exact Hwr]|].
      split; [intros H; discriminate H|].
      split; [reflexivity|]. split; [reflexivity|].
      split; [|split; [reflexivity | intros _; exact Hpcl]]. intros Ha.
      unfold flush_dec, sk_flush, bu_assert, bu_should_flush. cbn [PcChange NextPc]. fold (uncond i) (condbr i).
      destruct Hcls as [Hu | [Hu Hc]]; rewrite Hu; [|rewrite Hc]; cbn [bu_to_check bu_expectation negb snd orb].
      + destruct (Z.eqb_spec (-1) a); [lia | reflexivity].
      + rewrite (Z.eqb_sym a). reflexivity.
    - (* jump and link *)
      split; [eapply Hnr; [reflexivity | discriminate]|]. split; [exact Ein|]. exists (ELink rd v a). split; [reflexivity|].
      cbn [regs mem]. split; [apply rset_int32; [assumption | apply Hrange]|]. split; [assumption|]. left.
      split; [intros bs; discriminate|]. split; [exact Hse|].
      rewrite wapply_embed. cbn [embed]. destruct (reg_pair rd v) as [r x] eqn:Erp.
      cbn [Return MemoryChange]. split; [reflexivity|]. split; [reflexivity|].
      split; [split; [reflexivity | discriminate]|].
      split. { intros _. exists rd. split; [exact Hwr|]. unfold reg_pair in Erp. cbn [Register].
               destruct (rd =? 0); injection Erp as <- _; reflexivity. }
      split; [reflexivity|]. split; [reflexivity|].
      split; [|split; [reflexivity | intros _; exact Hpcl]]. intros Ha.
      unfold flush_dec, sk_flush, bu_assert, bu_should_flush. cbn [PcChange NextPc]. fold (uncond i).
      rewrite Hcls. cbn [bu_to_check bu_expectation negb snd orb].
      destruct (Z.eqb_spec (-1) a); [lia | reflexivity].
    - (* ret *)
      split; [reflexivity|]. split; [apply Hret; reflexivity|]. split; [|reflexivity].
      unfold la. destruct i; try discriminate (proj1 Hret eq_refl). reflexivity.
  Qed.

  Definition nla (path : list event) : list Z := match path with ev :: _ => ev_la ev | [] => [] end.

  (* the model state [s] is the skeleton [a] plus the values of the sequential state [st];
     [la]: the load addresses of the instruction at the head of the path *)
  Inductive RM (la : list Z) : m4state -> skm -> arch -> Prop :=
  | RM_intro a rg m l1d sc w bu cur ce st :
      VInv l1d sc m (mem st) -> s_rec sc = m_dt a ->
      Forall int32 rg -> Forall int32 (regs st) -> Forall int8 (mem st) -> (length rg <= 32)%nat ->
      cur_wr cur = m_wb a ->
      (forall x, cur = Some x -> item_ok x /\ wb_rel (fst x) (snd x)) ->
      regs st = cur_regs cur rg ->
      eu_erase ce = m_eu a ->
      (forall bytes, eu_memory ce = Some bytes -> bytes = map (mget (mem st)) la) ->
      (eu_pending_read ce = true -> eu_memory ce = None -> forall x, In x la -> view sc x = None) ->
      RM la (mk_m4 rg m (m_pw a) (m_l1i a) l1d (m_fu a) (m_dbus a) (m_ebus a) ce (mk_sbus None cur) (mk_wu false w) bu) a st.

  Lemma completem_out hev a : FInvM app hev a -> skm_complete a = true -> nlen app <= ev_pc hev / 4.
  Proof.
    intros HF Hc. unfold skm_complete in Hc. repeat (apply andb_prop in Hc as [Hc ?]).
    destruct HF as [Hh [n Hq] _ _ _ _ _ _ _ _ _ _].
    assert (Hn : qlistm a = []).
    { unfold qlistm, q_parts, q_eu, q_sb. apply negb_true_iff in H2. rewrite H2.
      unfold sbus_is_empty in H0, H1. destruct (sb_pending (m_ebus a)), (sb_current (m_ebus a)); try discriminate.
      destruct (sb_pending (m_dbus a)), (sb_current (m_dbus a)); try discriminate. reflexivity. }
    rewrite Hn in Hq. destruct Hq as [Hq _ Hend _ _]. destruct n; [|discriminate].
    specialize (Hend Hc). replace (ev_pc hev + 4 * Z.of_nat 0) with (ev_pc hev) in Hend by lia. exact Hend.
  Qed.

  Lemma m_complete_agree rg m pw pw' l1i l1d fu dbus ebus ce w bu dt :
    m4_is_complete (mk_m4 rg m pw l1i l1d fu dbus ebus ce (mk_sbus None None) (mk_wu false w) bu)
    = skm_complete (mk_skm fu l1i dbus ebus (eu_erase ce) pw' None dt).
  Proof.
    unfold m4_is_complete, skm_complete.
    cbn [s_fu s_eu s_wu s_dbus s_ebus s_wbus m_fu m_eu m_dbus m_ebus m_wb wu_pending eu_erase eu_processing].
    destruct (fu_complete fu), (eu_processing ce), (sbus_is_empty dbus), (sbus_is_empty ebus); reflexivity.
  Qed.

  Lemma sexecm_head st hev rest stf : sexecm st (hev :: rest) stf -> hev = ev_of st (ev_pc hev) /\ 0 <= ev_pc hev.
  Proof.
    intros H. assert (Hs : exists pc r, hev = ev_of st pc /\ Seq.step sp labels st pc = r /\ match r with Fail _ => False | _ => True end).
    { inversion H; subst; do 2 eexists; (split; [reflexivity|]); (split; [eassumption | exact I]). }
    destruct Hs as (pc & r & -> & Hs & Hr). cbn [ev_pc ev_of fst]. split; [reflexivity|].
    unfold Seq.step in Hs. destruct (Z.ltb_spec pc 0); [subst r; contradiction | assumption].
  Qed.

  Lemma step_out_m st pc : 0 <= pc -> nlen app <= pc / 4 -> Seq.step sp labels st pc = Halt st.
  Proof.
    intros Hpc Hout. unfold Seq.step. destruct (Z.ltb_spec pc 0); [lia|].
    assert (Hn : nth_error sp (Z.to_nat (pc / 4)) = None).
    { apply nth_error_None. unfold sp. rewrite map_length. unfold nlen in Hout. lia. }
    rewrite Hn. reflexivity.
  Qed.

  Lemma sexecm_out st hev rest stf : sexecm st (hev :: rest) stf -> nlen app <= ev_pc hev / 4 -> stf = st /\ rest = [].
  Proof.
    intros H Hout. destruct (sexecm_head _ _ _ _ H) as [He Hpc].
    pose proof (step_out_m st (ev_pc hev) Hpc Hout) as Hst.
    inversion H as [? pc ? Hs|? pc ? ? ? ? Hs]; subst; cbn [ev_pc ev_of fst] in *; rewrite Hst in Hs;
      [injection Hs as <-; auto | discriminate].
  Qed.

  Lemma sim_exec f a hev rest st stf fu1 l1i1 dbus2 ebus2 cyc w rg m' d' sc' e2 cur bu i bytes :
    VInv d' sc' m' (mem st) ->
    Forall int32 rg -> Forall int32 (regs st) -> Forall int8 (mem st) -> (length rg <= 32)%nat ->
    cur_wr cur = m_wb a ->
    (forall x, cur = Some x -> item_ok x /\ wb_rel (fst x) (snd x)) ->
    regs st = cur_regs cur rg ->
    (forall r, In r (instr_ReadRegisters i) -> rget (regs st) r = rget rg r) ->
    0 <= ev_pc hev < 2147483644 -> nth_error app (Z.to_nat (ev_pc hev / 4)) = Some i ->
    bytes = map (mget (mem st)) (ev_la hev) ->
    eu_memory e2 = None -> eu_pending_read e2 = false ->
    (ev_la hev = [] -> exists bu0, bu = bu_assert bu0 i (ev_pc hev)) ->
    sexecm st (hev :: rest) stf ->
    snd (a_get_all (s_rec sc') (ev_sa hev)) = true ->
    match skm_exec a fu1 l1i1 dbus2 ebus2 (eu_done e2) (s_rec sc') i (ev_pc hev) (hev :: rest) with
    | MStuck => True
    | MFin dc dt =>
        m4_tail f app labels (mk_wu false w) l1i1 fu1 dbus2 (cyc + 1)
                (eu_post (eu_run labels (mk_env rg m' (m_pw a) d' e2 (mk_sbus None cur) bu) i (ev_pc hev) bytes) ebus2)
        = MDone (cyc + dc + MemoryAccess * zlen dt) stf
    | MStep a' path' dc =>
        exists s' st',
          m4_tail f app labels (mk_wu false w) l1i1 fu1 dbus2 (cyc + 1)
                  (eu_post (eu_run labels (mk_env rg m' (m_pw a) d' e2 (mk_sbus None cur) bu) i (ev_pc hev) bytes) ebus2)
          = (if m4_is_complete s' then m4_finish s' (cyc + dc) else m4run f app labels s' (cyc + dc)) /\
          m4_is_complete s' = skm_complete a' /\ RM (nla path') s' a' st' /\ sexecm st' path' stf
    end.
  Proof.
    intros HV Hri Hsi Hm8 Hlen Hcw Hitem Hregs Hread Hh Hi Hbytes Hem Hepr Hbu HS Hsh.
    assert (Hitem1 : forall x, cur = Some x -> item_ok x) by (intros x Hx; apply Hitem; exact Hx).
    assert (Hbu' : exists bu0, ev_la hev = [] -> bu = bu_assert bu0 i (ev_pc hev)).
    { destruct (ev_la hev) as [|x l]; [destruct (Hbu eq_refl) as [b Hb]; exists b; auto | exists bu; discriminate]. }
    clear Hbu. destruct Hbu' as [bu0 Hbu].
    destruct (sexecm_head _ _ _ _ HS) as [Hev _].
    pose proof (ev_of_at st (ev_pc hev) i Hi) as Hevi. rewrite <- Hev in Hevi.
    assert (Hla : ev_la hev = load_addrs (sinstr_of i) (rget (regs st))) by (rewrite Hevi; reflexivity).
    assert (Hsa : ev_sa hev = store_addrs (sinstr_of i) (rget (regs st))) by (rewrite Hevi; reflexivity).
    pose proof (exec_cases_m st rg (ev_pc hev) i bu0 Hh Hi Hri Hsi Hm8 Hread) as Hcases. cbv zeta in Hcases.
    rewrite <- Hla, <- Hbytes in Hcases.
    assert (Heud : eu_erase (eu_done e2) = eu_done e2) by (apply eu_erase_id; exact Hem).
    assert (Hflush : flush_lines (lines d') m' 0 = Ok (mem st, MemoryAccess * zlen (s_rec sc'))) by (apply flush_ok; exact HV).
    unfold skm_exec. rewrite Z.eqb_refl. cbn [negb].
    inversion HS as [? pc0 ? Hs Hp|? pc0 st' pc' rest' ? Hs Hsl1 Hsl2 HS' Hp]; subst.
    - (* the run halts here: ret *)
      cbn [ev_pc ev_of fst] in Hcases. rewrite Hs in Hcases. destruct Hcases as (-> & Hret & Hl0 & Hrun). rewrite Hret.
      rewrite Hl0 in Hrun |- *. cbn [map] in Hrun |- *.
      rewrite eu_run_ret by exact Hrun.
      cbn [eu_post m4_tail e_regs e_mem e_pw e_l1d e_eu e_wbus e_bu eo_ret eo_flush].
      rewrite (wu_cycle_reg rg m' (m_pw a) w None cur Hitem1).
      rewrite drain_empty. unfold m4_finish. cbn [s_l1d s_mem s_regs]. rewrite Hflush.
      rewrite <- Hregs. destruct st as [r0 m0]; cbn [Seq.regs Seq.mem]. f_equal.
    - (* an instruction with a successor *)
      set (hev := ev_of st pc0) in *. set (nxt := ev_of st' pc') in *.
      cbn [ev_pc ev_of fst] in Hcases. fold hev in Hcases.
      change (ev_pc hev) with pc0 in *. rewrite Hs in Hcases.
      destruct Hcases as (Hret & Hin & e & Hrun & Hsi' & Hm8' & Hcase). rewrite Hret.
      assert (Hnext : 0 <= pc') by (destruct (sexecm_head _ _ _ _ HS') as [_ Hx]; exact Hx).
      change (ev_pc nxt) with pc'.
      destruct Hcase as [(Hns & Hsa0 & Hr & Hm & Hit & Hrel & Hregs' & Hmem' & Hfl & Hnpc & Hpcl)
                        | (bs & -> & Hl0 & Hne & Hfst & Hinb & Hregs' & Hmem' & ->)].
      + (* not a store *)
        rewrite Hsa, Hsa0.
        rewrite (eu_run_reg_b _ _ _ _ _ _ _ _ _ _ _ _ Hrun Hr Hm).
        specialize (Hfl Hnext).
        assert (Hfl' : snd (flush_dec bu (embed e)) = sk_flush i pc0 pc').
        { rewrite <- Hfl. destruct (PcChange (embed e)) eqn:Epc.
          - rewrite (Hbu (Hpcl eq_refl)). reflexivity.
          - unfold flush_dec. rewrite Epc. reflexivity. }
        clear Hfl. rename Hfl' into Hfl.
        cbn [eu_post m4_tail e_regs e_mem e_pw e_l1d e_eu e_wbus e_bu]. rewrite sbus_add_mk.
        rewrite (wu_cycle_reg rg m' _ w _ cur Hitem1). rewrite Hfl.
        destruct (sk_flush i pc0 pc') eqn:Esf.
        * cbn [eo_ret eo_flush eo_pc].
          rewrite (drain_one _ _ _ _ w _ _ true Hit). cbn [fst snd]. rewrite (Hnpc eq_refl).
          eexists _, st'. split; [|split; [|split; [|exact HS']]].
          -- replace (cyc + 2) with (cyc + 1 + 1) by lia. symmetry. apply if_false_r. reflexivity.
          -- reflexivity.
          -- cbn [nla]. fold nxt.
             apply (RM_intro (ev_la nxt)
                      (mk_skm (mk_fu pc' (fu_remaining fu1) false false) l1i1 sbus_empty sbus_empty (eu_done e2) zero_pw None (s_rec sc'))
                      (wapply (embed e) (cur_regs cur rg)) m' d' sc' w _ None (eu_done e2) st'); auto; try discriminate;
               try solve [intros b Hb; cbn in Hb; rewrite Hem in Hb; discriminate];
               try solve [intros Hp; cbn in Hp; rewrite Hepr in Hp; discriminate].
             ++ rewrite Hmem'. exact HV.
             ++ rewrite <- Hregs, <- Hregs'. exact Hsi'.
             ++ rewrite wapply_length, cur_regs_length. exact Hlen.
             ++ cbn [cur_regs]. rewrite <- Hregs. exact Hregs'.
        * cbn [eo_ret eo_flush].
          eexists _, st'. split; [reflexivity|]. split; [|split; [|exact HS']].
          -- rewrite complete_false. unfold skm_complete. cbn [m_wb]. rewrite andb_false_r. reflexivity.
          -- cbn [nla]. fold nxt. rewrite Hcw.
             apply (RM_intro (ev_la nxt)
                      (mk_skm fu1 l1i1 dbus2 ebus2 (eu_done e2) (wdel (pw_add (m_pw a) (instr_WriteRegisters i)) (m_wb a))
                              (Some (instr_WriteRegisters i)) (s_rec sc'))
                      (cur_regs cur rg) m' d' sc' w _ (Some (embed e, instr_WriteRegisters i)) (eu_done e2) st'); auto; try discriminate;
               try solve [intros b Hb; cbn in Hb; rewrite Hem in Hb; discriminate];
               try solve [intros Hp; cbn in Hp; rewrite Hepr in Hp; discriminate].
             ++ rewrite Hmem'. exact HV.
             ++ rewrite <- Hregs. exact Hsi.
             ++ rewrite cur_regs_length. exact Hlen.
             ++ intros x Hx. injection Hx as <-. split; assumption.
             ++ cbn [cur_regs]. rewrite <- Hregs. exact Hregs'.
      + (* a store that hits in the L1D *)
        rewrite Hsa in Hsh, Hsl2 |- *. rewrite <- Hfst in Hsh, Hsl2 |- *.
        assert (Hcs : map fst bs = consec (hd 0 (map fst bs)) (length bs)).
        { rewrite <- (map_length fst bs). rewrite Hfst.
          apply (store_addrs_consec _ _ (mem st)); [rewrite <- Hfst; exact Hinb | exact (v_small _ _ _ _ HV)]. }
        destruct (store_hit_m d' sc' m' (mem st) bs _ HV Hne Hcs Hinb Hsl2 Hsh)
          as (c1 & vs & v0 & t & c' & sc3 & Eg & Es & Ew & HV3 & Hr3).
        destruct (map fst bs) as [|s0 sa'] eqn:Emf; [destruct bs; [congruence | discriminate]|].
        rewrite Hsh. destruct (pc_next app Happ pc0 i ltac:(lia) Hi) as [Hpc4 _]. rewrite Hpc4, Z.eqb_refl. cbn [andb].
        assert (Hbytes0 : map (mget (mem st)) (ev_la hev) = []) by (rewrite Hl0; reflexivity).
        rewrite Hbytes0 in Hrun |- *.
        rewrite <- Emf in Eg.
        rewrite (eu_run_store_hit _ _ _ _ _ _ _ _ _ _ _ _ _ _ _ _ _ Hrun Eg Es Ew).
        cbn [eu_post m4_tail e_regs e_mem e_pw e_l1d e_eu e_wbus e_bu eu_none eo_ret eo_flush].
        rewrite (wu_cycle_reg rg m' (m_pw a) w None cur Hitem1).
        eexists _, st'. split; [reflexivity|]. split; [|split; [|exact HS']].
        * rewrite (m_complete_agree _ _ _ (wdel (m_pw a) (m_wb a)) _ _ _ _ _ _ _ _ (fst (a_get_all (s_rec sc') (s0 :: sa')))).
          unfold skm_complete, eu_erase, clear_runner, eu_done. cbn [m_fu m_eu m_dbus m_ebus m_wb eu_processing]. reflexivity.
        * cbn [nla]. fold nxt. rewrite Hcw.
          apply (RM_intro (ev_la nxt)
                   (mk_skm fu1 l1i1 dbus2 ebus2 (eu_done e2) (wdel (m_pw a) (m_wb a)) None (fst (a_get_all (s_rec sc') (s0 :: sa'))))
                   (cur_regs cur rg) m' c' sc3 w bu None (eu_done e2) st'); auto; try discriminate;
               try solve [intros b Hb; cbn in Hb; rewrite Hem in Hb; discriminate];
               try solve [intros Hp; cbn in Hp; rewrite Hepr in Hp; discriminate].
          -- rewrite Hmem'. exact HV3.
          -- rewrite <- Hregs. exact Hsi.
          -- rewrite cur_regs_length. exact Hlen.
          -- rewrite Hregs'. exact Hregs.
  Qed.

  Lemma load_not_ret si rr rr' pc m : load_addrs si rr <> [] -> exec si rr' labels pc m <> Ok EReturn.
  Proof. destruct si; cbn [load_addrs exec]; unfold branch; intros H; try congruence; try discriminate;
           repeat match goal with
                  | |- context [if ?c then _ else _] => destruct c
                  | |- context [match labels ?l with Some _ => _ | None => _ end] => destruct (labels l)
                  end; discriminate. Qed.

  Lemma sexecm_loads st hev rest stf : sexecm st (hev :: rest) stf -> ev_la hev <> [] ->
    forallb (in_mem (mem st)) (ev_la hev) = true /\ same_line (ev_la hev) = true.
  Proof.
    intros H Hla.
    assert (Hs : exists pc r, hev = ev_of st pc /\ Seq.step sp labels st pc = r /\
                 match r with Fail _ => False | Halt _ => True | Next _ _ => same_line (ev_la hev) = true end).
    { inversion H; subst; do 2 eexists; (split; [reflexivity|]); (split; [eassumption|]); [exact I | assumption]. }
    destruct Hs as (pc & r & -> & Hs & Hr). unfold ev_of, ev_la in *. cbn [fst snd] in *.
    unfold Seq.step in Hs. destruct (pc <? 0); [subst r; contradiction|].
    destruct (nth_error sp (Z.to_nat (pc / 4))) as [si|]; [|congruence].
    destruct (negb (forallb (in_mem (mem st)) (load_addrs si (rget (regs st))))) eqn:Ein; [subst r; contradiction|].
    apply negb_false_iff in Ein. split; [exact Ein|].
    destruct r as [st' pc'|st'|e]; [exact Hr| |contradiction]. exfalso.
    pose proof (load_not_ret si (rget (regs st)) (rget (regs st)) pc (map (mget (mem st)) (load_addrs si (rget (regs st)))) Hla) as Hnr.
    destruct (exec si (rget (regs st)) labels pc (map (mget (mem st)) (load_addrs si (rget (regs st))))) as [e| |]; try discriminate.
    destruct e; try discriminate; try congruence. destruct (negb _); discriminate.
  Qed.

  Lemma erase_mem_none ce : eu_memory (eu_erase ce) = None -> eu_memory ce = None.
  Proof. unfold eu_erase. cbn [eu_memory]. destruct (eu_memory ce); [discriminate | reflexivity]. Qed.

  Lemma reads_agree_g pw wb rg cur st i :
    (length rg <= 32)%nat -> cur_wr cur = wb -> pw = pwof wb ->
    (forall x, cur = Some x -> item_ok x /\ wb_rel (fst x) (snd x)) ->
    regs st = cur_regs cur rg ->
    pw_hazard pw (instr_ReadRegisters i) = false ->
    forall r, In r (instr_ReadRegisters i) -> rget (regs st) r = rget rg r.
  Proof.
    intros Hlen Hcw Hpw Hitem Hregs Hhz r Hr. rewrite Hregs.
    destruct cur as [[exe wr]|]; [|reflexivity]. cbn [cur_regs].
    destruct (Hitem _ eq_refl) as [_ Hrel]. cbn [fst snd] in Hrel.
    apply (rget_wapply rg exe wr r Hlen Hrel).
    cbn [cur_wr option_map snd] in Hcw. rewrite Hcw, <- Hpw. eapply pw_hazard_false; eassumption.
  Qed.

  Lemma sim_pre f a hev rest cyc s st stf :
    RM (ev_la hev) s a st -> FInvM app hev a -> sh_inv a (hev :: rest) -> sexecm st (hev :: rest) stf ->
    match skm_pre app a (hev :: rest) with
    | MStuck => True
    | MFin dc dt => m4run (S f) app labels s cyc = MDone (cyc + dc + MemoryAccess * zlen dt) stf
    | MStep a' path' dc =>
        exists s' st',
          m4run (S f) app labels s cyc
          = (if m4_is_complete s' then m4_finish s' (cyc + dc) else m4run f app labels s' (cyc + dc)) /\
          m4_is_complete s' = skm_complete a' /\ RM (nla path') s' a' st' /\ sexecm st' path' stf
    end.
  Proof.
    intros HR HF Hsh HS.
    destruct HR as [a rg m l1d sc w bu cur ce st HV Hdt Hri Hsi Hm8 Hlen Hcw Hitem Hregs Hce Hbytes Hunc].
    pose proof HF as [Hh _ _ _ _ Hpr Hmem Hmiss _ Hpw Hwb _].
    assert (Hitem1 : forall x, cur = Some x -> item_ok x) by (intros x Hx; apply Hitem; exact Hx).
    rewrite m4run_S. cbn [s_fu s_l1i s_dbus s_ebus s_regs s_mem s_pw s_l1d s_eu s_wbus s_bu s_wu].
    destruct (fu_cycle app (m_fu a) (m_l1i a) (m_dbus a)) as [[[fu1 l1i1] dbus1]| |] eqn:Ef;
      [|unfold skm_pre; rewrite Ef; exact I|unfold skm_pre; rewrite Ef; exact I].
    destruct (du_cycle app dbus1 (m_ebus a)) as [[dbus2 ebus1]| |] eqn:Ed;
      [|unfold skm_pre; rewrite Ef, Ed; exact I|unfold skm_pre; rewrite Ef, Ed; exact I].
    destruct (skm_eu (m_eu a) ebus1 (m_pw a) (m_dt a) (ev_la hev)) as [[[e1 ebus2] dt1] act] eqn:Ee.
    destruct (frontm_flow app Happ hev a _ _ _ _ _ _ _ _ _ HF Ef Ed Ee)
      as (_ & _ & Hns & [n' Hq'] & Hent' & (Heu1 & Hpp1 & Hmem1) & Hmiss1 & Hex).
    cbn [sh_inv] in Hsh. rewrite dt_after_load_dtal in Hsh. destruct Hsh as [Hsh1 _].
    destruct (eu_pending_read ce) eqn:Epr.
    - (* a load is in flight *)
      assert (Hprs : eu_pending_read (m_eu a) = true) by (rewrite <- Hce; exact Epr).
      destruct (Hpr Hprs) as [_ Hwb0].
      assert (Hcur : cur = None) by (rewrite Hwb0 in Hcw; destruct cur; [discriminate | reflexivity]).
      assert (Hregs0 : regs st = rg) by (rewrite Hregs, Hcur; reflexivity).
      destruct (Hmiss Hprs) as [Hlane Haddrs].
      destruct (sexecm_loads _ _ _ _ HS Hlane) as [Hin Hsl].
      rewrite <- Hce in Ee.
      pose proof (eu_cycle_m_pending labels rg m (m_pw a) l1d ce (mk_sbus None cur) bu ebus1 (m_dt a) (ev_la hev) e1 ebus2 dt1 act Epr Ee) as Heu.
      rewrite Hce in Ee.
      destruct act as [|i pc|]; [| |congruence].
      + (* still waiting *)
        destruct Heu as (Eeu & -> & -> & ->). rewrite Eeu.
        rewrite (skm_pre_none app hev rest a _ _ _ _ _ _ _ _ Ef Ed Ee).
        cbn [m4_tail e_regs e_mem e_pw e_l1d e_eu e_wbus e_bu eu_none eo_ret eo_flush].
        rewrite (wu_cycle_reg rg m (m_pw a) w None cur Hitem1). rewrite Hcw.
        eexists _, st. split; [reflexivity|]. split; [|split; [|exact HS]].
        * unfold after_nonem. apply m_complete_agree.
        * cbn [nla].
          apply (RM_intro (ev_la hev) (after_nonem a fu1 l1i1 dbus2 ebus1 (eu_erase (wait_eu ce)) (m_dt a)) (cur_regs cur rg) m l1d sc w bu None (wait_eu ce) st); auto;
            try discriminate; rewrite ?Hcur; cbn [cur_regs]; auto.
      + (* the load completes and the instruction is executed *)
        destruct Heu as (-> & -> & Eeu). rewrite Eeu.
        destruct Hex as (_ & _ & Hdt1).
        cbn [act_q map snd List.app] in Hq', Hent'.
        destruct (fq_head app _ _ _ _ _ Hq') as (-> & mm & ->).
        inversion Hent' as [|x l [_ Hi] _]; subst x l. cbn [fst snd] in Hi.
        rewrite (skm_pre_exec_eq app a (hev :: rest) _ _ _ _ _ _ _ _ _ _ Ef Ed Ee).
        set (e2 := mk_eu (eu_processing ce) false (eu_addrs ce) None (eu_remaining ce - 1) (eu_runner ce)).
        assert (Hgot : exists d' sc' m', load_got l1d m ce = Ok (d', m', map (mget (mem st)) (ev_la hev)) /\
                         VInv d' sc' m' (mem st) /\ s_rec sc' = dt1).
        { unfold load_got. rewrite Hdt1. unfold dtal. rewrite Hprs.
          assert (Hme : eu_memory (m_eu a) = option_map (fun _ => []) (eu_memory ce)) by (rewrite <- Hce; reflexivity).
          rewrite Hme. destruct (eu_memory ce) as [bytes|] eqn:Em.
          - exists l1d, sc, m. rewrite (Hbytes bytes eq_refl). cbn [option_map]. auto.
          - cbn [option_map].
            assert (Ha : eu_addrs ce = ev_la hev) by (rewrite <- Haddrs; [rewrite <- Hce; reflexivity | rewrite Hme; reflexivity]).
            rewrite Ha. destruct (ev_la hev) as [|a0 t] eqn:Ela; [congruence|].
            destruct (load_complete_ok l1d sc m (mem st) a0 t HV Hin Hsl (Hunc eq_refl eq_refl)) as (c3 & sc3 & m3 & E3 & HV3 & Hr3).
            exists c3, sc3, m3. split; [exact E3|]. split; [exact HV3|]. rewrite Hr3, Hdt. reflexivity. }
        destruct Hgot as (d' & sc' & m' & -> & HV' & Hdt').
        rewrite <- Hdt1 in Hsh1. rewrite <- Hdt' in Hsh1 |- *.
        replace (eu_done (mk_eu (eu_processing (eu_erase ce)) false (eu_addrs (eu_erase ce)) None (eu_remaining (eu_erase ce) - 1) (eu_runner (eu_erase ce))))
          with (eu_done e2) by reflexivity.
        rewrite Hcur. rewrite Hcur in Hcw.
        apply (sim_exec f a hev rest st stf fu1 l1i1 dbus2 ebus1 cyc w rg m' d' sc' e2 None bu i _ HV' Hri Hsi Hm8 Hlen);
          auto; try discriminate.
        * intros r _. rewrite Hregs0. reflexivity.
        * intros H0. congruence.
    - (* no load in flight *)
      assert (Hprs : eu_pending_read (m_eu a) = false) by (rewrite <- Hce; exact Epr).
      assert (Hmc : eu_memory ce = None) by (apply erase_mem_none; rewrite Hce; apply Hmem; exact Hprs).
      assert (Hcee : m_eu a = ce) by (rewrite <- Hce; apply eu_erase_id; exact Hmc).
      destruct (sexecm_head _ _ _ _ HS) as [Hev _].
      assert (Hmr : forall i pc, hd_error (q_eu ce ++ q_sb ebus1) = Some (i, pc) ->
                pw_hazard (m_pw a) (instr_ReadRegisters i) = false -> instr_MemoryRead i (rget rg) 0 = ev_la hev).
      { intros i pc Hhd Hhz. rewrite <- Hcee in Hhd.
        destruct (head_entry app Happ hev a _ _ _ _ _ i pc HF Ef Ed Hhd) as [-> Hi].
        rewrite memory_read_exact.
        pose proof (reads_agree_g (m_pw a) (m_wb a) rg cur st i Hlen Hcw Hpw Hitem Hregs Hhz) as Hread.
        rewrite read_registers_exact in Hread.
        destruct (spec_reads_sound (sinstr_of i) (rget (regs st)) (rget rg) labels 0 [] Hread) as (_ & Hla & _).
        rewrite <- Hla. rewrite Hev, (ev_of_at st (ev_pc hev) i Hi). reflexivity. }
      assert (Hga : exists d1 sc1 bytes, ev_la hev <> [] ->
                get_all l1d (ev_la hev) [] = Ok (d1, if snd (a_get_all (m_dt a) (ev_la hev)) then Some bytes else None) /\
                VInv d1 sc1 m (mem st) /\ s_rec sc1 = fst (a_get_all (m_dt a) (ev_la hev)) /\
                bytes = map (mget (mem st)) (ev_la hev) /\
                (snd (a_get_all (m_dt a) (ev_la hev)) = false -> forall x, In x (ev_la hev) -> view sc1 x = None)).
      { destruct (ev_la hev) as [|a0 t] eqn:Ela.
        - exists l1d, sc, []. intros H0. congruence.
        - destruct (sexecm_loads _ _ _ _ HS ltac:(rewrite Ela; discriminate)) as [Hin Hsl]. rewrite Ela in Hin, Hsl.
          destruct (load_issue_ok l1d sc m (mem st) a0 t HV Hin Hsl) as (c1 & sc1 & Eg & HV1 & Hr1 & Hu).
          rewrite Hdt in Eg, Hr1, Hu. exists c1, sc1, (map (mget (mem st)) (a0 :: t)). intros _. auto. }
      destruct Hga as (d1 & sc1 & bytes & Hga).
      rewrite Hcee in Ee.
      pose proof (eu_cycle_m_idle labels rg m (m_pw a) l1d ce (mk_sbus None cur) bu ebus1 (m_dt a) (ev_la hev) d1 bytes
                    e1 ebus2 dt1 act Epr Hmc eq_refl Hmr (fun H0 => proj1 (Hga H0)) Ee) as Heu.
      rewrite <- Hcee in Ee.
      destruct act as [|i pc|]; [| |congruence].
      + (* nothing executed *)
        destruct Heu as (bu' & ce1 & l1d' & Eeu & Her & Hcase). rewrite Eeu.
        rewrite (skm_pre_none app hev rest a _ _ _ _ _ _ _ _ Ef Ed Ee).
        cbn [m4_tail e_regs e_mem e_pw e_l1d e_eu e_wbus e_bu eu_none eo_ret eo_flush].
        rewrite (wu_cycle_reg rg m (m_pw a) w None cur Hitem1). rewrite Hcw.
        eexists _, st. split; [reflexivity|]. split; [|split; [|exact HS]].
        * unfold after_nonem. rewrite <- Her. apply m_complete_agree.
        * cbn [nla]. destruct Hcase as [(-> & -> & Hp1 & Hm1) | (Hlane & -> & -> & Hp1 & Hm1)].
          -- apply (RM_intro (ev_la hev) (after_nonem a fu1 l1i1 dbus2 ebus2 e1 (m_dt a)) (cur_regs cur rg) m l1d sc w bu' None ce1 st);
               auto; try discriminate.
             ++ rewrite <- Hregs. exact Hsi.
             ++ rewrite cur_regs_length. exact Hlen.
             ++ intros b Hb. rewrite Hm1, Hmc in Hb. discriminate.
             ++ intros Hp. rewrite Hp1 in Hp. discriminate.
          -- destruct (Hga Hlane) as (_ & HV1 & Hr1 & Hb & Hu).
             apply (RM_intro (ev_la hev) (after_nonem a fu1 l1i1 dbus2 ebus2 e1 (fst (a_get_all (m_dt a) (ev_la hev))))
                      (cur_regs cur rg) m d1 sc1 w bu' None ce1 st); auto; try discriminate.
             ++ rewrite <- Hregs. exact Hsi.
             ++ rewrite cur_regs_length. exact Hlen.
             ++ intros b Hb'. rewrite Hm1 in Hb'. destruct (snd (a_get_all (m_dt a) (ev_la hev)));
                  [injection Hb' as <-; exact Hb | rewrite Hmc in Hb'; discriminate].
             ++ intros _ Hn. apply Hu. rewrite Hm1 in Hn. destruct (snd (a_get_all (m_dt a) (ev_la hev))); [discriminate | reflexivity].
      + (* (i, pc) is executed directly: it does not load *)
        destruct Heu as (Hla0 & -> & e2 & -> & Hhz & Hhd & Eeu). rewrite Eeu.
        rewrite <- Hcee in Hhd. destruct (head_entry app Happ hev a _ _ _ _ _ i pc HF Ef Ed Hhd) as [-> Hi].
        rewrite (skm_pre_exec_eq app a (hev :: rest) _ _ _ _ _ _ _ _ _ _ Ef Ed Ee).
        destruct Hex as (_ & Hpe & _). rewrite <- Hdt. rewrite <- Hdt in Hsh1.
        assert (Hme2 : eu_memory e2 = None) by (apply (Hmem1 Hpe)).
        apply (sim_exec f a hev rest st stf fu1 l1i1 dbus2 ebus2 cyc w rg m l1d sc e2 cur (bu_assert bu i (ev_pc hev)) i []
                 HV Hri Hsi Hm8 Hlen Hcw Hitem Hregs); auto.
        * apply (reads_agree_g (m_pw a) (m_wb a) rg cur st i Hlen Hcw Hpw Hitem Hregs Hhz).
        * rewrite Hla0. reflexivity.
        * intros _. exists bu. reflexivity.
        * rewrite <- Hsh1. unfold dtal. rewrite Hprs, Hla0. reflexivity.
  Qed.


  Lemma finish_m la s a st hev rest stf cyc :
    RM la s a st -> FInvM app hev a -> skm_complete a = true -> sexecm st (hev :: rest) stf ->
    m4_finish s cyc = MDone (cyc + MemoryAccess * zlen (m_dt a)) stf.
  Proof.
    intros HR HF Hc HS.
    destruct HR as [a rg m l1d sc w bu cur ce st HV Hdt Hri Hsi Hm8 Hlen Hcw Hitem Hregs Hce Hbytes Hunc].
    pose proof (completem_out hev a HF Hc) as Hout.
    destruct (sexecm_out _ _ _ _ HS Hout) as [-> _].
    unfold m4_finish. cbn [s_l1d s_mem s_regs]. rewrite (flush_ok _ _ _ _ HV), Hdt.
    assert (Hcur : cur = None).
    { unfold skm_complete in Hc. destruct (m_wb a) eqn:Ew; [rewrite andb_false_r in Hc; discriminate|].
      destruct cur; [discriminate | reflexivity]. }
    rewrite Hcur in Hregs. cbn [cur_regs] in Hregs. rewrite <- Hregs. destruct st; reflexivity.
  Qed.

  Lemma sim_step_m f a hev rest cyc s st stf :
    RM (ev_la hev) s a st -> FInvM app hev a -> evs_wf app (hev :: rest) -> sh_inv a (hev :: rest) ->
    sexecm st (hev :: rest) stf ->
    match skm_cycle app a (hev :: rest) with
    | MStuck => True
    | MFin dc dt => m4run (S f) app labels s cyc = MDone (cyc + dc + MemoryAccess * zlen dt) stf
    | MStep a' path' dc =>
        exists s' st', m4run (S f) app labels s cyc = m4run f app labels s' (cyc + dc) /\
                       RM (nla path') s' a' st' /\ sexecm st' path' stf
    end.
  Proof.
    intros HR HF Hwf Hsh HS. pose proof (sim_pre f a hev rest cyc s st stf HR HF Hsh HS) as Hpre.
    unfold skm_cycle. destruct (skm_pre app a (hev :: rest)) as [a2 p dc|dc dt|] eqn:Ep; [|exact Hpre|exact I].
    destruct Hpre as (s' & st' & E & Hc & HR' & HS').
    destruct (finvm_step app Happ hev rest a a2 p dc HF Hwf Hsh Ep) as (hev' & rest' & -> & HF' & _).
    rewrite E, Hc. destruct (skm_complete a2) eqn:Ec.
    - apply (finish_m _ _ _ _ hev' rest' _ _ HR' HF' Ec HS').
    - eexists _, st'. split; [reflexivity|]. split; assumption.
  Qed.

  Lemma sim_run_m : forall fuel a hev rest cyc s st stf c,
    RM (ev_la hev) s a st -> FInvM app hev a -> evs_wf app (hev :: rest) -> sh_inv a (hev :: rest) ->
    sexecm st (hev :: rest) stf ->
    skm_run fuel app a (hev :: rest) cyc = Some c ->
    m4run fuel app labels s cyc = MDone c stf.
  Proof.
    induction fuel as [|f IH]; intros a hev rest cyc s st stf c HR HF Hwf Hsh HS H; [discriminate|].
    cbn [skm_run] in H.
    pose proof (sim_step_m f a hev rest cyc s st stf HR HF Hwf Hsh HS) as Hsim.
    destruct (skm_cycle app a (hev :: rest)) as [a' path' dc|dc dt|] eqn:Ec; [| |discriminate].
    - destruct Hsim as (s' & st1 & -> & HR' & HS').
      assert (Epre : skm_pre app a (hev :: rest) = MStep a' path' dc).
      { unfold skm_cycle in Ec. destruct (skm_pre app a (hev :: rest)) as [a2 p d|d t|]; try discriminate.
        destruct (skm_complete a2); [discriminate | exact Ec]. }
      destruct (finvm_step app Happ hev rest a a' path' dc HF Hwf Hsh Epre) as (hev' & rest' & -> & HF' & Hwf' & Hsh' & _).
      eapply IH; eassumption.
    - injection H as <-. exact Hsim.
  Qed.
End SimM.
