(* Refinement of MVP-6.1 to the sequential machine on register-only programs - part 3:
   the back end.  Structural facts about the hazard list, shouldUseForwarding and the
   Forwarder update through the bus; the channel invariant ChI (a consumer waiting on a
   Receiver gets exactly the sequential value of its forwarded register; its producer is
   ahead of it in the execute bus or has already sent); the invariant CoreI of the back end
   (BackSemF of Mvp61RefSem.v about the instructions in the execute bus and the write bus);
   one call of handleRunner keeps it (handle_ok). *)
From Coq Require Import ZArith List Bool Lia Permutation.
From Maj Require Import Base.Outcome Base.GoInt Base.GoTypes Isa.Spec Isa.Embed Isa.Seq Isa.Refine.
From Maj Require Import Gen.Latency Gen.RiscTables Gen.Opcodes Comp.Cache.
From Maj Require Import Mvp.Mvp12 Mvp.Mvp12Proofs Mvp.Mvp3 Mvp.Mvp3Proofs Mvp.Mvp4Skel Mvp.Mvp4Inv Mvp.Mvp5 Mvp.Mvp60 Mvp.Mvp61
     Mvp.Mvp60RefSem Mvp.Mvp60RefDefs Mvp.Mvp60RefFront Mvp.Mvp60RefBack Mvp.Mvp61RefSem Mvp.Mvp61RefFront.
Import ListNotations.
Open Scope Z_scope.

(* ------------------------------------------------------------------ *)
(* the hazard list                                                      *)

Lemma flat_map_nil {A B} (f : A -> list B) l : flat_map f l = [] -> forall x, In x l -> f x = [].
Proof.
  induction l as [|a t IH]; intros H x []; cbn [flat_map] in H; apply app_eq_nil in H as [H1 H2]; [subst; exact H1 | apply IH; assumption].
Qed.

Definition hz_reads (b : mach) (reads : list Z) : list (Z * Z) :=
  flat_map (fun r => if negb (r =? 0) && (0 <? sb_get (m_pw b) r) then [(HRaw, r)] else []) reads.
Definition hz_writes (b : mach) (writes : list Z) : list (Z * Z) :=
  flat_map (fun w => if w =? 0 then []
                     else (if 0 <? sb_get (m_pw b) w then [(HWaw, w)] else []) ++
                          (if 0 <? sb_get (m_pr b) w then [(HWar, w)] else [])) writes.

Lemma hazards3_split b reads writes : hazards3 b reads writes = hz_reads b reads ++ hz_writes b writes.
Proof. reflexivity. Qed.

Lemma hz_writes_notraw b writes t r : In (t, r) (hz_writes b writes) -> t <> HRaw.
Proof.
  unfold hz_writes. intros H. apply in_flat_map in H as (w & _ & H). destruct (w =? 0); [destruct H|].
  apply in_app_or in H as [H|H].
  - destruct (0 <? sb_get (m_pw b) w); [|destruct H]. destruct H as [H|[]]. injection H as <- _. discriminate.
  - destruct (0 <? sb_get (m_pr b) w); [|destruct H]. destruct H as [H|[]]. injection H as <- _. discriminate.
Qed.

Lemma hz_reads_in b reads r : In r reads -> r <> 0 -> 0 < sb_get (m_pw b) r -> In (HRaw, r) (hz_reads b reads).
Proof.
  intros Hin Hnz Hp. unfold hz_reads. apply in_flat_map. exists r. split; [exact Hin|].
  destruct (Z.eqb_spec r 0); [contradiction|]. destruct (Z.ltb_spec 0 (sb_get (m_pw b) r)); [left; reflexivity | lia].
Qed.

Lemma hz_writes_nil b writes : hz_writes b writes = [] ->
  forall w, In w writes -> w <> 0 -> sb_get (m_pw b) w <= 0 /\ sb_get (m_pr b) w <= 0.
Proof.
  intros H w Hin Hnz. pose proof (flat_map_nil _ _ H w Hin) as Hw. cbv beta in Hw.
  destruct (Z.eqb_spec w 0); [contradiction|]. apply app_eq_nil in Hw as [H1 H2].
  destruct (Z.ltb_spec 0 (sb_get (m_pw b) w)); [discriminate|]. destruct (Z.ltb_spec 0 (sb_get (m_pr b) w)); [discriminate|]. lia.
Qed.

Lemma hz_reads_nil b reads : hz_reads b reads = [] -> forall r, In r reads -> r <> 0 -> sb_get (m_pw b) r <= 0.
Proof.
  intros H r Hin Hnz. pose proof (flat_map_nil _ _ H r Hin) as Hr. cbv beta in Hr.
  destruct (Z.eqb_spec r 0); [contradiction|]. cbn [negb andb] in Hr.
  destruct (Z.ltb_spec 0 (sb_get (m_pw b) r)); [discriminate | lia].
Qed.

(* exactly one hazard, of type RAW: it is the only read register with a pending write, and the
   registers written have no pending write and no pending read *)
Lemma hazards3_single b reads writes r : hazards3 b reads writes = [(HRaw, r)] ->
  (forall r', In r' reads -> r' <> 0 -> 0 < sb_get (m_pw b) r' -> r' = r) /\
  (forall w, In w writes -> w <> 0 -> sb_get (m_pw b) w <= 0 /\ sb_get (m_pr b) w <= 0).
Proof.
  rewrite hazards3_split. intros H.
  assert (Hw : hz_writes b writes = []).
  { destruct (hz_writes b writes) as [|[t x] tl] eqn:E; [reflexivity|]. exfalso.
    assert (Hin : In (t, x) [(HRaw, r)]) by (rewrite <- H; apply in_or_app; right; left; reflexivity).
    destruct Hin as [Hin|[]]. injection Hin as <- <-.
    apply (hz_writes_notraw b writes HRaw r); [rewrite E; left; reflexivity | reflexivity]. }
  rewrite Hw, app_nil_r in H. split; [|apply hz_writes_nil; exact Hw].
  intros r' Hin Hnz Hp. pose proof (hz_reads_in b reads r' Hin Hnz Hp) as Hx. rewrite H in Hx.
  destruct Hx as [Hx|[]]. injection Hx as <-. reflexivity.
Qed.

Lemma hazards3_nil b reads writes : hazards3 b reads writes = [] ->
  (forall r, In r reads -> r <> 0 -> sb_get (m_pw b) r <= 0) /\
  (forall w, In w writes -> w <> 0 -> sb_get (m_pw b) w <= 0 /\ sb_get (m_pr b) w <= 0).
Proof.
  rewrite hazards3_split. intros H. apply app_eq_nil in H as [H1 H2].
  split; [apply hz_reads_nil; exact H1 | apply hz_writes_nil; exact H2].
Qed.

(* zero scoreboards: no hazard *)
Lemma hazards3_zero b reads writes :
  (forall s, nth s (m_pw b) 0 <= 0) -> (forall s, nth s (m_pr b) 0 <= 0) -> hazards3 b reads writes = [].
Proof.
  intros H1 H2. rewrite hazards3_split. unfold hz_reads, hz_writes, sb_get.
  assert (A : forall r, (0 <? nth (Z.to_nat r) (m_pw b) 0) = false) by (intros r; apply Z.ltb_ge; apply H1).
  assert (B : forall r, (0 <? nth (Z.to_nat r) (m_pr b) 0) = false) by (intros r; apply Z.ltb_ge; apply H2).
  replace (flat_map _ reads) with (@nil (Z * Z)).
  - replace (flat_map _ writes) with (@nil (Z * Z)); [reflexivity|].
    symmetry. induction writes as [|w t IH]; [reflexivity|]. cbn [flat_map]. rewrite IH, A, B. destruct (w =? 0); reflexivity.
  - symmetry. induction reads as [|r t IH]; [reflexivity|]. cbn [flat_map]. rewrite IH, A, andb_false_r. reflexivity.
Qed.

(* ------------------------------------------------------------------ *)
(* shouldUseForwarding                                                  *)

Lemma fwd_match_spec p reads rd : fwd_match p reads = Some rd ->
  In rd reads /\ rd <> 0 /\ In rd (instr_WriteRegisters (r_instr (r_b p))).
Proof.
  unfold fwd_match. induction (instr_WriteRegisters (r_instr (r_b p))) as [|w t IH]; [discriminate|].
  destruct (find (fun rd0 => negb (rd0 =? 0) && (rd0 =? w)) reads) as [x|] eqn:Ef.
  - intros H. injection H as <-. apply find_some in Ef as [Hin Hc]. apply andb_prop in Hc as [A B].
    apply negb_true_iff, Z.eqb_neq in A. apply Z.eqb_eq in B. subst w. split; [exact Hin|]. split; [exact A | left; reflexivity].
  - intros H. destruct (IH H) as (A & B & C). split; [exact A|]. split; [exact B | right; exact C].
Qed.

Lemma should_forward_spec pord cycle prev hz reads os p rd : should_forward pord cycle prev hz reads = (os, Some (p, rd)) ->
  (exists r, hz = [(HRaw, r)]) /\ In p prev /\ fwd_match p reads = Some rd.
Proof.
  unfold should_forward. destruct hz as [|[t r] [|h2 tl]]; try discriminate.
  destruct (Z.eqb_spec t HRaw) as [->|Hne]; cbn [negb]; [|discriminate].
  set (cands := flat_map _ prev). destruct (zlen cands =? 0); [discriminate|].
  intros H. injection H as _ H. apply nth_error_In in H. unfold cands in H.
  apply in_flat_map in H as (p' & Hp & H). destruct (fwd_match p' reads) as [rd'|] eqn:E; [|destruct H].
  destruct H as [H|[]]. injection H as <- <-. split; [exists r; reflexivity|]. split; assumption.
Qed.

(* ------------------------------------------------------------------ *)
(* the Forwarder update through the bus                                 *)

Definition setfw (id ch : Z) (r : runner1) : runner1 :=
  if r_id r =? id then mk_r1 (r_b r) (r_id r) (Some ch) (r_rc r) (r_freg r) else r.

Lemma set_forwarder_flat bus id ch : flat (set_forwarder bus id ch) = map (setfw id ch) (flat bus).
Proof.
  unfold set_forwarder, flat. cbn [bb_q bb_buf]. rewrite map_app, !map_map. reflexivity.
Qed.

Lemma setfw_b id ch r : r_b (setfw id ch r) = r_b r /\ r_id (setfw id ch r) = r_id r /\
  r_rc (setfw id ch r) = r_rc r /\ r_freg (setfw id ch r) = r_freg r.
Proof. unfold setfw. destruct (r_id r =? id); repeat split. Qed.

Lemma set_forwarder_len bus id ch :
  qlen (set_forwarder bus id ch) = qlen bus /\ blen (set_forwarder bus id ch) = blen bus /\
  bb_ql (set_forwarder bus id ch) = bb_ql bus /\ bb_bl (set_forwarder bus id ch) = bb_bl bus /\
  map fst (bb_buf (set_forwarder bus id ch)) = map fst (bb_buf bus).
Proof.
  unfold set_forwarder, qlen, blen, zlen. cbn [bb_q bb_buf bb_ql bb_bl]. rewrite !map_length, map_map. cbn [fst]. repeat split.
Qed.

(* with distinct ids exactly one object is changed *)
Lemma setfw_other id ch l : ~ In id (map r_id l) -> map (setfw id ch) l = l.
Proof.
  induction l as [|r t IH]; [reflexivity|]. cbn [map In]. intros H. unfold setfw at 1.
  destruct (Z.eqb_spec (r_id r) id) as [E|E]; [exfalso; apply H; left; exact E|]. rewrite IH; [reflexivity|]. tauto.
Qed.

Lemma setfw_split id ch l : NoDup (map r_id l) -> forall p, In p l -> r_id p = id ->
  exists l1 l2, l = l1 ++ p :: l2 /\ map (setfw id ch) l = l1 ++ mk_r1 (r_b p) (r_id p) (Some ch) (r_rc p) (r_freg p) :: l2.
Proof.
  intros Hnd p Hin Hid. apply in_split in Hin as (l1 & l2 & ->). exists l1, l2. split; [reflexivity|].
  rewrite map_app in Hnd. cbn [map] in Hnd. pose proof (NoDup_remove_2 _ _ _ Hnd) as Hno. rewrite Hid in Hno.
  rewrite map_app. cbn [map]. rewrite !setfw_other by (intros H; apply Hno; apply in_or_app; tauto).
  unfold setfw. rewrite Hid, Z.eqb_refl. reflexivity.
Qed.

(* ------------------------------------------------------------------ *)
(* channels                                                             *)

Definition fws (l : list runner1) : list Z := flat_map (fun r => match r_fw r with Some c => [c] | None => [] end) l.
Definition rcs (l : list runner1) : list Z := flat_map (fun r => match r_rc r with Some c => [c] | None => [] end) l.
Definition keys (ch : list (Z * Z)) : list Z := map fst ch.

Lemma fws_app a b : fws (a ++ b) = fws a ++ fws b. Proof. apply flat_map_app. Qed.
Lemma rcs_app a b : rcs (a ++ b) = rcs a ++ rcs b. Proof. apply flat_map_app. Qed.

Lemma fws_in l c : In c (fws l) <-> exists r, In r l /\ r_fw r = Some c.
Proof.
  unfold fws. rewrite in_flat_map. split.
  - intros (r & Hr & H). exists r. split; [exact Hr|]. destruct (r_fw r) as [c'|]; [|destruct H]. destruct H as [->|[]]. reflexivity.
  - intros (r & Hr & H). exists r. split; [exact Hr|]. rewrite H. left. reflexivity.
Qed.

Lemma rcs_in l c : In c (rcs l) <-> exists r, In r l /\ r_rc r = Some c.
Proof.
  unfold rcs. rewrite in_flat_map. split.
  - intros (r & Hr & H). exists r. split; [exact Hr|]. destruct (r_rc r) as [c'|]; [|destruct H]. destruct H as [->|[]]. reflexivity.
  - intros (r & Hr & H). exists r. split; [exact Hr|]. rewrite H. left. reflexivity.
Qed.

Lemma ch_take_spec : forall chs c, NoDup (keys chs) -> In c (keys chs) ->
  exists v chs', ch_take chs c = Some (v, chs') /\ In (c, v) chs /\
    (forall c' v', In (c', v') chs' <-> In (c', v') chs /\ c' <> c) /\
    (forall c', In c' (keys chs') <-> In c' (keys chs) /\ c' <> c) /\ NoDup (keys chs').
Proof.
  induction chs as [|[c0 v0] t IH]; intros c Hnd Hin; [destruct Hin|]. cbn [keys map fst] in Hnd, Hin. cbn [ch_take].
  inversion Hnd as [|? ? Hno Hnd']; subst. destruct (Z.eqb_spec c0 c) as [->|Hne].
  - exists v0, t. split; [reflexivity|]. split; [left; reflexivity|]. split; [|split; [|exact Hnd']].
    + intros c' v'. split.
      * intros H. split; [right; exact H|]. intros ->. apply Hno. apply in_map_iff. exists (c, v'). auto.
      * intros [[H|H] Hc]; [injection H as -> _; contradiction | exact H].
    + intros c'. cbn [keys map fst In]. split.
      * intros H. split; [right; exact H|]. intros ->. contradiction.
      * intros [[H|H] Hc]; [congruence | exact H].
  - destruct Hin as [Hin|Hin]; [contradiction|]. destruct (IH c Hnd' Hin) as (v & chs' & E & H1 & H2 & H3 & H4). rewrite E.
    exists v, ((c0, v0) :: chs'). split; [reflexivity|]. split; [right; exact H1|]. split; [|split].
    + intros c' v'. cbn [In]. rewrite H2. split.
      * intros [H|[H Hc]]; [injection H as <- <-; auto | auto].
      * intros [[H|H] Hc]; auto.
    + intros c'. cbn [keys map fst In]. fold (keys chs') (keys t). rewrite H3. split.
      * intros [H|[H Hc]]; [subst; auto | auto].
      * intros [[H|H] Hc]; auto.
    + cbn [keys map fst]. constructor; [|exact H4]. fold (keys chs'). rewrite H3. tauto.
Qed.

(* ------------------------------------------------------------------ *)
(* availability: every consumer in the (FIFO) execute bus finds its channel among [ks] (the
   channels that hold a value) or among the Forwarders of the runners ahead of it *)

Definition fwl (r : runner1) : list Z := match r_fw r with Some c => [c] | None => [] end.

Fixpoint AvE (ks : list Z) (l : list runner1) : Prop :=
  match l with
  | [] => True
  | r :: t => (forall c, r_rc r = Some c -> In c ks) /\ AvE (ks ++ fwl r) t
  end.

Lemma fws_cons r t : fws (r :: t) = fwl r ++ fws t. Proof. reflexivity. Qed.

Lemma AvE_mono : forall l ks ks', (forall c, In c (rcs l) -> In c ks -> In c ks') -> AvE ks l -> AvE ks' l.
Proof.
  induction l as [|r t IH]; intros ks ks' H; cbn [AvE]; [auto|]. intros [A B]. split.
  - intros c Hc. apply H; [|apply A; exact Hc]. apply rcs_in. exists r. split; [left; reflexivity | exact Hc].
  - apply (IH (ks ++ fwl r)); [|exact B]. intros c Hc Hin. apply in_app_or in Hin as [Hin|Hin]; apply in_or_app; [left | right; exact Hin].
    apply H; [|exact Hin]. change (r :: t) with ([r] ++ t). rewrite rcs_app. apply in_or_app. right. exact Hc.
Qed.

Lemma AvE_app : forall l1 l2 ks, AvE ks (l1 ++ l2) <-> AvE ks l1 /\ AvE (ks ++ fws l1) l2.
Proof.
  induction l1 as [|r t IH]; intros l2 ks; cbn [List.app AvE].
  - cbn [fws flat_map]. rewrite app_nil_r. tauto.
  - rewrite IH, fws_cons, app_assoc. tauto.
Qed.

Lemma AvE_setfw id ch : forall l ks, (forall p, In p l -> r_id p = id -> r_fw p = None) ->
  AvE ks l -> AvE ks (map (setfw id ch) l).
Proof.
  induction l as [|r t IH]; intros ks Hn; cbn [map AvE]; [auto|]. intros [A B]. split.
  - destruct (setfw_b id ch r) as (_ & _ & E & _). rewrite E. exact A.
  - apply IH; [intros p Hp; apply Hn; right; exact Hp|].
    eapply AvE_mono; [|exact B]. intros c _ Hin. apply in_app_or in Hin as [Hin|Hin]; apply in_or_app; [left; exact Hin | right].
    unfold setfw. destruct (Z.eqb_spec (r_id r) id) as [E|E]; [|exact Hin].
    unfold fwl in Hin. rewrite (Hn r (or_introl eq_refl) E) in Hin. destruct Hin.
Qed.

Definition rcl (r : runner1) : list Z := match r_rc r with Some c => [c] | None => [] end.
Lemma rcs_cons r t : rcs (r :: t) = rcl r ++ rcs t. Proof. reflexivity. Qed.

Lemma rcs_setfw id ch l : rcs (map (setfw id ch) l) = rcs l.
Proof.
  induction l as [|r t IH]; [reflexivity|]. cbn [map]. rewrite !rcs_cons, IH. f_equal. unfold rcl.
  destruct (setfw_b id ch r) as (_ & _ & E & _). rewrite E. reflexivity.
Qed.

Lemma map_setfw_b id ch l : map r_b (map (setfw id ch) l) = map r_b l /\ map r_id (map (setfw id ch) l) = map r_id l.
Proof.
  rewrite !map_map. split; apply map_ext; intros r; apply (setfw_b id ch r).
Qed.

(* ------------------------------------------------------------------ *)
(* NoDup                                                                *)

Lemma nodup_app_r {A} (a b : list A) : NoDup (a ++ b) -> NoDup b.
Proof. induction a as [|x a IH]; [auto|]. cbn [List.app]. intros H. inversion H; auto. Qed.

Lemma nodup_app_l {A} (a b : list A) : NoDup (a ++ b) -> NoDup a.
Proof.
  induction a as [|x a IH]; [constructor|]. cbn [List.app]. intros H. inversion H as [|? ? Hn Hd]; subst.
  constructor; [|auto]. intros Hin. apply Hn. apply in_or_app. left. exact Hin.
Qed.

Lemma nodup_app_disj {A} (a b : list A) : NoDup (a ++ b) -> forall x, In x a -> ~ In x b.
Proof.
  induction a as [|y a IH]; [intros _ x []|]. cbn [List.app]. intros H x [<-|Hin] Hb; inversion H as [|? ? Hn Hd]; subst.
  - apply Hn. apply in_or_app. right. exact Hb.
  - exact (IH Hd x Hin Hb).
Qed.

Lemma nodup_app_intro {A} (a b : list A) : NoDup a -> NoDup b -> (forall x, In x a -> ~ In x b) -> NoDup (a ++ b).
Proof.
  induction a as [|y a IH]; [auto|]. intros Ha Hb Hd. inversion Ha as [|? ? Hn Ha']; subst. cbn [List.app]. constructor.
  - intros Hin. apply in_app_or in Hin as [Hin|Hin]; [contradiction|]. exact (Hd y (or_introl eq_refl) Hin).
  - apply IH; auto. intros x Hx. apply Hd. right. exact Hx.
Qed.

Lemma fws_setfw_in id ch l c : In c (fws (map (setfw id ch) l)) -> In c (fws l) \/ c = ch.
Proof.
  intros H. apply fws_in in H as (r' & Hin & Hf). apply in_map_iff in Hin as (r0 & <- & Hin0). unfold setfw in Hf.
  destruct (r_id r0 =? id); [cbn [r_fw] in Hf; injection Hf as <-; right; reflexivity | left; apply fws_in; exists r0; auto].
Qed.

Lemma fws_setfw_sub id ch l c : (forall p, In p l -> r_id p = id -> r_fw p = None) -> In c (fws l) -> In c (fws (map (setfw id ch) l)).
Proof.
  intros Hn H. apply fws_in in H as (r0 & Hin & Hf). apply fws_in. exists (setfw id ch r0). split; [apply in_map; exact Hin|].
  unfold setfw. destruct (Z.eqb_spec (r_id r0) id) as [E|E]; [rewrite (Hn r0 Hin E) in Hf; discriminate | exact Hf].
Qed.

(* ------------------------------------------------------------------ *)
(* small facts (section-free versions of lemmas of Mvp60RefBack.v)      *)

Lemma cnt_member_ge1 f F k s : In k F -> cnt1 (f k) s <= cnt f F s.
Proof.
  induction F as [|j t IH]; intros []; cbn [cnt].
  - subst j. pose proof (cnt_nonneg f t s). lia.
  - pose proof (cnt1_nonneg (f j) s). specialize (IH H). lia.
Qed.

Lemma canadd_lt1 {T} (b : bbus T) : bb_bl b = 2 -> blen b < 2 -> bb_canadd b = true.
Proof. intros Hbl Hb. unfold bb_canadd, blen in *. rewrite Hbl. apply negb_true_iff, Z.eqb_neq. lia. Qed.

Lemma canadd_inv {T} (b : bbus T) : bb_bl b = 2 -> blen b <= 2 -> bb_canadd b = true -> blen b < 2.
Proof. intros Hbl Hb H. unfold bb_canadd, blen in *. rewrite Hbl in H. apply negb_true_iff, Z.eqb_neq in H. lia. Qed.

Lemma nodup_remove_mid {A} (a b c : list A) : NoDup (a ++ b ++ c) -> NoDup (a ++ c).
Proof.
  intros H. apply nodup_app_intro.
  - exact (nodup_app_l _ _ H).
  - exact (nodup_app_r _ _ (nodup_app_r _ _ H)).
  - intros x Hx Hc. apply (nodup_app_disj _ _ H x Hx). apply in_or_app. right. exact Hc.
Qed.

Lemma nodup_app_incl_r {A} (a k k' : list A) : NoDup (a ++ k) -> NoDup k' -> incl k' k -> NoDup (a ++ k').
Proof.
  intros H Hk Hi. apply nodup_app_intro; [exact (nodup_app_l _ _ H) | exact Hk|].
  intros x Hx Hc. apply (nodup_app_disj _ _ H x Hx). apply Hi. exact Hc.
Qed.

Lemma keys_app a b : keys (a ++ b) = keys a ++ keys b. Proof. apply map_app. Qed.
