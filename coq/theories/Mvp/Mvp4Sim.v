(* The MVP-4 model on a register-only program is, cycle for cycle, its skeleton
   (Mvp4Skel.v) plus the values of the sequential machine. *)
From Coq Require Import ZArith List Bool Lia.
From Maj Require Import Base.Outcome Base.GoInt Base.GoTypes Isa.Spec Isa.Embed Isa.Seq Isa.Refine.
From Maj Require Import Gen.Latency Gen.RiscTables Gen.Opcodes Comp.Cache Comp.CacheProofs.
From Maj Require Import Mvp.Mvp12 Mvp.Mvp12Proofs Mvp.Mvp3 Mvp.Mvp3Proofs Mvp.Mvp4 Mvp.Mvp4Skel Mvp.Mvp4Inv Mvp.Mvp4Units Mvp.Mvp4Front.
Import ListNotations.
Open Scope Z_scope.

(* ------------------------------------------------------------------ *)
(* the execute unit against its skeleton                                *)

Lemma eu_cycle_none labels regs mem pw l1d e wbus bu ebus e1 ebus2 :
  eu_pending_read e = false -> sbus_can_add wbus = true ->
  sk_eu e ebus pw = (e1, ebus2, ANone) ->
  exists bu', eu_cycle labels (mk_env regs mem pw l1d e wbus bu) ebus
              = inl (Ok (mk_env regs mem pw l1d e1 wbus bu', ebus2, eu_none)).
Proof.
  intros Hpr Hadd. unfold sk_eu, eu_cycle, eu_intake, set_rem. cbn [e_eu e_wbus e_regs e_mem e_pw e_l1d e_bu].
  rewrite Hpr, Hadd.
  destruct (eu_processing e) eqn:Ep.
  - cbn [negb]. destruct (negb (eu_remaining e - 1 =? 0)).
    + intros H. injection H as <- <-. eexists. reflexivity.
    + destruct (eu_runner e) as [[i pc]|]; [|discriminate].
      destruct (pw_hazard pw (instr_ReadRegisters i)); [|discriminate].
      intros H. injection H as <- <-. eexists. reflexivity.
  - destruct (sbus_get ebus) as [ebus' got]. destruct got as [[i pc]|].
    + cbn [negb eu_remaining eu_runner eu_processing eu_pending_read eu_addrs eu_memory].
      fold (cyc_of i).
      destruct (negb (cyc_of i - 1 =? 0)).
      * intros H. injection H as <- <-. eexists. reflexivity.
      * destruct (pw_hazard pw (instr_ReadRegisters i)); [|discriminate].
        intros H. injection H as <- <-. eexists. reflexivity.
    + cbn [negb]. intros H. injection H as <- <-. eexists. reflexivity.
Qed.

Definition eu_post (r : outcome (eu_env * eu_out) + err_class) (ebus : sbus (instr * Z))
  : outcome (eu_env * sbus (instr * Z) * eu_out) + err_class :=
  match r with
  | inr er => inr er
  | inl (Ok (env2, o)) =>
      inl (Ok (mk_env (e_regs env2) (e_mem env2) (e_pw env2) (e_l1d env2) (clear_runner (e_eu env2))
                      (e_wbus env2) (e_bu env2), ebus, o))
  | inl (Err er) => inl (Err er)
  | inl Panic => inl Panic
  end.

Lemma eu_cycle_exec labels regs mem pw l1d e wbus bu ebus e1 ebus2 i pc :
  eu_pending_read e = false -> sbus_can_add wbus = true ->
  sk_eu e ebus pw = (e1, ebus2, AExec i pc) ->
  instr_MemoryRead i (rget regs) 0 = [] ->
  exists e2, e1 = eu_done e2 /\ pw_hazard pw (instr_ReadRegisters i) = false /\
    eu_cycle labels (mk_env regs mem pw l1d e wbus bu) ebus
    = eu_post (eu_run labels (mk_env regs mem pw l1d e2 wbus (bu_assert bu i pc)) i pc []) ebus2.
Proof.
  intros Hpr Hadd. unfold sk_eu, eu_cycle, eu_intake, set_rem. cbn [e_eu e_wbus e_regs e_mem e_pw e_l1d e_bu].
  rewrite Hpr, Hadd.
  destruct (eu_processing e) eqn:Ep.
  - cbn [negb]. destruct (negb (eu_remaining e - 1 =? 0)); [discriminate|].
    destruct (eu_runner e) as [[i0 pc0]|]; [|discriminate].
    destruct (pw_hazard pw (instr_ReadRegisters i0)) eqn:Ehz; [discriminate|].
    intros H. injection H as <- <- <- <-. intros Hmr. rewrite Hmr.
    eexists. split; [reflexivity|]. split; [assumption|]. reflexivity.
  - destruct (sbus_get ebus) as [ebus' got]. destruct got as [[i0 pc0]|].
    + cbn [negb eu_remaining eu_runner eu_processing eu_pending_read eu_addrs eu_memory].
      fold (cyc_of i0).
      destruct (negb (cyc_of i0 - 1 =? 0)); [discriminate|].
      destruct (pw_hazard pw (instr_ReadRegisters i0)) eqn:Ehz; [discriminate|].
      intros H. injection H as <- <- <- <-. intros Hmr. rewrite Hmr.
      eexists. split; [reflexivity|]. split; [assumption|]. reflexivity.
    + cbn [negb]. discriminate.
Qed.

Lemma eu_run_ret labels env i pc :
  instr_Run i (rget (e_regs env)) labels pc [] 0 = Ok (embed EReturn) ->
  eu_run labels env i pc [] = inl (Ok (env, mk_euo false 0 true)).
Proof. intros H. unfold eu_run. rewrite H. reflexivity. Qed.

Definition flush_dec (bu : bu_t) (exe : execution) : bu_t * bool :=
  if PcChange exe then bu_should_flush bu (NextPc exe) else (bu, false).

Lemma eu_run_reg labels regs mem pw l1d e2 wbus bu i pc exe :
  instr_Run i (rget regs) labels pc [] 0 = Ok exe -> Return exe = false -> MemoryChange exe = false ->
  eu_run labels (mk_env regs mem pw l1d e2 wbus bu) i pc [] =
    inl (Ok (mk_env regs mem (pw_add pw (instr_WriteRegisters i)) l1d
                    (mk_eu false (eu_pending_read e2) (eu_addrs e2) (eu_memory e2) (eu_remaining e2) (eu_runner e2))
                    (sbus_add wbus (exe, instr_WriteRegisters i)) (fst (flush_dec bu exe)),
             if snd (flush_dec bu exe) then mk_euo true (NextPc exe) false else eu_none)).
Proof.
  intros H Hr Hm. unfold eu_run. cbn [e_regs e_mem e_pw e_l1d e_eu e_wbus e_bu]. rewrite H, Hr, Hm. cbn [bind].
  unfold flush_dec. destruct (PcChange exe); [destruct (bu_should_flush bu (NextPc exe))|]; reflexivity.
Qed.

(* ------------------------------------------------------------------ *)
(* the write unit on register-only entries                              *)

Definition wapply (exe : execution) (regs : list Z) : list Z :=
  if RegisterChange exe then rset regs (Register exe) (RegisterValue exe) else regs.
Definition cur_regs (cur : option wb_item) (regs : list Z) : list Z :=
  match cur with Some (exe, _) => wapply exe regs | None => regs end.
Definition cur_wr (cur : option wb_item) : option (list Z) := option_map snd cur.

Definition item_ok (x : wb_item) : Prop :=
  MemoryChange (fst x) = false /\ (RegisterChange (fst x) = false -> snd x = []).

Lemma wu_cycle_reg regs mem pw w p cur :
  (forall x, cur = Some x -> item_ok x) ->
  wu_cycle regs mem pw (mk_wu false w) (mk_sbus p cur)
  = Ok (cur_regs cur regs, mem, wdel pw (cur_wr cur), mk_wu false w, mk_sbus None p).
Proof.
  intros H. unfold wu_cycle, sbus_get. cbn [wu_pending sb_pending sb_current].
  destruct cur as [[exe wr]|]; [|reflexivity].
  destruct (H _ eq_refl) as [Hm Hr]. cbn [fst snd] in Hm, Hr.
  cbn [cur_regs cur_wr option_map snd wdel]. unfold wapply.
  destruct (RegisterChange exe); [reflexivity|]. rewrite Hm, (Hr eq_refl). reflexivity.
Qed.

Lemma drain_empty n regs mem pw w cyc tick :
  m4_drain (S n) regs mem pw (mk_wu false w) (mk_sbus None None) cyc tick
  = Ok (regs, mem, pw, mk_wu false w, mk_sbus None None, cyc).
Proof. reflexivity. Qed.

Lemma drain_one n regs mem pw w x cyc tick :
  item_ok x ->
  m4_drain (S (S n)) regs mem pw (mk_wu false w) (mk_sbus None (Some x)) cyc tick
  = Ok (wapply (fst x) regs, mem, wdel pw (Some (snd x)), mk_wu false w, mk_sbus None None,
        if tick then cyc + 1 else cyc).
Proof.
  intros H. cbn [m4_drain wu_pending negb andb sbus_is_empty sb_pending sb_current].
  rewrite (wu_cycle_reg regs mem pw w None (Some x)) by (intros y Hy; injection Hy as <-; exact H).
  cbn [bind]. destruct x as [exe wr]. cbn [cur_regs cur_wr option_map fst snd]. reflexivity.
Qed.

Lemma finish_reg regs mem pw l1i l1d fu dbus ebus eu wbus wu bu cyc :
  lines l1d = [] ->
  m4_finish (mk_m4 regs mem pw l1i l1d fu dbus ebus eu wbus wu bu) cyc = MDone cyc (mk_arch regs mem).
Proof. intros H. unfold m4_finish. cbn [s_l1d s_mem s_regs]. rewrite H. cbn [flush_lines]. rewrite Z.add_0_r. reflexivity. Qed.

(* ------------------------------------------------------------------ *)
(* reading a register while one write is pending                        *)

Lemma supd_oob {A} (l : list A) n v : (length l <= n)%nat -> Seq.upd l n v = l.
Proof. revert n. induction l as [|x l IH]; intros [|n] H; cbn in *; try reflexivity; try lia. rewrite IH by lia. reflexivity. Qed.

Definition wb_rel (exe : execution) (wr : list Z) : Prop :=
  RegisterChange exe = true -> exists rd, wr = [rd] /\ Register exe = (if rd =? 0 then 0 else rd).

Lemma rget_wapply regs exe wr r :
  (length regs <= 32)%nat -> wb_rel exe wr ->
  (r =? 0) = true \/ pw_get (pwof (Some wr)) r <= 0 ->
  rget (wapply exe regs) r = rget regs r.
Proof.
  intros Hlen Hrel Hr. unfold wapply. destruct (RegisterChange exe) eqn:Erc; [|reflexivity].
  destruct (Hrel Erc) as (rd & -> & HR). rewrite HR. unfold rset, rget.
  destruct (r =? 0) eqn:Er0; [reflexivity|]. destruct Hr as [Hr|Hr]; [discriminate|].
  destruct (rd =? 0) eqn:Erd; [reflexivity|]. rewrite Erd.
  destruct (Nat.eq_dec (Z.to_nat rd) (Z.to_nat r)) as [En|En].
  - destruct (Nat.lt_ge_cases (Z.to_nat rd) 32) as [Hlt|Hge].
    + exfalso. cbn [pwof] in Hr. rewrite pw_add_1 in Hr. unfold pw_get, padd1 in Hr. rewrite <- En in Hr.
      rewrite nth_upd_eq in Hr by (rewrite zero_pw_length; exact Hlt).
      change (nth (Z.to_nat rd) zero_pw 0) with (pw_get zero_pw rd) in Hr. rewrite pw_get_zero in Hr. lia.
    + rewrite supd_oob by lia. reflexivity.
  - apply supd_nth_neq. exact En.
Qed.

Lemma pw_hazard_false pw rs r : pw_hazard pw rs = false -> In r rs -> (r =? 0) = true \/ pw_get pw r <= 0.
Proof.
  unfold pw_hazard. intros H Hin.
  assert (Hx : negb (r =? 0) && (0 <? pw_get pw r) = false).
  { destruct (negb (r =? 0) && (0 <? pw_get pw r)) eqn:E; [|reflexivity].
    rewrite <- H. symmetry. apply existsb_exists. exists r. auto. }
  destruct (r =? 0); [left; reflexivity|]. right. cbn [negb andb] in Hx. apply Z.ltb_ge in Hx. exact Hx.
Qed.

Lemma wapply_length exe regs : length (wapply exe regs) = length regs.
Proof. unfold wapply, rset. destruct (RegisterChange exe), (Register exe =? 0); try reflexivity. apply supd_length. Qed.

Lemma cur_regs_length cur regs : length (cur_regs cur regs) = length regs.
Proof. destruct cur as [[exe wr]|]; [apply wapply_length | reflexivity]. Qed.

Lemma wapply_embed e regs :
  wapply (embed e) regs = match e with EReg rd v | ELink rd v _ => rset regs rd v | _ => regs end.
Proof.
  destruct e; cbn [embed]; try reflexivity; unfold wapply;
    destruct (reg_pair rd v) as [r x] eqn:E; cbn [RegisterChange Register RegisterValue];
    rewrite <- (rset_reg_pair regs rd v), E; reflexivity.
Qed.

Definition next_pc (e : effect) (pc : Z) : Z :=
  match e with EGoto a | ELink _ _ a => a | _ => pc + 4 end.

Lemma complete_agree regs mem pw pw' l1i l1d fu dbus ebus eu w bu :
  m4_is_complete (mk_m4 regs mem pw l1i l1d fu dbus ebus eu (mk_sbus None None) (mk_wu false w) bu)
  = sk_complete (mk_sk fu l1i dbus ebus eu pw' None).
Proof.
  unfold m4_is_complete, sk_complete. cbn [s_fu s_eu s_wu s_dbus s_ebus s_wbus k_fu k_eu k_dbus k_ebus k_wb wu_pending].
  destruct (fu_complete fu), (eu_processing eu), (sbus_is_empty dbus), (sbus_is_empty ebus); reflexivity.
Qed.

Lemma complete_false regs mem pw l1i l1d fu dbus ebus eu x w bu :
  m4_is_complete (mk_m4 regs mem pw l1i l1d fu dbus ebus eu (mk_sbus None (Some x)) (mk_wu false w) bu) = false.
Proof. unfold m4_is_complete. cbn [s_wbus sbus_is_empty sb_pending sb_current]. apply andb_false_r. Qed.

Lemma sbus_add_mk {T} (p c : option T) x : sbus_add (mk_sbus p c) x = mk_sbus (Some x) c.
Proof. reflexivity. Qed.

Section Sim.
  Variables (app : list instr) (labels : Z -> option Z).
  Hypothesis Happ : wf_app app.
  Hypothesis Hlab : wf_labels labels.
  Hypothesis Hreg : reg_only app = true.
  Let sp := map sinstr_of app.

  Lemma nomem_nth n i : nth_error app n = Some i -> nomem i = true.
  Proof.
    intros H. unfold reg_only in Hreg. rewrite forallb_forall in Hreg. apply Hreg. eapply nth_error_In; eassumption.
  Qed.

  (* the sequential machine follows [path] from [st] and halts in [stf] *)
  Inductive sexec : arch -> list Z -> arch -> Prop :=
  | SE_halt st pc st' : Seq.step sp labels st pc = Halt st' -> sexec st [pc] st'
  | SE_next st pc st' pc' rest stf :
      Seq.step sp labels st pc = Next st' pc' -> sexec st' (pc' :: rest) stf -> sexec st (pc :: pc' :: rest) stf.

  Lemma sexec_head_nonneg st pc rest stf : sexec st (pc :: rest) stf -> 0 <= pc.
  Proof.
    intros H. assert (Hs : exists r, Seq.step sp labels st pc = r /\ match r with Fail _ => False | _ => True end).
    { inversion H; subst; eexists; (split; [eassumption | exact I]). }
    destruct Hs as (r & Hs & Hr). unfold Seq.step in Hs. destruct (Z.ltb_spec pc 0); [subst r; contradiction | assumption].
  Qed.

  Lemma step_out st pc : 0 <= pc -> nlen app <= pc / 4 -> Seq.step sp labels st pc = Halt st.
  Proof.
    intros Hpc Hout. unfold Seq.step. destruct (Z.ltb_spec pc 0); [lia|].
    assert (Hn : nth_error sp (Z.to_nat (pc / 4)) = None).
    { apply nth_error_None. unfold sp. rewrite map_length. unfold nlen in Hout. lia. }
    rewrite Hn. reflexivity.
  Qed.

  Lemma step_nomem st pc i :
    0 <= pc -> nth_error app (Z.to_nat (pc / 4)) = Some i ->
    Seq.step sp labels st pc =
      match exec (sinstr_of i) (rget (regs st)) labels pc [] with
      | Err e => Fail e
      | Panic => Fail EOther
      | Ok (EReg rd v) => Next (mk_arch (rset (regs st) rd v) (mem st)) (pc + 4)
      | Ok (EStore bs) =>
          if negb (forallb (in_mem (mem st)) (map fst bs)) then Fail EBounds
          else Next (mk_arch (regs st) (mset_all (mem st) bs)) (pc + 4)
      | Ok EFall => Next st (pc + 4)
      | Ok (EGoto a) => Next st a
      | Ok (ELink rd v a) => Next (mk_arch (rset (regs st) rd v) (mem st)) a
      | Ok EReturn => Halt st
      end.
  Proof.
    intros Hpc Hi. unfold Seq.step. destruct (Z.ltb_spec pc 0); [lia|].
    unfold sp. rewrite (map_nth_error sinstr_of _ _ Hi).
    rewrite (nomem_load_addrs i _ (nomem_nth _ _ Hi)). reflexivity.
  Qed.

  Lemma exec_cases st regs0 pc i bu :
    0 <= pc < 2147483644 -> nth_error app (Z.to_nat (pc / 4)) = Some i ->
    Forall int32 regs0 -> Forall int32 (regs st) ->
    (forall r, In r (instr_ReadRegisters i) -> rget (regs st) r = rget regs0 r) ->
    match Seq.step sp labels st pc with
    | Halt st' => st' = st /\ is_ret i = true /\ instr_Run i (rget regs0) labels pc [] 0 = Ok (embed EReturn)
    | Next st' next =>
        is_ret i = false /\
        exists e, instr_Run i (rget regs0) labels pc [] 0 = Ok (embed e) /\
          Return (embed e) = false /\ MemoryChange (embed e) = false /\
          item_ok (embed e, instr_WriteRegisters i) /\ wb_rel (embed e) (instr_WriteRegisters i) /\
          regs st' = wapply (embed e) (regs st) /\ mem st' = mem st /\ Forall int32 (regs st') /\
          (0 <= next -> snd (flush_dec (bu_assert bu i pc) (embed e)) = sk_flush i pc next) /\
          (sk_flush i pc next = true -> NextPc (embed e) = next)
    | Fail _ => True
    end.
  Proof.
    intros Hpc Hi Hr0 Hrs Hread. rewrite (step_nomem st pc i ltac:(lia) Hi).
    pose proof (nomem_nth _ _ Hi) as Hnm.
    assert (Hrr : forall r, int32 (rget regs0 r)) by (intros r; apply rget_int32; assumption).
    assert (Hpc32 : int32 pc) by (apply int32_bounds; lia).
    pose proof (run_refines_spec (rget regs0) labels pc [] 0 Hrr i (imm_ok app Happ _ _ Hi) (nomem_mem_ok i Hnm)) as Hrun.
    rewrite read_registers_exact in Hread.
    destruct (spec_reads_sound (sinstr_of i) (rget (regs st)) (rget regs0) labels pc [] Hread) as [Hex _].
    rewrite Hex. rewrite Hrun.
    destruct (exec (sinstr_of i) (rget regs0) labels pc []) as [e|err|] eqn:Ee; [|exact I|exact I].
    pose proof (exec_ranges _ _ _ _ _ _ Hlab Ee) as Hrange.
    pose proof (spec_writes_sound _ _ _ _ _ _ Ee) as Hwr. rewrite <- write_registers_exact in Hwr.
    pose proof (exec_branch_class _ _ _ _ _ _ Ee) as Hcls.
    pose proof (exec_return_is_ret _ _ _ _ _ _ Ee) as Hret.
    destruct (pc_next app Happ pc i ltac:(lia) Hi) as [Hpc4 _].
    assert (Hnr : forall e', e = e' -> e' <> EReturn -> is_ret i = false).
    { intros e' <- Hne. destruct (is_ret i); [|reflexivity]. exfalso. apply Hne. apply Hret. reflexivity. }
    cbn [omap].
    destruct e as [rd v|bs| |a|rd v a|].
    - (* register write *)
      split; [eapply Hnr; [reflexivity | discriminate]|]. exists (EReg rd v). split; [reflexivity|].
      cbn [regs mem]. rewrite wapply_embed. cbn [embed]. destruct (reg_pair rd v) as [r x] eqn:Erp.
      cbn [Return MemoryChange]. split; [reflexivity|]. split; [reflexivity|].
      split; [split; [reflexivity | discriminate]|].
      split. { intros _. exists rd. split; [exact Hwr|]. unfold reg_pair in Erp. cbn [Register].
               destruct (rd =? 0); injection Erp as <- _; reflexivity. }
      split; [reflexivity|]. split; [reflexivity|]. split; [apply rset_int32; assumption|].
      unfold flush_dec, sk_flush. cbn [PcChange snd]. fold (uncond i). rewrite Hcls, Hpc4, Z.eqb_refl. split; [reflexivity | discriminate].
    - exfalso. exact (nomem_no_store i _ _ _ _ bs Hnm Ee).
    - (* fall through *)
      split; [eapply Hnr; [reflexivity | discriminate]|]. exists EFall. split; [reflexivity|].
      cbn [embed Return MemoryChange]. split; [reflexivity|]. split; [reflexivity|].
      split; [split; [reflexivity | intros _; exact Hwr]|].
      split; [intros H; discriminate H|].
      split; [reflexivity|]. split; [reflexivity|]. split; [assumption|].
      unfold flush_dec, sk_flush. cbn [PcChange snd]. fold (uncond i). rewrite Hcls, Hpc4, Z.eqb_refl. split; [reflexivity | discriminate].
    - (* taken branch / jump *)
      split; [eapply Hnr; [reflexivity | discriminate]|]. exists (EGoto a). split; [reflexivity|].
      cbn [embed Return MemoryChange]. split; [reflexivity|]. split; [reflexivity|].
      split; [split; [reflexivity | intros _; exact Hwr]|].
      split; [intros H; discriminate H|].
      split; [reflexivity|]. split; [reflexivity|]. split; [assumption|].
      split; [|reflexivity]. intros Ha.
      unfold flush_dec, sk_flush, bu_assert, bu_should_flush. cbn [PcChange NextPc]. fold (uncond i) (condbr i).
      destruct Hcls as [Hu | [Hu Hc]]; rewrite Hu; [|rewrite Hc]; cbn [bu_to_check bu_expectation negb snd orb].
      + destruct (Z.eqb_spec (-1) a); [lia | reflexivity].
      + rewrite (Z.eqb_sym a). reflexivity.
    - (* jump and link *)
      split; [eapply Hnr; [reflexivity | discriminate]|]. exists (ELink rd v a). split; [reflexivity|].
      cbn [regs mem]. rewrite wapply_embed. cbn [embed]. destruct (reg_pair rd v) as [r x] eqn:Erp.
      cbn [Return MemoryChange]. split; [reflexivity|]. split; [reflexivity|].
      split; [split; [reflexivity | discriminate]|].
      split. { intros _. exists rd. split; [exact Hwr|]. unfold reg_pair in Erp. cbn [Register].
               destruct (rd =? 0); injection Erp as <- _; reflexivity. }
      split; [reflexivity|]. split; [reflexivity|]. split; [apply rset_int32; [assumption | apply Hrange]|].
      split; [|reflexivity]. intros Ha.
      unfold flush_dec, sk_flush, bu_assert, bu_should_flush. cbn [PcChange NextPc]. fold (uncond i).
      rewrite Hcls. cbn [bu_to_check bu_expectation negb snd orb].
      destruct (Z.eqb_spec (-1) a); [lia | reflexivity].
    - (* ret *)
      split; [reflexivity|]. split; [apply Hret; reflexivity | reflexivity].
  Qed.

  (* the model state [s] is the skeleton [a] plus the values of the sequential state
     [st]: the registers lag behind by the one entry of the write bus *)
  Inductive R : m4state -> sk -> arch -> Prop :=
  | R_intro a rg l1d w bu cur st :
      lines l1d = [] -> Forall int32 rg -> Forall int32 (regs st) -> (length rg <= 32)%nat ->
      cur_wr cur = k_wb a ->
      (forall x, cur = Some x -> item_ok x /\ wb_rel (fst x) (snd x)) ->
      regs st = cur_regs cur rg ->
      R (mk_m4 rg (mem st) (k_pw a) (k_l1i a) l1d (k_fu a) (k_dbus a) (k_ebus a) (k_eu a)
               (mk_sbus None cur) (mk_wu false w) bu) a st.

  Lemma complete_out head a : FInv app head a -> sk_complete a = true -> nlen app <= head / 4.
  Proof.
    intros HF Hc. unfold sk_complete in Hc. repeat (apply andb_prop in Hc as [Hc ?]).
    destruct HF as [Hh [n Hq] _ _ _ _ _ _ _].
    assert (Hn : qlist a = []).
    { unfold qlist, q_parts, q_eu, q_sb. apply negb_true_iff in H2. rewrite H2.
      unfold sbus_is_empty in H0, H1. destruct (sb_pending (k_ebus a)), (sb_current (k_ebus a)); try discriminate.
      destruct (sb_pending (k_dbus a)), (sb_current (k_dbus a)); try discriminate. reflexivity. }
    rewrite Hn in Hq. destruct Hq as [Hq _ Hend _ _]. destruct n; [|discriminate].
    specialize (Hend Hc). replace (head + 4 * Z.of_nat 0) with head in Hend by lia. exact Hend.
  Qed.

  Lemma reads_agree a rg cur st i :
    (length rg <= 32)%nat -> cur_wr cur = k_wb a -> k_pw a = pwof (k_wb a) ->
    (forall x, cur = Some x -> item_ok x /\ wb_rel (fst x) (snd x)) ->
    regs st = cur_regs cur rg ->
    pw_hazard (k_pw a) (instr_ReadRegisters i) = false ->
    forall r, In r (instr_ReadRegisters i) -> rget (regs st) r = rget rg r.
  Proof.
    intros Hlen Hcw Hpw Hitem Hregs Hhz r Hr. rewrite Hregs.
    destruct cur as [[exe wr]|]; [|reflexivity]. cbn [cur_regs].
    destruct (Hitem _ eq_refl) as [_ Hrel]. cbn [fst snd] in Hrel.
    apply (rget_wapply rg exe wr r Hlen Hrel).
    cbn [cur_wr option_map snd] in Hcw. rewrite Hcw, <- Hpw. eapply pw_hazard_false; eassumption.
  Qed.

  Lemma sim_step f a head rest cyc s st stf :
    R s a st -> FInv app head a -> sexec st (head :: rest) stf ->
    match sk_cycle app a (head :: rest) with
    | KStuck => True
    | KDone dc => m4run (S f) app labels s cyc = MDone (cyc + dc) stf
    | KStep a' path' dc =>
        exists s' st', m4run (S f) app labels s cyc = m4run f app labels s' (cyc + dc) /\
                       R s' a' st' /\ sexec st' path' stf
    end.
  Proof.
    intros HR HF HS.
    destruct HR as [a rg l1d w bu cur st Hl Hri Hsi Hlen Hcw Hitem Hregs].
    pose proof HF as [Hh [n Hq] Hent Hfu Heu Hpr HI Hpw Hwb].
    assert (Hitem1 : forall x, cur = Some x -> item_ok x) by (intros x Hx; apply Hitem; exact Hx).
    unfold sk_cycle.
    cbn [m4run s_fu s_l1i s_dbus s_ebus s_regs s_mem s_pw s_l1d s_eu s_wbus s_bu s_wu].
    destruct (fu_cycle app (k_fu a) (k_l1i a) (k_dbus a)) as [[[fu1 l1i1] dbus1]| |] eqn:Ef; try exact I.
    destruct (du_cycle app dbus1 (k_ebus a)) as [[dbus2 ebus1]| |] eqn:Ed; try exact I.
    destruct (sk_eu (k_eu a) ebus1 (k_pw a)) as [[e1 ebus2] act] eqn:Ee.
    destruct (front_flow app Happ head a _ _ _ _ _ _ _ _ HF Ef Ed Ee) as (_ & _ & _ & _ & Hent' & _).
    destruct act as [|i pc|]; [| |exact I].
    - (* nothing executed this cycle *)
      destruct (eu_cycle_none labels rg (mem st) (k_pw a) l1d (k_eu a) (mk_sbus None cur) bu ebus1 e1 ebus2 Hpr eq_refl Ee)
        as [bu' Eeu].
      rewrite Eeu. cbn [e_regs e_mem e_pw e_l1d e_eu e_wbus e_bu eu_none eo_ret eo_flush].
      rewrite (wu_cycle_reg rg (mem st) (k_pw a) w None cur Hitem1).
      rewrite (complete_agree _ _ _ (wdel (k_pw a) (k_wb a))). rewrite Hcw.
      pose proof (finv_none app Happ head a _ _ _ _ _ _ _ HF Ef Ed Ee) as HF2. unfold after_none in HF2.
      destruct (sk_complete _) eqn:Ec.
      + rewrite finish_reg by exact Hl.
        pose proof (complete_out head _ HF2 Ec) as Hout.
        assert (Hst : Seq.step sp labels st head = Halt st) by (apply step_out; [lia | exact Hout]).
        assert (stf = st).
        { inversion HS as [? ? ? Hs|? ? ? ? ? ? Hs]; subst; rewrite Hst in Hs; [injection Hs as <-; reflexivity | discriminate]. }
        subst stf. rewrite <- Hregs. destruct st; reflexivity.
      + eexists _, st. split; [reflexivity|]. split; [|exact HS].
        apply (R_intro (mk_sk fu1 l1i1 dbus2 ebus2 e1 (wdel (k_pw a) (k_wb a)) None) (cur_regs cur rg) l1d w bu' None st);
          auto; try discriminate.
        * rewrite <- Hregs. exact Hsi.
        * rewrite cur_regs_length. exact Hlen.
    - (* (i, pc) is executed *)
      destruct (Z.eqb_spec head pc) as [<-|]; cbn [negb]; [|exact I].
      cbn [act_q List.app] in Hent'. inversion Hent' as [|x l [_ Hi] _]; subst x l. cbn [fst snd] in Hi.
      pose proof (nomem_nth _ _ Hi) as Hnm.
      destruct (eu_cycle_exec labels rg (mem st) (k_pw a) l1d (k_eu a) (mk_sbus None cur) bu ebus1 e1 ebus2 i head
                  Hpr eq_refl Ee (nomem_no_read i _ _ Hnm)) as (e2 & -> & Hhz & Eeu).
      rewrite Eeu.
      pose proof (reads_agree a rg cur st i Hlen Hcw Hpw Hitem Hregs Hhz) as Hread.
      pose proof (exec_cases st rg head i bu Hh Hi Hri Hsi Hread) as Hcases.
      inversion HS as [? ? ? Hs|? ? st' next rest' ? Hs HS']; subst; rewrite Hs in Hcases.
      + (* the run halts here: ret *)
        destruct Hcases as (-> & Hret & Hrun). rewrite Hret.
        rewrite eu_run_ret by exact Hrun. cbn [eu_post e_regs e_mem e_pw e_l1d e_eu e_wbus e_bu eo_ret eo_flush].
        rewrite (wu_cycle_reg rg (mem st) (k_pw a) w None cur Hitem1).
        rewrite drain_empty. rewrite finish_reg by exact Hl. rewrite <- Hregs. destruct st; reflexivity.
      + destruct Hcases as (Hret & e & Hrun & Hr & Hm & Hit & Hrel & Hregs' & Hmem' & Hsi' & Hfl & Hnpc).
        rewrite Hret.
        rewrite (eu_run_reg _ _ _ _ _ _ _ _ _ _ _ Hrun Hr Hm).
        pose proof (sexec_head_nonneg _ _ _ _ HS') as Hnext. specialize (Hfl Hnext).
        cbn [eu_post e_regs e_mem e_pw e_l1d e_eu e_wbus e_bu]. rewrite sbus_add_mk.
        rewrite (wu_cycle_reg rg (mem st) _ w _ cur Hitem1). rewrite Hfl.
        destruct (sk_flush i head next) eqn:Esf.
        * (* mispredicted: drain and flush *)
          cbn [eo_ret eo_flush eo_pc].
          rewrite (drain_one _ _ _ _ w _ _ true Hit). cbn [fst snd]. rewrite (Hnpc eq_refl).
          eexists _, st'. split; [replace (cyc + 2) with (cyc + 1 + 1) by lia; reflexivity|]. split; [|exact HS'].
          rewrite <- Hmem'.
          apply (R_intro (mk_sk (mk_fu next (fu_remaining fu1) false false) l1i1 sbus_empty sbus_empty (eu_done e2) zero_pw None)
                         (wapply (embed e) (cur_regs cur rg)) l1d w _ None st'); auto; try discriminate.
          -- rewrite <- Hregs, <- Hregs'. exact Hsi'.
          -- rewrite wapply_length, cur_regs_length. exact Hlen.
          -- cbn [cur_regs]. rewrite <- Hregs. exact Hregs'.
        * cbn [eo_ret eo_flush]. rewrite complete_false.
          eexists _, st'. split; [reflexivity|]. split; [|exact HS'].
          rewrite <- Hmem', Hcw.
          apply (R_intro (mk_sk fu1 l1i1 dbus2 ebus2 (eu_done e2) (wdel (pw_add (k_pw a) (instr_WriteRegisters i)) (k_wb a))
                                (Some (instr_WriteRegisters i)))
                         (cur_regs cur rg) l1d w _ (Some (embed e, instr_WriteRegisters i)) st'); auto.
          -- rewrite <- Hregs. exact Hsi.
          -- rewrite cur_regs_length. exact Hlen.
          -- intros x Hx. injection Hx as <-. split; assumption.
          -- cbn [cur_regs]. rewrite <- Hregs. exact Hregs'.
  Qed.
End Sim.
