(* Refinement of MVP-6.0 (Mvp60.v) to the sequential machine on register-only
   programs - part 1: the value-level core, independent of the machine.

   Instructions are numbered by their position k in the text (pc = 4k).  Between two
   flushes the machine follows the fall-through path from [base]; [sreg k] is the
   register file of the sequential machine before instruction k of that path
   (sreg base = regs0).  The out-of-order back end of
   MVP-6.0 is abstracted to
     d   : the number of instructions dispatched so far (dispatch is in order),
     F   : the list of instructions in flight (dispatched, not yet written back),
     rg  : the register file, pw / pr : the two scoreboards,
   and [BackSem d rg pw pr F] is the invariant that makes it correct:
     - window independence: an instruction j in flight is independent (no RAW, no
       WAW, no WAR on a tracked register slot) of every younger dispatched
       instruction k, whether k is still in flight or has already written back;
     - the scoreboards count exactly the declared registers of F;
     - a register slot written by some j in F still holds its value BEFORE j
       ([sreg j]); a slot written by nobody in F holds its value after all d
       dispatched instructions ([sreg d]).
   The lemmas: dispatch of a hazard-free instruction (bs_dispatch), write-back
   in any order (bs_writeback), an instruction in flight reads its sequential
   operands whenever it executes (bs_reads), invariance under permutation.

   Register numbers are arbitrary integers in the model; the machine works on
   "slots": slot (r) = Z.to_nat r for r <> 0 (all negative numbers share slot 0,
   which is different from the hard-wired x0).  Slots >= 32 are not tracked by the
   scoreboards; they are harmless because the register file has at most 32
   entries (hypothesis), so they always read 0. *)
From Coq Require Import ZArith List Bool Lia Permutation.
From Maj Require Import Base.Outcome Base.GoInt Base.GoTypes Isa.Spec Isa.Embed Isa.Seq Isa.Refine.
From Maj Require Import Gen.Opcodes Mvp.Mvp12 Mvp.Mvp12Proofs Mvp.Mvp3Proofs.
Import ListNotations.
Open Scope Z_scope.

(* ------------------------------------------------------------------ *)
(* slots and counting                                                   *)

Definition slots (rs : list Z) : list nat := map Z.to_nat (filter (fun r => negb (r =? 0)) rs).

Definition cnt1 (l : list nat) (s : nat) : Z := Z.of_nat (count_occ Nat.eq_dec l s).

Fixpoint cnt (f : nat -> list nat) (F : list nat) (s : nat) : Z :=
  match F with
  | [] => 0
  | j :: t => cnt1 (f j) s + cnt f t s
  end.

Lemma cnt1_nonneg l s : 0 <= cnt1 l s.
Proof. unfold cnt1. lia. Qed.

Lemma cnt1_pos l s : 0 < cnt1 l s <-> In s l.
Proof. unfold cnt1. rewrite (count_occ_In Nat.eq_dec). lia. Qed.

Lemma cnt1_zero l s : cnt1 l s = 0 <-> ~ In s l.
Proof. unfold cnt1. rewrite (count_occ_not_In Nat.eq_dec). lia. Qed.

Lemma cnt_nonneg f F s : 0 <= cnt f F s.
Proof. induction F as [|j t IH]; cbn [cnt]; [lia|]. pose proof (cnt1_nonneg (f j) s). lia. Qed.

Lemma cnt_zero f F s : cnt f F s = 0 <-> (forall j, In j F -> ~ In s (f j)).
Proof.
  induction F as [|j t IH]; cbn [cnt].
  - split; [intros _ j [] | reflexivity].
  - pose proof (cnt1_nonneg (f j) s). pose proof (cnt_nonneg f t s). split.
    + intros H1 j' [<-|Hj]; [apply cnt1_zero; lia | apply IH; [lia | exact Hj]].
    + intros Hall. assert (cnt1 (f j) s = 0) by (apply cnt1_zero, Hall; left; reflexivity).
      assert (cnt f t s = 0) by (apply IH; intros j' Hj'; apply Hall; right; exact Hj'). lia.
Qed.

Lemma cnt_zero_elim f F s j : cnt f F s = 0 -> In j F -> ~ In s (f j).
Proof. intros H. apply (proj1 (cnt_zero f F s) H). Qed.

Lemma cnt_perm f F F' s : Permutation F F' -> cnt f F s = cnt f F' s.
Proof. induction 1; cbn [cnt]; lia. Qed.

Lemma cnt_app f F G s : cnt f (F ++ G) s = cnt f F s + cnt f G s.
Proof. induction F as [|j t IH]; cbn [cnt app]; lia. Qed.

Lemma slots_in rs s : In s (slots rs) <-> exists r, In r rs /\ r <> 0 /\ Z.to_nat r = s.
Proof.
  unfold slots. rewrite in_map_iff. split.
  - intros (r & Hr & Hin). apply filter_In in Hin as [Hin Hnz]. exists r. repeat split; auto.
    intros ->. discriminate.
  - intros (r & Hin & Hnz & Hr). exists r. split; [exact Hr|]. apply filter_In. split; [exact Hin|].
    destruct (Z.eqb_spec r 0); [contradiction | reflexivity].
Qed.

Lemma slots_single rd : slots [rd] = if rd =? 0 then [] else [Z.to_nat rd].
Proof. unfold slots. cbn [filter]. destruct (rd =? 0); reflexivity. Qed.

(* ------------------------------------------------------------------ *)
(* register files                                                       *)

Lemma nth_rset rg rd v s :
  nth s (rset rg rd v) 0 =
  if negb (rd =? 0) && Nat.eqb (Z.to_nat rd) s && Nat.ltb s (length rg) then v else nth s rg 0.
Proof.
  unfold rset. destruct (rd =? 0) eqn:E0; cbn [negb andb]; [reflexivity|].
  destruct (Nat.eqb_spec (Z.to_nat rd) s) as [<-|Hne]; cbn [andb].
  - destruct (Nat.ltb_spec (Z.to_nat rd) (length rg)) as [Hlt|Hge].
    + apply supd_nth_eq. exact Hlt.
    + rewrite nth_overflow; [|rewrite supd_length; exact Hge]. rewrite nth_overflow by exact Hge. reflexivity.
  - apply supd_nth_neq. exact Hne.
Qed.

Lemma rset_length rg rd v : length (rset rg rd v) = length rg.
Proof. unfold rset. destruct (rd =? 0); [reflexivity | apply supd_length]. Qed.

Lemma rget_nth rg r : rget rg r = if r =? 0 then 0 else nth (Z.to_nat r) rg 0.
Proof. reflexivity. Qed.

(* an EReg result is always in the int32 range (no hypothesis on the labels) *)
Lemma exec_reg_range si rr labels pc mem rd v : exec si rr labels pc mem = Ok (EReg rd v) -> int32 v.
Proof.
  intros H. destruct si; cbn [exec] in H; unfold branch in H;
    repeat match type of H with
           | context [if ?c then _ else _] => destruct c eqn:?
           | context [match labels ?l with Some _ => _ | None => _ end] => destruct (labels l) eqn:?
           end; try discriminate; injection H as <- <-;
    try (unf_rng; lia); try apply s_range; try apply s8_range32; try apply s16_range; try apply bool01_range;
    try (apply sra_range; apply shamt_range).
Qed.

Lemma exec_link_range si rr labels pc mem rd v a : exec si rr labels pc mem = Ok (ELink rd v a) -> int32 v.
Proof.
  intros H. destruct si; cbn [exec] in H; unfold branch in H;
    repeat match type of H with
           | context [if ?c then _ else _] => destruct c eqn:?
           | context [match labels ?l with Some _ => _ | None => _ end] => destruct (labels l) eqn:?
           end; try discriminate; injection H as <- <- <-; apply s_range.
Qed.

Section Sem.
  (* [base]: the index at which the current straight-line segment starts (0 for a whole
     straight-line program; the target of the last taken jump otherwise); [regs0]: the
     register file at that point *)
  Variables (app : list instr) (labels : Z -> option Z) (regs0 : list Z) (base : nat).
  Hypothesis Hlen0 : (length regs0 <= 32)%nat.
  Hypothesis Hr32 : Forall int32 regs0.

  Definition dfl : instr := I_nop mk_nop.
  Definition ik (k : nat) : instr := nth k app dfl.
  Definition pcz (k : nat) : Z := 4 * Z.of_nat k.
  Definition rsl (k : nat) : list nat := slots (instr_ReadRegisters (ik k)).
  Definition wsl (k : nat) : list nat := slots (instr_WriteRegisters (ik k)).

  Definition eff_at (k : nat) (rg : list Z) : effect :=
    match exec (sinstr_of (ik k)) (rget rg) labels (pcz k) [] with Ok e => e | _ => EFall end.
  (* the register effect of an instruction (jal / jalr write the link register) *)
  Definition apply_eff (e : effect) (rg : list Z) : list Z :=
    match e with EReg rd v | ELink rd v _ => rset rg rd v | _ => rg end.
  (* the register file of the sequential machine before instruction k of a straight-line
     (fall-through) run that starts at [base] with [regs0] *)
  Fixpoint sreg (k : nat) : list Z :=
    match k with
    | O => regs0
    | S k' => if (k' <? base)%nat then regs0 else apply_eff (eff_at k' (sreg k')) (sreg k')
    end.
  Definition eff (k : nat) : effect := eff_at k (sreg k).

  Lemma sreg_S k : (base <= k)%nat -> sreg (S k) = apply_eff (eff k) (sreg k).
  Proof. intros H. cbn [sreg]. destruct (Nat.ltb_spec k base); [lia | reflexivity]. Qed.

  Lemma sreg_base k : (k <= base)%nat -> sreg k = regs0.
  Proof. destruct k as [|k]; [reflexivity|]. intros H. cbn [sreg]. destruct (Nat.ltb_spec k base); [reflexivity | lia]. Qed.

  Lemma apply_eff_length e rg : length (apply_eff e rg) = length rg.
  Proof. destruct e; cbn [apply_eff]; try reflexivity; apply rset_length. Qed.

  Lemma sreg_length k : length (sreg k) = length regs0.
  Proof.
    induction k as [|k IH]; [reflexivity|]. cbn [sreg]. destruct (k <? base)%nat; [reflexivity|].
    rewrite apply_eff_length. exact IH.
  Qed.

  (* what an effect can write is declared *)
  Lemma eff_at_wsl k rg : match eff_at k rg with EReg rd _ | ELink rd _ _ => wsl k = slots [rd] | _ => True end.
  Proof.
    unfold eff_at. destruct (exec (sinstr_of (ik k)) (rget rg) labels (pcz k) []) as [e| |] eqn:E; try exact I.
    destruct e; try exact I; apply spec_writes_sound in E; unfold wsl; rewrite write_registers_exact, E; reflexivity.
  Qed.

  Lemma nth_rset_other rg rd v s : ~ In s (slots [rd]) -> nth s (rset rg rd v) 0 = nth s rg 0.
  Proof.
    intros Hn. rewrite nth_rset. rewrite slots_single in Hn.
    destruct (rd =? 0) eqn:E0; cbn [negb andb]; [reflexivity|].
    destruct (Nat.eqb_spec (Z.to_nat rd) s) as [<-|]; cbn [andb]; [|reflexivity].
    exfalso. apply Hn. left. reflexivity.
  Qed.

  Lemma apply_other k rg0 rg s : ~ In s (wsl k) -> nth s (apply_eff (eff_at k rg0) rg) 0 = nth s rg 0.
  Proof.
    intros Hn. pose proof (eff_at_wsl k rg0) as Hw. destruct (eff_at k rg0); cbn [apply_eff]; try reflexivity;
      apply nth_rset_other; rewrite <- Hw; exact Hn.
  Qed.

  Lemma sreg_S_other k s : ~ In s (wsl k) -> nth s (sreg (S k)) 0 = nth s (sreg k) 0.
  Proof.
    intros H. destruct (Nat.lt_ge_cases k base) as [Hlt|Hge].
    - rewrite !sreg_base by lia. reflexivity.
    - rewrite sreg_S by exact Hge. apply apply_other. exact H.
  Qed.

  (* a slot nobody in [a, b) writes is the same before a and before b *)
  Lemma sreg_stable s a b : (a <= b)%nat -> (forall k, (a <= k < b)%nat -> ~ In s (wsl k)) ->
    nth s (sreg b) 0 = nth s (sreg a) 0.
  Proof.
    intros Hab. induction Hab as [|b Hab IH]; intros H; [reflexivity|].
    rewrite sreg_S_other by (apply H; lia). apply IH. intros k Hk. apply H. lia.
  Qed.

  Lemma apply_eff_int32 k rg0 rg : Forall int32 rg -> Forall int32 (apply_eff (eff_at k rg0) rg).
  Proof.
    intros H. unfold eff_at. destruct (exec (sinstr_of (ik k)) (rget rg0) labels (pcz k) []) as [e| |] eqn:E; try exact H.
    destruct e; cbn [apply_eff]; try exact H; (apply rset_int32; [exact H|]);
      [eapply exec_reg_range; exact E | eapply exec_link_range; exact E].
  Qed.

  Lemma sreg_int32 k : Forall int32 (sreg k).
  Proof.
    induction k as [|k IH]; [exact Hr32|]. cbn [sreg]. destruct (k <? base)%nat; [exact Hr32|].
    apply apply_eff_int32. exact IH.
  Qed.

  (* ---------------------------------------------------------------- *)
  (* independence and the invariant                                    *)

  Definition indep (j k : nat) : Prop :=
    forall s, (s < 32)%nat ->
      (In s (wsl j) -> ~ In s (rsl k) /\ ~ In s (wsl k)) /\ (In s (rsl j) -> ~ In s (wsl k)).

  Record BackSem (d : nat) (rg pw pr : list Z) (F : list nat) : Prop := mkBS {
    bs_nodup : NoDup F;
    bs_lt : forall j, In j F -> (base <= j < d)%nat;
    bs_ind : forall j k, In j F -> (j < k < d)%nat -> indep j k;
    bs_pwlen : length pw = 32%nat;
    bs_prlen : length pr = 32%nat;
    bs_pw : forall s, (s < 32)%nat -> nth s pw 0 = cnt wsl F s;
    bs_pr : forall s, (s < 32)%nat -> nth s pr 0 = cnt rsl F s;
    bs_rlen : length rg = length regs0;
    bs_r32 : Forall int32 rg;
    bs_rA : forall s j, (s < length regs0)%nat -> In j F -> In s (wsl j) -> nth s rg 0 = nth s (sreg j) 0;
    bs_rB : forall s, (s < length regs0)%nat -> (forall j, In j F -> ~ In s (wsl j)) -> nth s rg 0 = nth s (sreg d) 0 }.

  Lemma bs_perm d rg pw pr F F' : Permutation F F' -> BackSem d rg pw pr F -> BackSem d rg pw pr F'.
  Proof.
    intros HP [H1 H2 H3 H4 H5 H6 H7 H8 H9 HA HB].
    assert (Hin : forall j, In j F' -> In j F) by (intros j Hj; eapply Permutation_in; [apply Permutation_sym; exact HP | exact Hj]).
    constructor; auto.
    - eapply Permutation_NoDup; eassumption.
    - intros s Hs. rewrite H6 by exact Hs. apply cnt_perm. exact HP.
    - intros s Hs. rewrite H7 by exact Hs. apply cnt_perm. exact HP.
    - intros s Hs Hno. apply HB; [exact Hs|]. intros j Hj. apply Hno. eapply Permutation_in; eassumption.
  Qed.

  (* two distinct instructions in flight are independent of each other (older first) *)
  Lemma bs_pair d rg pw pr F j j' : BackSem d rg pw pr F -> In j F -> In j' F -> (j < j')%nat -> indep j j'.
  Proof. intros H Hj Hj' Hlt. apply (bs_ind _ _ _ _ _ H); [exact Hj|]. split; [exact Hlt | apply (bs_lt _ _ _ _ _ H j'); exact Hj']. Qed.

  (* no two instructions in flight write the same tracked slot *)
  Lemma bs_writer_unique d rg pw pr F j j' s : BackSem d rg pw pr F -> (s < 32)%nat ->
    In j F -> In j' F -> In s (wsl j) -> In s (wsl j') -> j = j'.
  Proof.
    intros H Hs Hj Hj' Hw Hw'. destruct (Nat.lt_trichotomy j j') as [Hlt|[Heq|Hgt]]; [|exact Heq|].
    - exfalso. destruct (bs_pair _ _ _ _ _ _ _ H Hj Hj' Hlt s Hs) as [Hx _]. destruct (Hx Hw) as [_ Hc]. exact (Hc Hw').
    - exfalso. destruct (bs_pair _ _ _ _ _ _ _ H Hj' Hj Hgt s Hs) as [Hx _]. destruct (Hx Hw') as [_ Hc]. exact (Hc Hw).
  Qed.

  (* ---------------------------------------------------------------- *)
  (* an instruction in flight reads its sequential operands            *)

  Lemma bs_slot_read d rg pw pr F j s : BackSem d rg pw pr F -> In j F -> In s (rsl j) ->
    nth s rg 0 = nth s (sreg j) 0.
  Proof.
    intros H Hj Hr.
    destruct (Nat.lt_ge_cases s (length regs0)) as [Hs|Hs].
    2:{ rewrite !nth_overflow; [reflexivity | rewrite sreg_length; exact Hs | rewrite (bs_rlen _ _ _ _ _ H); exact Hs]. }
    assert (Hs32 : (s < 32)%nat) by lia.
    pose proof (bs_lt _ _ _ _ _ H j Hj) as Hjd.
    destruct (Exists_dec (fun j' => In s (wsl j')) F (fun j' => in_dec Nat.eq_dec s (wsl j'))) as [Hex|Hno].
    - apply Exists_exists in Hex as (j' & Hj' & Hw).
      destruct (Nat.lt_trichotomy j' j) as [Hlt|[Heq|Hgt]].
      + exfalso. destruct (bs_pair _ _ _ _ _ _ _ H Hj' Hj Hlt s Hs32) as [Hx _]. destruct (Hx Hw) as [Hc _]. exact (Hc Hr).
      + subst j'. apply (bs_rA _ _ _ _ _ H); assumption.
      + exfalso. destruct (bs_pair _ _ _ _ _ _ _ H Hj Hj' Hgt s Hs32) as [_ Hx]. exact (Hx Hr Hw).
    - rewrite (bs_rB _ _ _ _ _ H s Hs).
      2:{ intros j' Hj' Hw. apply Hno. apply Exists_exists. exists j'. auto. }
      apply sreg_stable; [lia|]. intros k Hk Hw.
      destruct (Nat.eq_dec k j) as [->|Hne].
      + apply Hno. apply Exists_exists. exists j. auto.
      + destruct (bs_ind _ _ _ _ _ H j k Hj ltac:(lia) s Hs32) as [_ Hx]. exact (Hx Hr Hw).
  Qed.

  Lemma bs_reads d rg pw pr F j r : BackSem d rg pw pr F -> In j F -> In r (instr_ReadRegisters (ik j)) ->
    rget rg r = rget (sreg j) r.
  Proof.
    intros H Hj Hr. rewrite !rget_nth. destruct (Z.eqb_spec r 0) as [|Hnz]; [reflexivity|].
    eapply bs_slot_read; [exact H | exact Hj|]. apply slots_in. exists r. auto.
  Qed.

  (* the instruction computes its sequential effect *)
  Lemma bs_exec d rg pw pr F j : BackSem d rg pw pr F -> In j F ->
    exec (sinstr_of (ik j)) (rget rg) labels (pcz j) [] = exec (sinstr_of (ik j)) (rget (sreg j)) labels (pcz j) [].
  Proof.
    intros H Hj. apply spec_reads_sound. intros r Hr. rewrite <- read_registers_exact in Hr.
    eapply bs_reads; eassumption.
  Qed.

  (* ---------------------------------------------------------------- *)
  (* dispatch                                                          *)

  Definition hazard_free (F : list nat) (k : nat) : Prop :=
    forall s, (s < 32)%nat ->
      (In s (rsl k) -> cnt wsl F s = 0) /\ (In s (wsl k) -> cnt wsl F s = 0 /\ cnt rsl F s = 0).

  Lemma bs_dispatch d rg pw pr pw' pr' F : BackSem d rg pw pr F -> (base <= d)%nat -> hazard_free F d ->
    length pw' = 32%nat -> length pr' = 32%nat ->
    (forall s, (s < 32)%nat -> nth s pw' 0 = nth s pw 0 + cnt1 (wsl d) s) ->
    (forall s, (s < 32)%nat -> nth s pr' 0 = nth s pr 0 + cnt1 (rsl d) s) ->
    BackSem (S d) rg pw' pr' (d :: F).
  Proof.
    intros H Hbd Hhf Hl1 Hl2 Hpw Hpr. pose proof H as [H1 H2 H3 H4 H5 H6 H7 H8 H9 HA HB]. constructor; auto.
    - constructor; [|exact H1]. intros Hin. apply H2 in Hin. lia.
    - intros j [<-|Hj]; [lia|]. apply H2 in Hj. lia.
    - intros j k [<-|Hj] Hk; [lia|]. destruct (Nat.eq_dec k d) as [->|Hne].
      + (* the new instruction against an older one in flight: from the hazard check *)
        intros s Hs. destruct (Hhf s Hs) as [Hr Hw]. split.
        * intros Hwj. split.
          -- intros Hrd. apply Hr in Hrd. exact (cnt_zero_elim _ _ _ _ Hrd Hj Hwj).
          -- intros Hwd. apply Hw in Hwd as [Hwd _]. exact (cnt_zero_elim _ _ _ _ Hwd Hj Hwj).
        * intros Hrj Hwd. apply Hw in Hwd as [_ Hwd]. exact (cnt_zero_elim _ _ _ _ Hwd Hj Hrj).
      + apply H3; [exact Hj | lia].
    - intros s Hs. rewrite Hpw, H6 by exact Hs. cbn [cnt]. lia.
    - intros s Hs. rewrite Hpr, H7 by exact Hs. cbn [cnt]. lia.
    - intros s j Hs [<-|Hj] Hw; [|apply HA; assumption].
      apply HB; [exact Hs|]. destruct (Hhf s ltac:(lia)) as [_ Hx]. apply Hx in Hw as [Hw _]. intros j Hj. exact (cnt_zero_elim _ _ _ _ Hw Hj).
    - intros s Hs Hno. rewrite sreg_S_other by (apply Hno; left; reflexivity).
      apply HB; [exact Hs|]. intros j Hj. apply Hno. right. exact Hj.
  Qed.

  (* ---------------------------------------------------------------- *)
  (* write-back                                                        *)

  (* j's effect, computed on ITS sequential operands, is applied to the current file *)
  Definition eff_writes_reg (e : effect) : Prop :=
    (exists rd v, e = EReg rd v) \/ (exists rd v a, e = ELink rd v a).

  Lemma bs_writeback d rg pw pr pw' pr' F j : BackSem d rg pw pr (j :: F) ->
    (forall s, In s (wsl j) -> eff_writes_reg (eff j)) ->
    length pw' = 32%nat -> length pr' = 32%nat ->
    (forall s, (s < 32)%nat -> nth s pw' 0 = nth s pw 0 - cnt1 (wsl j) s) ->
    (forall s, (s < 32)%nat -> nth s pr' 0 = nth s pr 0 - cnt1 (rsl j) s) ->
    BackSem d (apply_eff (eff j) rg) pw' pr' F.
  Proof.
    intros H Heff Hl1 Hl2 Hpw Hpr. pose proof H as [H1 H2 H3 H4 H5 H6 H7 H8 H9 HA HB].
    assert (Hjd : (base <= j < d)%nat) by (apply H2; left; reflexivity).
    assert (HjF : ~ In j F) by (inversion H1; assumption).
    constructor; auto.
    - inversion H1; assumption.
    - intros j' Hj'. apply H2. right. exact Hj'.
    - intros j' k Hj' Hk. apply H3; [right; exact Hj' | exact Hk].
    - intros s Hs. rewrite Hpw, H6 by exact Hs. cbn [cnt]. lia.
    - intros s Hs. rewrite Hpr, H7 by exact Hs. cbn [cnt]. lia.
    - rewrite apply_eff_length. exact H8.
    - apply apply_eff_int32. exact H9.
    - intros s j' Hs Hj' Hw. unfold eff. rewrite apply_other.
      + apply HA; [exact Hs | right; exact Hj' | exact Hw].
      + intros Hwj. assert (j = j'); [|subst j'; contradiction].
        eapply (bs_writer_unique _ _ _ _ _ j j' s H); auto; try lia; [left; reflexivity | right; exact Hj'].
    - intros s Hs Hno. destruct (in_dec Nat.eq_dec s (wsl j)) as [Hw|Hnw].
      + (* the slot j writes: its new value is the one after j, and nobody in (j, d) writes it *)
        transitivity (nth s (sreg (S j)) 0).
        * rewrite sreg_S by lia. pose proof (eff_at_wsl j (sreg j)) as Hwj. fold (eff j) in Hwj.
          assert (Hrs : exists rd v, apply_eff (eff j) = (fun r => rset r rd v) /\ wsl j = slots [rd]).
          { destruct (Heff s Hw) as [(rd & v & Ee)|(rd & v & a & Ee)]; rewrite Ee in *; exists rd, v; split; auto. }
          destruct Hrs as (rd & v & -> & Hwj'). rewrite !nth_rset.
          rewrite sreg_length, H8.
          rewrite Hwj', slots_single in Hw. destruct (rd =? 0); [destruct Hw|]. destruct Hw as [<-|[]].
          cbn [negb andb]. rewrite Nat.eqb_refl. cbn [andb].
          destruct (Nat.ltb_spec (Z.to_nat rd) (length regs0)); [reflexivity | lia].
        * symmetry. apply sreg_stable; [lia|]. intros k Hk Hwk.
          destruct (H3 j k (or_introl eq_refl) ltac:(lia) s ltac:(lia)) as [Hx _]. destruct (Hx Hw) as [_ Hc]. exact (Hc Hwk).
      + unfold eff. rewrite apply_other by exact Hnw. apply HB; [exact Hs|].
        intros j' [<-|Hj']; [exact Hnw | apply Hno; exact Hj'].
  Qed.

  (* an instruction without declared registers (ret, nop) leaves the flight without a trace *)
  Lemma bs_drop d rg pw pr F j : BackSem d rg pw pr (j :: F) -> wsl j = [] -> rsl j = [] -> BackSem d rg pw pr F.
  Proof.
    intros H Hw Hr. pose proof H as [H1 H2 H3 H4 H5 H6 H7 H8 H9 HA HB]. constructor; auto.
    - inversion H1; assumption.
    - intros j' Hj'. apply H2. right. exact Hj'.
    - intros j' k Hj' Hk. apply H3; [right; exact Hj' | exact Hk].
    - intros s Hs. rewrite H6 by exact Hs. cbn [cnt]. rewrite Hw. reflexivity.
    - intros s Hs. rewrite H7 by exact Hs. cbn [cnt]. rewrite Hr. reflexivity.
    - intros s j' Hs Hj' Hw'. apply HA; [exact Hs | right; exact Hj' | exact Hw'].
    - intros s Hs Hno. apply HB; [exact Hs|]. intros j' [<-|Hj']; [rewrite Hw; intros [] | apply Hno; exact Hj'].
  Qed.

  (* nothing in flight: the register file is the sequential one *)
  Lemma bs_empty d rg pw pr : BackSem d rg pw pr [] -> rg = sreg d.
  Proof.
    intros H. apply (nth_ext _ _ 0 0).
    - rewrite sreg_length. apply (bs_rlen _ _ _ _ _ H).
    - intros s Hs. rewrite (bs_rlen _ _ _ _ _ H) in Hs. apply (bs_rB _ _ _ _ _ H); [exact Hs|]. intros j [].
  Qed.

  Lemma bs_init pw pr : pw = repeat 0 32 -> pr = repeat 0 32 -> BackSem base regs0 pw pr [].
  Proof.
    intros -> ->. constructor; try reflexivity; auto.
    - constructor.
    - intros j [].
    - intros j k [].
    - intros s Hs. cbn [cnt]. apply nth_repeat.
    - intros s Hs. cbn [cnt]. apply nth_repeat.
    - intros s j _ [].
    - intros s Hs _. rewrite sreg_base by lia. reflexivity.
  Qed.

  (* ---------------------------------------------------------------- *)
  (* squashing the wrong path                                          *)

  (* BackSem without the scoreboards: what is left of it while a flush drains the write bus
     (dropped wrong-path entries stay in F as ghosts, their counters are not decremented) *)
  Record BackSemW (d : nat) (rg : list Z) (F : list nat) : Prop := mkBSW {
    bw_nodup : NoDup F;
    bw_lt : forall j, In j F -> (base <= j < d)%nat;
    bw_ind : forall j k, In j F -> (j < k < d)%nat -> indep j k;
    bw_rlen : length rg = length regs0;
    bw_r32 : Forall int32 rg;
    bw_rA : forall s j, (s < length regs0)%nat -> In j F -> In s (wsl j) -> nth s rg 0 = nth s (sreg j) 0;
    bw_rB : forall s, (s < length regs0)%nat -> (forall j, In j F -> ~ In s (wsl j)) -> nth s rg 0 = nth s (sreg d) 0 }.

  Lemma bs_weak d rg pw pr F : BackSem d rg pw pr F -> BackSemW d rg F.
  Proof. intros [H1 H2 H3 H4 H5 H6 H7 H8 H9 HA HB]. constructor; auto. Qed.

  Lemma bw_perm d rg F F' : Permutation F F' -> BackSemW d rg F -> BackSemW d rg F'.
  Proof.
    intros HP [H1 H2 H3 H8 H9 HA HB].
    assert (Hin : forall j, In j F' -> In j F) by (intros j Hj; eapply Permutation_in; [apply Permutation_sym; exact HP | exact Hj]).
    constructor; auto.
    - eapply Permutation_NoDup; eassumption.
    - intros s Hs Hno. apply HB; [exact Hs|]. intros j Hj. apply Hno. eapply Permutation_in; eassumption.
  Qed.

  (* the weak invariant is BackSem with SOME scoreboards: reuse the write-back lemma *)
  Lemma bw_writeback d rg F j : BackSemW d rg (j :: F) ->
    (forall s, In s (wsl j) -> eff_writes_reg (eff j)) -> BackSemW d (apply_eff (eff j) rg) F.
  Proof.
    intros [H1 H2 H3 H8 H9 HA HB] Heff.
    set (pw := map (fun s => cnt wsl (j :: F) s) (seq 0 32)). set (pr := map (fun s => cnt rsl (j :: F) s) (seq 0 32)).
    set (pw' := map (fun s => cnt wsl F s) (seq 0 32)). set (pr' := map (fun s => cnt rsl F s) (seq 0 32)).
    assert (Hn : forall (g : nat -> Z) s, (s < 32)%nat -> nth s (map g (seq 0 32)) 0 = g s).
    { intros g s Hs. rewrite (nth_indep _ 0 (g 0%nat)) by (rewrite map_length, seq_length; exact Hs).
      rewrite map_nth, seq_nth by exact Hs. reflexivity. }
    assert (HS : BackSem d rg pw pr (j :: F)).
    { constructor; auto; unfold pw, pr; try (rewrite map_length, seq_length; reflexivity); intros s Hs; apply Hn; exact Hs. }
    apply bs_weak with (pw := pw') (pr := pr'). eapply bs_writeback; [exact HS | exact Heff | | | |];
      unfold pw', pr', pw, pr; try (rewrite map_length, seq_length; reflexivity);
      intros s Hs; rewrite !Hn by exact Hs; cbn [cnt]; lia.
  Qed.

  (* when exactly the instructions younger than E are left (none of them written back), the
     register file is the sequential one after E *)
  Lemma bw_squash d rg F E : BackSemW d rg F -> (E < d)%nat ->
    (forall k, In k F <-> (E < k < d)%nat) -> rg = sreg (S E).
  Proof.
    intros [H1 H2 H3 H8 H9 HA HB] HEd HF. apply (nth_ext _ _ 0 0).
    - rewrite sreg_length. exact H8.
    - intros s Hs. rewrite H8 in Hs. assert (Hs32 : (s < 32)%nat) by lia.
      destruct (Exists_dec (fun j' => In s (wsl j')) F (fun j' => in_dec Nat.eq_dec s (wsl j'))) as [Hex|Hno].
      + apply Exists_exists in Hex as (j & Hj & Hw). rewrite (HA s j Hs Hj Hw).
        pose proof (proj1 (HF j) Hj) as Hjr.
        apply sreg_stable; [lia|]. intros k Hk Hwk.
        assert (Hk' : In k F) by (apply HF; lia).
        destruct (H3 k j Hk' ltac:(lia) s Hs32) as [Hx _]. destruct (Hx Hwk) as [_ Hc]. exact (Hc Hw).
      + rewrite (HB s Hs).
        2:{ intros j Hj Hw. apply Hno. apply Exists_exists. exists j. auto. }
        apply sreg_stable; [lia|]. intros k Hk Hwk. apply Hno. apply Exists_exists. exists k. split; [apply HF; lia | exact Hwk].
  Qed.
End Sem.
