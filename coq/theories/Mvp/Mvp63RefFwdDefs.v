(* Refinement of MVP-6.3 to the sequential machine on single-assignment register-only programs with FORWARD
   control flow - part 1: definitions shared by the parts of the extension.

   A run is cut into segments (as in Mvp60RefSeg.v): a segment starts at instruction [base] (0, or the target of
   the last jump / taken branch) with the sequential register file [regs0] there and ctx.sequenceID = [sq];
   instruction k of the segment carries the tag  sid k = 4k + 1000 sq.

     vw w r      what registerRead must find in the two alias tables for register r once the instructions
                 base .. w-1 of the segment have written back: the sequential register file sreg w;
     tview       what registerRead does find (transactionRAT first, then committedRAT);
     TabOK w     the invariant of the two tables (keys, view, tags of transactionRAT below sid w);
     rnq / wbq   the runner / write-back record that stands for instruction k, with its tag;
     untag_m     the machine of MVP-6.0 with the tags of the control bus erased (the bridge to Mvp60RefStep.FrontI);
     Fresh3      the state right after NewCPU ; InitRAT and right after CPU.flush. *)
From Coq Require Import ZArith List Bool Lia Permutation.
From Maj Require Import Base.Outcome Base.GoInt Base.GoTypes Isa.Spec Isa.Embed Isa.Seq Isa.Refine.
From Maj Require Import Gen.Latency Gen.RiscTables Gen.Opcodes Comp.Cache Comp.Rat Comp.RatProofs.
From Maj Require Import Mvp.Mvp12 Mvp.Mvp12Proofs Mvp.Mvp3 Mvp.Mvp3Proofs Mvp.Mvp4Skel Mvp.Mvp4Inv Mvp.Mvp5 Mvp.Mvp60
     Mvp.Mvp60RefSem Mvp.Mvp60RefDefs Mvp.Mvp60RefFront Mvp.Mvp60RefBack Mvp.Mvp60RefStep Mvp.Mvp60RefStep2
     Mvp.Mvp63 Mvp.Mvp63RefDefs Mvp.Mvp63RefInv Mvp.Mvp63RefExec.
Import ListNotations.
Open Scope Z_scope.

(* ------------------------------------------------------------------ *)
(* tags                                                                 *)

Definition sid3 (sq : Z) (k : nat) : Z := pcz k + 1000 * sq.

(* what registerRead finds in the tables *)
Definition tview (crat : @rat Z) (trat : @rat (Z * Z)) (r : Z) : Z :=
  match rat_read tu0 trat r with
  | Some v => snd v
  | None => match rat_read 0 crat r with Some v => v | None => 0 end
  end.

(* erase the tags of the runners on the control bus: the machine the front end of MVP-6.0 would have built *)
Definition untag_r (r : runner) : runner := mk_runner (r_instr r) (r_pc r) (r_pc r).
Definition untag_b (b : bbus runner) : bbus runner :=
  mk_bb (map (fun p => (fst p, untag_r (snd p))) (bb_buf b)) (map untag_r (bb_q b)) (bb_ql b) (bb_bl b).
Definition untag_m (m : mach) : mach := set_cbus m (untag_b (m_cbus m)).
(* every runner of the control bus carries the tag of the current ctx.sequenceID *)
Definition TagOK (sq : Z) (b : bbus runner) : Prop := Forall (fun r => r_seq r = r_pc r + 1000 * sq) (flat b).

Section FwdDefs.
  Variables (app : list instr) (labels : Z -> option Z) (regs0 mem0 : list Z) (base : nat) (sq : Z).
  Let n := length app.
  Let N := stop_from app base.

  Notation sreg := (sreg app labels regs0 base).
  Notation eff := (eff app labels regs0 base).
  Notation ik := (ik app).
  Notation wsl := (wsl app).
  Notation rsl := (rsl app).
  Notation rds := (rds app).
  Notation wrs := (wrs app).
  Notation kout := (kout app labels regs0 base).

  Definition sid (k : nat) : Z := sid3 sq k.
  Definition exeb (k : nat) : execution := embed (eff k).
  Definition rnq (k : nat) : runner := mk_runner (ik k) (pcz k) (sid k).
  Definition wbq (k : nat) : wb6 := mk_wb6 (sid k) (exeb k) (instr_ReadRegisters (ik k)) (instr_WriteRegisters (ik k)).

  (* the sequential register file as registerRead sees it *)
  Definition vw (w : nat) (r : Z) : Z := if (0 <=? r) && (r <? 32) then nth (Z.to_nat r) (sreg w) 0 else 0.

  Record TabOK (w : nat) (crat : @rat Z) (trat : @rat (Z * Z)) : Prop := mkTabOK {
    tb_cok : rat_ok crat;
    tb_tok : rat_ok trat;
    tb_ckeys : forall r, rat_read 0 crat r <> None <-> 0 <= r < 32;
    tb_tkeys : forall r, rat_read tu0 trat r <> None -> 0 <= r < 32;
    tb_view : forall r, tview crat trat r = vw w r;
    tb_ttag : forall r v, rat_read tu0 trat r = Some v -> fst v < sid w }.

  (* ---------------------------------------------------------------- *)
  (* the back-end invariant: Mvp63RefInv.BI with a base, a sequence id, branches in flight *)

  Definition RecvOKq (xe : nat) (E : list runner3) (chan : list (Z * Z)) (r : runner3) : Prop :=
    forall ch, q_recv r = Some ch ->
      q_freg r <> 0 /\ exists p, (base <= p < kq r)%nat /\ In (q_freg r) (wrs p) /\
        (((xe <= p)%nat /\ exists rp, In rp E /\ kq rp = p /\ q_fwder rp = Some ch) \/
         ((p < xe)%nat /\ aget ch chan = Some (RegisterValue (exeb p)))).

  (* a runner marked as forwarding source is not a branch (eu.go panics on one) *)
  Definition FwdOKq (chan : list (Z * Z)) (next : Z) (r : runner3) : Prop :=
    forall ch, q_fwder r = Some ch -> aget ch chan = None /\ ch < next /\
      InstructionType_IsBranch (instr_InstructionType (q_instr r)) = false.

  Record BIq (dp d xe w : nat) (pl pv : list runner3) (x : mx) : Prop := mkBIq {
    bq_ord : (base <= w <= xe)%nat /\ (xe <= d)%nat;
    bq_dn : (d <= n)%nat /\ (d <= S N)%nat;
    bq_xeN : (xe <= N)%nat;
    bq_ret : (N < d)%nat -> is_ret (ik N) = true -> (N <= xe)%nat;
    bq_exec : forall k, (base <= k < xe)%nat -> kout k = euo_none;
    bq_ebus : map q_r (flat (x_ebus x)) = map rnq (seq xe (d - xe));
    bq_wbus : flat (m_wbus (x_m x)) = map wbq (seq w (xe - w));
    bq_pwlen : length (m_pw (x_m x)) = 32%nat;
    bq_prlen : length (m_pr (x_m x)) = 32%nat;
    bq_pw : forall s, (s < 32)%nat -> nth s (m_pw (x_m x)) 0 = cnt wsl (seq w (d - w)) s;
    bq_pr : forall s, (s < 32)%nat -> nth s (m_pr (x_m x)) 0 = cnt rsl (seq w (d - w)) s;
    bq_tab : TabOK w (x_crat x) (x_trat x);
    bq_fwd : x_fwd x = repeat (0, 0) n;
    bq_seq : x_seq x = sq;
    bq_pcb : x_pcb x = true -> exists r, In r (flat (x_ebus x)) /\ condbr (ik (kq r)) = true;
    bq_chan : Forall (fun p => fst p < x_next x) (x_chan x);
    bq_idnd : NoDup (map q_id (flat (x_ebus x)));
    bq_idlt : Forall (fun r => q_id r < x_next x) (flat (x_ebus x));
    bq_read : Forall (ReadOK app w) (flat (x_ebus x));
    bq_recv : Forall (RecvOKq xe (flat (x_ebus x)) (x_chan x)) (flat (x_ebus x) ++ pl);
    bq_fwder : Forall (FwdOKq (x_chan x) (x_next x)) (flat (x_ebus x));
    bq_rnd : NoDup (recvs (flat (x_ebus x) ++ pl));
    bq_rlt : Forall (fun ch => ch < x_next x) (recvs (flat (x_ebus x) ++ pl));
    bq_pendr : map q_r pl = map rnq (seq d (length pl));
    bq_pend1 : (length pl <= 1)%nat;
    bq_pendf : Forall (fun r => q_fwder r = None) pl;
    bq_prev : forall p, In p pv -> In p (flat (x_ebus x)) /\ q_fwder p = None /\ (dp <= kq p)%nat;
    bq_prevnd : NoDup (map kq pv);
    bq_regs : length (m_regs (x_m x)) = 32%nat;
    bq_mem : m_mem (x_m x) = mem0;
    bq_l3 : lines (m_l3 (x_m x)) = [];
    bq_os : x_os x = false;
    bq_fnd : NoDup (fwds (flat (x_ebus x))) }.

  (* a stale runner of an idle execute unit is older than everything that is still to execute *)
  Definition StaleOK (bound : Z) (e : eu3) : Prop := forall r, g_runner e = Some r -> q_seq r < bound.

  (* ---------------------------------------------------------------- *)
  (* the flush loops: instruction E of the segment (a jump or a taken branch, target: instruction t) asked
     for a flush; the write bus holds the results w .. E and, behind them, results of the wrong path *)
  Record GF3 (w E t : nat) (sqx : Z) (s : st3) : Prop := mkGF3 {
    f3_E : (base <= w <= S E)%nat /\ (base <= E <= N)%nat /\ (E < n)%nat /\ (E < t <= n)%nat;
    f3_exec : forall k, (base <= k < E)%nat -> kout k = euo_none;
    f3_out : kout E = mk_euo6 true (pcz E) (pcz t) false;
    f3_wbus : exists junk, flat (m_wbus (x_m (t_x s))) = map wbq (seq w (S E - w)) ++ junk /\
                           Forall (fun c => sid E < w_seq c) junk;
    f3_bw : BusOK (t_cycle s) (m_wbus (x_m (t_x s)));
    f3_tab : TabOK w (x_crat (t_x s)) (x_trat (t_x s));
    f3_fwd : x_fwd (t_x s) = repeat (0, 0) n;
    f3_seq : x_seq (t_x s) = sqx /\ sq <= sqx <= sq + 1;
    f3_chan : Forall (fun p => fst p < x_next (t_x s)) (x_chan (t_x s));
    f3_regs : length (m_regs (x_m (t_x s))) = 32%nat;
    f3_mem : m_mem (x_m (t_x s)) = mem0;
    f3_l3 : lines (m_l3 (x_m (t_x s))) = [];
    f3_os : x_os (t_x s) = false;
    f3_l1i : IInv (m_l1i (x_m (t_x s)));
    f3_btb : Forall (fun en => fst en < pcz t) (b_btb (m_bu (x_m (t_x s))));
    f3_ebl : bb_ql (x_ebus (t_x s)) = 2 /\ bb_bl (x_ebus (t_x s)) = 2;
    f3_mbus : bb_ql (m_dbus (x_m (t_x s))) = 2 /\ bb_bl (m_dbus (x_m (t_x s))) = 2 /\
              bb_ql (m_cbus (x_m (t_x s))) = 2 /\ bb_bl (m_cbus (x_m (t_x s))) = 2 /\
              bb_ql (m_ebus (x_m (t_x s))) = 2 /\ bb_bl (m_ebus (x_m (t_x s))) = 2;
    f3_eus : Forall EuIdle (t_eus s);
    f3_stale : Forall (StaleOK (sid (S (S E)))) (t_eus s);
    f3_wus : Forall (fun u => u_co u = WNone) (t_wus s);
    f3_wne : t_wus s <> [];
    f3_len : length (t_eus s) = length (t_wus s);
    f3_mode : (exists from, t_mode s = NFlushE (sid E) (pcz t) from /\
                            bb_q (m_wbus (x_m (t_x s))) = [] /\ blen (m_wbus (x_m (t_x s))) <= 2) \/
              (exists k from, t_mode s = NFlushW k (sid E) (pcz t) from true /\ (k < length (t_wus s))%nat /\
                              bb_buf (m_wbus (x_m (t_x s))) = []) }.
  (* ---------------------------------------------------------------- *)
  (* the main loop and the drain loop after ret (Mvp63RefStep.G3 / GR3)  *)
  Record G3q (dp d c f xe w : nat) (s : st3) : Prop := mkG3q {
    q3_front : FrontI app base (d + length (x_pend (t_x s))) c f (t_cycle s) (untag_m (x_m (t_x s)));
    q3_tag : TagOK sq (m_cbus (x_m (t_x s)));
    q3_cu : m_cu (x_m (t_x s)) = [];
    q3_bi : BIq dp d xe w (x_pend (t_x s)) (x_prev (t_x s)) (t_x s);
    q3_be : BusOK (t_cycle s) (x_ebus (t_x s));
    q3_eb : blen (x_ebus (t_x s)) <= 2;
    q3_eus : Forall EuIdle (t_eus s);
    q3_stale : Forall (StaleOK (sid xe)) (t_eus s);
    q3_wus : Forall (fun u => u_co u = WNone) (t_wus s);
    q3_wne : t_wus s <> [];
    q3_len : length (t_eus s) = length (t_wus s);
    q3_wq : bb_q (m_wbus (x_m (t_x s))) = [];
    q3_wb : blen (m_wbus (x_m (t_x s))) <= Z.of_nat (length (t_wus s));
    q3_wb2 : blen (m_wbus (x_m (t_x s))) <= 2;
    q3_mode : t_mode s = NNormal }.

  Record GR3q (w : nat) (s : st3) : Prop := mkGR3q {
    rq_bi : exists dp, BIq dp N N w [] [] (t_x s);
    rq_N : (N < n)%nat /\ is_ret (ik N) = true;
    rq_eus : Forall EuIdle (t_eus s);
    rq_wus : Forall (fun u => u_co u = WNone) (t_wus s);
    rq_wne : t_wus s <> [];
    rq_wb : bb_buf (m_wbus (x_m (t_x s))) = [];
    rq_wq : bb_q (m_wbus (x_m (t_x s))) <> [];
    rq_bw : BusOK (t_cycle s) (m_wbus (x_m (t_x s)));
    rq_mode : t_mode s = NRet }.

  (* a finished run: Mvp60RefStep2.Fin without its cycle bound *)
  Definition Fin3q (r : mres) : Prop := exists off, Fin app labels regs0 mem0 base off r.
End FwdDefs.

(* the machine right after NewCPU ; InitRAT (t = 0, sq = 0) and right after CPU.flush(4t): empty pipeline, fetch unit
   at 4t, the alias tables show the register file R, ctx.sequenceID = sq, every tag seen so far is below sid3 sq t *)
Record Fresh3 (app : list instr) (labels : Z -> option Z) (mem0 : list Z) (t : nat) (sq : Z) (R : list Z) (s : st3) : Prop := mkFresh3 {
  h3_regs : length (m_regs (x_m (t_x s))) = 32%nat;
  h3_mem : m_mem (x_m (t_x s)) = mem0;
  h3_pw : m_pw (x_m (t_x s)) = zero_sb;
  h3_pr : m_pr (x_m (t_x s)) = zero_sb;
  h3_l3 : lines (m_l3 (x_m (t_x s))) = [];
  h3_pc : f_pc (m_fu (x_m (t_x s))) = pcz t;
  h3_comp : f_complete (m_fu (x_m (t_x s))) = false;
  h3_co : f_co (m_fu (x_m (t_x s))) = FNone;
  h3_l1i : IInv (m_l1i (x_m (t_x s)));
  h3_dret : m_dret (x_m (t_x s)) = false;
  h3_dpbr : m_dpbr (x_m (t_x s)) = false;
  h3_cu : m_cu (x_m (t_x s)) = [];
  h3_btb : Forall (fun en => fst en < pcz t) (b_btb (m_bu (x_m (t_x s))));
  h3_dbus : m_dbus (x_m (t_x s)) = bb_new 2 2;
  h3_cbus : m_cbus (x_m (t_x s)) = bb_new 2 2;
  h3_mebus : m_ebus (x_m (t_x s)) = bb_new 2 2;
  h3_wbus : m_wbus (x_m (t_x s)) = bb_new 2 2;
  h3_ebus : x_ebus (t_x s) = bb_new 2 2;
  h3_pend : x_pend (t_x s) = [];
  h3_prev : x_prev (t_x s) = [];
  h3_pcb : x_pcb (t_x s) = false;
  h3_seq : x_seq (t_x s) = sq;
  h3_tab : TabOK app labels R t sq t (x_crat (t_x s)) (x_trat (t_x s));
  h3_fwd : x_fwd (t_x s) = repeat (0, 0) (length app);
  h3_chan : Forall (fun p => fst p < x_next (t_x s)) (x_chan (t_x s));
  h3_os : x_os (t_x s) = false;
  h3_eus : Forall EuIdle (t_eus s);
  h3_stale : Forall (StaleOK (sid3 sq t)) (t_eus s);
  h3_wus : Forall (fun w => u_co w = WNone) (t_wus s);
  h3_wne : t_wus s <> [];
  h3_len : length (t_eus s) = length (t_wus s);
  h3_mode : t_mode s = NNormal }.
