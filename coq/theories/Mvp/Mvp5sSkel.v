(* The skeleton of MVP-5 for programs whose stores may MISS in the L1D: the write
   side of Mvp4sSkel.v (shape of the two slots of the write bus, write unit, drain,
   the hypothesis no_stale) plus the MVP-5 front end of Mvp5mSkel.v (clean flag of the
   fetch unit, decode stall, BTB).  When the pending slot of the write bus is occupied
   the execute unit stalls BEFORE the branch unit's assert: the fetch unit is not
   redirected in such a cycle. *)
From Coq Require Import ZArith List Bool Lia.
From Maj Require Import Base.Outcome Base.GoInt Base.GoTypes Isa.Spec Isa.Seq Isa.Refine.
From Maj Require Import Gen.Latency Gen.RiscTables Gen.Opcodes Comp.Cache.
From Maj Require Import Mvp.Mvp12 Mvp.Mvp3 Mvp.Mvp3Proofs Mvp.Mvp4 Mvp.Mvp5 Mvp.Mvp4Skel Mvp.Mvp4Inv Mvp.Mvp4mSkel Mvp.Mvp5Skel
     Mvp.Mvp5mSkel Mvp.Mvp4sSkel.
Import ListNotations.
Open Scope Z_scope.

Record sks5 := mk_sks5 { y_fu : fu5_t; y_du : bool; y_l1i : cache; y_dbus : sbus Z; y_ebus : sbus (instr * Z);
                         y_eu : eu_t; y_pw : list Z; y_wp : option witem; y_wc : option witem;
                         y_wu : wu_t; y_dt : list Z; y_btb : list (Z * Z); y_l1 : list Z; y_l2 : bool }.

(* the instruction for which the branch unit's assert is called this cycle *)
Definition issue_s (full : bool) (e : eu_t) (ebus : sbus (instr * Z)) : option (instr * Z) :=
  if full && negb (eu_pending_read e) then None else issue_m e ebus.

Definition sks5_complete (a : sks5) : bool :=
  f5_complete (y_fu a) && negb (eu_processing (y_eu a)) && negb (wu_pending (y_wu a)) &&
  sbus_is_empty (y_dbus a) && sbus_is_empty (y_ebus a) && negb (is_full (y_wp a)) && negb (is_full (y_wc a)).

Inductive sks5_res :=
| YStep (a : sks5) (path : list event) (dc : Z)
| YFin (dc : Z) (dt : list Z)
| YStuck.

(* the state after a cycle in which the write bus received [add] (None: nothing) *)
Definition sks5_next (a : sks5) (fu : fu5_t) (du : bool) (l1i1 : cache) (dbus2 : sbus Z) (ebus2 : sbus (instr * Z)) (e1 : eu_t)
           (add : option (list Z * list Z)) (dt1 : list Z) (btb : list (Z * Z)) : sks5 :=
  match add with
  | None =>
      let '(pw2, w2, wp2, wc2) := sks_wu (y_pw a) (y_wu a) (y_wp a) (y_wc a) in
      mk_sks5 fu du l1i1 dbus2 ebus2 e1 pw2 wp2 wc2 w2 dt1 btb (y_l1 a) (y_l2 a)
  | Some (wr, sa) =>
      let '(pw2, w2, wp2, wc2) := sks_wu (pw_add (y_pw a) wr) (y_wu a) (Some (wr, sa, nnil (y_l1 a))) (y_wc a) in
      mk_sks5 fu du l1i1 dbus2 ebus2 e1 pw2 wp2 wc2 w2 dt1 btb sa (nnil (y_l1 a))
  end.

Definition sks5_exec (a : sks5) (fuA : fu5_t) (du1 : bool) (l1i1 : cache) (dbus2 : sbus Z) (ebus2 : sbus (instr * Z))
           (e1 : eu_t) (dt1 : list Z) (i : instr) (pc : Z) (path : list event) : sks5_res :=
  match path with
  | [] => YStuck
  | ev :: rest =>
      if negb (ev_pc ev =? pc) then YStuck
      else if is_ret i then
        match rest with
        | [] =>
            let '(pw2, w2, wp2, wc2) := sks_wu (y_pw a) (y_wu a) (y_wp a) (y_wc a) in
            match sks_drain drain_fuel pw2 w2 wp2 wc2 0 false with
            | Some _ => YFin 1 dt1
            | None => YStuck
            end
        | _ :: _ => YStuck
        end
      else match rest with
           | [] => YStuck
           | nxt :: _ =>
               match ev_sa ev with
               | _ :: _ =>
                   if negb (ev_pc nxt =? addS 32 pc 4) then YStuck
                   else if snd (a_get_all dt1 (ev_sa ev)) then
                     YStep (sks5_next a fuA du1 l1i1 dbus2 ebus2 e1 None (fst (a_get_all dt1 (ev_sa ev))) (y_btb a)) rest 1
                   else
                     YStep (sks5_next a fuA du1 l1i1 dbus2 ebus2 e1 (Some ([], ev_sa ev))
                                      (fst (a_get_all dt1 (ev_sa ev))) (y_btb a)) rest 1
               | [] =>
                   let next := ev_pc nxt in
                   let fuR := if uncond i then fu5_reset fuA next else fuA in
                   let duR := if uncond i then false else du1 in
                   let btb' := if uncond i then btb_add (y_btb a) pc next else y_btb a in
                   let a2 := sks5_next a fuR duR l1i1 dbus2 ebus2 e1 (Some (instr_WriteRegisters i, [])) dt1 btb' in
                   if sk5_flush (y_btb a) i pc next then
                     match sks_drain drain_fuel (y_pw a2) (y_wu a2) (y_wp a2) (y_wc a2) 1 true with
                     | Some (w3, c3) =>
                         YStep (mk_sks5 (mk_fu5 next (f5_remaining fuR) false false (f5_clean fuR)) false l1i1
                                        sbus_empty sbus_empty (eu_flushed e1) zero_pw None None w3 dt1 btb' (y_l1 a2) (y_l2 a2)) rest c3
                     | None => YStuck
                     end
                   else YStep a2 rest 1
               end
           end
  end.

(* one iteration of the Run loop, before the test "is the pipeline empty" *)
Definition sks5_pre (app : list instr) (a : sks5) (path : list event) : sks5_res :=
  match fu5_cycle app (y_fu a) (y_l1i a) (y_dbus a) with
  | Ok (fu1, l1i1, dbus1) =>
      match du5_cycle app (y_du a) dbus1 (y_ebus a) with
      | Ok (du1, dbus2, ebus1) =>
          let '(e1, ebus2, dt1, act) := sks_eu (is_full (y_wp a)) (y_eu a) ebus1 (y_pw a) (y_dt a) (hla path) in
          let fuA := sk5_assert fu1 (y_btb a) (issue_s (is_full (y_wp a)) (y_eu a) ebus1) in
          match act with
          | AStuck => YStuck
          | ANone => YStep (sks5_next a fuA du1 l1i1 dbus2 ebus2 e1 None dt1 (y_btb a)) path 1
          | AExec i pc => sks5_exec a fuA du1 l1i1 dbus2 ebus2 e1 dt1 i pc path
          end
      | _ => YStuck
      end
  | _ => YStuck
  end.

Definition sks5_cycle (app : list instr) (a : sks5) (path : list event) : sks5_res :=
  match sks5_pre app a path with
  | YStep a2 p dc => if sks5_complete a2 then YFin dc (y_dt a2) else YStep a2 p dc
  | r => r
  end.

Fixpoint sks5_run (fuel : nat) (app : list instr) (a : sks5) (path : list event) (cycle : Z) : option Z :=
  match fuel with
  | O => None
  | S f =>
      match sks5_cycle app a path with
      | YStep a' path' dc => sks5_run f app a' path' (cycle + dc)
      | YFin dc dt => Some (cycle + dc + MemoryAccess * zlen dt)
      | YStuck => None
      end
  end.

Definition sks5_init (ci : cache) : sks5 :=
  mk_sks5 (mk_fu5 0 0 false false false) false ci sbus_empty sbus_empty (mk_eu false false [] None 0 None) zero_pw None None
          (mk_wu false 0) [] [] [] false.

(* the cycle count of MVP-5 as a function of the program and the events only *)
Definition mvp5_cost_sm (fuel : nat) (app : list instr) (evs : list event) : option Z :=
  match new_cache l1LineSize l1Size with
  | Ok ci => sks5_run fuel app (sks5_init ci) evs 0
  | _ => None
  end.
