(* Refinement of MVP-6.1 (Mvp61.v = MVP-6.0 + operand forwarding between execute
   units) to the sequential machine on register-only programs - part 1: the value-level
   core, independent of the machine.  It generalises Mvp60RefSem.BackSem.

   With forwarding an instruction k may be dispatched while ONE older instruction j in
   flight still has to write a register k reads: k then receives that operand through a
   channel.  [fs k = Some reg] records that k was dispatched with its operand [reg]
   forwarded.  The invariant [BackSemF d rg pw pr F fs]:
     - an instruction j in flight is WAW- and WAR-independent of every younger
       dispatched instruction (as for MVP-6.0);
     - RAW: when j and k are both in flight, j < k, and k reads a slot j writes, then
       that slot is the forwarded operand of k (bf_raw) - and no other read register of
       k lives in that slot (bf_one);
     - scoreboards, register file: as for MVP-6.0.
   An instruction in flight computes its sequential effect when its operands are read
   through [rr1 f rg] - the forwarded pair f first, the register file otherwise -
   provided the forwarded value is the sequential one (FwdVal, bf_exec).  That the value
   on the channel IS the sequential one follows from bf_stable: nobody between the
   producer and the consumer writes the forwarded slot. *)
From Coq Require Import ZArith List Bool Lia Permutation.
From Maj Require Import Base.Outcome Base.GoInt Base.GoTypes Isa.Spec Isa.Embed Isa.Seq Isa.Refine.
From Maj Require Import Gen.RiscTables Gen.Opcodes Mvp.Mvp12 Mvp.Mvp12Proofs Mvp.Mvp3Proofs Mvp.Mvp60RefSem Mvp.Mvp61.
Import ListNotations.
Open Scope Z_scope.

Section Sem1.
  Variables (app : list instr) (labels : Z -> option Z) (regs0 : list Z) (base : nat).
  Hypothesis Hlen0 : (length regs0 <= 32)%nat.
  Hypothesis Hr32 : Forall int32 regs0.

  Notation sreg := (sreg app labels regs0 base).
  Notation eff := (eff app labels regs0 base).
  Notation ik := (ik app).
  Notation wsl := (wsl app).
  Notation rsl := (rsl app).

  (* no WAW, no WAR *)
  Definition indepW (j k : nat) : Prop :=
    forall s, (s < 32)%nat -> (In s (wsl j) -> ~ In s (wsl k)) /\ (In s (rsl j) -> ~ In s (wsl k)).

  (* slot s is the forwarded operand *)
  Definition fwd_slot (o : option Z) (s : nat) : Prop := exists reg, o = Some reg /\ reg <> 0 /\ Z.to_nat reg = s.

  (* the forwarded register is the only read register in its slot *)
  Definition one_read (k : nat) (o : option Z) : Prop :=
    forall reg r, o = Some reg -> In r (instr_ReadRegisters (ik k)) -> r <> 0 -> Z.to_nat r = Z.to_nat reg -> r = reg.

  Record BackSemF (d : nat) (rg pw pr : list Z) (F : list nat) (fs : nat -> option Z) : Prop := mkBF {
    bf_nodup : NoDup F;
    bf_lt : forall j, In j F -> (base <= j < d)%nat;
    bf_ind : forall j k, In j F -> (j < k < d)%nat -> indepW j k;
    bf_raw : forall j k s, In j F -> In k F -> (j < k)%nat -> (s < 32)%nat -> In s (wsl j) -> In s (rsl k) -> fwd_slot (fs k) s;
    bf_one : forall k, In k F -> one_read k (fs k);
    bf_pwlen : length pw = 32%nat;
    bf_prlen : length pr = 32%nat;
    bf_pw : forall s, (s < 32)%nat -> nth s pw 0 = cnt wsl F s;
    bf_pr : forall s, (s < 32)%nat -> nth s pr 0 = cnt rsl F s;
    bf_rlen : length rg = length regs0;
    bf_r32 : Forall int32 rg;
    bf_rA : forall s j, (s < length regs0)%nat -> In j F -> In s (wsl j) -> nth s rg 0 = nth s (sreg j) 0;
    bf_rB : forall s, (s < length regs0)%nat -> (forall j, In j F -> ~ In s (wsl j)) -> nth s rg 0 = nth s (sreg d) 0 }.

  Lemma bf_perm d rg pw pr F F' fs : Permutation F F' -> BackSemF d rg pw pr F fs -> BackSemF d rg pw pr F' fs.
  Proof.
    intros HP [H1 H2 H3 Hr Ho H4 H5 H6 H7 H8 H9 HA HB].
    assert (Hin : forall j, In j F' -> In j F) by (intros j Hj; eapply Permutation_in; [apply Permutation_sym; exact HP | exact Hj]).
    constructor; auto.
    - eapply Permutation_NoDup; eassumption.
    - intros j k s Hj Hk. apply Hr; apply Hin; assumption.
    - intros s Hs. rewrite H6 by exact Hs. apply cnt_perm. exact HP.
    - intros s Hs. rewrite H7 by exact Hs. apply cnt_perm. exact HP.
    - intros s Hs Hno. apply HB; [exact Hs|]. intros j Hj. apply Hno. eapply Permutation_in; eassumption.
  Qed.

  (* fs matters on the instructions in flight only *)
  Lemma bf_ext d rg pw pr F fs fs' : (forall k, In k F -> fs' k = fs k) -> BackSemF d rg pw pr F fs -> BackSemF d rg pw pr F fs'.
  Proof.
    intros He [H1 H2 H3 Hr Ho H4 H5 H6 H7 H8 H9 HA HB]. constructor; auto.
    - intros j k s Hj Hk Hlt Hs Hw Hrd. rewrite (He k Hk). apply (Hr j k s); assumption.
    - intros k Hk. rewrite (He k Hk). apply Ho. exact Hk.
  Qed.

  Lemma bf_pair d rg pw pr F fs j j' : BackSemF d rg pw pr F fs -> In j F -> In j' F -> (j < j')%nat -> indepW j j'.
  Proof. intros H Hj Hj' Hlt. apply (bf_ind _ _ _ _ _ _ H); [exact Hj|]. split; [exact Hlt | apply (bf_lt _ _ _ _ _ _ H j'); exact Hj']. Qed.

  Lemma bf_writer_unique d rg pw pr F fs j j' s : BackSemF d rg pw pr F fs -> (s < 32)%nat ->
    In j F -> In j' F -> In s (wsl j) -> In s (wsl j') -> j = j'.
  Proof.
    intros H Hs Hj Hj' Hw Hw'. destruct (Nat.lt_trichotomy j j') as [Hlt|[Heq|Hgt]]; [|exact Heq|].
    - exfalso. destruct (bf_pair _ _ _ _ _ _ _ _ H Hj Hj' Hlt s Hs) as [Hx _]. exact (Hx Hw Hw').
    - exfalso. destruct (bf_pair _ _ _ _ _ _ _ _ H Hj' Hj Hgt s Hs) as [Hx _]. exact (Hx Hw' Hw).
  Qed.

  (* nobody between an instruction in flight and the dispatch point writes what it writes *)
  Lemma bf_stable d rg pw pr F fs j s : BackSemF d rg pw pr F fs -> In j F -> (s < 32)%nat -> In s (wsl j) ->
    nth s (sreg d) 0 = nth s (sreg (S j)) 0.
  Proof.
    intros H Hj Hs Hw. pose proof (bf_lt _ _ _ _ _ _ H j Hj).
    apply (sreg_stable app labels regs0 base Hlen0); [lia|]. intros k Hk Hwk.
    destruct (bf_ind _ _ _ _ _ _ H j k Hj ltac:(lia) s Hs) as [Hx _]. exact (Hx Hw Hwk).
  Qed.

  (* ---------------------------------------------------------------- *)
  (* operands                                                          *)

  (* the forward pair with which instruction k runs: nothing, or the sequential value of its
     forwarded register *)
  Definition FwdVal (o : option Z) (k : nat) (f : Z * Z) : Prop :=
    match o with None => f = no_fwd | Some reg => f = (reg, rget (sreg k) reg) end.

  Lemma bf_slot_read d rg pw pr F fs j s : BackSemF d rg pw pr F fs -> In j F -> In s (rsl j) ->
    ~ fwd_slot (fs j) s -> nth s rg 0 = nth s (sreg j) 0.
  Proof.
    intros H Hj Hr Hnf.
    destruct (Nat.lt_ge_cases s (length regs0)) as [Hs|Hs].
    2:{ rewrite !nth_overflow; [reflexivity | rewrite (sreg_length app labels regs0 base); exact Hs | rewrite (bf_rlen _ _ _ _ _ _ H); exact Hs]. }
    assert (Hs32 : (s < 32)%nat) by lia.
    pose proof (bf_lt _ _ _ _ _ _ H j Hj) as Hjd.
    destruct (Exists_dec (fun j' => In s (wsl j')) F (fun j' => in_dec Nat.eq_dec s (wsl j'))) as [Hex|Hno].
    - apply Exists_exists in Hex as (j' & Hj' & Hw).
      destruct (Nat.lt_trichotomy j' j) as [Hlt|[Heq|Hgt]].
      + exfalso. apply Hnf. eapply (bf_raw _ _ _ _ _ _ H j' j s); eassumption.
      + subst j'. apply (bf_rA _ _ _ _ _ _ H); assumption.
      + exfalso. destruct (bf_pair _ _ _ _ _ _ _ _ H Hj Hj' Hgt s Hs32) as [_ Hx]. exact (Hx Hr Hw).
    - rewrite (bf_rB _ _ _ _ _ _ H s Hs).
      2:{ intros j' Hj' Hw. apply Hno. apply Exists_exists. exists j'. auto. }
      apply (sreg_stable app labels regs0 base Hlen0); [lia|]. intros k Hk Hw.
      destruct (Nat.eq_dec k j) as [->|Hne].
      + apply Hno. apply Exists_exists. exists j. auto.
      + destruct (bf_ind _ _ _ _ _ _ H j k Hj ltac:(lia) s Hs32) as [_ Hx]. exact (Hx Hr Hw).
  Qed.

  Lemma bf_reads d rg pw pr F fs j f r : BackSemF d rg pw pr F fs -> In j F -> FwdVal (fs j) j f ->
    In r (instr_ReadRegisters (ik j)) -> rr1 f rg r = rget (sreg j) r.
  Proof.
    intros H Hj Hf Hr. unfold rr1, FwdVal in *.
    destruct (fs j) as [reg|] eqn:Efs; subst f; cbn [fst snd no_fwd].
    - destruct (Z.eqb_spec r reg) as [->|Hne]; [reflexivity|].
      rewrite !rget_nth. destruct (Z.eqb_spec r 0) as [|Hnz]; [reflexivity|].
      eapply bf_slot_read; [exact H | exact Hj | apply slots_in; exists r; auto|].
      rewrite Efs. intros (reg' & E & Hnz' & Hsl). injection E as <-.
      apply Hne. eapply (bf_one _ _ _ _ _ _ H j Hj reg r); eauto.
    - unfold Zero. destruct (Z.eqb_spec r 0) as [->|Hnz]; [reflexivity|].
      rewrite !rget_nth. destruct (Z.eqb_spec r 0); [contradiction|].
      eapply bf_slot_read; [exact H | exact Hj | apply slots_in; exists r; auto|].
      rewrite Efs. intros (reg' & E & _). discriminate E.
  Qed.

  (* the instruction computes its sequential effect *)
  Lemma bf_exec d rg pw pr F fs j f : BackSemF d rg pw pr F fs -> In j F -> FwdVal (fs j) j f ->
    exec (sinstr_of (ik j)) (rr1 f rg) labels (pcz j) [] = exec (sinstr_of (ik j)) (rget (sreg j)) labels (pcz j) [].
  Proof.
    intros H Hj Hf. apply spec_reads_sound. intros r Hr. rewrite <- read_registers_exact in Hr.
    eapply bf_reads; eassumption.
  Qed.

  Lemma rr1_int32 f rg r : int32 (snd f) -> Forall int32 rg -> int32 (rr1 f rg r).
  Proof. intros Hf Hrg. unfold rr1. destruct (r =? fst f); [exact Hf | apply rget_int32; exact Hrg]. Qed.

  (* ---------------------------------------------------------------- *)
  (* dispatch                                                          *)

  Definition hazardF (F : list nat) (k : nat) (o : option Z) : Prop :=
    forall s, (s < 32)%nat ->
      (In s (rsl k) -> cnt wsl F s = 0 \/ fwd_slot o s) /\ (In s (wsl k) -> cnt wsl F s = 0 /\ cnt rsl F s = 0).

  Lemma bf_dispatch d rg pw pr pw' pr' F fs fs' o : BackSemF d rg pw pr F fs -> (base <= d)%nat -> hazardF F d o ->
    (forall k, In k F -> fs' k = fs k) -> fs' d = o -> one_read d o ->
    length pw' = 32%nat -> length pr' = 32%nat ->
    (forall s, (s < 32)%nat -> nth s pw' 0 = nth s pw 0 + cnt1 (wsl d) s) ->
    (forall s, (s < 32)%nat -> nth s pr' 0 = nth s pr 0 + cnt1 (rsl d) s) ->
    BackSemF (S d) rg pw' pr' (d :: F) fs'.
  Proof.
    intros H Hbd Hhf Hfs Hfd Hone Hl1 Hl2 Hpw Hpr. pose proof H as [H1 H2 H3 Hr Ho H4 H5 H6 H7 H8 H9 HA HB]. constructor; auto.
    - constructor; [|exact H1]. intros Hin. apply H2 in Hin. lia.
    - intros j [<-|Hj]; [lia|]. apply H2 in Hj. lia.
    - intros j k [<-|Hj] Hk; [lia|]. destruct (Nat.eq_dec k d) as [->|Hne].
      + intros s Hs. destruct (Hhf s Hs) as [_ Hw]. split.
        * intros Hwj Hwd. apply Hw in Hwd as [Hwd _]. exact (cnt_zero_elim _ _ _ _ Hwd Hj Hwj).
        * intros Hrj Hwd. apply Hw in Hwd as [_ Hwd]. exact (cnt_zero_elim _ _ _ _ Hwd Hj Hrj).
      + apply H3; [exact Hj | lia].
    - intros j k s [<-|Hj] [<-|Hk] Hlt Hs Hw Hrd; try lia.
      + apply H2 in Hk. lia.
      + rewrite Hfd. destruct (Hhf s Hs) as [Hx _]. destruct (Hx Hrd) as [Hz|Hf]; [|exact Hf].
        exfalso. exact (cnt_zero_elim _ _ _ _ Hz Hj Hw).
      + rewrite (Hfs k Hk). apply (Hr j k s); assumption.
    - intros k [<-|Hk]; [rewrite Hfd; exact Hone | rewrite (Hfs k Hk); apply Ho; exact Hk].
    - intros s Hs. rewrite Hpw, H6 by exact Hs. cbn [cnt]. lia.
    - intros s Hs. rewrite Hpr, H7 by exact Hs. cbn [cnt]. lia.
    - intros s j Hs [<-|Hj] Hw; [|apply HA; assumption].
      apply HB; [exact Hs|]. destruct (Hhf s ltac:(lia)) as [_ Hx]. apply Hx in Hw as [Hw _]. intros j Hj. exact (cnt_zero_elim _ _ _ _ Hw Hj).
    - intros s Hs Hno. rewrite (sreg_S_other app labels regs0 base Hlen0) by (apply Hno; left; reflexivity).
      apply HB; [exact Hs|]. intros j Hj. apply Hno. right. exact Hj.
  Qed.

  (* ---------------------------------------------------------------- *)
  (* write-back                                                        *)

  Lemma bf_writeback d rg pw pr pw' pr' F fs j : BackSemF d rg pw pr (j :: F) fs ->
    (forall s, In s (wsl j) -> eff_writes_reg (eff j)) ->
    length pw' = 32%nat -> length pr' = 32%nat ->
    (forall s, (s < 32)%nat -> nth s pw' 0 = nth s pw 0 - cnt1 (wsl j) s) ->
    (forall s, (s < 32)%nat -> nth s pr' 0 = nth s pr 0 - cnt1 (rsl j) s) ->
    BackSemF d (apply_eff (eff j) rg) pw' pr' F fs.
  Proof.
    intros H Heff Hl1 Hl2 Hpw Hpr. pose proof H as [H1 H2 H3 Hr Ho H4 H5 H6 H7 H8 H9 HA HB].
    assert (Hjd : (base <= j < d)%nat) by (apply H2; left; reflexivity).
    assert (HjF : ~ In j F) by (inversion H1; assumption).
    constructor; auto.
    - inversion H1; assumption.
    - intros j' Hj'. apply H2. right. exact Hj'.
    - intros j' k Hj' Hk. apply H3; [right; exact Hj' | exact Hk].
    - intros j' k s Hj' Hk. apply Hr; right; assumption.
    - intros k Hk. apply Ho. right. exact Hk.
    - intros s Hs. rewrite Hpw, H6 by exact Hs. cbn [cnt]. lia.
    - intros s Hs. rewrite Hpr, H7 by exact Hs. cbn [cnt]. lia.
    - rewrite apply_eff_length. exact H8.
    - apply (apply_eff_int32 app labels). exact H9.
    - intros s j' Hs Hj' Hw. unfold Mvp60RefSem.eff. rewrite (apply_other app labels).
      + apply HA; [exact Hs | right; exact Hj' | exact Hw].
      + intros Hwj. assert (j = j'); [|subst j'; contradiction].
        eapply (bf_writer_unique _ _ _ _ _ _ j j' s H); auto; try lia; [left; reflexivity | right; exact Hj'].
    - intros s Hs Hno. destruct (in_dec Nat.eq_dec s (wsl j)) as [Hw|Hnw].
      + transitivity (nth s (sreg (S j)) 0).
        * rewrite (sreg_S app labels regs0 base Hlen0) by lia. pose proof (eff_at_wsl app labels j (sreg j)) as Hwj. fold (eff j) in Hwj.
          assert (Hrs : exists rd v, apply_eff (eff j) = (fun r => rset r rd v) /\ wsl j = slots [rd]).
          { destruct (Heff s Hw) as [(rd & v & Ee)|(rd & v & a & Ee)]; rewrite Ee in *; exists rd, v; split; auto. }
          destruct Hrs as (rd & v & -> & Hwj'). rewrite !nth_rset.
          rewrite (sreg_length app labels regs0 base), H8.
          rewrite Hwj', slots_single in Hw. destruct (rd =? 0); [destruct Hw|]. destruct Hw as [<-|[]].
          cbn [negb andb]. rewrite Nat.eqb_refl. cbn [andb].
          destruct (Nat.ltb_spec (Z.to_nat rd) (length regs0)); [reflexivity | lia].
        * symmetry. apply (sreg_stable app labels regs0 base Hlen0); [lia|]. intros k Hk Hwk.
          destruct (H3 j k (or_introl eq_refl) ltac:(lia) s ltac:(lia)) as [Hx _]. exact (Hx Hw Hwk).
      + unfold Mvp60RefSem.eff. rewrite (apply_other app labels) by exact Hnw. apply HB; [exact Hs|].
        intros j' [<-|Hj']; [exact Hnw | apply Hno; exact Hj'].
  Qed.

  Lemma bf_drop d rg pw pr F fs j : BackSemF d rg pw pr (j :: F) fs -> wsl j = [] -> rsl j = [] -> BackSemF d rg pw pr F fs.
  Proof.
    intros H Hw Hr. pose proof H as [H1 H2 H3 Hrw Ho H4 H5 H6 H7 H8 H9 HA HB]. constructor; auto.
    - inversion H1; assumption.
    - intros j' Hj'. apply H2. right. exact Hj'.
    - intros j' k Hj' Hk. apply H3; [right; exact Hj' | exact Hk].
    - intros j' k s Hj' Hk. apply Hrw; right; assumption.
    - intros k Hk. apply Ho. right. exact Hk.
    - intros s Hs. rewrite H6 by exact Hs. cbn [cnt]. rewrite Hw. reflexivity.
    - intros s Hs. rewrite H7 by exact Hs. cbn [cnt]. rewrite Hr. reflexivity.
    - intros s j' Hs Hj' Hw'. apply HA; [exact Hs | right; exact Hj' | exact Hw'].
    - intros s Hs Hno. apply HB; [exact Hs|]. intros j' [<-|Hj']; [rewrite Hw; intros [] | apply Hno; exact Hj'].
  Qed.

  Lemma bf_empty d rg pw pr fs : BackSemF d rg pw pr [] fs -> rg = sreg d.
  Proof.
    intros H. apply (nth_ext _ _ 0 0).
    - rewrite (sreg_length app labels regs0 base). apply (bf_rlen _ _ _ _ _ _ H).
    - intros s Hs. rewrite (bf_rlen _ _ _ _ _ _ H) in Hs. apply (bf_rB _ _ _ _ _ _ H); [exact Hs|]. intros j [].
  Qed.

  Lemma bf_init pw pr fs : pw = repeat 0 32 -> pr = repeat 0 32 -> BackSemF base regs0 pw pr [] fs.
  Proof.
    intros -> ->. constructor; try reflexivity; auto.
    - constructor.
    - intros j [].
    - intros j k [].
    - intros j k s [].
    - intros k [].
    - intros s Hs. cbn [cnt]. apply nth_repeat.
    - intros s Hs. cbn [cnt]. apply nth_repeat.
    - intros s j _ [].
    - intros s Hs _. rewrite (sreg_base app labels regs0 base Hlen0) by lia. reflexivity.
  Qed.

  (* ---------------------------------------------------------------- *)
  (* squashing the wrong path                                          *)

  (* BackSemF without scoreboards and operands: what is left of it while a flush drains the write
     bus (dropped wrong-path entries stay in F as ghosts) *)
  Record BackSemV (d : nat) (rg : list Z) (F : list nat) : Prop := mkBV {
    bv_nodup : NoDup F;
    bv_lt : forall j, In j F -> (base <= j < d)%nat;
    bv_ind : forall j k, In j F -> (j < k < d)%nat -> indepW j k;
    bv_rlen : length rg = length regs0;
    bv_r32 : Forall int32 rg;
    bv_rA : forall s j, (s < length regs0)%nat -> In j F -> In s (wsl j) -> nth s rg 0 = nth s (sreg j) 0;
    bv_rB : forall s, (s < length regs0)%nat -> (forall j, In j F -> ~ In s (wsl j)) -> nth s rg 0 = nth s (sreg d) 0 }.

  Lemma bf_weak d rg pw pr F fs : BackSemF d rg pw pr F fs -> BackSemV d rg F.
  Proof. intros [H1 H2 H3 Hr Ho H4 H5 H6 H7 H8 H9 HA HB]. constructor; auto. Qed.

  Lemma bv_perm d rg F F' : Permutation F F' -> BackSemV d rg F -> BackSemV d rg F'.
  Proof.
    intros HP [H1 H2 H3 H8 H9 HA HB].
    assert (Hin : forall j, In j F' -> In j F) by (intros j Hj; eapply Permutation_in; [apply Permutation_sym; exact HP | exact Hj]).
    constructor; auto.
    - eapply Permutation_NoDup; eassumption.
    - intros s Hs Hno. apply HB; [exact Hs|]. intros j Hj. apply Hno. eapply Permutation_in; eassumption.
  Qed.

  Lemma bv_writer_unique d rg F j j' s : BackSemV d rg F -> (s < 32)%nat ->
    In j F -> In j' F -> In s (wsl j) -> In s (wsl j') -> j = j'.
  Proof.
    intros H Hs Hj Hj' Hw Hw'. destruct (Nat.lt_trichotomy j j') as [Hlt|[Heq|Hgt]]; [|exact Heq|].
    - exfalso. destruct (bv_ind _ _ _ H j j' Hj ltac:(pose proof (bv_lt _ _ _ H j' Hj'); lia) s Hs) as [Hx _]. exact (Hx Hw Hw').
    - exfalso. destruct (bv_ind _ _ _ H j' j Hj' ltac:(pose proof (bv_lt _ _ _ H j Hj); lia) s Hs) as [Hx _]. exact (Hx Hw' Hw).
  Qed.

  Lemma bv_writeback d rg F j : BackSemV d rg (j :: F) ->
    (forall s, In s (wsl j) -> eff_writes_reg (eff j)) -> BackSemV d (apply_eff (eff j) rg) F.
  Proof.
    intros H Heff. pose proof H as [H1 H2 H3 H8 H9 HA HB].
    assert (Hjd : (base <= j < d)%nat) by (apply H2; left; reflexivity).
    assert (HjF : ~ In j F) by (inversion H1; assumption).
    constructor; auto.
    - inversion H1; assumption.
    - intros j' Hj'. apply H2. right. exact Hj'.
    - intros j' k Hj' Hk. apply H3; [right; exact Hj' | exact Hk].
    - rewrite apply_eff_length. exact H8.
    - apply (apply_eff_int32 app labels). exact H9.
    - intros s j' Hs Hj' Hw. unfold Mvp60RefSem.eff. rewrite (apply_other app labels).
      + apply HA; [exact Hs | right; exact Hj' | exact Hw].
      + intros Hwj. assert (j = j'); [|subst j'; contradiction].
        eapply (bv_writer_unique _ _ _ j j' s H); auto; try lia; [left; reflexivity | right; exact Hj'].
    - intros s Hs Hno. destruct (in_dec Nat.eq_dec s (wsl j)) as [Hw|Hnw].
      + transitivity (nth s (sreg (S j)) 0).
        * rewrite (sreg_S app labels regs0 base Hlen0) by lia. pose proof (eff_at_wsl app labels j (sreg j)) as Hwj. fold (eff j) in Hwj.
          assert (Hrs : exists rd v, apply_eff (eff j) = (fun r => rset r rd v) /\ wsl j = slots [rd]).
          { destruct (Heff s Hw) as [(rd & v & Ee)|(rd & v & a & Ee)]; rewrite Ee in *; exists rd, v; split; auto. }
          destruct Hrs as (rd & v & -> & Hwj'). rewrite !nth_rset.
          rewrite (sreg_length app labels regs0 base), H8.
          rewrite Hwj', slots_single in Hw. destruct (rd =? 0); [destruct Hw|]. destruct Hw as [<-|[]].
          cbn [negb andb]. rewrite Nat.eqb_refl. cbn [andb].
          destruct (Nat.ltb_spec (Z.to_nat rd) (length regs0)); [reflexivity | lia].
        * symmetry. apply (sreg_stable app labels regs0 base Hlen0); [lia|]. intros k Hk Hwk.
          destruct (H3 j k (or_introl eq_refl) ltac:(lia) s ltac:(lia)) as [Hx _]. exact (Hx Hw Hwk).
      + unfold Mvp60RefSem.eff. rewrite (apply_other app labels) by exact Hnw. apply HB; [exact Hs|].
        intros j' [<-|Hj']; [exact Hnw | apply Hno; exact Hj'].
  Qed.

  (* when exactly the instructions younger than E are left (none of them written back), the
     register file is the sequential one after E *)
  Lemma bv_squash d rg F E : BackSemV d rg F -> (E < d)%nat ->
    (forall k, In k F <-> (E < k < d)%nat) -> rg = sreg (S E).
  Proof.
    intros [H1 H2 H3 H8 H9 HA HB] HEd HF. apply (nth_ext _ _ 0 0).
    - rewrite (sreg_length app labels regs0 base). exact H8.
    - intros s Hs. rewrite H8 in Hs. assert (Hs32 : (s < 32)%nat) by lia.
      destruct (Exists_dec (fun j' => In s (wsl j')) F (fun j' => in_dec Nat.eq_dec s (wsl j'))) as [Hex|Hno].
      + apply Exists_exists in Hex as (j & Hj & Hw). rewrite (HA s j Hs Hj Hw).
        pose proof (proj1 (HF j) Hj) as Hjr.
        apply (sreg_stable app labels regs0 base Hlen0); [lia|]. intros k Hk Hwk.
        assert (Hk' : In k F) by (apply HF; lia).
        destruct (H3 k j Hk' ltac:(lia) s Hs32) as [Hx _]. exact (Hx Hwk Hw).
      + rewrite (HB s Hs).
        2:{ intros j Hj Hw. apply Hno. apply Exists_exists. exists j. auto. }
        apply (sreg_stable app labels regs0 base Hlen0); [lia|]. intros k Hk Hwk. apply Hno. apply Exists_exists. exists k. split; [apply HF; lia | exact Hwk].
  Qed.
End Sem1.
