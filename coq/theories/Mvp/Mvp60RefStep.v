(* Refinement of MVP-6.0 to the sequential machine on register-only programs -
   part 5: the invariants of the main loop (FrontI: fetch / decode / control unit
   streams; TI: timing - idle execute units, empty write-bus queue, the execute bus
   holds the contiguous tail of the dispatched instructions; GI), the potential phi,
   and one iteration of the main loop up to the write units (normal_ok). *)
From Coq Require Import ZArith List Bool Lia Permutation.
From Maj Require Import Base.Outcome Base.GoInt Base.GoTypes Isa.Spec Isa.Embed Isa.Seq Isa.Refine.
From Maj Require Import Gen.Latency Gen.RiscTables Gen.Opcodes Comp.Cache.
From Maj Require Import Mvp.Mvp12 Mvp.Mvp12Proofs Mvp.Mvp3 Mvp.Mvp3Proofs Mvp.Mvp4Skel Mvp.Mvp4Inv Mvp.Mvp5 Mvp.Mvp60
     Mvp.Mvp60RefSem Mvp.Mvp60RefDefs Mvp.Mvp60RefFront Mvp.Mvp60RefBack.
Import ListNotations.
Open Scope Z_scope.

(* ------------------------------------------------------------------ *)
(* lists of consecutive numbers                                         *)

Lemma seq_split {A} (g : nat -> A) : forall l1 l2 a x, l1 ++ l2 = map g (seq a x) ->
  l1 = map g (seq a (length l1)) /\ l2 = map g (seq (a + length l1) (length l2)) /\ x = (length l1 + length l2)%nat.
Proof.
  induction l1 as [|y l1 IH]; intros l2 a x H; cbn [List.app length] in *.
  - rewrite Nat.add_0_r. assert (x = length l2) by (rewrite H, map_length, seq_length; reflexivity). subst x. auto.
  - destruct x as [|x]; [discriminate|]. cbn [seq map] in H. injection H as -> H.
    destruct (IH l2 (S a) x H) as (E1 & E2 & E3). cbn [seq map]. rewrite <- E1.
    replace (a + S (length l1))%nat with (S a + length l1)%nat by lia. split; [reflexivity|]. split; [exact E2 | lia].
Qed.

Lemma seq_join {A} (g : nat -> A) a x y : map g (seq a x) ++ map g (seq (a + x) y) = map g (seq a (x + y)).
Proof. rewrite seq_app, map_app. reflexivity. Qed.

Lemma flat_len {T} (b : bbus T) : zlen (flat b) = qlen b + blen b.
Proof. unfold flat, qlen, blen. rewrite zlen_app. unfold zlen. rewrite map_length. reflexivity. Qed.

Lemma BusOK_frame {T} c (b b' : bbus T) : bb_buf b' = bb_buf b -> bb_ql b' = bb_ql b -> bb_bl b' = bb_bl b ->
  qlen b' <= qlen b -> BusOK c b -> BusOK c b'.
Proof. intros E1 E2 E3 E4 [H1 H2 H3 H4]. constructor; rewrite ?E1, ?E2, ?E3; auto. lia. Qed.

Lemma qlen_ge0 {T} (b : bbus T) : 0 <= qlen b. Proof. apply zlen_ge0. Qed.
Lemma blen_ge0 {T} (b : bbus T) : 0 <= blen b. Proof. apply zlen_ge0. Qed.

Lemma flat_nil {T} (b : bbus T) : qlen b = 0 -> blen b = 0 -> flat b = [].
Proof. intros A B. unfold flat. rewrite (zlen_zero _ A), (zlen_zero _ B). reflexivity. Qed.

Lemma flat_nil_inv {T} (b : bbus T) : flat b = [] -> bb_q b = [] /\ bb_buf b = [].
Proof.
  unfold flat. intros H. apply app_eq_nil in H as [A B]. split; [exact A|]. destruct (bb_buf b); [reflexivity | discriminate].
Qed.

Lemma filter_len_le {A} (f : A -> bool) l : (length (filter f l) <= length l)%nat.
Proof. induction l as [|x t IH]; cbn [filter length]; [lia|]. destruct (f x); cbn [length]; lia. Qed.

Section Step.
  (* one straight-line segment: it starts at instruction [base] with registers [regs0];
     [off]: slack of the cycle bound (0 for the first segment) *)
  Variables (app : list instr) (labels : Z -> option Z) (regs0 mem0 : list Z) (base : nat) (off : Z).
  Hypothesis Happ : wf_app app.
  Hypothesis Hreg : reg_only app = true.
  Hypothesis Hlen0 : (length regs0 <= 32)%nat.
  Hypothesis Hbase : (base <= length app)%nat.
  Let n := length app.
  Let N := stop_from app base.
  Let M := Nat.max n 1.

  Notation sreg := (sreg app labels regs0 base).
  Notation eff := (eff app labels regs0 base).
  Notation rn := (rn app).
  Notation ik := (ik app).
  Notation BackI := (BackI app labels regs0 mem0 base).
  Notation FetchI := (FetchI app).
  Notation phiF := (phiF app).
  Notation kout := (kout app labels regs0 base).
  Notation plain := (plain app).

  Hypothesis Hsem : forall k, (base <= k <= N)%nat -> (k < n)%nat ->
    exec (sinstr_of (ik k)) (rget (sreg k)) labels (pcz k) [] = Ok (eff k) /\
    (forall a, etarget (eff k) = Some a -> exists t, a = pcz t /\ (k < t <= n)%nat).

  Definition conn (m : mach) (c : Z) : mach :=
    set_wbus (set_ebus (set_cbus (set_dbus m (bb_connect (m_dbus m) c)) (bb_connect (m_cbus m) c))
                       (bb_connect (m_ebus m) c)) (bb_connect (m_wbus m) c).

  Definition phiM (m : mach) : Z :=
    10 * blen (m_dbus m) + 9 * qlen (m_dbus m) + 8 * blen (m_cbus m) + 7 * qlen (m_cbus m) + 6 * zlen (m_cu m)
    + 5 * blen (m_ebus m) + 4 * qlen (m_ebus m) + 2 * blen (m_wbus m) + qlen (m_wbus m).
  Definition phiR (m : mach) (eus : list eu6) : Z := phiM m + 3 * zlen (eul eus).
  Definition phi (m : mach) (eus : list eu6) : Z := phiF (m_fu m) + phiR m eus.

  Record FrontI (d c f : nat) (cyc : Z) (m : mach) : Prop := mkFrontI {
    fr_fetch : FetchI f (m_fu m) (m_l1i m);
    fr_clean : f_clean (m_fu m) = true -> bb_buf (m_dbus m) = [] /\ bb_q (m_dbus m) = [];
    fr_dbus : flat (m_dbus m) = map pcz (seq c (f - c));
    fr_cf : (c <= f)%nat;
    fr_bd : (base <= d)%nat;
    fr_cl : m_cu m ++ flat (m_cbus m) = map rn (seq d (Nat.min c n - d));
    fr_dc : (d <= Nat.min c n)%nat;
    fr_cu : (length (m_cu m) <= 1)%nat;
    fr_flags_f : m_dret m = false -> m_dpbr m = false -> (Nat.min c n <= N)%nat;
    fr_dret_t : m_dret m = true -> (N < n)%nat /\ c = S N /\ is_ret (ik N) = true;
    fr_dpbr_t : m_dpbr m = true -> (N < n)%nat /\ c = S N /\ is_jump (ik N) = true;
    fr_btb : Forall (fun e => fst e < pcz base) (b_btb (m_bu m));
    fr_bsd : BusOK cyc (m_dbus m);
    fr_bc : BusOK cyc (m_cbus m);
    fr_be : BusOK cyc (m_ebus m);
    fr_bw : BusOK cyc (m_wbus m);
    fr_eb : blen (m_ebus m) <= 2 }.

  Lemma front_dN d c f cyc m : FrontI d c f cyc m -> (d <= S N)%nat /\ (d <= n)%nat.
  Proof.
    intros H. pose proof (fr_dc _ _ _ _ _ H). destruct (m_dret m) eqn:E.
    - destruct (fr_dret_t _ _ _ _ _ H E) as (A & B & _). lia.
    - destruct (m_dpbr m) eqn:E2.
      + destruct (fr_dpbr_t _ _ _ _ _ H E2) as (A & B & _). lia.
      + pose proof (fr_flags_f _ _ _ _ _ H E E2). lia.
  Qed.

  (* the four Connect calls *)
  Lemma conn_ok d c f cyc m eus : FrontI d c f cyc m -> BackI d m eus ->
    let m1 := conn m (cyc + 1) in
    FrontI d c f cyc m1 /\ BackI d m1 eus /\ flat (m_ebus m1) = flat (m_ebus m) /\ flat (m_wbus m1) = flat (m_wbus m) /\
    m_fu m1 = m_fu m /\ m_dret m1 = m_dret m /\ m_dpbr m1 = m_dpbr m /\ m_cu m1 = m_cu m /\
    qlen (m_dbus m1) + blen (m_dbus m1) = qlen (m_dbus m) + blen (m_dbus m) /\ qlen (m_dbus m) <= qlen (m_dbus m1) /\
    qlen (m_cbus m1) + blen (m_cbus m1) = qlen (m_cbus m) + blen (m_cbus m) /\ qlen (m_cbus m) <= qlen (m_cbus m1) /\
    qlen (m_ebus m1) + blen (m_ebus m1) = qlen (m_ebus m) + blen (m_ebus m) /\ qlen (m_ebus m) <= qlen (m_ebus m1) /\
    qlen (m_wbus m1) + blen (m_wbus m1) = qlen (m_wbus m) + blen (m_wbus m) /\ qlen (m_wbus m) <= qlen (m_wbus m1) /\
    (blen (m_dbus m1) = 0 \/ qlen (m_dbus m1) = 2) /\ (blen (m_cbus m1) = 0 \/ qlen (m_cbus m1) = 2) /\
    (blen (m_ebus m1) = 0 \/ qlen (m_ebus m1) = 2) /\ (blen (m_wbus m1) = 0 \/ qlen (m_wbus m1) = 2).
  Proof.
    intros HF HB. cbv zeta. pose proof HF as [F1 Fc F2 F3 Fb F4 F5 F6 F7 F8 F9 Fbt F10 F11 F12 F13 F14].
    destruct (connect_spec cyc (m_dbus m) F10) as (D1 & D2 & D3 & D4 & D5).
    destruct (connect_spec cyc (m_cbus m) F11) as (C1 & C2 & C3 & C4 & C5).
    destruct (connect_spec cyc (m_ebus m) F12) as (E1 & E2 & E3 & E4 & E5).
    destruct (connect_spec cyc (m_wbus m) F13) as (W1 & W2 & W3 & W4 & W5).
    assert (X : forall T (b : bbus T), bb_buf b = [] \/ qlen b = 2 -> blen b = 0 \/ qlen b = 2).
    { intros T b [A|A]; [left; unfold blen; rewrite A; reflexivity | right; exact A]. }
    unfold conn. cbn [set_wbus set_ebus set_cbus set_dbus m_fu m_dret m_dpbr m_cu m_dbus m_cbus m_ebus m_wbus].
    split; [|split; [|split; [|split]]].
    - constructor; cbn [set_wbus set_ebus set_cbus set_dbus m_fu m_l1i m_dret m_dpbr m_cu m_bu m_dbus m_cbus m_ebus m_wbus];
        rewrite ?D1, ?C1; auto.
      + intros Hc. destruct (Fc Hc) as [A B]. assert (Hx : flat (bb_connect (m_dbus m) (cyc + 1)) = []) by (rewrite D1; unfold flat; rewrite A, B; reflexivity).
        apply flat_nil_inv in Hx. tauto.
      + pose proof (blen_ge0 (bb_connect (m_ebus m) (cyc + 1))). pose proof (qlen_ge0 (m_ebus m)). lia.
    - eapply BackI_ext; [| | | | | | |exact HB]; cbn [set_wbus set_ebus set_cbus set_dbus m_regs m_pw m_pr m_mem m_l3 m_ebus m_wbus]; auto.
    - exact E1.
    - exact W1.
    - repeat split; auto; lia.
  Qed.

  Lemma busok_newq {T} cy (b : bbus T) q : BusOK cy b -> zlen q <= 2 ->
    BusOK cy (mk_bb (bb_buf b) q (bb_ql b) (bb_bl b)).
  Proof. intros [H1 H2 H3 H4] Hq. constructor; cbn [bb_buf bb_ql bb_bl]; auto. Qed.

  (* fetchUnit.cycle ; decodeUnit.cycle *)
  Lemma fd_ok d c f cyc m : FrontI d c f cyc m ->
    exists m3 c' f',
      (r <- fu_cycle6 app (cyc + 1) (m_fu m) (m_l1i m) (m_dbus m) ;;
       let '(fu1, l1i1, dbus1) := r in
       du_cycle6 app (cyc + 1) (set_dbus (set_l1i (set_fu m fu1) l1i1) dbus1)) = Ok m3 /\
      FrontI d c' f' (cyc + 1) m3 /\
      m_regs m3 = m_regs m /\ m_mem m3 = m_mem m /\ m_pw m3 = m_pw m /\ m_pr m3 = m_pr m /\ m_l3 m3 = m_l3 m /\
      m_ebus m3 = m_ebus m /\ m_wbus m3 = m_wbus m /\ m_cu m3 = m_cu m /\ bb_q (m_cbus m3) = bb_q (m_cbus m) /\
      phiF (m_fu m3) + 10 * blen (m_dbus m3) + 9 * qlen (m_dbus m3) + 8 * blen (m_cbus m3)
        <= phiF (m_fu m) + 10 * blen (m_dbus m) + 9 * qlen (m_dbus m) + 8 * blen (m_cbus m) /\
      (phiF (m_fu m3) + 10 * blen (m_dbus m3) + 9 * qlen (m_dbus m3) + 8 * blen (m_cbus m3)
        < phiF (m_fu m) + 10 * blen (m_dbus m) + 9 * qlen (m_dbus m) + 8 * blen (m_cbus m) \/
       (((f_co (m_fu m) = FDone /\ phiF (m_fu m3) = phiF (m_fu m) /\ f_complete (m_fu m3) = f_complete (m_fu m)) \/
         (f_co (m_fu m) = FNone /\ bb_canadd (m_dbus m) = false)) /\
        (m_dret m = true \/ m_dpbr m = true \/ bb_q (m_dbus m) = []))).
  Proof.
    intros HF. pose proof HF as [F1 Fc F2 F3 Fb F4 F5 F6 F7 F8 F9 Fbt F10 F11 F12 F13 F14].
    destruct (fu_ok app base Happ cyc f (m_fu m) (m_l1i m) (m_dbus m) F1 F10 Fc) as (fu' & l1i' & k & E & G1 & Gcl & G2 & G3).
    rewrite E. cbn [bind].
    set (dbus2 := bus_push (m_dbus m) (cyc + 2) (map pcz (seq f k))).
    set (m2 := set_dbus (set_l1i (set_fu m fu') l1i') dbus2).
    destruct (seq_split pcz (bb_q (m_dbus m)) (map snd (bb_buf (m_dbus m))) c (f - c) F2) as (Q1 & Q2 & Q3).
    rewrite map_length in Q2, Q3.
    set (len := length (bb_q (m_dbus m))) in *. set (lb := length (bb_buf (m_dbus m))) in *.
    assert (Bd2 : BusOK (cyc + 1) dbus2).
    { unfold dbus2. replace (cyc + 2) with (cyc + 1 + 1) by lia. apply bus_push_ok. eapply busok_mono; [|exact F10]. lia. }
    assert (Bc1 : BusOK (cyc + 1) (m_cbus m)) by (eapply busok_mono; [|exact F11]; lia).
    assert (Be1 : BusOK (cyc + 1) (m_ebus m)) by (eapply busok_mono; [|exact F12]; lia).
    assert (Bw1 : BusOK (cyc + 1) (m_wbus m)) by (eapply busok_mono; [|exact F13]; lia).
    assert (Hb2 : blen dbus2 = blen (m_dbus m) + Z.of_nat k).
    { unfold dbus2, bus_push, blen. cbn [bb_buf]. rewrite zlen_app, stamped_len. unfold zlen. rewrite map_length, seq_length. reflexivity. }
    assert (Hfco : f_co (m_fu m) = FDone -> phiF fu' = phiF (m_fu m) /\ f_complete fu' = f_complete (m_fu m) /\ k = O).
    { intros Hd. unfold fu_cycle6 in E. rewrite Hd in E. injection E as E1 _ E3.
      assert (k = O).
      { apply (f_equal (fun b => zlen (bb_buf b))) in E3. fold dbus2 in E3. fold (blen dbus2) in E3.
        assert (blen (if f_clean (m_fu m) then bb_clean (m_dbus m) else m_dbus m) <= blen (m_dbus m)).
        { destruct (f_clean (m_fu m)); [unfold blen, bb_clean; cbn [bb_buf]; rewrite zlen_nil; apply zlen_ge0 | lia]. }
        unfold blen in *. lia. }
      rewrite <- E1. split; [unfold phiF, phi_co; cbn [f_pc f_co f_rem]; rewrite Hd; reflexivity | split; [reflexivity | assumption]]. }
    assert (Hidle : m_dret m = true \/ m_dpbr m = true ->
      exists m3 c' f',
        du_cycle6 app (cyc + 1) m2 = Ok m3 /\ FrontI d c' f' (cyc + 1) m3 /\
        m_regs m3 = m_regs m /\ m_mem m3 = m_mem m /\ m_pw m3 = m_pw m /\ m_pr m3 = m_pr m /\ m_l3 m3 = m_l3 m /\
        m_ebus m3 = m_ebus m /\ m_wbus m3 = m_wbus m /\ m_cu m3 = m_cu m /\ bb_q (m_cbus m3) = bb_q (m_cbus m) /\
        phiF (m_fu m3) + 10 * blen (m_dbus m3) + 9 * qlen (m_dbus m3) + 8 * blen (m_cbus m3)
          <= phiF (m_fu m) + 10 * blen (m_dbus m) + 9 * qlen (m_dbus m) + 8 * blen (m_cbus m) /\
        (phiF (m_fu m3) + 10 * blen (m_dbus m3) + 9 * qlen (m_dbus m3) + 8 * blen (m_cbus m3)
          < phiF (m_fu m) + 10 * blen (m_dbus m) + 9 * qlen (m_dbus m) + 8 * blen (m_cbus m) \/
         (((f_co (m_fu m) = FDone /\ phiF (m_fu m3) = phiF (m_fu m) /\ f_complete (m_fu m3) = f_complete (m_fu m)) \/
           (f_co (m_fu m) = FNone /\ bb_canadd (m_dbus m) = false)) /\
          (m_dret m = true \/ m_dpbr m = true \/ bb_q (m_dbus m) = [])))).
    { intros Hflag. exists m2, c, (f + k)%nat. split; [apply du_idle; exact Hflag|].
      split; [|split; [|split; [|split; [|split; [|split; [|split; [|split; [|split; [|split; [|split]]]]]]]]]]; try reflexivity.
      + constructor; unfold m2; cbn [set_dbus set_l1i set_fu m_fu m_l1i m_bu m_dbus m_cbus m_ebus m_wbus m_cu m_dret m_dpbr]; auto.
        * intros Hx. congruence.
        * unfold dbus2. rewrite bus_push_flat, F2. replace f with (c + (f - c))%nat at 2 by lia. rewrite seq_join. f_equal. f_equal. lia.
        * lia.
      + unfold m2. cbn [set_dbus set_l1i set_fu m_fu m_dbus m_cbus]. fold dbus2. unfold dbus2 at 2, bus_push, qlen. cbn [bb_q]. fold (qlen (m_dbus m)). lia.
      + unfold m2. cbn [set_dbus set_l1i set_fu m_fu m_dbus m_cbus]. fold dbus2.
        assert (Hq2 : qlen dbus2 = qlen (m_dbus m)) by reflexivity.
        assert (Hfl : m_dret m = true \/ m_dpbr m = true \/ bb_q (m_dbus m) = []) by tauto.
        destruct (f_co (m_fu m)) eqn:Eco.
        * destruct (bb_canadd (m_dbus m)) eqn:Eadd; [left; specialize (G3 (or_intror (conj eq_refl eq_refl))); lia|].
          right. split; [right; auto | exact Hfl].
        * left. specialize (G3 (or_introl eq_refl)). lia.
        * right. split; [left; split; [reflexivity | destruct (Hfco eq_refl) as (A & B & _); auto] | exact Hfl]. }
    destruct (m_dret m) eqn:Edr; [apply Hidle; left; reflexivity|].
    destruct (m_dpbr m) eqn:Edp; [apply Hidle; right; reflexivity|]. clear Hidle.
    (* decode *)
    assert (Hq2 : bb_q (m_dbus m2) = map pcz (seq c len)).
    { unfold m2. cbn [set_dbus m_dbus]. unfold dbus2, bus_push. cbn [bb_q]. exact Q1. }
    assert (Hbc : (base <= c)%nat) by lia.
    destruct (du_ok app base cyc m2 c len Hq2 Hbc (F7 eq_refl eq_refl) Edr Edp) as (j & ret' & pbr' & E2 & Hj & Hj0 & Hrt & Hpt & Hrf).
    rewrite E2. unfold m2 at 2 3 4 5. cbn [set_dbus set_l1i set_fu m_dbus m_cbus set_du].
    fold n in E2, Hrt, Hpt, Hrf |- *. fold N in Hrt, Hpt, Hrf |- *.
    eexists _, (c + j)%nat, (f + k)%nat. split; [reflexivity|].
    set (em := Nat.min c n) in *. set (em' := Nat.min (c + j) n) in *.
    assert (Hem : (em <= em')%nat) by (unfold em, em'; lia).
    match goal with |- FrontI _ _ _ _ ?x /\ _ => set (m3 := x) end.
    assert (P1 : m_fu m3 = fu') by reflexivity.
    assert (P2 : blen (m_dbus m3) = blen (m_dbus m) + Z.of_nat k) by exact Hb2.
    assert (P3 : qlen (m_dbus m3) = Z.of_nat (len - j)).
    { unfold m3, qlen, zlen. cbn [set_cbus set_dbus m_dbus bb_q]. rewrite map_length, seq_length. reflexivity. }
    assert (P4 : blen (m_cbus m3) = blen (m_cbus m) + Z.of_nat (em' - em)).
    { unfold m3, blen, bus_push. cbn [set_cbus m_cbus bb_buf]. rewrite zlen_app, stamped_len. unfold zlen. rewrite map_length, seq_length. reflexivity. }
    assert (P5 : qlen (m_dbus m) = Z.of_nat len) by reflexivity.
    assert (Hemj : (em' - em <= j)%nat) by (unfold em, em'; lia).
    split; [|split; [|split; [|split; [|split; [|split; [|split; [|split; [|split; [|split; [|split]]]]]]]]]]; try reflexivity.
    + constructor; unfold m3, m2; cbn [set_cbus set_dbus set_du set_l1i set_fu m_fu m_l1i m_bu m_dbus m_cbus m_ebus m_wbus m_cu m_dret m_dpbr]; auto.
      * intros Hx. congruence.
      * (* dbus *)
        unfold flat. cbn [bb_q bb_buf]. unfold dbus2, bus_push. cbn [bb_buf]. rewrite map_app, stamped_snd, Q2.
        replace (c + len)%nat with (c + j + (len - j))%nat by lia. rewrite app_assoc, seq_join.
        replace f with (c + j + (len - j + lb))%nat at 1 by lia. rewrite seq_join. f_equal. f_equal. lia.
      * lia.
      * rewrite bus_push_flat, app_assoc, F4. fold em. replace em with (d + (em - d))%nat at 2 by lia.
        rewrite seq_join. f_equal. f_equal. lia.
      * fold em'. lia.
      * apply busok_newq; [exact Bd2|]. unfold zlen. rewrite map_length, seq_length. pose proof (bus_q _ _ F10). unfold qlen, zlen in H. fold len in H. lia.
      * replace (cyc + 2) with (cyc + 1 + 1) by lia. apply bus_push_ok. exact Bc1.
    + rewrite P1, P2, P3, P4, P5. lia.
    + rewrite P1, P2, P3, P4, P5.
      destruct (Nat.eq_dec j 0) as [Ej|Ej]; [|left; lia].
      assert (Hlen00 : len = O) by lia.
      assert (Hq0 : bb_q (m_dbus m) = []) by (unfold len in Hlen00; destruct (bb_q (m_dbus m)); [reflexivity | discriminate]).
      destruct (f_co (m_fu m)) eqn:Eco.
      * destruct (bb_canadd (m_dbus m)) eqn:Eadd; [left; specialize (G3 (or_intror (conj eq_refl eq_refl))); lia|].
        right. split; [right; auto | right; right; exact Hq0].
      * left. specialize (G3 (or_introl eq_refl)). lia.
      * right. split; [left; split; [reflexivity | destruct (Hfco eq_refl) as (A & B & _); auto] | right; right; exact Hq0].
  Qed.

  Lemma pushable_second_plain m cy r1 k2 : pushable m cy 0 [r1; rn k2] -> plain k2.
  Proof.
    intros (_ & H2 & _). replace (0 + 1) with 1 in H2 by lia.
    destruct (handle_push_hazard _ _ _ _ _ H2) as (_ & Hre & Hbr). cbn [Mvp60RefFront.rn r_instr] in Hre, Hbr.
    split; [|apply Hbr; reflexivity].
    destruct (is_ret (ik k2)) eqn:Er; [|reflexivity]. exfalso. rewrite is_ret_type in Hre. specialize (Hre Er).
    unfold bb_isempty, disp1, add_pending6, set_sb, set_ebus, bb_add in Hre. cbn [m_ebus bb_buf bb_q] in Hre.
    apply andb_prop in Hre as [_ Hb]. apply Z.eqb_eq in Hb. rewrite zlen_app, zlen_cons, zlen_nil in Hb.
    pose proof (zlen_ge0 (bb_buf (m_ebus m))). lia.
  Qed.

  (* controlUnit.cycle *)
  Lemma cu_ok d c f cy m eus : FrontI d c f cy m -> BackI d m eus ->
    exists lp,
      FrontI (d + lp) c f cy (cu_cycle6 cy m) /\ BackI (d + lp) (cu_cycle6 cy m) eus /\
      (lp <= 2)%nat /\ Z.of_nat lp <= 2 - blen (m_ebus m) /\
      m_fu (cu_cycle6 cy m) = m_fu m /\ m_dbus (cu_cycle6 cy m) = m_dbus m /\ m_wbus (cu_cycle6 cy m) = m_wbus m /\
      bb_buf (m_cbus (cu_cycle6 cy m)) = bb_buf (m_cbus m) /\ bb_q (m_ebus (cu_cycle6 cy m)) = bb_q (m_ebus m) /\
      bb_buf (m_ebus (cu_cycle6 cy m)) = bb_buf (m_ebus m) ++ stamped (cy + 1) (map rn (seq d lp)) /\
      (lp = 2%nat -> plain (S d)) /\
      6 * zlen (m_cu (cu_cycle6 cy m)) + 7 * qlen (m_cbus (cu_cycle6 cy m)) + 5 * blen (m_ebus (cu_cycle6 cy m))
        <= 6 * zlen (m_cu m) + 7 * qlen (m_cbus m) + 5 * blen (m_ebus m) /\
      (FL m eus = [] ->
       6 * zlen (m_cu (cu_cycle6 cy m)) + 7 * qlen (m_cbus (cu_cycle6 cy m)) + 5 * blen (m_ebus (cu_cycle6 cy m))
         < 6 * zlen (m_cu m) + 7 * qlen (m_cbus m) + 5 * blen (m_ebus m) \/
       (m_cu m = [] /\ bb_q (m_cbus m) = [])).
  Proof.
    intros HF HB. pose proof HF as [F1 Fc F2 F3 Fb F4 F5 F6 F7 F8 F9 Fbt F10 F11 F12 F13 F14].
    destruct (front_dN _ _ _ _ _ HF) as [HdN Hdn].
    destruct (cu_cycle_spec cy m F6 (bus_bl _ _ F12) F14) as [[Eadd ->]|(Eadd & pre & cu' & q' & E1 & Hp & Hcu' & Hlp & -> & Hw & Hstrict)].
    { exists O. rewrite Nat.add_0_r. cbn [seq map]. unfold stamped. cbn [map]. rewrite app_nil_r.
      pose proof (blen_ge0 (m_ebus m)).
      split; [exact HF|]. split; [exact HB|]. split; [lia|]. split; [change (Z.of_nat 0) with 0; lia|]. repeat (split; [reflexivity|]).
      split; [discriminate|]. split; [lia|].
      intros HFL. exfalso. unfold FL in HFL. apply app_eq_nil in HFL as [HFL _]. apply map_eq_nil in HFL.
      apply flat_nil_inv in HFL as [_ Hb]. unfold bb_canadd in Eadd. rewrite Hb, (bus_bl _ _ F12) in Eadd. discriminate. }
    (* the dispatched runners are the next ones of the stream *)
    assert (Hall : pre ++ (cu' ++ q' ++ map snd (bb_buf (m_cbus m))) = map rn (seq d (Nat.min c n - d))).
    { rewrite <- F4. unfold flat. rewrite (app_assoc (m_cu m)), E1, <- !app_assoc. reflexivity. }
    destruct (seq_split rn _ _ _ _ Hall) as (Hpre & Hrest & Hlen).
    set (lp := length pre) in *.
    assert (Hlp2 : (lp <= 2)%nat).
    { pose proof (blen_ge0 (m_ebus m)). unfold zlen in Hlp. fold lp in Hlp. lia. }
    destruct (dispN_proj cy pre m) as (P1&P2&P3&P4&P5&P6&P7&P8&P9&P10&P11&P12&P13&P14).
    set (m4 := set_cu (set_cbus (dispN m cy pre) (mk_bb (bb_buf (m_cbus m)) q' (bb_ql (m_cbus m)) (bb_bl (m_cbus m)))) cu').
    assert (HdlN : (d + lp <= S N)%nat /\ (d + lp <= n)%nat).
    { rewrite !app_length in Hlen. fold lp in Hlen.
      destruct (m_dret m) eqn:Edr; [destruct (F8 eq_refl) as (A & B & _); lia|].
      destruct (m_dpbr m) eqn:Edp; [destruct (F9 eq_refl) as (A & B & _); lia | pose proof (F7 eq_refl eq_refl); lia]. }
    assert (HB' : BackI (d + lp) m4 eus).
    { eapply BackI_ext with (m := dispN m cy pre); try reflexivity.
      rewrite Hpre. eapply dispN_back with (p := 0); try eassumption; try (fold N; lia); try (fold n; lia).
      rewrite <- Hpre. exact Hp. }
    assert (Hq' : zlen q' <= qlen (m_cbus m)).
    { pose proof (zlen_ge0 pre). pose proof (zlen_ge0 cu'). pose proof (zlen_ge0 q').
      assert (Hsum : zlen (m_cu m) + zlen (bb_q (m_cbus m)) = zlen pre + zlen cu' + zlen q').
      { rewrite <- !zlen_app. rewrite E1. rewrite !zlen_app. lia. }
      unfold qlen. assert (zlen (m_cu m) <= 1) by (unfold zlen; lia). lia. }
    assert (Hbm : bb_buf (m_ebus m4) = bb_buf (m_ebus m) ++ stamped (cy + 1) pre).
    { unfold m4. cbn [set_cu set_cbus m_ebus]. rewrite P14. reflexivity. }
    exists lp.
    split; [|split; [exact HB'|split; [exact Hlp2|split; [|split; [|split; [|split; [|split; [|split; [|split; [|split; [|split]]]]]]]]]]].
    - constructor; unfold m4; cbn [set_cu set_cbus m_fu m_l1i m_bu m_dbus m_cbus m_ebus m_wbus m_cu m_dret m_dpbr];
        rewrite ?P3, ?P6, ?P7, ?P8, ?P10, ?P11, ?P13, ?P14; auto.
      + lia.
      + unfold flat. cbn [bb_q bb_buf]. rewrite Hrest. f_equal. f_equal. rewrite !app_length in *. lia.
      + lia.
      + apply busok_newq; [exact F11 | pose proof (bus_q _ _ F11); lia].
      + apply bus_push_ok. exact F12.
      + unfold bus_push, blen. cbn [bb_buf]. rewrite zlen_app, stamped_len. fold (blen (m_ebus m)). lia.
    - unfold zlen in Hlp. fold lp in Hlp. exact Hlp.
    - unfold m4. cbn [set_cu set_cbus m_fu]. exact P6.
    - unfold m4. cbn [set_cu set_cbus m_dbus]. exact P11.
    - unfold m4. cbn [set_cu set_cbus m_wbus]. exact P13.
    - reflexivity.
    - unfold m4. cbn [set_cu set_cbus m_ebus]. rewrite P14. reflexivity.
    - rewrite Hbm, Hpre. reflexivity.
    - intros Hl2. assert (Hpre2 : pre = [rn d; rn (S d)]) by (rewrite Hpre, Hl2; reflexivity).
      rewrite Hpre2 in Hp. eapply pushable_second_plain. exact Hp.
    - unfold m4. cbn [set_cu set_cbus m_cu m_cbus m_ebus]. rewrite P14. unfold qlen, blen, bus_push. cbn [bb_q bb_buf].
      rewrite zlen_app, stamped_len. fold (blen (m_ebus m)). unfold qlen in Hw. lia.
    - intros HFL. unfold m4. cbn [set_cu set_cbus m_cu m_cbus m_ebus]. rewrite P14. unfold qlen, blen, bus_push. cbn [bb_q bb_buf].
      rewrite zlen_app, stamped_len. fold (blen (m_ebus m)). unfold qlen in Hstrict.
      destruct Hstrict as [Hs|[Hs|(r & t & Er & Hblk)]]; [left; lia | right; exact Hs|]. exfalso.
      (* nothing in flight: the head of the queue cannot be blocked *)
      pose proof (bi_sem _ _ _ _ _ _ _ _ HB) as HS. rewrite HFL in HS.
      assert (Hz : forall p, length p = 32%nat -> (forall s, (s < 32)%nat -> nth s p 0 = 0) -> forall s, nth s p 0 <= 0).
      { intros p Lp Hp0 s. destruct (Nat.lt_ge_cases s 32) as [Hs|Hs]; [rewrite Hp0 by exact Hs; lia|].
        rewrite nth_overflow by lia. lia. }
      assert (Hnh : forall rs ws, has_hazard6 m rs ws = false).
      { intros rs ws. apply no_hazard_intro.
        - apply Hz; [apply (bs_pwlen _ _ _ _ _ _ _ _ _ HS)|]. intros s Hs. rewrite (bs_pw _ _ _ _ _ _ _ _ _ HS s Hs). reflexivity.
        - apply Hz; [apply (bs_prlen _ _ _ _ _ _ _ _ _ HS)|]. intros s Hs. rewrite (bs_pr _ _ _ _ _ _ _ _ _ HS s Hs). reflexivity. }
      assert (Hemp : bb_isempty (m_ebus m) = true).
      { unfold FL in HFL. apply app_eq_nil in HFL as [HFL _]. apply map_eq_nil in HFL. apply flat_nil_inv in HFL as [A B].
        unfold bb_isempty. rewrite A, B. reflexivity. }
      unfold handle_runner in Hblk. rewrite Hemp, Hnh in Hblk. cbn [negb andb] in Hblk. rewrite andb_false_r in Hblk.
      change (0 <? 0) with false in Hblk. cbn [andb] in Hblk. discriminate Hblk.
  Qed.

  (* ---------------------------------------------------------------- *)
  (* helpers                                                           *)

  Lemma FrontI_mono d c f cy cy' m : cy <= cy' -> FrontI d c f cy m -> FrontI d c f cy' m.
  Proof.
    intros Hc [F1 Fc F2 F3 Fb F4 F5 F6 F7 F8 F9 Fbt F10 F11 F12 F13 F14].
    constructor; auto; eapply busok_mono; eassumption.
  Qed.

  Lemma finish_ok m cy : lines (m_l3 m) = [] -> finish6 m cy = MDone cy (mk_arch (m_regs m) (m_mem m)).
  Proof. intros H. unfold finish6. rewrite H. cbn [flush_lines]. rewrite Z.add_0_r. reflexivity. Qed.

  Lemma isempty_intro {T} (b : bbus T) : qlen b = 0 -> blen b = 0 -> bb_isempty b = true.
  Proof. unfold bb_isempty, qlen, blen. intros -> ->. reflexivity. Qed.

  Lemma wus_empty wus : Forall (fun w => u_co w = WNone) wus -> forallb wu_empty wus = true.
  Proof. intros Hw. apply forallb_forall. intros w Hin. rewrite Forall_forall in Hw. unfold wu_empty. rewrite (Hw w Hin). reflexivity. Qed.

  Lemma eus_empty eus : Forall EuNone eus -> forallb eu_empty eus = true.
  Proof. intros H. apply forallb_forall. intros e Hin. rewrite Forall_forall in H. destruct (H e Hin) as [_ Hc]. unfold eu_empty. rewrite Hc. reflexivity. Qed.

  Lemma kout_ret k : is_ret (ik k) = true -> kout k = mk_euo6 false 0 0 true.
  Proof. intros H. unfold Mvp60RefBack.kout. rewrite H. reflexivity. Qed.

  Lemma kout_jump k : (base <= k <= N)%nat -> (k < n)%nat -> is_jump (ik k) = true -> o_flush (kout k) = true.
  Proof.
    intros H1 H2 Hj. unfold Mvp60RefBack.kout.
    assert (Hr : is_ret (ik k) = false).
    { destruct (is_ret (ik k)) eqn:E; [|reflexivity]. destruct (ret_not_branch _ E). congruence. }
    rewrite Hr, Hj. cbn [orb].
    pose proof (eff_kind app labels regs0 base Hsem k H1 H2) as Hk.
    pose proof (eff_ret app labels regs0 base Hsem k H1 H2) as Hrt.
    pose proof (eff_nostore app labels regs0 base Hreg Hsem k) as Hns.
    destruct (eff k) as [rd v|bs| |a|rd v a|]; cbn [etarget]; try reflexivity; try congruence; exfalso.
    - exact (Hns bs H1 H2 eq_refl).
    - rewrite (proj1 Hrt eq_refl) in Hr. discriminate.
  Qed.

  Lemma kout_cases k : kout k = euo_none \/ kout k = mk_euo6 false 0 0 true \/
    exists a, kout k = mk_euo6 true (pcz k) a false /\ etarget (eff k) = Some a /\ is_ret (ik k) = false.
  Proof.
    unfold Mvp60RefBack.kout. destruct (is_ret (ik k)); [right; left; reflexivity|].
    destruct (etarget (eff k)) as [a|]; [|left; reflexivity].
    destruct (is_jump (ik k) || negb (pcz (S k) =? a)); [right; right; exists a; auto | left; reflexivity].
  Qed.

  (* ---------------------------------------------------------------- *)
  (* the timing invariant: between cycles every execute unit is idle, the queue of the
     write bus is empty, and the execute bus holds the most recently dispatched runners *)

  Record TI (x d : nat) (m : mach) (eus : list eu6) (wus : list wu6) : Prop := mkTI {
    ti_eus : Forall EuNone eus;
    ti_wq : bb_q (m_wbus m) = [];
    ti_wb : blen (m_wbus m) <= Z.of_nat (length wus);
    ti_wb2 : blen (m_wbus m) <= 2;
    ti_len : length eus = length wus;
    ti_ebus : flat (m_ebus m) = map rn (seq x (d - x));
    ti_xd : (base <= x <= d)%nat;
    ti_pair : (2 <= length eus)%nat -> bb_q (m_ebus m) = [] /\ (blen (m_ebus m) = 2 -> plain (S x));
    ti_exec : forall k, (base <= k < x)%nat -> kout k = euo_none }.

  Record GI (d c f x : nat) (s : st6) : Prop := mkGI {
    gi_front : FrontI d c f (s_cycle s) (s_m s);
    gi_back : BackI d (s_m s) (s_eus s);
    gi_ti : TI x d (s_m s) (s_eus s) (s_wus s);
    gi_wus : Forall (fun w => u_co w = WNone) (s_wus s);
    gi_wne : s_wus s <> [];
    gi_cyc : Z.of_nat d <= 2 * s_cycle s + off;
    gi_mode : s_mode s = MNormal }.

  Lemma front6_eq c m : front6 app c m =
    (m3 <- (r <- fu_cycle6 app c (m_fu (conn m c)) (m_l1i (conn m c)) (m_dbus (conn m c)) ;;
            let '(fu1, l1i1, dbus1) := r in
            du_cycle6 app c (set_dbus (set_l1i (set_fu (conn m c) fu1) l1i1) dbus1)) ;;
     Ok (cu_cycle6 c m3)).
  Proof.
    unfold front6.
    change (set_wbus (set_ebus (set_cbus (set_dbus m (bb_connect (m_dbus m) c)) (bb_connect (m_cbus m) c))
                               (bb_connect (m_ebus m) c)) (bb_connect (m_wbus m) c)) with (conn m c).
    cbv zeta.
    destruct (fu_cycle6 app c (m_fu (conn m c)) (m_l1i (conn m c)) (m_dbus (conn m c))) as [[[fu1 l1i1] dbus1]| |];
      cbn [bind]; reflexivity.
  Qed.

  Lemma phiM_nn m : 0 <= phiM m.
  Proof.
    unfold phiM. pose proof (blen_ge0 (m_dbus m)). pose proof (qlen_ge0 (m_dbus m)). pose proof (blen_ge0 (m_cbus m)).
    pose proof (qlen_ge0 (m_cbus m)). pose proof (zlen_ge0 (m_cu m)). pose proof (blen_ge0 (m_ebus m)). pose proof (qlen_ge0 (m_ebus m)).
    pose proof (blen_ge0 (m_wbus m)). pose proof (qlen_ge0 (m_wbus m)). lia.
  Qed.

  (* ---------------------------------------------------------------- *)
  (* one iteration of the main loop, up to and including the write units *)

  Lemma normal_ok ord d c f x s : GI d c f x s ->
    exists m4 m5 m6 eus' d' c' f' lq,
      let j := Nat.min (length (s_eus s)) lq in
      let out := if (lq =? 0)%nat then euo_none else kout x in
      front6 app (s_cycle s + 1) (s_m s) = Ok m4 /\
      eus_cycle labels ord (s_cycle s + 1) false m4 (s_eus s) euo_none = (false, Ok (m5, eus', out)) /\
      wus_cycle m5 (s_wus s) (-1) = Ok (m6, s_wus s) /\
      (o_flush out = false -> FrontI d' c' f' (s_cycle s + 1) m6) /\
      IInv (m_l1i m6) /\ Forall (fun en => fst en < (if (lq =? 0)%nat then pcz d' else pcz (S x))) (b_btb (m_bu m6)) /\
      BusOK (s_cycle s + 1) (m_wbus m6) /\
      (bb_ql (m_dbus m6) = 2 /\ bb_bl (m_dbus m6) = 2 /\ bb_ql (m_cbus m6) = 2 /\ bb_bl (m_cbus m6) = 2 /\
       bb_ql (m_ebus m6) = 2 /\ bb_bl (m_ebus m6) = 2) /\
      (d' <= n)%nat /\ (d' <= S N)%nat /\
      BackI d' m6 eus' /\ Forall EuNone eus' /\ length eus' = length (s_eus s) /\
      flat (m_ebus m6) = map rn (seq (x + j) (d' - (x + j))) /\ (x + j <= d')%nat /\ (lq <= 2)%nat /\
      bb_q (m_wbus m6) = [] /\
      bb_buf (m_wbus m6) = map (fun k => (s_cycle s + 1 + 1, wbn app labels regs0 base k)) (filter (notret app) (seq x j)) /\
      ((2 <= length (s_eus s))%nat -> bb_q (m_ebus m6) = [] /\ (blen (m_ebus m6) = 2 -> plain (S (x + j)))) /\
      (forall k, In k (seq x j) -> (base <= k < d')%nat /\ (k <= N)%nat /\ (k < n)%nat) /\
      (forall k, (x < k < x + j)%nat -> plain k) /\
      Z.of_nat d' <= 2 * (s_cycle s + 1) + off /\
      (o_flush out = false -> phi m6 eus' <= phi (s_m s) (s_eus s) /\
         (phi m6 eus' < phi (s_m s) (s_eus s) \/ (lq = O /\ is_empty6 m6 eus' (s_wus s) = true))).
  Proof.
    intros [GF GB GT GW GWne GC GM].
    set (m0 := s_m s) in *. set (eus := s_eus s) in *. set (wus := s_wus s) in *. set (cyc := s_cycle s) in *.
    pose proof GT as [T1 T2 T3 T3' T4 T5 T6 T7 T8].
    assert (GEne : eus <> []) by (intros E; apply GWne; destruct wus; [reflexivity | rewrite E in T4; discriminate]).
    destruct (conn_ok d c f cyc m0 eus GF GB) as (C1 & C2 & C3 & C4 & C5 & C6 & C6' & C7 & D1 & D2 & Cc1 & Cc2 & E1 & E2 & W1 & W2 & K1 & K2 & K3 & K4).
    set (m1 := conn m0 (cyc + 1)) in *.
    (* the write bus after Connect: everything is in the queue *)
    assert (Wq0 : qlen (m_wbus m0) = 0) by (unfold qlen; rewrite T2; reflexivity).
    pose proof (blen_ge0 (m_wbus m1)) as Wb1ge. pose proof (qlen_ge0 (m_wbus m1)) as Wq1ge.
    assert (Wb1 : blen (m_wbus m1) = 0) by lia.
    assert (Wq1 : qlen (m_wbus m1) = blen (m_wbus m0)) by lia.
    destruct (fd_ok d c f cyc m1 C1) as (m3 & c' & f' & Efd & F3 & R1 & R2 & R3 & R4 & R5 & R6 & R7 & R8 & R9 & Pfd & Sfd).
    assert (HB3 : BackI d m3 eus).
    { eapply BackI_ext; [| | | | | | |exact C2]; congruence. }
    destruct (cu_ok d c' f' (cyc + 1) m3 eus F3 HB3) as (lp & F4 & B4 & Hlp2 & Hlpb & Q1 & Q2 & Q3 & Q4 & Q5 & Q6 & Qpl & Pcu & Scu).
    set (m4 := cu_cycle6 (cyc + 1) m3) in *. set (d' := (d + lp)%nat) in *.
    destruct (front_dN _ _ _ _ _ F4) as [Hd'N Hd'n].
    assert (Efront : front6 app (cyc + 1) m0 = Ok m4).
    { rewrite front6_eq. fold m1. rewrite Efd. reflexivity. }
    (* the execute bus: the queue is a prefix of the contiguous tail *)
    assert (Hfe4 : flat (m_ebus m4) = map rn (seq x (d' - x))).
    { unfold flat. rewrite Q5, Q6, R6, map_app, stamped_snd, app_assoc. fold (flat (m_ebus m1)). rewrite C3, T5.
      replace d with (x + (d - x))%nat at 2 by lia. rewrite seq_join. f_equal. f_equal. unfold d'. lia. }
    destruct (seq_split rn (bb_q (m_ebus m4)) (map snd (bb_buf (m_ebus m4))) x (d' - x) Hfe4) as (Hq4 & Hb4 & Hl4).
    rewrite map_length in Hb4, Hl4.
    set (lq := length (bb_q (m_ebus m4))) in *.
    assert (Hlq2 : (lq <= 2)%nat).
    { pose proof (bus_q _ _ (fr_be _ _ _ _ _ F4)) as Hx. unfold qlen, zlen in Hx. fold lq in Hx. lia. }
    assert (Hqe1 : qlen (m_ebus m1) = Z.of_nat lq) by (unfold qlen, lq; rewrite Q5, R6; reflexivity).
    set (j := Nat.min (length eus) lq).
    set (bound := if (lq =? 0)%nat then pcz d' else pcz (S x)).
    assert (Hxd' : lq <> O -> (x < d')%nat).
    { intros Hl. assert (lq + length (bb_buf (m_ebus m4)) = d' - x)%nat by lia. lia. }
    assert (Hbound : pcz base <= bound /\ (lq <> O -> pcz x < bound) /\ bound <= pcz d').
    { unfold bound. pose proof (fr_bd _ _ _ _ _ F4). destruct lq; cbn [Nat.eqb]; unfold pcz in *; [lia|].
      specialize (Hxd' ltac:(discriminate)). lia. }
    assert (Hbtb4 : Forall (fun en => fst en < bound) (b_btb (m_bu m4))).
    { eapply Forall_impl; [|exact (fr_btb _ _ _ _ _ F4)]. cbn beta. intros e He. lia. }
    assert (Hwb4 : blen (m_wbus m4) = 0) by (rewrite Q3, R7; exact Wb1).
    assert (Hplj : forall k, (x < k < x + j)%nat -> plain k).
    { intros k Hk. assert (Hj2 : j = 2%nat) by lia. assert (He2 : (2 <= length eus)%nat) by lia. assert (Hlq' : lq = 2%nat) by lia.
      destruct (T7 He2) as [Tq Tp]. assert (k = S x) by lia. subst k. apply Tp.
      assert (Hq0 : qlen (m_ebus m0) = 0) by (unfold qlen; rewrite Tq; reflexivity).
      pose proof (blen_ge0 (m_ebus m1)). pose proof (fr_eb _ _ _ _ _ GF). lia. }
    destruct (eus_t1 app labels regs0 mem0 base Happ Hreg Hlen0 Hbase Hsem ord (cyc + 1) d' eus bound eus m4 x lq GEne T1 T1 B4
                (fr_bw _ _ _ _ _ F4) ltac:(fold j; lia) Hbtb4 (proj1 (proj2 Hbound)) (proj2 (proj2 Hbound)) Hq4
                ltac:(intros _; apply (btb_get_none _ (pcz base)); [exact (fr_btb _ _ _ _ _ F4) | unfold pcz; lia]) Hplj)
      as (m5 & eus' & Ee & A1 & A2 & A3 & A4 & A5 & A6 & A7 & A8 & A9 & A10).
    fold j in A6, A7, A8.
    destruct (wus_ok app labels regs0 mem0 base Hreg Hlen0 Hbase Hsem d' eus wus m5 A3 GW)
      as (m6 & Ew & B6 & V1 & V2 & V3 & V4 & V5 & V6 & V7 & V8 & V9 & V10 & V11 & V12 & V13 & V14 & V15 & V16 & V17 & V18).
    pose proof A5 as [U1 U2 U3 U4 U5 U6 U7 U8 U9 U10 U11 U12 U13 U14 U15 U16 U17].
    exists m4, m5, m6, eus', d', c', f', lq. cbv zeta. fold j.
    split; [exact Efront|]. split; [exact Ee|]. split; [exact Ew|].
    (* the write bus after the write units *)
    assert (Hq6 : bb_q (m_wbus m6) = []).
    { rewrite V16, U15, Q3, R7. apply skipn_all2. unfold qlen, zlen in Wq1. lia. }
    assert (Hb6 : bb_buf (m_wbus m6) = map (fun k => (cyc + 1 + 1, wbn app labels regs0 base k)) (filter (notret app) (seq x j))).
    { rewrite V13, A7. assert (Hb : bb_buf (m_wbus m4) = []) by (apply zlen_zero; exact Hwb4). rewrite Hb. reflexivity. }
    assert (Hfe6 : flat (m_ebus m6) = map rn (seq (x + j) (d' - (x + j)))).
    { rewrite V12. unfold flat. rewrite A6, U12, Hb4. fold lq.
      replace (x + lq)%nat with (x + j + (lq - j))%nat by lia. rewrite seq_join. f_equal. f_equal. unfold j in *. lia. }
    assert (Hxj : (x + j <= d')%nat) by (unfold j; lia).
    (* the front end, when no unit asked for a flush *)
    assert (HF6 : o_flush (if (lq =? 0)%nat then euo_none else kout x) = false -> FrontI d' c' f' (cyc + 1) m6).
    { intros Hnf. assert (Hcond : lq = O \/ o_flush (kout x) = false) by (destruct lq; [left; reflexivity | right; exact Hnf]).
      destruct (A9 Hcond) as (X1 & X2 & X3). destruct F4 as [G1 Gc G2 G3 Gb G4 G5 G6 G7 G8 G9 Gbt G10 G11 G12 G13 G14].
      constructor; rewrite ?V5, ?V2, ?V8, ?V10, ?V11, ?V6, ?V7, ?V9, ?V12, ?X1, ?X2, ?U5, ?U8, ?U9, ?U10, ?U11, ?X3; auto.
      - eapply BusOK_frame; [exact U12 | exact U13 | exact U14 | | exact G12]. unfold qlen. rewrite A6, Hq4. unfold zlen. rewrite !map_length, !seq_length. lia.
      - unfold blen. rewrite U12. exact G14. }
    split; [exact HF6|].
    split; [rewrite V2, U5; exact (fi_l1 _ _ _ _ (fr_fetch _ _ _ _ _ F4))|].
    split; [rewrite V9; exact A10|]. split; [apply V18; exact A4|].
    split.
    { rewrite V10, V11, V12, U10, U11, U13, U14.
      pose proof (fr_bsd _ _ _ _ _ F4) as [? ? _ _]. pose proof (fr_bc _ _ _ _ _ F4) as [? ? _ _]. pose proof (fr_be _ _ _ _ _ F4) as [? ? _ _]. repeat split; assumption. }
    split; [exact Hd'n|]. split; [exact Hd'N|]. split; [eapply BackI_eus; [exact T1 | exact A1 | exact B6]|].
    split; [exact A1|]. split; [exact A2|]. split; [exact Hfe6|]. split; [exact Hxj|]. split; [exact Hlq2|].
    split; [exact Hq6|]. split; [exact Hb6|].
    split.
    { intros He2. assert (Hjl : j = lq) by (unfold j; lia).
      split; [rewrite V12, A6, Hjl, Nat.sub_diag; reflexivity|].
      intros Hb2. destruct (T7 He2) as [Tq Tp].
      assert (Hq0 : qlen (m_ebus m0) = 0) by (unfold qlen; rewrite Tq; reflexivity).
      assert (Hbe1 : blen (m_ebus m1) = 0) by (pose proof (blen_ge0 (m_ebus m1)); pose proof (fr_eb _ _ _ _ _ GF); lia).
      assert (Hlp : lp = 2%nat).
      { rewrite V12 in Hb2. unfold blen in Hb2. rewrite U12, Q6, zlen_app, stamped_len in Hb2. unfold zlen at 2 in Hb2. rewrite map_length, seq_length in Hb2.
        rewrite R6 in Hb2. fold (blen (m_ebus m1)) in Hb2. lia. }
      assert (Hxd : (x + lq)%nat = d).
      { assert (Hbl : length (bb_buf (m_ebus m4)) = lp).
        { rewrite Q6, app_length, R6. unfold stamped. rewrite !map_length, seq_length.
          unfold blen, zlen in Hbe1. lia. }
        unfold d' in Hl4. lia. }
      rewrite Hjl, Hxd. apply Qpl. exact Hlp. }
    split; [exact A8|]. split; [exact Hplj|]. split; [unfold d'; lia|].
    (* the potential *)
    intros Hnf. assert (Hcond : lq = O \/ o_flush (kout x) = false) by (destruct lq; [left; reflexivity | right; exact Hnf]).
    destruct (A9 Hcond) as (X1 & X2 & X3).
    assert (Y1 : m_fu m6 = m_fu m3) by (rewrite V5, X1; exact Q1).
    assert (Y2 : m_dbus m6 = m_dbus m3) by (rewrite V10, U10; exact Q2).
    assert (Y3 : m_cbus m6 = m_cbus m4) by (rewrite V11, U11; reflexivity).
    assert (Y4 : m_cu m6 = m_cu m4) by (rewrite V8, U9; reflexivity).
    assert (Y5 : blen (m_ebus m6) = blen (m_ebus m4)) by (rewrite V12; unfold blen; rewrite U12; reflexivity).
    assert (Y6 : qlen (m_ebus m6) = Z.of_nat (lq - j)) by (rewrite V12; unfold qlen, zlen; rewrite A6, map_length, seq_length; reflexivity).
    assert (Y7 : blen (m_wbus m6) <= Z.of_nat j).
    { unfold blen, zlen. rewrite Hb6, map_length. pose proof (filter_len_le (notret app) (seq x j)) as Hx. rewrite seq_length in Hx. lia. }
    assert (Y8 : qlen (m_wbus m6) = 0) by (unfold qlen; rewrite Hq6; reflexivity).
    assert (Y9 : blen (m_cbus m4) = blen (m_cbus m3)) by (unfold blen; rewrite Q4; reflexivity).
    assert (Y12 : zlen (m_cu m3) = zlen (m_cu m0)) by (rewrite R8, C7; reflexivity).
    assert (Y13 : qlen (m_cbus m3) = qlen (m_cbus m1)) by (unfold qlen; rewrite R9; reflexivity).
    assert (Y14 : blen (m_ebus m3) = blen (m_ebus m1)) by (rewrite R6; reflexivity).
    assert (Y15 : m_fu m1 = m_fu m0) by exact C5.
    assert (Y15' : phiF (m_fu m1) = phiF (m_fu m0)) by (rewrite Y15; reflexivity).
    assert (Hjle : (j <= lq)%nat) by (unfold j; lia).
    assert (Heul : eul eus = []) by (apply eul_none; exact T1).
    assert (Heul' : eul eus' = []) by (apply eul_none; exact A1).
    pose proof (blen_ge0 (m_wbus m6)) as Y7'.
    assert (Hle : phi m6 eus' <= phi m0 eus).
    { unfold phi, phiR, phiM in *. rewrite Heul, Heul', Y1, Y2, Y3, Y4, Y5, Y6, Y8, Y9. change (zlen (@nil runner)) with 0. lia. }
    split; [exact Hle|].
    destruct (Z.eq_dec (blen (m_wbus m0)) 0) as [Wz|Wnz].
    2:{ left. pose proof (blen_ge0 (m_wbus m0)). unfold phi, phiR, phiM in *. rewrite Heul, Heul', Y1, Y2, Y3, Y4, Y5, Y6, Y8, Y9. change (zlen (@nil runner)) with 0. lia. }
    destruct (Nat.eq_dec j 0) as [Hj0|Hj0].
    2:{ left. unfold phi, phiR, phiM in *. rewrite Heul, Heul', Y1, Y2, Y3, Y4, Y5, Y6, Y8, Y9. change (zlen (@nil runner)) with 0. lia. }
    assert (Hlq0 : lq = O) by (unfold j in Hj0; destruct eus; [contradiction | cbn [length] in Hj0; lia]).
    assert (Eq0 : qlen (m_ebus m1) = 0) by (rewrite Hqe1, Hlq0; reflexivity).
    assert (Eb0 : blen (m_ebus m1) = 0) by lia.
    assert (HFL3 : FL m3 eus = []).
    { unfold FL. rewrite R6, R7, Heul, !flat_nil by lia. reflexivity. }
    destruct (Scu HFL3) as [Hs|[Hcu0 Hcq0]].
    { left. unfold phi, phiR, phiM in *. rewrite Heul, Heul', Y1, Y2, Y3, Y4, Y5, Y6, Y8, Y9. change (zlen (@nil runner)) with 0. lia. }
    assert (Cq0 : qlen (m_cbus m1) = 0) by (rewrite <- Y13; unfold qlen; rewrite Hcq0; reflexivity).
    assert (Cb0 : blen (m_cbus m1) = 0) by lia.
    assert (Cu0 : zlen (m_cu m0) = 0) by (rewrite <- Y12, Hcu0; reflexivity).
    destruct Sfd as [Hs|[Hfu Hdu]].
    { left. unfold phi, phiR, phiM in *. rewrite Heul, Heul', Y1, Y2, Y3, Y4, Y5, Y6, Y8, Y9. change (zlen (@nil runner)) with 0. lia. }
    (* nothing is left between decode and write-back: the stopping instruction cannot have been decoded *)
    assert (Hxd : x = d).
    { pose proof T5 as Hx. rewrite <- C3, flat_nil in Hx by lia. symmetry in Hx. apply map_eq_nil in Hx.
      apply (f_equal (@length nat)) in Hx. rewrite seq_length in Hx. cbn [length] in Hx. lia. }
    assert (Hdc : d = Nat.min c n).
    { pose proof (fr_cl _ _ _ _ _ C1) as Hcl. rewrite R8 in Hcu0. rewrite Hcu0, flat_nil in Hcl by lia.
      cbn [List.app] in Hcl. symmetry in Hcl. apply map_eq_nil in Hcl.
      pose proof (fr_dc _ _ _ _ _ C1). apply (f_equal (@length nat)) in Hcl. rewrite seq_length in Hcl. cbn [length] in Hcl. lia. }
    assert (Hdq : bb_q (m_dbus m1) = []).
    { destruct Hdu as [Hdr|[Hdp|Hdq]]; [| |exact Hdq]; exfalso.
      - destruct (fr_dret_t _ _ _ _ _ C1 Hdr) as (HNn & Hc & Hret). subst c.
        assert (HNx : (base <= N < x)%nat) by (pose proof (stop_from_ge app base); fold N in H; lia).
        pose proof (T8 N HNx) as Hk. rewrite (kout_ret N Hret) in Hk. discriminate.
      - destruct (fr_dpbr_t _ _ _ _ _ C1 Hdp) as (HNn & Hc & Hjmp). subst c.
        assert (HNx : (base <= N < x)%nat) by (pose proof (stop_from_ge app base); fold N in H; lia).
        pose proof (T8 N HNx) as Hk. pose proof (kout_jump N ltac:(lia) HNn Hjmp) as Hf. rewrite Hk in Hf. discriminate. }
    assert (Dq0 : qlen (m_dbus m1) = 0) by (unfold qlen; rewrite Hdq; reflexivity).
    assert (Db0 : blen (m_dbus m1) = 0) by lia.
    destruct Hfu as [(Hco & Hfu & Hcomp)|[_ Hnadd]].
    2:{ exfalso. unfold bb_canadd in Hnadd. fold (blen (m_dbus m1)) in Hnadd. rewrite Db0, (bus_bl _ _ (fr_bsd _ _ _ _ _ C1)) in Hnadd. discriminate. }
    right. split; [exact Hlq0|].
    assert (Hz6 : phiR m6 eus' <= 0).
    { unfold phi in Hle. rewrite Y1, Hfu, Y15 in Hle.
      assert (phiR m0 eus <= 0); [|lia].
      unfold phiR, phiM. rewrite Heul. change (zlen (@nil runner)) with 0.
      pose proof (qlen_ge0 (m_dbus m0)). pose proof (qlen_ge0 (m_cbus m0)). pose proof (qlen_ge0 (m_ebus m0)). pose proof (qlen_ge0 (m_wbus m0)).
      pose proof (blen_ge0 (m_dbus m0)). pose proof (blen_ge0 (m_cbus m0)). pose proof (blen_ge0 (m_ebus m0)). pose proof (blen_ge0 (m_wbus m0)).
      lia. }
    assert (Hcomp6 : f_complete (m_fu m6) = true).
    { rewrite Y1, Hcomp, Y15. destruct (f_complete (m_fu m0)) eqn:Ec; [reflexivity|].
      destruct (fi_nc _ _ _ _ (fr_fetch _ _ _ _ _ GF) Ec) as [_ Hx]. rewrite Y15 in Hco. contradiction. }
    unfold phiR, phiM in Hz6. rewrite Heul' in Hz6. change (zlen (@nil runner)) with 0 in Hz6.
    pose proof (blen_ge0 (m_dbus m6)). pose proof (qlen_ge0 (m_dbus m6)). pose proof (blen_ge0 (m_cbus m6)).
    pose proof (qlen_ge0 (m_cbus m6)). pose proof (zlen_ge0 (m_cu m6)). pose proof (blen_ge0 (m_ebus m6)). pose proof (qlen_ge0 (m_ebus m6)).
    pose proof (qlen_ge0 (m_wbus m6)).
    unfold is_empty6. rewrite Hcomp6. replace (zlen (m_cu m6)) with 0 by lia. cbn [andb Z.eqb].
    rewrite (wus_empty _ GW), !isempty_intro by lia. rewrite (eus_empty _ A1). reflexivity.
  Qed.
End Step.
