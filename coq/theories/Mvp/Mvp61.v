(* H: faithful cycle-level model of proc/mvp6-1 = MVP-6.0 + operand forwarding between
   execute units.  Everything that is the same Go code as proc/mvp6-0 is taken from
   Mvp60.v (buffered bus, scoreboard, mmu, fetch unit, branch unit, write unit, finish);
   this file models what differs:
     cpu.go  Run loop; the flush branch ("Executing previous unit cycles",
             inner flush); flush; isEmpty                -> step1 (front1, back1, drain1, flusho1, flushw1)
     fu.go   reset / flush call ctx.IncSequenceID()      -> inc_seq (the coroutine itself = fu_cycle6)
     du.go   clears the forward of the decoded           -> du_loop1, du_cycle1
             instruction object; SequenceID = pc + 1000 * ctx.sequenceID
     cu.go   one branch per cycle, ret gate, skipped     -> handle_runner1, cu_pending1, cu_incoming1, cu_cycle1
             runners, shouldUseForwarding (channels)
     eu.go   Pre hook (sequence id), Receiver /          -> eu_pre1, eu_prepare1, eu_run1, eu_cycle1
             Forwarder channels, Forward on the instruction
     wu.go   = wu_cycle6 (before = the request's sequenceID)
     common/coroutine: Cycle = pre hook, then `current`; Checkpoint(f): current = f,
             isStart = false; Reset: current = start, isStart = true; the list of
             Append is never used.  So a coroutine is the same state machine as the
             hand-written closures of 6.0 (eu_co, wu_co, fu_co), ENone/WNone/FNone = IsStart.

   Pointers.  The execute bus carries *InstructionRunnerPc: the control unit pushes the
   address of a local copy of the runner, remembers that address in
   pushedRunnersInCurrentCycle and, one cycle later, may store a channel in the Forwarder
   field THROUGH that address while the object is still waiting on the bus; an execute
   unit copies the object when it takes it from the bus.  The model gives every pushed
   object a ghost identity r_id; `previousRunner.Forwarder = ch` updates the entry of the
   execute bus with that identity.

   Forward state.  Forward(f) stores f in the INSTRUCTION object app.Instructions[pc/4],
   which all dynamic instances of the instruction share: x_fwd, one (Register, Value) pair
   per instruction.  (auipc, j, lui, li, nop, ret ignore Forward; they read no register,
   so the pair kept for them is never looked at.)

   Channels.  make(chan int32, 1): x_ch holds (channel, value) for every channel with a
   value in its buffer; a send to a full channel would block the only goroutine for ever
   (it cannot happen: a Forwarder is set at most once and its owner runs once) and is
   rendered as Panic.

   Go map iteration.  As in Mvp60.v for a store's MemoryChanges (`ord`, ghost flag).
   In addition shouldUseForwarding ranges over the map pushedRunnersInPreviousCycle and
   takes the first runner that matches: `pord cycle n` picks one of the n matching runners;
   the ghost flag is also set when n > 1.

   One Gallina step (step1) per ctx.VerifTick(): fuel = tick budget.  No proofs here. *)
From Coq Require Import ZArith List Bool Lia.
From Maj Require Import Base.Outcome Base.GoInt Base.GoTypes Isa.Spec Isa.Seq.
From Maj Require Import Gen.Latency Gen.RiscTables Gen.Opcodes Comp.Cache Mvp.Mvp12 Mvp.Mvp3 Mvp.Mvp5 Mvp.Mvp60.
Import ListNotations.
Open Scope Z_scope.

(* ------------------------------------------------------------------ *)
(* state                                                                *)
(* ------------------------------------------------------------------ *)

(* risc.InstructionRunnerPc: r_b = (Runner, Pc, SequenceID); Forwarder, Receiver (channel
   identities), ForwardRegister; r_id = ghost identity of the object on the execute bus *)
Record runner1 := mk_r1 { r_b : runner; r_id : Z; r_fw : option Z; r_rc : option Z; r_freg : Z }.

(* what MVP-6.1 has beyond the machine of MVP-6.0.  The fields m_cu, m_cbus, m_ebus of the
   embedded `mach` are NOT used (they stay empty): their 6.1 versions carry runner1. *)
Record ext := mk_ext {
  x_seq : Z;                  (* ctx.sequenceID *)
  x_fwd : list (Z * Z);       (* the forward field of every element of app.Instructions *)
  x_cu : list runner1;        (* controlUnit.pendings *)
  x_prev : list runner1;      (* pushedRunnersInPreviousCycle (in the order they were pushed) *)
  x_pcb : bool;               (* pendingConditionalBranch *)
  x_cbus : bbus runner1; x_ebus : bbus runner1;
  x_ch : list (Z * Z);        (* channels with a buffered value *)
  x_nch : Z; x_nid : Z }.     (* next channel / object identity *)
Record mach1 := mk_m1 { y_m : mach; y_x : ext }.

Definition set_m (m : mach1) (b : mach) : mach1 := mk_m1 b (y_x m).
Definition set_x (m : mach1) (x : ext) : mach1 := mk_m1 (y_m m) x.
Definition xs_seq (x : ext) (v : Z) : ext :=
  mk_ext v (x_fwd x) (x_cu x) (x_prev x) (x_pcb x) (x_cbus x) (x_ebus x) (x_ch x) (x_nch x) (x_nid x).
Definition xs_fwd (x : ext) (v : list (Z * Z)) : ext :=
  mk_ext (x_seq x) v (x_cu x) (x_prev x) (x_pcb x) (x_cbus x) (x_ebus x) (x_ch x) (x_nch x) (x_nid x).
Definition xs_cu (x : ext) (v : list runner1) : ext :=
  mk_ext (x_seq x) (x_fwd x) v (x_prev x) (x_pcb x) (x_cbus x) (x_ebus x) (x_ch x) (x_nch x) (x_nid x).
Definition xs_prev (x : ext) (v : list runner1) : ext :=
  mk_ext (x_seq x) (x_fwd x) (x_cu x) v (x_pcb x) (x_cbus x) (x_ebus x) (x_ch x) (x_nch x) (x_nid x).
Definition xs_pcb (x : ext) (v : bool) : ext :=
  mk_ext (x_seq x) (x_fwd x) (x_cu x) (x_prev x) v (x_cbus x) (x_ebus x) (x_ch x) (x_nch x) (x_nid x).
Definition xs_cbus (x : ext) (v : bbus runner1) : ext :=
  mk_ext (x_seq x) (x_fwd x) (x_cu x) (x_prev x) (x_pcb x) v (x_ebus x) (x_ch x) (x_nch x) (x_nid x).
Definition xs_ebus (x : ext) (v : bbus runner1) : ext :=
  mk_ext (x_seq x) (x_fwd x) (x_cu x) (x_prev x) (x_pcb x) (x_cbus x) v (x_ch x) (x_nch x) (x_nid x).
Definition xs_ch (x : ext) (v : list (Z * Z)) : ext :=
  mk_ext (x_seq x) (x_fwd x) (x_cu x) (x_prev x) (x_pcb x) (x_cbus x) (x_ebus x) v (x_nch x) (x_nid x).
Definition xs_nch (x : ext) (v : Z) : ext :=
  mk_ext (x_seq x) (x_fwd x) (x_cu x) (x_prev x) (x_pcb x) (x_cbus x) (x_ebus x) (x_ch x) v (x_nid x).
Definition xs_nid (x : ext) (v : Z) : ext :=
  mk_ext (x_seq x) (x_fwd x) (x_cu x) (x_prev x) (x_pcb x) (x_cbus x) (x_ebus x) (x_ch x) (x_nch x) v.

(* ctx.IncSequenceID(): int32 ++ *)
Definition inc_seq (m : mach1) : mach1 := set_x m (xs_seq (y_x m) (addS 32 (x_seq (y_x m)) 1)).
(* ctx.SequenceID(pc) = pc + ctx.sequenceID*1000 on int32 *)
Definition seq_id (x : ext) (pc : Z) : Z := addS 32 pc (mulS 32 (x_seq x) 1000).

(* index of app.Instructions[pc/4] *)
Definition iidx (pc : Z) : nat := Z.to_nat (Z.quot pc 4).
Definition no_fwd : Z * Z := (Zero, 0).                      (* risc.Forward{} *)
(* runner.Forward(f) on the instruction object of pc *)
Definition set_fwd (m : mach1) (pc : Z) (f : Z * Z) : mach1 :=
  set_x m (xs_fwd (y_x m) (Seq.upd (x_fwd (y_x m)) (iidx pc) f)).
Definition get_fwd (m : mach1) (pc : Z) : Z * Z := nth (iidx pc) (x_fwd (y_x m)) no_fwd.
(* registerRead(ctx, op.forward, reg, 0): ctx.rat = false and ctx.Transaction is never written *)
Definition rr1 (f : Z * Z) (regs : list Z) (reg : Z) : Z := if reg =? fst f then snd f else rget regs reg.

(* ------------------------------------------------------------------ *)
(* du.go                                                                *)
(* ------------------------------------------------------------------ *)

(* the for loop of decodeUnit.cycle (du_loop of Mvp60.v) with `runner.Forward(risc.Forward{})`
   and SequenceID: ctx.SequenceID(pc); returns (ret, pendingBranchResolution, rest of the
   queue of the decode bus, forward table, control bus) *)
Fixpoint du_loop1 (q : list Z) (app : list instr) (cycle : Z) (ret pbr : bool) (x : ext) (fwd : list (Z * Z))
         (cbus : bbus runner1) : outcome (bool * bool * list Z * list (Z * Z) * bbus runner1) :=
  match q with
  | [] => Ok (ret, pbr, [], fwd, cbus)
  | pc :: q' =>
      if nlen6 app <=? Z.quot pc 4 then Ok (ret, pbr, q', fwd, cbus)
      else if Z.quot pc 4 <? 0 then Panic
      else match nth_error app (iidx pc) with
           | None => Panic
           | Some i =>
               let ty := instr_InstructionType i in
               let jump := InstructionType_IsUnconditionalBranch ty in
               let fwd' := Seq.upd fwd (iidx pc) no_fwd in
               let cbus' := bb_add cbus (mk_r1 (mk_runner i pc (seq_id x pc)) 0 None None Zero) cycle in
               if jump then Ok (ret, true, q', fwd', cbus')
               else if ty =? Ret then Ok (true, pbr, q', fwd', cbus')
               else du_loop1 q' app cycle ret pbr x fwd' cbus'
           end
  end.

(* decodeUnit.cycle *)
Definition du_cycle1 (app : list instr) (cycle : Z) (m : mach1) : outcome mach1 :=
  let b := y_m m in
  if m_dret b then Ok m
  else if m_dpbr b then Ok m
  else
    r <- du_loop1 (bb_q (m_dbus b)) app cycle (m_dret b) (m_dpbr b) (y_x m) (x_fwd (y_x m)) (x_cbus (y_x m)) ;;
    let '(ret, pbr, q', fwd', cbus') := r in
    let d := m_dbus b in
    Ok (mk_m1 (set_dbus (set_du b ret pbr) (mk_bb (bb_buf d) q' (bb_ql d) (bb_bl d)))
              (xs_cbus (xs_fwd (y_x m) fwd') cbus')).

(* ------------------------------------------------------------------ *)
(* cu.go                                                                *)
(* ------------------------------------------------------------------ *)

Definition HRaw : Z := 0.   (* risc.ReadAfterWrite *)
Definition HWaw : Z := 1.   (* risc.WriteAfterWrite *)
Definition HWar : Z := 2.   (* risc.WriteAfterRead *)

(* the hazards slice of ctx.IsDataHazard3(runner): (type, register) in the order of appending
   (hazardTypes = the set of the types that occur) *)
Definition hazards3 (b : mach) (reads writes : list Z) : list (Z * Z) :=
  flat_map (fun r => if negb (r =? 0) && (0 <? sb_get (m_pw b) r) then [(HRaw, r)] else []) reads ++
  flat_map (fun w => if w =? 0 then []
                     else (if 0 <? sb_get (m_pw b) w then [(HWaw, w)] else []) ++
                          (if 0 <? sb_get (m_pr b) w then [(HWar, w)] else [])) writes.

(* isDataHazardWithSkippedRunners *)
Definition skipped_hazard (skipped : list runner1) (reads writes : list Z) : bool :=
  existsb (fun s =>
    let sw := instr_WriteRegisters (r_instr (r_b s)) in
    let sr := instr_ReadRegisters (r_instr (r_b s)) in
    existsb (fun r => negb (r =? 0) && existsb (Z.eqb r) sw) reads ||
    existsb (fun w => negb (w =? 0) && (existsb (Z.eqb w) sw || existsb (Z.eqb w) sr)) writes) skipped.

(* the two inner loops of shouldUseForwarding for ONE previousRunner: the first
   (writeRegister, readRegister) pair with readRegister != Zero and readRegister == writeRegister *)
Definition fwd_match (p : runner1) (reads : list Z) : option Z :=
  let fix over_w (ws : list Z) : option Z :=
    match ws with
    | [] => None
    | w :: t => match find (fun rd => negb (rd =? 0) && (rd =? w)) reads with
                | Some rd => Some rd
                | None => over_w t
                end
    end in
  over_w (instr_WriteRegisters (r_instr (r_b p))).

(* shouldUseForwarding: (ghost: more than one runner of the map matches, previousRunner, register) *)
Definition should_forward (pord : Z -> Z -> Z) (cycle : Z) (prev : list runner1) (hz : list (Z * Z)) (reads : list Z)
  : bool * option (runner1 * Z) :=
  match hz with
  | [(t, _)] =>
      if negb (t =? HRaw) then (false, None) else
      let cands := flat_map (fun p => match fwd_match p reads with Some rd => [(p, rd)] | None => [] end) prev in
      let n := zlen cands in
      if n =? 0 then (false, None)
      else (1 <? n, nth_error cands (Z.to_nat (pord cycle n mod n)))
  | _ => (false, None)
  end.

(* previousRunner.Forwarder = ch, through the pointer held by the execute bus *)
Definition set_forwarder (bus : bbus runner1) (id ch : Z) : bbus runner1 :=
  let f := fun r => if r_id r =? id then mk_r1 (r_b r) (r_id r) (Some ch) (r_rc r) (r_freg r) else r in
  mk_bb (map (fun e => (fst e, f (snd e))) (bb_buf bus)) (map f (bb_q bus)) (bb_ql bus) (bb_bl bus).

(* pushRunner: (pushed, the object pushed, machine) *)
Definition push_runner1 (m : mach1) (cycle : Z) (r : runner1) : bool * runner1 * mach1 :=
  let x := y_x m in
  if negb (bb_canadd (x_ebus x)) then (false, r, m) else
  let obj := mk_r1 (r_b r) (x_nid x) (r_fw r) (r_rc r) (r_freg r) in
  let i := r_instr (r_b r) in
  (true, obj,
   mk_m1 (add_pending6 (y_m m) (instr_ReadRegisters i) (instr_WriteRegisters i))
         (xs_nid (xs_ebus x (bb_add (x_ebus x) obj cycle)) (x_nid x + 1))).

(* handleRunner(ctx, cycle, &runner): (ghost, push, stop, the local `runner` after the call,
   the object pushed, machine).  pb = pushedBranchInCurrentCycle, skipped = skippedInCurrentCycle *)
Definition handle_runner1 (pord : Z -> Z -> Z) (m : mach1) (cycle : Z) (pb : bool) (skipped : list runner1) (r : runner1)
  : bool * bool * bool * runner1 * runner1 * mach1 :=
  let i := r_instr (r_b r) in
  let ty := instr_InstructionType i in
  let reads := instr_ReadRegisters i in
  let writes := instr_WriteRegisters i in
  let x := y_x m in
  if InstructionType_IsBranch ty && pb then (false, false, true, r, r, m)
  else if (ty =? Ret) && (negb (bb_isempty (x_ebus x)) || x_pcb x) then (false, false, true, r, r, m)
  else if skipped_hazard skipped reads writes then (false, false, true, r, r, m)
  else
    let hz := hazards3 (y_m m) reads writes in
    match hz with
    | [] => let '(pushed, obj, m1) := push_runner1 m cycle r in
            if pushed then (false, true, false, r, obj, m1) else (false, false, true, r, obj, m1)
    | _ :: _ =>
        let '(os, sf) := should_forward pord cycle (x_prev x) hz reads in
        match sf with
        | Some (p, reg) =>
            (* ch := make(chan int32, 1); previousRunner.Forwarder = ch; runner.Receiver = ch;
               runner.ForwardRegister = register *)
            let ch := x_nch x in
            let m1 := set_x m (xs_nch (xs_ebus x (set_forwarder (x_ebus x) (r_id p) ch)) (ch + 1)) in
            let r1 := mk_r1 (r_b r) (r_id r) (r_fw r) (Some ch) reg in
            let '(pushed, obj, m2) := push_runner1 m1 cycle r1 in
            if pushed then (os, true, true, r1, obj, m2) else (os, false, true, r1, obj, m2)
        | None => (os, false, true, r, r, m)
        end
    end.

(* what cycle() does with (push, stop): pushedBranchInCurrentCycle, pendingConditionalBranch *)
Definition after_push (m : mach1) (pb push : bool) (r : runner1) : bool * mach1 :=
  let ty := instr_InstructionType (r_instr (r_b r)) in
  (pb || (push && InstructionType_IsBranch ty),
   if push && InstructionType_IsConditionalBranch ty then set_x m (xs_pcb (y_x m) true) else m).

(* for elem := range u.pendings.Iterator(): snapshot of the queue; a pushed element is removed, an
   element that is not pushed stays as it is (handleRunner worked on a copy).
   Returns (ghost, stopped, queue afterwards, pb, skipped, pushed objects, machine). *)
Fixpoint cu_pending1 (pord : Z -> Z -> Z) (ps kept : list runner1) (m : mach1) (cycle : Z) (pb : bool)
         (skipped cur : list runner1) : bool * bool * list runner1 * bool * list runner1 * list runner1 * mach1 :=
  match ps with
  | [] => (false, false, rev kept, pb, skipped, cur, m)
  | r :: t =>
      let '(os, push, stop, r', obj, m1) := handle_runner1 pord m cycle pb skipped r in
      let '(pb', m2) := after_push m1 pb push r' in
      let kept' := if push then kept else r :: kept in
      let skipped' := if push then skipped else skipped ++ [r'] in
      let cur' := if push then cur ++ [obj] else cur in
      if stop then (os, true, rev kept' ++ t, pb', skipped', cur', m2)
      else let '(os2, st, q, pb2, sk2, cur2, m3) := cu_pending1 pord t kept' m2 cycle pb' skipped' cur' in
           (os || os2, st, q, pb2, sk2, cur2, m3)
  end.

(* for !u.pendings.IsFull() { runner, exists := u.inBus.Get(); ... }, over the queue of the control bus;
   a runner that is not pushed goes to the pendings WITH the fields handleRunner has set.
   Returns (ghost, rest of that queue, pendings, pushed objects, machine). *)
Fixpoint cu_incoming1 (pord : Z -> Z -> Z) (q : list runner1) (pend : list runner1) (m : mach1) (cycle : Z) (pb : bool)
         (skipped cur : list runner1) : bool * list runner1 * list runner1 * list runner1 * mach1 :=
  if pendingLength <=? zlen pend then (false, q, pend, cur, m) else
  match q with
  | [] => (false, q, pend, cur, m)
  | r :: q' =>
      let '(os, push, stop, r', obj, m1) := handle_runner1 pord m cycle pb skipped r in
      let '(pb', m2) := after_push m1 pb push r' in
      let pend' := if push then pend else pend ++ [r'] in
      let skipped' := if push then skipped else skipped ++ [r'] in
      let cur' := if push then cur ++ [obj] else cur in
      if stop then (os, q', pend', cur', m2)
      else let '(os2, q2, pend2, cur2, m3) := cu_incoming1 pord q' pend' m2 cycle pb' skipped' cur' in
           (os || os2, q2, pend2, cur2, m3)
  end.

(* controlUnit.cycle; the deferred function sets pushedRunnersInPreviousCycle on every way out *)
Definition cu_cycle1 (pord : Z -> Z -> Z) (cycle : Z) (m : mach1) : bool * mach1 :=
  if negb (bb_canadd (x_ebus (y_x m))) then (false, set_x m (xs_prev (y_x m) [])) else
  let '(os1, stopped, pend1, pb1, sk1, cur1, m1) := cu_pending1 pord (x_cu (y_x m)) [] m cycle false [] [] in
  if stopped then (os1, set_x m1 (xs_prev (xs_cu (y_x m1) pend1) cur1)) else
  let '(os2, q', pend2, cur2, m2) := cu_incoming1 pord (bb_q (x_cbus (y_x m1))) pend1 m1 cycle pb1 sk1 cur1 in
  let c := x_cbus (y_x m2) in
  (os1 || os2, set_x m2 (xs_prev (xs_cu (xs_cbus (y_x m2) (mk_bb (bb_buf c) q' (bb_ql c) (bb_bl c))) pend2) cur2)).

(* ------------------------------------------------------------------ *)
(* bu.go / fu.go: as 6.0 plus ctx.IncSequenceID() in fetchUnit.reset / flush *)
(* ------------------------------------------------------------------ *)

(* btbBranchUnit.assert: fu.reset (hence IncSequenceID) on a BTB hit of an unconditional branch *)
Definition bu_assert1 (m : mach1) (r : runner) : mach1 :=
  let hit := InstructionType_IsUnconditionalBranch (instr_InstructionType (r_instr r)) &&
             match btb_get (b_btb (m_bu (y_m m))) (r_pc r) with Some _ => true | None => false end in
  let m1 := set_m m (bu_assert6 (y_m m) r) in
  if hit then inc_seq m1 else m1.

(* notifyUnconditionalJumpAddressResolved *)
Definition bu_resolved1 (m : mach1) (pc pcTo : Z) : mach1 := inc_seq (set_m m (bu_resolved6 (y_m m) pc pcTo)).

(* ------------------------------------------------------------------ *)
(* eu.go                                                                *)
(* ------------------------------------------------------------------ *)

(* executeUnit: u_e = coroutine state, memory and (Runner, Pc, SequenceID) of u.runner; u_fw, u_rc,
   u_freg = Forwarder, Receiver, ForwardRegister of u.runner; u_sid = u.sequenceID *)
Record eu1 := mk_eu1 { u_e : eu6; u_fw : option Z; u_rc : option Z; u_freg : Z; u_sid : Z }.
Definition eu_co_set (e : eu1) (c : eu_co) : eu1 :=
  mk_eu1 (mk_eu6 c (e_memory (u_e e)) (e_runner (u_e e))) (u_fw e) (u_rc e) (u_freg e) (u_sid e).
Definition eu_mem_set (e : eu1) (c : eu_co) (bytes : list Z) : eu1 :=
  mk_eu1 (mk_eu6 c bytes (e_runner (u_e e))) (u_fw e) (u_rc e) (u_freg e) (u_sid e).
Definition eu_sid_set (e : eu1) (sid : Z) : eu1 := mk_eu1 (u_e e) (u_fw e) (u_rc e) (u_freg e) sid.

(* euResp *)
Record resp1 := mk_resp1 { p_flush : bool; p_seq : Z; p_pc : Z; p_ret : bool; p_err : option err_class }.
Definition resp0 : resp1 := mk_resp1 false 0 0 false None.

Definition eu_res1 : Type := bool * outcome (mach1 * eu1 * resp1).
Definition quiet1 (o : outcome (mach1 * eu1 * resp1)) : eu_res1 := (false, o).

(* executeUnit.flush: Reset; sequenceID = 0 *)
Definition eu_flush1 (e : eu1) : eu1 := eu_sid_set (eu_co_set e ENone) 0.
(* the Pre hook: true = the unit holds an instruction younger than u.sequenceID *)
Definition eu_pre1 (e : eu1) : bool :=
  if u_sid e =? 0 then false
  else match e_runner (u_e e) with None => false | Some r => u_sid e <? r_seq r end.

(* v := <-ch without blocking *)
Fixpoint ch_take (chs : list (Z * Z)) (ch : Z) : option (Z * list (Z * Z)) :=
  match chs with
  | [] => None
  | (c, v) :: t => if c =? ch then Some (v, t)
                   else match ch_take t ch with Some (w, t') => Some (w, (c, v) :: t') | None => None end
  end.

(* run (entered through ExecuteWithReset: the coroutine is at its start again) *)
Definition eu_run1 (labels : Z -> option Z) (ord : Z -> Z -> list Z -> list Z) (cycle : Z) (m : mach1) (e : eu1)
  : eu_res1 :=
  let e0 := eu_co_set e ENone in
  match e_runner (u_e e) with
  | None => quiet1 Panic
  | Some r =>
      let i := r_instr r in
      let ty := instr_InstructionType i in
      let b := y_m m in
      let ex := instr_Run i (rr1 (get_fwd m (r_pc r)) (m_regs b)) labels (r_pc r) (e_memory (u_e e)) 0 in
      (* u.runner.Runner.Forward(risc.Forward{}) *)
      let m := set_fwd m (r_pc r) no_fwd in
      match ex with
      | Panic => quiet1 Panic
      | Err er => quiet1 (Ok (m, e0, mk_resp1 false 0 0 false (Some er)))
      | Ok exe =>
          if Return exe then quiet1 (Ok (m, e0, mk_resp1 false 0 0 true None)) else
          let reads := instr_ReadRegisters i in
          let writes := instr_WriteRegisters i in
          let keys := map fst (sort_changes (MemoryChanges exe)) in
          (MemoryChange exe && store_order_matters (m_l3 b) (m_pend b) keys,       (* ghost *)
           st <- (if MemoryChange exe then
                    g <- get_from_l3 (m_l3 b) (m_pend b) (ord cycle (r_pc r) keys) [] ;;
                    let '(c1, p1, res) := g in
                    match res with
                    | L3Hit _ =>
                        match sort_changes (MemoryChanges exe) with
                        | [] => Panic
                        | (a0, _) :: _ =>
                            c2 <- write c1 a0 (map snd (sort_changes (MemoryChanges exe))) ;;
                            Ok (set_l3 b c2 p1, true)
                        end
                    | _ => Ok (set_l3 b c1 p1, false)
                    end
                  else Ok (b, false)) ;;
           let '(b1, in_l3) := st in
           if in_l3 then Ok (set_m m (del_pending6 b1 reads writes), e0, resp0) else
           let m2 := set_m m (set_wbus b1 (bb_add (m_wbus b1) (mk_wb6 (r_seq r) exe reads writes) cycle)) in
           match u_fw e with
           | None =>
               let m3 := if InstructionType_IsUnconditionalBranch ty then bu_resolved1 m2 (r_pc r) (NextPc exe) else m2 in
               (* u.bu.notifyConditionalBranch() *)
               let m4 := if InstructionType_IsConditionalBranch ty then set_x m3 (xs_pcb (y_x m3) false) else m3 in
               if PcChange exe then
                 let '(b', fl) := bu_should_flush6 (m_bu (y_m m4)) (NextPc exe) in
                 Ok (set_m m4 (set_bu (y_m m4) b'), e0,
                     if fl then mk_resp1 true (r_seq r) (NextPc exe) false None else resp0)
               else Ok (m4, e0, resp0)
           | Some ch =>
               (* u.runner.Forwarder <- execution.RegisterValue *)
               if existsb (fun c => fst c =? ch) (x_ch (y_x m2)) then Panic      (* would block for ever *)
               else if InstructionType_IsBranch ty then Panic                     (* panic("shouldn't be a branch") *)
               else Ok (set_x m2 (xs_ch (y_x m2) (x_ch (y_x m2) ++ [(ch, RegisterValue exe)])), e0, resp0)
           end)
      end
  end.

(* the memory-wait closure when remainingCycles has reached 0 (eu_fill6 on the 6.0 part) *)
Definition eu_fill1 (m : mach1) (e : eu1) (addrs : list Z) : outcome (mach1 * eu1) :=
  r <- eu_fill6 (y_m m) (u_e e) addrs ;;
  Ok (set_m m (fst r), mk_eu1 (snd r) (u_fw e) (u_rc e) (u_freg e) (u_sid e)).

(* prepareRun *)
Definition eu_prepare1 (labels : Z -> option Z) (ord : Z -> Z -> list Z -> list Z) (cycle : Z) (m : mach1) (e : eu1)
  : eu_res1 :=
  if negb (bb_canadd (m_wbus (y_m m))) then quiet1 (Ok (m, e, resp0)) else
  match e_runner (u_e e) with
  | None => quiet1 Panic
  | Some r =>
      (* if u.runner.Receiver != nil { select { case v := <-Receiver: ... default: return } ; Forward; Receiver = nil } *)
      let got := match u_rc e with
                 | None => Some (m, e)
                 | Some ch =>
                     match ch_take (x_ch (y_x m)) ch with
                     | None => None
                     | Some (v, chs) =>
                         Some (set_fwd (set_x m (xs_ch (y_x m) chs)) (r_pc r) (u_freg e, v),
                               mk_eu1 (u_e e) (u_fw e) None (u_freg e) (u_sid e))
                     end
                 end in
      match got with
      | None => quiet1 (Ok (m, e, resp0))
      | Some (m, e) =>
          let m1 := bu_assert1 m r in
          let addrs := instr_MemoryRead (r_instr r) (rr1 (get_fwd m1 (r_pc r)) (m_regs (y_m m1))) 0 in
          match addrs with
          | [] => eu_run1 labels ord cycle m1 e
          | _ :: _ =>
              quiet1 (
              g <- get_from_l3 (m_l3 (y_m m1)) (m_pend (y_m m1)) addrs [] ;;
              let '(c1, p1, res) := g in
              let m2 := set_m m1 (set_l3 (y_m m1) c1 p1) in
              match res with
              | L3Pending => Ok (m2, e, resp0)
              | L3Hit bytes => Ok (m2, eu_mem_set e (EWaitL3 (L3Access - 1)) bytes, resp0)
              | L3Miss => Ok (m2, eu_co_set e (EWaitMem (MemoryAccess - 1) addrs), resp0)
              end)
          end
      end
  end.

(* executeUnit.Cycle = the Pre hook, then the current function of the coroutine *)
Definition eu_cycle1 (labels : Z -> option Z) (ord : Z -> Z -> list Z -> list Z) (cycle : Z) (m : mach1) (e : eu1)
  : eu_res1 :=
  if eu_pre1 e then quiet1 (Ok (m, eu_flush1 e, resp0)) else
  match e_co (u_e e) with
  | ENone =>
      (* start: runner, exists := u.inBus.Get(); u.runner = *runner; ExecuteWithCheckpoint(r, u.prepareRun) *)
      let '(ebus', got) := bb_get (x_ebus (y_x m)) in
      match got with
      | None => quiet1 (Ok (m, e, resp0))
      | Some r => eu_prepare1 labels ord cycle (set_x m (xs_ebus (y_x m) ebus'))
                              (mk_eu1 (mk_eu6 EPrepare (e_memory (u_e e)) (Some (r_b r))) (r_fw r) (r_rc r) (r_freg r) (u_sid e))
      end
  | EPrepare => eu_prepare1 labels ord cycle m e
  | EWaitL3 rem =>
      if 0 <? rem then quiet1 (Ok (m, eu_co_set e (EWaitL3 (rem - 1)), resp0))
      else eu_run1 labels ord cycle m e
  | EWaitMem rem addrs =>
      if 0 <? rem then quiet1 (Ok (m, eu_co_set e (EWaitMem (rem - 1) addrs), resp0))
      else
        match eu_fill1 m e addrs with
        | Ok (m1, e1) => eu_run1 labels ord cycle m1 e1
        | Err er => quiet1 (Err er)
        | Panic => quiet1 Panic
        end
  end.

Definition eu_empty1 (e : eu1) : bool := eu_empty (u_e e).

(* the result of a loop over the execute units: the loop ran to its end, or Run returned because
   of resp.err (with the machine at that moment) *)
Inductive eus_res :=
| EAll (m : mach1) (eus : list eu1) (acc : eu_out6) (all_empty : bool)
| EErr (m : mach1) (e : err_class)
| EPanic.

(* main loop: for i, eu := range m.executeUnits { eu.sequenceID = sequenceID; resp := eu.Cycle(...); ... }
   acc = (flush, sequenceID, pc, ret) so far *)
Fixpoint eus_main (labels : Z -> option Z) (ord : Z -> Z -> list Z -> list Z) (cycle : Z)
         (m : mach1) (eus : list eu1) (acc : eu_out6) : bool * eus_res :=
  match eus with
  | [] => (false, EAll m [] acc true)
  | e :: t =>
      let '(os1, r1) := eu_cycle1 labels ord cycle m (eu_sid_set e (o_from acc)) in
      match r1 with
      | Ok (m1, e1, p) =>
          match p_err p with
          | Some er => (os1, EErr m1 er)
          | None =>
              (* if resp.flush && (!flush || resp.sequenceID < sequenceID) { sequenceID = ...; pc = ... } *)
              let take := p_flush p && (negb (o_flush acc) || (p_seq p <? o_from acc)) in
              let acc' := mk_euo6 (o_flush acc || p_flush p) (if take then p_seq p else o_from acc)
                                  (if take then p_pc p else o_pc acc) (o_ret acc || p_ret p) in
              let '(os2, r) := eus_main labels ord cycle m1 t acc' in
              (os1 || os2, match r with EAll m2 t' acc2 ae => EAll m2 (e1 :: t') acc2 ae | x => x end)
          end
      | Err er => (os1, EErr m er)
      | Panic => (os1, EPanic)
      end
  end.

(* drain loop after ret: for _, eu := range m.executeUnits { if eu.isEmpty() { continue }; eu.Cycle(...) } *)
Fixpoint eus_drain (labels : Z -> option Z) (ord : Z -> Z -> list Z -> list Z) (cycle : Z)
         (m : mach1) (eus : list eu1) : bool * eus_res :=
  match eus with
  | [] => (false, EAll m [] euo_none true)
  | e :: t =>
      if eu_empty1 e then
        let '(os, r) := eus_drain labels ord cycle m t in
        (os, match r with EAll m2 t' acc2 ae => EAll m2 (e :: t') acc2 ae | x => x end)
      else
        let '(os1, r1) := eu_cycle1 labels ord cycle m e in
        match r1 with
        | Ok (m1, e1, p) =>
            match p_err p with
            | Some er => (os1, EErr m1 er)
            | None =>
                let '(os2, r) := eus_drain labels ord cycle m1 t in
                (os1 || os2, match r with EAll m2 t' acc2 ae => EAll m2 (e1 :: t') acc2 ae | x => x end)
            end
        | Err er => (os1, EErr m er)
        | Panic => (os1, EPanic)
        end
  end.

(* flush loop: for _, eu := range m.executeUnits { if !eu.isEmpty() { isEmpty = false; resp := eu.Cycle(fromCycle);
   if resp.err != nil { return 0, resp.err }; if resp.flush { sequenceID, flush, pc, ret = resp... } } }
   acc = (flush, sequenceID, pc, ret); all_empty = isEmpty *)
Fixpoint eus_flush (labels : Z -> option Z) (ord : Z -> Z -> list Z -> list Z) (cycle : Z)
         (m : mach1) (eus : list eu1) (acc : eu_out6) : bool * eus_res :=
  match eus with
  | [] => (false, EAll m [] acc true)
  | e :: t =>
      if eu_empty1 e then
        let '(os, r) := eus_flush labels ord cycle m t acc in
        (os, match r with EAll m2 t' acc2 ae => EAll m2 (e :: t') acc2 ae | x => x end)
      else
        let '(os1, r1) := eu_cycle1 labels ord cycle m e in
        match r1 with
        | Ok (m1, e1, p) =>
            match p_err p with
            | Some er => (os1, EErr m1 er)
            | None =>
                let acc' := if p_flush p then mk_euo6 true (p_seq p) (p_pc p) (p_ret p) else acc in
                let '(os2, r) := eus_flush labels ord cycle m1 t acc' in
                (os1 || os2, match r with EAll m2 t' acc2 _ => EAll m2 (e1 :: t') acc2 false | x => x end)
            end
        | Err er => (os1, EErr m er)
        | Panic => (os1, EPanic)
        end
  end.

(* ------------------------------------------------------------------ *)
(* cpu.go                                                               *)
(* ------------------------------------------------------------------ *)

(* which loop of Run the next tick belongs to *)
Inductive mode1 :=
| NNormal                                             (* the main for loop *)
| NRet                                                (* the drain loop after a ret *)
| NFlushO (fromCycle seq pc : Z)                      (* the `for {` of the flush branch *)
| NFlushW (k : nat) (isEmpty : bool) (fromCycle seq pc : Z).
                                                      (* `for !wu.isEmpty() || !writeBus.IsEmpty()` of write unit k in it *)

Record st1 := mk_st1 { t_m : mach1; t_eus : list eu1; t_wus : list wu6; t_cycle : Z; t_mode : mode1;
                       t_os : bool (* ghost *) }.

Inductive step_res1 := TDone (r : mres) (os : bool) | TCont (s : st1).

Definition res_of1 {A} (os : bool) (o : outcome A) (k : A -> step_res1) : step_res1 :=
  match o with Ok x => k x | Err e => TDone (MErr e) os | Panic => TDone MPanic os end.

(* CPU.flush(pc): do_flush6 on the 6.0 part (fetch unit, decode unit, buses, ctx.Flush);
   fetchUnit.flush also calls IncSequenceID; controlUnit.flush *)
Definition do_flush1 (m : mach1) (pc : Z) : mach1 :=
  let x := y_x m in
  inc_seq (mk_m1 (do_flush6 (y_m m) pc)
                 (mk_ext (x_seq x) (x_fwd x) [] [] false (bb_clean (x_cbus x)) (bb_clean (x_ebus x)) (x_ch x) (x_nch x) (x_nid x))).

(* CPU.isEmpty() *)
Definition is_empty1 (m : mach1) (eus : list eu1) (wus : list wu6) : bool :=
  is_empty6 (y_m m) (map u_e eus) wus &&
  (zlen (x_cu (y_x m)) =? 0) && bb_isempty (x_cbus (y_x m)) && bb_isempty (x_ebus (y_x m)).

(* condition of the drain loop after ret *)
Definition ret_check1 (s : st1) : step_res1 :=
  if forallb eu_empty1 (t_eus s) && forallb wu_empty (t_wus s) && bb_isempty (m_wbus (y_m (t_m s)))
  then TDone (finish6 (y_m (t_m s)) (t_cycle s)) (t_os s)
  else TCont (mk_st1 (t_m s) (t_eus s) (t_wus s) (t_cycle s) NRet (t_os s)).

(* the `for _, wu := range m.writeUnits { for cond { VerifTick; wu.Cycle } }` of one iteration of the flush
   loop, entered at write unit k; when it is over: `if isEmpty { break }`, and after the loop
   m.flush(pc); cycle += latency.Flush; continue *)
Definition flush_advance1 (s : st1) (k : nat) (isEmpty : bool) (from seq pc : Z) : step_res1 :=
  match flush_next (skipn k (t_wus s)) k (bb_isempty (m_wbus (y_m (t_m s)))) with
  | Some k' => TCont (mk_st1 (t_m s) (t_eus s) (t_wus s) (t_cycle s) (NFlushW k' isEmpty from seq pc) (t_os s))
  | None =>
      if isEmpty then
        TCont (mk_st1 (do_flush1 (t_m s) pc) (map eu_flush1 (t_eus s)) (t_wus s) (t_cycle s + Flush) NNormal (t_os s))
      else TCont (mk_st1 (t_m s) (t_eus s) (t_wus s) (t_cycle s) (NFlushO from seq pc) (t_os s))
  end.

(* the first half of an iteration of the main loop: the four Connect calls, fetchUnit.Cycle (Pre hook +
   coroutine = fu_cycle6), decodeUnit.cycle, controlUnit.cycle *)
Definition front1 (app : list instr) (pord : Z -> Z -> Z) (cycle : Z) (m : mach1) : outcome (bool * mach1) :=
  let b := y_m m in
  let x := y_x m in
  let b := set_wbus (set_dbus b (bb_connect (m_dbus b) cycle)) (bb_connect (m_wbus b) cycle) in
  let x := xs_ebus (xs_cbus x (bb_connect (x_cbus x) cycle)) (bb_connect (x_ebus x) cycle) in
  r <- fu_cycle6 app cycle (m_fu b) (m_l1i b) (m_dbus b) ;;
  let '(fu1, l1i1, dbus1) := r in
  m <- du_cycle1 app cycle (mk_m1 (set_dbus (set_l1i (set_fu b fu1) l1i1) dbus1) x) ;;
  Ok (cu_cycle1 pord cycle m).

Definition on_wbus (m : mach1) (f : bbus wb6 -> bbus wb6) : mach1 := set_m m (set_wbus (y_m m) (f (m_wbus (y_m m)))).

(* the rest of the iteration once the execute units have run: the write units, then `if ret {...}`,
   `if flush {...}`, `if m.isEmpty() { break }` *)
Definition back1 (s : st1) (cycle : Z) (os : bool) (m : mach1) (eus1 : list eu1) (o : eu_out6) : step_res1 :=
  res_of1 os (wus_cycle (y_m m) (t_wus s) (-1)) (fun r =>
  let '(b, wus1) := r in
  let m := set_m m b in
  if o_ret o then
    let cycle := cycle + 1 in
    ret_check1 (mk_st1 (on_wbus m (fun w => bb_connect w cycle)) eus1 wus1 cycle NRet os)
  else if o_flush o then
    (* for _, eu := range m.executeUnits { eu.sequenceID = sequenceID }; fromCycle := cycle *)
    TCont (mk_st1 m (map (fun e => eu_sid_set e (o_from o)) eus1) wus1 cycle (NFlushO cycle (o_from o) (o_pc o)) os)
  else if is_empty1 m eus1 wus1 then TDone (finish6 (y_m m) cycle) os
  else TCont (mk_st1 m eus1 wus1 cycle NNormal os)).

(* one ctx.VerifTick() of Run *)
Definition step1 (app : list instr) (labels : Z -> option Z) (ord : Z -> Z -> list Z -> list Z) (pord : Z -> Z -> Z)
           (s : st1) : step_res1 :=
  let m := t_m s in
  let os := t_os s in
  match t_mode s with
  | NNormal =>
      let cycle := t_cycle s + 1 in
      res_of1 os (front1 app pord cycle m) (fun r =>
      let '(os0, m) := r in
      let '(os1, re) := eus_main labels ord cycle m (t_eus s) euo_none in
      let os := os || os0 || os1 in
      match re with
      | EAll m1 eus1 o _ => back1 s cycle os m1 eus1 o
      | EErr _ er => TDone (MErr er) os
      | EPanic => TDone MPanic os
      end)
  | NRet =>
      let '(os1, re) := eus_drain labels ord (t_cycle s) m (t_eus s) in
      let os := os || os1 in
      match re with
      | EAll m1 eus1 _ _ =>
          res_of1 os (wus_cycle (y_m m1) (t_wus s) (-1)) (fun r =>
          let '(b, wus1) := r in
          let cycle := t_cycle s + 1 in
          ret_check1 (mk_st1 (on_wbus (set_m m1 b) (fun w => bb_connect w cycle)) eus1 wus1 cycle NRet os))
      | EErr _ er => TDone (MErr er) os
      | EPanic => TDone MPanic os
      end
  | NFlushO from seq pc =>
      let cycle := t_cycle s + 1 in
      let '(os1, re) := eus_flush labels ord from m (t_eus s) (mk_euo6 true seq pc false) in
      let os := os || os1 in
      match re with
      | EAll m1 eus1 o isEmpty =>
          (* m.writeBus.Connect(cycle + 1) *)
          flush_advance1 (mk_st1 (on_wbus m1 (fun w => bb_connect w (cycle + 1))) eus1 (t_wus s) cycle (t_mode s) os)
                         0 isEmpty from (o_from o) (o_pc o)
      | EErr _ er => TDone (MErr er) os      (* return 0, resp.err *)
      | EPanic => TDone MPanic os
      end
  | NFlushW k isEmpty from seq pc =>
      match nth_error (t_wus s) k with
      | None => TDone MPanic os
      | Some w =>
          res_of1 os (wu_cycle6 (y_m m) w seq) (fun r =>
          flush_advance1 (mk_st1 (set_m m (fst r)) (t_eus s) (set_nth6 (t_wus s) k (snd r)) (t_cycle s) (t_mode s) os)
                         k isEmpty from seq pc)
      end
  end.

(* Run: one step per tick until Run returns; when the tick budget is exhausted the state reached *)
Fixpoint run1_st (fuel : nat) (app : list instr) (labels : Z -> option Z) (ord : Z -> Z -> list Z -> list Z)
         (pord : Z -> Z -> Z) (s : st1) : (mres * bool) + st1 :=
  match fuel with
  | O => inr s
  | S f =>
      match step1 app labels ord pord s with
      | TDone r os => inl (r, os)
      | TCont s' => run1_st f app labels ord pord s'
      end
  end.

(* the same choice among the matching runners every time *)
Definition pord_policy (k : Z) (cycle n : Z) : Z := k.

(* NewCPU(debug, memoryBytes, eu = par, wu = par) *)
Definition init1 (par : nat) (app : list instr) (st : arch) : outcome st1 :=
  match init6 par st with
  | Ok s =>
      let busSize := 2 in
      let x := mk_ext 0 (repeat no_fwd (length app)) [] [] false (bb_new busSize busSize) (bb_new busSize busSize) [] 0 0 in
      Ok (mk_st1 (mk_m1 (s_m s) x) (repeat (mk_eu1 (mk_eu6 ENone [] None) None None Zero 0) par) (s_wus s) 0 NNormal false)
  | Err e => Err e
  | Panic => Panic
  end.

(* NewCPU + Run(app); second component = ghost flag *)
Definition mvp61_run_os (par : nat) (ord : Z -> Z -> list Z -> list Z) (pord : Z -> Z -> Z) (fuel : nat) (app : list instr)
           (labels : Z -> option Z) (st : arch) : mres * bool :=
  match init1 par app st with
  | Ok s => match run1_st fuel app labels ord pord s with
            | inl r => r
            | inr s' => (MOutOfFuel, t_os s')
            end
  | _ => (MPanic, false)
  end.

Definition mvp61_run (par : nat) (ord : Z -> Z -> list Z -> list Z) (pord : Z -> Z -> Z) (fuel : nat) (app : list instr)
           (labels : Z -> option Z) (st : arch) : mres :=
  fst (mvp61_run_os par ord pord fuel app labels st).

(* the same, but a run that exhausts its fuel returns what the Go harness can see of ctx at that
   moment: (cycle, Registers, Memory, PendingWriteRegisters, PendingReadRegisters) *)
Definition mvp61_run_snap (par : nat) (ord : Z -> Z -> list Z -> list Z) (pord : Z -> Z -> Z) (fuel : nat) (app : list instr)
           (labels : Z -> option Z) (st : arch) : (mres * bool) + (Z * arch * list Z * list Z * bool) :=
  match init1 par app st with
  | Ok s =>
      match run1_st fuel app labels ord pord s with
      | inl r => inl r
      | inr s' => let b := y_m (t_m s') in
                  inr (t_cycle s', mk_arch (m_regs b) (m_mem b), m_pw b, m_pr b, t_os s')
      end
  | _ => inl (MPanic, false)
  end.
