(* H: faithful cycle-level model of proc/mvp7-0 = the pipeline of MVP-6.3 (Mvp63.v) in front of a new
   memory system: one L1D per execute unit ("core") behind a cache controller (cc.go), the controllers
   kept coherent by an MSI directory (msi.go); mmu.go only reads / writes lines of ctx.Memory.

   cpu.go  Run loop, flush, isEmpty, the final   -> step7 (front3 of Mvp63.v, back7, flush_advance7, final7), run7_st,
           drain loop, export                       mvp70_run
   fu.go   fetch unit (own L1I)                  -> fu_cycle6 of Mvp60.v through front3 (fetchUnit.l1i = m_l1i)
   du.go, cu.go, btb.go  byte-identical to 6.3   -> du_cycle3, cu_cycle3 of Mvp63.v (through front3)
   bu.go   RATCommit / RATRollback on ctx        -> bu_assert3, bu_resolved3, rat_commit3, rat_rollback3 of Mvp63.v
   eu.go   execute units                         -> eu_cycle7, eu_prepare7, eu_read7, eu_run7, eu_write7, eu_flush7
   wu.go   write units (a memory change panics)  -> wu_cycle7
   cc.go   cache controller: coRead              -> cc_read_cycle (rd_start, rd_pend, rd_fetch, rd_evict, rd_from_l1, rd_l1)
                             coWrite             -> cc_write_cycle (wr_start, wr_pend, wr_fetch, wr_evict, wr_to_l1, wr_l1)
                             coSnoop + the list  -> cc_snoop_cycle (snoop_items, co_snoop)
                             flush, export       -> cc_flush, cc_export
   msi.go  directory                             -> msi_rlock, msi_lock, msi_others, msi_read_request, msi_invalidate,
                                                    msi_evict_extra, msi_send, cmd_done, run_post
   mmu.go  fetchCacheLine / writeToMemory        -> fetch_cache_line / write_to_memory of Mvp3.v (the same code)
   common/coroutine                              -> every coroutine is an explicit state machine: rd_co, wr_co, eu_co7,
                                                    the snoop coroutine is its list (its current function never changes)
   proc/comp/semaphore.go                        -> sem_* on (read, write) pairs
   proc/comp/cache.go                            -> Comp/Cache.v

   One Gallina step (step7) per ctx.VerifTick(): fuel = tick budget.

   MVP-7.1.  proc/mvp7-1 is the same code but for a handful of places; the functions below take a record hooks7
   with exactly those places (k_rr, k_take, k_pending, k_evict, k_front): hooks70 (here) is MVP-7.0, hooks71
   (Mvp71.v) is MVP-7.1.  Three fields of the state exist for MVP-7.1 only and are never set in MVP-7.0: i_stale,
   w_copy, w_pref.

   Pointers.  *comp.Sem: msi.pendings never deletes an entry, so the semaphore of a line IS the line address
   (i_sems; an absent entry = the zero semaphore getSem would create).  *msiCommandInfo: every command created by
   sendNewMSICommand gets a fresh identity; a command is in msi.commands from its creation to the call of done(),
   which sets doneFlag, so isDone(c) <-> c is no longer in i_cmds.  The closures `post` returned by rLock / lock
   capture (id, addrs): post7 = what they do + the line address.  cc.rlockSems / cc.lockSems map a line address to
   the semaphore of that line: sets of line addresses (c_rsems, c_wsems).

   Go map iteration.  Inherited from Mvp63.v (argument `ord`, ghost flag x_os): pushedRunnersInPreviousCycle in
   shouldUseForwarding and the RAT value maps.  The store's MemoryChanges map is sorted by executionToMemoryChanges
   before use.  The new maps, none of which can influence a run:
     - msi.states in readRequest / writeRequest / invalidationRequest: for every OTHER core holding the line a
       command is sent (insertion into msi.commands under a distinct key + a counter) and appended to `pendings`,
       of which only "all done" is ever asked: the order is unobservable.  (Identities of commands differ by a
       renaming.)  The model visits msi.states in insertion order.
     - msi.commands in getPendingRequestsToCore (builds a map) and that map in coSnoop: the order of the closures
       appended to the snoop list.  All closures of the list come from ONE coSnoop call (it is only called when
       the list is empty); in a pass of Cycle over the list the evict closures all complete in the first pass and
       the write-back closures all complete in pass latency.MemoryAccess+1; two closures of the same kind have
       different lines (distinct keys), touch different L1 lines, different 64-byte ranges of memory, different
       msi.states / msi.commands keys: they commute, and a panic of any of them ends Run with the same result.
       The model uses insertion order of msi.commands.
     - cc.rlockSems / cc.lockSems in cacheController.flush: RUnlock / Unlock of the semaphores of distinct lines
       commute; a panic of any ends Run.  (rlockSems has at most one entry; lockSems accumulates stale entries
       because flush deletes from rlockSems in its second loop.)  Insertion order.
   So the ghost flag of a run is exactly the flag of the MVP-6.3 front end.

   No proofs in this file. *)
From Coq Require Import ZArith List Bool Lia.
From Maj Require Import Base.Outcome Base.GoInt Base.GoTypes Isa.Spec Isa.Seq.
From Maj Require Import Gen.Latency Gen.RiscTables Gen.Opcodes Comp.Cache Comp.Rat Mvp.Mvp12 Mvp.Mvp3 Mvp.Mvp5 Mvp.Mvp60 Mvp.Mvp63.
Import ListNotations.
Open Scope Z_scope.

(* ------------------------------------------------------------------ *)
(* msi.go                                                               *)
(* ------------------------------------------------------------------ *)

Definition stInvalid : Z := 0.
Definition stShared : Z := 1.
Definition stModified : Z := 2.
Definition rqEvict : Z := 1.
Definition rqWriteBack : Z := 2.

(* msi{pendings, states, commands}; i_next = identity of the next msiCommandInfo *)
Record msi7 := mk_msi7 {
  i_sems : list (Z * (Z * Z));          (* pendings: line address -> Sem{read, write} *)
  i_states : list (Z * Z * Z);          (* states: (id, alignedAddr, state) *)
  i_cmds : list (Z * Z * Z * Z);        (* commands: (id, alignedAddr, request, identity of the info) *)
  i_next : Z;
  i_stale : bool }.                     (* staleState: a field of mvp7-1/msi.go only, never set in MVP-7.0 *)

Definition msi_new : msi7 := mk_msi7 [] [] [] 1 false.
Definition set_stale (i : msi7) (b : bool) : msi7 := mk_msi7 (i_sems i) (i_states i) (i_cmds i) (i_next i) b.

(* getAlignedMemoryAddress(addrs): addrs[0] - addrs[0] % 64 (int32); addrs[0] of an empty slice panics *)
Definition aligned7 (addrs : list Z) : outcome Z :=
  match addrs with
  | [] => Panic
  | a :: _ => Ok (subS 32 a (remS 32 a l1LineSize))
  end.

(* getSem(addrs) *)
Definition sem_get (i : msi7) (a : Z) : Z * Z :=
  match aget a (i_sems i) with Some s => s | None => (0, 0) end.
Definition sem_set (i : msi7) (a : Z) (s : Z * Z) : msi7 :=
  mk_msi7 (aset a s (i_sems i)) (i_states i) (i_cmds i) (i_next i) (i_stale i).
(* Sem.RLock *)
Definition sem_rlock (i : msi7) (a : Z) : msi7 * bool :=
  let '(r, w) := sem_get i a in
  if 0 <? w then (i, false) else (sem_set i a (r + 1, w), true).
(* Sem.Lock *)
Definition sem_lock (i : msi7) (a : Z) : msi7 * bool :=
  let '(r, w) := sem_get i a in
  if (0 <? w) || (0 <? r) then (i, false) else (sem_set i a (r, w + 1), true).
(* Sem.RUnlock: panic("read is negative") *)
Definition sem_runlock (i : msi7) (a : Z) : outcome msi7 :=
  let '(r, w) := sem_get i a in
  if r - 1 <? 0 then Panic else Ok (sem_set i a (r - 1, w)).
(* Sem.Unlock: panic("write is negative") *)
Definition sem_unlock (i : msi7) (a : Z) : outcome msi7 :=
  let '(r, w) := sem_get i a in
  if w - 1 <? 0 then Panic else Ok (sem_set i a (r, w - 1)).

(* m.states[msiEntry{id, a}] *)
Definition state_get (i : msi7) (id a : Z) : Z :=
  match find (fun e => (fst (fst e) =? id) && (snd (fst e) =? a)) (i_states i) with
  | Some e => snd e
  | None => stInvalid
  end.
Fixpoint states_set (l : list (Z * Z * Z)) (id a s : Z) : list (Z * Z * Z) :=
  match l with
  | [] => [(id, a, s)]
  | e :: t => if (fst (fst e) =? id) && (snd (fst e) =? a) then (id, a, s) :: t else e :: states_set t id a s
  end.
(* m.states[msiEntry{id, a}] = s *)
Definition state_set (i : msi7) (id a s : Z) : msi7 :=
  mk_msi7 (i_sems i) (states_set (i_states i) id a s) (i_cmds i) (i_next i) (i_stale i).

Definition cmd_key (e : Z * Z * Z * Z) (id a rq : Z) : bool :=
  let '(id', a', rq', _) := e in (id' =? id) && (a' =? a) && (rq' =? rq).

(* sendNewMSICommand(id, a, request): the pending command with that key, or a new one *)
Definition msi_send (i : msi7) (id a rq : Z) : msi7 * Z :=
  match find (fun e => cmd_key e id a rq) (i_cmds i) with
  | Some e => (i, snd e)
  | None => (mk_msi7 (i_sems i) (i_states i) (i_cmds i ++ [(id, a, rq, i_next i)]) (i_next i + 1) (i_stale i), i_next i)
  end.

(* msiCommandInfo.isDone() of the command with identity c *)
Definition cmd_isdone (i : msi7) (c : Z) : bool := negb (existsb (fun e => snd e =? c) (i_cmds i)).

(* msiCommandInfo.done(): doneFlag = true; m.states[{id, a}] = invalid; delete(m.commands, key) *)
Definition cmd_done (i : msi7) (id a rq : Z) : msi7 :=
  let i1 := state_set i id a stInvalid in
  mk_msi7 (i_sems i1) (i_states i1) (filter (fun e => negb (cmd_key e id a rq)) (i_cmds i1)) (i_next i1) (i_stale i1).

(* the entries (core, state) of m.states for line a held by the cores other than id *)
Definition msi_others (i : msi7) (id a : Z) : list (Z * Z) :=
  map (fun e => (fst (fst e), snd e))
      (filter (fun e => negb (fst (fst e) =? id) && (snd (fst e) =? a)) (i_states i)).

(* readRequest(id, a): a write-back command to every other core that holds the line modified *)
Definition msi_read_request (i : msi7) (id a : Z) : msi7 * list Z :=
  fold_left (fun acc e => if snd e =? stModified
                          then let '(i1, c) := msi_send (fst acc) (fst e) a rqWriteBack in (i1, snd acc ++ [c])
                          else acc)
            (msi_others i id a) (i, []).

(* writeRequest(id, a) = invalidationRequest(id, a): write-back to a modified holder, evict to a shared holder *)
Definition msi_invalidate (i : msi7) (id a : Z) : msi7 * list Z :=
  fold_left (fun acc e => if snd e =? stModified
                          then let '(i1, c) := msi_send (fst acc) (fst e) a rqWriteBack in (i1, snd acc ++ [c])
                          else if snd e =? stShared
                          then let '(i1, c) := msi_send (fst acc) (fst e) a rqEvict in (i1, snd acc ++ [c])
                          else acc)
            (msi_others i id a) (i, []).

(* evictExtraCacheLine(id, a): a command to the core itself *)
Definition msi_evict_extra (i : msi7) (id a : Z) : msi7 * option Z :=
  let s := state_get i id a in
  if s =? stShared then let '(i1, c) := msi_send i id a rqEvict in (i1, Some c)
  else if s =? stModified then let '(i1, c) := msi_send i id a rqWriteBack in (i1, Some c)
  else (i, None).

(* the closure returned by rLock / lock as second result (nil: the zero value of cc.post) *)
Inductive post7 :=
| PNil
| PShareRUnlock (a : Z)          (* setState(id, addrs, shared); RUnlock *)
| PModUnlock (a : Z)             (* setState(id, addrs, modified); Unlock *)
| PRUnlock (a : Z)
| PUnlock (a : Z).

(* post() *)
Definition run_post (i : msi7) (id : Z) (p : post7) : outcome msi7 :=
  match p with
  | PNil => Panic                                  (* call of a nil func *)
  | PShareRUnlock a => sem_runlock (state_set i id a stShared) a
  | PModUnlock a => sem_unlock (state_set i id a stModified) a
  | PRUnlock a => sem_runlock i a
  | PUnlock a => sem_unlock i a
  end.

(* msiResponse + post: wait | (fetchFromMemory (true) or readFromL1 / writeToL1 (false), pendings, post) *)
Inductive lock_res := LWait | LGo (fetch : bool) (pendings : list Z) (post : post7).

(* rLock(id, addrs), a = the line *)
Definition msi_rlock (i : msi7) (id a : Z) : outcome (msi7 * lock_res) :=
  let s := state_get i id a in
  if s =? stInvalid then
    let '(i1, ok) := sem_rlock i a in
    if negb ok then Ok (i1, LWait)
    else let '(i2, ps) := msi_read_request i1 id a in Ok (i2, LGo true ps (PShareRUnlock a))
  else if s =? stModified then
    let '(i1, ok) := sem_lock i a in
    if negb ok then Ok (i1, LWait) else Ok (i1, LGo false [] (PUnlock a))
  else if s =? stShared then
    let '(i1, ok) := sem_rlock i a in
    if negb ok then Ok (i1, LWait) else Ok (i1, LGo false [] (PRUnlock a))
  else Panic.

(* lock(id, addrs) *)
Definition msi_lock (i : msi7) (id a : Z) : outcome (msi7 * lock_res) :=
  let s := state_get i id a in
  if s =? stInvalid then
    let '(i1, ok) := sem_lock i a in
    if negb ok then Ok (i1, LWait)
    else let '(i2, ps) := msi_invalidate i1 id a in Ok (i2, LGo true ps (PModUnlock a))
  else if s =? stModified then
    let '(i1, ok) := sem_lock i a in
    if negb ok then Ok (i1, LWait) else Ok (i1, LGo false [] (PUnlock a))
  else if s =? stShared then
    let '(i1, ok) := sem_lock i a in
    if negb ok then Ok (i1, LWait)
    else let '(i2, ps) := msi_invalidate i1 id a in Ok (i2, LGo false ps (PModUnlock a))
  else Panic.

(* ------------------------------------------------------------------ *)
(* cc.go                                                                *)
(* ------------------------------------------------------------------ *)

(* cc.read: coRead | the closures created by coRead / coReadFromL1, with the variables they capture *)
Inductive rd_co :=
| RStart
| RPend (pendings : list Z) (fetch : bool) (post : post7)             (* waits for resp.pendings *)
| RFetch (cycles : Z) (lineAddr : Z) (data : list Z) (post : post7)   (* memory latency, then pushLineToL1 *)
| REvict (pending : option Z) (post : post7)                          (* waits for the eviction of the extra line *)
| RL1 (cycles : Z) (data : list Z).                                   (* L1 latency, then post and done *)

(* cc.write *)
Inductive wr_co :=
| WStart
| WPend (pendings : list Z) (fetch : bool) (post : post7)
| WFetch (cycles : Z) (lineAddr : Z) (data : list Z) (post : post7)
| WEvict (pending : option Z) (cycles : Z) (post : post7)
| WL1 (cycles : Z).

(* the closures appended to cc.snoop's list by coSnoop *)
Inductive snoop_item :=
| SEvict (a : Z)
| SWriteBack (a : Z) (cycles : Z).

Record cc7 := mk_cc7 {
  c_l1d : cache; c_rd : rd_co; c_wr : wr_co; c_snoop : list snoop_item;
  c_rsems : list Z;                (* keys of rlockSems *)
  c_wsems : list Z;                (* keys of lockSems *)
  c_post : post7 }.

Definition set_l1d (c : cc7) (l : cache) : cc7 := mk_cc7 l (c_rd c) (c_wr c) (c_snoop c) (c_rsems c) (c_wsems c) (c_post c).
Definition set_rd (c : cc7) (r : rd_co) : cc7 := mk_cc7 (c_l1d c) r (c_wr c) (c_snoop c) (c_rsems c) (c_wsems c) (c_post c).
Definition set_wr (c : cc7) (w : wr_co) : cc7 := mk_cc7 (c_l1d c) (c_rd c) w (c_snoop c) (c_rsems c) (c_wsems c) (c_post c).
Definition set_snoop (c : cc7) (s : list snoop_item) : cc7 := mk_cc7 (c_l1d c) (c_rd c) (c_wr c) s (c_rsems c) (c_wsems c) (c_post c).
Definition set_post (c : cc7) (p : post7) : cc7 := mk_cc7 (c_l1d c) (c_rd c) (c_wr c) (c_snoop c) (c_rsems c) (c_wsems c) p.
Definition set_rsems (c : cc7) (s : list Z) : cc7 := mk_cc7 (c_l1d c) (c_rd c) (c_wr c) (c_snoop c) s (c_wsems c) (c_post c).
Definition set_wsems (c : cc7) (s : list Z) : cc7 := mk_cc7 (c_l1d c) (c_rd c) (c_wr c) (c_snoop c) (c_rsems c) s (c_post c).

(* m[k] = v / delete(m, k) on a set of keys *)
Definition keys_add (k : Z) (l : list Z) : list Z := if memZ k l then l else l ++ [k].
Definition keys_del (k : Z) (l : list Z) : list Z := filter (fun x => negb (x =? k)) l.

(* pushLineToL1(addr, line): isAddressInL1 is a Get (the hit line moves to the front) *)
Definition push_line_to_l1 (c : cache) (addr : Z) (ln : list Z) : outcome (cache * option line) :=
  r <- get c addr ;;
  match r with
  | (c1, Some _) => Ok (c1, None)
  | (c1, None) => push_line_warn c1 addr ln
  end.

Definition all_done (i : msi7) (ps : list Z) : bool := forallb (cmd_isdone i) ps.

(* ---- coRead ---- *)

(* the closure of coReadFromL1 *)
Definition rd_l1 (i : msi7) (id : Z) (c : cc7) (addrs : list Z) (cycles : Z) (data : list Z)
  : outcome (msi7 * cc7 * option (list Z)) :=
  if 0 <? cycles then Ok (i, set_rd c (RL1 (cycles - 1) data), None)
  else
    i1 <- run_post i id (c_post c) ;;
    a <- aligned7 addrs ;;
    Ok (i1, set_rsems (set_rd (set_post c PNil) RStart) (keys_del a (c_rsems c)), Some data).

(* coReadFromL1: getFromL1 panics on a miss *)
Definition rd_from_l1 (i : msi7) (id : Z) (c : cc7) (addrs : list Z) : outcome (msi7 * cc7 * option (list Z)) :=
  g <- get_all (c_l1d c) addrs [] ;;
  match g with
  | (_, None) => Panic
  | (l1, Some data) => rd_l1 i id (set_l1d c l1) addrs L1Access data
  end.

(* the checkpoint set when the pushed line displaced another one *)
Definition rd_evict (i : msi7) (id : Z) (c : cc7) (addrs : list Z) (pending : option Z) (post : post7)
  : outcome (msi7 * cc7 * option (list Z)) :=
  match pending with
  | Some p => if negb (cmd_isdone i p) then Ok (i, set_rd c (REvict pending post), None)
              else rd_from_l1 i id (set_post c post) addrs
  | None => rd_from_l1 i id (set_post c post) addrs
  end.

(* the closure that waits latency.MemoryAccess cycles and pushes the line *)
Definition rd_fetch (i : msi7) (id : Z) (c : cc7) (addrs : list Z) (cycles lineAddr : Z) (data : list Z) (post : post7)
  : outcome (msi7 * cc7 * option (list Z)) :=
  if 0 <? cycles then Ok (i, set_rd c (RFetch (cycles - 1) lineAddr data post), None)
  else
    p <- push_line_to_l1 (c_l1d c) lineAddr data ;;
    let c1 := set_l1d c (fst p) in
    match snd p with
    | Some victim =>
        let '(i1, pending) := msi_evict_extra i id (lo victim) in
        Ok (i1, set_rd c1 (REvict pending post), None)
    | None => rd_from_l1 i id (set_post c1 post) addrs
    end.

(* the first two closures of coRead: wait for the pendings, then read from L1 or start the fetch *)
Definition rd_pend (mem : list Z) (i : msi7) (id : Z) (c : cc7) (addrs : list Z) (ps : list Z) (fetch : bool) (post : post7)
  : outcome (msi7 * cc7 * option (list Z)) :=
  if negb (all_done i ps) then Ok (i, set_rd c (RPend ps fetch post), None)
  else if negb fetch then rd_from_l1 i id (set_post c post) addrs
  else
    a <- aligned7 addrs ;;
    g <- get_cache_line (c_l1d c) a ;;
    match g with
    | Some _ => Panic                               (* panic("invalid state") *)
    | None =>
        match addrs with
        | [] => Panic
        | a0 :: _ =>
            ln <- fetch_cache_line mem a0 ;;
            rd_fetch i id c addrs MemoryAccess a ln post
        end
    end.

(* coRead *)
Definition rd_start (mem : list Z) (i : msi7) (id : Z) (c : cc7) (addrs : list Z) : outcome (msi7 * cc7 * option (list Z)) :=
  a <- aligned7 addrs ;;
  r <- msi_rlock i id a ;;
  match snd r with
  | LWait => Ok (fst r, c, None)
  | LGo fetch ps post => rd_pend mem (fst r) id (set_rsems c (keys_add a (c_rsems c))) addrs ps fetch post
  end.

(* cc.read.Cycle(ccReadReq{cycle, addrs}): Some data = ccReadResp{data, true} *)
Definition cc_read_cycle (mem : list Z) (i : msi7) (id : Z) (c : cc7) (addrs : list Z) : outcome (msi7 * cc7 * option (list Z)) :=
  match c_rd c with
  | RStart => rd_start mem i id c addrs
  | RPend ps fetch post => rd_pend mem i id c addrs ps fetch post
  | RFetch cycles la data post => rd_fetch i id c addrs cycles la data post
  | REvict pending post => rd_evict i id c addrs pending post
  | RL1 cycles data => rd_l1 i id c addrs cycles data
  end.

(* ---- coWrite ---- *)

(* the closure of coWriteToL1 *)
Definition wr_l1 (i : msi7) (id : Z) (c : cc7) (addrs data : list Z) (cycles : Z) : outcome (msi7 * cc7 * bool) :=
  if 0 <? cycles then Ok (i, set_wr c (WL1 (cycles - 1)), false)
  else
    match addrs with
    | [] => Panic
    | a0 :: _ =>
        l1 <- write (c_l1d c) a0 data ;;
        i1 <- run_post i id (c_post c) ;;
        a <- aligned7 addrs ;;
        Ok (i1, set_wsems (set_wr (set_post (set_l1d c l1) PNil) WStart) (keys_del a (c_wsems c)), true)
    end.

(* coWriteToL1 *)
Definition wr_to_l1 (i : msi7) (id : Z) (c : cc7) (addrs data : list Z) : outcome (msi7 * cc7 * bool) :=
  wr_l1 i id c addrs data L1Access.

(* the checkpoint set when the pushed line displaced another one: the eviction, then L1Access cycles *)
Definition wr_evict (i : msi7) (id : Z) (c : cc7) (addrs data : list Z) (pending : option Z) (cycles : Z) (post : post7)
  : outcome (msi7 * cc7 * bool) :=
  let waiting := match pending with Some p => negb (cmd_isdone i p) | None => false end in
  if waiting then Ok (i, set_wr c (WEvict pending cycles post), false)
  else if 0 <? cycles then Ok (i, set_wr c (WEvict pending (cycles - 1) post), false)
  else wr_to_l1 i id (set_post c post) addrs data.

(* the closure that waits latency.MemoryAccess cycles and pushes the line *)
Definition wr_fetch (i : msi7) (id : Z) (c : cc7) (addrs data : list Z) (cycles lineAddr : Z) (ln : list Z) (post : post7)
  : outcome (msi7 * cc7 * bool) :=
  if 0 <? cycles then Ok (i, set_wr c (WFetch (cycles - 1) lineAddr ln post), false)
  else
    p <- push_line_to_l1 (c_l1d c) lineAddr ln ;;
    let c1 := set_l1d c (fst p) in
    match snd p with
    | Some victim =>
        let '(i1, pending) := msi_evict_extra i id (lo victim) in
        Ok (i1, set_wr c1 (WEvict pending L1Access post), false)
    | None => wr_to_l1 i id (set_post c1 post) addrs data
    end.

(* the first closure of coWrite *)
Definition wr_pend (mem : list Z) (i : msi7) (id : Z) (c : cc7) (addrs data : list Z) (ps : list Z) (fetch : bool) (post : post7)
  : outcome (msi7 * cc7 * bool) :=
  if negb (all_done i ps) then Ok (i, set_wr c (WPend ps fetch post), false)
  else if fetch then
    match addrs with
    | [] => Panic
    | a0 :: _ =>
        a <- aligned7 addrs ;;
        ln <- fetch_cache_line mem a0 ;;
        wr_fetch i id c addrs data MemoryAccess a ln post
    end
  else wr_to_l1 i id (set_post c post) addrs data.

(* coWrite *)
Definition wr_start (mem : list Z) (i : msi7) (id : Z) (c : cc7) (addrs data : list Z) : outcome (msi7 * cc7 * bool) :=
  a <- aligned7 addrs ;;
  r <- msi_lock i id a ;;
  match snd r with
  | LWait => Ok (fst r, c, false)
  | LGo fetch ps post => wr_pend mem (fst r) id (set_wsems c (keys_add a (c_wsems c))) addrs data ps fetch post
  end.

(* cc.write.Cycle(ccWriteReq{cycle, addrs, data}): the bool is ccWriteResp.done *)
Definition cc_write_cycle (mem : list Z) (i : msi7) (id : Z) (c : cc7) (addrs data : list Z) : outcome (msi7 * cc7 * bool) :=
  match c_wr c with
  | WStart => wr_start mem i id c addrs data
  | WPend ps fetch post => wr_pend mem i id c addrs data ps fetch post
  | WFetch cycles la ln post => wr_fetch i id c addrs data cycles la ln post
  | WEvict pending cycles post => wr_evict i id c addrs data pending cycles post
  | WL1 cycles => wr_l1 i id c addrs data cycles
  end.

(* ---- coSnoop ---- *)

(* slices.DeleteFunc(c.list, f): every closure is called once, in order; the ones that return true go *)
Fixpoint snoop_items (mem : list Z) (i : msi7) (id : Z) (l1 : cache) (items : list snoop_item)
  : outcome (list Z * msi7 * cache * list snoop_item) :=
  match items with
  | [] => Ok (mem, i, l1, [])
  | SEvict a :: t =>
      r <- evict_cache_line l1 a ;;
      snoop_items mem (cmd_done i id a rqEvict) id (fst r) t
  | SWriteBack a cycles :: t =>
      if 0 <? cycles then
        r <- snoop_items mem i id l1 t ;;
        let '(mem1, i1, l2, t') := r in Ok (mem1, i1, l2, SWriteBack a (cycles - 1) :: t')
      else
        g <- get_cache_line l1 a ;;
        match g with
        | None => Panic                             (* panic("memory address should exist") *)
        | Some d =>
            mem1 <- write_to_memory mem a d ;;
            r <- evict_cache_line l1 a ;;
            match snd r with
            | None => Panic                         (* panic("invalid state") *)
            | Some _ => snoop_items mem1 (cmd_done i id a rqWriteBack) id (fst r) t
            end
        end
  end.

(* coSnoop: one closure per pending command to this core; kev = what the `case evict` does besides
   (nothing in MVP-7.0, cc.msi.staleState = true in MVP-7.1) *)
Definition co_snoop (kev : msi7 -> msi7) (i : msi7) (id : Z) : outcome (msi7 * list snoop_item) :=
  fold_left (fun acc e =>
               il <- acc ;;
               let '(j, l) := il in
               let '(id', a, rq, _) := e in
               if negb (id' =? id) then Ok (j, l)
               else if rq =? rqEvict then Ok (kev j, l ++ [SEvict a])
               else if rq =? rqWriteBack then Ok (j, l ++ [SWriteBack a MemoryAccess])
               else Panic)
            (i_cmds i) (Ok (i, [])).

(* cc.snoop.Cycle(struct{}{}): the coroutine is always at its start function; when the list was empty
   before the pass, coSnoop is called *)
Definition cc_snoop_cycle (kev : msi7 -> msi7) (mem : list Z) (i : msi7) (id : Z) (c : cc7) : outcome (list Z * msi7 * cc7) :=
  r <- snoop_items mem i id (c_l1d c) (c_snoop c) ;;
  let '(mem1, i1, l1, items) := r in
  let c1 := set_snoop (set_l1d c l1) items in
  match c_snoop c with
  | [] => il <- co_snoop kev i1 id ;; Ok (mem1, fst il, set_snoop c1 (snd il))
  | _ => Ok (mem1, i1, c1)
  end.

(* ---- flush, export ---- *)

(* cacheController.flush(): the second loop deletes from rlockSems, lockSems keeps its entries *)
Definition cc_flush (i : msi7) (c : cc7) : outcome (msi7 * cc7) :=
  i1 <- fold_left (fun acc k => j <- acc ;; sem_runlock j k) (c_rsems c) (Ok i) ;;
  i2 <- fold_left (fun acc k => j <- acc ;; sem_unlock j k) (c_wsems c) (Ok i1) ;;
  Ok (i2, set_rsems (set_wr (set_rd c RStart) WStart) []).

(* cacheController.export(): the modified lines are written to memory *)
Fixpoint cc_export (i : msi7) (id : Z) (ls : list line) (mem : list Z) (cycles : Z) : outcome (list Z * Z) :=
  match ls with
  | [] => Ok (mem, cycles)
  | l :: t =>
      if negb (state_get i id (lo l) =? stModified) then cc_export i id t mem cycles
      else mem' <- write_to_memory mem (lo l) (data l) ;; cc_export i id t mem' (cycles + MemoryAccess)
  end.

Definition cc_idle (c : cc7) : bool :=
  match c_rd c, c_wr c with RStart, WStart => true | _, _ => false end.

(* ------------------------------------------------------------------ *)
(* eu.go                                                                *)
(* ------------------------------------------------------------------ *)

(* executeUnit's coroutine: start | prepareRun | the closure around cc.read.Cycle (addrs) |
   the closure around cc.write.Cycle (writeAddrs, data) *)
Inductive eu_co7 := HNone | HPrepare | HRead (addrs : list Z) | HWrite (addrs data : list Z).

(* executeUnit with its cache controller *)
Record eu7 := mk_eu7 { h_co : eu_co7; h_memory : list Z; h_runner : option runner3; h_seq : Z; h_cc : cc7 }.

Definition set_hco (e : eu7) (c : eu_co7) : eu7 := mk_eu7 c (h_memory e) (h_runner e) (h_seq e) (h_cc e).
Definition set_hcc (e : eu7) (c : cc7) : eu7 := mk_eu7 (h_co e) (h_memory e) (h_runner e) (h_seq e) c.

(* what the units share: the machine of Mvp63.v (x_m's m_l3 / m_pend are not used) and the directory;
   two fields exist for MVP-7.1 only (Mvp71.v) and stay empty in MVP-7.0:
   w_copy = controlUnit.msiStatesCopy, w_pref = the ExecutionUnitID of the pushed runners (identity -> unit) *)
Record w7 := mk_w7 { w_x : mx; w_i : msi7; w_copy : list (Z * Z * Z); w_pref : list (Z * Z) }.
Definition w_mem (w : w7) : list Z := m_mem (x_m (w_x w)).
Definition set_wx (w : w7) (x : mx) : w7 := mk_w7 x (w_i w) (w_copy w) (w_pref w).
Definition set_wi (w : w7) (i : msi7) : w7 := mk_w7 (w_x w) i (w_copy w) (w_pref w).
Definition set_wmem (w : w7) (mem : list Z) : w7 := set_wx w (set_m (w_x w) (set_mem (x_m (w_x w)) mem)).

Definition eu_res7 : Type := outcome (w7 * eu7 * eu_out3).

(* the places where mvp7-1 differs from mvp7-0 (Mvp71.v); hooks70 below is MVP-7.0 *)
Record hooks7 := mk_hooks7 {
  (* the register reader and the sequenceID handed to Runner.MemoryRead / Runner.Run by the execute unit,
     from the machine, the pc and the SequenceID of the runner (7.0: sequenceID 0) *)
  k_rr : mx -> Z -> Z -> (Z -> Z) * Z;
  (* executeUnit.start: u.inBus.Get() (7.0) / u.inBus.Pick(...) (7.1) for the unit with this id *)
  k_take : Z -> w7 -> w7 * option runner3;
  (* executeUnit.isPendingMessages() with u.sequenceID (7.1; false in 7.0, which has no such test) *)
  k_pending : w7 -> Z -> bool;
  (* coSnoop, case evict: cc.msi.staleState = true (7.1) *)
  k_evict : msi7 -> msi7;
  (* the first half of an iteration of the main loop: Connect calls, fetch, decode, control unit *)
  k_front : list instr -> (Z -> Z -> list Z -> list Z) -> Z -> w7 -> outcome w7 }.

Definition hooks70 : hooks7 :=
  mk_hooks7 (fun x pc _ => (rr3 x pc, 0))
            (fun _ w => let '(ebus', got) := bb_get (x_ebus (w_x w)) in
                        match got with None => (w, None) | Some r => (set_wx w (set_ebus3 (w_x w) ebus'), Some r) end)
            (fun _ _ => false)
            (fun i => i)
            (fun app ord cycle w => x <- front3 app ord cycle (w_x w) ;; Ok (set_wx w x)).

(* executeUnit.flush(): Reset(); sequenceID = 0; cc.flush() *)
Definition eu_flush7 (i : msi7) (e : eu7) : outcome (msi7 * eu7) :=
  r <- cc_flush i (h_cc e) ;;
  Ok (fst r, mk_eu7 HNone (h_memory e) (h_runner e) 0 (snd r)).

(* the Pre hook *)
Definition eu_pre7 (e : eu7) : bool :=
  if h_seq e =? 0 then false
  else match h_runner e with
       | None => false
       | Some r => h_seq e <? q_seq r
       end.

(* the closure around cc.write.Cycle *)
Definition eu_write7 (id : Z) (w : w7) (e : eu7) (addrs data : list Z) : eu_res7 :=
  r <- cc_write_cycle (w_mem w) (w_i w) id (h_cc e) addrs data ;;
  let '(i1, c1, done) := r in
  Ok (set_wi w i1, mk_eu7 (if done then HNone else HWrite addrs data) (h_memory e) (h_runner e) (h_seq e) c1, yo_none).

(* run (after ExecuteWithReset) *)
Definition eu_run7 (hk : hooks7) (labels : Z -> option Z) (ord : Z -> Z -> list Z -> list Z) (cycle id : Z) (w : w7) (e : eu7) : eu_res7 :=
  match h_runner e with
  | None => Panic
  | Some r =>
      let x := w_x w in
      let i := q_instr r in
      let pc := q_pc r in
      let e0 := set_hco e HNone in
      let '(rr, sid) := k_rr hk x pc (q_seq r) in
      let ro := instr_Run i rr labels pc (h_memory e) sid in
      (* u.runner.Runner.Forward(risc.Forward{}) *)
      let x := set_forward3 x pc 0 0 in
      match ro with
      | Panic => Panic
      | Err er => Ok (set_wx w x, e0, mk_euo3 false 0 0 false (Some er))
      | Ok exe =>
          if Return exe then Ok (set_wx w x, e0, mk_euo3 false 0 0 true None) else
          if MemoryChange exe then
            (* executionToMemoryChanges: sorted by address; ExecuteWithCheckpoint(the write closure) *)
            let ch := sort_changes (MemoryChanges exe) in
            eu_write7 id (set_wx w x) e0 (map fst ch) (map snd ch)
          else
          let reads := instr_ReadRegisters i in
          let writes := instr_WriteRegisters i in
          let m1 := x_m x in
          let x1 := set_m x (set_wbus m1 (bb_add (m_wbus m1) (mk_wb6 (q_seq r) exe reads writes) cycle)) in
          let ty := instr_InstructionType i in
          match q_fwder r with
          | None =>
              let x2 := if InstructionType_IsUnconditionalBranch ty then bu_resolved3 x1 pc (NextPc exe) else x1 in
              let x3 := if InstructionType_IsConditionalBranch ty then
                          if PcChange exe && negb (NextPc exe =? addS 32 pc 4)
                          then rat_rollback3 ord cycle (set_pcb3 x2 false) (q_seq r)
                          else rat_commit3 ord cycle (set_pcb3 x2 false)
                        else x2 in
              if PcChange exe then
                let '(b', fl) := bu_should_flush6 (m_bu (x_m x3)) (NextPc exe) in
                Ok (set_wx w (set_m x3 (set_bu (x_m x3) b')), e0,
                    if fl then mk_euo3 true (q_seq r) (NextPc exe) false None else yo_none)
              else Ok (set_wx w x3, e0, yo_none)
          | Some ch =>
              match aget ch (x_chan x1) with
              | Some _ => Panic
              | None =>
                  if InstructionType_IsBranch ty then Panic
                  else Ok (set_wx w (set_chan3 x1 (x_chan x1 ++ [(ch, RegisterValue exe)])), e0, yo_none)
              end
          end
      end
  end.

(* the closure around cc.read.Cycle *)
Definition eu_read7 (hk : hooks7) (labels : Z -> option Z) (ord : Z -> Z -> list Z -> list Z) (cycle id : Z) (w : w7) (e : eu7) (addrs : list Z)
  : eu_res7 :=
  r <- cc_read_cycle (w_mem w) (w_i w) id (h_cc e) addrs ;;
  let '(i1, c1, resp) := r in
  let w1 := set_wi w i1 in
  match resp with
  | None => Ok (w1, mk_eu7 (HRead addrs) (h_memory e) (h_runner e) (h_seq e) c1, yo_none)
  | Some bytes => eu_run7 hk labels ord cycle id w1 (mk_eu7 HNone bytes (h_runner e) (h_seq e) c1)
  end.

(* prepareRun *)
Definition eu_prepare7 (hk : hooks7) (labels : Z -> option Z) (ord : Z -> Z -> list Z -> list Z) (cycle id : Z) (w : w7) (e : eu7) : eu_res7 :=
  let x := w_x w in
  if negb (bb_canadd (m_wbus (x_m x))) then Ok (w, e, yo_none) else
  match h_runner e with
  | None => Panic
  | Some r =>
      let rcv := match q_recv r with
                 | None => Some (x, r)
                 | Some ch =>
                     match aget ch (x_chan x) with
                     | None => None
                     | Some v =>
                         Some (set_forward3 (set_chan3 x (filter (fun p => negb (fst p =? ch)) (x_chan x))) (q_pc r) (q_freg r) v,
                               mk_r3 (q_r r) (q_id r) (q_fwder r) None (q_freg r))
                     end
                 end in
      match rcv with
      | None => Ok (w, e, yo_none)
      | Some (x0, r1) =>
          let e := mk_eu7 (h_co e) (h_memory e) (Some r1) (h_seq e) (h_cc e) in
          let x1 := bu_assert3 x0 (q_r r1) in
          let '(rr, sid) := k_rr hk x1 (q_pc r1) (q_seq r1) in
          let addrs := instr_MemoryRead (q_instr r1) rr sid in
          match addrs with
          | [] => eu_run7 hk labels ord cycle id (set_wx w x1) (set_hco e HNone)
          | _ :: _ => eu_read7 hk labels ord cycle id (set_wx w x1) e addrs
          end
      end
  end.

(* executeUnit.Cycle: Pre hook, then the current function of the coroutine *)
Definition eu_cycle7 (hk : hooks7) (labels : Z -> option Z) (ord : Z -> Z -> list Z -> list Z) (cycle id : Z) (w : w7) (e : eu7) : eu_res7 :=
  if eu_pre7 e then
    (* 7.1: if eu.isPendingMessages() { panic("invalid state") } *)
    if k_pending hk w (h_seq e) then Panic else
    r <- eu_flush7 (w_i w) e ;; Ok (set_wi w (fst r), snd r, yo_none)
  else
  match h_co e with
  | HNone =>
      let '(w', got) := k_take hk id w in
      match got with
      | None => Ok (w', e, yo_none)
      | Some r => eu_prepare7 hk labels ord cycle id w' (mk_eu7 HPrepare (h_memory e) (Some r) (h_seq e) (h_cc e))
      end
  | HPrepare => eu_prepare7 hk labels ord cycle id w e
  | HRead addrs => eu_read7 hk labels ord cycle id w e addrs
  | HWrite addrs data => eu_write7 id w e addrs data
  end.

Definition eu_empty7 (e : eu7) : bool := match h_co e with HNone => true | _ => false end.

(* the loop over the execute units in the main loop (eus_main3 of Mvp63.v) *)
Fixpoint eus_main7 (hk : hooks7) (labels : Z -> option Z) (ord : Z -> Z -> list Z -> list Z) (cycle id : Z) (w : w7) (eus : list eu7)
         (acc : eu_out3) : outcome (w7 * list eu7 * eu_out3) :=
  match eus with
  | [] => Ok (w, [], acc)
  | e :: t =>
      let e := mk_eu7 (h_co e) (h_memory e) (h_runner e) (y_seq acc) (h_cc e) in
      r1 <- eu_cycle7 hk labels ord cycle id w e ;;
      let '(w1, e1, o) := r1 in
      match y_err o with
      | Some er => Ok (w1, e1 :: t, mk_euo3 (y_flush acc) (y_seq acc) (y_pc acc) (y_ret acc) (Some er))
      | None =>
          let take := y_flush o && (negb (y_flush acc) || (y_seq o <? y_seq acc)) in
          let acc' := mk_euo3 (y_flush acc || y_flush o) (if take then y_seq o else y_seq acc)
                              (if take then y_pc o else y_pc acc) (y_ret acc || y_ret o) None in
          z <- eus_main7 hk labels ord cycle (id + 1) w1 t acc' ;;
          let '(w2, t', acc2) := z in Ok (w2, e1 :: t', acc2)
      end
  end.

(* the loop over the execute units in the drain loop after ret *)
Fixpoint eus_drain7 (hk : hooks7) (labels : Z -> option Z) (ord : Z -> Z -> list Z -> list Z) (cycle id : Z) (w : w7) (eus : list eu7)
  : outcome (w7 * list eu7 * option err_class) :=
  match eus with
  | [] => Ok (w, [], None)
  | e :: t =>
      if eu_empty7 e then
        z <- eus_drain7 hk labels ord cycle (id + 1) w t ;;
        let '(w2, t', er) := z in Ok (w2, e :: t', er)
      else
        r1 <- eu_cycle7 hk labels ord cycle id w e ;;
        let '(w1, e1, o) := r1 in
        match y_err o with
        | Some er => Ok (w1, e1 :: t, Some er)
        | None =>
            z <- eus_drain7 hk labels ord cycle (id + 1) w1 t ;;
            let '(w2, t', er) := z in Ok (w2, e1 :: t', er)
        end
  end.

(* the loop over the execute units inside the flush loop *)
Fixpoint eus_flush7 (hk : hooks7) (labels : Z -> option Z) (ord : Z -> Z -> list Z -> list Z) (fromCycle id : Z) (w : w7) (eus : list eu7)
         (acc : fl_acc) : outcome (w7 * list eu7 * fl_acc) :=
  match eus with
  | [] => Ok (w, [], acc)
  | e :: t =>
      (* 7.0: if !eu.isEmpty();  7.1: if !eu.isEmpty() || eu.isPendingMessages() *)
      if eu_empty7 e && negb (k_pending hk w (h_seq e)) then
        z <- eus_flush7 hk labels ord fromCycle (id + 1) w t acc ;;
        let '(w2, t', acc2) := z in Ok (w2, e :: t', acc2)
      else
        r1 <- eu_cycle7 hk labels ord fromCycle id w e ;;
        let '(w1, e1, o) := r1 in
        match y_err o with
        | Some er => Ok (w1, e1 :: t, mk_fla false (a_seq acc) (a_pc acc) (Some er))
        | None =>
            let acc' := if y_flush o then mk_fla false (y_seq o) (y_pc o) None
                        else mk_fla false (a_seq acc) (a_pc acc) None in
            z <- eus_flush7 hk labels ord fromCycle (id + 1) w1 t acc' ;;
            let '(w2, t', acc2) := z in Ok (w2, e1 :: t', acc2)
        end
  end.

(* the loop over the execute units in the final loop of Run: a unit that is empty and whose controller is idle
   is skipped; the response is ignored.  Returns whether every unit was skipped. *)
Fixpoint eus_final7 (hk : hooks7) (labels : Z -> option Z) (ord : Z -> Z -> list Z -> list Z) (cycle id : Z) (w : w7) (eus : list eu7)
  : outcome (w7 * list eu7 * bool) :=
  match eus with
  | [] => Ok (w, [], true)
  | e :: t =>
      if eu_empty7 e && cc_idle (h_cc e) then
        z <- eus_final7 hk labels ord cycle (id + 1) w t ;;
        let '(w2, t', em) := z in Ok (w2, e :: t', em)
      else
        r1 <- eu_cycle7 hk labels ord cycle id w e ;;
        let '(w1, e1, _) := r1 in
        z <- eus_final7 hk labels ord cycle (id + 1) w1 t ;;
        let '(w2, t', _) := z in Ok (w2, e1 :: t', false)
  end.

(* for _, cc := range m.cacheControllers { cc.snoop.Cycle(struct{}{}) } *)
Fixpoint snoops7 (hk : hooks7) (id : Z) (w : w7) (eus : list eu7) : outcome (w7 * list eu7) :=
  match eus with
  | [] => Ok (w, [])
  | e :: t =>
      r <- cc_snoop_cycle (k_evict hk) (w_mem w) (w_i w) id (h_cc e) ;;
      let '(mem1, i1, c1) := r in
      z <- snoops7 hk (id + 1) (set_wmem (set_wi w i1) mem1) t ;;
      Ok (fst z, set_hcc e c1 :: snd z)
  end.

(* ------------------------------------------------------------------ *)
(* wu.go                                                                *)
(* ------------------------------------------------------------------ *)

(* writeUnit.Cycle(wuReq{before}): a memory change panics *)
Definition wu_cycle7 (x : mx) (w : wu6) (before : Z) : outcome (mx * wu6) :=
  let m := x_m x in
  let '(wbus', got) := bb_get (m_wbus m) in
  let m := set_wbus m wbus' in
  match got with
  | None => Ok (set_m x m, w)
  | Some c =>
      if negb (before =? -1) && (before <? w_seq c) then Ok (set_m x m, w)      (* dropped *)
      else if RegisterChange (w_exe c) then
        let x1 := set_rats3 x (x_crat x) (rat_write tu0 (x_trat x) (Register (w_exe c)) (w_seq c, RegisterValue (w_exe c))) in
        Ok (set_m x1 (del_pending6 m (w_reads c) (w_writes c)), w)
      else if MemoryChange (w_exe c) then Panic
      else Ok (set_m x (del_pending6 m (w_reads c) (w_writes c)), w)
  end.

Fixpoint wus_cycle7 (x : mx) (wus : list wu6) (before : Z) : outcome (mx * list wu6) :=
  match wus with
  | [] => Ok (x, [])
  | w :: t =>
      r1 <- wu_cycle7 x w before ;;
      r <- wus_cycle7 (fst r1) t before ;;
      Ok (fst r, snd r1 :: snd r)
  end.

(* ------------------------------------------------------------------ *)
(* cpu.go                                                               *)
(* ------------------------------------------------------------------ *)

(* which loop of Run the next tick belongs to *)
Inductive mode7 :=
| QNormal                                          (* the main for loop *)
| QRet                                             (* the drain loop after a ret *)
| QFlushE (seq pc from : Z)                        (* the `for { ... }` after `if flush` *)
| QFlushW (k : nat) (seq pc from : Z) (empty : bool)
                                                   (* `for !wu.isEmpty() || !writeBus.IsEmpty()` of write unit k inside it *)
| QFinal.                                          (* the loop after the main loop: snoops and busy units *)

Record st7 := mk_st7 { v_w : w7; v_eus : list eu7; v_wus : list wu6; v_cycle : Z; v_mode : mode7 }.

Inductive step_res7 := UDone (r : mres) (os : bool) | UCont (s : st7).

Definition v_os (w : w7) : bool := x_os (w_x w).

Definition res_of7 {A} (os : bool) (o : outcome A) (k : A -> step_res7) : step_res7 :=
  match o with Ok x => k x | Err e => UDone (MErr e) os | Panic => UDone MPanic os end.

(* for _, cc := range m.cacheControllers { cycle += cc.export() } *)
Fixpoint export7 (i : msi7) (id : Z) (eus : list eu7) (mem : list Z) (cycles : Z) : outcome (list Z * Z) :=
  match eus with
  | [] => Ok (mem, cycles)
  | e :: t => r <- cc_export i id (lines (c_l1d (h_cc e))) mem cycles ;; export7 i (id + 1) t (fst r) (snd r)
  end.

(* the end of Run: export, RATCommit, RATFlush *)
Definition finish7 (ord : Z -> Z -> list Z -> list Z) (w : w7) (eus : list eu7) (cycle : Z) : mres :=
  match export7 (w_i w) 0 eus (w_mem w) 0 with
  | Ok (mem', c) => MDone (cycle + c) (mk_arch (rat_flush3 ord cycle (rat_commit3 ord cycle (w_x w))) mem')
  | _ => MPanic
  end.

(* CPU.flush(pc): every executeUnit.flush() (with its cache controller), then do_flush3 of Mvp63.v *)
Fixpoint eus_flush_all7 (i : msi7) (eus : list eu7) : outcome (msi7 * list eu7) :=
  match eus with
  | [] => Ok (i, [])
  | e :: t => r <- eu_flush7 i e ;; z <- eus_flush_all7 (fst r) t ;; Ok (fst z, snd r :: snd z)
  end.

Definition is_empty7 (x : mx) (eus : list eu7) (wus : list wu6) : bool :=
  let m := x_m x in
  f_complete (m_fu m) && (zlen (x_pend x) =? 0) && forallb wu_empty wus &&
  bb_isempty (m_dbus m) && bb_isempty (m_cbus m) && bb_isempty (x_ebus x) && bb_isempty (m_wbus m) &&
  forallb eu_empty7 eus.

Definition w_connect7 (w : w7) (cycle : Z) : w7 := set_wx w (wbus_connect3 (w_x w) cycle).

(* condition of the drain loop after ret; when it is over, `break` leads to the final loop *)
Definition ret_check7 (s : st7) : step_res7 :=
  if forallb eu_empty7 (v_eus s) && forallb wu_empty (v_wus s) && bb_isempty (m_wbus (x_m (w_x (v_w s))))
  then UCont (mk_st7 (v_w s) (v_eus s) (v_wus s) (v_cycle s) QFinal)
  else UCont (mk_st7 (v_w s) (v_eus s) (v_wus s) (v_cycle s) QRet).

(* inside one iteration of the flush loop, after m.writeBus.Connect(cycle + 1) (flush_advance3 of Mvp63.v) *)
Definition flush_advance7 (s : st7) (k : nat) (seq pc from : Z) (empty : bool) : step_res7 :=
  match flush_next (skipn k (v_wus s)) k (bb_isempty (m_wbus (x_m (w_x (v_w s))))) with
  | Some k' => UCont (mk_st7 (v_w s) (v_eus s) (v_wus s) (v_cycle s) (QFlushW k' seq pc from empty))
  | None =>
      if empty then
        res_of7 (v_os (v_w s)) (eus_flush_all7 (w_i (v_w s)) (v_eus s)) (fun r =>
        UCont (mk_st7 (set_wi (set_wx (v_w s) (do_flush3 (w_x (v_w s)) pc)) (fst r)) (snd r) (v_wus s) (v_cycle s + Flush) QNormal))
      else UCont (mk_st7 (v_w s) (v_eus s) (v_wus s) (v_cycle s) (QFlushE seq pc from))
  end.

(* the rest of an iteration of the main loop once the execute units have run *)
Definition back7 (s : st7) (cycle : Z) (z : w7 * list eu7 * eu_out3) : step_res7 :=
  let '(w, eus1, o) := z in
  match y_err o with
  | Some er => UDone (MErr er) (v_os w)
  | None =>
      res_of7 (v_os w) (wus_cycle7 (w_x w) (v_wus s) (if y_flush o then y_seq o else -1)) (fun r =>
      let '(x, wus1) := r in
      let w := set_wx w x in
      if y_ret o then
        let cycle := cycle + 1 in
        ret_check7 (mk_st7 (w_connect7 w cycle) eus1 wus1 cycle QRet)
      else if y_flush o then
        UCont (mk_st7 w (map (fun e => mk_eu7 (h_co e) (h_memory e) (h_runner e) (y_seq o) (h_cc e)) eus1) wus1 cycle
                      (QFlushE (y_seq o) (y_pc o) cycle))
      else if is_empty7 x eus1 wus1 then UCont (mk_st7 w eus1 wus1 cycle QFinal)
      else UCont (mk_st7 w eus1 wus1 cycle QNormal))
  end.

(* one ctx.VerifTick() of Run *)
Definition step7 (hk : hooks7) (app : list instr) (labels : Z -> option Z) (ord : Z -> Z -> list Z -> list Z) (s : st7) : step_res7 :=
  let w := v_w s in
  let os := v_os w in
  match v_mode s with
  | QNormal =>
      let cycle := v_cycle s + 1 in
      res_of7 os (k_front hk app ord cycle w) (fun w =>
      res_of7 (v_os w) (snoops7 hk 0 w (v_eus s)) (fun r =>
      res_of7 (v_os w) (eus_main7 hk labels ord cycle 0 (fst r) (snd r) yo_none) (back7 s cycle)))
  | QRet =>
      res_of7 os (snoops7 hk 0 w (v_eus s)) (fun r =>
      res_of7 os (eus_drain7 hk labels ord (v_cycle s) 0 (fst r) (snd r)) (fun z =>
      let '(w1, eus1, er) := z in
      match er with
      | Some e => UDone (MErr e) (v_os w1)
      | None =>
          res_of7 (v_os w1) (wus_cycle7 (w_x w1) (v_wus s) (-1)) (fun r =>
          let '(x2, wus1) := r in
          let cycle := v_cycle s + 1 in
          ret_check7 (mk_st7 (w_connect7 (set_wx w1 x2) cycle) eus1 wus1 cycle QRet))
      end))
  | QFlushE seq pc from =>
      let cycle := v_cycle s + 1 in
      res_of7 os (snoops7 hk 0 w (v_eus s)) (fun r =>
      res_of7 os (eus_flush7 hk labels ord from 0 (fst r) (snd r) (mk_fla true seq pc None)) (fun z =>
      let '(w1, eus1, acc) := z in
      match a_err acc with
      | Some er => UDone (MErr er) (v_os w1)
      | None =>
          flush_advance7 (mk_st7 (w_connect7 w1 (cycle + 1)) eus1 (v_wus s) cycle (v_mode s))
                         0 (a_seq acc) (a_pc acc) from (a_empty acc)
      end))
  | QFlushW k seq pc from empty =>
      match nth_error (v_wus s) k with
      | None => UDone MPanic os
      | Some u =>
          res_of7 os (wu_cycle7 (w_x w) u seq) (fun r =>
          flush_advance7 (mk_st7 (set_wx w (fst r)) (v_eus s) (set_nth6 (v_wus s) k (snd r)) (v_cycle s) (v_mode s)) k seq pc from empty)
      end
  | QFinal =>
      let cycle := v_cycle s + 1 in
      (* if !cc.snoop.IsStart() { empty = false } *)
      let quiet := forallb (fun e => match c_snoop (h_cc e) with [] => true | _ => false end) (v_eus s) in
      res_of7 os (snoops7 hk 0 w (v_eus s)) (fun r =>
      res_of7 os (eus_final7 hk labels ord cycle 0 (fst r) (snd r)) (fun z =>
      let '(w1, eus1, skipped) := z in
      if quiet && skipped then UDone (finish7 ord w1 eus1 cycle) (v_os w1)
      else UCont (mk_st7 w1 eus1 (v_wus s) cycle QFinal)))
  end.

(* Run: one step per tick until Run returns; when the tick budget is exhausted the state reached *)
Fixpoint run7_st (hk : hooks7) (fuel : nat) (app : list instr) (labels : Z -> option Z) (ord : Z -> Z -> list Z -> list Z) (s : st7)
  : (mres * bool) + st7 :=
  match fuel with
  | O => inr s
  | S f =>
      match step7 hk app labels ord s with
      | UDone r os => inl (r, os)
      | UCont s' => run7_st hk f app labels ord s'
      end
  end.

(* NewCPU(debug, memoryBytes, parallelism); m.ctx.InitRAT() at the start of Run *)
Definition init7 (par : nat) (ord : Z -> Z -> list Z -> list Z) (app : list instr) (st : arch) : outcome st7 :=
  match init3 par ord app st, new_cache l1LineSize l1Size with
  | Ok s3, Ok l1d =>
      let cc := mk_cc7 l1d RStart WStart [] [] [] PNil in
      Ok (mk_st7 (mk_w7 (t_x s3) msi_new [] []) (repeat (mk_eu7 HNone [] None 0 cc) par) (t_wus s3) 0 QNormal)
  | _, _ => Panic
  end.

(* NewCPU + Run(app); second component = ghost flag *)
Definition mvp70_run_os (par : nat) (ord : Z -> Z -> list Z -> list Z) (fuel : nat) (app : list instr)
           (labels : Z -> option Z) (st : arch) : mres * bool :=
  match init7 par ord app st with
  | Ok s => match run7_st hooks70 fuel app labels ord s with
            | inl r => r
            | inr s' => (MOutOfFuel, v_os (v_w s'))
            end
  | _ => (MPanic, false)
  end.

Definition mvp70_run (par : nat) (ord : Z -> Z -> list Z -> list Z) (fuel : nat) (app : list instr)
           (labels : Z -> option Z) (st : arch) : mres :=
  fst (mvp70_run_os par ord fuel app labels st).

(* the same, but a run that exhausts its fuel returns what the Go harness can see of ctx at that moment:
   (cycle, Registers, Memory, PendingWriteRegisters, PendingReadRegisters), the ghost flag and the
   speculative register file *)
Definition mvp70_run_snap (par : nat) (ord : Z -> Z -> list Z -> list Z) (fuel : nat) (app : list instr)
           (labels : Z -> option Z) (st : arch) : (mres * bool) + (Z * arch * list Z * list Z * bool * list Z) :=
  match init7 par ord app st with
  | Ok s =>
      match run7_st hooks70 fuel app labels ord s with
      | inl r => inl r
      | inr s' =>
          let x := w_x (v_w s') in
          inr (v_cycle s', mk_arch (m_regs (x_m x)) (m_mem (x_m x)), m_pw (x_m x), m_pr (x_m x), x_os x,
               map (fun k => reg_read3 (0, 0) (x_crat x) (x_trat x) (Z.of_nat k)) (seq 0 32))
      end
  | _ => inl (MPanic, false)
  end.
