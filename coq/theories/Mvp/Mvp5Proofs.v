(* Theorems about the MVP-5 model (Mvp5.v: the MVP-4 pipeline plus a branch target
   buffer, the decode stall after an unconditional jump, the fetch redirect) on
   register-only programs: it computes the sequential result (C01), in a number of
   cycles that depends on the program and the path only (C12; the BTB content is a
   function of the path), at least one cycle per executed instruction, and
   terminates within a bound that is linear in the number of executed
   instructions, without panic (C07).

   Structure as for MVP-4: Mvp5Skel.v (skeleton), Mvp5Inv.v / Mvp5Front.v (invariant
   and progress), Mvp5Sim.v (model = skeleton + sequential values, cycle for cycle).
   Everything about the sequential machine and the paths is reused from
   Mvp4Sim.v / Mvp4Proofs.v. *)
From Coq Require Import ZArith List Bool Lia.
From Maj Require Import Base.Outcome Base.GoInt Base.GoTypes Isa.Spec Isa.Embed Isa.Seq Isa.Refine.
From Maj Require Import Gen.Latency Gen.RiscTables Gen.Opcodes Comp.Cache Comp.CacheProofs.
From Maj Require Import Mvp.Mvp12 Mvp.Mvp12Proofs Mvp.Mvp3 Mvp.Mvp3Proofs Mvp.Mvp4 Mvp.Mvp5
     Mvp.Mvp4Skel Mvp.Mvp4Inv Mvp.Mvp4Units Mvp.Mvp4Front Mvp.Mvp4Sim Mvp.Mvp4Proofs
     Mvp.Mvp5Skel Mvp.Mvp5Inv Mvp.Mvp5Front Mvp.Mvp5Sim.
Import ListNotations.
Open Scope Z_scope.

(* ------------------------------------------------------------------ *)
(* unconditional: a finished run counted at least one cycle             *)

Lemma finish5_ge s cyc c st : m5_finish s cyc = MDone c st -> cyc <= c.
Proof.
  unfold m5_finish. destruct (flush_lines (lines (t_l1d s)) (t_mem s) 0) as [[mem' c0]| |] eqn:E; try discriminate.
  intros H. injection H as <- _. apply flush_lines_ge in E. lia.
Qed.

Theorem m5run_cycles_ge app labels : forall fuel s cyc c st,
  m5run fuel app labels s cyc = MDone c st -> cyc + 1 <= c.
Proof.
  induction fuel as [|f IH]; intros s cyc c st H; [discriminate|]. cbn [m5run] in H.
  destruct (fu5_cycle app (t_fu s) (t_l1i s) (t_dbus s)) as [[[fu1 l1i1] dbus1]| |]; try discriminate.
  destruct (du5_cycle app (t_du s) dbus1 (t_ebus s)) as [[[du1 dbus2] ebus1]| |]; try discriminate.
  destruct (eu5_cycle labels _ ebus1) as [[[[env1 ebus2] o]| |]|]; try discriminate.
  destruct (wu_cycle _ _ _ _ _) as [[[[[regs2 mem2] pw2] wu2] wbus2]| |]; try discriminate.
  destruct (eo_ret o).
  { destruct (m4_drain _ _ _ _ _ _ _ _) as [[[[[[regs3 mem3] pw3] wu3] wbus3] cycle3]| |] eqn:Ed; try discriminate.
    apply drain_ge in Ed. apply finish5_ge in H. lia. }
  destruct (eo_flush o).
  { destruct (m4_drain _ _ _ _ _ _ _ _) as [[[[[[regs3 mem3] pw3] wu3] wbus3] cycle3]| |] eqn:Ed; try discriminate.
    apply drain_ge in Ed. apply IH in H. lia. }
  destruct (m5_is_complete _).
  - apply finish5_ge in H. lia.
  - apply IH in H. lia.
Qed.

Theorem mvp5_cycles_at_least_one fuel app labels st c st' :
  mvp5_run fuel app labels st = MDone c st' -> 1 <= c.
Proof.
  unfold mvp5_run. destruct (new_cache l1LineSize l1Size) as [ci| |]; try discriminate.
  intros H. apply m5run_cycles_ge in H. lia.
Qed.

(* ------------------------------------------------------------------ *)
(* skeleton runs and fuel                                               *)

Lemma sk5_run_more app : forall fuel k a path cyc c,
  sk5_run fuel app a path cyc = Some c -> sk5_run (fuel + k) app a path cyc = Some c.
Proof.
  induction fuel as [|f IH]; intros k a path cyc c H; [discriminate|]. cbn [sk5_run Nat.add] in *.
  destruct (sk5_cycle app a path) as [a' path' dc|dc|]; auto.
Qed.

Lemma m5run_more app labels : forall fuel k s cyc c st,
  m5run fuel app labels s cyc = MDone c st -> m5run (fuel + k) app labels s cyc = MDone c st.
Proof.
  induction fuel as [|f IH]; intros k s cyc c st H; [discriminate|]. cbn [m5run Nat.add] in *.
  destruct (fu5_cycle app (t_fu s) (t_l1i s) (t_dbus s)) as [[[fu1 l1i1] dbus1]| |]; try discriminate.
  destruct (du5_cycle app (t_du s) dbus1 (t_ebus s)) as [[[du1 dbus2] ebus1]| |]; try discriminate.
  destruct (eu5_cycle labels _ ebus1) as [[[[env1 ebus2] o]| |]|]; try discriminate.
  destruct (wu_cycle _ _ _ _ _) as [[[[[regs2 mem2] pw2] wu2] wbus2]| |]; try discriminate.
  destruct (eo_ret o); [exact H|].
  destruct (eo_flush o).
  { destruct (m4_drain _ _ _ _ _ _ _ _) as [[[[[[regs3 mem3] pw3] wu3] wbus3] cycle3]| |]; try discriminate.
    apply IH. exact H. }
  destruct (m5_is_complete _); [exact H|]. apply IH. exact H.
Qed.

Lemma mvp5_run_more app labels fuel k st c st' :
  mvp5_run fuel app labels st = MDone c st' -> mvp5_run (fuel + k) app labels st = MDone c st'.
Proof.
  unfold mvp5_run. destruct (new_cache l1LineSize l1Size) as [ci| |]; try discriminate. apply m5run_more.
Qed.

Section Top5.
  Variables (app : list instr) (labels : Z -> option Z).
  Hypothesis Happ : wf_app app.
  Hypothesis Hlab : wf_labels labels.
  Hypothesis Hreg : reg_only app = true.
  Let sp := map sinstr_of app.

  (* the model follows the skeleton for a whole run *)
  Lemma sim_run5 : forall fuel a head rest cyc s st stf c,
    R5 s a st -> F5 app head a -> path_wf app (head :: rest) -> sexec app labels st (head :: rest) stf ->
    sk5_run fuel app a (head :: rest) cyc = Some c ->
    m5run fuel app labels s cyc = MDone c stf.
  Proof.
    induction fuel as [|f IH]; intros a head rest cyc s st stf c HR HF Hwf HS H; [discriminate|].
    cbn [sk5_run] in H.
    pose proof (sim_step5 app labels Happ Hlab Hreg f a head rest cyc s st stf HR HF HS) as Hsim.
    destruct (sk5_cycle app a (head :: rest)) as [a' path' dc|dc|] eqn:Ec; [| |discriminate].
    - destruct Hsim as (s' & st1 & -> & HR' & HS').
      destruct (f5_step app Happ head rest a a' path' dc HF Hwf Ec) as (head' & rest' & -> & HF' & Hwf' & _).
      eapply IH; eassumption.
    - injection H as <-. exact Hsim.
  Qed.

  Lemma init_f5 c0 : IInv c0 -> F5 app 0 (sk5_init c0).
  Proof.
    intros HI. constructor; unfold aq;
      cbn [sk5_init k5_fu k5_du k5_l1i k5_dbus k5_ebus k5_eu k5_pw k5_wb k5_btb f5_processing eu_processing eu_pending_read
           q_eu q_sb sbus_empty sb_current sb_pending olist List.app map length];
      auto; try discriminate; try lia.
    - exists 0, O. split; [|split; [lia | intros _; lia]].
      constructor; cbn [to4 f5_complete f5_pc fu_complete fu_pc]; try discriminate; try lia; reflexivity.
    - constructor. constructor.
    - constructor.
  Qed.

  (* the run of the model as a function of the path; the fuel bound is the one of MVP-4 *)
  Theorem mvp5_run_path fuel st st' tr :
    inv (regs st) (mem st) -> (length (regs st) <= 32)%nat ->
    seq_run fuel sp labels st = Done st' tr ->
    path_below (seq_path fuel sp labels st 0) = true ->
    exists c, (forall fuel', (fuel_bound (length tr) <= fuel')%nat ->
                 mvp5_run fuel' app labels st = MDone c st' /\
                 mvp5_cost fuel' app (seq_path fuel sp labels st 0) = Some c) /\
              Z.of_nat (length tr) <= c <= 2 * Z.of_nat (fuel_bound (length tr)).
  Proof.
    intros [Hri _] Hlen Hrun Hb. unfold seq_run in Hrun.
    destruct (run_sexec app labels fuel st 0 [] st' tr Hrun) as (rest & Hp & HS & Hl).
    fold sp in Hp. rewrite Hp in *. pose proof (sexec_path_wf app labels Hreg _ _ _ HS Hb) as Hwf.
    destruct init_caches as (c0 & E0 & HI0 & _ & Hl0).
    pose proof (init_f5 c0 HI0) as HF0.
    cbn [length] in Hl.
    assert (Hrest : (length rest <= length tr)%nat) by lia.
    set (m := (Z.to_nat (phi5 (sk5_init c0)) + length rest * Kstep)%nat).
    pose proof (phi5_bounds app 0 _ HF0) as Hphi.
    assert (Hm : (m < fuel_bound (length tr))%nat).
    { unfold m, fuel_bound, Kstep in *.
      assert ((length rest * S (Z.to_nat phi_max) <= length tr * S (Z.to_nat phi_max))%nat) by (apply Nat.mul_le_mono_r; exact Hrest).
      lia. }
    destruct (sk5_run_term app Happ m rest (sk5_init c0) 0 0 (fuel_bound (length tr)) HF0 Hwf ltac:(lia) Hm) as (c & Hc & Hcb).
    exists c. split.
    - intros fuel' Hf'. replace fuel' with (fuel_bound (length tr) + (fuel' - fuel_bound (length tr)))%nat by lia.
      pose proof (sk5_run_more app _ (fuel' - fuel_bound (length tr)) _ _ _ _ Hc) as Hc'.
      split.
      + unfold mvp5_run. rewrite E0. eapply sim_run5; [| exact HF0 | exact Hwf | exact HS | exact Hc'].
        destruct st as [rg mm]. cbn [regs mem] in *.
        apply (R5_intro (sk5_init c0) rg c0 0 false 0 None (mk_arch rg mm)); auto; try discriminate.
      + unfold mvp5_cost. rewrite E0. exact Hc'.
    - cbn [length] in Hcb. split; [lia|]. lia.
  Qed.

  (* 1. C01: the pipeline computes the sequential result (registers AND memory),
     no error, no panic; explicit fuel *)
  Theorem mvp5_refines_seq_regonly fuel st st' tr :
    inv (regs st) (mem st) -> (length (regs st) <= 32)%nat ->
    seq_run fuel sp labels st = Done st' tr ->
    path_below (seq_path fuel sp labels st 0) = true ->
    exists c, forall fuel', (fuel_bound (length tr) <= fuel')%nat -> mvp5_run fuel' app labels st = MDone c st'.
  Proof.
    intros Hinv Hlen Hrun Hb. destruct (mvp5_run_path fuel st st' tr Hinv Hlen Hrun Hb) as (c & Hc & _).
    exists c. intros fuel' Hf. apply Hc. exact Hf.
  Qed.

  (* 2. whenever the model finishes (with whatever fuel), the result is the sequential
     one and at least one cycle per executed instruction was counted *)
  Theorem mvp5_cycles_lower_bound fuel st st' tr fuel' c st'' :
    inv (regs st) (mem st) -> (length (regs st) <= 32)%nat ->
    seq_run fuel sp labels st = Done st' tr ->
    path_below (seq_path fuel sp labels st 0) = true ->
    mvp5_run fuel' app labels st = MDone c st'' ->
    st'' = st' /\ 1 <= c /\ Z.of_nat (length tr) <= c.
  Proof.
    intros Hinv Hlen Hrun Hb H. destruct (mvp5_run_path fuel st st' tr Hinv Hlen Hrun Hb) as (c0 & Hc & Hlb).
    destruct (Hc (fuel' + fuel_bound (length tr))%nat ltac:(lia)) as [H0 _].
    rewrite (mvp5_run_more _ _ _ _ _ _ _ H) in H0. injection H0 as -> ->.
    split; [reflexivity|]. split; [|lia]. eapply mvp5_cycles_at_least_one. exact H.
  Qed.

  (* 3. C12: the cycle count is a function of the program and the path *)
  Theorem mvp5_cycles_function_of_path fuel st st' tr :
    inv (regs st) (mem st) -> (length (regs st) <= 32)%nat ->
    seq_run fuel sp labels st = Done st' tr ->
    path_below (seq_path fuel sp labels st 0) = true ->
    forall fuel', (fuel_bound (length tr) <= fuel')%nat ->
    exists c, mvp5_cost fuel' app (seq_path fuel sp labels st 0) = Some c /\
              mvp5_run fuel' app labels st = MDone c st'.
  Proof.
    intros Hinv Hlen Hrun Hb fuel' Hf. destruct (mvp5_run_path fuel st st' tr Hinv Hlen Hrun Hb) as (c & Hc & _).
    exists c. destruct (Hc fuel' Hf). auto.
  Qed.

  Theorem mvp5_value_independent fuel st1 st2 st1' st2' tr1 tr2 :
    inv (regs st1) (mem st1) -> (length (regs st1) <= 32)%nat ->
    inv (regs st2) (mem st2) -> (length (regs st2) <= 32)%nat ->
    seq_run fuel sp labels st1 = Done st1' tr1 ->
    seq_run fuel sp labels st2 = Done st2' tr2 ->
    seq_path fuel sp labels st1 0 = seq_path fuel sp labels st2 0 ->
    path_below (seq_path fuel sp labels st1 0) = true ->
    exists c, forall fuel', (fuel_bound (Nat.max (length tr1) (length tr2)) <= fuel')%nat ->
      mvp5_run fuel' app labels st1 = MDone c st1' /\ mvp5_run fuel' app labels st2 = MDone c st2'.
  Proof.
    intros I1 L1 I2 L2 R1 R2 Hp Hb.
    destruct (mvp5_run_path fuel st1 st1' tr1 I1 L1 R1 Hb) as (c1 & Hc1 & _).
    rewrite Hp in Hb. destruct (mvp5_run_path fuel st2 st2' tr2 I2 L2 R2 Hb) as (c2 & Hc2 & _).
    exists c1. intros fuel' Hf.
    assert (Hf1 : (fuel_bound (length tr1) <= fuel')%nat).
    { unfold fuel_bound in *. pose proof (Nat.le_max_l (length tr1) (length tr2)).
      assert (((length tr1 + 1) * Kstep <= (Nat.max (length tr1) (length tr2) + 1) * Kstep)%nat) by (apply Nat.mul_le_mono_r; lia). lia. }
    assert (Hf2 : (fuel_bound (length tr2) <= fuel')%nat).
    { unfold fuel_bound in *. pose proof (Nat.le_max_r (length tr1) (length tr2)).
      assert (((length tr2 + 1) * Kstep <= (Nat.max (length tr1) (length tr2) + 1) * Kstep)%nat) by (apply Nat.mul_le_mono_r; lia). lia. }
    destruct (Hc1 fuel' Hf1) as [H1 K1]. destruct (Hc2 fuel' Hf2) as [H2 K2].
    rewrite Hp in K1. rewrite K1 in K2. injection K2 as <-. auto.
  Qed.

  (* 4. C07: termination within a bound linear in the number of executed instructions,
     no panic, no error; the cycle count is bounded as well *)
  Theorem mvp5_terminates fuel st st' tr :
    inv (regs st) (mem st) -> (length (regs st) <= 32)%nat ->
    seq_run fuel sp labels st = Done st' tr ->
    path_below (seq_path fuel sp labels st 0) = true ->
    exists c, mvp5_run (fuel_bound (length tr)) app labels st = MDone c st' /\
              Z.of_nat (length tr) <= c <= 2 * Z.of_nat (fuel_bound (length tr)).
  Proof.
    intros Hinv Hlen Hrun Hb. destruct (mvp5_run_path fuel st st' tr Hinv Hlen Hrun Hb) as (c & Hc & Hcb).
    exists c. split; [apply Hc; lia | exact Hcb].
  Qed.

  Corollary mvp5_no_panic fuel st st' tr fuel' :
    inv (regs st) (mem st) -> (length (regs st) <= 32)%nat ->
    seq_run fuel sp labels st = Done st' tr ->
    path_below (seq_path fuel sp labels st 0) = true ->
    (fuel_bound (length tr) <= fuel')%nat ->
    mvp5_run fuel' app labels st <> MPanic /\ mvp5_run fuel' app labels st <> MOutOfFuel /\
    (forall e, mvp5_run fuel' app labels st <> MErr e).
  Proof.
    intros Hinv Hlen Hrun Hb Hf. destruct (mvp5_refines_seq_regonly fuel st st' tr Hinv Hlen Hrun Hb) as (c & Hc).
    rewrite (Hc fuel' Hf). repeat split; try discriminate.
  Qed.
End Top5.

(* ------------------------------------------------------------------ *)
(* the branch target buffer                                             *)

(* What the proof shows about a WRONG prediction (a jalr whose target changed since
   it was recorded): it is not corrected by a pipeline flush.  An unconditional jump
   found in the BTB never flushes (btbBranchUnit.assert clears toCheck), whatever the
   recorded target; executeUnit.run then always redirects the fetch unit to the
   RESOLVED target with cleanPending (notifyJumpAddressResolved), and since the
   decode unit has been stalled from the moment the jump was decoded, nothing
   fetched along the predicted path ever got past the decode latch. *)
Lemma mvp5_predicted_jump_never_flushes btb i pc t next :
  uncond i = true -> btb_get btb pc = Some t -> sk5_flush btb i pc next = false.
Proof. intros Hu Hb. unfold sk5_flush. rewrite Hu, Hb. reflexivity. Qed.

Lemma mvp5_unknown_jump_always_flushes btb i pc next :
  uncond i = true -> btb_get btb pc = None -> sk5_flush btb i pc next = true.
Proof. intros Hu Hb. unfold sk5_flush. rewrite Hu, Hb. reflexivity. Qed.

(* ------------------------------------------------------------------ *)
(* why the hypotheses are there (same witnesses as for MVP-4)           *)

(* path_below: a jump to an address in the last four bytes of the int32 range ends
   the sequential run, but the fetch unit fetches the target, its next pc wraps
   around, and the decode unit indexes the program with a negative number: panic *)
Theorem mvp5_exit_near_int32_max_panics_refuted :
  let p := [SJalr 0 0 2147483646] in
  wf_app (map instr_of p) /\ reg_only (map instr_of p) = true /\
  (exists st' tr, seq_run 10 (map sinstr_of (map instr_of p)) no_lab zero_state = Done st' tr) /\
  path_below (seq_path 10 (map sinstr_of (map instr_of p)) no_lab zero_state 0) = false /\
  mvp5_run 2000 (map instr_of p) no_lab zero_state = MPanic.
Proof.
  cbv zeta. split; [|split; [|split; [|split]]].
  - split; [|vm_compute; reflexivity]. repeat constructor; vm_compute; discriminate.
  - vm_compute. reflexivity.
  - (* lazy, not vm_compute: Z.to_nat (pc / 4) is a unary number of 2^29 successors *)
    do 2 eexists. lazy. reflexivity.
  - lazy. reflexivity.
  - vm_compute. reflexivity.
Qed.

(* the cycle count is a function of the PATH, not of the trace of executed pcs *)
Theorem mvp5_same_trace_different_cycles_refuted :
  let p := [SJalr 0 5 0] in
  exists st1' st2' tr,
    seq_run 10 (map sinstr_of (map instr_of p)) no_lab (state_x5 4) = Done st1' tr /\
    seq_run 10 (map sinstr_of (map instr_of p)) no_lab (state_x5 1000) = Done st2' tr /\
    mvp5_run 2000 (map instr_of p) no_lab (state_x5 4) = MDone 314 st1' /\
    mvp5_run 2000 (map instr_of p) no_lab (state_x5 1000) = MDone 622 st2'.
Proof. cbv zeta. do 3 eexists. repeat split; vm_compute; reflexivity. Qed.

(* programs WITH loads and stores: as for MVP-4, the unrestricted statement of C01 is
   false for the faithful model ("cold-store-then-load") *)
Theorem mvp5_cold_store_then_load_refuted :
  let p := [SLi 5 7; SSw 5 0 0; SSw 5 128 0; SSw 5 64 0; SLw 6 64 0; SRet] in
  let st := mk_arch (repeat 0 32) (repeat 0 256) in
  exists st' tr c st5,
    seq_run 20 p no_lab st = Done st' tr /\
    mvp5_run 5000 (map instr_of p) no_lab st = MDone c st5 /\
    rget (regs st') 6 = 7 /\ mget (mem st') 64 = 7 /\
    rget (regs st5) 6 = 0 /\ mget (mem st5) 64 = 0.
Proof. cbv zeta. do 4 eexists. split; [vm_compute; reflexivity|]. split; [vm_compute; reflexivity|]. vm_compute. repeat split; reflexivity. Qed.

(* why (length (regs st) <= 32) is a hypothesis: the scoreboard has 32 entries *)
Theorem mvp5_more_than_32_registers_refuted :
  let p := [SLi 35 7; SAddi 36 35 1; SRet] in
  let st := mk_arch (repeat 0 40) (repeat 0 64) in
  exists st' tr c st5,
    seq_run 10 p no_lab st = Done st' tr /\
    mvp5_run 2000 (map instr_of p) no_lab st = MDone c st5 /\
    nth 36 (regs st') 0 = 8 /\ nth 36 (regs st5) 0 = 1.
Proof. cbv zeta. do 4 eexists. split; [vm_compute; reflexivity|]. split; [vm_compute; reflexivity|]. vm_compute. split; reflexivity. Qed.
