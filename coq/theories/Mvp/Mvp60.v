(* H: faithful cycle-level model of proc/mvp6-0 (the first superscalar variant):
     cpu.go  Run loop, flush, isEmpty            -> step6 (front6, back6, drain6), run6_st, mvp60_run
     fu.go   fetch unit (coroutine)              -> fu_cycle6, co_fetch
     du.go   decode unit                         -> du_cycle6
     cu.go   control unit (in-order dispatch,    -> cu_cycle6, handle_runner
             scoreboard hazards, pending queue)
     eu.go   execute units (coroutines)          -> eu_cycle6, eu_prepare6, eu_fill6, eu_run6, eu_run_exe
     wu.go   write units (coroutine)             -> wu_cycle6
     bu.go / btb.go  branch unit + 4-entry BTB   -> bu_assert6, bu_should_flush6 (BTB of Mvp5.v)
     mmu.go  L1I, L3 (LRUCache), pendings        -> get_from_l3, push_line_to_l3, fetch_line_at
   over comp.BufferedBus (polymorphic copy of Comp/Bus.v, prefix bb_), comp.Queue (the
   pending queue of the control unit; a list, see cu_pending), comp.LRUCache
   (Comp/Cache.v), the scoreboard of risc/app.go (prefix sb_, same functions as
   Comp/Scoreboard.v on 32-entry lists) and the generated instruction model.

   The code is modelled AS IT IS.  One Gallina step (step6) per call of
   ctx.VerifTick(), i.e. per iteration of ANY loop of Run (the main loop, the
   drain loop after ret, the write-back loop before a flush): fuel = tick budget.
   Every coroutine is an explicit state machine (fu_co, eu_co, wu_co).

   Go map iteration.  The only iteration whose order can matter is the one over
   execution.MemoryChanges in mmu.doesExecutionMemoryChangesExistsInL3 (a store
   that reaches coRun): getFromL3 is called with the store's addresses in map
   order; it stops at the first address that misses L3 and, when that address is
   in no pending range, appends [addr, addr+65) to mmu.pendings - so WHICH range
   is appended depends on the order - and the LRU order of L3 after the hits
   before it depends on it too.  The order is the explicit argument `ord`:
   ord cycle pc keys = the order in which the map of the store at pc, executed
   in that cycle, is iterated (keys = its addresses in ascending order); every
   store execution may get a different order, as in Go.  Context.WriteMemory also
   ranges over the map, but its effect is order-independent (distinct keys; an
   out-of-range key panics whatever the order).

   Ghost flag (first component of eu_res / s_os, "order-sensitive"): set when
   some executed store's lookup ends in a different state (L3, mmu.pendings,
   exists/pending answer) for two different iteration orders of its keys.  It
   influences nothing; a run that ends with the flag clear is the same for
   EVERY `ord` (Mvp60Proofs.v, run6_ord_irrelevant), i.e. the Go side is
   deterministic on it.

   No proofs in this file. *)
From Coq Require Import ZArith List Bool Lia.
From Maj Require Import Base.Outcome Base.GoInt Base.GoTypes Isa.Spec Isa.Seq.
From Maj Require Import Gen.Latency Gen.RiscTables Gen.Opcodes Comp.Cache Mvp.Mvp12 Mvp.Mvp3 Mvp.Mvp5.
Import ListNotations.
Open Scope Z_scope.

(* ------------------------------------------------------------------ *)
(* comp.BufferedBus[T] (Comp/Bus.v, made polymorphic)                   *)
(* ------------------------------------------------------------------ *)

Record bbus (T : Type) := mk_bb { bb_buf : list (Z * T); bb_q : list T; bb_ql : Z; bb_bl : Z }.
Arguments mk_bb {T}. Arguments bb_buf {T}. Arguments bb_q {T}. Arguments bb_ql {T}. Arguments bb_bl {T}.

Definition bb_new {T} (queueLength bufferLength : Z) : bbus T := mk_bb [] [] queueLength bufferLength.
Definition bb_clean {T} (b : bbus T) : bbus T := mk_bb [] [] (bb_ql b) (bb_bl b).
(* Add never checks CanAdd *)
Definition bb_add {T} (b : bbus T) (t : T) (cycle : Z) : bbus T :=
  mk_bb (bb_buf b ++ [(cycle + 1, t)]) (bb_q b) (bb_ql b) (bb_bl b).
Definition bb_get {T} (b : bbus T) : bbus T * option T :=
  match bb_q b with
  | [] => (b, None)
  | e :: q => (mk_bb (bb_buf b) q (bb_ql b) (bb_bl b), Some e)
  end.
Definition bb_canadd {T} (b : bbus T) : bool := negb (zlen (bb_buf b) =? bb_bl b).
Definition bb_remaining {T} (b : bbus T) : Z := bb_bl b - zlen (bb_buf b).
Definition bb_isempty {T} (b : bbus T) : bool := (zlen (bb_q b) =? 0) && (zlen (bb_buf b) =? 0).
Fixpoint bb_connect_loop {T} (ql c : Z) (q : list T) (buf : list (Z * T)) : list T * list (Z * T) :=
  match buf with
  | [] => (q, [])
  | (a, t) :: buf' =>
      if zlen q =? ql then (q, buf)
      else if a >? c then (q, buf)
      else bb_connect_loop ql c (q ++ [t]) buf'
  end.
Definition bb_connect {T} (b : bbus T) (c : Z) : bbus T :=
  if zlen (bb_q b) =? bb_ql b then b
  else let '(q, buf) := bb_connect_loop (bb_ql b) c (bb_q b) (bb_buf b) in
       mk_bb buf q (bb_ql b) (bb_bl b).

(* ------------------------------------------------------------------ *)
(* state                                                                *)
(* ------------------------------------------------------------------ *)

(* risc.InstructionRunnerPc; SequenceID = pc + ctx.sequenceID*1000 and MVP-6.0
   never calls IncSequenceID, so it is the pc *)
Record runner := mk_runner { r_instr : instr; r_pc : Z; r_seq : Z }.
(* risc.ExecutionContext (InstructionType is only logged) *)
Record wb6 := mk_wb6 { w_seq : Z; w_exe : execution; w_reads : list Z; w_writes : list Z }.

(* fetchUnit.coroutine: nil | the "pending memory access" closure | the empty closure *)
Inductive fu_co := FNone | FWait | FDone.
Record fu6 := mk_fu6 { f_pc : Z; f_clean : bool; f_complete : bool; f_co : fu_co; f_rem : Z }.

Record bu6 := mk_bu6 { b_check : bool; b_expect : Z; b_btb : list (Z * Z) }.

(* executeUnit.coroutine: nil | coPrepareRun | L3-hit wait closure (remainingCycles) |
   memory wait closure (remainingCycles, captured addrs) *)
Inductive eu_co := ENone | EPrepare | EWaitL3 (rem : Z) | EWaitMem (rem : Z) (addrs : list Z).
Record eu6 := mk_eu6 { e_co : eu_co; e_memory : list Z; e_runner : option runner }.

(* writeUnit.coroutine: nil | pending memory write (remainingCycle) *)
Inductive wu_co := WNone | WMem (rem : Z).
Record wu6 := mk_wu6 { u_co : wu_co; u_mw : option wb6 }.

(* everything the units share: ctx (registers, memory, scoreboard), mmu, fetch
   unit, decode unit flags, control-unit queue, branch unit, the four buses *)
Record mach := mk_mach {
  m_regs : list Z; m_mem : list Z; m_pw : list Z; m_pr : list Z;
  m_l1i : cache; m_l3 : cache; m_pend : list (Z * Z);
  m_fu : fu6; m_dret : bool; m_dpbr : bool; m_cu : list runner; m_bu : bu6;
  m_dbus : bbus Z; m_cbus : bbus runner; m_ebus : bbus runner; m_wbus : bbus wb6 }.

Definition set_regs (m : mach) (x : list Z) : mach :=
  mk_mach x (m_mem m) (m_pw m) (m_pr m) (m_l1i m) (m_l3 m) (m_pend m) (m_fu m) (m_dret m) (m_dpbr m) (m_cu m) (m_bu m) (m_dbus m) (m_cbus m) (m_ebus m) (m_wbus m).
Definition set_mem (m : mach) (x : list Z) : mach :=
  mk_mach (m_regs m) x (m_pw m) (m_pr m) (m_l1i m) (m_l3 m) (m_pend m) (m_fu m) (m_dret m) (m_dpbr m) (m_cu m) (m_bu m) (m_dbus m) (m_cbus m) (m_ebus m) (m_wbus m).
Definition set_sb (m : mach) (pw pr : list Z) : mach :=
  mk_mach (m_regs m) (m_mem m) pw pr (m_l1i m) (m_l3 m) (m_pend m) (m_fu m) (m_dret m) (m_dpbr m) (m_cu m) (m_bu m) (m_dbus m) (m_cbus m) (m_ebus m) (m_wbus m).
Definition set_l1i (m : mach) (x : cache) : mach :=
  mk_mach (m_regs m) (m_mem m) (m_pw m) (m_pr m) x (m_l3 m) (m_pend m) (m_fu m) (m_dret m) (m_dpbr m) (m_cu m) (m_bu m) (m_dbus m) (m_cbus m) (m_ebus m) (m_wbus m).
Definition set_l3 (m : mach) (x : cache) (p : list (Z * Z)) : mach :=
  mk_mach (m_regs m) (m_mem m) (m_pw m) (m_pr m) (m_l1i m) x p (m_fu m) (m_dret m) (m_dpbr m) (m_cu m) (m_bu m) (m_dbus m) (m_cbus m) (m_ebus m) (m_wbus m).
Definition set_fu (m : mach) (x : fu6) : mach :=
  mk_mach (m_regs m) (m_mem m) (m_pw m) (m_pr m) (m_l1i m) (m_l3 m) (m_pend m) x (m_dret m) (m_dpbr m) (m_cu m) (m_bu m) (m_dbus m) (m_cbus m) (m_ebus m) (m_wbus m).
Definition set_du (m : mach) (ret pbr : bool) : mach :=
  mk_mach (m_regs m) (m_mem m) (m_pw m) (m_pr m) (m_l1i m) (m_l3 m) (m_pend m) (m_fu m) ret pbr (m_cu m) (m_bu m) (m_dbus m) (m_cbus m) (m_ebus m) (m_wbus m).
Definition set_cu (m : mach) (x : list runner) : mach :=
  mk_mach (m_regs m) (m_mem m) (m_pw m) (m_pr m) (m_l1i m) (m_l3 m) (m_pend m) (m_fu m) (m_dret m) (m_dpbr m) x (m_bu m) (m_dbus m) (m_cbus m) (m_ebus m) (m_wbus m).
Definition set_bu (m : mach) (x : bu6) : mach :=
  mk_mach (m_regs m) (m_mem m) (m_pw m) (m_pr m) (m_l1i m) (m_l3 m) (m_pend m) (m_fu m) (m_dret m) (m_dpbr m) (m_cu m) x (m_dbus m) (m_cbus m) (m_ebus m) (m_wbus m).
Definition set_dbus (m : mach) (x : bbus Z) : mach :=
  mk_mach (m_regs m) (m_mem m) (m_pw m) (m_pr m) (m_l1i m) (m_l3 m) (m_pend m) (m_fu m) (m_dret m) (m_dpbr m) (m_cu m) (m_bu m) x (m_cbus m) (m_ebus m) (m_wbus m).
Definition set_cbus (m : mach) (x : bbus runner) : mach :=
  mk_mach (m_regs m) (m_mem m) (m_pw m) (m_pr m) (m_l1i m) (m_l3 m) (m_pend m) (m_fu m) (m_dret m) (m_dpbr m) (m_cu m) (m_bu m) (m_dbus m) x (m_ebus m) (m_wbus m).
Definition set_ebus (m : mach) (x : bbus runner) : mach :=
  mk_mach (m_regs m) (m_mem m) (m_pw m) (m_pr m) (m_l1i m) (m_l3 m) (m_pend m) (m_fu m) (m_dret m) (m_dpbr m) (m_cu m) (m_bu m) (m_dbus m) (m_cbus m) x (m_wbus m).
Definition set_wbus (m : mach) (x : bbus wb6) : mach :=
  mk_mach (m_regs m) (m_mem m) (m_pw m) (m_pr m) (m_l1i m) (m_l3 m) (m_pend m) (m_fu m) (m_dret m) (m_dpbr m) (m_cu m) (m_bu m) (m_dbus m) (m_cbus m) (m_ebus m) x.

Definition nlen6 (app : list instr) : Z := Z.of_nat (length app).

(* ------------------------------------------------------------------ *)
(* scoreboard (risc/app.go): PendingWriteRegisters / PendingReadRegisters *)
(* as 32-entry lists; an absent key reads 0, delete = set 0              *)
(* ------------------------------------------------------------------ *)

Definition sb_get (p : list Z) (r : Z) : Z := nth (Z.to_nat r) p 0.
Definition sb_set (p : list Z) (r v : Z) : list Z := Seq.upd p (Z.to_nat r) v.
(* for _, register := range rs { if register == Zero { continue }; m[register]++ } *)
Fixpoint sb_incr (p : list Z) (rs : list Z) : list Z :=
  match rs with
  | [] => p
  | r :: t => if r =? 0 then sb_incr p t else sb_incr (sb_set p r (sb_get p r + 1)) t
  end.
(* m[register]--; if m[register] <= 0 { delete(m, register) } *)
Fixpoint sb_decr (p : list Z) (rs : list Z) : list Z :=
  match rs with
  | [] => p
  | r :: t => if r =? 0 then sb_decr p t
              else sb_decr (sb_set p r (if sb_get p r - 1 <=? 0 then 0 else sb_get p r - 1)) t
  end.
(* ctx.AddPendingRegisters(runner) *)
Definition add_pending6 (m : mach) (reads writes : list Z) : mach :=
  set_sb m (sb_incr (m_pw m) writes) (sb_incr (m_pr m) reads).
(* ctx.DeletePendingRegisters(readRegisters, writeRegisters) *)
Definition del_pending6 (m : mach) (reads writes : list Z) : mach :=
  set_sb m (sb_decr (m_pw m) writes) (sb_decr (m_pr m) reads).
(* len(hazards) != 0 for hazards, _ := ctx.IsDataHazard3(runner) *)
Definition has_hazard6 (m : mach) (reads writes : list Z) : bool :=
  existsb (fun r => negb (r =? 0) && (0 <? sb_get (m_pw m) r)) reads ||
  existsb (fun w => negb (w =? 0) && ((0 <? sb_get (m_pw m) w) || (0 <? sb_get (m_pr m) w))) writes.
Definition zero_sb : list Z := repeat 0 32.

(* ------------------------------------------------------------------ *)
(* mmu.go                                                               *)
(* ------------------------------------------------------------------ *)

Definition l3LineSize : Z := 64.     (* l3CacheLineSize = l1ICacheLineSize *)
Definition l3Size : Z := 1024.       (* l3CacheSize = l1ICacheSize *)

Inductive l3res := L3Pending | L3Miss | L3Hit (bytes : list Z).

(* getFromL3(addrs): (memory, pending, exists).  The first address that misses
   decides: inside a pending range -> pending; otherwise the range
   [addr, addr+l3CacheLineSize+1) is appended to u.pendings -> miss. *)
Fixpoint get_from_l3 (c : cache) (pend : list (Z * Z)) (addrs acc : list Z)
  : outcome (cache * list (Z * Z) * l3res) :=
  match addrs with
  | [] => Ok (c, pend, L3Hit (rev acc))
  | a :: t =>
      r <- get c a ;;
      match r with
      | (c', Some v) => get_from_l3 c' pend t (v :: acc)
      | (c', None) =>
          if existsb (fun p => (fst p <=? a) && (a <? snd p)) pend then Ok (c', pend, L3Pending)
          else Ok (c', pend ++ [(a, addS 32 a (l3LineSize + 1))], L3Miss)
      end
  end.

(* fetchCacheLine(addr): 64 bytes from addr itself (NOT aligned); bytes past
   the end of memory read as 0; a negative index is a Go panic *)
Definition fetch_line_at (mem : list Z) (addr : Z) : outcome (list Z) :=
  if addr <? 0 then Panic
  else Ok (map (fun i => let a := addr + Z.of_nat i in
                         if a <? Z.of_nat (length mem) then nth (Z.to_nat a) mem 0 else 0)
               (seq 0 (Z.to_nat l3LineSize))).

(* the loop of pushLineToL3 that drops the first pending range starting at addr *)
Fixpoint remove_pending (p : list (Z * Z)) (addr : Z) : list (Z * Z) :=
  match p with
  | [] => []
  | x :: t => if fst x =? addr then t else x :: remove_pending t addr
  end.

(* pushLineToL3(addr, line): when PushLine displaced a line, the INCOMING line
   is written to memory at addr; the displaced line's data is dropped *)
Definition push_line_to_l3 (c : cache) (pend : list (Z * Z)) (mem : list Z) (addr : Z) (ln : list Z)
  : outcome (cache * list (Z * Z) * list Z) :=
  r <- push_line c addr ln ;;
  let pend' := remove_pending pend addr in
  match snd r with
  | None => Ok (fst r, pend', mem)
  | Some ev =>
      if zlen ev =? 0 then Ok (fst r, pend', mem)
      else mem' <- write_to_memory mem addr ln ;; Ok (fst r, pend', mem')
  end.

(* ------------------------------------------------------------------ *)
(* fu.go                                                                *)
(* ------------------------------------------------------------------ *)

(* reset(pc, cleanPending=true) - every caller passes true; complete is cleared
   (since commit cb87a51) *)
Definition fu_reset6 (f : fu6) (pc : Z) : fu6 := mk_fu6 pc true false FNone (f_rem f).
(* flush(pc): toCleanPending is NOT reset *)
Definition fu_flush6 (f : fu6) (pc : Z) : fu6 := mk_fu6 pc (f_clean f) false FNone (f_rem f).

(* currentPc := u.pc; u.pc += 4; if u.pc/4 >= len { coroutine = empty closure; complete = true };
   outBus.Add(currentPc, cycle) *)
Definition fu_push (app : list instr) (cycle : Z) (f : fu6) (dbus : bbus Z) : fu6 * bbus Z :=
  let pc' := addS 32 (f_pc f) 4 in
  let fin := nlen6 app <=? Z.quot pc' 4 in
  (mk_fu6 pc' (f_clean f) (f_complete f || fin) (if fin then FDone else f_co f) (f_rem f),
   bb_add dbus (f_pc f) cycle).

(* coFetch: for i := 0; i < outBus.OutLength(); i++ { ... } *)
Fixpoint co_fetch (n : nat) (app : list instr) (cycle : Z) (f : fu6) (l1i : cache) (dbus : bbus Z)
  : outcome (fu6 * cache * bbus Z) :=
  match n with
  | O => Ok (f, l1i, dbus)
  | S n' =>
      if negb (bb_canadd dbus) then Ok (f, l1i, dbus) else
      g <- get_all l1i [f_pc f] [] ;;
      match g with
      | (c1, None) => Ok (mk_fu6 (f_pc f) (f_clean f) (f_complete f) FWait (MemoryAccess - 1), c1, dbus)
      | (c1, Some _) => let '(f1, dbus1) := fu_push app cycle f dbus in co_fetch n' app cycle f1 c1 dbus1
      end
  end.

(* fetchUnit.cycle *)
Definition fu_cycle6 (app : list instr) (cycle : Z) (f : fu6) (l1i : cache) (dbus : bbus Z)
  : outcome (fu6 * cache * bbus Z) :=
  let dbus := if f_clean f then bb_clean dbus else dbus in
  let f := mk_fu6 (f_pc f) false (f_complete f) (f_co f) (f_rem f) in
  match f_co f with
  | FDone => Ok (f, l1i, dbus)
  | FWait =>
      if negb (f_rem f =? 0) then Ok (mk_fu6 (f_pc f) false (f_complete f) FWait (f_rem f - 1), l1i, dbus)
      else
        p <- push_line l1i (f_pc f) (repeat 0 (Z.to_nat l1LineSize)) ;;
        let '(f1, dbus1) := fu_push app cycle (mk_fu6 (f_pc f) false (f_complete f) FNone (f_rem f)) dbus in
        Ok (f1, fst p, dbus1)
  | FNone => co_fetch (Z.to_nat (bb_bl dbus)) app cycle f l1i dbus
  end.

(* ------------------------------------------------------------------ *)
(* du.go                                                                *)
(* ------------------------------------------------------------------ *)

(* the for loop of decodeUnit.cycle, over the queue of the decode bus (every
   iteration takes its head); returns (ret, pendingBranchResolution, rest of the queue, control bus).
   outBus.CanAdd() is only logged: the control-bus buffer may grow past its length. *)
Fixpoint du_loop (q : list Z) (app : list instr) (cycle : Z) (ret pbr : bool) (cbus : bbus runner)
  : outcome (bool * bool * list Z * bbus runner) :=
  match q with
  | [] => Ok (ret, pbr, [], cbus)
  | pc :: q' =>
      if nlen6 app <=? Z.quot pc 4 then Ok (ret, pbr, q', cbus)
      else if Z.quot pc 4 <? 0 then Panic
      else match nth_error app (Z.to_nat (Z.quot pc 4)) with
           | None => Panic
           | Some i =>
               let ty := instr_InstructionType i in
               let jump := InstructionType_IsUnconditionalBranch ty in
               let cbus' := bb_add cbus (mk_runner i pc pc) cycle in
               if jump then Ok (ret, true, q', cbus')
               else if ty =? Ret then Ok (true, pbr, q', cbus')
               else du_loop q' app cycle ret pbr cbus'
           end
  end.

(* decodeUnit.cycle *)
Definition du_cycle6 (app : list instr) (cycle : Z) (m : mach) : outcome mach :=
  if m_dret m then Ok m
  else if m_dpbr m then Ok m
  else
    r <- du_loop (bb_q (m_dbus m)) app cycle (m_dret m) (m_dpbr m) (m_cbus m) ;;
    let '(ret, pbr, q', cbus') := r in
    let d := m_dbus m in
    Ok (set_cbus (set_dbus (set_du m ret pbr) (mk_bb (bb_buf d) q' (bb_ql d) (bb_bl d))) cbus').

(* ------------------------------------------------------------------ *)
(* cu.go                                                                *)
(* ------------------------------------------------------------------ *)

Definition pendingLength : Z := 10.

(* handleRunner + pushRunner: (push, stop) and the machine after the push *)
Definition handle_runner (m : mach) (cycle : Z) (pushed : Z) (r : runner) : bool * bool * mach :=
  let ty := instr_InstructionType (r_instr r) in
  if (ty =? Ret) && negb (bb_isempty (m_ebus m)) then (false, true, m)
  else if (0 <? pushed) && InstructionType_IsBranch ty then (false, true, m)
  else
    let reads := instr_ReadRegisters (r_instr r) in
    let writes := instr_WriteRegisters (r_instr r) in
    if has_hazard6 m reads writes then (false, true, m)
    else (true, false, add_pending6 (set_ebus m (bb_add (m_ebus m) r cycle)) reads writes).

(* for elem := range u.pendings.Iterator(): the snapshot of the queue at the
   call, in order (Comp/Queue.v); a pushed element is removed from the queue.
   Returns (stopped, remaining, pushed, queue afterwards, machine). *)
Fixpoint cu_pending (ps kept : list runner) (m : mach) (cycle remaining pushed : Z)
  : bool * Z * Z * list runner * mach :=
  match ps with
  | [] => (false, remaining, pushed, rev kept, m)
  | r :: t =>
      let '(push, stop, m1) := handle_runner m cycle pushed r in
      let kept' := if push then kept else r :: kept in
      let remaining' := if push then remaining - 1 else remaining in
      let pushed' := if push then pushed + 1 else pushed in
      if stop then (true, remaining', pushed', rev kept' ++ t, m1)
      else cu_pending t kept' m1 cycle remaining' pushed'
  end.

(* for remaining > 0 && !u.pendings.IsFull() { runner, exists := u.inBus.Get(); ... },
   over the queue of the control bus; returns (rest of that queue, pendings, machine) *)
Fixpoint cu_incoming (q : list runner) (pend : list runner) (m : mach) (cycle remaining pushed : Z)
  : list runner * list runner * mach :=
  if negb ((0 <? remaining) && negb (pendingLength <=? zlen pend)) then (q, pend, m) else
  match q with
  | [] => (q, pend, m)
  | r :: q' =>
      let '(push, stop, m1) := handle_runner m cycle pushed r in
      let pend' := if push then pend else pend ++ [r] in
      if stop then (q', pend', m1)
      else cu_incoming q' pend' m1 cycle (if push then remaining - 1 else remaining) (if push then pushed + 1 else pushed)
  end.

(* controlUnit.cycle *)
Definition cu_cycle6 (cycle : Z) (m : mach) : mach :=
  if negb (bb_canadd (m_ebus m)) then m else
  let remaining := bb_remaining (m_ebus m) in
  let '(stopped, remaining1, pushed1, pend1, m1) := cu_pending (m_cu m) [] m cycle remaining 0 in
  if stopped then set_cu m1 pend1 else
  let '(q', pend2, m2) := cu_incoming (bb_q (m_cbus m1)) pend1 m1 cycle remaining1 pushed1 in
  let c := m_cbus m2 in
  set_cu (set_cbus m2 (mk_bb (bb_buf c) q' (bb_ql c) (bb_bl c))) pend2.

(* ------------------------------------------------------------------ *)
(* bu.go                                                                *)
(* ------------------------------------------------------------------ *)

(* btbBranchUnit.assert: ONE toCheck/expectation pair shared by all execute units *)
Definition bu_assert6 (m : mach) (r : runner) : mach :=
  let ty := instr_InstructionType (r_instr r) in
  let b := m_bu m in
  if InstructionType_IsUnconditionalBranch ty then
    match btb_get (b_btb b) (r_pc r) with
    | None => set_bu m (mk_bu6 true (-1) (b_btb b))
    | Some nextPc => set_fu (set_bu m (mk_bu6 false (b_expect b) (b_btb b))) (fu_reset6 (m_fu m) nextPc)
    end
  else if InstructionType_IsConditionalBranch ty then
    set_bu m (mk_bu6 true (addS 32 (r_pc r) 4) (b_btb b))
  else set_bu m (mk_bu6 false (b_expect b) (b_btb b)).

Definition bu_should_flush6 (b : bu6) (pc : Z) : bu6 * bool :=
  if negb (b_check b) then (b, false)
  else (mk_bu6 false (b_expect b) (b_btb b), negb (b_expect b =? pc)).

(* notifyJumpAddressResolved(pc, pcTo): btb.add, fu.reset(pcTo, true), du.notifyBranchResolved() *)
Definition bu_resolved6 (m : mach) (pc pcTo : Z) : mach :=
  let b := m_bu m in
  set_du (set_fu (set_bu m (mk_bu6 (b_check b) (b_expect b) (btb_add (b_btb b) pc pcTo)))
                 (fu_reset6 (m_fu m) pcTo))
         (m_dret m) false.

(* ------------------------------------------------------------------ *)
(* eu.go                                                                *)
(* ------------------------------------------------------------------ *)

(* (flush, from, pc, ret) returned by executeUnit.cycle *)
Record eu_out6 := mk_euo6 { o_flush : bool; o_from : Z; o_pc : Z; o_ret : bool }.
Definition euo_none : eu_out6 := mk_euo6 false 0 0 false.

(* what one call of executeUnit.cycle produces: the ghost flag (see the header)
   and the outcome proper *)
Definition eu_res : Type := bool * outcome (mach * eu6 * eu_out6).
Definition quiet (o : outcome (mach * eu6 * eu_out6)) : eu_res := (false, o).

(* ---- ghost: does the iteration order of a store's keys matter here? ---- *)
Fixpoint take_nth (n : nat) (l : list Z) : option (Z * list Z) :=
  match l, n with
  | [], _ => None
  | x :: t, O => Some (x, t)
  | x :: t, S n' => match take_nth n' t with Some (y, r) => Some (y, x :: r) | None => None end
  end.
(* the k-th permutation of l (factorial number system); k = 0 is l itself *)
Fixpoint nth_perm (fuel : nat) (k : Z) (l : list Z) : list Z :=
  match fuel with
  | O => []
  | S f =>
      match l with
      | [] => []
      | _ => let n := zlen l in
             match take_nth (Z.to_nat (k mod n)) l with
             | Some (x, r) => x :: nth_perm f (k / n) r
             | None => []
             end
      end
  end.
Definition perm_of (k : Z) (l : list Z) : list Z := nth_perm (length l) k l.
Fixpoint fact (n : nat) : nat := match n with O => 1%nat | S k => (n * fact k)%nat end.
(* all the orders a map with these keys can be iterated in *)
Definition all_orders (keys : list Z) : list (list Z) :=
  map (fun k => perm_of (Z.of_nat k) keys) (seq 0 (fact (length keys))).

Fixpoint zlist_eqb (a b : list Z) : bool :=
  match a, b with
  | [], [] => true
  | x :: a', y :: b' => (x =? y) && zlist_eqb a' b'
  | _, _ => false
  end.
Definition line_eqb (a b : line) : bool := (lo a =? lo b) && (hi a =? hi b) && zlist_eqb (data a) (data b).
Fixpoint lines_eqb (a b : list line) : bool :=
  match a, b with
  | [], [] => true
  | x :: a', y :: b' => line_eqb x y && lines_eqb a' b'
  | _, _ => false
  end.
Definition cache_eqb (a b : cache) : bool :=
  (nlines a =? nlines b) && (llen a =? llen b) && lines_eqb (lines a) (lines b).
Fixpoint pend_eqb (a b : list (Z * Z)) : bool :=
  match a, b with
  | [], [] => true
  | x :: a', y :: b' => (fst x =? fst y) && (snd x =? snd y) && pend_eqb a' b'
  | _, _ => false
  end.
(* two lookups leave the same L3, the same pendings and the same exists/pending answer
   (the bytes of a hit are not used by doesExecutionMemoryChangesExistsInL3) *)
Definition l3_same (r1 r2 : outcome (cache * list (Z * Z) * l3res)) : bool :=
  match r1, r2 with
  | Ok (c1, p1, res1), Ok (c2, p2, res2) =>
      cache_eqb c1 c2 && pend_eqb p1 p2 &&
      match res1, res2 with
      | L3Pending, L3Pending | L3Miss, L3Miss | L3Hit _, L3Hit _ => true
      | _, _ => false
      end
  | Panic, Panic => true
  | _, _ => false
  end.
Definition store_order_matters (c : cache) (pend : list (Z * Z)) (keys : list Z) : bool :=
  negb (forallb (fun o => l3_same (get_from_l3 c pend o []) (get_from_l3 c pend keys [])) (all_orders keys)).

(* coRun after Runner.Run returned exe without error.  ord = iteration order of the Go map
   execution.MemoryChanges *)
Definition eu_run_exe (ord : Z -> Z -> list Z -> list Z) (cycle : Z) (m : mach) (e : eu6) (r : runner) (exe : execution)
  : outcome (mach * eu6 * eu_out6) :=
  let i := r_instr r in
  let e0 := mk_eu6 ENone (e_memory e) (e_runner e) in
  if Return exe then Ok (m, e0, mk_euo6 false 0 0 true) else
  let reads := instr_ReadRegisters i in
  let writes := instr_WriteRegisters i in
  (* execution.MemoryChange && doesExecutionMemoryChangesExistsInL3 -> writeExecutionMemoryChangesToL3 *)
  let keys := map fst (sort_changes (MemoryChanges exe)) in
  st <- (if MemoryChange exe then
           g <- get_from_l3 (m_l3 m) (m_pend m) (ord cycle (r_pc r) keys) [] ;;
           let '(c1, p1, res) := g in
           match res with
           | L3Hit _ =>
               match sort_changes (MemoryChanges exe) with
               | [] => Panic                       (* changes[0] on an empty slice *)
               | (a0, _) :: _ =>
                   c2 <- write c1 a0 (map snd (sort_changes (MemoryChanges exe))) ;;
                   Ok (set_l3 m c2 p1, true)
               end
           | _ => Ok (set_l3 m c1 p1, false)
           end
         else Ok (m, false)) ;;
  let '(m1, in_l3) := st in
  if in_l3 then Ok (del_pending6 m1 reads writes, e0, euo_none) else
  let m2 := set_wbus m1 (bb_add (m_wbus m1) (mk_wb6 (r_seq r) exe reads writes) cycle) in
  let m3 := if InstructionType_IsUnconditionalBranch (instr_InstructionType i)
            then bu_resolved6 m2 (r_pc r) (NextPc exe) else m2 in
  if PcChange exe then
    let '(b', fl) := bu_should_flush6 (m_bu m3) (NextPc exe) in
    Ok (set_bu m3 b', e0, if fl then mk_euo6 true (r_pc r) (NextPc exe) false else euo_none)
  else Ok (m3, e0, euo_none).

(* coRun *)
Definition eu_run6 (labels : Z -> option Z) (ord : Z -> Z -> list Z -> list Z) (cycle : Z) (m : mach) (e : eu6)
  : eu_res :=
  match e_runner e with
  | None => quiet Panic
  | Some r =>
      match instr_Run (r_instr r) (rget (m_regs m)) labels (r_pc r) (e_memory e) 0 with
      | Ok exe =>
          (negb (Return exe) && MemoryChange exe &&
           store_order_matters (m_l3 m) (m_pend m) (map fst (sort_changes (MemoryChanges exe))),       (* ghost *)
           eu_run_exe ord cycle m e r exe)
      | Err er => quiet (Err er)
      | Panic => quiet Panic
      end
  end.

(* coPrepareRun *)
Definition eu_prepare6 (labels : Z -> option Z) (ord : Z -> Z -> list Z -> list Z) (cycle : Z) (m : mach) (e : eu6)
  : eu_res :=
  if negb (bb_canadd (m_wbus m)) then quiet (Ok (m, e, euo_none)) else
  match e_runner e with
  | None => quiet Panic
  | Some r =>
      let m1 := bu_assert6 m r in
      let addrs := instr_MemoryRead (r_instr r) (rget (m_regs m1)) 0 in
      match addrs with
      | [] => eu_run6 labels ord cycle m1 e
      | _ :: _ =>
          quiet (
          g <- get_from_l3 (m_l3 m1) (m_pend m1) addrs [] ;;
          let '(c1, p1, res) := g in
          let m2 := set_l3 m1 c1 p1 in
          match res with
          | L3Pending => Ok (m2, e, euo_none)
          | L3Hit bytes => Ok (m2, mk_eu6 (EWaitL3 (L3Access - 1)) bytes (e_runner e), euo_none)
          | L3Miss => Ok (m2, mk_eu6 (EWaitMem (MemoryAccess - 1) addrs) (e_memory e) (e_runner e), euo_none)
          end)
      end
  end.

(* the memory-wait closure when remainingCycles has reached 0: fetchCacheLine, pushLineToL3, getFromL3 *)
Definition eu_fill6 (m : mach) (e : eu6) (addrs : list Z) : outcome (mach * eu6) :=
  match addrs with
  | [] => Panic
  | a0 :: _ =>
      ln <- fetch_line_at (m_mem m) a0 ;;
      p <- push_line_to_l3 (m_l3 m) (m_pend m) (m_mem m) a0 ln ;;
      let '(c1, p1, mem1) := p in
      g <- get_from_l3 c1 p1 addrs [] ;;
      let '(c2, p2, res) := g in
      match res with
      | L3Hit bytes => Ok (set_mem (set_l3 m c2 p2) mem1, mk_eu6 (e_co e) bytes (e_runner e))
      | _ => Panic                               (* panic("cache line doesn't exist") *)
      end
  end.

(* executeUnit.cycle *)
Definition eu_cycle6 (labels : Z -> option Z) (ord : Z -> Z -> list Z -> list Z) (cycle : Z) (m : mach) (e : eu6)
  : eu_res :=
  match e_co e with
  | ENone =>
      let '(ebus', got) := bb_get (m_ebus m) in
      match got with
      | None => quiet (Ok (m, e, euo_none))
      | Some r => eu_prepare6 labels ord cycle (set_ebus m ebus') (mk_eu6 EPrepare (e_memory e) (Some r))
      end
  | EPrepare => eu_prepare6 labels ord cycle m e
  | EWaitL3 rem =>
      if 0 <? rem then quiet (Ok (m, mk_eu6 (EWaitL3 (rem - 1)) (e_memory e) (e_runner e), euo_none))
      else eu_run6 labels ord cycle m e
  | EWaitMem rem addrs =>
      if 0 <? rem then quiet (Ok (m, mk_eu6 (EWaitMem (rem - 1) addrs) (e_memory e) (e_runner e), euo_none))
      else
        match eu_fill6 m e addrs with
        | Ok (m1, e1) => eu_run6 labels ord cycle m1 e1
        | Err er => quiet (Err er)
        | Panic => quiet Panic
        end
  end.

Definition eu_empty (e : eu6) : bool := match e_co e with ENone => true | _ => false end.

(* for _, eu := range m.executeUnits { ... }: flush = OR; (from, pc) = those of the flushing
   unit with the smallest pc (the first one on a tie), since commit cdc05c3; ret = OR; an error ends Run.
   skip = the `if eu.isEmpty() { continue }` of the drain loop after ret.
   First component: OR of the ghost flags of the units that ran. *)
Fixpoint eus_cycle (labels : Z -> option Z) (ord : Z -> Z -> list Z -> list Z) (cycle : Z) (skip : bool)
         (m : mach) (eus : list eu6) (acc : eu_out6) : bool * outcome (mach * list eu6 * eu_out6) :=
  match eus with
  | [] => (false, Ok (m, [], acc))
  | e :: t =>
      if skip && eu_empty e then
        let '(os, r) := eus_cycle labels ord cycle skip m t acc in
        (os, x <- r ;; let '(m2, t', acc2) := x in Ok (m2, e :: t', acc2))
      else
        let '(os1, r1) := eu_cycle6 labels ord cycle m e in
        match r1 with
        | Ok (m1, e1, o) =>
            (* if f && (!flush || fp < from) { from = fp; pc = p }; flush = flush || f; ret = ret || r *)
            let take := o_flush o && (negb (o_flush acc) || (o_from o <? o_from acc)) in
            let acc' := mk_euo6 (o_flush acc || o_flush o) (if take then o_from o else o_from acc)
                                (if take then o_pc o else o_pc acc) (o_ret acc || o_ret o) in
            let '(os2, r) := eus_cycle labels ord cycle skip m1 t acc' in
            (os1 || os2, x <- r ;; let '(m2, t', acc2) := x in Ok (m2, e1 :: t', acc2))
        | Err er => (os1, Err er)
        | Panic => (os1, Panic)
        end
  end.

(* ------------------------------------------------------------------ *)
(* wu.go                                                                *)
(* ------------------------------------------------------------------ *)

(* writeUnit.cycle(ctx, before) *)
Definition wu_cycle6 (m : mach) (w : wu6) (before : Z) : outcome (mach * wu6) :=
  match u_co w with
  | WMem rem =>
      if 0 <? rem then Ok (m, mk_wu6 (WMem (rem - 1)) (u_mw w))
      else
        match u_mw w with
        | None => Panic
        | Some x =>
            (* ctx.WriteMemory: ctx.Memory[k] = v for every change *)
            if negb (forallb (in_mem (m_mem m)) (map fst (MemoryChanges (w_exe x)))) then Panic
            else Ok (del_pending6 (set_mem m (mset_all (m_mem m) (MemoryChanges (w_exe x)))) (w_reads x) (w_writes x),
                     mk_wu6 WNone (u_mw w))
        end
  | WNone =>
      let '(wbus', got) := bb_get (m_wbus m) in
      let m := set_wbus m wbus' in
      match got with
      | None => Ok (m, w)
      | Some x =>
          if negb (before =? -1) && (before <? w_seq x) then Ok (m, w)      (* dropped *)
          else if RegisterChange (w_exe x) then
            Ok (del_pending6 (set_regs m (rset (m_regs m) (Register (w_exe x)) (RegisterValue (w_exe x))))
                             (w_reads x) (w_writes x), w)
          else if MemoryChange (w_exe x) then Ok (m, mk_wu6 (WMem MemoryAccess) (Some x))
          else Ok (del_pending6 m (w_reads x) (w_writes x), w)
      end
  end.

Definition wu_empty (w : wu6) : bool := match u_co w with WNone => true | _ => false end.

Fixpoint wus_cycle (m : mach) (wus : list wu6) (before : Z) : outcome (mach * list wu6) :=
  match wus with
  | [] => Ok (m, [])
  | w :: t =>
      r1 <- wu_cycle6 m w before ;;
      r <- wus_cycle (fst r1) t before ;;
      Ok (fst r, snd r1 :: snd r)
  end.

(* ------------------------------------------------------------------ *)
(* cpu.go                                                               *)
(* ------------------------------------------------------------------ *)

(* which loop of Run the next tick belongs to *)
Inductive mode6 :=
| MNormal                                (* the main for loop *)
| MRet                                   (* the drain loop after a ret *)
| MFlush (k : nat) (from pc : Z).        (* `for !wu.isEmpty() || !writeBus.IsEmpty()` of write unit k before a flush *)

Record st6 := mk_st6 { s_m : mach; s_eus : list eu6; s_wus : list wu6; s_cycle : Z; s_mode : mode6;
                       s_os : bool (* ghost *) }.

Inductive step_res := SDone (r : mres) (os : bool) | SCont (s : st6).

(* cycle += mmu.flush(); return cycle, nil *)
Definition finish6 (m : mach) (cycle : Z) : mres :=
  match flush_lines (lines (m_l3 m)) (m_mem m) 0 with
  | Ok (mem', c) => MDone (cycle + c) (mk_arch (m_regs m) mem')
  | _ => MPanic
  end.

(* CPU.flush(pc) *)
Definition do_flush6 (m : mach) (pc : Z) : mach :=
  mk_mach (m_regs m) (m_mem m) zero_sb zero_sb (m_l1i m) (m_l3 m) (m_pend m)
          (fu_flush6 (m_fu m) pc) false false [] (m_bu m)
          (bb_clean (m_dbus m)) (bb_clean (m_cbus m)) (bb_clean (m_ebus m)) (bb_clean (m_wbus m)).

(* CPU.isEmpty() (the decode unit is always "empty") *)
Definition is_empty6 (m : mach) (eus : list eu6) (wus : list wu6) : bool :=
  f_complete (m_fu m) && (zlen (m_cu m) =? 0) && forallb wu_empty wus &&
  bb_isempty (m_dbus m) && bb_isempty (m_cbus m) && bb_isempty (m_ebus m) && bb_isempty (m_wbus m) &&
  forallb eu_empty eus.

(* condition of the drain loop after ret *)
Definition ret_check (s : st6) : step_res :=
  if forallb eu_empty (s_eus s) && forallb wu_empty (s_wus s) && bb_isempty (m_wbus (s_m s))
  then SDone (finish6 (s_m s) (s_cycle s)) (s_os s)
  else SCont (mk_st6 (s_m s) (s_eus s) (s_wus s) (s_cycle s) MRet (s_os s)).

(* first write unit from index k on whose loop condition holds *)
Fixpoint flush_next (wus : list wu6) (k : nat) (bus_empty : bool) : option nat :=
  match wus with
  | [] => None
  | w :: t => if negb (wu_empty w) || negb bus_empty then Some k else flush_next t (S k) bus_empty
  end.

(* the `for _, wu := range m.writeUnits { for cond { ... } }` of the flush branch,
   entered at write unit k; when every loop is over: m.flush(pc); cycle += latency.Flush; continue *)
Definition flush_advance (s : st6) (k : nat) (from pc : Z) : step_res :=
  match flush_next (skipn k (s_wus s)) k (bb_isempty (m_wbus (s_m s))) with
  | Some k' => SCont (mk_st6 (s_m s) (s_eus s) (s_wus s) (s_cycle s) (MFlush k' from pc) (s_os s))
  | None =>
      SCont (mk_st6 (do_flush6 (s_m s) pc) (map (fun e => mk_eu6 ENone (e_memory e) (e_runner e)) (s_eus s))
                    (s_wus s) (s_cycle s + Flush) MNormal (s_os s))
  end.

Fixpoint set_nth6 {A} (l : list A) (n : nat) (x : A) : list A :=
  match l, n with
  | [], _ => []
  | _ :: t, O => x :: t
  | h :: t, S k => h :: set_nth6 t k x
  end.

Definition res_of {A} (os : bool) (o : outcome A) (k : A -> step_res) : step_res :=
  match o with Ok x => k x | Err e => SDone (MErr e) os | Panic => SDone MPanic os end.

(* the first half of an iteration of the main loop: the four Connect calls, then
   fetchUnit.cycle, decodeUnit.cycle, controlUnit.cycle *)
Definition front6 (app : list instr) (cycle : Z) (m : mach) : outcome mach :=
  let m := set_wbus (set_ebus (set_cbus (set_dbus m (bb_connect (m_dbus m) cycle)) (bb_connect (m_cbus m) cycle))
                              (bb_connect (m_ebus m) cycle)) (bb_connect (m_wbus m) cycle) in
  r <- fu_cycle6 app cycle (m_fu m) (m_l1i m) (m_dbus m) ;;
  let '(fu1, l1i1, dbus1) := r in
  m <- du_cycle6 app cycle (set_dbus (set_l1i (set_fu m fu1) l1i1) dbus1) ;;
  Ok (cu_cycle6 cycle m).

(* the rest of the iteration once the execute units have run: the write units,
   then `if ret {...}`, `if flush {...}`, `if m.isEmpty() { break }` *)
Definition back6 (s : st6) (cycle : Z) (os : bool) (x : mach * list eu6 * eu_out6) : step_res :=
  let '(m, eus1, o) := x in
  res_of os (wus_cycle m (s_wus s) (-1)) (fun r =>
  let '(m, wus1) := r in
  if o_ret o then
    let cycle := cycle + 1 in
    ret_check (mk_st6 (set_wbus m (bb_connect (m_wbus m) cycle)) eus1 wus1 cycle MRet os)
  else if o_flush o then
    flush_advance (mk_st6 (set_wbus m (bb_connect (m_wbus m) (cycle + 1))) eus1 wus1 cycle MNormal os)
                  0 (o_from o) (o_pc o)
  else if is_empty6 m eus1 wus1 then SDone (finish6 m cycle) os
  else SCont (mk_st6 m eus1 wus1 cycle MNormal os)).

(* the rest of an iteration of the drain loop after ret *)
Definition drain6 (s : st6) (os : bool) (x : mach * list eu6 * eu_out6) : step_res :=
  let '(m, eus1, _) := x in
  res_of os (wus_cycle m (s_wus s) (-1)) (fun r =>
  let '(m, wus1) := r in
  let cycle := s_cycle s + 1 in
  ret_check (mk_st6 (set_wbus m (bb_connect (m_wbus m) cycle)) eus1 wus1 cycle MRet os)).

(* one ctx.VerifTick() of Run *)
Definition step6 (app : list instr) (labels : Z -> option Z) (ord : Z -> Z -> list Z -> list Z) (s : st6) : step_res :=
  let m := s_m s in
  let os := s_os s in
  match s_mode s with
  | MNormal =>
      let cycle := s_cycle s + 1 in
      res_of os (front6 app cycle m) (fun m =>
      let '(os1, re) := eus_cycle labels ord cycle false m (s_eus s) euo_none in
      res_of (os || os1) re (back6 s cycle (os || os1)))
  | MRet =>
      let '(os1, re) := eus_cycle labels ord (s_cycle s) true m (s_eus s) euo_none in
      res_of (os || os1) re (drain6 s (os || os1))
  | MFlush k from pc =>
      let cycle := s_cycle s + 1 in
      match nth_error (s_wus s) k with
      | None => SDone MPanic os
      | Some w =>
          res_of os (wu_cycle6 m w from) (fun r =>
          flush_advance (mk_st6 (fst r) (s_eus s) (set_nth6 (s_wus s) k (snd r)) cycle (s_mode s) os) k from pc)
      end
  end.

(* Run: one step per tick until Run returns; when the tick budget is exhausted
   (the Go harness reports `budget`) the machine state reached is returned *)
Fixpoint run6_st (fuel : nat) (app : list instr) (labels : Z -> option Z) (ord : Z -> Z -> list Z -> list Z) (s : st6)
  : (mres * bool) + st6 :=
  match fuel with
  | O => inr s
  | S f =>
      match step6 app labels ord s with
      | SDone r os => inl (r, os)
      | SCont s' => run6_st f app labels ord s'
      end
  end.

Definition run6 (fuel : nat) (app : list instr) (labels : Z -> option Z) (ord : Z -> Z -> list Z -> list Z) (s : st6)
  : mres * bool :=
  match run6_st fuel app labels ord s with
  | inl r => r
  | inr s' => (MOutOfFuel, s_os s')
  end.

(* the same iteration order for every store: the k-th permutation of the keys *)
Definition ord_policy (k : Z) (cycle pc : Z) (l : list Z) : list Z := perm_of k l.

(* NewCPU(debug, memoryBytes, eu = par, wu = par) *)
Definition init6 (par : nat) (st : arch) : outcome st6 :=
  match new_cache l1LineSize l1Size, new_cache l3LineSize l3Size with
  | Ok ci, Ok c3 =>
      let busSize := 2 in
      let m := mk_mach (regs st) (mem st) zero_sb zero_sb ci c3 []
                       (mk_fu6 0 false false FNone 0) false false [] (mk_bu6 false 0 [])
                       (bb_new busSize busSize) (bb_new busSize busSize) (bb_new busSize busSize) (bb_new busSize busSize) in
      Ok (mk_st6 m (repeat (mk_eu6 ENone [] None) par) (repeat (mk_wu6 WNone None) par) 0 MNormal false)
  | _, _ => Panic
  end.

(* NewCPU + Run(app); second component = ghost flag *)
Definition mvp60_run_os (par : nat) (ord : Z -> Z -> list Z -> list Z) (fuel : nat) (app : list instr)
           (labels : Z -> option Z) (st : arch) : mres * bool :=
  match init6 par st with
  | Ok s => run6 fuel app labels ord s
  | _ => (MPanic, false)
  end.

Definition mvp60_run (par : nat) (ord : Z -> Z -> list Z -> list Z) (fuel : nat) (app : list instr)
           (labels : Z -> option Z) (st : arch) : mres :=
  fst (mvp60_run_os par ord fuel app labels st).

(* the same, but a run that exhausts its fuel returns what the Go harness can see of ctx at that
   moment: (cycle, Registers, Memory, PendingWriteRegisters, PendingReadRegisters) *)
Definition mvp60_run_snap (par : nat) (ord : Z -> Z -> list Z -> list Z) (fuel : nat) (app : list instr)
           (labels : Z -> option Z) (st : arch) : (mres * bool) + (Z * arch * list Z * list Z * bool) :=
  match init6 par st with
  | Ok s =>
      match run6_st fuel app labels ord s with
      | inl r => inl r
      | inr s' => inr (s_cycle s', mk_arch (m_regs (s_m s')) (m_mem (s_m s')), m_pw (s_m s'), m_pr (s_m s'), s_os s')
      end
  | _ => inl (MPanic, false)
  end.
