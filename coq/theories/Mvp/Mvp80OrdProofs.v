(* Soundness of the ghost flag of the cycle-level model of MVP-8.0 (Mvp80.v), part 1.

   mvp80_ord_irrelevant: a run that ends with the ghost flag clear returns the same result (and the flag clear)
   under every other order function, for pairs of order functions related by ords_ok3 of Mvp63Proofs.v (both are
   iteration orders and they agree on every map iterated at a NEGATIVE pc: the RAT value maps, pc = -1 / -2, and -
   because the model iterates the request map of coSnoop at pc = -(3 + core) - the snoop request maps).
   So this theorem is about map (b), controlUnit.pushedRunnersInPreviousCycle, and about the MemoryChanges maps:
   the states of the two runs are EQUAL after every tick.

   mvp80_ord_irrelevant_single / mvp80_ord_irrelevant_both_flags: for order functions that agree on the RAT value
   maps ONLY (ords_rat: no condition on the orders of maps (b) and (d)), under the extra condition - a predicate over
   the run, mvp80_snoop_single, or the second ghost flag mvp80_snoop_multi - that no coSnoop call of the run iterates
   over a request map with two or more entries.

   The statement for ords_rat with the ghost flag of the model alone (coSnoop calls with several pairwise conflict-free
   requests: the two runs then differ by the order of the snoop closures and of three lists that are only used as
   sets / maps) is mvp80_ord_irrelevant_snoop of Mvp80OrdFinal.v; it implies the three theorems of this file, whose
   proofs are kept because they are elementary (the two runs are equal state by state).

   Proof: as in Mvp63Proofs.v / Mvp70Proofs.v.  The flag only moves in the control unit (cu_cycle3 inside
   cu_cycle8) and in snoops8 (or_os8); it never goes down; every other unit leaves it alone (.._os) and uses the
   order only through the RAT value maps (.._ord). *)
From Coq Require Import ZArith List Bool Lia.
From Maj Require Import Base.Outcome Base.GoInt Base.GoTypes Isa.Spec Isa.Seq.
From Maj Require Import Gen.Latency Gen.RiscTables Gen.Opcodes Comp.Cache Comp.Rat Mvp.Mvp12 Mvp.Mvp3 Mvp.Mvp5 Mvp.Mvp60 Mvp.Mvp63 Mvp.Mvp80.
From Maj Require Import Mvp.Mvp60Proofs Mvp.Mvp63Proofs Mvp.Mvp80Proofs Mvp.Mvp80OrdIds Comp.RatProofs.
From Coq Require Import Permutation.
Import ListNotations.
Open Scope Z_scope.

(* ------------------------------------------------------------------ *)
(* 1. the flag is only touched by the control unit and by snoops8      *)
(* ------------------------------------------------------------------ *)

Lemma put_mw_os : forall y w, y_os (put_mw y w) = y_os y.
Proof. reflexivity. Qed.

Lemma put_cc_os : forall y i c, y_os (put_cc y i c) = y_os y.
Proof. reflexivity. Qed.

Lemma eu_flush8_os : forall y i e y' e', eu_flush8 y i e = Ok (y', e') -> y_os y' = y_os y.
Proof.
  intros y i e y' e' H. unfold eu_flush8 in H.
  destruct (nth_error (y_ccs y) i); [|discriminate].
  apply bind_ok in H as (r & _ & H). inversion H; reflexivity.
Qed.

Lemma eu_write8_os : forall y i e addrs data y' e' o, eu_write8 y i e addrs data = Ok (y', e', o) -> y_os y' = y_os y.
Proof.
  intros y i e addrs data y' e' o H. unfold eu_write8 in H.
  destruct (nth_error (y_ccs y) i); [|discriminate].
  apply bind_ok in H as ([[w c1] done] & _ & H). inversion H; reflexivity.
Qed.

Lemma rat_rollback3_os : forall ord cycle x s, x_os (rat_rollback3 ord cycle x s) = x_os x.
Proof. reflexivity. Qed.
Lemma rat_commit3_os : forall ord cycle x, x_os (rat_commit3 ord cycle x) = x_os x.
Proof. reflexivity. Qed.

Lemma bu_resolved3_os : forall x pc npc, x_os (bu_resolved3 x pc npc) = x_os x.
Proof. intros. unfold bu_resolved3. repeat match goal with |- context [match ?e with _ => _ end] => destruct e end; reflexivity. Qed.

Lemma eu_run8_os : forall labels ord cycle y i e y' e' o,
  eu_run8 labels ord cycle y i e = Ok (y', e', o) -> y_os y' = y_os y.
Proof.
  intros labels ord cycle y i e y' e' o H. unfold eu_run8 in H.
  destruct (h_runner e) as [r|]; [|discriminate].
  destruct (instr_Run _ _ _ _ _ _) as [exe| |]; try discriminate.
  - destruct (Return exe); [inversion H; reflexivity|].
    destruct (MemoryChange exe); [apply eu_write8_os in H; exact H|].
    unfold y_os in *.
    split_hyp H; simpl in *; try discriminate; inversion H; subst; simpl; rewrite ?bu_resolved3_os; auto.
  - inversion H; reflexivity.
Qed.

Lemma eu_read8_os : forall labels ord cycle y i e addrs y' e' o,
  eu_read8 labels ord cycle y i e addrs = Ok (y', e', o) -> y_os y' = y_os y.
Proof.
  intros labels ord cycle y i e addrs y' e' o H. unfold eu_read8 in H.
  destruct (nth_error (y_ccs y) i); [|discriminate].
  apply bind_ok in H as ([[w c1] res] & _ & H).
  destruct res; [apply eu_run8_os in H; exact H | inversion H; reflexivity].
Qed.

Lemma eu_prepare8_os : forall labels ord cycle y i e y' e' o,
  eu_prepare8 labels ord cycle y i e = Ok (y', e', o) -> y_os y' = y_os y.
Proof.
  intros labels ord cycle y i e y' e' o H. unfold eu_prepare8 in H.
  destruct (negb (bb_canadd _)); [inversion H; reflexivity|].
  destruct (h_runner e) as [r|]; [|discriminate].
  match type of H with context [match ?rcv with Some _ => _ | None => _ end] =>
    destruct rcv as [[x0 r1]|] eqn:ER end; [|inversion H; reflexivity].
  assert (HX : x_os x0 = y_os y).
  { destruct (q_recv r); [|inversion ER; reflexivity].
    destruct (aget z (x_chan (y_x y))); [|discriminate]. inversion ER; reflexivity. }
  destruct (instr_MemoryRead _ _ _).
  - apply eu_run8_os in H. rewrite H. unfold y_os; simpl. rewrite bu_assert3_os. exact HX.
  - apply eu_read8_os in H. rewrite H. unfold y_os; simpl. rewrite bu_assert3_os. exact HX.
Qed.

Lemma eu_cycle8_os : forall labels ord cycle y i e y' e' o,
  eu_cycle8 labels ord cycle y i e = Ok (y', e', o) -> y_os y' = y_os y.
Proof.
  intros labels ord cycle y i e y' e' o H. unfold eu_cycle8 in H.
  match type of H with (if ?p then _ else _) = _ => destruct p end.
  - destruct (eu_pending8 y e); [discriminate|].
    apply bind_ok in H as ([y1 e1] & E & H). apply eu_flush8_os in E. inversion H; subst. exact E.
  - destruct (h_co e).
    + destruct (pick8 _ _ _) as [[r q']|]; [|inversion H; reflexivity].
      apply eu_prepare8_os in H. exact H.
    + apply eu_prepare8_os in H; exact H.
    + apply eu_read8_os in H; exact H.
    + apply eu_write8_os in H; exact H.
Qed.

Lemma eus_main8_os : forall labels ord cycle eus y i acc y' eus' o,
  eus_main8 labels ord cycle y i eus acc = Ok (y', eus', o) -> y_os y' = y_os y.
Proof.
  intros labels ord cycle. induction eus as [|e t IH]; intros y i acc y' eus' o H; simpl in H.
  - inversion H; reflexivity.
  - apply bind_ok in H as ([[y1 e1] o1] & E1 & H). apply eu_cycle8_os in E1.
    destruct (y_err o1); [inversion H; subst; exact E1|].
    apply bind_ok in H as ([[y2 t'] acc2] & E2 & H). apply IH in E2. inversion H; subst. congruence.
Qed.

Lemma eus_drain8_os : forall labels ord cycle eus y i y' eus' o,
  eus_drain8 labels ord cycle y i eus = Ok (y', eus', o) -> y_os y' = y_os y.
Proof.
  intros labels ord cycle. induction eus as [|e t IH]; intros y i y' eus' o H; simpl in H.
  - inversion H; reflexivity.
  - destruct (eu_empty8 e).
    + apply bind_ok in H as ([[y2 t'] er] & E2 & H). apply IH in E2. inversion H; subst. exact E2.
    + apply bind_ok in H as ([[y1 e1] o1] & E1 & H). apply eu_cycle8_os in E1.
      destruct (y_err o1); [inversion H; subst; exact E1|].
      apply bind_ok in H as ([[y2 t'] er] & E2 & H). apply IH in E2. inversion H; subst. congruence.
Qed.

Lemma eus_flush8_os : forall labels ord from eus y i acc y' eus' o,
  eus_flush8 labels ord from y i eus acc = Ok (y', eus', o) -> y_os y' = y_os y.
Proof.
  intros labels ord from. induction eus as [|e t IH]; intros y i acc y' eus' o H; simpl in H.
  - inversion H; reflexivity.
  - destruct (_ && _).
    + apply bind_ok in H as ([[y2 t'] er] & E2 & H). apply IH in E2. inversion H; subst. exact E2.
    + apply bind_ok in H as ([[y1 e1] o1] & E1 & H). apply eu_cycle8_os in E1.
      destruct (y_err o1); [inversion H; subst; exact E1|].
      apply bind_ok in H as ([[y2 t'] er] & E2 & H). apply IH in E2. inversion H; subst. congruence.
Qed.

Lemma eus_final8_os : forall labels ord cycle eus y i y' eus' b,
  eus_final8 labels ord cycle y i eus = Ok (y', eus', b) -> y_os y' = y_os y.
Proof.
  intros labels ord cycle. induction eus as [|e t IH]; intros y i y' eus' b H; simpl in H.
  - inversion H; reflexivity.
  - destruct (_ && _).
    + apply bind_ok in H as ([[y2 t'] er] & E2 & H). apply IH in E2. inversion H; subst. exact E2.
    + destruct (nth_error (y_ccs y) i); [|discriminate].
      apply bind_ok in H as ([[y1 e1] o1] & E1 & H). apply eu_cycle8_os in E1.
      apply bind_ok in H as ([[y2 t'] er] & E2 & H). apply IH in E2. inversion H; subst. congruence.
Qed.

Lemma eus_flush_all8_os : forall eus y i y' eus', eus_flush_all8 y i eus = Ok (y', eus') -> y_os y' = y_os y.
Proof.
  induction eus as [|e t IH]; intros y i y' eus' H; simpl in H.
  - inversion H; reflexivity.
  - apply bind_ok in H as ([y1 e1] & E1 & H). apply eu_flush8_os in E1.
    apply bind_ok in H as ([y2 t'] & E2 & H). apply IH in E2. inversion H; subst. simpl in *. congruence.
Qed.

Lemma wu_cycle8_os : forall x u before x' u', wu_cycle8 x u before = Ok (x', u') -> x_os x' = x_os x.
Proof.
  intros x u before x' u' H. unfold wu_cycle8 in H.
  destruct (bb_q (m_wbus (x_m x))); [apply wu_cycle3_os in H; exact H|].
  destruct (_ && _); [discriminate|]. apply wu_cycle3_os in H; exact H.
Qed.

Lemma wus_cycle8_os : forall wus x before x' wus', wus_cycle8 x wus before = Ok (x', wus') -> x_os x' = x_os x.
Proof.
  induction wus as [|u t IH]; intros x before x' wus' H; simpl in H.
  - inversion H; reflexivity.
  - apply bind_ok in H as ([x1 u1] & E1 & H). apply bind_ok in H as ([x2 t'] & E2 & H).
    inversion H; subst. apply wu_cycle8_os in E1. apply IH in E2. simpl in *. congruence.
Qed.

(* snoops8 can only raise the flag *)
Lemma snoops8_os : forall ord cycle y y', snoops8 ord cycle y = Ok y' -> y_os y' = false -> y_os y = false.
Proof.
  intros ord cycle y y' H Hos. unfold snoops8 in H.
  destruct (snoops_cycle ord cycle (mw_of y) (y_ccs y)) as [os r].
  apply bind_ok in H as (z & _ & H). inversion H; subst. unfold or_os8, y_os in Hos. simpl in Hos.
  apply orb_false_iff in Hos. destruct Hos as [Hos _]. exact Hos.
Qed.

(* ------------------------------------------------------------------ *)
(* 2. order functions that agree on the RAT value maps                 *)
(* ------------------------------------------------------------------ *)

(* the two order functions agree on the maps whose order is not observable (the RAT value maps, iterated at
   pc = -1 and, in InitRAT, pc = -2); implied by ords_ok3 *)
Definition ords_rat (ord1 ord2 : Z -> Z -> list Z -> list Z) : Prop :=
  forall cycle keys, ord1 cycle (-1) keys = ord2 cycle (-1) keys /\ ord1 cycle (-2) keys = ord2 cycle (-2) keys.

Lemma ords_ok3_rat : forall ord1 ord2, ords_ok3 ord1 ord2 -> ords_rat ord1 ord2.
Proof. intros ord1 ord2 [_ [_ A]] cycle keys. split; apply A; lia. Qed.

Lemma commit_vals_ord8 : forall ord1 ord2 cycle crat vals,
  ords_rat ord1 ord2 -> commit_vals ord1 cycle crat vals = commit_vals ord2 cycle crat vals.
Proof. intros ord1 ord2 cycle crat vals A. unfold commit_vals, map_order. rewrite (proj1 (A cycle _)). reflexivity. Qed.

Lemma rat_commit3_ord8 : forall ord1 ord2 cycle x,
  ords_rat ord1 ord2 -> rat_commit3 ord1 cycle x = rat_commit3 ord2 cycle x.
Proof. intros. unfold rat_commit3. rewrite (commit_vals_ord8 ord1 ord2); auto. Qed.

Lemma rat_rollback3_ord8 : forall ord1 ord2 cycle x s,
  ords_rat ord1 ord2 -> rat_rollback3 ord1 cycle x s = rat_rollback3 ord2 cycle x s.
Proof. intros. unfold rat_rollback3. rewrite (commit_vals_ord8 ord1 ord2); auto. Qed.

Lemma rat_flush3_ord8 : forall ord1 ord2 cycle x,
  ords_rat ord1 ord2 -> rat_flush3 ord1 cycle x = rat_flush3 ord2 cycle x.
Proof. intros ord1 ord2 cycle x A. unfold rat_flush3, map_order. rewrite (proj1 (A cycle _)). reflexivity. Qed.

Lemma init8_ord : forall par ord1 ord2 app st, ords_rat ord1 ord2 -> init8 par ord1 app st = init8 par ord2 app st.
Proof.
  intros par ord1 ord2 app st A. unfold init8, init_rat3, map_order. rewrite (proj2 (A 0 _)). reflexivity.
Qed.

Lemma eu_run8_ord : forall labels ord1 ord2 cycle y i e, ords_rat ord1 ord2 ->
  eu_run8 labels ord1 cycle y i e = eu_run8 labels ord2 cycle y i e.
Proof.
  intros labels ord1 ord2 cycle y i e O. unfold eu_run8.
  destruct (h_runner e) as [r|]; [|reflexivity].
  destruct (instr_Run _ _ _ _ _ _) as [exe| |]; try reflexivity.
  destruct (Return exe); [reflexivity|].
  destruct (MemoryChange exe); [reflexivity|].
  cbv zeta.
  destruct (q_fwder r); [reflexivity|].
  destruct (InstructionType_IsConditionalBranch _); [|reflexivity].
  rewrite !(rat_rollback3_ord8 ord1 ord2 _ _ _ O), !(rat_commit3_ord8 ord1 ord2 _ _ O). reflexivity.
Qed.

Lemma eu_read8_ord : forall labels ord1 ord2 cycle y i e addrs, ords_rat ord1 ord2 ->
  eu_read8 labels ord1 cycle y i e addrs = eu_read8 labels ord2 cycle y i e addrs.
Proof.
  intros labels ord1 ord2 cycle y i e addrs O. unfold eu_read8.
  destruct (nth_error (y_ccs y) i); [|reflexivity].
  destruct (cc_read_cycle _ _ _) as [[[w c1] [d|]]| |]; simpl; try reflexivity.
  apply eu_run8_ord; exact O.
Qed.

Lemma eu_prepare8_ord : forall labels ord1 ord2 cycle y i e, ords_rat ord1 ord2 ->
  eu_prepare8 labels ord1 cycle y i e = eu_prepare8 labels ord2 cycle y i e.
Proof.
  intros labels ord1 ord2 cycle y i e O. unfold eu_prepare8.
  destruct (negb (bb_canadd _)); [reflexivity|].
  destruct (h_runner e) as [r|]; [|reflexivity].
  match goal with |- context [match ?rcv with Some _ => _ | None => _ end] => destruct rcv as [[x0 r1]|] end; [|reflexivity].
  destruct (instr_MemoryRead _ _ _); [apply eu_run8_ord | apply eu_read8_ord]; exact O.
Qed.

Lemma eu_cycle8_ord : forall labels ord1 ord2 cycle y i e, ords_rat ord1 ord2 ->
  eu_cycle8 labels ord1 cycle y i e = eu_cycle8 labels ord2 cycle y i e.
Proof.
  intros labels ord1 ord2 cycle y i e O. unfold eu_cycle8.
  match goal with |- (if ?p then _ else _) = _ => destruct p end; [reflexivity|].
  destruct (h_co e); try reflexivity.
  - destruct (pick8 _ _ _) as [[r q']|]; [|reflexivity]. apply eu_prepare8_ord; exact O.
  - apply eu_prepare8_ord; exact O.
  - apply eu_read8_ord; exact O.
Qed.

Lemma eus_main8_ord : forall labels ord1 ord2 cycle, ords_rat ord1 ord2 -> forall eus y i acc,
  eus_main8 labels ord1 cycle y i eus acc = eus_main8 labels ord2 cycle y i eus acc.
Proof.
  intros labels ord1 ord2 cycle O. induction eus as [|e t IH]; intros y i acc; [reflexivity|]. simpl.
  rewrite (eu_cycle8_ord labels ord1 ord2 _ _ _ _ O).
  destruct (eu_cycle8 labels ord2 _ _ _ _) as [[[y1 e1] o]| |]; simpl; try reflexivity.
  destruct (y_err o); [reflexivity|]. rewrite IH. reflexivity.
Qed.

Lemma eus_drain8_ord : forall labels ord1 ord2 cycle, ords_rat ord1 ord2 -> forall eus y i,
  eus_drain8 labels ord1 cycle y i eus = eus_drain8 labels ord2 cycle y i eus.
Proof.
  intros labels ord1 ord2 cycle O. induction eus as [|e t IH]; intros y i; [reflexivity|]. simpl.
  destruct (eu_empty8 e); [rewrite IH; reflexivity|].
  rewrite (eu_cycle8_ord labels ord1 ord2 _ _ _ _ O).
  destruct (eu_cycle8 labels ord2 _ _ _ _) as [[[y1 e1] o]| |]; simpl; try reflexivity.
  destruct (y_err o); [reflexivity|]. rewrite IH. reflexivity.
Qed.

Lemma eus_flush8_ord : forall labels ord1 ord2 from, ords_rat ord1 ord2 -> forall eus y i acc,
  eus_flush8 labels ord1 from y i eus acc = eus_flush8 labels ord2 from y i eus acc.
Proof.
  intros labels ord1 ord2 from O. induction eus as [|e t IH]; intros y i acc; [reflexivity|]. simpl.
  destruct (_ && _); [rewrite IH; reflexivity|].
  rewrite (eu_cycle8_ord labels ord1 ord2 _ _ _ _ O).
  destruct (eu_cycle8 labels ord2 _ _ _ _) as [[[y1 e1] o]| |]; simpl; try reflexivity.
  destruct (y_err o); [reflexivity|]. rewrite IH. reflexivity.
Qed.

Lemma eus_final8_ord : forall labels ord1 ord2 cycle, ords_rat ord1 ord2 -> forall eus y i,
  eus_final8 labels ord1 cycle y i eus = eus_final8 labels ord2 cycle y i eus.
Proof.
  intros labels ord1 ord2 cycle O. induction eus as [|e t IH]; intros y i; [reflexivity|]. simpl.
  destruct (_ && _); [rewrite IH; reflexivity|].
  destruct (nth_error (y_ccs y) i); [|reflexivity].
  rewrite (eu_cycle8_ord labels ord1 ord2 _ _ _ _ O).
  destruct (eu_cycle8 labels ord2 _ _ _ _) as [[[y1 e1] o]| |]; simpl; try reflexivity.
  rewrite IH. reflexivity.
Qed.

Lemma finish8_ord : forall ord1 ord2 y cycle, ords_rat ord1 ord2 -> finish8 ord1 y cycle = finish8 ord2 y cycle.
Proof.
  intros ord1 ord2 y cycle O. unfold finish8.
  destruct (bind _ _) as [[w c]| |]; try reflexivity.
  rewrite (rat_commit3_ord8 ord1 ord2 cycle _ O), (rat_flush3_ord8 ord1 ord2 cycle _ O). reflexivity.
Qed.

(* ---------- control unit, front end ---------- *)

Lemma cu_cycle8_ord : forall ord1 ord2 cycle y,
  y_os (cu_cycle8 ord1 cycle y) = false ->
  cu_cycle8 ord2 cycle y = cu_cycle8 ord1 cycle y /\ y_os y = false.
Proof.
  intros ord1 ord2 cycle y H. unfold cu_cycle8 in *.
  destruct (k_stale (y_msi y)); [auto|].
  unfold y_os in H. cbn [y_x] in H.
  destruct (cu_cycle3_ord ord1 ord2 cycle (y_x y) H) as [E Hx]. rewrite E. auto.
Qed.

Lemma front8_eq : forall app ord cycle y,
  front8 app ord cycle y =
  match fu_cycle6 app cycle (m_fu (x_m (connected3 (y_x y) cycle))) (m_l1i (x_m (connected3 (y_x y) cycle))) (m_dbus (x_m (connected3 (y_x y) cycle))) with
  | Ok (fu1, l1i1, dbus1) =>
      match du_cycle3 app cycle (set_m (connected3 (y_x y) cycle) (set_dbus (set_l1i (set_fu (x_m (connected3 (y_x y) cycle)) fu1) l1i1) dbus1)) with
      | Ok x1 => Ok (cu_cycle8 ord cycle (set_x y x1))
      | Err e => Err e
      | Panic => Panic
      end
  | Err e => Err e
  | Panic => Panic
  end.
Proof. reflexivity. Qed.

Lemma front8_ord : forall app ord1 ord2 cycle y y',
  front8 app ord1 cycle y = Ok y' -> y_os y' = false ->
  front8 app ord2 cycle y = Ok y' /\ y_os y = false.
Proof.
  intros app ord1 ord2 cycle y y' H Hos. rewrite front8_eq in *.
  destruct (fu_cycle6 app cycle _ _ _) as [[[fu1 l1i1] dbus1]| |]; try discriminate H.
  destruct (du_cycle3 app cycle _) as [x1| |] eqn:ED; try discriminate H.
  injection H as H. subst y'.
  destruct (cu_cycle8_ord ord1 ord2 cycle _ Hos) as [E Hx1]. rewrite E. split; [reflexivity|].
  apply du_cycle3_os in ED. unfold y_os in *. cbn [y_x set_x] in Hx1. rewrite Hx1 in ED. symmetry. exact ED.
Qed.

Lemma front8_err : forall app ord1 ord2 cycle y,
  (forall y', front8 app ord1 cycle y <> Ok y') -> front8 app ord2 cycle y = front8 app ord1 cycle y.
Proof.
  intros app ord1 ord2 cycle y H. rewrite !front8_eq in *.
  destruct (fu_cycle6 app cycle _ _ _) as [[[fu1 l1i1] dbus1]| |]; try reflexivity.
  destruct (du_cycle3 app cycle _) as [x1| |]; try reflexivity.
  exfalso. eapply H. reflexivity.
Qed.

Lemma front8_ccs : forall app ord cycle y y', front8 app ord cycle y = Ok y' -> y_ccs y' = y_ccs y.
Proof.
  intros app ord cycle y y' H. rewrite front8_eq in H.
  destruct (fu_cycle6 app cycle _ _ _) as [[[fu1 l1i1] dbus1]| |]; try discriminate H.
  destruct (du_cycle3 app cycle _) as [x1| |]; try discriminate H.
  injection H as H. subst y'. unfold cu_cycle8. destruct (k_stale _); reflexivity.
Qed.

(* ------------------------------------------------------------------ *)
(* 3. steps                                                             *)
(* ------------------------------------------------------------------ *)

(* the flag a step ends with *)
Definition res_os8 (r : step_res8) : bool := match r with VDone _ os => os | VCont s' => y_os (v_y s') end.

Lemma res_of8_os : forall A os (o : outcome A) k,
  (forall x, o = Ok x -> res_os8 (k x) = os) -> res_os8 (res_of8 os o k) = os.
Proof. intros A os o k H. destruct o; simpl; auto. Qed.

Lemma ret_check8_os : forall s, res_os8 (ret_check8 s) = y_os (v_y s).
Proof. intros. unfold ret_check8. destruct (_ && _); reflexivity. Qed.

Lemma flush_advance8_os : forall s k seq pc from empty, res_os8 (flush_advance8 s k seq pc from empty) = y_os (v_y s).
Proof.
  intros. unfold flush_advance8. destruct (flush_next _ _ _); [reflexivity|]. destruct empty; [|reflexivity].
  apply res_of8_os. intros [y1 eus1] E. apply eus_flush_all8_os in E. exact E.
Qed.

Lemma back8_os : forall s cycle y eus o, res_os8 (back8 s cycle (y, eus, o)) = y_os y.
Proof.
  intros. unfold back8. destruct (y_err o); [reflexivity|].
  apply res_of8_os. intros [x2 wus1] E. apply wus_cycle8_os in E.
  destruct (y_ret o); [rewrite ret_check8_os; exact E|].
  destruct (y_flush o); [exact E|].
  destruct (is_empty8 _ _ _); exact E.
Qed.

(* the part of a tick after the snoops: the flag does not move, the order is used through the RAT maps only *)
Definition after_snoops8 (labels : Z -> option Z) (ord : Z -> Z -> list Z -> list Z) (s : st8) (y : my) : step_res8 :=
  match v_mode s with
  | PNormal =>
      let cycle := v_cycle s + 1 in
      res_of8 (y_os y) (eus_main8 labels ord cycle y 0 (v_eus s) yo_none) (back8 s cycle)
  | PRet =>
      res_of8 (y_os y) (eus_drain8 labels ord (v_cycle s) y 0 (v_eus s)) (fun z =>
      let '(y1, eus1, er) := z in
      match er with
      | Some e => VDone (MErr e) (y_os y1)
      | None =>
          res_of8 (y_os y1) (wus_cycle8 (y_x y1) (v_wus s) (-1)) (fun r =>
          let cycle := v_cycle s + 1 in
          ret_check8 (mk_st8 (wbus_connect8 (set_x y1 (fst r)) cycle) eus1 (snd r) cycle PRet))
      end)
  | PFlushE seq pc from =>
      let cycle := v_cycle s + 1 in
      res_of8 (y_os y) (eus_flush8 labels ord from y 0 (v_eus s) (mk_fla true seq pc None)) (fun z =>
      let '(y1, eus1, acc) := z in
      match a_err acc with
      | Some er => VDone (MErr er) (y_os y1)
      | None =>
          flush_advance8 (mk_st8 (wbus_connect8 y1 (cycle + 1)) eus1 (v_wus s) cycle (v_mode s))
                         0 (a_seq acc) (a_pc acc) from (a_empty acc)
      end)
  | PFlushW k seq pc from empty => VDone MPanic (y_os y)
  | PFinal =>
      let cycle := v_cycle s + 1 in
      let quiet := forallb cc_snoop_isstart (y_ccs (v_y s)) in
      res_of8 (y_os y) (eus_final8 labels ord cycle y 0 (v_eus s)) (fun z =>
      let '(y1, eus1, busy) := z in
      if quiet && negb busy then VDone (finish8 ord y1 cycle) (y_os y1)
      else VCont (mk_st8 y1 eus1 (v_wus s) cycle PFinal))
  end.

Lemma after_snoops8_os : forall labels ord s y, res_os8 (after_snoops8 labels ord s y) = y_os y.
Proof.
  intros labels ord s y. unfold after_snoops8.
  destruct (v_mode s) as [| | seq pc from | k seq pc from empty |].
  - apply res_of8_os. intros [[y2 eus2] o] E2. apply eus_main8_os in E2. rewrite back8_os. exact E2.
  - apply res_of8_os. intros [[y2 eus2] er] E2. apply eus_drain8_os in E2.
    destruct er; [simpl; exact E2|].
    assert (R : forall b, b = y_os y2 -> res_os8 (res_of8 b (wus_cycle8 (y_x y2) (v_wus s) (-1)) (fun r =>
              ret_check8 (mk_st8 (wbus_connect8 (set_x y2 (fst r)) (v_cycle s + 1)) eus2 (snd r) (v_cycle s + 1) PRet))) = b).
    { intros b Hb. apply res_of8_os. intros [x2 wus1] E3. apply wus_cycle8_os in E3. rewrite ret_check8_os. subst b. exact E3. }
    rewrite R by reflexivity. exact E2.
  - apply res_of8_os. intros [[y2 eus2] acc] E2. apply eus_flush8_os in E2.
    destruct (a_err acc); [simpl; exact E2|].
    rewrite flush_advance8_os. exact E2.
  - reflexivity.
  - apply res_of8_os. intros [[y2 eus2] busy] E2. apply eus_final8_os in E2.
    destruct (_ && _); simpl; exact E2.
Qed.

Lemma after_snoops8_ord : forall labels ord1 ord2 s y, ords_rat ord1 ord2 ->
  after_snoops8 labels ord1 s y = after_snoops8 labels ord2 s y.
Proof.
  intros labels ord1 ord2 s y O. unfold after_snoops8.
  destruct (v_mode s) as [| | seq pc from | k seq pc from empty |].
  - rewrite (eus_main8_ord labels ord1 ord2 _ O). reflexivity.
  - rewrite (eus_drain8_ord labels ord1 ord2 _ O). reflexivity.
  - rewrite (eus_flush8_ord labels ord1 ord2 _ O). reflexivity.
  - reflexivity.
  - rewrite (eus_final8_ord labels ord1 ord2 _ O).
    destruct (eus_final8 labels ord2 _ _ _ _) as [[[y3 eus3] busy]| |]; cbn [res_of8]; try reflexivity.
    rewrite (finish8_ord ord1 ord2 _ _ O). reflexivity.
Qed.

(* the call of snoops8 of a tick: the cycle and the machine it is applied to (None: the write-unit loop inside the
   flush loop, or a front end that fails) *)
Definition snoop_arg8 (app : list instr) (ord : Z -> Z -> list Z -> list Z) (s : st8) : option (Z * my) :=
  match v_mode s with
  | PNormal => match front8 app ord (v_cycle s + 1) (v_y s) with Ok y => Some (v_cycle s + 1, y) | _ => None end
  | PRet => Some (v_cycle s, v_y s)
  | PFlushE _ _ _ => Some (v_cycle s + 1, v_y s)
  | PFlushW _ _ _ _ _ => None
  | PFinal => Some (v_cycle s + 1, v_y s)
  end.

(* a tick = (front end) ; snoops8 ; after_snoops8 *)
Lemma step8_eq : forall app labels ord s,
  step8 app labels ord s =
  match v_mode s with
  | PNormal =>
      res_of8 (y_os (v_y s)) (front8 app ord (v_cycle s + 1) (v_y s)) (fun y =>
      res_of8 (y_os y) (snoops8 ord (v_cycle s + 1) y) (after_snoops8 labels ord s))
  | PRet => res_of8 (y_os (v_y s)) (snoops8 ord (v_cycle s) (v_y s)) (after_snoops8 labels ord s)
  | PFlushE _ _ _ | PFinal => res_of8 (y_os (v_y s)) (snoops8 ord (v_cycle s + 1) (v_y s)) (after_snoops8 labels ord s)
  | PFlushW k seq pc from empty =>
      match nth_error (v_wus s) k with
      | None => VDone MPanic (y_os (v_y s))
      | Some w =>
          res_of8 (y_os (v_y s)) (wu_cycle8 (y_x (v_y s)) w seq) (fun r =>
          flush_advance8 (mk_st8 (set_x (v_y s) (fst r)) (v_eus s) (set_nth6 (v_wus s) k (snd r)) (v_cycle s) (v_mode s)) k seq pc from empty)
      end
  end.
Proof.
  intros. unfold step8, after_snoops8. destruct (v_mode s); reflexivity.
Qed.

Lemma snoops_then_os : forall labels ord cycle s y,
  res_os8 (res_of8 (y_os y) (snoops8 ord cycle y) (after_snoops8 labels ord s)) = false -> y_os y = false.
Proof.
  intros labels ord cycle s y H.
  destruct (snoops8 ord cycle y) as [y1| |] eqn:E; cbn [res_of8 res_os8] in H; try exact H.
  rewrite after_snoops8_os in H. eapply snoops8_os; eauto.
Qed.

Lemma snoops_then_ord : forall labels ord1 ord2 cycle s y, ords_rat ord1 ord2 ->
  snoops8 ord1 cycle y = snoops8 ord2 cycle y ->
  res_of8 (y_os y) (snoops8 ord1 cycle y) (after_snoops8 labels ord1 s) =
  res_of8 (y_os y) (snoops8 ord2 cycle y) (after_snoops8 labels ord2 s).
Proof.
  intros labels ord1 ord2 cycle s y O E. rewrite <- E.
  destruct (snoops8 ord1 cycle y) as [y1| |]; cbn [res_of8]; try reflexivity.
  apply after_snoops8_ord; exact O.
Qed.

(* one tick: if the snoop call of this tick does not depend on the order, the tick does not *)
Lemma step8_ord : forall app labels ord1 ord2 s, ords_rat ord1 ord2 ->
  (forall cycle y, snoop_arg8 app ord1 s = Some (cycle, y) -> snoops8 ord1 cycle y = snoops8 ord2 cycle y) ->
  res_os8 (step8 app labels ord1 s) = false ->
  step8 app labels ord1 s = step8 app labels ord2 s /\ y_os (v_y s) = false.
Proof.
  intros app labels ord1 ord2 s O SN H. rewrite !step8_eq in *. unfold snoop_arg8 in SN.
  destruct (v_mode s) as [| | seq pc from | k seq pc from empty |].
  - destruct (front8 app ord1 (v_cycle s + 1) (v_y s)) as [y1| |] eqn:EF.
    + cbn [res_of8] in H |- *.
      pose proof (snoops_then_os _ _ _ _ _ H) as K1.
      destruct (front8_ord app ord1 ord2 _ _ _ EF K1) as [EF2 Hy]. rewrite EF2. cbn [res_of8].
      split; [|exact Hy]. apply snoops_then_ord; [exact O|]. apply SN. reflexivity.
    + rewrite (front8_err app ord1 ord2) by (intros y' C; rewrite EF in C; discriminate). rewrite EF. auto.
    + rewrite (front8_err app ord1 ord2) by (intros y' C; rewrite EF in C; discriminate). rewrite EF. auto.
  - split; [|eapply snoops_then_os; exact H]. apply snoops_then_ord; [exact O|]. apply SN. reflexivity.
  - split; [|eapply snoops_then_os; exact H]. apply snoops_then_ord; [exact O|]. apply SN. reflexivity.
  - split; [reflexivity|].
    destruct (nth_error (v_wus s) k); [|exact H].
    destruct (wu_cycle8 (y_x (v_y s)) w seq) as [[x1 w1]| |] eqn:EW; cbn [res_of8] in H; try exact H.
    rewrite flush_advance8_os in H. apply wu_cycle8_os in EW. unfold y_os in *. simpl in H. congruence.
  - split; [|eapply snoops_then_os; exact H]. apply snoops_then_ord; [exact O|]. apply SN. reflexivity.
Qed.

(* ------------------------------------------------------------------ *)
(* 4. runs                                                              *)
(* ------------------------------------------------------------------ *)

(* the flag a run ends with *)
Definition final_os8 (r : (mres * bool) + st8) : bool :=
  match r with inl (_, os) => os | inr s' => y_os (v_y s') end.

(* a run whose snoop calls do not depend on the order: P holds of the states the run goes through *)
Fixpoint run8_all (P : st8 -> Prop) (fuel : nat) (app : list instr) (labels : Z -> option Z)
         (ord : Z -> Z -> list Z -> list Z) (s : st8) : Prop :=
  match fuel with
  | O => True
  | S f => P s /\ match step8 app labels ord s with VDone _ _ => True | VCont s' => run8_all P f app labels ord s' end
  end.

Theorem run8_st_ord_gen : forall (P : st8 -> Prop) app ord1 ord2, ords_rat ord1 ord2 ->
  (forall s cycle y, P s -> snoop_arg8 app ord1 s = Some (cycle, y) -> snoops8 ord1 cycle y = snoops8 ord2 cycle y) ->
  forall fuel labels s,
  run8_all P fuel app labels ord1 s ->
  final_os8 (run8_st fuel app labels ord1 s) = false ->
  run8_st fuel app labels ord1 s = run8_st fuel app labels ord2 s /\ y_os (v_y s) = false.
Proof.
  intros P app ord1 ord2 O SN. induction fuel as [|f IH]; intros labels s A H; simpl in *; [auto|].
  destruct A as [Ps A].
  destruct (step8 app labels ord1 s) as [r os|s'] eqn:E.
  - simpl in H. subst os.
    destruct (step8_ord app labels ord1 ord2 s O) as [E2 Hs]; [intros; eapply SN; eauto | rewrite E; reflexivity|].
    rewrite <- E2, E. auto.
  - destruct (IH labels s' A H) as [R Hs'].
    destruct (step8_ord app labels ord1 ord2 s O) as [E2 Hs]; [intros; eapply SN; eauto | rewrite E; exact Hs'|].
    rewrite <- E2, E. auto.
Qed.

(* ---------- 4a. coSnoop calls with at most one request ---------- *)

(* would this call of cc.snoop.Cycle iterate over a request map with two or more entries? *)
Definition snoop_multi1 (w : mw) (c : cc8) : bool :=
  match c_snoop c with
  | [] => 2 <=? zlen (filter (fun kc => ck_id (fst kc) =? c_id c) (k_cmds (w_msi w)))
  | _ :: _ => false
  end.

Fixpoint snoops_multi (ord : Z -> Z -> list Z -> list Z) (cycle : Z) (w : mw) (ccs : list cc8) : bool :=
  match ccs with
  | [] => false
  | c :: t =>
      snoop_multi1 w c ||
      match snd (cc_snoop_cycle ord cycle w c) with
      | Ok (w1, _) => snoops_multi ord cycle w1 t
      | _ => false
      end
  end.

Lemma map_order_nil : forall ord cycle pc, map_order ord cycle pc [] = [].
Proof.
  intros. unfold map_order.
  pose proof (iter_order_perm (ord cycle pc []) [] (NoDup_nil Z)) as P.
  apply Permutation_sym, Permutation_nil in P. exact P.
Qed.

Lemma map_order_single : forall ord cycle pc k, map_order ord cycle pc [k] = [k].
Proof.
  intros. unfold map_order.
  assert (N : NoDup [k]) by (constructor; [intros []|constructor]).
  pose proof (iter_order_perm (ord cycle pc [k]) [k] N) as P.
  apply Permutation_sym, Permutation_length_1_inv in P. exact P.
Qed.

Lemma cc_snoop_cycle_single : forall ord1 ord2 cycle w c,
  snoop_multi1 w c = false -> cc_snoop_cycle ord1 cycle w c = cc_snoop_cycle ord2 cycle w c.
Proof.
  intros ord1 ord2 cycle w c H. unfold cc_snoop_cycle, snoop_multi1 in *.
  destruct (c_snoop c); [|reflexivity].
  destruct (filter _ (k_cmds (w_msi w))) as [|kc [|kc2 t]].
  - cbn [map]. rewrite !map_order_nil. reflexivity.
  - cbn [map]. rewrite !map_order_single. reflexivity.
  - exfalso. unfold zlen in H. cbn [length] in H. apply Z.leb_gt in H. lia.
Qed.

Lemma snoops_cycle_single : forall ord1 ord2 cycle ccs w,
  snoops_multi ord1 cycle w ccs = false -> snoops_cycle ord1 cycle w ccs = snoops_cycle ord2 cycle w ccs.
Proof.
  intros ord1 ord2 cycle. induction ccs as [|c t IH]; intros w H; [reflexivity|].
  cbn [snoops_multi snoops_cycle] in *. apply orb_false_iff in H. destruct H as [H1 H2].
  rewrite <- (cc_snoop_cycle_single ord1 ord2 cycle w c H1).
  destruct (cc_snoop_cycle ord1 cycle w c) as [os1 [[w1 c1]| |]]; try reflexivity.
  cbn [snd] in H2. rewrite (IH w1 H2). reflexivity.
Qed.

Lemma snoops8_single : forall ord1 ord2 cycle y,
  snoops_multi ord1 cycle (mw_of y) (y_ccs y) = false -> snoops8 ord1 cycle y = snoops8 ord2 cycle y.
Proof. intros ord1 ord2 cycle y H. unfold snoops8. rewrite (snoops_cycle_single ord1 ord2 _ _ _ H). reflexivity. Qed.

(* the extra condition, as a predicate over the run: no tick of the run calls coSnoop with two or more requests *)
Definition step_single8 (app : list instr) (ord : Z -> Z -> list Z -> list Z) (s : st8) : Prop :=
  match snoop_arg8 app ord s with
  | Some (cycle, y) => snoops_multi ord cycle (mw_of y) (y_ccs y) = false
  | None => True
  end.

Definition mvp80_snoop_single (par : nat) (ord : Z -> Z -> list Z -> list Z) (fuel : nat) (app : list instr)
           (labels : Z -> option Z) (st : arch) : Prop :=
  match init8 par ord app st with
  | Ok s => run8_all (step_single8 app ord) fuel app labels ord s
  | _ => True
  end.

(* a run in which every coSnoop call sees at most one request and that ends with the flag clear returns the same
   result under every order function that agrees on the RAT value maps: no condition at all on the orders of
   maps (b) and (d) *)
Theorem mvp80_ord_irrelevant_single : forall par fuel app labels st ord1 ord2 r,
  ords_rat ord1 ord2 ->
  mvp80_snoop_single par ord1 fuel app labels st ->
  mvp80_run_os par ord1 fuel app labels st = (r, false) ->
  mvp80_run_os par ord2 fuel app labels st = (r, false).
Proof.
  intros par fuel app labels st ord1 ord2 r O S H. unfold mvp80_run_os, mvp80_snoop_single in *.
  rewrite <- (init8_ord par ord1 ord2 app st O).
  destruct (init8 par ord1 app st) as [s| |]; auto.
  destruct (run8_st_ord_gen (step_single8 app ord1) app ord1 ord2 O) with (fuel := fuel) (labels := labels) (s := s) as [E _].
  - intros s0 cycle y Ps A. unfold step_single8 in Ps. rewrite A in Ps. apply snoops8_single. exact Ps.
  - exact S.
  - destruct (run8_st fuel app labels ord1 s) as [[r1 os1]|s1]; inversion H; reflexivity.
  - rewrite <- E. exact H.
Qed.

(* the same condition as a boolean (it can be extracted and printed beside the ghost flag) *)
Definition step_multi8 (app : list instr) (ord : Z -> Z -> list Z -> list Z) (s : st8) : bool :=
  match snoop_arg8 app ord s with
  | Some (cycle, y) => snoops_multi ord cycle (mw_of y) (y_ccs y)
  | None => false
  end.

Fixpoint run8_multi (fuel : nat) (app : list instr) (labels : Z -> option Z) (ord : Z -> Z -> list Z -> list Z) (s : st8) : bool :=
  match fuel with
  | O => false
  | S f => step_multi8 app ord s ||
           match step8 app labels ord s with VDone _ _ => false | VCont s' => run8_multi f app labels ord s' end
  end.

(* second ghost flag of a run: did some coSnoop call of the run see two or more requests? *)
Definition mvp80_snoop_multi (par : nat) (ord : Z -> Z -> list Z -> list Z) (fuel : nat) (app : list instr)
           (labels : Z -> option Z) (st : arch) : bool :=
  match init8 par ord app st with
  | Ok s => run8_multi fuel app labels ord s
  | _ => false
  end.

Lemma run8_multi_single : forall fuel app labels ord s,
  run8_multi fuel app labels ord s = false -> run8_all (step_single8 app ord) fuel app labels ord s.
Proof.
  induction fuel as [|f IH]; intros app labels ord s H; cbn [run8_multi run8_all] in *; [exact I|].
  apply orb_false_iff in H. destruct H as [H1 H2]. split.
  - unfold step_single8, step_multi8 in *. destruct (snoop_arg8 app ord s) as [[cycle y]|]; [exact H1 | exact I].
  - destruct (step8 app labels ord s); [exact I | apply IH; exact H2].
Qed.

Lemma mvp80_snoop_multi_single : forall par ord fuel app labels st,
  mvp80_snoop_multi par ord fuel app labels st = false -> mvp80_snoop_single par ord fuel app labels st.
Proof.
  intros par ord fuel app labels st H. unfold mvp80_snoop_multi, mvp80_snoop_single in *.
  destruct (init8 par ord app st); try exact I. apply run8_multi_single. exact H.
Qed.

(* both ghost flags clear: the result is the same for every order of the maps (b) and (d) *)
Theorem mvp80_ord_irrelevant_both_flags : forall par fuel app labels st ord1 ord2 r,
  ords_rat ord1 ord2 ->
  mvp80_snoop_multi par ord1 fuel app labels st = false ->
  mvp80_run_os par ord1 fuel app labels st = (r, false) ->
  mvp80_run_os par ord2 fuel app labels st = (r, false).
Proof.
  intros par fuel app labels st ord1 ord2 r O M H.
  eapply mvp80_ord_irrelevant_single; eauto. apply mvp80_snoop_multi_single. exact M.
Qed.

(* an order function that reverses every map except the RAT value maps *)
Definition ord_bd_desc : Z -> Z -> list Z -> list Z :=
  fun _ pc l => if (pc =? -1) || (pc =? -2) then l else rev l.

Lemma ords_rat_asc_bd_desc : ords_rat ord_asc ord_bd_desc.
Proof. intros cycle keys. split; reflexivity. Qed.

(* the hypotheses are satisfiable by a run that uses the memory system on three cores (loads and a store of one line:
   the store invalidates the copies of the other cores, one request per coSnoop call) *)
Example both_flags_clear_example :
  mvp80_snoop_multi 3 ord_asc 4000 stale_prog no_labels (st_of [(5, 7)] []) = false /\
  snd (mvp80_run_os 3 ord_asc 4000 stale_prog no_labels (st_of [(5, 7)] [])) = false /\
  reg_of (fst (mvp80_run_os 3 ord_bd_desc 4000 stale_prog no_labels (st_of [(5, 7)] []))) 10 = Some 0.
Proof. vm_compute. repeat split. Qed.

(* ---------- 4b. order functions that agree on every map iterated at a negative pc ---------- *)

Lemma cc_snoop_cycle_ord : forall ord1 ord2 cycle w c, ords_ok3 ord1 ord2 -> 0 <= c_id c ->
  cc_snoop_cycle ord1 cycle w c = cc_snoop_cycle ord2 cycle w c.
Proof.
  intros ord1 ord2 cycle w c [_ [_ A]] Hc. unfold cc_snoop_cycle, map_order.
  destruct (c_snoop c); [|reflexivity].
  rewrite (A cycle (- (3 + c_id c))) by lia. reflexivity.
Qed.

Lemma snoops_cycle_ord : forall ord1 ord2 cycle ccs w, ords_ok3 ord1 ord2 -> Forall (fun z => 0 <= z) (map c_id ccs) ->
  snoops_cycle ord1 cycle w ccs = snoops_cycle ord2 cycle w ccs.
Proof.
  intros ord1 ord2 cycle ccs w O. revert w. induction ccs as [|c t IH]; intros w F; [reflexivity|].
  cbn [snoops_cycle map] in *. inversion F as [|? ? F1 F2]; subst.
  rewrite <- (cc_snoop_cycle_ord ord1 ord2 cycle w c O F1).
  destruct (cc_snoop_cycle ord1 cycle w c) as [os1 [[w1 c1]| |]]; try reflexivity.
  rewrite (IH w1 F2). reflexivity.
Qed.

Lemma snoops8_ord : forall ord1 ord2 cycle y, ords_ok3 ord1 ord2 -> Forall (fun z => 0 <= z) (ids8 y) ->
  snoops8 ord1 cycle y = snoops8 ord2 cycle y.
Proof. intros ord1 ord2 cycle y O F. unfold snoops8. rewrite (snoops_cycle_ord ord1 ord2 _ _ _ O F). reflexivity. Qed.

(* the ids of the controllers are the core numbers 0 .. par-1 during the whole run *)
Definition ids_ok8 (s : st8) : Prop := Forall (fun z => 0 <= z) (ids8 (v_y s)).

Lemma run8_all_ids : forall fuel app labels ord s, ids_ok8 s -> run8_all ids_ok8 fuel app labels ord s.
Proof.
  induction fuel as [|f IH]; intros app labels ord s H; cbn [run8_all]; [exact I|].
  split; [exact H|].
  destruct (step8 app labels ord s) as [r os|s'] eqn:E; [exact I|].
  apply IH. unfold ids_ok8 in *. rewrite (step8_ids _ _ _ _ _ E). exact H.
Qed.

Lemma snoop_arg8_ids : forall app ord s cycle y, snoop_arg8 app ord s = Some (cycle, y) -> ids8 y = ids8 (v_y s).
Proof.
  intros app ord s cycle y H. unfold snoop_arg8 in H.
  destruct (v_mode s); try (inversion H; reflexivity); try discriminate.
  destruct (front8 app ord (v_cycle s + 1) (v_y s)) as [y1| |] eqn:EF; try discriminate.
  inversion H; subst. eapply front8_ids; eauto.
Qed.

(* a run of MVP-8.0 that ends with the ghost flag clear returns the same result whatever the iteration order of the
   control unit's map of the runners pushed in the previous cycle (order functions that agree on the maps iterated
   at a negative pc, as in mvp63_ord_irrelevant / mvp70_ord_irrelevant: here these are the RAT value maps AND the
   request maps of coSnoop) *)
Theorem mvp80_ord_irrelevant : forall par fuel app labels st ord1 ord2 r,
  ords_ok3 ord1 ord2 ->
  mvp80_run_os par ord1 fuel app labels st = (r, false) ->
  mvp80_run_os par ord2 fuel app labels st = (r, false).
Proof.
  intros par fuel app labels st ord1 ord2 r O H. pose proof (ords_ok3_rat _ _ O) as OR.
  unfold mvp80_run_os in *.
  rewrite <- (init8_ord par ord1 ord2 app st OR).
  destruct (init8 par ord1 app st) as [s| |] eqn:EI; auto.
  destruct (run8_st_ord_gen ids_ok8 app ord1 ord2 OR) with (fuel := fuel) (labels := labels) (s := s) as [E _].
  - intros s0 cycle y Ps A. apply snoops8_ord; [exact O|].
    rewrite (snoop_arg8_ids _ _ _ _ _ A). exact Ps.
  - apply run8_all_ids. unfold ids_ok8. rewrite (init8_ids _ _ _ _ _ EI).
    apply ids8_nonneg. exists par. reflexivity.
  - destruct (run8_st fuel app labels ord1 s) as [[r1 os1]|s1]; inversion H; reflexivity.
  - rewrite <- E. exact H.
Qed.

Print Assumptions mvp80_ord_irrelevant.
Print Assumptions mvp80_ord_irrelevant_single.
Print Assumptions mvp80_ord_irrelevant_both_flags.
Print Assumptions both_flags_clear_example.
