(* Refinement of MVP-6.3 (Mvp63.v) to the sequential machine on SINGLE-ASSIGNMENT, register-only,
   straight-line programs - part 1: the program class (ssa, regs_ok), its consequences on the
   numbered instructions, what the register alias table holds after the first w instructions
   have written back (tv) and how that relates to the sequential register file (sreg of
   Mvp60RefSem.v), the maps RATCommit / RATFlush range over.

   ssa app: every register other than x0 is written by at most one instruction of the text and no
   instruction reads a register that a LATER instruction writes (an instruction may read the
   register it writes): there is neither WAW nor WAR, only RAW. *)
From Coq Require Import ZArith List Bool Lia Permutation.
From Maj Require Import Base.Outcome Base.GoInt Base.GoTypes Isa.Spec Isa.Embed Isa.Seq Isa.Refine.
From Maj Require Import Gen.Latency Gen.RiscTables Gen.Opcodes Comp.Cache Comp.Rat Comp.RatProofs.
From Maj Require Import Mvp.Mvp12 Mvp.Mvp12Proofs Mvp.Mvp3 Mvp.Mvp3Proofs Mvp.Mvp4Skel Mvp.Mvp4Inv Mvp.Mvp5 Mvp.Mvp60
     Mvp.Mvp60RefSem Mvp.Mvp60RefDefs Mvp.Mvp60RefFront Mvp.Mvp60RefBack Mvp.Mvp63.
Import ListNotations.
Open Scope Z_scope.

(* ------------------------------------------------------------------ *)
(* the program class                                                    *)

(* no register other than x0 is in both lists *)
Definition nz_disj (a b : list Z) : bool := forallb (fun r => (r =? 0) || negb (memZ r b)) a.

Fixpoint ssa (l : list instr) : bool :=
  match l with
  | [] => true
  | i :: t =>
      forallb (fun j => nz_disj (instr_WriteRegisters i) (instr_WriteRegisters j) &&
                        nz_disj (instr_ReadRegisters i) (instr_WriteRegisters j)) t && ssa t
  end.

(* register numbers are x0 .. x31 *)
Definition reg_rng (i : instr) : bool :=
  forallb (fun r => (0 <=? r) && (r <? 32)) (instr_ReadRegisters i ++ instr_WriteRegisters i).
Definition regs_ok (app : list instr) : bool := forallb reg_rng app.

Lemma nz_disj_spec a b r : nz_disj a b = true -> In r a -> r <> 0 -> ~ In r b.
Proof.
  unfold nz_disj. intros H Ha Hnz Hb. rewrite forallb_forall in H. specialize (H r Ha).
  apply orb_prop in H as [H|H]; [apply Z.eqb_eq in H; contradiction|].
  apply negb_true_iff in H. assert (memZ r b = true) by (apply memZ_In; exact Hb). congruence.
Qed.

Lemma ssa_nth l d : ssa l = true -> forall j k, (j < k < length l)%nat ->
  nz_disj (instr_WriteRegisters (nth j l d)) (instr_WriteRegisters (nth k l d)) = true /\
  nz_disj (instr_ReadRegisters (nth j l d)) (instr_WriteRegisters (nth k l d)) = true.
Proof.
  induction l as [|i t IH]; intros H j k Hjk; cbn [length] in Hjk; [lia|].
  cbn [ssa] in H. apply andb_prop in H as [H1 H2].
  destruct k as [|k]; [lia|]. destruct j as [|j]; cbn [nth].
  - rewrite forallb_forall in H1. specialize (H1 (nth k t d) ltac:(apply nth_In; lia)).
    apply andb_prop in H1. exact H1.
  - apply IH; [exact H2 | lia].
Qed.

Section Class.
  Variables (app : list instr).
  Hypothesis Hssa : ssa app = true.
  Hypothesis Hrng : regs_ok app = true.
  Let n := length app.
  Notation ik := (ik app).

  Definition rds (k : nat) : list Z := instr_ReadRegisters (ik k).
  Definition wrs (k : nat) : list Z := instr_WriteRegisters (ik k).

  (* S1: one writer per register *)
  Lemma ssa_waw j k r : (j < k < n)%nat -> In r (wrs j) -> r <> 0 -> ~ In r (wrs k).
  Proof. intros Hjk. destruct (ssa_nth app dfl Hssa j k Hjk) as [A _]. apply nz_disj_spec. exact A. Qed.

  (* S2: no write after read *)
  Lemma ssa_war j k r : (j < k < n)%nat -> In r (rds j) -> r <> 0 -> ~ In r (wrs k).
  Proof. intros Hjk. destruct (ssa_nth app dfl Hssa j k Hjk) as [_ A]. apply nz_disj_spec. exact A. Qed.

  Lemma ik_rng k : reg_rng (ik k) = true.
  Proof.
    unfold Mvp60RefSem.ik. destruct (Nat.lt_ge_cases k n) as [H|H].
    - unfold regs_ok in Hrng. rewrite forallb_forall in Hrng. apply Hrng. apply nth_In. exact H.
    - rewrite nth_overflow by exact H. reflexivity.
  Qed.

  Lemma rds_rng k r : In r (rds k) -> 0 <= r < 32.
  Proof.
    intros H. pose proof (ik_rng k) as Hk. unfold reg_rng in Hk. rewrite forallb_forall in Hk.
    specialize (Hk r ltac:(apply in_or_app; left; exact H)). apply andb_prop in Hk as [A B].
    apply Z.leb_le in A. apply Z.ltb_lt in B. lia.
  Qed.

  Lemma wrs_rng k r : In r (wrs k) -> 0 <= r < 32.
  Proof.
    intros H. pose proof (ik_rng k) as Hk. unfold reg_rng in Hk. rewrite forallb_forall in Hk.
    specialize (Hk r ltac:(apply in_or_app; right; exact H)). apply andb_prop in Hk as [A B].
    apply Z.leb_le in A. apply Z.ltb_lt in B. lia.
  Qed.

  (* slots of Mvp60RefSem.v and register numbers *)
  Lemma wsl_in k r : 0 < r -> (In (Z.to_nat r) (wsl app k) <-> In r (wrs k)).
  Proof.
    intros Hr. unfold wsl. rewrite slots_in. split.
    - intros (r' & Hin & Hnz & E). pose proof (wrs_rng k r' Hin). assert (r' = r) by lia. subst. exact Hin.
    - intros H. exists r. repeat split; auto; lia.
  Qed.

  Lemma rsl_in k r : 0 < r -> (In (Z.to_nat r) (rsl app k) <-> In r (rds k)).
  Proof.
    intros Hr. unfold rsl. rewrite slots_in. split.
    - intros (r' & Hin & Hnz & E). pose proof (rds_rng k r' Hin). assert (r' = r) by lia. subst. exact Hin.
    - intros H. exists r. repeat split; auto; lia.
  Qed.
End Class.

(* ------------------------------------------------------------------ *)
(* the alias table and the sequential register file                     *)

Section Tv.
  Variables (app : list instr) (labels : Z -> option Z) (regs0 : list Z).
  Hypothesis Hssa : ssa app = true.
  Hypothesis Hrng : regs_ok app = true.
  Hypothesis Hlen0 : length regs0 = 32%nat.
  Let n := length app.
  Notation ik := (ik app).
  Notation sreg := (sreg app labels regs0 0).
  Notation eff := (eff app labels regs0 0).

  (* the execution record of instruction k *)
  Definition exe (k : nat) : execution := embed (eff k).

  (* the newest slot of transactionRAT for register r once instructions 0 .. w-1 have written back *)
  Fixpoint tv (w : nat) (r : Z) : option (Z * Z) :=
    match w with
    | O => None
    | S k => if RegisterChange (exe k) && (Register (exe k) =? r) then Some (pcz k, RegisterValue (exe k)) else tv k r
    end.

  (* what registerRead finds in the two tables *)
  Definition view (w : nat) (r : Z) : Z :=
    match tv w r with Some sv => snd sv | None => if (0 <=? r) && (r <? 32) then nth (Z.to_nat r) regs0 0 else 0 end.

  Lemma exe_reg k : RegisterChange (exe k) = true ->
    (Register (exe k) = 0 /\ RegisterValue (exe k) = 0) \/
    (Register (exe k) <> 0 /\ exists v, (eff k = EReg (Register (exe k)) v \/ exists a, eff k = ELink (Register (exe k)) v a) /\
                                RegisterValue (exe k) = v).
  Proof.
    unfold exe. destruct (eff k) as [rd v|bs| |a|rd v a|]; cbn [embed]; try discriminate.
    - unfold reg_pair. destruct (Z.eqb_spec rd 0) as [->|Hnz]; cbn; intros _; [left; auto | right]. split; [exact Hnz|]. exists v. auto.
    - unfold reg_pair. destruct (Z.eqb_spec rd 0) as [->|Hnz]; cbn; intros _; [left; auto | right]. split; [exact Hnz|]. exists v. eauto.
  Qed.

  Lemma eff_wrs k rd : (match eff k with EReg r _ | ELink r _ _ => r = rd | _ => False end) -> wrs app k = [rd].
  Proof.
    pose proof (eff_at_wsl app labels k (sreg k)) as _.
    unfold Mvp60RefSem.eff, eff_at. destruct (exec (sinstr_of (ik k)) (rget (sreg k)) labels (pcz k) []) as [e| |] eqn:E; try contradiction.
    intros H. apply spec_writes_sound in E. unfold wrs. rewrite write_registers_exact.
    destruct e; try contradiction; subst; exact E.
  Qed.

  Lemma eff_nowr k : (match eff k with EReg _ _ | ELink _ _ _ => False | _ => True end) ->
    forall s, nth s (sreg (S k)) 0 = nth s (sreg k) 0.
  Proof.
    intros H s. rewrite sreg_S by lia. destruct (eff k); try contradiction; reflexivity.
  Qed.

  (* the view of the tables is the sequential register file *)
  Lemma view_sreg w r : 0 < r < 32 -> view w r = nth (Z.to_nat r) (sreg w) 0.
  Proof.
    intros Hr. unfold view. induction w as [|k IH]; cbn [tv].
    - destruct (Z.leb_spec 0 r), (Z.ltb_spec r 32); try lia. reflexivity.
    - destruct (RegisterChange (exe k)) eqn:Erc; cbn [andb].
      + destruct (exe_reg k Erc) as [[E0 _]|(Hnz & v & He & Ev)].
        * rewrite E0. destruct (Z.eqb_spec 0 r); [lia|]. rewrite IH.
          unfold exe in Erc, E0. rewrite sreg_S by lia.
          destruct (eff k) as [rd v|bs| |a|rd v a|]; cbn [embed] in *; try discriminate; cbn [apply_eff];
            unfold reg_pair in *; destruct (Z.eqb_spec rd 0) as [->|]; cbn in E0; try lia; reflexivity.
        * destruct (Z.eqb_spec (Register (exe k)) r) as [Er|Ner].
          -- cbn [snd]. rewrite sreg_S by lia. rewrite Ev.
             assert (Ha : apply_eff (eff k) (sreg k) = rset (sreg k) r v) by (destruct He as [->|(a & ->)]; rewrite Er; reflexivity).
             rewrite Ha, nth_rset. destruct (Z.eqb_spec r 0); [lia|]. rewrite Nat.eqb_refl. cbn [negb andb].
             rewrite sreg_length, Hlen0. destruct (Nat.ltb_spec (Z.to_nat r) 32); [reflexivity | lia].
          -- rewrite IH. rewrite sreg_S by lia.
             assert (Ha : apply_eff (eff k) (sreg k) = rset (sreg k) (Register (exe k)) v) by (destruct He as [->|(a & ->)]; reflexivity).
             rewrite Ha, nth_rset. destruct (Nat.eqb_spec (Z.to_nat (Register (exe k))) (Z.to_nat r)) as [En|]; [|rewrite andb_false_r; reflexivity].
             exfalso. assert (Hw : wrs app k = [Register (exe k)]) by (apply eff_wrs; destruct He as [->|(a & ->)]; reflexivity).
             pose proof (wrs_rng app Hrng k (Register (exe k)) ltac:(rewrite Hw; left; reflexivity)). lia.
      + rewrite IH. symmetry. apply eff_nowr. unfold exe in Erc.
        destruct (eff k) as [rd v|bs| |a|rd v a|]; cbn [embed] in Erc; try exact I; unfold reg_pair in Erc; destruct (rd =? 0); discriminate.
  Qed.

  (* slot 0 of the tables: never anything but 0 *)
  Lemma view_zero w : nth 0 regs0 0 = 0 -> view w 0 = 0.
  Proof.
    intros H0. unfold view. induction w as [|k IH]; cbn [tv]; [cbn; exact H0|].
    destruct (RegisterChange (exe k)) eqn:Erc; cbn [andb]; [|exact IH].
    destruct (Z.eqb_spec (Register (exe k)) 0) as [E|]; [|exact IH]. cbn [snd].
    destruct (exe_reg k Erc) as [[_ Ev]|[Hnz _]]; [exact Ev | contradiction].
  Qed.

  (* a key outside x0..x31 is in neither table *)
  Lemma tv_rng w r : tv w r <> None -> 0 <= r < 32.
  Proof.
    induction w as [|k IH]; cbn [tv]; [congruence|].
    destruct (RegisterChange (exe k)) eqn:Erc; cbn [andb]; [|exact IH].
    destruct (Z.eqb_spec (Register (exe k)) r) as [E|]; [|exact IH]. intros _. subst r.
    destruct (exe_reg k Erc) as [[E0 _]|(Hnz & v & He & Ev)]; [lia|].
    assert (Hw : wrs app k = [Register (exe k)]) by (apply eff_wrs; destruct He as [->|(a & ->)]; reflexivity).
    apply (wrs_rng app Hrng k). rewrite Hw. left. reflexivity.
  Qed.

  Hypothesis Hr32 : Forall int32 regs0.

  Lemma exe_val_int32 k : int32 (RegisterValue (exe k)).
  Proof.
    unfold exe, Mvp60RefSem.eff, eff_at.
    destruct (exec (sinstr_of (ik k)) (rget (sreg k)) labels (pcz k) []) as [e| |] eqn:E; try apply int32_0.
    destruct e as [rd v|bs| |a|rd v a|]; cbn [embed]; try apply int32_0; unfold reg_pair; destruct (rd =? 0); cbn; try apply int32_0.
    - eapply exec_reg_range; exact E.
    - eapply exec_link_range; exact E.
  Qed.

  Lemma view_int32 w r : int32 (view w r).
  Proof.
    unfold view. destruct (tv w r) as [sv|] eqn:E.
    - revert E. induction w as [|k IH]; cbn [tv]; [discriminate|].
      destruct (RegisterChange (exe k) && (Register (exe k) =? r)); [|exact IH].
      intros H. injection H as <-. cbn [snd]. apply exe_val_int32.
    - destruct ((0 <=? r) && (r <? 32)); [|apply int32_0]. apply nth_Forall; [exact Hr32 | apply int32_0].
  Qed.

  (* the value a later reader of register r gets from the writer p of r *)
  Lemma fwd_value p k r : (p < k <= n)%nat -> In r (wrs app p) -> 0 < r ->
    (exists e, exec (sinstr_of (ik p)) (rget (sreg p)) labels (pcz p) [] = Ok e) ->
    rget (sreg k) r = RegisterValue (exe p).
  Proof.
    intros Hpk Hw Hr (e & He).
    pose proof (wrs_rng app Hrng p r Hw) as Hrr.
    assert (Hst : nth (Z.to_nat r) (sreg k) 0 = nth (Z.to_nat r) (sreg (S p)) 0).
    { apply sreg_stable; try lia. intros j Hj Hin. apply (wsl_in app Hrng j r Hr) in Hin.
      exact (ssa_waw app Hssa p j r ltac:(fold n; lia) Hw ltac:(lia) Hin). }
    rewrite rget_nth. destruct (Z.eqb_spec r 0); [lia|]. rewrite Hst, sreg_S by lia.
    pose proof (spec_writes_sound _ _ _ _ _ _ He) as Hws. unfold wrs in Hw. rewrite write_registers_exact in Hw.
    unfold exe, Mvp60RefSem.eff, eff_at. rewrite He.
    assert (Hfin : forall v, nth (Z.to_nat r) (rset (sreg p) r v) 0 = v).
    { intros v. rewrite nth_rset. destruct (Z.eqb_spec r 0); [lia|]. rewrite Nat.eqb_refl. cbn [negb andb].
      rewrite sreg_length, Hlen0. destruct (Nat.ltb_spec (Z.to_nat r) 32); [reflexivity | lia]. }
    destruct e as [rd v|bs| |a|rd v a|]; rewrite Hws in Hw; cbn [In] in Hw; try contradiction.
    - destruct Hw as [<-|[]]. cbn [apply_eff embed]. unfold reg_pair. destruct (Z.eqb_spec rd 0); [lia|]. cbn [RegisterValue]. apply Hfin.
    - destruct Hw as [<-|[]]. cbn [apply_eff embed]. unfold reg_pair. destruct (Z.eqb_spec rd 0); [lia|]. cbn [RegisterValue]. apply Hfin.
  Qed.
End Tv.
