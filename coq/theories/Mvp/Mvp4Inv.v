(* The invariant of the MVP-4 skeleton (Mvp4Skel.v) and basic facts about
   instructions that neither load nor store. *)
From Coq Require Import ZArith List Bool Lia.
From Maj Require Import Base.Outcome Base.GoInt Base.GoTypes Isa.Spec Isa.Embed Isa.Seq Isa.Refine.
From Maj Require Import Gen.Latency Gen.RiscTables Gen.Opcodes Comp.Cache.
From Maj Require Import Mvp.Mvp12 Mvp.Mvp12Proofs Mvp.Mvp3 Mvp.Mvp3Proofs Mvp.Mvp4 Mvp.Mvp4Skel.
Import ListNotations.
Open Scope Z_scope.

(* ------------------------------------------------------------------ *)
(* instructions                                                         *)

Definition Cmax : Z := 50.

Lemma cyc_of_bounds i : 1 <= cyc_of i <= Cmax.
Proof. destruct i; vm_compute; split; discriminate. Qed.

Lemma nomem_no_read i rr seq : nomem i = true -> instr_MemoryRead i rr seq = [].
Proof. destruct i; try reflexivity; intros H; vm_compute in H; discriminate H. Qed.

Lemma nomem_load_addrs i rr : nomem i = true -> load_addrs (sinstr_of i) rr = [].
Proof. intros H. rewrite <- (memory_read_exact i rr 0). apply nomem_no_read; assumption. Qed.

Lemma nomem_mem_ok i : nomem i = true -> mem_ok (sinstr_of i) [].
Proof. destruct i; try (intros _; split; [constructor | exact I]); intros H; vm_compute in H; discriminate H. Qed.

Lemma nomem_no_store i rr labels pc m bs : nomem i = true -> exec (sinstr_of i) rr labels pc m <> Ok (EStore bs).
Proof.
  destruct i; try (intros H; vm_compute in H; discriminate H); intros _; cbn [sinstr_of exec]; unfold branch;
    repeat match goal with
           | |- context [if ?c then _ else _] => destruct c
           | |- context [match labels ?l with Some _ => _ | None => _ end] => destruct (labels l)
           end; discriminate.
Qed.

Lemma write_regs_length i : (length (instr_WriteRegisters i) <= 1)%nat.
Proof. destruct i; cbn; lia. Qed.

Definition uncond (i : instr) : bool := InstructionType_IsUnconditionalBranch (instr_InstructionType i).
Definition condbr (i : instr) : bool := InstructionType_IsConditionalBranch (instr_InstructionType i).

(* which instructions can change the pc, and how the branch unit classifies them *)
Lemma exec_branch_class i rr labels pc m e :
  exec (sinstr_of i) rr labels pc m = Ok e ->
  match e with
  | EReg _ _ | EFall => uncond i = false
  | EGoto _ => uncond i = true \/ (uncond i = false /\ condbr i = true)
  | ELink _ _ _ => uncond i = true
  | _ => True
  end.
Proof.
  intros H. destruct i; cbn [sinstr_of exec] in H; unfold branch in H;
    repeat match type of H with
           | context [if ?c then _ else _] => destruct c
           | context [match labels ?l with Some _ => _ | None => _ end] => destruct (labels l)
           end; try discriminate; injection H as <-; try exact I; try reflexivity;
    solve [left; reflexivity | right; split; reflexivity].
Qed.

Lemma exec_return_is_ret i rr labels pc m e :
  exec (sinstr_of i) rr labels pc m = Ok e -> (e = EReturn <-> is_ret i = true).
Proof. intros H. exact (proj1 (wb_cost_instr _ _ _ _ _ _ H)). Qed.

(* ------------------------------------------------------------------ *)
(* the in-flight queue of the front end                                 *)

Definition olist {A} (o : option A) : list A := match o with Some x => [x] | None => [] end.
Definition q_sb {A} (b : sbus A) : list A := olist (sb_current b) ++ olist (sb_pending b).
Definition q_eu (e : eu_t) : list (instr * Z) := if eu_processing e then olist (eu_runner e) else [].
Definition q_parts (e : eu_t) (ebus : sbus (instr * Z)) (dbus : sbus Z) : list Z :=
  map snd (q_eu e) ++ map snd (q_sb ebus) ++ q_sb dbus.
Definition qlist (a : sk) : list Z := q_parts (k_eu a) (k_ebus a) (k_dbus a).

Definition consec4 (h : Z) (n : nat) : list Z := map (fun j => h + 4 * Z.of_nat j) (seq 0 n).

Definition entry_ok (app : list instr) (x : instr * Z) : Prop :=
  0 <= snd x /\ nth_error app (Z.to_nat (snd x / 4)) = Some (fst x).

Definition pwof (wb : option (list Z)) : list Z :=
  match wb with Some wr => pw_add zero_pw wr | None => zero_pw end.

(* the part of the invariant that speaks about the queue of length n starting at
   [head] and the fetch unit *)
Record FQ (app : list instr) (head : Z) (n : nat) (q : list Z) (f : fu_t) : Prop := mkFQ {
  q_eq : q = consec4 head n;
  q_pc : fu_complete f = false -> fu_pc f = head + 4 * Z.of_nat n;
  q_end : fu_complete f = true -> nlen app <= (head + 4 * Z.of_nat n) / 4;
  q_in2 : (2 <= n)%nat -> (head + 4 * (Z.of_nat n - 2)) / 4 < nlen app;
  q_in1 : (1 <= n)%nat -> fu_complete f = false -> (head + 4 * (Z.of_nat n - 1)) / 4 < nlen app }.

Record FInv (app : list instr) (head : Z) (a : sk) : Prop := mkF {
  f_head : 0 <= head < 2147483644;
  f_q : exists n, FQ app head n (qlist a) (k_fu a);
  f_ent : Forall (entry_ok app) (q_eu (k_eu a) ++ q_sb (k_ebus a));
  f_fu : fu_processing (k_fu a) = true -> 1 <= fu_remaining (k_fu a) <= MemoryAccess;
  f_eu : eu_processing (k_eu a) = true -> 1 <= eu_remaining (k_eu a) <= Cmax /\ eu_runner (k_eu a) <> None;
  f_pr : eu_pending_read (k_eu a) = false;
  f_l1i : IInv (k_l1i a);
  f_pw : k_pw a = pwof (k_wb a);
  f_wb : forall wr, k_wb a = Some wr -> (length wr <= 1)%nat }.

(* what a path must look like for the skeleton (no values involved): every pc
   but the last is the pc of a non-ret instruction, the last one is a ret or
   lies outside the text; all are in [0, 2^31 - 4) *)
Fixpoint path_wf (app : list instr) (path : list Z) : Prop :=
  match path with
  | [] => False
  | pc :: rest =>
      0 <= pc < 2147483644 /\
      match rest with
      | [] => match nth_error app (Z.to_nat (pc / 4)) with Some i => is_ret i = true | None => True end
      | _ :: _ => (exists i, nth_error app (Z.to_nat (pc / 4)) = Some i /\ is_ret i = false) /\ path_wf app rest
      end
  end.

(* ------------------------------------------------------------------ *)
(* consec4                                                              *)

Lemma consec4_length h n : length (consec4 h n) = n.
Proof. unfold consec4. rewrite map_length, seq_length. reflexivity. Qed.

Lemma consec4_S h n : consec4 h (S n) = h :: consec4 (h + 4) n.
Proof.
  unfold consec4. cbn [seq map]. rewrite <- seq_shift, map_map. f_equal; [lia|].
  apply map_ext. intros j. lia.
Qed.

Lemma consec4_snoc h n : consec4 h (S n) = consec4 h n ++ [h + 4 * Z.of_nat n].
Proof. unfold consec4. rewrite seq_S, map_app. reflexivity. Qed.

Lemma consec4_app h n m : consec4 h (n + m) = consec4 h n ++ consec4 (h + 4 * Z.of_nat n) m.
Proof.
  revert h. induction n as [|n IH]; intros h.
  - replace (h + 4 * Z.of_nat 0) with h by lia. reflexivity.
  - cbn [Nat.add]. rewrite !consec4_S, IH. cbn [app].
    replace (h + 4 * Z.of_nat (S n)) with (h + 4 + 4 * Z.of_nat n) by lia. reflexivity.
Qed.

Lemma app_inj_len {A} (a c b d : list A) : length a = length c -> a ++ b = c ++ d -> a = c /\ b = d.
Proof.
  revert c. induction a as [|x a IH]; intros [|y c] Hl H; cbn in *; try discriminate; auto.
  injection H as -> H. destruct (IH c ltac:(lia) H) as [-> ->]. auto.
Qed.

Lemma cons_inj {A} (x y : A) l m : x :: l = y :: m -> x = y /\ l = m.
Proof. intros H. inversion H. auto. Qed.

(* splitting a consecutive list at a known prefix *)
Lemma consec4_split l1 l2 h n : l1 ++ l2 = consec4 h n ->
  l1 = consec4 h (length l1) /\ l2 = consec4 (h + 4 * Z.of_nat (length l1)) (length l2) /\ n = (length l1 + length l2)%nat.
Proof.
  intros H. assert (Hn : n = (length l1 + length l2)%nat).
  { apply (f_equal (@length Z)) in H. rewrite app_length, consec4_length in H. lia. }
  subst n. rewrite consec4_app in H. apply app_inj_len in H as [H1 H2]; [|rewrite consec4_length; reflexivity].
  auto.
Qed.
