(* Refinement of MVP-6.2 to the sequential machine - part 6: non-vacuity examples and the findings
   that show why the hypotheses of Mvp62RefProofs.v are there (all by vm_compute on the faithful
   model Mvp62.v). *)
From Coq Require Import ZArith List Bool Lia.
From Maj Require Import Base.Outcome Base.GoInt Isa.Spec Isa.Seq Isa.Refine Gen.Opcodes.
From Maj Require Import Mvp.Mvp12 Mvp.Mvp12Proofs Mvp.Mvp4Skel Mvp.Mvp4Proofs Mvp.Mvp60 Mvp.Mvp61 Mvp.Mvp62 Mvp.Mvp60RefDefs Mvp.Mvp60RefProofs Mvp.Mvp60RefBranch
     Mvp.Mvp61RefFront Mvp.Mvp61RefProofs Mvp.Mvp62RefProofs.
Import ListNotations.
Open Scope Z_scope.

(* FINDING.  Why (nth 0 (regs st) 0 = 0): nop ; li x5,1 ; add x6,x5,x0 with ctx.Registers[zero] = 7.
   registerRead(ctx, forward, reg, 0) of proc/mvp6-2 returns forward.Value when reg == forward.Register,
   otherwise the Transaction entry / ctx.Registers[reg] - also for reg == zero.  With the empty Forward
   {zero, 0} the zero register reads 0; but the add is dispatched with x5 FORWARDED, its Forward is {x5, 1},
   and x0 is read from ctx.Registers: x6 = 1 + 7.  (The sequential machine and MVP-6.1's model read 0.) *)
Theorem mvp62_x0_refuted :
  let p := [SNop; SLi 5 1; SAdd 6 5 0] in
  let st := mk_arch (7 :: repeat 0 31) (repeat 0 8) in
  wf_app (map instr_of p) /\ straight (map instr_of p) = true /\ reg_only (map instr_of p) = true /\
  regs_in_range (map instr_of p) = true /\ length (regs st) = 32%nat /\ nth 0 (regs st) 0 = 7 /\
  exists st' tr c st6,
    seq_run 10 p no_lab st = Done st' tr /\
    mvp62_run 2 (ord_policy 0) 3000 (map instr_of p) no_lab st = MDone c st6 /\
    mvp61_run 2 (ord_policy 0) (pord_policy 0) 3000 (map instr_of p) no_lab st = MDone c st' /\
    rget (regs st') 6 = 1 /\ rget (regs st6) 6 = 8.
Proof.
  cbv zeta. split; [|split; [|split; [|split; [|split; [|split]]]]].
  - split; [|vm_compute; reflexivity]. repeat constructor; vm_compute; discriminate.
  - vm_compute. reflexivity.
  - vm_compute. reflexivity.
  - vm_compute. reflexivity.
  - vm_compute. reflexivity.
  - reflexivity.
  - do 4 eexists. split; [vm_compute; reflexivity|]. split; [vm_compute; reflexivity|]. split; [vm_compute; reflexivity|].
    vm_compute. split; reflexivity.
Qed.

(* programs WITH loads and stores: false at two or more execute units, as for MVP-6.0 / 6.1 (no memory
   dependence is tracked): lw x6,0(x0) ; li x5,7 ; sw x5,0(x0) ; lw x6,0(x0) : expected x6 = 7, mem[0] = 7 *)
Theorem mvp62_memory_order_refuted :
  let p := [SLw 6 0 0; SLi 5 7; SSw 5 0 0; SLw 6 0 0] in
  let st := mk_arch (repeat 0 32) (repeat 0 256) in
  wf_app (map instr_of p) /\ straight (map instr_of p) = true /\ regs_in_range (map instr_of p) = true /\
  exists st' tr st6,
    seq_run 20 p no_lab st = Done st' tr /\
    mvp62_run 2 (ord_policy 0) 5000 (map instr_of p) no_lab st = MDone 985 st6 /\
    rget (regs st') 6 = 7 /\ mget (mem st') 0 = 7 /\
    rget (regs st6) 6 = 0 /\ mget (mem st6) 0 = 0.
Proof.
  cbv zeta. split; [|split; [|split]].
  - split; [|vm_compute; reflexivity]. repeat constructor; vm_compute; discriminate.
  - vm_compute. reflexivity.
  - vm_compute. reflexivity.
  - do 3 eexists. split; [vm_compute; reflexivity|]. split; [vm_compute; reflexivity|]. vm_compute. repeat split; reflexivity.
Qed.

(* why (regs_in_range app): nop ; li x40,9 ; li x5,7 ; add x6,x40,x5.  Register 40 is not tracked by the
   32-slot scoreboard, so the add has ONE hazard (x5); both li were pushed in the previous cycle and
   shouldUseForwarding takes the first that matches - li x40 - : x40 is forwarded (9; sequentially x40
   does not exist and reads 0) and x5 is read before its producer has written back: x6 = 9, not 7. *)
Theorem mvp62_register_number_refuted :
  let p := [SNop; SLi 40 9; SLi 5 7; SAdd 6 40 5] in
  wf_app (map instr_of p) /\ straight (map instr_of p) = true /\ reg_only (map instr_of p) = true /\
  regs_in_range (map instr_of p) = false /\
  exists st' tr c st6,
    seq_run 10 p no_lab zero_state = Done st' tr /\
    mvp62_run 2 (ord_policy 0) 3000 (map instr_of p) no_lab zero_state = MDone c st6 /\
    rget (regs st') 6 = 7 /\ rget (regs st6) 6 = 9.
Proof.
  cbv zeta. split; [|split; [|split; [|split]]].
  - split; [|vm_compute; reflexivity]. repeat constructor; vm_compute; discriminate.
  - vm_compute. reflexivity.
  - vm_compute. reflexivity.
  - vm_compute. reflexivity.
  - do 4 eexists. split; [vm_compute; reflexivity|]. split; [vm_compute; reflexivity|]. vm_compute. split; reflexivity.
Qed.

(* why (length (regs st) = 32): li x7,5 ; addi x3,x7,1 with a register file of 5 entries.  ctx.Registers is a
   map: x7 exists in MVP-6.2 (and the final state has the 32 registers); the list-based sequential
   machine drops the write to x7 *)
Theorem mvp62_short_register_file_refuted :
  let p := [SLi 7 5; SAddi 3 7 1] in
  let st := mk_arch (repeat 0 5) (repeat 0 64) in
  wf_app (map instr_of p) /\ straight (map instr_of p) = true /\ reg_only (map instr_of p) = true /\
  regs_in_range (map instr_of p) = true /\
  exists st' tr c st6,
    seq_run 10 p no_lab st = Done st' tr /\
    mvp62_run 2 (ord_policy 0) 3000 (map instr_of p) no_lab st = MDone c st6 /\
    rget (regs st') 3 = 1 /\ rget (regs st6) 3 = 6 /\ length (regs st6) = 32%nat.
Proof.
  cbv zeta. split; [|split; [|split; [|split]]].
  - split; [|vm_compute; reflexivity]. repeat constructor; vm_compute; discriminate.
  - vm_compute. reflexivity.
  - vm_compute. reflexivity.
  - vm_compute. reflexivity.
  - do 4 eexists. split; [vm_compute; reflexivity|]. split; [vm_compute; reflexivity|]. vm_compute. repeat split; reflexivity.
Qed.

(* FINDING (as for MVP-6.0 / 6.1, SYS-wrong-path-error-6x): the forward theorem does not extend to div / rem.
   li x5,0 ; beq x5,x5,L ; div x6,x5,x5 ; L: li x7,9 - with two or more execute units the div is executed on the
   wrong path in the cycle in which the branch is resolved: Run returns "division by zero".  The speculative
   register state protects registers, not the error path. *)
Theorem mvp62_taken_branch_shadow_error_refuted :
  let app := map instr_of shadow_div_prog in
  wf_app app /\ reg_only app = true /\ regs_in_range app = true /\ one_forward_branch app shadow_labels = true /\
  exists st' tr,
    seq_run 10 (map sinstr_of app) shadow_labels zero_state = Done st' tr /\
    length tr = 3%nat /\ rget (regs st') 7 = 9 /\
    mvp62_run 1 (ord_policy 0) 3000 app shadow_labels zero_state = MDone 323 st' /\
    mvp62_run 2 (ord_policy 0) 3000 app shadow_labels zero_state = MErr EDivZero /\
    mvp62_run 3 (ord_policy 0) 3000 app shadow_labels zero_state = MErr EDivZero /\
    mvp62_run 4 (ord_policy 0) 3000 app shadow_labels zero_state = MErr EDivZero.
Proof.
  cbv zeta. split; [|split; [|split; [|split]]].
  - split; [|vm_compute; reflexivity]. repeat constructor; vm_compute; discriminate.
  - vm_compute. reflexivity.
  - vm_compute. reflexivity.
  - vm_compute. reflexivity.
  - do 2 eexists. split; [vm_compute; reflexivity|]. split; [reflexivity|]. split; [vm_compute; reflexivity|].
    split; [vm_compute; reflexivity|]. split; [vm_compute; reflexivity|]. split; vm_compute; reflexivity.
Qed.

(* non-vacuity, straight-line class: the example of Props/C01_mvp61.v (chained forwarded RAW dependences,
   WAW, WAR, a ret with an instruction behind it), three execute / write units *)
Definition ex62_prog : list sinstr :=
  [SLi 5 3; SAddi 6 5 1; SAdd 7 5 6; SLi 5 9; SMul 8 7 5; SAddi 7 8 2;
   SSub 9 7 5; SLi 8 1; SAdd 10 8 9; SMv 5 10; SXor 11 5 6; SAddi 12 11 1; SSlli 13 12 2; SRet; SLi 14 1].

Example mvp62_example :
  let app := map instr_of ex62_prog in
  wf_app app /\ straight app = true /\ reg_only app = true /\ regs_in_range app = true /\
  Forall int32 (regs zero_state) /\ length (regs zero_state) = 32%nat /\ nth 0 (regs zero_state) 0 = 0 /\
  exists st' tr c,
    seq_run 100 (map sinstr_of app) no_lab zero_state = Done st' tr /\
    mvp62_run 3 (ord_policy 0) (fuel_bound61 (length app)) app no_lab zero_state = MDone c st' /\
    length tr = 14%nat /\ c = 335 /\ (Z.of_nat (length tr) + 1) / 2 <= c /\
    rget (regs st') 5 = 57 /\ rget (regs st') 7 = 65 /\ rget (regs st') 13 = 248 /\ rget (regs st') 14 = 0.
Proof.
  cbv zeta. split; [|split; [|split; [|split; [|split; [|split; [|split]]]]]].
  - split; [|vm_compute; reflexivity]. cbn [map ex62_prog instr_of]. repeat constructor; vm_compute; discriminate.
  - vm_compute. reflexivity.
  - vm_compute. reflexivity.
  - vm_compute. reflexivity.
  - apply Forall_forall. intros x Hx. apply repeat_spec in Hx. subst x. apply int32_0.
  - vm_compute. reflexivity.
  - reflexivity.
  - do 3 eexists. split; [vm_compute; reflexivity|]. split; [vm_compute; reflexivity|].
    vm_compute. repeat split; try reflexivity; discriminate.
Qed.

(* non-vacuity, forward class - the register-only form of the README's example against speculative
   execution: li x7,4 ; li x5,3 ; beq x5,x5,L ; li x7,99 ; addi x8,x7,1 ; L: addi x9,x7,5 ; mul x10,x9,x9 ; ret ; li x11,1.
   The branch is TAKEN; its shadow writes x7, which is live afterwards (x9 = x7 + 5), and x8.  With three
   execute / write units the shadow is dispatched and executed; it leaves no trace: x7 = 4, x8 = 0, x9 = 9. *)
Definition exf62_prog : list sinstr := [SLi 7 4; SLi 5 3; SBeq 5 5 1; SLi 7 99; SAddi 8 7 1; SAddi 9 7 5; SMul 10 9 9; SRet; SLi 11 1].
Definition exf62_labels : Z -> option Z := lookup [(1, 20)].

Example mvp62_forward_example :
  let app := map instr_of exf62_prog in
  wf_app app /\ reg_only app = true /\ regs_in_range app = true /\ fwd_ok app exf62_labels = true /\ seq_ids_fit app /\
  Forall int32 (regs zero_state) /\ length (regs zero_state) = 32%nat /\ nth 0 (regs zero_state) 0 = 0 /\
  exists st' tr c,
    seq_run 100 (map sinstr_of app) exf62_labels zero_state = Done st' tr /\
    mvp62_run 3 (ord_policy 0) (fuel_bound61_fwd (length app)) app exf62_labels zero_state = MDone c st' /\
    length tr = 6%nat /\ c = 329 /\
    rget (regs st') 7 = 4 /\ rget (regs st') 8 = 0 /\ rget (regs st') 9 = 9 /\ rget (regs st') 10 = 81 /\ rget (regs st') 11 = 0.
Proof.
  cbv zeta. split; [|split; [|split; [|split; [|split; [|split; [|split; [|split]]]]]]].
  - split; [|vm_compute; reflexivity]. cbn [map exf62_prog instr_of]. repeat constructor; vm_compute; discriminate.
  - vm_compute. reflexivity.
  - vm_compute. reflexivity.
  - vm_compute. reflexivity.
  - vm_compute. reflexivity.
  - apply Forall_forall. intros x Hx. apply repeat_spec in Hx. subst x. apply int32_0.
  - vm_compute. reflexivity.
  - reflexivity.
  - do 3 eexists. split; [vm_compute; reflexivity|]. split; [vm_compute; reflexivity|].
    vm_compute. repeat split; reflexivity.
Qed.
