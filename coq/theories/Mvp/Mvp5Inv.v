(* The invariant of the MVP-5 skeleton (Mvp5Skel.v), and the units of the MVP-5
   front end expressed through those of MVP-4.

   The in-flight queue of MVP-4 (execute unit ++ execute bus ++ decode bus, the
   fetch unit continuing it) is split in two:
     - the DECODED part  A = execute unit ++ execute bus: consecutive pcs starting
       at the head of the path, an unconditional jump can only be its last entry,
       and the decode unit is stalled (pendingBranchResolution) iff it is;
     - the FETCHED part: the decode bus AS THE FETCH UNIT WILL SEE IT (emptied if
       the clean flag is set) and the fetch unit: consecutive pcs starting at some
       g; g continues A when the decode unit is not stalled; when it is stalled g
       is arbitrary (a sequential successor of the jump or a BTB prediction,
       possibly wrong) - that part is thrown away when the jump executes. *)
From Coq Require Import ZArith List Bool Lia.
From Maj Require Import Base.Outcome Base.GoInt Base.GoTypes Isa.Spec Isa.Embed Isa.Seq Isa.Refine.
From Maj Require Import Gen.Latency Gen.RiscTables Gen.Opcodes Comp.Cache.
From Maj Require Import Mvp.Mvp12 Mvp.Mvp12Proofs Mvp.Mvp3 Mvp.Mvp3Proofs Mvp.Mvp4 Mvp.Mvp5
     Mvp.Mvp4Skel Mvp.Mvp4Inv Mvp.Mvp4Units Mvp.Mvp4Front Mvp.Mvp5Skel.
Import ListNotations.
Open Scope Z_scope.

(* ------------------------------------------------------------------ *)
(* the fetch unit of MVP-5 is the one of MVP-4 behind the clean flag    *)

Definition to4 (f : fu5_t) : fu_t := mk_fu (f5_pc f) (f5_remaining f) (f5_complete f) (f5_processing f).
Definition of4 (f : fu_t) : fu5_t := mk_fu5 (fu_pc f) (fu_remaining f) (fu_complete f) (fu_processing f) false.
Definition dclean (f : fu5_t) (dbus : sbus Z) : sbus Z := if f5_clean f then sbus_empty else dbus.

Lemma to4_of4 f : to4 (of4 f) = f.
Proof. destruct f; reflexivity. Qed.

Lemma fu5_cycle_to4 app f l1i dbus :
  fu5_cycle app f l1i dbus =
  match fu_cycle app (to4 f) l1i (dclean f dbus) with
  | Ok (f', c, d) => Ok (of4 f', c, d)
  | Err e => Err e
  | Panic => Panic
  end.
Proof.
  destruct f as [pc rem cpl proc cl]. unfold fu5_cycle, fu_cycle, to4, dclean, of4.
  cbn [f5_pc f5_remaining f5_complete f5_processing f5_clean fu_pc fu_remaining fu_complete fu_processing].
  destruct cpl; [reflexivity|].
  destruct proc.
  - cbn [bind f5_pc f5_remaining f5_complete f5_processing fu_pc fu_remaining fu_complete fu_processing].
    destruct (rem - 1 =? 0); [destruct (sbus_can_add _)|]; reflexivity.
  - destruct (get_all l1i [pc] []) as [[c1 [bs|]]| |]; cbn [bind]; try reflexivity.
    + cbn [f5_pc f5_remaining f5_complete f5_processing fu_pc fu_remaining fu_complete fu_processing].
      destruct (1 - 1 =? 0); [destruct (sbus_can_add _)|]; reflexivity.
    + destruct (push_line c1 pc _) as [p| |]; cbn [bind]; reflexivity.
Qed.

Lemma fu5_cycle_inv app f l1i dbus fu1 l1i1 dbus1 :
  fu5_cycle app f l1i dbus = Ok (fu1, l1i1, dbus1) ->
  fu_cycle app (to4 f) l1i (dclean f dbus) = Ok (to4 fu1, l1i1, dbus1) /\ f5_clean fu1 = false.
Proof.
  rewrite fu5_cycle_to4. destruct (fu_cycle app (to4 f) l1i (dclean f dbus)) as [[[f' c] d]| |]; try discriminate.
  intros H. injection H as <- <- <-. rewrite to4_of4. split; reflexivity.
Qed.

(* ------------------------------------------------------------------ *)
(* the decode unit                                                      *)

Lemma du5_stalled app dbus ebus : du5_cycle app true dbus ebus = Ok (true, dbus, ebus).
Proof. reflexivity. Qed.

Lemma du5_false app dbus ebus du1 dbus2 ebus1 :
  du5_cycle app false dbus ebus = Ok (du1, dbus2, ebus1) ->
  du_cycle app dbus ebus = Ok (dbus2, ebus1) /\
  ((du1 = false /\ ebus1 = ebus) \/
   (exists i p, sbus_can_add ebus = true /\ ebus1 = sbus_add ebus (i, p) /\ du1 = uncond i)).
Proof.
  unfold du5_cycle, du_cycle. destruct (negb (sbus_can_add ebus)) eqn:Ea.
  { intros H. injection H as <- <- <-. auto. }
  apply negb_false_iff in Ea.
  destruct (sbus_get dbus) as [dbus' got]. destruct got as [pc|].
  2:{ intros H. injection H as <- <- <-. auto. }
  destruct (nlen app <=? Z.quot pc 4). { intros H. injection H as <- <- <-. auto. }
  destruct (Z.quot pc 4 <? 0); [discriminate|].
  destruct (nth_error app (Z.to_nat (Z.quot pc 4))) as [i|]; [|discriminate].
  intros H. injection H as <- <- <-. split; [reflexivity|]. right. exists i, pc. auto.
Qed.

Lemma du5_false_ok app dbus ebus dbus2 ebus1 :
  du_cycle app dbus ebus = Ok (dbus2, ebus1) -> exists du1, du5_cycle app false dbus ebus = Ok (du1, dbus2, ebus1).
Proof.
  unfold du5_cycle, du_cycle. destruct (negb (sbus_can_add ebus)).
  { intros H. injection H as <- <-. eauto. }
  destruct (sbus_get dbus) as [dbus' got]. destruct got as [pc|].
  2:{ intros H. injection H as <- <-. eauto. }
  destruct (nlen app <=? Z.quot pc 4). { intros H. injection H as <- <-. eauto. }
  destruct (Z.quot pc 4 <? 0); [discriminate|].
  destruct (nth_error app (Z.to_nat (Z.quot pc 4))) as [i|]; [|discriminate].
  intros H. injection H as <- <-. eauto.
Qed.

(* ------------------------------------------------------------------ *)
(* the decode stall flag against the decoded part of the queue          *)

Definition nonunc (x : instr * Z) : Prop := uncond (fst x) = false.

Inductive du_ok : bool -> list (instr * Z) -> Prop :=
| DU_plain A : Forall nonunc A -> du_ok false A
| DU_jump A j : Forall nonunc A -> uncond (fst j) = true -> du_ok true (A ++ [j]).

Lemma du_ok_false A : du_ok false A -> Forall nonunc A.
Proof. intros H. inversion H. assumption. Qed.

Lemma du_ok_true A : du_ok true A -> A <> [].
Proof. intros H. inversion H. destruct A0; discriminate. Qed.

Lemma du_ok_snoc A y : Forall nonunc A -> du_ok (uncond (fst y)) (A ++ [y]).
Proof.
  intros H. destruct (uncond (fst y)) eqn:E.
  - apply DU_jump; assumption.
  - apply DU_plain. apply Forall_app. split; [assumption|]. constructor; [exact E | constructor].
Qed.

Lemma du_ok_head_unc du x A : du_ok du (x :: A) -> uncond (fst x) = true -> A = [] /\ du = true.
Proof.
  intros H Hx. remember (x :: A) as L eqn:EL. destruct H as [B HB|B j HB Hj].
  - subst B. apply Forall_inv in HB. unfold nonunc in HB. congruence.
  - destruct B as [|b B]; cbn in EL; injection EL as E1 E2; subst.
    + auto.
    + apply Forall_inv in HB. unfold nonunc in HB. congruence.
Qed.

Lemma du_ok_tail du x A : du_ok du (x :: A) -> uncond (fst x) = false -> du_ok du A.
Proof.
  intros H Hx. remember (x :: A) as L eqn:EL. destruct H as [B HB|B j HB Hj].
  - subst B. apply DU_plain. eapply Forall_inv_tail. exact HB.
  - destruct B as [|b B]; cbn in EL; injection EL as E1 E2; subst.
    + congruence.
    + apply DU_jump; [eapply Forall_inv_tail; exact HB | exact Hj].
Qed.

(* ------------------------------------------------------------------ *)
(* the branch target buffer                                             *)

Definition btb_ok (b : list (Z * Z)) : Prop := Forall (fun e => 0 <= snd e < 2147483644) b.

Lemma btb_get_ok b pc t : btb_ok b -> btb_get b pc = Some t -> 0 <= t < 2147483644.
Proof.
  induction b as [|[p d] b IH]; cbn [btb_get]; [discriminate|]. intros H. inversion H; subst.
  destruct (p =? pc); [intros E; injection E as <-; assumption | apply IH; assumption].
Qed.

Lemma btb_update_ok b pc d b' : btb_ok b -> 0 <= d < 2147483644 -> btb_update b pc d = Some b' -> btb_ok b'.
Proof.
  revert b'. induction b as [|[p x] b IH]; intros b' H Hd; cbn [btb_update]; [discriminate|]. inversion H; subst.
  destruct (p =? pc).
  - intros E. injection E as <-. constructor; assumption.
  - destruct (btb_update b pc d) as [t'|]; [|discriminate]. intros E. injection E as <-.
    constructor; [assumption|]. apply IH; auto.
Qed.

Lemma btb_add_ok b pc d : btb_ok b -> 0 <= d < 2147483644 -> btb_ok (btb_add b pc d).
Proof.
  intros H Hd. unfold btb_add. destruct (btb_update b pc d) as [b'|] eqn:E.
  - eapply btb_update_ok; eassumption.
  - assert (Hn : btb_ok [(pc, d)]) by (constructor; [exact Hd | constructor]).
    destruct (Nat.eqb (length b) btb_length); apply Forall_app; split; auto.
    destruct b; [constructor|]. inversion H; assumption.
Qed.

(* ------------------------------------------------------------------ *)
(* the invariant                                                        *)

Definition aq (a : sk5) : list (instr * Z) := q_eu (k5_eu a) ++ q_sb (k5_ebus a).

Record F5 (app : list instr) (head : Z) (a : sk5) : Prop := mkF5 {
  g_head : 0 <= head < 2147483644;
  g_A : map snd (aq a) = consec4 head (length (aq a));
  g_q : exists g n, FQ app g n (q_sb (dclean (k5_fu a) (k5_dbus a))) (to4 (k5_fu a)) /\ 0 <= g < 2147483644 /\
                    (k5_du a = false -> g = head + 4 * Z.of_nat (length (aq a)));
  g_du : du_ok (k5_du a) (aq a);
  g_ent : Forall (entry_ok app) (aq a);
  g_fu : f5_processing (k5_fu a) = true -> 1 <= f5_remaining (k5_fu a) <= MemoryAccess;
  g_eu : eu_processing (k5_eu a) = true -> 1 <= eu_remaining (k5_eu a) <= Cmax /\ eu_runner (k5_eu a) <> None;
  g_pr : eu_pending_read (k5_eu a) = false;
  g_l1i : IInv (k5_l1i a);
  g_pw : k5_pw a = pwof (k5_wb a);
  g_wb : forall wr, k5_wb a = Some wr -> (length wr <= 1)%nat;
  g_btb : btb_ok (k5_btb a) }.

(* the fetched part right after a redirect of the fetch unit to t *)
Lemma fq_reset app f t : FQ app t 0 (q_sb (dclean (fu5_reset f t) sbus_empty)) (to4 (fu5_reset f t)).
Proof.
  constructor; cbn [fu5_reset to4 dclean f5_clean f5_pc f5_complete fu_pc fu_complete]; try discriminate; try lia.
  reflexivity.
Qed.

Lemma dclean_reset f t d : dclean (fu5_reset f t) d = sbus_empty.
Proof. reflexivity. Qed.
