(* Refinement of MVP-6.0 to the sequential machine on register-only programs
   (straight-line segments between flushes) - part 4: the back end.  The in-flight
   instructions are read off the machine state (execute bus, execute units that hold a
   runner, write bus); the control unit (cu_cycle_spec, dispN_back), the execute units
   (exec_res, eu_exec1, eus_t1: idle units that execute at once, branches and jumps
   included) and the write units (wu_step, wus_ok; wu_flush_step for the write-back
   loop before a flush, with its invariant FlushI) keep the invariant BackSem /
   BackSemW of Mvp60RefSem.v about them. *)
From Coq Require Import ZArith List Bool Lia Permutation.
From Maj Require Import Base.Outcome Base.GoInt Base.GoTypes Isa.Spec Isa.Embed Isa.Seq Isa.Refine.
From Maj Require Import Gen.Latency Gen.RiscTables Gen.Opcodes Comp.Cache.
From Maj Require Import Mvp.Mvp12 Mvp.Mvp12Proofs Mvp.Mvp3 Mvp.Mvp3Proofs Mvp.Mvp4Skel Mvp.Mvp4Inv Mvp.Mvp5 Mvp.Mvp60
     Mvp.Mvp60RefSem Mvp.Mvp60RefDefs Mvp.Mvp60RefFront.
Import ListNotations.
Open Scope Z_scope.

(* ------------------------------------------------------------------ *)
(* the control unit as a list of dispatches (no invariant involved)     *)

(* pushRunner + AddPendingRegisters *)
Definition disp1 (m : mach) (c : Z) (r : runner) : mach :=
  add_pending6 (set_ebus m (bb_add (m_ebus m) r c)) (instr_ReadRegisters (r_instr r)) (instr_WriteRegisters (r_instr r)).
Definition dispN (m : mach) (c : Z) (l : list runner) : mach := fold_left (fun m r => disp1 m c r) l m.

Fixpoint pushable (m : mach) (c pushed : Z) (pre : list runner) : Prop :=
  match pre with
  | [] => True
  | r :: t => handle_runner m c pushed r = (true, false, disp1 m c r) /\ pushable (disp1 m c r) c (pushed + 1) t
  end.

Lemma handle_cases m c pushed r :
  handle_runner m c pushed r = (true, false, disp1 m c r) \/ handle_runner m c pushed r = (false, true, m).
Proof.
  unfold handle_runner, disp1.
  destruct ((instr_InstructionType (r_instr r) =? Ret) && negb (bb_isempty (m_ebus m))); [right; reflexivity|].
  destruct ((0 <? pushed) && InstructionType_IsBranch (instr_InstructionType (r_instr r))); [right; reflexivity|].
  destruct (has_hazard6 m _ _); [right | left]; reflexivity.
Qed.

Lemma dispN_app m c l l' : dispN m c (l ++ l') = dispN (dispN m c l) c l'.
Proof. unfold dispN. apply fold_left_app. Qed.

Lemma pushable_app m c pushed l l' :
  pushable m c pushed l -> pushable (dispN m c l) c (pushed + zlen l) l' -> pushable m c pushed (l ++ l').
Proof.
  revert m pushed. induction l as [|r t IH]; intros m pushed H1 H2; cbn [List.app].
  - cbn [dispN fold_left] in H2. rewrite zlen_nil, Z.add_0_r in H2. exact H2.
  - destruct H1 as [Ha Hb]. split; [exact Ha|]. apply IH; [exact Hb|].
    cbn [dispN fold_left] in H2. rewrite zlen_cons in H2. replace (pushed + 1 + zlen t) with (pushed + (zlen t + 1)) by lia. exact H2.
Qed.

Definition is_nil {A} (l : list A) : bool := match l with [] => true | _ => false end.

Lemma cu_pending_spec' : forall ps kept m c rem pushed,
  exists pre rest, ps = pre ++ rest /\ pushable m c pushed pre /\
    cu_pending ps kept m c rem pushed
    = (negb (is_nil rest), rem - zlen pre, pushed + zlen pre, rev kept ++ rest, dispN m c pre) /\
    (forall r t, rest = r :: t ->
       handle_runner (dispN m c pre) c (pushed + zlen pre) r = (false, true, dispN m c pre)).
Proof.
  induction ps as [|r t IH]; intros kept m c rem pushed.
  - exists [], []. cbn [cu_pending List.app pushable is_nil negb dispN fold_left]. rewrite zlen_nil, app_nil_r, !Z.sub_0_r, Z.add_0_r.
    repeat split. intros r t H. discriminate H.
  - cbn [cu_pending]. destruct (handle_cases m c pushed r) as [E|E]; rewrite E.
    + destruct (IH kept (disp1 m c r) c (rem - 1) (pushed + 1)) as (pre & rest & -> & Hp & Ec & Hr).
      exists (r :: pre), rest. split; [reflexivity|]. split; [split; assumption|]. rewrite Ec, zlen_cons. cbn [dispN fold_left].
      replace (rem - (zlen pre + 1)) with (rem - 1 - zlen pre) by lia.
      replace (pushed + (zlen pre + 1)) with (pushed + 1 + zlen pre) by lia.
      split; [reflexivity|]. exact Hr.
    + exists [], (r :: t). cbn [List.app pushable is_nil negb dispN fold_left rev]. rewrite zlen_nil, !Z.sub_0_r, Z.add_0_r, <- app_assoc.
      repeat split. intros r0 t0 E0. injection E0 as <- <-. exact E.
Qed.

(* the loop over the control bus: either it runs dry / out of slots, or the first runner that
   cannot be pushed moves to the pending queue *)
Lemma cu_incoming_spec' : forall q pend m c rem pushed, zlen pend < pendingLength ->
  exists pre rest, q = pre ++ rest /\ pushable m c pushed pre /\ zlen pre <= Z.max rem 0 /\
    ((cu_incoming q pend m c rem pushed = (rest, pend, dispN m c pre) /\ (rest = [] \/ rem - zlen pre <= 0)) \/
     (exists r q', rest = r :: q' /\ 0 < rem - zlen pre /\
        handle_runner (dispN m c pre) c (pushed + zlen pre) r = (false, true, dispN m c pre) /\
        cu_incoming q pend m c rem pushed = (q', pend ++ [r], dispN m c pre))).
Proof.
  induction q as [|r q IH]; intros pend m c rem pushed Hpend.
  - exists [], []. cbn [List.app pushable dispN fold_left]. rewrite zlen_nil. repeat split; [lia|].
    left. split; [|left; reflexivity]. cbn [cu_incoming]. destruct (negb _); reflexivity.
  - cbn [cu_incoming].
    assert (Hfull : (pendingLength <=? zlen pend) = false) by (apply Z.leb_gt; exact Hpend). rewrite Hfull. cbn [negb].
    rewrite andb_true_r. destruct (Z.ltb_spec 0 rem) as [Hrem|Hrem]; cbn [negb].
    2:{ exists [], (r :: q). cbn [List.app pushable dispN fold_left]. rewrite zlen_nil. repeat split; [lia|].
        left. split; [reflexivity | right; lia]. }
    destruct (handle_cases m c pushed r) as [E|E]; rewrite E.
    + destruct (IH pend (disp1 m c r) c (rem - 1) (pushed + 1) Hpend) as (pre & rest & -> & Hp & Hlen & Hcase).
      exists (r :: pre), rest. split; [reflexivity|]. split; [split; assumption|]. rewrite zlen_cons. split; [lia|].
      cbn [dispN fold_left]. replace (rem - (zlen pre + 1)) with (rem - 1 - zlen pre) by lia.
      replace (pushed + (zlen pre + 1)) with (pushed + 1 + zlen pre) by lia. exact Hcase.
    + exists [], (r :: q). cbn [List.app pushable dispN fold_left]. rewrite zlen_nil. repeat split; [lia|].
      right. exists r, q. rewrite Z.sub_0_r, Z.add_0_r. repeat split; [exact Hrem | exact E].
Qed.

(* projections of a dispatched machine *)
Lemma disp1_proj m c r :
  m_regs (disp1 m c r) = m_regs m /\ m_mem (disp1 m c r) = m_mem m /\ m_l1i (disp1 m c r) = m_l1i m /\
  m_l3 (disp1 m c r) = m_l3 m /\ m_pend (disp1 m c r) = m_pend m /\ m_fu (disp1 m c r) = m_fu m /\
  m_dret (disp1 m c r) = m_dret m /\ m_dpbr (disp1 m c r) = m_dpbr m /\ m_cu (disp1 m c r) = m_cu m /\
  m_bu (disp1 m c r) = m_bu m /\ m_dbus (disp1 m c r) = m_dbus m /\ m_cbus (disp1 m c r) = m_cbus m /\
  m_wbus (disp1 m c r) = m_wbus m /\ m_ebus (disp1 m c r) = bb_add (m_ebus m) r c.
Proof. repeat split. Qed.

Lemma dispN_proj c l : forall m,
  m_regs (dispN m c l) = m_regs m /\ m_mem (dispN m c l) = m_mem m /\ m_l1i (dispN m c l) = m_l1i m /\
  m_l3 (dispN m c l) = m_l3 m /\ m_pend (dispN m c l) = m_pend m /\ m_fu (dispN m c l) = m_fu m /\
  m_dret (dispN m c l) = m_dret m /\ m_dpbr (dispN m c l) = m_dpbr m /\ m_cu (dispN m c l) = m_cu m /\
  m_bu (dispN m c l) = m_bu m /\ m_dbus (dispN m c l) = m_dbus m /\ m_cbus (dispN m c l) = m_cbus m /\
  m_wbus (dispN m c l) = m_wbus m /\ m_ebus (dispN m c l) = bus_push (m_ebus m) (c + 1) l.
Proof.
  induction l as [|r t IH]; intros m.
  - cbn [dispN fold_left]. rewrite bus_push_nil. repeat split.
  - cbn [dispN fold_left]. fold (dispN (disp1 m c r) c t). destruct (IH (disp1 m c r)) as (H1&H2&H3&H4&H5&H6&H7&H8&H9&H10&H11&H12&H13&H14).
    rewrite H1,H2,H3,H4,H5,H6,H7,H8,H9,H10,H11,H12,H13,H14. repeat split.
    unfold disp1, add_pending6, set_sb, set_ebus, bus_push, bb_add, stamped. cbn [m_ebus bb_buf bb_q bb_ql bb_bl map].
    rewrite <- app_assoc. reflexivity.
Qed.

(* controlUnit.cycle *)
Lemma cu_cycle_spec c m : (length (m_cu m) <= 1)%nat -> bb_bl (m_ebus m) = 2 -> blen (m_ebus m) <= 2 ->
  (bb_canadd (m_ebus m) = false /\ cu_cycle6 c m = m) \/
  (bb_canadd (m_ebus m) = true /\
   exists pre cu' q',
     m_cu m ++ bb_q (m_cbus m) = pre ++ cu' ++ q' /\ pushable m c 0 pre /\
     (length cu' <= 1)%nat /\ zlen pre <= 2 - blen (m_ebus m) /\
     cu_cycle6 c m = set_cu (set_cbus (dispN m c pre)
                                      (mk_bb (bb_buf (m_cbus m)) q' (bb_ql (m_cbus m)) (bb_bl (m_cbus m)))) cu' /\
     6 * zlen cu' + 7 * zlen q' + 5 * zlen pre <= 6 * zlen (m_cu m) + 7 * zlen (bb_q (m_cbus m)) /\
     (6 * zlen cu' + 7 * zlen q' + 5 * zlen pre < 6 * zlen (m_cu m) + 7 * zlen (bb_q (m_cbus m)) \/
      (m_cu m = [] /\ bb_q (m_cbus m) = []) \/
      (exists r t, m_cu m = r :: t /\ handle_runner m c 0 r = (false, true, m)))).
Proof.
  intros Hcu Hbl Hblen. unfold cu_cycle6. destruct (bb_canadd (m_ebus m)) eqn:Eadd; cbn [negb]; [right | left; auto].
  split; [reflexivity|].
  assert (Hrem : 0 < bb_remaining (m_ebus m) <= 2 - blen (m_ebus m)).
  { unfold bb_remaining, bb_canadd, blen in *. apply negb_true_iff, Z.eqb_neq in Eadd. lia. }
  destruct (cu_pending_spec' (m_cu m) [] m c (bb_remaining (m_ebus m)) 0) as (pre1 & rest1 & E1 & Hp1 & Ec1 & Hb1).
  rewrite Ec1. cbn [rev List.app]. destruct rest1 as [|r1 t1]; cbn [is_nil negb].
  - (* the pending queue was emptied: go on with the control bus *)
    rewrite app_nil_r in E1.
    destruct (dispN_proj c pre1 m) as (_&_&_&_&_&_&_&_&_&_&_&Hcb&_&_). rewrite Hcb.
    assert (Hl1 : zlen pre1 <= 1) by (rewrite <- E1; unfold zlen; lia).
    destruct (cu_incoming_spec' (bb_q (m_cbus m)) [] (dispN m c pre1) c (bb_remaining (m_ebus m) - zlen pre1) (0 + zlen pre1)
                ltac:(rewrite (@zlen_nil runner); unfold pendingLength; lia)) as (pre2 & rest2 & E2 & Hp2 & Hl2 & Hcase).
    pose proof (zlen_ge0 pre1). pose proof (zlen_ge0 pre2).
    destruct Hcase as [(Ei & Hstop) | (r & q' & Er & Hpos & Hblk & Ei)]; rewrite Ei.
    + exists (pre1 ++ pre2), [], rest2. rewrite <- dispN_app. destruct (dispN_proj c (pre1 ++ pre2) m) as (_&_&_&_&_&_&_&_&_&_&_&Hcb2&_&_).
      rewrite Hcb2. rewrite E1, E2, <- app_assoc. cbn [List.app length].
      split; [reflexivity|]. split; [apply pushable_app; assumption|]. split; [lia|].
      rewrite !zlen_app, (@zlen_nil runner). split; [lia|]. split; [reflexivity|]. split; [lia|].
      destruct (Z.eq_dec (zlen pre1 + zlen pre2) 0) as [Ez|Enz]; [|left; lia].
      right. left. assert (zlen pre1 = 0) by lia. assert (zlen pre2 = 0) by lia.
      rewrite (zlen_zero pre1), (zlen_zero pre2) in * by assumption. cbn [List.app] in *. split; [reflexivity|].
      rewrite (@zlen_nil runner) in *. destruct Hstop as [Hx|Hx]; [exact Hx | lia].
    + exists (pre1 ++ pre2), [r], q'. rewrite <- dispN_app. destruct (dispN_proj c (pre1 ++ pre2) m) as (_&_&_&_&_&_&_&_&_&_&_&Hcb2&_&_).
      rewrite Hcb2. rewrite E1, E2, Er, <- app_assoc. cbn [List.app length].
      split; [reflexivity|]. split; [apply pushable_app; assumption|]. split; [lia|].
      rewrite !zlen_app, !zlen_cons, (@zlen_nil runner). split; [lia|]. split; [reflexivity|]. split; [lia|]. left. lia.
  - (* stopped inside the pending queue *)
    assert (Hlen : (length pre1 + length (r1 :: t1) <= 1)%nat) by (rewrite <- app_length, <- E1; exact Hcu).
    cbn [length] in Hlen. assert (pre1 = []) by (destruct pre1; [reflexivity | cbn [length] in Hlen; lia]). subst pre1.
    assert (t1 = []) by (destruct t1; [reflexivity | cbn [length] in Hlen; lia]). subst t1.
    cbn [List.app] in E1. specialize (Hb1 r1 [] eq_refl). cbn [dispN fold_left] in Hb1. rewrite (@zlen_nil runner) in Hb1.
    exists [], [r1], (bb_q (m_cbus m)). rewrite E1. cbn [List.app dispN fold_left length].
    split; [reflexivity|]. split; [exact I|]. split; [lia|]. rewrite (@zlen_nil runner). split; [lia|].
    split; [destruct m; cbn; destruct m_cbus; reflexivity|]. split; [lia|].
    right. right. exists r1, []. split; [reflexivity | exact Hb1].
Qed.

Ltac perm_nat :=
  apply (Permutation_count_occ Nat.eq_dec); intros ?x; rewrite ?count_occ_app; cbn [count_occ];
  rewrite ?count_occ_app; cbn [count_occ];
  repeat match goal with |- context [Nat.eq_dec ?a ?b] => destruct (Nat.eq_dec a b) end; lia.

(* ------------------------------------------------------------------ *)
(* the in-flight instructions of a machine state                        *)

Definition kr (r : runner) : nat := Z.to_nat (r_pc r / 4).
Definition kw (x : wb6) : nat := Z.to_nat (w_seq x / 4).

Definition eu_prep (e : eu6) : list runner :=
  match e_co e with
  | EPrepare => match e_runner e with Some r => [r] | None => [] end
  | _ => []
  end.
Definition eul (eus : list eu6) : list runner := flat_map eu_prep eus.

Lemma eul_app a b : eul (a ++ b) = eul a ++ eul b.
Proof. unfold eul. apply flat_map_app. Qed.
Lemma eul_cons e t : eul (e :: t) = eu_prep e ++ eul t.
Proof. reflexivity. Qed.

Definition FL (m : mach) (eus : list eu6) : list nat :=
  map kr (flat (m_ebus m)) ++ map kr (eul eus) ++ map kw (flat (m_wbus m)).

Lemma filter_all {A} (f : A -> bool) l : forallb f l = true -> filter f l = l.
Proof.
  induction l as [|x t IH]; [reflexivity|]. cbn [forallb filter]. intros H. apply andb_prop in H as [A1 A2].
  rewrite A1, (IH A2). reflexivity.
Qed.

Definition etarget (e : effect) : option Z :=
  match e with EGoto a | ELink _ _ a => Some a | _ => None end.

Lemma btb_get_none btb bound pc : Forall (fun e => fst e < bound) btb -> bound <= pc -> btb_get btb pc = None.
Proof.
  induction 1 as [|[p d] t Hp _ IH]; intros Hpc; cbn [btb_get]; [reflexivity|]. cbn [fst] in Hp.
  destruct (Z.eqb_spec p pc); [lia | apply IH; exact Hpc].
Qed.

Lemma btb_update_forall (P : Z * Z -> Prop) pc dest : forall b b', Forall P b -> P (pc, dest) ->
  (forall p d, P (p, d) -> p = pc -> P (p, dest)) -> btb_update b pc dest = Some b' -> Forall P b'.
Proof.
  induction b as [|[p d] t IH]; intros b' Hb Hn Hsame H; cbn [btb_update] in H; [discriminate|].
  inversion Hb as [|x l Hx Ht]; subst. destruct (Z.eqb_spec p pc) as [->|Hne].
  - injection H as <-. constructor; [apply (Hsame pc d Hx eq_refl) | exact Ht].
  - destruct (btb_update t pc dest) as [t'|] eqn:E; [|discriminate]. injection H as <-. constructor; [exact Hx|]. eapply IH; eauto.
Qed.

Lemma btb_add_bound btb bound pc dest : Forall (fun e => fst e < bound) btb -> pc < bound ->
  Forall (fun e => fst e < bound) (btb_add btb pc dest).
Proof.
  intros Hb Hpc. unfold btb_add. destruct (btb_update btb pc dest) as [b'|] eqn:E.
  - eapply btb_update_forall; [exact Hb | exact Hpc | | exact E]. cbn [fst]. intros. lia.
  - destruct (Nat.eqb (length btb) btb_length).
    + apply Forall_app. split; [|constructor; [exact Hpc | constructor]]. destruct btb; [constructor | inversion Hb; assumption].
    + apply Forall_app. split; [exact Hb | constructor; [exact Hpc | constructor]].
Qed.

Section Back.
  (* [base]: start of the current straight-line segment, [regs0]: the registers there;
     N: where the decode unit stops (first ret or unconditional jump at or after base) *)
  Variables (app : list instr) (labels : Z -> option Z) (regs0 mem0 : list Z) (base : nat).
  Hypothesis Happ : wf_app app.
  Hypothesis Hreg : reg_only app = true.
  Hypothesis Hlen0 : (length regs0 <= 32)%nat.
  Hypothesis Hbase : (base <= length app)%nat.
  Let n := length app.
  Let N := stop_from app base.

  Notation sreg := (sreg app labels regs0 base).
  Notation eff := (eff app labels regs0 base).
  Notation rn := (rn app).
  Notation ik := (ik app).
  Notation wsl := (wsl app).
  Notation rsl := (rsl app).
  Notation BackSem := (BackSem app labels regs0 base).

  (* along the fall-through path of the segment, up to the instruction at which the decode
     unit stops, no instruction fails, and control transfers go forward, to an aligned
     address in the text or just behind it *)
  Hypothesis Hsem : forall k, (base <= k <= N)%nat -> (k < n)%nat ->
    exec (sinstr_of (ik k)) (rget (sreg k)) labels (pcz k) [] = Ok (eff k) /\
    (forall a, etarget (eff k) = Some a -> exists t, a = pcz t /\ (k < t <= n)%nat).

  Definition wbn (k : nat) : wb6 :=
    mk_wb6 (pcz k) (embed (eff k)) (instr_ReadRegisters (ik k)) (instr_WriteRegisters (ik k)).

  Lemma kr_rn k : kr (rn k) = k.
  Proof. unfold kr, Mvp60RefFront.rn. cbn [r_pc]. rewrite pcz_div. apply Nat2Z.id. Qed.
  Lemma kw_wbn k : kw (wbn k) = k.
  Proof. unfold kw, wbn. cbn [w_seq]. rewrite pcz_div. apply Nat2Z.id. Qed.

  Lemma ik_nomem k : nomem (ik k) = true.
  Proof.
    unfold Mvp60RefSem.ik. destruct (Nat.lt_ge_cases k n) as [H|H].
    - unfold reg_only in Hreg. rewrite forallb_forall in Hreg. apply Hreg. apply nth_In. exact H.
    - rewrite nth_overflow by exact H. reflexivity.
  Qed.

  Lemma N_le_n : (N <= n)%nat. Proof. apply stop_from_le. exact Hbase. Qed.
  Lemma base_le_N : (base <= N)%nat. Proof. apply stop_from_ge. Qed.

  Lemma ret_slots k : is_ret (ik k) = true -> rsl k = [] /\ wsl k = [].
  Proof.
    intros H. destruct (is_ret_regs _ H) as [A B]. unfold Mvp60RefSem.rsl, Mvp60RefSem.wsl.
    rewrite A, B. auto.
  Qed.

  (* facts about the effect of an instruction of the segment *)
  Lemma eff_ret k : (base <= k <= N)%nat -> (k < n)%nat -> (eff k = EReturn <-> is_ret (ik k) = true).
  Proof. intros H1 H2. destruct (Hsem k H1 H2) as [He _]. eapply exec_return_is_ret. exact He. Qed.

  Lemma eff_nostore k bs : (base <= k <= N)%nat -> (k < n)%nat -> eff k <> EStore bs.
  Proof. intros H1 H2 E. destruct (Hsem k H1 H2) as [He _]. rewrite E in He. exact (nomem_no_store _ _ _ _ _ _ (ik_nomem k) He). Qed.

  Lemma eff_kind k : (base <= k <= N)%nat -> (k < n)%nat ->
    match eff k with
    | EReg _ _ | EFall => is_jump (ik k) = false
    | EGoto _ => is_jump (ik k) = true \/ (is_jump (ik k) = false /\ condbr (ik k) = true)
    | ELink _ _ _ => is_jump (ik k) = true
    | _ => True
    end.
  Proof. intros H1 H2. destruct (Hsem k H1 H2) as [He _]. exact (exec_branch_class _ _ _ _ _ _ He). Qed.

  Lemma eff_writes k s : (base <= k <= N)%nat -> (k < n)%nat -> In s (wsl k) -> eff_writes_reg (eff k).
  Proof.
    intros H1 H2 Hs. destruct (Hsem k H1 H2) as [He _]. pose proof (spec_writes_sound _ _ _ _ _ _ He) as Hw.
    unfold Mvp60RefSem.wsl in Hs. rewrite write_registers_exact in Hs.
    destruct (eff k); try (rewrite Hw in Hs; destruct Hs); [left | right]; eauto.
  Qed.

  Lemma pcz_int32 k : (k < n)%nat -> int32 (pcz k).
  Proof. intros H. pose proof (n_small app Happ). apply int32_bounds. unfold pcz. fold n in H0. lia. Qed.

  Lemma ik_imm k : (k < n)%nat -> int32 (imm_of (sinstr_of (ik k))).
  Proof. intros H. destruct Happ as [Hf _]. rewrite Forall_forall in Hf. apply Hf. apply nth_In. exact H. Qed.

  (* an instruction in flight, whenever it runs, computes its sequential effect *)
  Lemma run_ok d rg pw pr F k : BackSem d rg pw pr F -> In k F -> (k < n)%nat ->
    instr_Run (ik k) (rget rg) labels (pcz k) [] 0
    = omap embed (exec (sinstr_of (ik k)) (rget (sreg k)) labels (pcz k) []).
  Proof.
    intros HB Hin Hk.
    assert (Hrr : forall r, int32 (rget rg r)) by (intros r; apply rget_int32; apply (bs_r32 _ _ _ _ _ _ _ _ _ HB)).
    rewrite (run_refines_spec (rget rg) labels (pcz k) [] 0 Hrr (ik k) (ik_imm k Hk) (nomem_mem_ok _ (ik_nomem k))).
    rewrite (bs_exec app labels regs0 base Hlen0 d rg pw pr F k HB Hin). reflexivity.
  Qed.

  (* ---------------------------------------------------------------- *)
  (* the invariant of the back end                                     *)

  Definition RunOK (d : nat) (r : runner) : Prop :=
    exists k, (base <= k < d)%nat /\ (k <= N)%nat /\ (k < n)%nat /\ r = rn k.
  Definition WbOK (d : nat) (x : wb6) : Prop :=
    exists k, (base <= k < d)%nat /\ (k <= N)%nat /\ (k < n)%nat /\ is_ret (ik k) = false /\ x = wbn k.
  Definition EuOK (d : nat) (e : eu6) : Prop :=
    e_memory e = [] /\ (e_co e = ENone \/ (e_co e = EPrepare /\ exists r, e_runner e = Some r /\ RunOK d r)).

  Record BackI (d : nat) (m : mach) (eus : list eu6) : Prop := mkBI {
    bi_e : Forall (RunOK d) (flat (m_ebus m));
    bi_u : Forall (EuOK d) eus;
    bi_w : Forall (WbOK d) (flat (m_wbus m));
    bi_sem : BackSem d (m_regs m) (m_pw m) (m_pr m) (FL m eus);
    bi_mem : m_mem m = mem0;
    bi_l3 : lines (m_l3 m) = [];
    bi_rete : d = S N -> is_ret (ik N) = true -> flat (m_ebus m) = [] \/ flat (m_ebus m) = [rn N] }.

  Lemma BackI_ext d m m' eus :
    flat (m_ebus m') = flat (m_ebus m) -> flat (m_wbus m') = flat (m_wbus m) ->
    m_regs m' = m_regs m -> m_pw m' = m_pw m -> m_pr m' = m_pr m -> m_mem m' = m_mem m -> m_l3 m' = m_l3 m ->
    BackI d m eus -> BackI d m' eus.
  Proof.
    intros E1 E2 E3 E4 E5 E6 E7 [H1 H2 H3 H4 H5 H6 H7].
    constructor; unfold FL in *; rewrite ?E1, ?E2, ?E3, ?E4, ?E5, ?E6, ?E7; assumption.
  Qed.

  Lemma RunOK_mono d d' r : (d <= d')%nat -> RunOK d r -> RunOK d' r.
  Proof. intros H (k & A & B). exists k. split; [lia | exact B]. Qed.
  Lemma WbOK_mono d d' x : (d <= d')%nat -> WbOK d x -> WbOK d' x.
  Proof. intros H (k & A & B). exists k. split; [lia | exact B]. Qed.
  Lemma EuOK_mono d d' e : (d <= d')%nat -> EuOK d e -> EuOK d' e.
  Proof.
    intros H [A [B|(B & r & C & D)]]; split; auto. right. split; [exact B|]. exists r. split; [exact C|].
    eapply RunOK_mono; eassumption.
  Qed.

  Lemma runok_map d l : Forall (RunOK d) l -> l = map rn (map kr l).
  Proof.
    induction 1 as [|r l (k & _ & _ & _ & ->) _ IH]; [reflexivity|]. cbn [map]. rewrite kr_rn. f_equal. exact IH.
  Qed.

  (* ---------------------------------------------------------------- *)
  (* dispatch                                                          *)

  Lemma handle_push_hazard m c p r m1 : handle_runner m c p r = (true, false, m1) ->
    has_hazard6 m (instr_ReadRegisters (r_instr r)) (instr_WriteRegisters (r_instr r)) = false /\
    ((instr_InstructionType (r_instr r) =? Ret) = true -> bb_isempty (m_ebus m) = true) /\
    ((0 <? p) = true -> InstructionType_IsBranch (instr_InstructionType (r_instr r)) = false).
  Proof.
    unfold handle_runner. destruct (instr_InstructionType (r_instr r) =? Ret) eqn:Er; cbn [andb].
    - destruct (bb_isempty (m_ebus m)) eqn:Ee; cbn [negb]; [|discriminate].
      destruct (0 <? p) eqn:Ep; cbn [andb].
      + destruct (InstructionType_IsBranch _) eqn:Eb; [discriminate|]. destruct (has_hazard6 _ _ _); [discriminate|]. auto.
      + destruct (has_hazard6 _ _ _); [discriminate|]. repeat split; auto. discriminate.
    - destruct (0 <? p) eqn:Ep; cbn [andb].
      + destruct (InstructionType_IsBranch _) eqn:Eb; [discriminate|]. destruct (has_hazard6 _ _ _); [discriminate|].
        intros _. repeat split; auto. discriminate.
      + destruct (has_hazard6 _ _ _); [discriminate|]. intros _. repeat split; auto; discriminate.
  Qed.

  Lemma isempty_flat {T} (b : bbus T) : bb_isempty b = true -> flat b = [].
  Proof.
    unfold bb_isempty, flat. intros H. apply andb_prop in H as [A B]. apply Z.eqb_eq in A, B.
    rewrite (zlen_zero _ A), (zlen_zero _ B). reflexivity.
  Qed.

  Lemma disp1_back d m eus c p : BackI d m eus -> (base <= d)%nat -> (d < n)%nat -> (d <= N)%nat ->
    handle_runner m c p (rn d) = (true, false, disp1 m c (rn d)) -> BackI (S d) (disp1 m c (rn d)) eus.
  Proof.
    intros [H1 H2 H3 H4 H5 H6 H7] Hbd Hdn HdN Hh. apply handle_push_hazard in Hh as (Hhz & Hre & _). cbn [Mvp60RefFront.rn r_instr] in Hhz, Hre.
    assert (HFL : Permutation (d :: FL m eus) (FL (disp1 m c (rn d)) eus)).
    { unfold FL, disp1. cbn [add_pending6 set_sb set_ebus m_ebus m_wbus]. rewrite add_flat, map_app. cbn [map]. rewrite kr_rn. perm_nat. }
    constructor.
    - cbn [disp1 add_pending6 set_sb set_ebus m_ebus]. rewrite add_flat. apply Forall_app. split.
      + eapply Forall_impl; [|exact H1]. intros r. apply RunOK_mono. lia.
      + constructor; [|constructor]. exists d. repeat split; auto.
    - eapply Forall_impl; [|exact H2]. intros e. apply EuOK_mono. lia.
    - eapply Forall_impl; [|exact H3]. intros x. apply WbOK_mono. lia.
    - eapply bs_perm; [exact HFL|]. cbn [disp1 add_pending6 set_sb set_ebus m_regs m_pw m_pr].
      pose proof (bs_pwlen _ _ _ _ _ _ _ _ _ H4) as Lw. pose proof (bs_prlen _ _ _ _ _ _ _ _ _ H4) as Lr.
      apply (bs_dispatch app labels regs0 base Hlen0 d (m_regs m) (m_pw m) (m_pr m)); auto.
      + (* hazard_free from the scoreboard check *)
        intros s Hs. destruct (no_hazard_slots m _ _ Lw Lr Hhz s Hs) as [Ha Hb].
        pose proof (cnt_nonneg wsl (FL m eus) s). pose proof (cnt_nonneg rsl (FL m eus) s).
        pose proof (bs_pw _ _ _ _ _ _ _ _ _ H4 s Hs). pose proof (bs_pr _ _ _ _ _ _ _ _ _ H4 s Hs).
        split.
        * intros Hin. specialize (Ha Hin). lia.
        * intros Hin. specialize (Hb Hin). lia.
      + rewrite sb_incr_length. exact Lw.
      + rewrite sb_incr_length. exact Lr.
      + intros s Hs. apply sb_incr_nth. lia.
      + intros s Hs. apply sb_incr_nth. lia.
    - exact H5.
    - exact H6.
    - intros Ed Hret. assert (EdN : d = N) by lia. rewrite EdN in *. right. cbn [disp1 add_pending6 set_sb set_ebus m_ebus]. rewrite add_flat.
      rewrite is_ret_type in Hre. rewrite (isempty_flat _ (Hre Hret)). reflexivity.
  Qed.

  Lemma dispN_back c eus : forall l d m p, pushable m c p (map rn (seq d l)) -> BackI d m eus -> (base <= d)%nat ->
    (d + l <= n)%nat -> (d + l <= S N)%nat -> BackI (d + l) (dispN m c (map rn (seq d l))) eus.
  Proof.
    induction l as [|l IH]; intros d m p Hp HB Hbd Hn HN.
    - cbn [seq map dispN fold_left]. rewrite Nat.add_0_r. exact HB.
    - cbn [seq map dispN fold_left] in *. destruct Hp as [Hh Hp]. fold (dispN (disp1 m c (rn d)) c (map rn (seq (S d) l))).
      replace (d + S l)%nat with (S d + l)%nat by lia. apply (IH (S d) _ (p + 1)); [exact Hp | | lia | lia | lia].
      eapply disp1_back; [exact HB | lia | lia | lia | exact Hh].
  Qed.

  (* ---------------------------------------------------------------- *)
  (* execution of one instruction                                      *)

  Definition eu_done (e : eu6) : eu6 := mk_eu6 ENone (e_memory e) (e_runner e).

  (* coRun on instruction k: the machine afterwards and what executeUnit.cycle reports *)
  Definition exec_res (m : mach) (cy : Z) (k : nat) : mach * eu_out6 :=
    let exe := embed (eff k) in
    let m1 := bu_assert6 m (rn k) in
    if is_ret (ik k) then (m1, mk_euo6 false 0 0 true) else
    let m2 := set_wbus m1 (bb_add (m_wbus m1) (wbn k) cy) in
    let m3 := if is_jump (ik k) then bu_resolved6 m2 (pcz k) (NextPc exe) else m2 in
    if PcChange exe then
      (set_bu m3 (fst (bu_should_flush6 (m_bu m3) (NextPc exe))),
       if snd (bu_should_flush6 (m_bu m3) (NextPc exe)) then mk_euo6 true (pcz k) (NextPc exe) false else euo_none)
    else (m3, euo_none).

  (* the same report, from the program and the sequential values only *)
  Definition kout (k : nat) : eu_out6 :=
    if is_ret (ik k) then mk_euo6 false 0 0 true else
    match etarget (eff k) with
    | Some a => if is_jump (ik k) || negb (pcz (S k) =? a) then mk_euo6 true (pcz k) a false else euo_none
    | None => euo_none
    end.

  Lemma ret_not_branch i : is_ret i = true -> is_jump i = false /\ condbr i = false.
  Proof. destruct i; try discriminate. auto. Qed.

  Lemma embed_flags k : (base <= k <= N)%nat -> (k < n)%nat ->
    Return (embed (eff k)) = is_ret (ik k) /\ MemoryChange (embed (eff k)) = false /\
    PcChange (embed (eff k)) = (match etarget (eff k) with Some _ => true | None => false end) /\
    (forall a, etarget (eff k) = Some a -> NextPc (embed (eff k)) = a).
  Proof.
    intros H1 H2. pose proof (eff_ret k H1 H2) as Hr. pose proof (eff_nostore k) as Hs.
    assert (Hnr : eff k <> EReturn -> is_ret (ik k) = false).
    { intros Hne. destruct (is_ret (ik k)) eqn:E; [|reflexivity]. exfalso. apply Hne, Hr. reflexivity. }
    destruct (eff k) as [rd v|bs| |a|rd v a|] eqn:Ee; cbn [embed etarget].
    - destruct (reg_pair rd v). cbn. rewrite Hnr by discriminate. repeat split; intros; discriminate.
    - exfalso. exact (Hs bs H1 H2 eq_refl).
    - cbn. rewrite Hnr by discriminate. repeat split; intros; discriminate.
    - cbn. rewrite Hnr by discriminate. repeat split. intros a0 Ha. injection Ha as <-. reflexivity.
    - destruct (reg_pair rd v). cbn. rewrite Hnr by discriminate. repeat split. intros a0 Ha. injection Ha as <-. reflexivity.
    - cbn. rewrite (proj1 Hr eq_refl). repeat split; intros; discriminate.
  Qed.

  Lemma bu_assert_regs m r : m_regs (bu_assert6 m r) = m_regs m /\ m_wbus (bu_assert6 m r) = m_wbus m.
  Proof.
    unfold bu_assert6. destruct (InstructionType_IsUnconditionalBranch _).
    - destruct (btb_get _ _); split; reflexivity.
    - destruct (InstructionType_IsConditionalBranch _); split; reflexivity.
  Qed.

  (* coPrepareRun on a runner that is in flight *)
  Lemma prepare_spec ord cy m e k d pw pr F :
    e_runner e = Some (rn k) -> e_memory e = [] ->
    BackSem d (m_regs m) pw pr F -> In k F -> (base <= k <= N)%nat -> (k < n)%nat ->
    eu_prepare6 labels ord cy m e =
      if negb (bb_canadd (m_wbus m)) then (false, Ok (m, e, euo_none))
      else (false, Ok (fst (exec_res m cy k), eu_done e, snd (exec_res m cy k))).
  Proof.
    intros Hr Hm HB Hin HkN Hkn. unfold eu_prepare6. destruct (bb_canadd (m_wbus m)) eqn:Eadd; cbn [negb]; [|reflexivity].
    rewrite Hr. cbn [Mvp60RefFront.rn r_instr]. rewrite (nomem_no_read _ _ _ (ik_nomem k)).
    unfold eu_run6. rewrite Hr, Hm. cbn [Mvp60RefFront.rn r_instr r_pc].
    destruct (bu_assert_regs m (rn k)) as [Er Ew]. cbn [Mvp60RefFront.rn] in Er, Ew. rewrite Er.
    rewrite (run_ok d (m_regs m) pw pr F k HB Hin Hkn).
    destruct (Hsem k HkN Hkn) as [He _]. rewrite He. cbn [omap].
    destruct (embed_flags k HkN Hkn) as (Hret & Hmc & Hpc & Hnp). rewrite Hmc, andb_false_r. cbn [andb].
    unfold eu_run_exe, exec_res. rewrite Hret, Hmc. cbn [Mvp60RefFront.rn r_instr r_pc r_seq].
    destruct (is_ret (ik k)); [unfold eu_done; rewrite Hm; reflexivity|]. cbn [bind].
    fold (is_jump (ik k)). unfold wbn, eu_done. rewrite Hm. rewrite Ew.
    destruct (PcChange (embed (eff k))); [|reflexivity].
    destruct (bu_should_flush6 _ _) as [b' fl]. reflexivity.
  Qed.

  (* what one execution changes *)
  Lemma exec_res_spec m cy k bound : (base <= k <= N)%nat -> (k < n)%nat ->
    Forall (fun e => fst e < pcz base) (b_btb (m_bu m)) -> pcz k < bound -> pcz base <= bound ->
    let m' := fst (exec_res m cy k) in
    m_regs m' = m_regs m /\ m_mem m' = m_mem m /\ m_pw m' = m_pw m /\ m_pr m' = m_pr m /\ m_l1i m' = m_l1i m /\
    m_l3 m' = m_l3 m /\ m_pend m' = m_pend m /\ m_dret m' = m_dret m /\ m_cu m' = m_cu m /\ m_dbus m' = m_dbus m /\
    m_cbus m' = m_cbus m /\ m_ebus m' = m_ebus m /\
    m_wbus m' = (if is_ret (ik k) then m_wbus m else bb_add (m_wbus m) (wbn k) cy) /\
    snd (exec_res m cy k) = kout k /\
    (o_flush (kout k) = false -> m_fu m' = m_fu m /\ m_dpbr m' = m_dpbr m /\ b_btb (m_bu m') = b_btb (m_bu m)) /\
    Forall (fun e => fst e < bound) (b_btb (m_bu m')).
  Proof.
    intros HkN Hkn Hbtb Hkb Hbb. cbv zeta.
    assert (Hbtb' : Forall (fun e => fst e < bound) (b_btb (m_bu m))).
    { eapply Forall_impl; [|exact Hbtb]. cbn beta. intros e He. lia. }
    pose proof (btb_get_none _ _ (pcz k) Hbtb ltac:(unfold pcz; lia)) as Hget.
    destruct (embed_flags k HkN Hkn) as (Hret & Hmc & Hpc & Hnp).
    pose proof (eff_kind k HkN Hkn) as Hkind. destruct (Hsem k HkN Hkn) as [_ Htgt].
    unfold exec_res, kout, bu_assert6. cbn [Mvp60RefFront.rn r_instr r_pc]. fold (is_jump (ik k)). fold (condbr (ik k)).
    destruct (is_ret (ik k)) eqn:Eret.
    { destruct (ret_not_branch _ Eret) as [Ej Ec]. rewrite Ej, Ec. cbn [fst snd set_bu m_regs m_mem m_pw m_pr m_l1i m_l3 m_pend m_dret m_cu m_dbus m_cbus m_ebus m_wbus m_fu m_dpbr m_bu b_btb o_flush].
      repeat split; auto. }
    rewrite Hpc. destruct (is_jump (ik k)) eqn:Ej.
    - (* j / jal: the target is not in the BTB; resolved, flush *)
      rewrite Hget.
      assert (Ht : exists a, etarget (eff k) = Some a).
      { pose proof (eff_nostore k) as Hns. pose proof (eff_ret k HkN Hkn) as Hr.
        destruct (eff k) as [rd v|bs| |a|rd v a|]; cbn [etarget]; eauto; try discriminate Hkind; exfalso.
        - exact (Hns bs HkN Hkn eq_refl).
        - rewrite (proj1 Hr eq_refl) in Eret. discriminate. }
      destruct Ht as (a & Ea). rewrite Ea, (Hnp a Ea). destruct (Htgt a Ea) as (t & -> & Ht).
      cbn [orb]. unfold bu_resolved6, bu_should_flush6.
      cbn [fst snd set_bu set_wbus set_fu set_du m_regs m_mem m_pw m_pr m_l1i m_l3 m_pend m_dret m_cu m_dbus m_cbus m_ebus m_wbus m_fu m_dpbr m_bu b_btb b_check b_expect negb o_flush].
      assert (Hneg : (-1 =? pcz t) = false) by (apply Z.eqb_neq; unfold pcz; lia). rewrite Hneg. cbn [negb].
      repeat split; auto; try discriminate. apply btb_add_bound; assumption.
    - cbn [orb]. destruct (etarget (eff k)) as [a|] eqn:Ea.
      + (* a taken conditional branch *)
        assert (Hc : condbr (ik k) = true).
        { destruct (eff k) as [rd v|bs| |a'|rd v a'|]; cbn [etarget] in Ea; try discriminate; try congruence.
          destruct Hkind as [Hx|[_ Hx]]; [congruence | exact Hx]. }
        rewrite Hc, (Hnp a eq_refl). unfold bu_should_flush6.
        assert (Hadd : addS 32 (pcz k) 4 = pcz (S k)).
        { rewrite pcz_S. unfold addS. apply wrapS_id; [lia|]. pose proof (n_small app Happ). fold n in H. apply int32_bounds. unfold pcz. lia. }
        cbn [fst snd set_bu set_wbus m_regs m_mem m_pw m_pr m_l1i m_l3 m_pend m_dret m_cu m_dbus m_cbus m_ebus m_wbus m_fu m_dpbr m_bu b_btb b_check b_expect negb].
        rewrite Hadd. destruct (pcz (S k) =? a); cbn [negb o_flush euo_none]; repeat split; auto; discriminate.
      + destruct (condbr (ik k));
          cbn [fst snd set_bu set_wbus m_regs m_mem m_pw m_pr m_l1i m_l3 m_pend m_dret m_cu m_dbus m_cbus m_ebus m_wbus m_fu m_dpbr m_bu b_btb o_flush euo_none];
          repeat split; auto.
  Qed.

  (* ---------------------------------------------------------------- *)
  (* execute units: on register-only programs a unit never waits for the write bus,
     so between cycles every unit is idle                              *)

  Definition EuNone (e : eu6) : Prop := e_memory e = [] /\ e_co e = ENone.

  Lemma eul_none eus : Forall EuNone eus -> eul eus = [].
  Proof. induction 1 as [|e t [_ Hc] _ IH]; [reflexivity|]. rewrite eul_cons, IH. unfold eu_prep. rewrite Hc. reflexivity. Qed.

  Lemma EuNone_ok d e : EuNone e -> EuOK d e.
  Proof. intros [A B]. split; [exact A | left; exact B]. Qed.

  Lemma BackI_eus d m eus eus' : Forall EuNone eus -> Forall EuNone eus' -> BackI d m eus -> BackI d m eus'.
  Proof.
    intros H H' [H1 H2 H3 H4 H5 H6 H7]. constructor; auto.
    - eapply Forall_impl; [|exact H']. intros e. apply EuNone_ok.
    - unfold FL in *. rewrite (eul_none _ H) in H4. rewrite (eul_none _ H'). exact H4.
  Qed.

  (* the accumulation of (flush, from, pc, ret) over the units *)
  Definition merge (acc o : eu_out6) : eu_out6 :=
    let take := o_flush o && (negb (o_flush acc) || (o_from o <? o_from acc)) in
    mk_euo6 (o_flush acc || o_flush o) (if take then o_from o else o_from acc)
            (if take then o_pc o else o_pc acc) (o_ret acc || o_ret o).

  Lemma merge_none acc : merge acc euo_none = acc.
  Proof. unfold merge. cbn [euo_none o_flush o_ret andb]. rewrite !orb_false_r. destruct acc; reflexivity. Qed.

  Lemma merge_kout k : merge euo_none (kout k) = kout k.
  Proof.
    unfold merge, kout. destruct (is_ret (ik k)); [reflexivity|]. destruct (etarget (eff k)) as [a|]; [|reflexivity].
    destruct (is_jump (ik k) || negb (pcz (S k) =? a)); reflexivity.
  Qed.

  Definition plain (k : nat) : Prop :=
    is_ret (ik k) = false /\ InstructionType_IsBranch (instr_InstructionType (ik k)) = false.

  Lemma plain_kout k : (base <= k <= N)%nat -> (k < n)%nat -> plain k -> kout k = euo_none.
  Proof.
    intros H1 H2 [Hr Hb]. unfold kout. rewrite Hr. unfold InstructionType_IsBranch in Hb. apply orb_false_iff in Hb as [Hj Hc].
    pose proof (eff_kind k H1 H2) as Hk. fold (is_jump (ik k)) in Hj. fold (condbr (ik k)) in Hc.
    destruct (eff k); cbn [etarget]; try reflexivity; exfalso; [destruct Hk as [Hx|[_ Hx]]|]; congruence.
  Qed.

  (* what the execute units leave alone *)
  Record EuFrame (m m1 : mach) : Prop := mkEF {
    ef_regs : m_regs m1 = m_regs m; ef_mem : m_mem m1 = m_mem m; ef_pw : m_pw m1 = m_pw m; ef_pr : m_pr m1 = m_pr m;
    ef_l1i : m_l1i m1 = m_l1i m; ef_l3 : m_l3 m1 = m_l3 m; ef_pend : m_pend m1 = m_pend m;
    ef_dret : m_dret m1 = m_dret m; ef_cu : m_cu m1 = m_cu m;
    ef_dbus : m_dbus m1 = m_dbus m; ef_cbus : m_cbus m1 = m_cbus m;
    ef_ebuf : bb_buf (m_ebus m1) = bb_buf (m_ebus m); ef_eql : bb_ql (m_ebus m1) = bb_ql (m_ebus m);
    ef_ebl : bb_bl (m_ebus m1) = bb_bl (m_ebus m);
    ef_wq : bb_q (m_wbus m1) = bb_q (m_wbus m); ef_wql : bb_ql (m_wbus m1) = bb_ql (m_wbus m);
    ef_wbl : bb_bl (m_wbus m1) = bb_bl (m_wbus m) }.

  Lemma EuFrame_refl m : EuFrame m m.
  Proof. constructor; reflexivity. Qed.
  Lemma EuFrame_trans a b c : EuFrame a b -> EuFrame b c -> EuFrame a c.
  Proof. intros [] []. constructor; congruence. Qed.

  Definition notret (k : nat) : bool := negb (is_ret (ik k)).

  (* an idle unit takes instruction x from the head of the execute bus and runs it at once *)
  Lemma eu_exec1 ord cy d m e eus0 x lq bound :
    BackI d m eus0 -> Forall EuNone eus0 -> EuNone e -> BusOK cy (m_wbus m) -> bb_canadd (m_wbus m) = true ->
    (is_jump (ik x) = true -> btb_get (b_btb (m_bu m)) (pcz x) = None) ->
    Forall (fun en => fst en < bound) (b_btb (m_bu m)) -> ((x < d)%nat -> pcz x < bound) ->
    bb_q (m_ebus m) = map rn (seq x (S lq)) ->
    exists m1 e1, eu_cycle6 labels ord cy m e = (false, Ok (m1, e1, kout x)) /\ EuNone e1 /\
      BackI d m1 eus0 /\ BusOK cy (m_wbus m1) /\ EuFrame m m1 /\
      bb_q (m_ebus m1) = map rn (seq (S x) lq) /\
      bb_buf (m_wbus m1) = bb_buf (m_wbus m) ++ (if is_ret (ik x) then [] else [(cy + 1, wbn x)]) /\
      (base <= x < d)%nat /\ (x <= N)%nat /\ (x < n)%nat /\
      (o_flush (kout x) = false -> m_fu m1 = m_fu m /\ m_dpbr m1 = m_dpbr m /\ b_btb (m_bu m1) = b_btb (m_bu m)) /\
      Forall (fun en => fst en < bound) (b_btb (m_bu m1)) /\
      (is_ret (ik x) = true -> ~ In x (FL m1 eus0)).
  Proof.
    intros HB H0 [Hmem Hco] HW Hadd Hget Hbtb Hbd Hq. pose proof HB as [H1 H2 H3 H4 H5 H6 H7].
    unfold eu_cycle6. rewrite Hco. unfold bb_get. rewrite Hq. cbn [seq map].
    set (ma := set_ebus m (mk_bb (bb_buf (m_ebus m)) (map rn (seq (S x) lq)) (bb_ql (m_ebus m)) (bb_bl (m_ebus m)))).
    set (ea := mk_eu6 EPrepare (e_memory e) (Some (rn x))).
    assert (Hflat : flat (m_ebus m) = rn x :: flat (m_ebus ma)).
    { unfold flat, ma. cbn [set_ebus m_ebus bb_q bb_buf]. rewrite Hq. reflexivity. }
    assert (Hr : RunOK d (rn x)) by (rewrite Hflat in H1; inversion H1; assumption).
    destruct Hr as (k & Hkd & HkN & Hkn & Ek). assert (k = x) by (apply (f_equal kr) in Ek; rewrite !kr_rn in Ek; congruence). subst k.
    assert (HinF : In x (FL m eus0)) by (unfold FL; rewrite Hflat; cbn [map List.app]; rewrite kr_rn; left; reflexivity).
    rewrite (prepare_spec ord cy ma ea x d (m_pw m) (m_pr m) (FL m eus0) eq_refl Hmem H4 HinF ltac:(lia) Hkn).
    change (m_wbus ma) with (m_wbus m). rewrite Hadd. cbn [negb].
    assert (Hget' : is_jump (ik x) = true -> btb_get (b_btb (m_bu ma)) (pcz x) = None) by exact Hget.
    assert (Hxb : pcz x < bound) by (apply Hbd; lia).
    (* exec_res_spec needs the BTB below base only to look the jump up: redo its use with the weaker fact *)
    pose proof (embed_flags x ltac:(lia) Hkn) as (Hret & Hmc & Hpc & Hnp).
    pose proof (eff_kind x ltac:(lia) Hkn) as Hkind. destruct (Hsem x ltac:(lia) Hkn) as [_ Htgt].
    exists (fst (exec_res ma cy x)), (eu_done ea).
    assert (Hspec :
      let m' := fst (exec_res ma cy x) in
      m_regs m' = m_regs m /\ m_mem m' = m_mem m /\ m_pw m' = m_pw m /\ m_pr m' = m_pr m /\ m_l1i m' = m_l1i m /\
      m_l3 m' = m_l3 m /\ m_pend m' = m_pend m /\ m_dret m' = m_dret m /\ m_cu m' = m_cu m /\ m_dbus m' = m_dbus m /\
      m_cbus m' = m_cbus m /\ m_ebus m' = m_ebus ma /\
      m_wbus m' = (if is_ret (ik x) then m_wbus m else bb_add (m_wbus m) (wbn x) cy) /\
      snd (exec_res ma cy x) = kout x /\
      (o_flush (kout x) = false -> m_fu m' = m_fu m /\ m_dpbr m' = m_dpbr m /\ b_btb (m_bu m') = b_btb (m_bu m)) /\
      Forall (fun en => fst en < bound) (b_btb (m_bu m'))).
    { cbv zeta. unfold exec_res, kout, bu_assert6. cbn [Mvp60RefFront.rn r_instr r_pc]. fold (is_jump (ik x)). fold (condbr (ik x)).
      destruct (is_ret (ik x)) eqn:Eret.
      { destruct (ret_not_branch _ Eret) as [Ej Ec]. rewrite Ej, Ec. unfold ma.
        cbn [fst snd set_bu set_ebus m_regs m_mem m_pw m_pr m_l1i m_l3 m_pend m_dret m_cu m_dbus m_cbus m_ebus m_wbus m_fu m_dpbr m_bu b_btb o_flush].
        repeat split; auto. }
      rewrite Hpc. destruct (is_jump (ik x)) eqn:Ej.
      - rewrite (Hget' eq_refl).
        assert (Ht : exists a, etarget (eff x) = Some a).
        { pose proof (eff_nostore x) as Hns. pose proof (eff_ret x ltac:(lia) Hkn) as Hrr.
          destruct (eff x) as [rd v|bs| |a|rd v a|]; cbn [etarget]; eauto; try discriminate Hkind; exfalso.
          - exact (Hns bs ltac:(lia) Hkn eq_refl).
          - rewrite (proj1 Hrr eq_refl) in Eret. discriminate. }
        destruct Ht as (a & Ea). rewrite Ea, (Hnp a Ea). destruct (Htgt a Ea) as (t & -> & Ht).
        cbn [orb]. unfold bu_resolved6, bu_should_flush6, ma.
        cbn [fst snd set_bu set_wbus set_fu set_du set_ebus m_regs m_mem m_pw m_pr m_l1i m_l3 m_pend m_dret m_cu m_dbus m_cbus m_ebus m_wbus m_fu m_dpbr m_bu b_btb b_check b_expect negb o_flush].
        assert (Hneg : (-1 =? pcz t) = false) by (apply Z.eqb_neq; unfold pcz; lia). rewrite Hneg. cbn [negb].
        repeat split; auto; try discriminate. apply btb_add_bound; assumption.
      - cbn [orb]. destruct (etarget (eff x)) as [a|] eqn:Ea.
        + assert (Hc : condbr (ik x) = true).
          { destruct (eff x) as [rd v|bs| |a'|rd v a'|]; cbn [etarget] in Ea; try discriminate; try congruence.
            destruct Hkind as [Hx|[_ Hx]]; [congruence | exact Hx]. }
          rewrite Hc, (Hnp a eq_refl). unfold bu_should_flush6, ma.
          assert (Haddr : addS 32 (pcz x) 4 = pcz (S x)).
          { rewrite pcz_S. unfold addS. apply wrapS_id; [lia|]. pose proof (n_small app Happ). fold n in H. apply int32_bounds. unfold pcz. lia. }
          cbn [fst snd set_bu set_wbus set_ebus m_regs m_mem m_pw m_pr m_l1i m_l3 m_pend m_dret m_cu m_dbus m_cbus m_ebus m_wbus m_fu m_dpbr m_bu b_btb b_check b_expect negb].
          rewrite Haddr. destruct (pcz (S x) =? a); cbn [negb o_flush euo_none]; repeat split; auto; discriminate.
        + unfold ma. destruct (condbr (ik x));
            cbn [fst snd set_bu set_wbus set_ebus m_regs m_mem m_pw m_pr m_l1i m_l3 m_pend m_dret m_cu m_dbus m_cbus m_ebus m_wbus m_fu m_dpbr m_bu b_btb o_flush euo_none];
            repeat split; auto. }
    cbv zeta in Hspec. destruct Hspec as (S1&S2&S3&S4&S5&S6&S7&S8&S9&S10&S11&S12&S13&S14&S15&S16).
    rewrite S14. split; [reflexivity|]. split; [split; [exact Hmem | reflexivity]|].
    set (m1 := fst (exec_res ma cy x)) in *.
    assert (Hfe : flat (m_ebus m1) = flat (m_ebus ma)) by (rewrite S12; reflexivity).
    assert (Hrs : is_ret (ik x) = true -> rsl x = [] /\ wsl x = []) by apply ret_slots.
    assert (HB1 : BackI d m1 eus0 /\ (is_ret (ik x) = true -> ~ In x (FL m1 eus0))).
    { destruct (is_ret (ik x)) eqn:Eret.
      - assert (HFL : Permutation (FL m eus0) (x :: FL m1 eus0)).
        { unfold FL. rewrite Hfe, S13, Hflat. cbn [map List.app]. rewrite kr_rn. apply Permutation_refl. }
        assert (HS : BackSem d (m_regs m) (m_pw m) (m_pr m) (x :: FL m1 eus0)) by (eapply bs_perm; [exact HFL | exact H4]).
        split.
        + constructor; rewrite ?Hfe, ?S13, ?S1, ?S2, ?S3, ?S4, ?S6; auto.
          * rewrite Hflat in H1. inversion H1; assumption.
          * destruct (Hrs eq_refl) as [A B]. eapply bs_drop; [exact HS | exact B | exact A].
          * intros Ed Hr'. left. destruct (H7 Ed Hr') as [Hx|Hx]; rewrite Hflat in Hx; [discriminate | apply (f_equal (@tl runner)) in Hx; exact Hx].
        + intros _. pose proof (bs_nodup _ _ _ _ _ _ _ _ _ HS) as Hnd. inversion Hnd; assumption.
      - assert (HFL : Permutation (FL m eus0) (FL m1 eus0)).
        { unfold FL. rewrite Hfe, S13, Hflat, add_flat, !map_app. cbn [map List.app]. rewrite kr_rn, kw_wbn. perm_nat. }
        split; [|discriminate].
        constructor; rewrite ?Hfe, ?S13, ?S1, ?S2, ?S3, ?S4, ?S6; auto.
        * rewrite Hflat in H1. inversion H1; assumption.
        * rewrite add_flat. apply Forall_app. split; [exact H3|]. constructor; [|constructor]. exists x. repeat split; auto; lia.
        * eapply bs_perm; [exact HFL | exact H4].
        * intros Ed Hr'. left. destruct (H7 Ed Hr') as [Hx|Hx]; rewrite Hflat in Hx; [discriminate | apply (f_equal (@tl runner)) in Hx; exact Hx]. }
    destruct HB1 as [HB1 Hnot].
    split; [exact HB1|]. split.
    { rewrite S13. destruct (is_ret (ik x)); [exact HW | apply add_ok; exact HW]. }
    split.
    { constructor; rewrite ?S1, ?S2, ?S3, ?S4, ?S5, ?S6, ?S7, ?S8, ?S9, ?S10, ?S11, ?S12, ?S13; try reflexivity;
        destruct (is_ret (ik x)); reflexivity. }
    split; [rewrite S12; reflexivity|].
    split; [rewrite S13; destruct (is_ret (ik x)); [rewrite app_nil_r; reflexivity | reflexivity]|].
    split; [lia|]. split; [exact HkN|]. split; [exact Hkn|]. split; [exact S15|]. split; [exact S16 | exact Hnot].
  Qed.

  Lemma eu_idle ord cy m e : EuNone e -> bb_q (m_ebus m) = [] -> eu_cycle6 labels ord cy m e = (false, Ok (m, e, euo_none)).
  Proof. intros [_ Hc] Hq. unfold eu_cycle6, bb_get. rewrite Hc, Hq. reflexivity. Qed.

  Lemma canadd_lt {T} (b : bbus T) : bb_bl b = 2 -> blen b < 2 -> bb_canadd b = true.
  Proof. intros Hbl Hb. unfold bb_canadd, blen in *. rewrite Hbl. apply negb_true_iff, Z.eqb_neq. lia. Qed.

  (* the units after the first one: they execute plain instructions (no branch, no ret) *)
  Lemma eus_plain ord cy d eus0 bound : forall eus m acc x lq,
    Forall EuNone eus -> Forall EuNone eus0 -> BackI d m eus0 -> BusOK cy (m_wbus m) ->
    blen (m_wbus m) + Z.of_nat (Nat.min (length eus) lq) <= 2 ->
    Forall (fun en => fst en < bound) (b_btb (m_bu m)) -> pcz d <= bound ->
    bb_q (m_ebus m) = map rn (seq x lq) ->
    (forall k, (x <= k < x + Nat.min (length eus) lq)%nat -> plain k) ->
    exists m' eus',
      eus_cycle labels ord cy false m eus acc = (false, Ok (m', eus', acc)) /\
      Forall EuNone eus' /\ length eus' = length eus /\ BackI d m' eus0 /\ BusOK cy (m_wbus m') /\ EuFrame m m' /\
      bb_q (m_ebus m') = map rn (seq (x + Nat.min (length eus) lq) (lq - Nat.min (length eus) lq)) /\
      bb_buf (m_wbus m') = bb_buf (m_wbus m) ++ map (fun k => (cy + 1, wbn k)) (seq x (Nat.min (length eus) lq)) /\
      m_fu m' = m_fu m /\ m_dpbr m' = m_dpbr m /\ b_btb (m_bu m') = b_btb (m_bu m).
  Proof.
    induction eus as [|e t IH]; intros m acc x lq He H0 HB HW Hcap Hbtb Hbd Hq Hpl.
    - exists m, []. cbn [eus_cycle length Nat.min seq map]. rewrite Nat.add_0_r, Nat.sub_0_r, app_nil_r.
      split; [reflexivity|]. split; [constructor|]. split; [reflexivity|]. split; [exact HB|]. split; [exact HW|].
      split; [apply EuFrame_refl|]. split; [exact Hq|]. repeat split; reflexivity.
    - inversion He as [|? ? He1 He2]; subst. cbn [eus_cycle andb].
      destruct lq as [|lq].
      + (* nothing left in the execute bus *)
        rewrite (eu_idle ord cy m e He1 Hq). fold (merge acc euo_none). rewrite merge_none.
        destruct (IH m acc x O He2 H0 HB HW ltac:(rewrite Nat.min_0_r in *; lia) Hbtb Hbd Hq ltac:(intros k Hk; rewrite Nat.min_0_r in Hk; lia))
          as (m' & t' & E & A1 & A2 & A3 & A4 & A5 & A6 & A7 & A8 & A9 & A10).
        rewrite E. cbn [bind orb]. exists m', (e :: t'). rewrite !Nat.min_0_r in *. cbn [length].
        split; [reflexivity|]. split; [constructor; assumption|]. split; [lia|]. repeat (split; [assumption|]). assumption.
      + cbn [length Nat.min] in Hcap, Hpl.
        assert (Hplx : plain x) by (apply Hpl; lia).
        assert (Hnj : is_jump (ik x) = true -> btb_get (b_btb (m_bu m)) (pcz x) = None).
        { destruct Hplx as [_ Hb]. unfold InstructionType_IsBranch in Hb. apply orb_false_iff in Hb as [Hj _]. unfold is_jump. rewrite Hj. discriminate. }
        assert (Hadd : bb_canadd (m_wbus m) = true) by (apply canadd_lt; [apply (bus_bl _ _ HW) | lia]).
        destruct (eu_exec1 ord cy d m e eus0 x lq bound HB H0 He1 HW Hadd Hnj Hbtb ltac:(intros Hxd; unfold pcz in *; lia) Hq)
          as (m1 & e1 & E1 & B1 & B2 & B3 & B4 & B5 & B6 & B7 & B8 & B9 & B10 & B11 & _).
        rewrite (plain_kout x ltac:(lia) B9 Hplx) in *. rewrite E1. fold (merge acc euo_none). rewrite merge_none.
        destruct (B10 eq_refl) as (C1 & C2 & C3).
        assert (Hb1 : blen (m_wbus m1) <= blen (m_wbus m) + 1).
        { unfold blen. rewrite B6. destruct (is_ret (ik x)); rewrite zlen_app; [rewrite zlen_nil | rewrite zlen_cons, zlen_nil]; lia. }
        destruct (IH m1 acc (S x) lq He2 H0 B2 B3 ltac:(lia) ltac:(rewrite C3; exact Hbtb) Hbd B5 ltac:(intros k Hk; apply Hpl; lia))
          as (m' & t' & E & A1 & A2 & A3 & A4 & A5 & A6 & A7 & A8 & A9 & A10).
        rewrite E. cbn [bind orb]. exists m', (e1 :: t'). cbn [length Nat.min].
        split; [reflexivity|]. split; [constructor; assumption|]. split; [lia|]. split; [exact A3|]. split; [exact A4|].
        split; [eapply EuFrame_trans; eassumption|].
        split; [rewrite A6; f_equal; f_equal; lia|].
        split.
        { rewrite A7, B6. destruct Hplx as [Hr _]. rewrite Hr. cbn [seq map]. rewrite <- app_assoc. reflexivity. }
        split; [congruence|]. split; congruence.
  Qed.

  Lemma eus_skip ord cy m acc : forall eus, Forall EuNone eus -> eus_cycle labels ord cy true m eus acc = (false, Ok (m, eus, acc)).
  Proof.
    induction 1 as [|e t [_ Hc] _ IH]; [reflexivity|]. cbn [eus_cycle]. unfold eu_empty. rewrite Hc. cbn [andb].
    rewrite IH. reflexivity.
  Qed.

  (* for _, eu := range m.executeUnits, all idle: the first takes x (whatever it is), the others plain instructions *)
  Lemma eus_t1 ord cy d eus0 bound eus m x lq : eus <> [] ->
    Forall EuNone eus -> Forall EuNone eus0 -> BackI d m eus0 -> BusOK cy (m_wbus m) ->
    blen (m_wbus m) + Z.of_nat (Nat.min (length eus) lq) <= 2 ->
    Forall (fun en => fst en < bound) (b_btb (m_bu m)) -> (lq <> O -> pcz x < bound) -> bound <= pcz d ->
    bb_q (m_ebus m) = map rn (seq x lq) ->
    (is_jump (ik x) = true -> btb_get (b_btb (m_bu m)) (pcz x) = None) ->
    (forall k, (x < k < x + Nat.min (length eus) lq)%nat -> plain k) ->
    let j := Nat.min (length eus) lq in
    exists m' eus',
      eus_cycle labels ord cy false m eus euo_none = (false, Ok (m', eus', if (lq =? 0)%nat then euo_none else kout x)) /\
      Forall EuNone eus' /\ length eus' = length eus /\ BackI d m' eus0 /\ BusOK cy (m_wbus m') /\ EuFrame m m' /\
      bb_q (m_ebus m') = map rn (seq (x + j) (lq - j)) /\
      bb_buf (m_wbus m') = bb_buf (m_wbus m) ++ map (fun k => (cy + 1, wbn k)) (filter notret (seq x j)) /\
      (forall k, In k (seq x j) -> (base <= k < d)%nat /\ (k <= N)%nat /\ (k < n)%nat) /\
      ((lq = O \/ o_flush (kout x) = false) -> m_fu m' = m_fu m /\ m_dpbr m' = m_dpbr m /\ b_btb (m_bu m') = b_btb (m_bu m)) /\
      Forall (fun en => fst en < bound) (b_btb (m_bu m')).
  Proof.
    intros Hne He H0 HB HW Hcap Hbtb Hxb Hbd Hq Hget Hpl. cbv zeta.
    assert (Hbtbd : forall b : list (Z * Z), Forall (fun en => fst en < bound) b -> Forall (fun en => fst en < pcz d) b).
    { intros b Hb. eapply Forall_impl; [|exact Hb]. cbn beta. intros en Hen. lia. }
    destruct eus as [|e t]; [contradiction|]. inversion He as [|? ? He1 He2]; subst.
    destruct lq as [|lq].
    - destruct (eus_plain ord cy d eus0 (pcz d) (e :: t) m euo_none x O He H0 HB HW Hcap (Hbtbd _ Hbtb) ltac:(lia) Hq ltac:(intros k Hk; rewrite Nat.min_0_r in Hk; lia))
        as (m' & eus' & E & A1 & A2 & A3 & A4 & A5 & A6 & A7 & A8 & A9 & A10).
      exists m', eus'. rewrite Nat.min_0_r in *. cbn [seq map filter Nat.eqb] in *.
      split; [exact E|]. repeat (split; [assumption|]). split; [intros k []|]. split; [auto|]. rewrite A10; exact Hbtb.
    - cbn [length Nat.min] in Hcap, Hpl |- *. cbn [eus_cycle andb Nat.eqb].
      assert (Hadd : bb_canadd (m_wbus m) = true) by (apply canadd_lt; [apply (bus_bl _ _ HW) | lia]).
      destruct (eu_exec1 ord cy d m e eus0 x lq bound HB H0 He1 HW Hadd Hget Hbtb ltac:(intros _; apply Hxb; discriminate) Hq)
        as (m1 & e1 & E1 & B1 & B2 & B3 & B4 & B5 & B6 & B7 & B8 & B9 & B10 & B11 & B12).
      rewrite E1. fold (merge euo_none (kout x)). rewrite merge_kout.
      assert (Hb1 : blen (m_wbus m1) <= blen (m_wbus m) + 1).
      { unfold blen. rewrite B6. destruct (is_ret (ik x)); rewrite zlen_app; [rewrite zlen_nil | rewrite zlen_cons, zlen_nil]; lia. }
      destruct (eus_plain ord cy d eus0 (pcz d) t m1 (kout x) (S x) lq He2 H0 B2 B3 ltac:(lia) (Hbtbd _ B11) ltac:(lia) B5 ltac:(intros k Hk; apply Hpl; lia))
        as (m' & t' & E & A1 & A2 & A3 & A4 & A5 & A6 & A7 & A8 & A9 & A10).
      rewrite E. cbn [bind orb]. exists m', (e1 :: t'). cbn [length].
      split; [reflexivity|]. split; [constructor; assumption|]. split; [lia|]. split; [exact A3|]. split; [exact A4|].
      split; [eapply EuFrame_trans; eassumption|].
      split; [rewrite A6; f_equal; f_equal; lia|].
      assert (Hfil : filter notret (seq (S x) (Nat.min (length t) lq)) = seq (S x) (Nat.min (length t) lq)).
      { apply filter_all. apply forallb_forall. intros k Hk. apply in_seq in Hk.
        destruct (Hpl k ltac:(lia)) as [Hr _]. unfold notret. rewrite Hr. reflexivity. }
      split.
      { rewrite A7, B6. cbn [seq filter]. unfold notret at 1. destruct (is_ret (ik x)); cbn [negb map]; rewrite Hfil, <- ?app_assoc; reflexivity. }
      split.
      { intros k Hk. cbn [seq In] in Hk. destruct Hk as [<-|Hk]; [auto|].
        (* the others come out of the execute bus as well *)
        apply in_seq in Hk. pose proof (bi_e _ _ _ B2) as Hbe. unfold flat in Hbe. rewrite B5 in Hbe. apply Forall_app in Hbe as [Hbe _].
        rewrite Forall_forall in Hbe. destruct (Hbe (rn k)) as (k' & K1 & K2 & K3 & K4).
        { apply in_map. apply in_seq. lia. }
        apply (f_equal kr) in K4. rewrite !kr_rn in K4. subst k'. auto. }
      split.
      { intros [Hx|Hx]; [discriminate|]. destruct (B10 Hx) as (C1 & C2 & C3). split; [congruence|]. split; congruence. }
      rewrite A10; exact B11.
  Qed.

  (* ---------------------------------------------------------------- *)
  (* write units                                                       *)

  Record WuFrame (m m1 : mach) : Prop := mkWF {
    wf_mem : m_mem m1 = m_mem m; wf_l1i : m_l1i m1 = m_l1i m; wf_l3 : m_l3 m1 = m_l3 m; wf_pend : m_pend m1 = m_pend m;
    wf_fu : m_fu m1 = m_fu m; wf_dret : m_dret m1 = m_dret m; wf_dpbr : m_dpbr m1 = m_dpbr m; wf_cu : m_cu m1 = m_cu m;
    wf_bu : m_bu m1 = m_bu m;
    wf_dbus : m_dbus m1 = m_dbus m; wf_cbus : m_cbus m1 = m_cbus m; wf_ebus : m_ebus m1 = m_ebus m;
    wf_wbuf : bb_buf (m_wbus m1) = bb_buf (m_wbus m); wf_wql : bb_ql (m_wbus m1) = bb_ql (m_wbus m);
    wf_wbl : bb_bl (m_wbus m1) = bb_bl (m_wbus m); wf_wq : bb_q (m_wbus m1) = tl (bb_q (m_wbus m)) }.

  Lemma set_wbus_same m : set_wbus m (m_wbus m) = m.
  Proof. destruct m; reflexivity. Qed.

  Lemma cnt_member_ge f F k s : In k F -> cnt1 (f k) s <= cnt f F s.
  Proof.
    induction F as [|j t IH]; intros []; cbn [cnt].
    - subst j. pose proof (cnt_nonneg f t s). lia.
    - pose proof (cnt1_nonneg (f j) s). specialize (IH H). lia.
  Qed.

  (* the register / scoreboard update of writeUnit.cycle for the entry of instruction k *)
  Lemma wb_apply ma k w : (base <= k <= N)%nat -> (k < n)%nat -> is_ret (ik k) = false ->
    exists m1, (if RegisterChange (embed (eff k))
                then Ok (del_pending6 (set_regs ma (rset (m_regs ma) (Register (embed (eff k))) (RegisterValue (embed (eff k)))))
                                      (instr_ReadRegisters (ik k)) (instr_WriteRegisters (ik k)), w)
                else if MemoryChange (embed (eff k)) then Ok (ma, mk_wu6 (WMem MemoryAccess) (Some (wbn k)))
                else Ok (del_pending6 ma (instr_ReadRegisters (ik k)) (instr_WriteRegisters (ik k)), w)) = Ok (m1, w) /\
      m_regs m1 = apply_eff (eff k) (m_regs ma) /\ m_pw m1 = sb_decr (m_pw ma) (instr_WriteRegisters (ik k)) /\
      m_pr m1 = sb_decr (m_pr ma) (instr_ReadRegisters (ik k)) /\
      m_mem m1 = m_mem ma /\ m_l1i m1 = m_l1i ma /\ m_l3 m1 = m_l3 ma /\ m_pend m1 = m_pend ma /\ m_fu m1 = m_fu ma /\
      m_dret m1 = m_dret ma /\ m_dpbr m1 = m_dpbr ma /\ m_cu m1 = m_cu ma /\ m_bu m1 = m_bu ma /\ m_dbus m1 = m_dbus ma /\
      m_cbus m1 = m_cbus ma /\ m_ebus m1 = m_ebus ma /\ m_wbus m1 = m_wbus ma.
  Proof.
    intros H1 H2 Hnr. pose proof (eff_ret k H1 H2) as Hr. pose proof (eff_nostore k) as Hs.
    destruct (eff k) as [rd v|bs| |a|rd v a|] eqn:Ee; cbn [embed].
    - destruct (reg_pair rd v) as [r0 x0] eqn:Erp. cbn [RegisterChange Register RegisterValue]. eexists. split; [reflexivity|].
      cbn [del_pending6 set_sb set_regs m_regs m_pw m_pr m_mem m_l1i m_l3 m_pend m_fu m_dret m_dpbr m_cu m_bu m_dbus m_cbus m_ebus m_wbus apply_eff].
      rewrite <- (rset_reg_pair (m_regs ma) rd v), Erp. repeat split.
    - exfalso. exact (Hs bs H1 H2 eq_refl).
    - cbn [RegisterChange MemoryChange]. eexists. split; [reflexivity|]. repeat split.
    - cbn [RegisterChange MemoryChange]. eexists. split; [reflexivity|]. repeat split.
    - destruct (reg_pair rd v) as [r0 x0] eqn:Erp. cbn [RegisterChange Register RegisterValue]. eexists. split; [reflexivity|].
      cbn [del_pending6 set_sb set_regs m_regs m_pw m_pr m_mem m_l1i m_l3 m_pend m_fu m_dret m_dpbr m_cu m_bu m_dbus m_cbus m_ebus m_wbus apply_eff].
      rewrite <- (rset_reg_pair (m_regs ma) rd v), Erp. repeat split.
    - rewrite (proj1 Hr eq_refl) in Hnr. discriminate.
  Qed.

  (* writeUnit.cycle(ctx, before) of an idle write unit whose head entry is not dropped *)
  Lemma wu_step d m eus w before : BackI d m eus -> u_co w = WNone ->
    (forall k q', bb_q (m_wbus m) = wbn k :: q' -> before = -1 \/ pcz k <= before) ->
    exists m1, wu_cycle6 m w before = Ok (m1, w) /\ BackI d m1 eus /\ WuFrame m m1 /\
      (forall k, In k (FL m1 eus) -> In k (FL m eus)) /\
      (forall cy, BusOK cy (m_wbus m) -> BusOK cy (m_wbus m1)).
  Proof.
    intros HB Hco Hkeep. pose proof HB as [H1 H2 H3 H4 H5 H6 H7]. unfold wu_cycle6. rewrite Hco. unfold bb_get.
    destruct (bb_q (m_wbus m)) as [|x q'] eqn:Eq.
    { exists m. rewrite set_wbus_same. split; [reflexivity|]. split; [exact HB|]. split; [constructor; try reflexivity; rewrite Eq; reflexivity|].
      split; auto. }
    set (ma := set_wbus m (mk_bb (bb_buf (m_wbus m)) q' (bb_ql (m_wbus m)) (bb_bl (m_wbus m)))).
    assert (Hflat : flat (m_wbus m) = x :: flat (m_wbus ma)).
    { unfold flat, ma. cbn [set_wbus m_wbus bb_q bb_buf]. rewrite Eq. reflexivity. }
    assert (Hx : WbOK d x) by (rewrite Hflat in H3; inversion H3; assumption).
    destruct Hx as (k & Hkd & HkN & Hkn & Hnr & ->).
    assert (Hnd : negb (before =? -1) && (before <? w_seq (wbn k)) = false).
    { cbn [wbn w_seq]. destruct (Hkeep k q' eq_refl) as [->|Hle]; [reflexivity|].
      destruct (before =? -1); [reflexivity|]. cbn [negb andb]. apply Z.ltb_ge. exact Hle. }
    rewrite Hnd.
    assert (HFL : Permutation (FL m eus) (k :: FL ma eus)).
    { unfold FL. rewrite Hflat. change (m_ebus ma) with (m_ebus m). cbn [map]. rewrite kw_wbn. perm_nat. }
    assert (HS : BackSem d (m_regs m) (m_pw m) (m_pr m) (k :: FL ma eus)) by (eapply bs_perm; [exact HFL | exact H4]).
    pose proof (bs_pwlen _ _ _ _ _ _ _ _ _ H4) as Lw. pose proof (bs_prlen _ _ _ _ _ _ _ _ _ H4) as Lr.
    assert (HS' : BackSem d (apply_eff (eff k) (m_regs m)) (sb_decr (m_pw m) (instr_WriteRegisters (ik k)))
                          (sb_decr (m_pr m) (instr_ReadRegisters (ik k))) (FL ma eus)).
    { apply (bs_writeback app labels regs0 base Hlen0 d (m_regs m) (m_pw m) (m_pr m)); auto.
      - intros s Hs. eapply eff_writes; try eassumption. lia.
      - rewrite sb_decr_length. exact Lw.
      - rewrite sb_decr_length. exact Lr.
      - intros s Hs. apply sb_decr_nth; [lia|]. intros s' Hs'. rewrite Lw in Hs'.
        rewrite (bs_pw _ _ _ _ _ _ _ _ _ HS s' Hs'). apply (cnt_member_ge wsl). left. reflexivity.
      - intros s Hs. apply sb_decr_nth; [lia|]. intros s' Hs'. rewrite Lr in Hs'.
        rewrite (bs_pr _ _ _ _ _ _ _ _ _ HS s' Hs'). apply (cnt_member_ge rsl). left. reflexivity. }
    cbn [wbn w_exe w_reads w_writes].
    destruct (wb_apply ma k w ltac:(lia) Hkn Hnr) as (m1 & E & R1 & R2 & R3 & R4 & R5 & R6 & R7 & R8 & R9 & R10 & R11 & R12 & R13 & R14 & R15 & R16).
    exists m1. split; [exact E|].
    assert (HFL1 : FL m1 eus = FL ma eus) by (unfold FL; rewrite R15, R16; reflexivity).
    split; [|split; [|split]].
    - constructor; rewrite ?R15, ?R16, ?R1, ?R2, ?R3, ?R4, ?R6, ?HFL1; auto.
      rewrite Hflat in H3. inversion H3; assumption.
    - constructor; rewrite ?R4, ?R5, ?R6, ?R7, ?R8, ?R9, ?R10, ?R11, ?R12, ?R13, ?R14, ?R15, ?R16; try reflexivity.
      unfold ma. cbn [set_wbus m_wbus bb_q]. rewrite Eq. reflexivity.
    - intros k0 Hk0. rewrite HFL1 in Hk0. eapply Permutation_in; [apply Permutation_sym; exact HFL | right; exact Hk0].
    - intros cy [B1 B2 B3 B4]. rewrite R16. unfold ma. constructor; cbn [set_wbus m_wbus bb_buf bb_ql bb_bl]; auto.
      unfold qlen in *. cbn [bb_q]. rewrite Eq in B3. unfold zlen in *. cbn [length] in B3. lia.
  Qed.

  (* for _, wu := range m.writeUnits { wu.cycle(ctx, -1) } *)
  Lemma wus_ok d eus : forall wus m, BackI d m eus -> Forall (fun w => u_co w = WNone) wus ->
    exists m1, wus_cycle m wus (-1) = Ok (m1, wus) /\ BackI d m1 eus /\
      m_mem m1 = m_mem m /\ m_l1i m1 = m_l1i m /\ m_l3 m1 = m_l3 m /\ m_pend m1 = m_pend m /\ m_fu m1 = m_fu m /\
      m_dret m1 = m_dret m /\ m_dpbr m1 = m_dpbr m /\ m_cu m1 = m_cu m /\ m_bu m1 = m_bu m /\ m_dbus m1 = m_dbus m /\
      m_cbus m1 = m_cbus m /\ m_ebus m1 = m_ebus m /\
      bb_buf (m_wbus m1) = bb_buf (m_wbus m) /\ bb_ql (m_wbus m1) = bb_ql (m_wbus m) /\ bb_bl (m_wbus m1) = bb_bl (m_wbus m) /\
      bb_q (m_wbus m1) = skipn (length wus) (bb_q (m_wbus m)) /\
      (forall k, In k (FL m1 eus) -> In k (FL m eus)) /\
      (forall cy, BusOK cy (m_wbus m) -> BusOK cy (m_wbus m1)).
  Proof.
    induction wus as [|w t IH]; intros m HB Hw.
    - exists m. cbn [wus_cycle length skipn]. repeat (split; [reflexivity || exact HB|]). auto.
    - inversion Hw as [|? ? Hw1 Hw2]; subst. cbn [wus_cycle].
      destruct (wu_step d m eus w (-1) HB Hw1 ltac:(auto)) as (m1 & E & A1 & A2 & A3 & A4). rewrite E. cbn [bind fst snd].
      destruct (IH m1 A1 Hw2) as (m2 & E2 & B1 & B2 & B3 & B4 & B5 & B6 & B7 & B8 & B9 & B10 & B11 & B12 & B13 & B14 & B15 & B16 & B17 & B18 & B19).
      rewrite E2. cbn [bind fst snd]. destruct A2. exists m2. split; [reflexivity|]. split; [exact B1|].
      repeat (split; [congruence|]).
      split; [rewrite B17, wf_wq0; cbn [length]; destruct (bb_q (m_wbus m)); [destruct (length t); reflexivity | reflexivity]|].
      split; [intros k Hk; apply A3, B18; exact Hk | intros cy Hc; apply B19, A4; exact Hc].
  Qed.

  (* ---------------------------------------------------------------- *)
  (* draining the write bus before a flush: entries younger than E are dropped *)

  Record FlushI (d E : nat) (m : mach) (D : list nat) : Prop := mkFL {
    fl_w : Forall (WbOK d) (flat (m_wbus m));
    fl_sem : BackSemW app labels regs0 base d (m_regs m) (map kw (flat (m_wbus m)) ++ D);
    fl_mem : m_mem m = mem0;
    fl_l3 : lines (m_l3 m) = [];
    fl_D : forall k, In k D -> (E < k)%nat;
    fl_all : forall k, (E < k < d)%nat -> In k (map kw (flat (m_wbus m)) ++ D) }.

  Lemma wu_flush_step d E m D w : FlushI d E m D -> u_co w = WNone ->
    exists m1 D', wu_cycle6 m w (pcz E) = Ok (m1, w) /\ FlushI d E m1 D' /\
      m_mem m1 = m_mem m /\ m_l1i m1 = m_l1i m /\ m_l3 m1 = m_l3 m /\ m_pend m1 = m_pend m /\ m_fu m1 = m_fu m /\
      m_bu m1 = m_bu m /\ bb_buf (m_wbus m1) = bb_buf (m_wbus m) /\ bb_ql (m_wbus m1) = bb_ql (m_wbus m) /\
      bb_bl (m_wbus m1) = bb_bl (m_wbus m) /\ bb_q (m_wbus m1) = tl (bb_q (m_wbus m)) /\
      m_dbus m1 = m_dbus m /\ m_cbus m1 = m_cbus m /\ m_ebus m1 = m_ebus m.
  Proof.
    intros [H3 H4 H5 H6 H7 H8] Hco. unfold wu_cycle6. rewrite Hco. unfold bb_get.
    destruct (bb_q (m_wbus m)) as [|x q'] eqn:Eq.
    { exists m, D. rewrite set_wbus_same. split; [reflexivity|]. split; [constructor; assumption|]. rewrite Eq. repeat split. }
    set (ma := set_wbus m (mk_bb (bb_buf (m_wbus m)) q' (bb_ql (m_wbus m)) (bb_bl (m_wbus m)))).
    assert (Hflat : flat (m_wbus m) = x :: flat (m_wbus ma)).
    { unfold flat, ma. cbn [set_wbus m_wbus bb_q bb_buf]. rewrite Eq. reflexivity. }
    assert (Hx : WbOK d x) by (rewrite Hflat in H3; inversion H3; assumption).
    destruct Hx as (k & Hkd & HkN & Hkn & Hnr & ->).
    assert (Hw' : Forall (WbOK d) (flat (m_wbus ma))) by (rewrite Hflat in H3; inversion H3; assumption).
    cbn [wbn w_seq]. fold (wbn k).
    assert (Hneg : (pcz E =? -1) = false) by (apply Z.eqb_neq; unfold pcz; lia). rewrite Hneg. cbn [negb andb].
    destruct (Z.ltb_spec (pcz E) (pcz k)) as [Hlt|Hge].
    - (* younger than the flushing instruction: dropped; it stays in the invariant as a ghost *)
      exists ma, (k :: D). split; [reflexivity|]. split.
      + constructor; auto.
        * eapply bw_perm; [|exact H4]. rewrite Hflat. cbn [map]. rewrite kw_wbn. perm_nat.
        * intros k0 [<-|Hk0]; [unfold pcz in Hlt; lia | apply H7; exact Hk0].
        * intros k0 Hk0. specialize (H8 k0 Hk0). rewrite Hflat in H8. cbn [map] in H8. rewrite kw_wbn in H8.
          rewrite in_app_iff in *. cbn [In] in *. tauto.
      + unfold ma. cbn [set_wbus m_mem m_l1i m_l3 m_pend m_fu m_bu m_dbus m_cbus m_ebus m_wbus bb_buf bb_q bb_ql bb_bl]. repeat split.
    - (* written back *)
      cbn [wbn w_exe w_reads w_writes].
      destruct (wb_apply ma k w ltac:(lia) Hkn Hnr) as (m1 & E1 & R1 & R2 & R3 & R4 & R5 & R6 & R7 & R8 & R9 & R10 & R11 & R12 & R13 & R14 & R15 & R16).
      exists m1, D. split; [exact E1|]. split.
      + constructor; rewrite ?R16, ?R1, ?R4, ?R6; auto.
        * change (m_regs ma) with (m_regs m). apply (bw_writeback app labels regs0 base Hlen0).
          -- eapply bw_perm; [|exact H4]. rewrite Hflat. cbn [map List.app]. rewrite kw_wbn. apply Permutation_refl.
          -- intros s Hs. eapply eff_writes; try eassumption. lia.
        * intros k0 Hk0. specialize (H8 k0 Hk0). rewrite Hflat in H8. cbn [map List.app In] in H8. rewrite kw_wbn in H8.
          destruct H8 as [<-|H8]; [unfold pcz in Hge; lia | exact H8].
      + rewrite R4, R5, R6, R7, R8, R12, R13, R14, R15, R16. unfold ma. cbn [set_wbus m_mem m_l1i m_l3 m_pend m_fu m_bu m_dbus m_cbus m_ebus m_wbus bb_buf bb_q bb_ql bb_bl]. repeat split.
  Qed.
End Back.
