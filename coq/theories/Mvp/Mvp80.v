(* H: faithful cycle-level model of proc/mvp8-0 = the pipeline of MVP-6.3 (Mvp63.v) in front of a new
   memory system: one L1D per execute unit ("core") behind a cache controller (cc.go), an MSI directory
   (msi.go) and a shared L3 (comp.LRUCache, 128-byte lines, 4 KB) between the L1s and ctx.Memory (mmu.go).

   cpu.go  Run loop (main loop, drain loop after ret, flush loop, FINAL loop that drains the snoops,
           write-back of the L1s and of L3), flush, isEmpty      -> step8, finish8, mvp80_run
   fu.go   identical to mvp6-3 (its L1I is a field of the unit)  -> fu_cycle6 of Mvp60.v, fu_reset3 of Mvp63.v
   du.go   identical                                             -> du_cycle3 of Mvp63.v
   cu.go   = mvp6-3/cu.go plus (1) the cycle lost when msi.staleState is set (copy of the MSI states),
           (2) pushRunner stamps the runner with an ExecutionUnitID preference
                                                                 -> cu_cycle8 = cu_cycle3 of Mvp63.v + eu_preference8
   bu.go   identical                                             -> bu_assert3, bu_resolved3, bu_should_flush6
   eu.go   Pick from the bus by preference, registerRead on behalf of the sequence id, loads through
           cc.read, stores through cc.write (a store is never put on the write bus and its registers are
           NEVER removed from the scoreboard), flush also flushes the controller
                                                                 -> eu_cycle8, eu_prepare8, eu_run8, eu_read8, eu_write8
   wu.go   a memory change on the write bus panics               -> wu_cycle8
   cc.go   coRead / coWrite / coSnoop, flush, writeBack          -> cc_read_cycle, cc_write_cycle, cc_snoop_cycle, cc_flush, cc_writeback
   msi.go  l1RLock, l1Lock, commands, L3 locks                   -> msi_l1rlock, msi_l1lock, msi_send, cmd_done, ...
   mmu.go  fetchCacheLine, writeToMemory                         -> fetch_line8, write_to_memory of Mvp3.v
   common/coroutine: every coroutine is an explicit state machine (rd_co, wr_co, snoop_cl, eu_co8); a
           constructor per closure that can be `current` at the end of a Cycle call.
           ExecuteWithCheckpointAfter(n, f) = a state with a counter, whose FIRST call happens at once.

   One Gallina step (step8) per ctx.VerifTick(): fuel = tick budget.

   Pointers.  *comp.Sem = the aligned address it is stored under in msi.pendings (entries are never replaced);
   *msiCommandInfo = an identity (k_next); k_done = the identities whose doneFlag is set; *sync.Mutex = the
   L3-aligned address.  risc.InstructionRunnerPc.ExecutionUnitID is written once, in pushRunner, when the
   struct gets its identity q_id: y_pref maps identities to the preference (absent = None).

   Go map iteration, explicit as the argument `ord` (ord cycle pc keys, used through iter_order):
     (b) cu.pushedRunnersInPreviousCycle in shouldUseForwarding, as in Mvp63.v (ghost flag there);
     (c) the RAT value maps, as in Mvp63.v (not observable);
     (d) the map returned by msi.getPendingRequestsToCore in coSnoop (keys = identities of the commands addressed
         to that core in creation order, pc = -(3 + core)): the closures are appended to the snoop list in that
         order and run in that order every cycle.  Ghost flag: two commands of one call conflict (sn_conflict:
         two l1WriteBack of different L3 lines - both refresh the LRU order of L3 -, or two commands other
         than l1Evict on the same L3 line).  The flag is conservative: in the tie (bin/tie_m80.py) no run changed its
         result with the order of (d) alone; every observed order-sensitive result comes from (b).
   Not order-sensitive: msi.states in l1ReadRequest / l1WriteRequest / l1InvalidationRequest (at most one command
   per other core; only the set of pendings is used), msi.copyState, cc.flush (each semaphore is unlocked once;
   a panic is a panic whatever the order), execution.MemoryChanges (sorted), ds.StableMapIteration (sorted).
   The executionUnitIDCache of the control unit is never written (Find always fails): the preference of a load
   is the smallest core id holding the line in the copy of the MSI states.

   sync.Mutex.Unlock of an unlocked mutex is a FATAL error of the Go runtime (the process dies, the harness
   reports CRASH); the model returns Panic there.

   No proofs in this file. *)
From Coq Require Import ZArith List Bool Lia.
From Maj Require Import Base.Outcome Base.GoInt Base.GoTypes Isa.Spec Isa.Seq.
From Maj Require Import Gen.Latency Gen.RiscTables Gen.Opcodes Comp.Cache Comp.Rat Mvp.Mvp12 Mvp.Mvp3 Mvp.Mvp5 Mvp.Mvp60 Mvp.Mvp63.
Import ListNotations.
Open Scope Z_scope.

(* ------------------------------------------------------------------ *)
(* constants of cpu.go, helpers                                         *)
(* ------------------------------------------------------------------ *)

Definition l1dLineSize : Z := 64.
Definition l1dSize : Z := 1024.
Definition l3LineSize8 : Z := 128.
Definition l3Size8 : Z := 4096.

(* getAlignedMemoryAddress: addr - (addr % align) on int32 *)
Definition align8 (a n : Z) : Z := subS 32 a (remS 32 a n).
Definition l1_align (a : Z) : Z := align8 a l1dLineSize.
Definition l3_align (a : Z) : Z := align8 a l3LineSize8.

(* Go maps keyed by a struct: association lists with a key equality *)
Section PMap.
  Context {K V : Type}.
  Variable keq : K -> K -> bool.
  Fixpoint pget (k : K) (m : list (K * V)) : option V :=
    match m with
    | [] => None
    | (k', v) :: t => if keq k k' then Some v else pget k t
    end.
  Fixpoint pset (k : K) (v : V) (m : list (K * V)) : list (K * V) :=
    match m with
    | [] => [(k, v)]
    | (k', v') :: t => if keq k k' then (k, v) :: t else (k', v') :: pset k v t
    end.
  Definition pdel (k : K) (m : list (K * V)) : list (K * V) := filter (fun p => negb (keq k (fst p))) m.
End PMap.

Definition zz_eqb (a b : Z * Z) : bool := (fst a =? fst b) && (snd a =? snd b).
Definition add_z (a : Z) (l : list Z) : list Z := if memZ a l then l else l ++ [a].
Definition del_z (a : Z) (l : list Z) : list Z := filter (fun b => negb (a =? b)) l.

(* ------------------------------------------------------------------ *)
(* msi.go                                                               *)
(* ------------------------------------------------------------------ *)

Definition st_invalid : Z := 0.
Definition st_shared : Z := 1.
Definition st_modified : Z := 2.
Definition rq_l1Evict : Z := 1.
Definition rq_l1WriteBack : Z := 2.
Definition rq_l3Evict : Z := 3.
Definition rq_l3WriteBack : Z := 4.

(* msiCommandRequest *)
Record cmdk := mk_ck { ck_id : Z; ck_addr : Z; ck_req : Z }.
Definition ck_eqb (a b : cmdk) : bool := (ck_id a =? ck_id b) && (ck_addr a =? ck_addr b) && (ck_req a =? ck_req b).

Record msi8 := mk_msi {
  k_sems : list (Z * (Z * Z));        (* pendings: aligned address -> Sem{read, write}; absent = a fresh Sem *)
  k_states : list ((Z * Z) * Z);      (* states: (core, aligned address) -> msiState; absent = invalid *)
  k_stale : bool;                     (* staleState *)
  k_cmds : list (cmdk * Z);           (* commands: request -> identity of its *msiCommandInfo, in creation order *)
  k_done : list Z;                    (* identities with doneFlag set *)
  k_next : Z;                         (* next identity *)
  k_l3lock : list (Z * bool);         (* l3Lock: L3-aligned address -> mutex is locked; absent = unlocked *)
  k_l3write : list (Z * bool) }.      (* l3Write *)

Definition msi_new : msi8 := mk_msi [] [] false [] [] 1 [] [].

Definition set_sems (k : msi8) (s : list (Z * (Z * Z))) : msi8 :=
  mk_msi s (k_states k) (k_stale k) (k_cmds k) (k_done k) (k_next k) (k_l3lock k) (k_l3write k).
Definition set_states (k : msi8) (s : list ((Z * Z) * Z)) (stale : bool) : msi8 :=
  mk_msi (k_sems k) s stale (k_cmds k) (k_done k) (k_next k) (k_l3lock k) (k_l3write k).
Definition set_cmds (k : msi8) (c : list (cmdk * Z)) (d : list Z) (n : Z) : msi8 :=
  mk_msi (k_sems k) (k_states k) (k_stale k) c d n (k_l3lock k) (k_l3write k).
Definition set_l3lock (k : msi8) (l : list (Z * bool)) : msi8 :=
  mk_msi (k_sems k) (k_states k) (k_stale k) (k_cmds k) (k_done k) (k_next k) l (k_l3write k).
Definition set_l3write (k : msi8) (l : list (Z * bool)) : msi8 :=
  mk_msi (k_sems k) (k_states k) (k_stale k) (k_cmds k) (k_done k) (k_next k) (k_l3lock k) l.

(* m.states[msiEntry{id, addr}] *)
Definition st_get (k : msi8) (id a : Z) : Z :=
  match pget zz_eqb (id, a) (k_states k) with Some v => v | None => st_invalid end.
(* getL1Sem *)
Definition sem_get (k : msi8) (a : Z) : Z * Z :=
  match aget a (k_sems k) with Some s => s | None => (0, 0) end.
Definition sem_put (k : msi8) (a : Z) (s : Z * Z) : msi8 := set_sems k (aset a s (k_sems k)).

(* comp.Sem (semaphore.go) *)
Definition sem_rlock (s : Z * Z) : option (Z * Z) := if 0 <? snd s then None else Some (fst s + 1, snd s).
Definition sem_lock (s : Z * Z) : option (Z * Z) := if (0 <? snd s) || (0 <? fst s) then None else Some (fst s, snd s + 1).
Definition sem_runlock (s : Z * Z) : outcome (Z * Z) := if fst s - 1 <? 0 then Panic else Ok (fst s - 1, snd s).
Definition sem_unlock (s : Z * Z) : outcome (Z * Z) := if snd s - 1 <? 0 then Panic else Ok (fst s, snd s - 1).

(* isDone *)
Definition cmd_isdone (k : msi8) (cid : Z) : bool := memZ cid (k_done k).

(* sendNewL1MSICommand / sendNewL3MSICommand: an existing command with the same key is reused *)
Definition msi_send (k : msi8) (key : cmdk) : msi8 * Z :=
  match pget ck_eqb key (k_cmds k) with
  | Some cid => (k, cid)
  | None => (set_cmds k (k_cmds k ++ [(key, k_next k)]) (k_done k) (k_next k + 1), k_next k)
  end.

(* msiCommandInfo.done(): doneFlag = true; callback: an L1 command invalidates the line of its core (staleState is
   NOT set here); the command is deleted from m.commands by its key *)
Definition cmd_done (k : msi8) (key : cmdk) (cid : Z) : msi8 :=
  let k1 := if (ck_req key =? rq_l1Evict) || (ck_req key =? rq_l1WriteBack)
            then set_states k (pset zz_eqb (ck_id key, ck_addr key) st_invalid (k_states k)) (k_stale k) else k in
  set_cmds k1 (pdel ck_eqb key (k_cmds k1)) (k_done k1 ++ [cid]) (k_next k1).

(* l1ReadRequest (on_shared = false) / l1WriteRequest / l1InvalidationRequest (on_shared = true):
   for e, state := range m.states { other cores with this line: modified -> l1WriteBack, shared -> l1Evict } *)
Fixpoint msi_requests (sts : list ((Z * Z) * Z)) (k : msi8) (id a : Z) (on_shared : bool) : msi8 * list Z :=
  match sts with
  | [] => (k, [])
  | ((eid, ea), st) :: t =>
      if (eid =? id) || negb (ea =? a) then msi_requests t k id a on_shared
      else if st =? st_modified then
        let '(k1, cid) := msi_send k (mk_ck eid a rq_l1WriteBack) in
        let '(k2, r) := msi_requests t k1 id a on_shared in (k2, cid :: r)
      else if (st =? st_shared) && on_shared then
        let '(k1, cid) := msi_send k (mk_ck eid a rq_l1Evict) in
        let '(k2, r) := msi_requests t k1 id a on_shared in (k2, cid :: r)
      else msi_requests t k id a on_shared
  end.

(* the post-action returned by l1RLock / l1Lock: setL1State (and staleState = true) when p_set, then
   Unlock (p_w) or RUnlock of the semaphore of p_addr *)
Record post := mk_post { p_set : option Z; p_w : bool; p_addr : Z }.
Inductive rkind := KNotFromL1 | KFromL1 | KWriteToL1.

Definition run_post (k : msi8) (id : Z) (p : post) : outcome msi8 :=
  let k1 := match p_set p with
            | Some st => set_states k (pset zz_eqb (id, p_addr p) st (k_states k)) true
            | None => k
            end in
  s <- (if p_w p then sem_unlock (sem_get k1 (p_addr p)) else sem_runlock (sem_get k1 (p_addr p))) ;;
  Ok (sem_put k1 (p_addr p) s).

(* l1RLock(id, addrs), a = getL1AlignedMemoryAddress(addrs); None = msiResponse{wait: true} *)
Definition msi_l1rlock (k : msi8) (id a : Z) : outcome (msi8 * option (rkind * list Z * post)) :=
  let st := st_get k id a in
  if st =? st_invalid then
    match sem_rlock (sem_get k a) with
    | None => Ok (k, None)
    | Some s =>
        let '(k2, pend) := msi_requests (k_states k) (sem_put k a s) id a false in
        Ok (k2, Some (KNotFromL1, pend, mk_post (Some st_shared) false a))
    end
  else if st =? st_modified then
    match sem_lock (sem_get k a) with
    | None => Ok (k, None)
    | Some s => Ok (sem_put k a s, Some (KFromL1, [], mk_post None true a))
    end
  else if st =? st_shared then
    match sem_rlock (sem_get k a) with
    | None => Ok (k, None)
    | Some s => Ok (sem_put k a s, Some (KFromL1, [], mk_post None false a))
    end
  else Panic.

(* l1Lock(id, addrs) *)
Definition msi_l1lock (k : msi8) (id a : Z) : outcome (msi8 * option (rkind * list Z * post)) :=
  let st := st_get k id a in
  if st =? st_invalid then
    match sem_lock (sem_get k a) with
    | None => Ok (k, None)
    | Some s =>
        let '(k2, pend) := msi_requests (k_states k) (sem_put k a s) id a true in
        Ok (k2, Some (KNotFromL1, pend, mk_post (Some st_modified) true a))
    end
  else if st =? st_modified then
    match sem_lock (sem_get k a) with
    | None => Ok (k, None)
    | Some s => Ok (sem_put k a s, Some (KWriteToL1, [], mk_post None true a))
    end
  else if st =? st_shared then
    match sem_lock (sem_get k a) with
    | None => Ok (k, None)
    | Some s =>
        let '(k2, pend) := msi_requests (k_states k) (sem_put k a s) id a true in
        Ok (k2, Some (KWriteToL1, pend, mk_post (Some st_modified) true a))
    end
  else Panic.

(* evictL1ExtraCacheLine(id, alignedAddr) *)
Definition msi_evict_l1 (k : msi8) (id a : Z) : outcome (msi8 * Z) :=
  let st := st_get k id a in
  if (st =? st_shared) || (st =? st_invalid) then Ok (msi_send k (mk_ck id a rq_l1Evict))
  else if st =? st_modified then Ok (msi_send k (mk_ck id a rq_l1WriteBack))
  else Panic.

(* evictL3ExtraCacheLine(id, alignedAddr) *)
Definition msi_evict_l3 (k : msi8) (id a : Z) : msi8 * Z :=
  match aget a (k_l3write k) with
  | Some true => msi_send k (mk_ck id a rq_l3WriteBack)
  | _ => msi_send k (mk_ck id a rq_l3Evict)
  end.

(* getL3Lock(addrs) + the state of the mutex *)
Definition l3_locked (k : msi8) (a : Z) : bool :=
  match aget (l3_align a) (k_l3lock k) with Some b => b | None => false end.
Definition l3_setlock (k : msi8) (a : Z) (b : bool) : msi8 := set_l3lock k (aset (l3_align a) b (k_l3lock k)).
(* mu.Unlock(): fatal error when the mutex is not locked *)
Definition l3_unlock (k : msi8) (a : Z) : outcome msi8 :=
  if l3_locked k a then Ok (l3_setlock k a false) else Panic.

(* ------------------------------------------------------------------ *)
(* cc.go: state                                                         *)
(* ------------------------------------------------------------------ *)

(* the closure that is `current` of cc.read at the end of a Cycle *)
Inductive rd_co :=
| RdStart                                              (* coRead *)
| RdPend (rk : rkind) (pend : list Z)                  (* waits for resp.pendings *)
| RdL3Wait (rem : Z)                                   (* ExecuteWithCheckpointAfter(L3Access, look into L3) *)
| RdEvictWait (cmd : Z)                                (* waits for the eviction of the L1 victim, then coReadFromL1 *)
| RdMemWait (rem : Z) (l3a : Z) (l3d : list Z)         (* ExecuteWithCheckpointAfter(MemoryAccess, ..) with the fetched line *)
| RdL3Lock (l3a : Z) (l3d : list Z)                    (* mu.TryLock() *)
| RdL3Push (rem : Z) (l3a : Z) (l3d : list Z)          (* ExecuteWithCheckpointAfter(L3Access, pushLineToL3 ..) *)
| RdL1Wait (rem : Z) (data : list Z).                  (* coReadFromL1's ExecuteWithCheckpointAfter(L1Access, ..) *)

(* the same for cc.write *)
Inductive wr_co :=
| WrStart                                              (* coWrite *)
| WrPend (rk : rkind) (pend : list Z)
| WrL1Push (rem : Z) (l1a : Z) (l1d : list Z)          (* ExecuteWithCheckpointAfter(L1Access, pushLineToL1 ..) *)
| WrEvictWait (cmd : Z)                                (* L1 victim; then ExecuteWithCheckpointAfter(L1Access, coWriteToL1) *)
| WrToL1After (rem : Z)                                (* that wrapper *)
| WrMemWait (rem : Z) (l3a : Z) (l3d : list Z)
| WrL3Wait (rem : Z) (l3a : Z) (l3d : list Z)          (* ExecuteWithCheckpointAfter(L3Access, TryLock + pushLineToL3 ..) *)
| WrL3EvictWait (cmd : Z)                              (* L3 victim; then coSyncWriteToL1 *)
| WrFinal (rem : Z).                                   (* coWriteToL1's ExecuteWithCheckpointAfter(L1Access, ..) *)

(* the closures appended to cc.snoop by coSnoop *)
Inductive snoop_cl :=
| SnL1Evict (key : cmdk) (cid : Z)
| SnL3Evict (key : cmdk) (cid : Z)
| SnL1WriteBack (key : cmdk) (cid : Z) (c1 c2 c3 : Z)
| SnL3WriteBack (key : cmdk) (cid : Z) (c : Z).

Record cc8 := mk_cc {
  c_id : Z; c_l1d : cache; c_read : rd_co; c_write : wr_co; c_snoop : list snoop_cl;
  c_rsems : list Z;                   (* keys of l1RLockSems *)
  c_wsems : list Z;                   (* keys of l1LockSems *)
  c_post : option post }.

Definition set_l1d (c : cc8) (l : cache) : cc8 :=
  mk_cc (c_id c) l (c_read c) (c_write c) (c_snoop c) (c_rsems c) (c_wsems c) (c_post c).
Definition set_read (c : cc8) (r : rd_co) : cc8 :=
  mk_cc (c_id c) (c_l1d c) r (c_write c) (c_snoop c) (c_rsems c) (c_wsems c) (c_post c).
Definition set_write (c : cc8) (r : wr_co) : cc8 :=
  mk_cc (c_id c) (c_l1d c) (c_read c) r (c_snoop c) (c_rsems c) (c_wsems c) (c_post c).
Definition set_snoop (c : cc8) (l : list snoop_cl) : cc8 :=
  mk_cc (c_id c) (c_l1d c) (c_read c) (c_write c) l (c_rsems c) (c_wsems c) (c_post c).

(* what the controllers share: ctx.Memory, the L3, the directory *)
Record mw := mk_mw { w_mem : list Z; w_l3 : cache; w_msi : msi8 }.
Definition set_wmsi (w : mw) (k : msi8) : mw := mk_mw (w_mem w) (w_l3 w) k.
Definition set_wl3 (w : mw) (c : cache) : mw := mk_mw (w_mem w) c (w_msi w).
Definition set_wmem (w : mw) (m : list Z) : mw := mk_mw m (w_l3 w) (w_msi w).

(* mmu.fetchCacheLine(addr, cacheLineSize) *)
Definition fetch_line8 (mem : list Z) (addr size : Z) : outcome (Z * list Z) :=
  let base := align8 addr size in
  if (base <? 0) && (0 <? size) then Panic
  else Ok (base, map (fun i => let a := base + Z.of_nat i in
                               if a <? Z.of_nat (length mem) then nth (Z.to_nat a) mem 0 else 0)
                     (seq 0 (Z.to_nat size))).

(* pushLineToL1(addr, line) *)
Definition cc_push_l1 (c : cc8) (addr : Z) (ln : list Z) : outcome (cc8 * option line) :=
  if negb (zlen ln =? l1dLineSize) || negb (remS 32 addr l1dLineSize =? 0) then Panic else
  r <- get (c_l1d c) addr ;;
  match r with
  | (l1, Some _) => Ok (set_l1d c l1, None)
  | (l1, None) => p <- push_line_warn l1 addr ln ;; Ok (set_l1d c (fst p), snd p)
  end.

(* pushLineToL3(addr, line) *)
Definition cc_push_l3 (w : mw) (addr : Z) (ln : list Z) : outcome (mw * option line) :=
  if negb (zlen ln =? l3LineSize8) || negb (remS 32 addr l3LineSize8 =? 0) then Panic else
  r <- get (w_l3 w) addr ;;
  match r with
  | (l3, Some _) => Ok (set_wl3 w l3, None)
  | (l3, None) => p <- push_line_warn l3 addr ln ;; Ok (set_wl3 w (fst p), snd p)
  end.

(* writeToL3(l1Addr, data) *)
Definition cc_write_l3 (w : mw) (l1a : Z) (d : list Z) : outcome mw :=
  let k := set_l3write (w_msi w) (aset (l3_align l1a) true (k_l3write (w_msi w))) in
  c <- write (w_l3 w) l1a d ;;
  Ok (mk_mw (w_mem w) c k).

Definition addr0 (addrs : list Z) : outcome Z := match addrs with [] => Panic | a :: _ => Ok a end.

(* ------------------------------------------------------------------ *)
(* cc.go: coRead (each definition = one closure; later closures first)   *)
(* ------------------------------------------------------------------ *)

(* result of cc.read.Cycle: Some data = ccReadResp{data, true} *)
Definition rd_res : Type := outcome (mw * cc8 * option (list Z)).
Definition rd_stay (w : mw) (c : cc8) (s : rd_co) : rd_res := Ok (w, set_read c s, None).

(* the closure run by coReadFromL1 after L1Access: cc.post(); post = nil; Reset(); delete(l1RLockSems, ..) *)
Definition rd_fin (w : mw) (c : cc8) (addrs data : list Z) : rd_res :=
  match c_post c with
  | None => Panic
  | Some p =>
      k <- run_post (w_msi w) (c_id c) p ;;
      a0 <- addr0 addrs ;;
      Ok (set_wmsi w k,
          mk_cc (c_id c) (c_l1d c) RdStart (c_write c) (c_snoop c) (del_z (l1_align a0) (c_rsems c)) (c_wsems c) None,
          Some data)
  end.

Definition rd_l1wait (w : mw) (c : cc8) (addrs : list Z) (rem : Z) (data : list Z) : rd_res :=
  if 0 <? rem then rd_stay w c (RdL1Wait (rem - 1) data) else rd_fin w c addrs data.

(* coReadFromL1: getFromL1 (panics on a miss), then ExecuteWithCheckpointAfter(L1Access, ..) *)
Definition rd_from_l1 (w : mw) (c : cc8) (addrs : list Z) : rd_res :=
  g <- get_all (c_l1d c) addrs [] ;;
  match g with
  | (l1, Some data) => rd_l1wait w (set_l1d c l1) addrs L1Access data
  | (_, None) => Panic
  end.

(* the checkpoint waiting for the eviction of the extra L1 line *)
Definition rd_evict_wait (w : mw) (c : cc8) (addrs : list Z) (cmd : Z) : rd_res :=
  if cmd_isdone (w_msi w) cmd then rd_from_l1 w c addrs else rd_stay w c (RdEvictWait cmd).

(* shouldEvict := pushLineToL1(l1Addr, l1Data); if shouldEvict != nil { pending := evictL1ExtraCacheLine; Checkpoint; return }
   return coReadFromL1 *)
Definition rd_push_l1 (w : mw) (c : cc8) (addrs : list Z) (l1a : Z) (l1dt : list Z) : rd_res :=
  p <- cc_push_l1 c l1a l1dt ;;
  match snd p with
  | Some victim =>
      e <- msi_evict_l1 (w_msi w) (c_id c) (lo victim) ;;
      rd_stay (set_wmsi w (fst e)) (fst p) (RdEvictWait (snd e))
  | None => rd_from_l1 w (fst p) addrs
  end.

(* coSyncReadFromL1 *)
Definition rd_sync (w : mw) (c : cc8) (addrs : list Z) : rd_res :=
  s <- get_sub_cache_line (w_l3 w) addrs l1dLineSize ;;
  match s with
  | None => Panic
  | Some (l1a, l1dt) => rd_push_l1 w c addrs l1a l1dt
  end.

(* after L3Access with the L3 mutex held: pushLineToL3; mu.Unlock(); a victim gets its command, but the
   Checkpoint that would wait for it is overwritten at once (no return after it): coSyncReadFromL1 *)
Definition rd_l3push (w : mw) (c : cc8) (addrs : list Z) (rem l3a : Z) (l3d : list Z) : rd_res :=
  if 0 <? rem then rd_stay w c (RdL3Push (rem - 1) l3a l3d) else
  p <- cc_push_l3 w l3a l3d ;;
  a0 <- addr0 addrs ;;
  k <- l3_unlock (w_msi (fst p)) a0 ;;
  let k := match snd p with
           | Some victim => fst (msi_evict_l3 k (c_id c) (lo victim))
           | None => k
           end in
  rd_sync (set_wmsi (fst p) k) c addrs.

(* mu := getL3Lock(r.addrs); if !mu.TryLock() { return } *)
Definition rd_l3lock (w : mw) (c : cc8) (addrs : list Z) (l3a : Z) (l3d : list Z) : rd_res :=
  a0 <- addr0 addrs ;;
  if l3_locked (w_msi w) a0 then rd_stay w c (RdL3Lock l3a l3d)
  else rd_l3push (set_wmsi w (l3_setlock (w_msi w) a0 true)) c addrs L3Access l3a l3d.

Definition rd_memwait (w : mw) (c : cc8) (addrs : list Z) (rem l3a : Z) (l3d : list Z) : rd_res :=
  if 0 <? rem then rd_stay w c (RdMemWait (rem - 1) l3a l3d) else rd_l3lock w c addrs l3a l3d.

(* after L3Access: in L3 -> sub line to L1; else fetchCacheLine NOW and wait MemoryAccess *)
Definition rd_l3wait (w : mw) (c : cc8) (addrs : list Z) (rem : Z) : rd_res :=
  if 0 <? rem then rd_stay w c (RdL3Wait (rem - 1)) else
  a0 <- addr0 addrs ;;
  r <- get (w_l3 w) a0 ;;
  match r with
  | (l3, Some _) =>
      s <- get_sub_cache_line l3 addrs l1dLineSize ;;
      match s with
      | None => Panic
      | Some (l1a, l1dt) => rd_push_l1 (set_wl3 w l3) c addrs l1a l1dt
      end
  | (l3, None) =>
      f <- fetch_line8 (w_mem w) a0 l3LineSize8 ;;
      rd_memwait (set_wl3 w l3) c addrs MemoryAccess (fst f) (snd f)
  end.

(* the closure waiting for resp.pendings, then the one that looks at resp.fromL1 / resp.notFromL1 *)
Definition rd_pend (w : mw) (c : cc8) (addrs : list Z) (rk : rkind) (pend : list Z) : rd_res :=
  if negb (forallb (cmd_isdone (w_msi w)) pend) then rd_stay w c (RdPend rk pend) else
  match rk with
  | KFromL1 => rd_from_l1 w c addrs
  | KNotFromL1 =>
      a0 <- addr0 addrs ;;
      g <- get_cache_line (c_l1d c) (l1_align a0) ;;
      match g with
      | Some _ => Panic
      | None => rd_l3wait w c addrs L3Access
      end
  | KWriteToL1 => Panic
  end.

(* coRead *)
Definition rd_start (w : mw) (c : cc8) (addrs : list Z) : rd_res :=
  a0 <- addr0 addrs ;;
  let a := l1_align a0 in
  r <- msi_l1rlock (w_msi w) (c_id c) a ;;
  match snd r with
  | None => Ok (set_wmsi w (fst r), c, None)
  | Some (rk, pend, p) =>
      let c1 := mk_cc (c_id c) (c_l1d c) (c_read c) (c_write c) (c_snoop c) (add_z a (c_rsems c)) (c_wsems c) (Some p) in
      rd_pend (set_wmsi w (fst r)) c1 addrs rk pend
  end.

(* cc.read.Cycle(ccReadReq{cycle, addrs}) *)
Definition cc_read_cycle (w : mw) (c : cc8) (addrs : list Z) : rd_res :=
  match c_read c with
  | RdStart => rd_start w c addrs
  | RdPend rk pend => rd_pend w c addrs rk pend
  | RdL3Wait rem => rd_l3wait w c addrs rem
  | RdEvictWait cmd => rd_evict_wait w c addrs cmd
  | RdMemWait rem l3a l3d => rd_memwait w c addrs rem l3a l3d
  | RdL3Lock l3a l3d => rd_l3lock w c addrs l3a l3d
  | RdL3Push rem l3a l3d => rd_l3push w c addrs rem l3a l3d
  | RdL1Wait rem data => rd_l1wait w c addrs rem data
  end.

(* ------------------------------------------------------------------ *)
(* cc.go: coWrite                                                       *)
(* ------------------------------------------------------------------ *)

(* result of cc.write.Cycle: true = ccWriteResp{done: true} *)
Definition wr_res : Type := outcome (mw * cc8 * bool).
Definition wr_stay (w : mw) (c : cc8) (s : wr_co) : wr_res := Ok (w, set_write c s, false).

(* the closure run by coWriteToL1 after L1Access: writeToL1; post(); post = nil; Reset(); delete(l1LockSems, ..) *)
Definition wr_fin (w : mw) (c : cc8) (addrs data : list Z) : wr_res :=
  a0 <- addr0 addrs ;;
  l1 <- write (c_l1d c) a0 data ;;
  match c_post c with
  | None => Panic
  | Some p =>
      k <- run_post (w_msi w) (c_id c) p ;;
      Ok (set_wmsi w k,
          mk_cc (c_id c) l1 (c_read c) WrStart (c_snoop c) (c_rsems c) (del_z (l1_align a0) (c_wsems c)) None,
          true)
  end.

Definition wr_final (w : mw) (c : cc8) (addrs data : list Z) (rem : Z) : wr_res :=
  if 0 <? rem then wr_stay w c (WrFinal (rem - 1)) else wr_fin w c addrs data.

(* coWriteToL1 *)
Definition wr_to_l1 (w : mw) (c : cc8) (addrs data : list Z) : wr_res := wr_final w c addrs data L1Access.

(* ExecuteWithCheckpointAfter(L1Access, coWriteToL1) *)
Definition wr_to_l1_after (w : mw) (c : cc8) (addrs data : list Z) (rem : Z) : wr_res :=
  if 0 <? rem then wr_stay w c (WrToL1After (rem - 1)) else wr_to_l1 w c addrs data.

Definition wr_evict_wait (w : mw) (c : cc8) (addrs data : list Z) (cmd : Z) : wr_res :=
  if cmd_isdone (w_msi w) cmd then wr_to_l1_after w c addrs data L1Access else wr_stay w c (WrEvictWait cmd).

(* shouldEvict := pushLineToL1(..); victim -> command, Checkpoint, return; else coWriteToL1 *)
Definition wr_push_l1 (w : mw) (c : cc8) (addrs data : list Z) (l1a : Z) (l1dt : list Z) : wr_res :=
  p <- cc_push_l1 c l1a l1dt ;;
  match snd p with
  | Some victim =>
      e <- msi_evict_l1 (w_msi w) (c_id c) (lo victim) ;;
      wr_stay (set_wmsi w (fst e)) (fst p) (WrEvictWait (snd e))
  | None => wr_to_l1 w (fst p) addrs data
  end.

Definition wr_l1push (w : mw) (c : cc8) (addrs data : list Z) (rem l1a : Z) (l1dt : list Z) : wr_res :=
  if 0 <? rem then wr_stay w c (WrL1Push (rem - 1) l1a l1dt) else wr_push_l1 w c addrs data l1a l1dt.

(* coSyncWriteToL1 *)
Definition wr_sync (w : mw) (c : cc8) (addrs data : list Z) : wr_res :=
  s <- get_sub_cache_line (w_l3 w) addrs l1dLineSize ;;
  match s with
  | None => Panic
  | Some (l1a, l1dt) => wr_push_l1 w c addrs data l1a l1dt
  end.

Definition wr_l3evict_wait (w : mw) (c : cc8) (addrs data : list Z) (cmd : Z) : wr_res :=
  if cmd_isdone (w_msi w) cmd then wr_sync w c addrs data else wr_stay w c (WrL3EvictWait cmd).

(* after MemoryAccess + L3Access: TryLock (a failure keeps the wrapper with remaining = 0); Unlock; pushLineToL3;
   a victim is waited for *)
Definition wr_l3wait (w : mw) (c : cc8) (addrs data : list Z) (rem l3a : Z) (l3d : list Z) : wr_res :=
  if 0 <? rem then wr_stay w c (WrL3Wait (rem - 1) l3a l3d) else
  a0 <- addr0 addrs ;;
  if l3_locked (w_msi w) a0 then wr_stay w c (WrL3Wait 0 l3a l3d) else
  p <- cc_push_l3 (set_wmsi w (l3_setlock (w_msi w) a0 false)) l3a l3d ;;
  match snd p with
  | Some victim =>
      let e := msi_evict_l3 (w_msi (fst p)) (c_id c) (lo victim) in
      wr_stay (set_wmsi (fst p) (fst e)) c (WrL3EvictWait (snd e))
  | None => wr_sync (fst p) c addrs data
  end.

Definition wr_memwait (w : mw) (c : cc8) (addrs data : list Z) (rem l3a : Z) (l3d : list Z) : wr_res :=
  if 0 <? rem then wr_stay w c (WrMemWait (rem - 1) l3a l3d) else wr_l3wait w c addrs data L3Access l3a l3d.

(* the closure waiting for resp.pendings and then looking at resp.notFromL1 / resp.writeToL1 *)
Definition wr_pend (w : mw) (c : cc8) (addrs data : list Z) (rk : rkind) (pend : list Z) : wr_res :=
  if negb (forallb (cmd_isdone (w_msi w)) pend) then wr_stay w c (WrPend rk pend) else
  match rk with
  | KNotFromL1 =>
      a0 <- addr0 addrs ;;
      r <- get (w_l3 w) a0 ;;
      match r with
      | (l3, Some _) =>
          s <- get_sub_cache_line l3 addrs l1dLineSize ;;
          match s with
          | None => Panic
          | Some (l1a, l1dt) => wr_l1push (set_wl3 w l3) c addrs data L1Access l1a l1dt
          end
      | (l3, None) =>
          f <- fetch_line8 (w_mem w) a0 l3LineSize8 ;;
          wr_memwait (set_wl3 w l3) c addrs data MemoryAccess (fst f) (snd f)
      end
  | KWriteToL1 => wr_to_l1 w c addrs data
  | KFromL1 => Panic
  end.

(* coWrite *)
Definition wr_start (w : mw) (c : cc8) (addrs data : list Z) : wr_res :=
  a0 <- addr0 addrs ;;
  let a := l1_align a0 in
  r <- msi_l1lock (w_msi w) (c_id c) a ;;
  match snd r with
  | None => Ok (set_wmsi w (fst r), c, false)
  | Some (rk, pend, p) =>
      let c1 := mk_cc (c_id c) (c_l1d c) (c_read c) (c_write c) (c_snoop c) (c_rsems c) (add_z a (c_wsems c)) (Some p) in
      wr_pend (set_wmsi w (fst r)) c1 addrs data rk pend
  end.

(* cc.write.Cycle(ccWriteReq{cycle, addrs, data}) *)
Definition cc_write_cycle (w : mw) (c : cc8) (addrs data : list Z) : wr_res :=
  match c_write c with
  | WrStart => wr_start w c addrs data
  | WrPend rk pend => wr_pend w c addrs data rk pend
  | WrL1Push rem l1a l1dt => wr_l1push w c addrs data rem l1a l1dt
  | WrEvictWait cmd => wr_evict_wait w c addrs data cmd
  | WrToL1After rem => wr_to_l1_after w c addrs data rem
  | WrMemWait rem l3a l3d => wr_memwait w c addrs data rem l3a l3d
  | WrL3Wait rem l3a l3d => wr_l3wait w c addrs data rem l3a l3d
  | WrL3EvictWait cmd => wr_l3evict_wait w c addrs data cmd
  | WrFinal rem => wr_final w c addrs data rem
  end.

(* ------------------------------------------------------------------ *)
(* cc.go: coSnoop                                                       *)
(* ------------------------------------------------------------------ *)

(* one call of a closure of the snoop list; None = it returned true (it is deleted from the list) *)
Definition sn_step (w : mw) (c : cc8) (s : snoop_cl) : outcome (mw * cc8 * option snoop_cl) :=
  match s with
  | SnL1Evict key cid =>
      e <- evict_cache_line (c_l1d c) (ck_addr key) ;;
      Ok (set_wmsi w (cmd_done (w_msi w) key cid), set_l1d c (fst e), None)
  | SnL3Evict key cid =>
      let a := ck_addr key in
      (* if mu.TryLock() { return false }: a free mutex is TAKEN and stays locked until the next call *)
      if negb (l3_locked (w_msi w) a) then Ok (set_wmsi w (l3_setlock (w_msi w) a true), c, Some s) else
      e <- evict_cache_line (w_l3 w) a ;;
      let k := set_l3write (w_msi w) (aset a false (k_l3write (w_msi w))) in
      let k := cmd_done k key cid in
      Ok (mk_mw (w_mem w) (fst e) (l3_setlock k a false), c, None)
  | SnL1WriteBack key cid c1 c2 c3 =>
      let a := ck_addr key in
      if 0 <? c1 then Ok (w, c, Some (SnL1WriteBack key cid (c1 - 1) c2 c3)) else
      g <- get_cache_line (c_l1d c) a ;;
      match g with
      | None => Panic                                      (* panic("memory address should exist") *)
      | Some memory =>
          r <- get (w_l3 w) a ;;
          match r with
          | (l3, None) =>
              if 0 <? c2 then Ok (set_wl3 w l3, c, Some (SnL1WriteBack key cid c1 (c2 - 1) c3)) else
              mem <- write_to_memory (w_mem w) a memory ;;
              e <- evict_cache_line (c_l1d c) a ;;
              match snd e with
              | None => Panic
              | Some _ => Ok (mk_mw mem l3 (cmd_done (w_msi w) key cid), set_l1d c (fst e), None)
              end
          | (l3, Some _) =>
              if 0 <? c3 then Ok (set_wl3 w l3, c, Some (SnL1WriteBack key cid c1 c2 (c3 - 1))) else
              w1 <- cc_write_l3 (set_wl3 w l3) a memory ;;
              e <- evict_cache_line (c_l1d c) a ;;
              match snd e with
              | None => Panic
              | Some _ => Ok (set_wmsi w1 (cmd_done (w_msi w1) key cid), set_l1d c (fst e), None)
              end
          end
      end
  | SnL3WriteBack key cid n =>
      let a := ck_addr key in
      if 0 <? n then Ok (w, c, Some (SnL3WriteBack key cid (n - 1))) else
      if negb (l3_locked (w_msi w) a) then Ok (set_wmsi w (l3_setlock (w_msi w) a true), c, Some s) else
      g <- get_cache_line (w_l3 w) a ;;
      match g with
      | None => Panic
      | Some memory =>
          mem <- write_to_memory (w_mem w) a memory ;;
          e <- evict_cache_line (w_l3 w) a ;;
          match snd e with
          | None => Panic
          | Some _ =>
              let k := set_l3write (w_msi w) (aset a false (k_l3write (w_msi w))) in
              let k := cmd_done k key cid in
              Ok (mk_mw mem (fst e) (l3_setlock k a false), c, None)
          end
      end
  end.

(* c.list = slices.DeleteFunc(c.list, func(f) bool { return f(a) }) *)
Fixpoint sn_run (w : mw) (c : cc8) (l : list snoop_cl) : outcome (mw * cc8 * list snoop_cl) :=
  match l with
  | [] => Ok (w, c, [])
  | s :: t =>
      r <- sn_step w c s ;;
      let '(w1, c1, o) := r in
      r2 <- sn_run w1 c1 t ;;
      let '(w2, c2, t') := r2 in
      Ok (w2, c2, match o with Some s' => s' :: t' | None => t' end)
  end.

(* the body of the `for req, info := range requests` of coSnoop for one request *)
Definition sn_create (w : mw) (c : cc8) (key : cmdk) (cid : Z) : outcome (mw * cc8) :=
  let k := w_msi w in
  let stale k := set_states k (k_states k) true in
  if ck_req key =? rq_l1Evict then
    if st_get k (c_id c) (ck_addr key) =? st_shared
    then Ok (set_wmsi w (stale k), set_snoop c (c_snoop c ++ [SnL1Evict key cid])) else Panic
  else if ck_req key =? rq_l3Evict then Ok (w, set_snoop c (c_snoop c ++ [SnL3Evict key cid]))
  else if ck_req key =? rq_l1WriteBack then
    if st_get k (c_id c) (ck_addr key) =? st_modified
    then Ok (set_wmsi w (stale k), set_snoop c (c_snoop c ++ [SnL1WriteBack key cid L3Access MemoryAccess L3Access])) else Panic
  else if ck_req key =? rq_l3WriteBack then Ok (w, set_snoop c (c_snoop c ++ [SnL3WriteBack key cid MemoryAccess]))
  else Panic.

Fixpoint sn_create_all (w : mw) (c : cc8) (reqs : list (cmdk * Z)) : outcome (mw * cc8) :=
  match reqs with
  | [] => Ok (w, c)
  | (key, cid) :: t => r <- sn_create w c key cid ;; sn_create_all (fst r) (snd r) t
  end.

(* ghost: do the closures of two requests of one coSnoop call not commute? *)
Definition sn_conflict (a b : cmdk) : bool :=
  if (ck_req a =? rq_l1Evict) || (ck_req b =? rq_l1Evict) then false
  else if (ck_req a =? rq_l1WriteBack) && (ck_req b =? rq_l1WriteBack)
       then negb (l3_align (ck_addr a) =? l3_align (ck_addr b))
       else l3_align (ck_addr a) =? l3_align (ck_addr b).
Fixpoint snoop_order_matters (reqs : list cmdk) : bool :=
  match reqs with
  | [] => false
  | a :: t => existsb (sn_conflict a) t || snoop_order_matters t
  end.

(* cc.snoop.Cycle(struct{}{}): the coroutine never leaves its start function; a non-empty list is run and
   coSnoop is NOT called; with an empty list coSnoop turns every command addressed to this core into a closure.
   First component: ghost flag. *)
Definition cc_snoop_cycle (ord : Z -> Z -> list Z -> list Z) (cycle : Z) (w : mw) (c : cc8) : bool * outcome (mw * cc8) :=
  match c_snoop c with
  | _ :: _ =>
      (false, r <- sn_run w c (c_snoop c) ;; let '(w1, c1, l) := r in Ok (w1, set_snoop c1 l))
  | [] =>
      let reqs := filter (fun kc => ck_id (fst kc) =? c_id c) (k_cmds (w_msi w)) in
      let order := map_order ord cycle (- (3 + c_id c)) (map snd reqs) in
      let sorted := flat_map (fun cid => filter (fun kc => snd kc =? cid) reqs) order in
      (snoop_order_matters (map fst reqs), sn_create_all w c sorted)
  end.

(* snoop.IsStart() *)
Definition cc_snoop_isstart (c : cc8) : bool := match c_snoop c with [] => true | _ => false end.
Definition cc_read_isstart (c : cc8) : bool := match c_read c with RdStart => true | _ => false end.
Definition cc_write_isstart (c : cc8) : bool := match c_write c with WrStart => true | _ => false end.

(* ------------------------------------------------------------------ *)
(* cc.go: flush, writeBack; cpu.go: l3WriteBack                         *)
(* ------------------------------------------------------------------ *)

Fixpoint unlock_all (k : msi8) (addrs : list Z) (w : bool) : outcome msi8 :=
  match addrs with
  | [] => Ok k
  | a :: t =>
      s <- (if w then sem_unlock (sem_get k a) else sem_runlock (sem_get k a)) ;;
      unlock_all (sem_put k a s) t w
  end.

(* cacheController.flush(): the second loop deletes from l1RLockSems (already empty): l1LockSems keeps its keys *)
Definition cc_flush (k : msi8) (c : cc8) : outcome (msi8 * cc8) :=
  k1 <- unlock_all k (c_rsems c) false ;;
  k2 <- unlock_all k1 (c_wsems c) true ;;
  Ok (k2, mk_cc (c_id c) (c_l1d c) RdStart WrStart (c_snoop c) [] (c_wsems c) (c_post c)).

(* cacheController.writeBack(): the loop over l1d.ExistingLines() *)
Fixpoint cc_writeback_lines (ls : list line) (w : mw) (id : Z) (cycles : Z) : outcome (mw * Z) :=
  match ls with
  | [] => Ok (w, cycles)
  | l :: t =>
      if negb (st_get (w_msi w) id (lo l) =? st_modified) then cc_writeback_lines t w id cycles else
      r <- get (w_l3 w) (lo l) ;;
      match r with
      | (l3, Some _) =>
          if l3_locked (w_msi w) (lo l) then Panic else
          w1 <- cc_write_l3 (set_wl3 w l3) (lo l) (data l) ;;
          cc_writeback_lines t w1 id (cycles + L3Access)
      | (l3, None) =>
          mem <- write_to_memory (w_mem w) (lo l) (data l) ;;
          cc_writeback_lines t (mk_mw mem l3 (w_msi w)) id (cycles + MemoryAccess)
      end
  end.

Definition cc_writeback (w : mw) (c : cc8) : outcome (mw * Z) :=
  ls <- existing_lines (c_l1d c) ;; cc_writeback_lines ls w (c_id c) 0.

(* CPU.l3WriteBack(): every line of L3 (the extra ones too) goes to memory; a locked mutex panics *)
Fixpoint l3_writeback_lines (ls : list line) (w : mw) (cycles : Z) : outcome (mw * Z) :=
  match ls with
  | [] => Ok (w, cycles)
  | l :: t =>
      if l3_locked (w_msi w) (lo l) then Panic else
      mem <- write_to_memory (w_mem w) (lo l) (data l) ;;
      l3_writeback_lines t (set_wmem w mem) (cycles + MemoryAccess)
  end.

(* ------------------------------------------------------------------ *)
(* machine state                                                        *)
(* ------------------------------------------------------------------ *)

(* y_x: the machine of Mvp63.v; of its Mvp60.v part m_l3 is the SHARED L3 of MVP-8.0 (cpu.l3), m_mem is ctx.Memory,
   m_l1i the L1I of the fetch unit; m_pend is not used *)
Record my := mk_my {
  y_x : mx;
  y_msi : msi8;
  y_copy : list ((Z * Z) * Z);        (* controlUnit.msiStatesCopy *)
  y_pref : list (Z * Z);              (* ExecutionUnitID of the runner with that identity, when it has one *)
  y_ccs : list cc8 }.                 (* cacheControllers *)

Definition set_x (y : my) (x : mx) : my := mk_my x (y_msi y) (y_copy y) (y_pref y) (y_ccs y).
Definition set_ymsi (y : my) (k : msi8) : my := mk_my (y_x y) k (y_copy y) (y_pref y) (y_ccs y).
Definition set_ccs (y : my) (l : list cc8) : my := mk_my (y_x y) (y_msi y) (y_copy y) (y_pref y) l.

Definition mw_of (y : my) : mw := mk_mw (m_mem (x_m (y_x y))) (m_l3 (x_m (y_x y))) (y_msi y).
Definition put_mw (y : my) (w : mw) : my :=
  let x := y_x y in
  set_ymsi (set_x y (set_m x (set_mem (set_l3 (x_m x) (w_l3 w) (m_pend (x_m x))) (w_mem w)))) (w_msi w).
Definition put_cc (y : my) (i : nat) (c : cc8) : my := set_ccs y (set_nth6 (y_ccs y) i c).

(* ------------------------------------------------------------------ *)
(* risc/opcodes.go registerRead with a sequence id                      *)
(* ------------------------------------------------------------------ *)

(* registerRead(ctx, forward, reg, sequenceID), ctx.rat = true: with a sequence id the newest slot of the
   transaction RAT written by an instruction that is not younger; id 0 (the instruction at pc 0 before any
   jump) reads the newest slot *)
Definition reg_read8 (fw : Z * Z) (crat : @rat Z) (trat : @rat (Z * Z)) (seq reg : Z) : Z :=
  if reg =? fst fw then snd fw
  else match (if seq =? 0 then rat_read tu0 trat reg else rat_find tu0 trat reg (fun u => fst u <=? seq)) with
       | Some v => snd v
       | None => match rat_read 0 crat reg with Some v => v | None => 0 end
       end.
Definition rr8 (x : mx) (pc seq : Z) : Z -> Z :=
  reg_read8 (nth (fwd_idx pc) (x_fwd x) (0, 0)) (x_crat x) (x_trat x) seq.

(* ------------------------------------------------------------------ *)
(* cu.go                                                                *)
(* ------------------------------------------------------------------ *)

(* getLineReaders(addr) / getLineWriter(addr) over the copy, in StableMapIteration order (core id first):
   the core ids 0..par-1 whose line is shared or modified / modified *)
Definition copy_get (cp : list ((Z * Z) * Z)) (id a : Z) : Z :=
  match pget zz_eqb (id, a) cp with Some v => v | None => st_invalid end.
Definition line_holders (cp : list ((Z * Z) * Z)) (par : nat) (a : Z) (with_shared : bool) : list Z :=
  filter (fun id => let s := copy_get cp id a in (s =? st_modified) || (with_shared && (s =? st_shared)))
         (map Z.of_nat (seq 0 par)).

(* getExecutionUnitIDPreference(runner): executionUnitIDCache.Find never finds anything: readers[0] *)
Definition eu_preference8 (y : my) (r : runner3) : option Z :=
  let ty := instr_InstructionType (q_instr r) in
  let par := length (y_ccs y) in
  if InstructionType_IsMemoryRead ty then
    match instr_MemoryRead (q_instr r) (rr8 (y_x y) (q_pc r) (q_seq r)) (q_seq r) with
    | [] => None            (* not reachable: a load has addresses *)
    | a0 :: _ => hd_error (line_holders (y_copy y) par (l1_align a0) true)
    end
  else if InstructionType_IsMemoryWrite ty then
    match instr_MemoryWrite (q_instr r) (rr8 (y_x y) (q_pc r) (q_seq r)) (q_seq r) with
    | [] => None
    | a0 :: _ => hd_error (line_holders (y_copy y) par (l1_align a0) false)
    end
  else None.

(* controlUnit.cycle.  With msi.staleState set the unit only copies the MSI states (nothing else changes, not even
   pushedRunnersInPreviousCycle).  Otherwise the code is mvp6-3/cu.go except that pushRunner stamps the runner
   with its preference: nothing the preference depends on (forward fields, RATs, the copy) changes during the
   cycle, so it is computed afterwards for the runners pushed in this cycle (= pushedRunnersInPreviousCycle
   when cycle returns). *)
Definition cu_cycle8 (ord : Z -> Z -> list Z -> list Z) (cycle : Z) (y : my) : my :=
  if k_stale (y_msi y) then
    mk_my (y_x y) (set_states (y_msi y) (k_states (y_msi y)) false) (k_states (y_msi y)) (y_pref y) (y_ccs y)
  else
    let x1 := cu_cycle3 ord cycle (y_x y) in
    let prefs := flat_map (fun r => match eu_preference8 y r with Some v => [(q_id r, v)] | None => [] end) (x_prev x1) in
    mk_my x1 (y_msi y) (y_copy y) (y_pref y ++ prefs) (y_ccs y).

(* ------------------------------------------------------------------ *)
(* eu.go                                                                *)
(* ------------------------------------------------------------------ *)

(* executeUnit.Coroutine: start | prepareRun | the closure around cc.read (captures addrs) |
   the closure around cc.write (captures writeAddrs, data) *)
Inductive eu_co8 := HNone | HPrepare | HRead (addrs : list Z) | HWrite (addrs data : list Z).
Record eu8 := mk_eu8 { h_co : eu_co8; h_memory : list Z; h_runner : option runner3; h_seq : Z }.

Definition eu_res8 : Type := outcome (my * eu8 * eu_out3).
Definition eu_empty8 (e : eu8) : bool := match h_co e with HNone => true | _ => false end.

(* inBus.Pick(predicate): the first runner of the queue without a preference or preferring this unit *)
Fixpoint pick8 (pref : list (Z * Z)) (id : Z) (q : list runner3) : option (runner3 * list runner3) :=
  match q with
  | [] => None
  | r :: t =>
      if match aget (q_id r) pref with None => true | Some v => v =? id end then Some (r, t)
      else match pick8 pref id t with Some (r', t') => Some (r', r :: t') | None => None end
  end.

(* isPendingMessages() *)
Definition eu_pending8 (y : my) (e : eu8) : bool :=
  existsb (fun r => q_seq r <=? h_seq e) (bb_q (x_ebus (y_x y))).

(* executeUnit.flush(): Reset(); sequenceID = 0; cc.flush() *)
Definition eu_flush8 (y : my) (i : nat) (e : eu8) : outcome (my * eu8) :=
  match nth_error (y_ccs y) i with
  | None => Panic
  | Some c =>
      r <- cc_flush (y_msi y) c ;;
      Ok (put_cc (set_ymsi y (fst r)) i (snd r), mk_eu8 HNone (h_memory e) (h_runner e) 0)
  end.

(* the closure around cc.write.Cycle: if resp.done { u.Reset() }; return euResp{} *)
Definition eu_write8 (y : my) (i : nat) (e : eu8) (addrs data : list Z) : eu_res8 :=
  match nth_error (y_ccs y) i with
  | None => Panic
  | Some c =>
      r <- cc_write_cycle (mw_of y) c addrs data ;;
      let '(w, c1, done) := r in
      Ok (put_cc (put_mw y w) i c1,
          mk_eu8 (if done then HNone else HWrite addrs data) (h_memory e) (h_runner e) (h_seq e), yo_none)
  end.

(* run, after ExecuteWithReset *)
Definition eu_run8 (labels : Z -> option Z) (ord : Z -> Z -> list Z -> list Z) (cycle : Z) (y : my) (i : nat) (e : eu8) : eu_res8 :=
  match h_runner e with
  | None => Panic
  | Some r =>
      let x := y_x y in
      let ins := q_instr r in
      let pc := q_pc r in
      let e0 := mk_eu8 HNone (h_memory e) (h_runner e) (h_seq e) in
      let ro := instr_Run ins (rr8 x pc (q_seq r)) labels pc (h_memory e) (q_seq r) in
      (* u.runner.Runner.Forward(risc.Forward{}) *)
      let x := set_forward3 x pc 0 0 in
      match ro with
      | Panic => Panic
      | Err er => Ok (set_x y x, e0, mk_euo3 false 0 0 false (Some er))
      | Ok exe =>
          if Return exe then Ok (set_x y x, e0, mk_euo3 false 0 0 true None) else
          if MemoryChange exe then
            (* executionToMemoryChanges; ExecuteWithCheckpoint(the closure around cc.write) *)
            let ch := sort_changes (MemoryChanges exe) in
            eu_write8 (set_x y x) i e0 (map fst ch) (map snd ch)
          else
          let reads := instr_ReadRegisters ins in
          let writes := instr_WriteRegisters ins in
          let m1 := x_m x in
          let x1 := set_m x (set_wbus m1 (bb_add (m_wbus m1) (mk_wb6 (q_seq r) exe reads writes) cycle)) in
          let ty := instr_InstructionType ins in
          match q_fwder r with
          | None =>
              let x2 := if InstructionType_IsUnconditionalBranch ty then bu_resolved3 x1 pc (NextPc exe) else x1 in
              let x3 := if InstructionType_IsConditionalBranch ty then
                          if PcChange exe && negb (NextPc exe =? addS 32 pc 4)
                          then rat_rollback3 ord cycle (set_pcb3 x2 false) (q_seq r)
                          else rat_commit3 ord cycle (set_pcb3 x2 false)
                        else x2 in
              if PcChange exe then
                let '(b', fl) := bu_should_flush6 (m_bu (x_m x3)) (NextPc exe) in
                Ok (set_x y (set_m x3 (set_bu (x_m x3) b')), e0,
                    if fl then mk_euo3 true (q_seq r) (NextPc exe) false None else yo_none)
              else Ok (set_x y x3, e0, yo_none)
          | Some ch =>
              match aget ch (x_chan x1) with
              | Some _ => Panic
              | None =>
                  if InstructionType_IsBranch ty then Panic
                  else Ok (set_x y (set_chan3 x1 (x_chan x1 ++ [(ch, RegisterValue exe)])), e0, yo_none)
              end
          end
      end
  end.

(* the closure around cc.read.Cycle: if !resp.done { return }; u.memory = resp.data; ExecuteWithReset(run) *)
Definition eu_read8 (labels : Z -> option Z) (ord : Z -> Z -> list Z -> list Z) (cycle : Z) (y : my) (i : nat) (e : eu8)
           (addrs : list Z) : eu_res8 :=
  match nth_error (y_ccs y) i with
  | None => Panic
  | Some c =>
      r <- cc_read_cycle (mw_of y) c addrs ;;
      let '(w, c1, res) := r in
      let y1 := put_cc (put_mw y w) i c1 in
      match res with
      | None => Ok (y1, mk_eu8 (HRead addrs) (h_memory e) (h_runner e) (h_seq e), yo_none)
      | Some d => eu_run8 labels ord cycle y1 i (mk_eu8 (HRead addrs) d (h_runner e) (h_seq e))
      end
  end.

(* prepareRun *)
Definition eu_prepare8 (labels : Z -> option Z) (ord : Z -> Z -> list Z -> list Z) (cycle : Z) (y : my) (i : nat) (e : eu8) : eu_res8 :=
  let x := y_x y in
  if negb (bb_canadd (m_wbus (x_m x))) then Ok (y, e, yo_none) else
  match h_runner e with
  | None => Panic
  | Some r =>
      let rcv := match q_recv r with
                 | None => Some (x, r)
                 | Some ch =>
                     match aget ch (x_chan x) with
                     | None => None
                     | Some v =>
                         Some (set_forward3 (set_chan3 x (filter (fun p => negb (fst p =? ch)) (x_chan x))) (q_pc r) (q_freg r) v,
                               mk_r3 (q_r r) (q_id r) (q_fwder r) None (q_freg r))
                     end
                 end in
      match rcv with
      | None => Ok (y, e, yo_none)
      | Some (x0, r1) =>
          let e := mk_eu8 (h_co e) (h_memory e) (Some r1) (h_seq e) in
          let x1 := bu_assert3 x0 (q_r r1) in
          let addrs := instr_MemoryRead (q_instr r1) (rr8 x1 (q_pc r1) (q_seq r1)) (q_seq r1) in
          match addrs with
          | [] => eu_run8 labels ord cycle (set_x y x1) i e
          | _ :: _ => eu_read8 labels ord cycle (set_x y x1) i e addrs
          end
      end
  end.

(* executeUnit.Cycle: the Pre hook (a younger instruction is dropped: panic("invalid state") when an older runner waits on the
   bus; flush), then the current function of the coroutine *)
Definition eu_cycle8 (labels : Z -> option Z) (ord : Z -> Z -> list Z -> list Z) (cycle : Z) (y : my) (i : nat) (e : eu8) : eu_res8 :=
  let pre := if h_seq e =? 0 then false
             else match h_runner e with None => false | Some r => h_seq e <? q_seq r end in
  if pre then
    if eu_pending8 y e then Panic
    else r <- eu_flush8 y i e ;; Ok (fst r, snd r, yo_none)
  else
  match h_co e with
  | HNone =>
      let x := y_x y in
      let b := x_ebus x in
      match pick8 (y_pref y) (Z.of_nat i) (bb_q b) with
      | None => Ok (y, e, yo_none)
      | Some (r, q') =>
          eu_prepare8 labels ord cycle (set_x y (set_ebus3 x (mk_bb (bb_buf b) q' (bb_ql b) (bb_bl b)))) i
                      (mk_eu8 HPrepare (h_memory e) (Some r) (h_seq e))
      end
  | HPrepare => eu_prepare8 labels ord cycle y i e
  | HRead addrs => eu_read8 labels ord cycle y i e addrs
  | HWrite addrs data => eu_write8 y i e addrs data
  end.

Definition set_hseq (e : eu8) (s : Z) : eu8 := mk_eu8 (h_co e) (h_memory e) (h_runner e) s.

(* the loop over the execute units in the main loop (eus_main3 of Mvp63.v) *)
Fixpoint eus_main8 (labels : Z -> option Z) (ord : Z -> Z -> list Z -> list Z) (cycle : Z) (y : my) (i : nat) (eus : list eu8)
         (acc : eu_out3) : outcome (my * list eu8 * eu_out3) :=
  match eus with
  | [] => Ok (y, [], acc)
  | e :: t =>
      r1 <- eu_cycle8 labels ord cycle y i (set_hseq e (y_seq acc)) ;;
      let '(y1, e1, o) := r1 in
      match y_err o with
      | Some er => Ok (y1, e1 :: t, mk_euo3 (y_flush acc) (y_seq acc) (y_pc acc) (y_ret acc) (Some er))
      | None =>
          let take := y_flush o && (negb (y_flush acc) || (y_seq o <? y_seq acc)) in
          let acc' := mk_euo3 (y_flush acc || y_flush o) (if take then y_seq o else y_seq acc)
                              (if take then y_pc o else y_pc acc) (y_ret acc || y_ret o) None in
          z <- eus_main8 labels ord cycle y1 (S i) t acc' ;;
          let '(y2, t', acc2) := z in Ok (y2, e1 :: t', acc2)
      end
  end.

(* the loop over the execute units in the drain loop after ret *)
Fixpoint eus_drain8 (labels : Z -> option Z) (ord : Z -> Z -> list Z -> list Z) (cycle : Z) (y : my) (i : nat) (eus : list eu8)
  : outcome (my * list eu8 * option err_class) :=
  match eus with
  | [] => Ok (y, [], None)
  | e :: t =>
      if eu_empty8 e then
        z <- eus_drain8 labels ord cycle y (S i) t ;; let '(y2, t', er) := z in Ok (y2, e :: t', er)
      else
        r1 <- eu_cycle8 labels ord cycle y i e ;;
        let '(y1, e1, o) := r1 in
        match y_err o with
        | Some er => Ok (y1, e1 :: t, Some er)
        | None => z <- eus_drain8 labels ord cycle y1 (S i) t ;; let '(y2, t', er) := z in Ok (y2, e1 :: t', er)
        end
  end.

(* the loop over the execute units inside the flush loop: if !eu.isEmpty() || eu.isPendingMessages() { ... } *)
Fixpoint eus_flush8 (labels : Z -> option Z) (ord : Z -> Z -> list Z -> list Z) (fromCycle : Z) (y : my) (i : nat) (eus : list eu8)
         (acc : fl_acc) : outcome (my * list eu8 * fl_acc) :=
  match eus with
  | [] => Ok (y, [], acc)
  | e :: t =>
      if eu_empty8 e && negb (eu_pending8 y e) then
        z <- eus_flush8 labels ord fromCycle y (S i) t acc ;; let '(y2, t', acc2) := z in Ok (y2, e :: t', acc2)
      else
        r1 <- eu_cycle8 labels ord fromCycle y i e ;;
        let '(y1, e1, o) := r1 in
        match y_err o with
        | Some er => Ok (y1, e1 :: t, mk_fla false (a_seq acc) (a_pc acc) (Some er))
        | None =>
            let acc' := if y_flush o then mk_fla false (y_seq o) (y_pc o) None
                        else mk_fla false (a_seq acc) (a_pc acc) None in
            z <- eus_flush8 labels ord fromCycle y1 (S i) t acc' ;; let '(y2, t', acc2) := z in Ok (y2, e1 :: t', acc2)
        end
  end.

(* the loop over the execute units in the final loop of Run: a unit that is at its start function and whose controller is
   idle is skipped; the response (error, flush, return) is ignored.  Second component: was a unit cycled *)
Fixpoint eus_final8 (labels : Z -> option Z) (ord : Z -> Z -> list Z -> list Z) (cycle : Z) (y : my) (i : nat) (eus : list eu8)
  : outcome (my * list eu8 * bool) :=
  match eus with
  | [] => Ok (y, [], false)
  | e :: t =>
      let idle := match nth_error (y_ccs y) i with
                  | Some c => cc_read_isstart c && cc_write_isstart c
                  | None => false
                  end in
      if eu_empty8 e && idle then
        z <- eus_final8 labels ord cycle y (S i) t ;; let '(y2, t', b) := z in Ok (y2, e :: t', b)
      else
        match nth_error (y_ccs y) i with
        | None => Panic
        | Some _ =>
            r1 <- eu_cycle8 labels ord cycle y i e ;;
            let '(y1, e1, _) := r1 in
            z <- eus_final8 labels ord cycle y1 (S i) t ;; let '(y2, t', _) := z in Ok (y2, e1 :: t', true)
        end
  end.

(* for _, cc := range m.cacheControllers { cc.snoop.Cycle(struct{}{}) }; first component: ghost flag *)
Fixpoint snoops_cycle (ord : Z -> Z -> list Z -> list Z) (cycle : Z) (w : mw) (ccs : list cc8) : bool * outcome (mw * list cc8) :=
  match ccs with
  | [] => (false, Ok (w, []))
  | c :: t =>
      let '(os1, r1) := cc_snoop_cycle ord cycle w c in
      match r1 with
      | Ok (w1, c1) =>
          let '(os2, r2) := snoops_cycle ord cycle w1 t in
          (os1 || os2, z <- r2 ;; Ok (fst z, c1 :: snd z))
      | Err er => (os1, Err er)
      | Panic => (os1, Panic)
      end
  end.

Definition or_os8 (y : my) (b : bool) : my := set_x y (or_os (y_x y) b).

Definition snoops8 (ord : Z -> Z -> list Z -> list Z) (cycle : Z) (y : my) : outcome my :=
  let '(os, r) := snoops_cycle ord cycle (mw_of y) (y_ccs y) in
  z <- r ;; Ok (or_os8 (set_ccs (put_mw y (fst z)) (snd z)) os).

(* ------------------------------------------------------------------ *)
(* wu.go                                                                *)
(* ------------------------------------------------------------------ *)

(* writeUnit.start: a memory change on the write bus panics (stores never get there); the coroutine never leaves start *)
Definition wu_cycle8 (x : mx) (w : wu6) (before : Z) : outcome (mx * wu6) :=
  match bb_q (m_wbus (x_m x)) with
  | c :: _ =>
      if negb (negb (before =? -1) && (before <? w_seq c)) && negb (RegisterChange (w_exe c)) && MemoryChange (w_exe c)
      then Panic else wu_cycle3 x w before
  | [] => wu_cycle3 x w before
  end.

Fixpoint wus_cycle8 (x : mx) (wus : list wu6) (before : Z) : outcome (mx * list wu6) :=
  match wus with
  | [] => Ok (x, [])
  | w :: t =>
      r1 <- wu_cycle8 x w before ;;
      r <- wus_cycle8 (fst r1) t before ;;
      Ok (fst r, snd r1 :: snd r)
  end.

(* ------------------------------------------------------------------ *)
(* cpu.go                                                               *)
(* ------------------------------------------------------------------ *)

(* which loop of Run the next tick belongs to *)
Inductive mode8 :=
| PNormal                                          (* the main for loop *)
| PRet                                             (* the drain loop after a ret *)
| PFlushE (seq pc from : Z)                        (* the `for { ... }` after `if flush` *)
| PFlushW (k : nat) (seq pc from : Z) (empty : bool)   (* the loop of write unit k inside it *)
| PFinal.                                          (* the loop after the main loop: snoops and controllers drain *)

Record st8 := mk_st8 { v_y : my; v_eus : list eu8; v_wus : list wu6; v_cycle : Z; v_mode : mode8 }.

Inductive step_res8 := VDone (r : mres) (os : bool) | VCont (s : st8).

Definition y_os (y : my) : bool := x_os (y_x y).

Definition res_of8 {A} (os : bool) (o : outcome A) (k : A -> step_res8) : step_res8 :=
  match o with Ok x => k x | Err e => VDone (MErr e) os | Panic => VDone MPanic os end.

Fixpoint ccs_writeback (w : mw) (ccs : list cc8) (cycles : Z) : outcome (mw * Z) :=
  match ccs with
  | [] => Ok (w, cycles)
  | c :: t => r <- cc_writeback w c ;; ccs_writeback (fst r) t (cycles + snd r)
  end.

(* the end of Run: for _, cc := range m.cacheControllers { cycle += cc.writeBack() }; cycle += m.l3WriteBack();
   RATCommit(); RATFlush(); return cycle, nil *)
Definition finish8 (ord : Z -> Z -> list Z -> list Z) (y : my) (cycle : Z) : mres :=
  match (r <- ccs_writeback (mw_of y) (y_ccs y) 0 ;;
         r2 <- l3_writeback_lines (lines (w_l3 (fst r))) (fst r) 0 ;;
         Ok (fst r2, snd r + snd r2)) with
  | Ok (w, c) =>
      let x := y_x (put_mw y w) in
      MDone (cycle + c) (mk_arch (rat_flush3 ord cycle (rat_commit3 ord cycle x)) (w_mem w))
  | _ => MPanic
  end.

(* CPU.isEmpty() *)
Definition is_empty8 (x : mx) (eus : list eu8) (wus : list wu6) : bool :=
  let m := x_m x in
  f_complete (m_fu m) && (zlen (x_pend x) =? 0) && forallb wu_empty wus &&
  bb_isempty (m_dbus m) && bb_isempty (m_cbus m) && bb_isempty (x_ebus x) && bb_isempty (m_wbus m) &&
  forallb eu_empty8 eus.

Definition wbus_connect8 (y : my) (cycle : Z) : my := set_x y (wbus_connect3 (y_x y) cycle).

(* condition of the drain loop after ret; when it is over Run leaves the main loop *)
Definition ret_check8 (s : st8) : step_res8 :=
  if forallb eu_empty8 (v_eus s) && forallb wu_empty (v_wus s) && bb_isempty (m_wbus (x_m (y_x (v_y s))))
  then VCont (mk_st8 (v_y s) (v_eus s) (v_wus s) (v_cycle s) PFinal)
  else VCont (mk_st8 (v_y s) (v_eus s) (v_wus s) (v_cycle s) PRet).

(* for _, eu := range m.executeUnits { eu.flush() } of CPU.flush *)
Fixpoint eus_flush_all8 (y : my) (i : nat) (eus : list eu8) : outcome (my * list eu8) :=
  match eus with
  | [] => Ok (y, [])
  | e :: t => r <- eu_flush8 y i e ;; r2 <- eus_flush_all8 (fst r) (S i) t ;; Ok (fst r2, snd r :: snd r2)
  end.

(* inside one iteration of the flush loop, after m.writeBus.Connect(cycle + 1): the loops of the write units from
   index k on; then `if isEmpty { break }`, m.flush(pc); cycle += latency.Flush; continue *)
Definition flush_advance8 (s : st8) (k : nat) (seq pc from : Z) (empty : bool) : step_res8 :=
  match flush_next (skipn k (v_wus s)) k (bb_isempty (m_wbus (x_m (y_x (v_y s))))) with
  | Some k' => VCont (mk_st8 (v_y s) (v_eus s) (v_wus s) (v_cycle s) (PFlushW k' seq pc from empty))
  | None =>
      if empty then
        let y1 := set_x (v_y s) (do_flush3 (y_x (v_y s)) pc) in
        res_of8 (y_os y1) (eus_flush_all8 y1 0 (v_eus s)) (fun r =>
        VCont (mk_st8 (fst r) (snd r) (v_wus s) (v_cycle s + Flush) PNormal))
      else VCont (mk_st8 (v_y s) (v_eus s) (v_wus s) (v_cycle s) (PFlushE seq pc from))
  end.

(* the first half of an iteration of the main loop: the four Connect calls, fetchUnit.Cycle, decodeUnit.cycle,
   controlUnit.cycle (front3 of Mvp63.v with the control unit of MVP-8.0) *)
Definition front8 (app : list instr) (ord : Z -> Z -> list Z -> list Z) (cycle : Z) (y : my) : outcome my :=
  let x := y_x y in
  let m := x_m x in
  let m := set_wbus (set_cbus (set_dbus m (bb_connect (m_dbus m) cycle)) (bb_connect (m_cbus m) cycle))
                    (bb_connect (m_wbus m) cycle) in
  let x := set_ebus3 (set_m x m) (bb_connect (x_ebus x) cycle) in
  r <- fu_cycle6 app cycle (m_fu m) (m_l1i m) (m_dbus m) ;;
  let '(fu1, l1i1, dbus1) := r in
  x <- du_cycle3 app cycle (set_m x (set_dbus (set_l1i (set_fu m fu1) l1i1) dbus1)) ;;
  Ok (cu_cycle8 ord cycle (set_x y x)).

(* the rest of an iteration of the main loop once the execute units have run *)
Definition back8 (s : st8) (cycle : Z) (z : my * list eu8 * eu_out3) : step_res8 :=
  let '(y, eus1, o) := z in
  match y_err o with
  | Some er => VDone (MErr er) (y_os y)
  | None =>
      res_of8 (y_os y) (wus_cycle8 (y_x y) (v_wus s) (if y_flush o then y_seq o else -1)) (fun r =>
      let y := set_x y (fst r) in
      let wus1 := snd r in
      if y_ret o then
        let cycle := cycle + 1 in
        ret_check8 (mk_st8 (wbus_connect8 y cycle) eus1 wus1 cycle PRet)
      else if y_flush o then
        VCont (mk_st8 y (map (fun e => set_hseq e (y_seq o)) eus1) wus1 cycle (PFlushE (y_seq o) (y_pc o) cycle))
      else if is_empty8 (y_x y) eus1 wus1 then VCont (mk_st8 y eus1 wus1 cycle PFinal)
      else VCont (mk_st8 y eus1 wus1 cycle PNormal))
  end.

(* one ctx.VerifTick() of Run *)
Definition step8 (app : list instr) (labels : Z -> option Z) (ord : Z -> Z -> list Z -> list Z) (s : st8) : step_res8 :=
  let y := v_y s in
  let os := y_os y in
  match v_mode s with
  | PNormal =>
      let cycle := v_cycle s + 1 in
      res_of8 os (front8 app ord cycle y) (fun y =>
      res_of8 (y_os y) (snoops8 ord cycle y) (fun y =>
      res_of8 (y_os y) (eus_main8 labels ord cycle y 0 (v_eus s) yo_none) (back8 s cycle)))
  | PRet =>
      res_of8 os (snoops8 ord (v_cycle s) y) (fun y =>
      res_of8 (y_os y) (eus_drain8 labels ord (v_cycle s) y 0 (v_eus s)) (fun z =>
      let '(y1, eus1, er) := z in
      match er with
      | Some e => VDone (MErr e) (y_os y1)
      | None =>
          res_of8 (y_os y1) (wus_cycle8 (y_x y1) (v_wus s) (-1)) (fun r =>
          let cycle := v_cycle s + 1 in
          ret_check8 (mk_st8 (wbus_connect8 (set_x y1 (fst r)) cycle) eus1 (snd r) cycle PRet))
      end))
  | PFlushE seq pc from =>
      let cycle := v_cycle s + 1 in
      res_of8 os (snoops8 ord cycle y) (fun y =>
      res_of8 (y_os y) (eus_flush8 labels ord from y 0 (v_eus s) (mk_fla true seq pc None)) (fun z =>
      let '(y1, eus1, acc) := z in
      match a_err acc with
      | Some er => VDone (MErr er) (y_os y1)
      | None =>
          flush_advance8 (mk_st8 (wbus_connect8 y1 (cycle + 1)) eus1 (v_wus s) cycle (v_mode s))
                         0 (a_seq acc) (a_pc acc) from (a_empty acc)
      end))
  | PFlushW k seq pc from empty =>
      match nth_error (v_wus s) k with
      | None => VDone MPanic os
      | Some w =>
          res_of8 os (wu_cycle8 (y_x y) w seq) (fun r =>
          flush_advance8 (mk_st8 (set_x y (fst r)) (v_eus s) (set_nth6 (v_wus s) k (snd r)) (v_cycle s) (v_mode s)) k seq pc from empty)
      end
  | PFinal =>
      let cycle := v_cycle s + 1 in
      let quiet := forallb cc_snoop_isstart (y_ccs y) in
      res_of8 os (snoops8 ord cycle y) (fun y =>
      res_of8 (y_os y) (eus_final8 labels ord cycle y 0 (v_eus s)) (fun z =>
      let '(y1, eus1, busy) := z in
      if quiet && negb busy then VDone (finish8 ord y1 cycle) (y_os y1)
      else VCont (mk_st8 y1 eus1 (v_wus s) cycle PFinal)))
  end.

(* Run: one step per tick until Run returns; when the tick budget is exhausted the state reached *)
Fixpoint run8_st (fuel : nat) (app : list instr) (labels : Z -> option Z) (ord : Z -> Z -> list Z -> list Z) (s : st8)
  : (mres * bool) + st8 :=
  match fuel with
  | O => inr s
  | S f =>
      match step8 app labels ord s with
      | VDone r os => inl (r, os)
      | VCont s' => run8_st f app labels ord s'
      end
  end.

(* NewCPU(debug, memoryBytes, parallelism); m.ctx.InitRAT() at the start of Run *)
Definition init8 (par : nat) (ord : Z -> Z -> list Z -> list Z) (app : list instr) (st : arch) : outcome st8 :=
  match new_cache l1LineSize l1Size, new_cache l3LineSize8 l3Size8, new_cache l1dLineSize l1dSize with
  | Ok ci, Ok c3, Ok cd =>
      let busSize := 2 in
      let m := mk_mach (regs st) (mem st) zero_sb zero_sb ci c3 []
                       (mk_fu6 0 false false FNone 0) false false [] (mk_bu6 false 0 [])
                       (bb_new busSize busSize) (bb_new busSize busSize) (bb_new busSize busSize) (bb_new busSize busSize) in
      let x := mk_mx m (bb_new busSize busSize) [] [] false 0 (init_rat3 ord (regs st)) (rat_new ratLength)
                     (repeat (0, 0) (length app)) [] 1 false in
      let ccs := map (fun i => mk_cc (Z.of_nat i) cd RdStart WrStart [] [] [] None) (seq 0 par) in
      Ok (mk_st8 (mk_my x msi_new [] [] ccs) (repeat (mk_eu8 HNone [] None 0) par) (repeat (mk_wu6 WNone None) par) 0 PNormal)
  | _, _, _ => Panic
  end.

(* NewCPU + Run(app); second component = ghost flag *)
Definition mvp80_run_os (par : nat) (ord : Z -> Z -> list Z -> list Z) (fuel : nat) (app : list instr)
           (labels : Z -> option Z) (st : arch) : mres * bool :=
  match init8 par ord app st with
  | Ok s => match run8_st fuel app labels ord s with
            | inl r => r
            | inr s' => (MOutOfFuel, y_os (v_y s'))
            end
  | _ => (MPanic, false)
  end.

Definition mvp80_run (par : nat) (ord : Z -> Z -> list Z -> list Z) (fuel : nat) (app : list instr)
           (labels : Z -> option Z) (st : arch) : mres :=
  fst (mvp80_run_os par ord fuel app labels st).

(* the same, but a run that exhausts its fuel returns what the Go harness can see of ctx at that moment:
   (cycle, Registers, Memory, PendingWriteRegisters, PendingReadRegisters), the ghost flag and the speculative register file *)
Definition mvp80_run_snap (par : nat) (ord : Z -> Z -> list Z -> list Z) (fuel : nat) (app : list instr)
           (labels : Z -> option Z) (st : arch) : (mres * bool) + (Z * arch * list Z * list Z * bool * list Z) :=
  match init8 par ord app st with
  | Ok s =>
      match run8_st fuel app labels ord s with
      | inl r => inl r
      | inr s' =>
          let x := y_x (v_y s') in
          inr (v_cycle s', mk_arch (m_regs (x_m x)) (m_mem (x_m x)), m_pw (x_m x), m_pr (x_m x), x_os x,
               map (fun k => reg_read3 (0, 0) (x_crat x) (x_trat x) (Z.of_nat k)) (seq 0 32))
      end
  | _ => inl (MPanic, false)
  end.
