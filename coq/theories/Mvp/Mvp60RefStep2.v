(* Refinement of MVP-6.0 to the sequential machine - part 5b: one tick of Run in each of
   the three loops of Run (main loop, drain loop after ret, write-back loop before a
   flush), on top of the cycle lemma normal_ok of Mvp60RefStep.v. *)
From Coq Require Import ZArith List Bool Lia Permutation.
From Maj Require Import Base.Outcome Base.GoInt Base.GoTypes Isa.Spec Isa.Embed Isa.Seq Isa.Refine.
From Maj Require Import Gen.Latency Gen.RiscTables Gen.Opcodes Comp.Cache.
From Maj Require Import Mvp.Mvp12 Mvp.Mvp12Proofs Mvp.Mvp3 Mvp.Mvp3Proofs Mvp.Mvp4Skel Mvp.Mvp4Inv Mvp.Mvp5 Mvp.Mvp60
     Mvp.Mvp60RefSem Mvp.Mvp60RefDefs Mvp.Mvp60RefFront Mvp.Mvp60RefBack Mvp.Mvp60RefStep.
Import ListNotations.
Open Scope Z_scope.

(* the machine right after a flush to instruction t (or at start: t = 0): empty pipeline,
   fetch unit at 4t, registers R *)
Record Fresh (app : list instr) (mem0 : list Z) (t : nat) (R : list Z) (s : st6) : Prop := mkFresh {
  fs_regs : m_regs (s_m s) = R;
  fs_mem : m_mem (s_m s) = mem0;
  fs_pw : m_pw (s_m s) = zero_sb;
  fs_pr : m_pr (s_m s) = zero_sb;
  fs_l3 : lines (m_l3 (s_m s)) = [];
  fs_pc : f_pc (m_fu (s_m s)) = pcz t;
  fs_comp : f_complete (m_fu (s_m s)) = false;
  fs_co : f_co (m_fu (s_m s)) = FNone;
  fs_l1i : IInv (m_l1i (s_m s));
  fs_dret : m_dret (s_m s) = false;
  fs_dpbr : m_dpbr (s_m s) = false;
  fs_cu : m_cu (s_m s) = [];
  fs_btb : Forall (fun en => fst en < pcz t) (b_btb (m_bu (s_m s)));
  fs_dbus : m_dbus (s_m s) = bb_new 2 2;
  fs_cbus : m_cbus (s_m s) = bb_new 2 2;
  fs_ebus : m_ebus (s_m s) = bb_new 2 2;
  fs_wbus : m_wbus (s_m s) = bb_new 2 2;
  fs_eus : Forall EuNone (s_eus s);
  fs_wus : Forall (fun w => u_co w = WNone) (s_wus s);
  fs_wne : s_wus s <> [];
  fs_len : length (s_eus s) = length (s_wus s);
  fs_mode : s_mode s = MNormal }.

Lemma flush_next_none wus k : Forall (fun w => u_co w = WNone) wus -> flush_next wus k true = None.
Proof.
  intros H. revert k. induction H as [|w t Hw _ IH]; intros k; [reflexivity|]. cbn [flush_next].
  unfold wu_empty. rewrite Hw. cbn [negb orb]. apply IH.
Qed.

Lemma flush_next_some w t k : flush_next (w :: t) k false = Some k.
Proof. cbn [flush_next]. rewrite orb_true_r. reflexivity. Qed.

Lemma set_nth6_same {A} (l : list A) n x : nth_error l n = Some x -> set_nth6 l n x = l.
Proof.
  revert n. induction l as [|h t IH]; intros [|n] H; cbn in *; try discriminate.
  - injection H as ->. reflexivity.
  - rewrite (IH n H). reflexivity.
Qed.

Lemma connect_nobuf {T} cyc (b : bbus T) : BusOK cyc b -> bb_buf b = [] ->
  bb_q (bb_connect b (cyc + 1)) = bb_q b /\ bb_buf (bb_connect b (cyc + 1)) = [] /\
  bb_ql (bb_connect b (cyc + 1)) = 2 /\ bb_bl (bb_connect b (cyc + 1)) = 2.
Proof.
  intros HB Hb. destruct (connect_spec cyc b HB) as (H1 & H2 & H3 & H4 & H5).
  assert (Hbl : blen b = 0) by (unfold blen; rewrite Hb; reflexivity).
  pose proof (blen_ge0 (bb_connect b (cyc + 1))).
  assert (Hb' : bb_buf (bb_connect b (cyc + 1)) = []) by (apply zlen_zero; unfold blen in *; lia).
  unfold flat in H1. rewrite Hb, Hb' in H1. cbn [map] in H1. rewrite !app_nil_r in H1.
  repeat split; auto; apply H2.
Qed.

(* the write bus when its queue is empty: Connect moves the whole buffer (at most two) *)
Lemma connect_allq {T} cyc (b : bbus T) : BusOK cyc b -> bb_q b = [] -> blen b <= 2 ->
  bb_q (bb_connect b (cyc + 1)) = map snd (bb_buf b) /\ bb_buf (bb_connect b (cyc + 1)) = [] /\
  bb_ql (bb_connect b (cyc + 1)) = 2 /\ bb_bl (bb_connect b (cyc + 1)) = 2.
Proof.
  intros HB Hq Hbl. destruct (connect_spec cyc b HB) as (H1 & H2 & H3 & H4 & H5).
  assert (Hql : qlen b = 0) by (unfold qlen; rewrite Hq; reflexivity).
  pose proof (blen_ge0 (bb_connect b (cyc + 1))). pose proof (qlen_ge0 (bb_connect b (cyc + 1))).
  assert (Hb' : bb_buf (bb_connect b (cyc + 1)) = []).
  { destruct H5 as [H5|H5]; [exact H5|]. apply zlen_zero. unfold blen in *. lia. }
  unfold flat in H1. rewrite Hq, Hb' in H1. cbn [map List.app] in H1. rewrite app_nil_r in H1.
  repeat split; auto; apply H2.
Qed.

Section Step2.
  Variables (app : list instr) (labels : Z -> option Z) (regs0 mem0 : list Z) (base : nat) (off : Z).
  Hypothesis Happ : wf_app app.
  Hypothesis Hreg : reg_only app = true.
  Hypothesis Hlen0 : (length regs0 <= 32)%nat.
  Hypothesis Hbase : (base <= length app)%nat.
  Let n := length app.
  Let N := stop_from app base.

  Notation sreg := (sreg app labels regs0 base).
  Notation eff := (eff app labels regs0 base).
  Notation rn := (rn app).
  Notation ik := (ik app).
  Notation BackI := (BackI app labels regs0 mem0 base).
  Notation FlushI := (FlushI app labels regs0 mem0 base).
  Notation FrontI := (FrontI app base).
  Notation kout := (kout app labels regs0 base).
  Notation plain := (plain app).
  Notation GI := (GI app labels regs0 mem0 base off).
  Notation TI := (TI app labels regs0 base).
  Notation wbn := (wbn app labels regs0 base).
  Notation phi := (phi app).

  Hypothesis Hsem : forall k, (base <= k <= N)%nat -> (k < n)%nat ->
    exec (sinstr_of (ik k)) (rget (sreg k)) labels (pcz k) [] = Ok (eff k) /\
    (forall a, etarget (eff k) = Some a -> exists t, a = pcz t /\ (k < t <= n)%nat).

  (* what a finished run looks like: the registers are those of the fall-through run up to
     xe, where the text ends or a ret stands; no instruction before xe transferred control *)
  Definition Fin (r : mres) : Prop :=
    exists cf xe, r = MDone cf (mk_arch (sreg xe) mem0) /\ (base <= xe <= n)%nat /\
      (forall k, (base <= k < xe)%nat -> kout k = euo_none) /\
      ((xe = n /\ Z.of_nat xe <= 2 * cf + off) \/
       ((xe < n)%nat /\ is_ret (ik xe) = true /\ Z.of_nat (S xe) <= 2 * cf + off)).

  Definition phis (s : st6) : Z := phi (s_m s) (s_eus s).

  (* drain loop after ret *)
  Record GR (d : nat) (s : st6) : Prop := mkGR {
    gr_back : BackI d (s_m s) (s_eus s);
    gr_eus : Forall EuNone (s_eus s);
    gr_wus : Forall (fun w => u_co w = WNone) (s_wus s);
    gr_wne : s_wus s <> [];
    gr_N : (N < n)%nat /\ d = S N /\ is_ret (ik N) = true;
    gr_ebus : flat (m_ebus (s_m s)) = [];
    gr_wb : bb_buf (m_wbus (s_m s)) = [];
    gr_wq : bb_q (m_wbus (s_m s)) <> [];
    gr_bw : BusOK (s_cycle s) (m_wbus (s_m s));
    gr_exec : forall k, (base <= k < N)%nat -> kout k = euo_none;
    gr_cyc : Z.of_nat d <= 2 * s_cycle s + off;
    gr_mode : s_mode s = MRet }.

  (* write-back loop before the flush requested by instruction E (target: instruction t) *)
  Record GF (d E t : nat) (s : st6) : Prop := mkGF {
    gf_fl : exists D, FlushI d E (s_m s) D;
    gf_eus : Forall EuNone (s_eus s);
    gf_len : length (s_eus s) = length (s_wus s);
    gf_wus : Forall (fun w => u_co w = WNone) (s_wus s);
    gf_wne : s_wus s <> [];
    gf_l1i : IInv (m_l1i (s_m s));
    gf_btb : Forall (fun en => fst en < pcz t) (b_btb (m_bu (s_m s)));
    gf_E : (base <= E < d)%nat /\ (E < t <= n)%nat /\ (d <= n)%nat /\ (E <= N)%nat;
    gf_exec : forall k, (base <= k < E)%nat -> kout k = euo_none;
    gf_out : kout E = mk_euo6 true (pcz E) (pcz t) false;
    gf_wb : bb_buf (m_wbus (s_m s)) = [];
    gf_wq : bb_q (m_wbus (s_m s)) <> [];
    gf_bw : BusOK (s_cycle s) (m_wbus (s_m s));
    gf_par : bb_ql (m_dbus (s_m s)) = 2 /\ bb_bl (m_dbus (s_m s)) = 2 /\ bb_ql (m_cbus (s_m s)) = 2 /\ bb_bl (m_cbus (s_m s)) = 2 /\
             bb_ql (m_ebus (s_m s)) = 2 /\ bb_bl (m_ebus (s_m s)) = 2;
    gf_mode : s_mode s = MFlush 0 (pcz E) (pcz t) }.

  Lemma sreg_ret k : (base <= k)%nat -> is_ret (ik k) = true -> sreg (S k) = sreg k.
  Proof.
    intros Hb H. rewrite sreg_S by assumption. unfold Mvp60RefSem.eff, eff_at. rewrite (is_ret_exec _ _ _ _ _ H). reflexivity.
  Qed.

  (* the drain loop is entered / continued: connect the write bus, then its condition *)
  Lemma ret_tail d cyc m6 eus wus os : BackI d m6 eus -> Forall EuNone eus ->
    Forall (fun w => u_co w = WNone) wus -> wus <> [] ->
    (N < n)%nat /\ d = S N /\ is_ret (ik N) = true -> flat (m_ebus m6) = [] ->
    (bb_q (m_wbus m6) = [] /\ blen (m_wbus m6) <= 2) \/ bb_buf (m_wbus m6) = [] -> BusOK cyc (m_wbus m6) ->
    (forall k, (base <= k < N)%nat -> kout k = euo_none) -> Z.of_nat d <= 2 * cyc + off ->
    let m7 := set_wbus m6 (bb_connect (m_wbus m6) (cyc + 1)) in
    let s2 := mk_st6 m7 eus wus (cyc + 1) MRet os in
    (ret_check s2 = SCont s2 /\ GR d s2 /\ qlen (m_wbus m7) = qlen (m_wbus m6) + blen (m_wbus m6)) \/
    (exists r, ret_check s2 = SDone r os /\ Fin r).
  Proof.
    intros HB He Hw Hwne HN Hebus Hqb HW Hex Hcyc. cbv zeta.
    set (m7 := set_wbus m6 (bb_connect (m_wbus m6) (cyc + 1))).
    assert (Q2 : bb_buf (bb_connect (m_wbus m6) (cyc + 1)) = []).
    { destruct Hqb as [[Hq Hb2]|Hb]; [apply (connect_allq cyc (m_wbus m6) HW Hq Hb2) | apply (connect_nobuf cyc (m_wbus m6) HW Hb)]. }
    destruct (connect_spec cyc (m_wbus m6) HW) as (W1 & W2 & W3 & W4 & W5).
    assert (B7 : BackI d m7 eus).
    { eapply BackI_ext; [| | | | | | |exact HB]; try reflexivity. exact W1. }
    unfold ret_check. cbn [s_eus s_wus s_m s_cycle s_os]. rewrite (eus_empty _ He), (wus_empty _ Hw). cbn [andb].
    destruct (bb_isempty (m_wbus m7)) eqn:Edone.
    - right. eexists. split; [reflexivity|]. destruct HN as (HNn & HdN & Hret).
      rewrite (finish_ok m7 (cyc + 1) (bi_l3 _ _ _ _ _ _ _ _ B7)). exists (cyc + 1), N.
      assert (HFL : FL m7 eus = []).
      { unfold FL. change (m_ebus m7) with (m_ebus m6). rewrite Hebus, (eul_none _ He), (isempty_flat _ Edone). reflexivity. }
      pose proof (bi_sem _ _ _ _ _ _ _ _ B7) as HS. rewrite HFL in HS. apply bs_empty in HS.
      pose proof (stop_from_ge app base) as HbN. fold N in HbN.
      rewrite HS, (bi_mem _ _ _ _ _ _ _ _ B7), HdN, (sreg_ret N HbN Hret). split; [reflexivity|].
      split; [lia|]. split; [exact Hex|]. right. split; [exact HNn|]. split; [exact Hret | lia].
    - left. split; [reflexivity|]. split.
      + constructor; cbn [s_m s_eus s_wus s_cycle s_mode]; auto.
        * unfold m7. cbn [set_wbus m_wbus]. intros Hx. unfold bb_isempty in Edone. unfold m7 in Edone. cbn [set_wbus m_wbus] in Edone.
          rewrite Hx, Q2 in Edone. discriminate.
        * unfold m7. cbn [set_wbus m_wbus]. eapply busok_mono; [|exact W2]. lia.
        * lia.
      + unfold m7. cbn [set_wbus m_wbus].
        assert (blen (bb_connect (m_wbus m6) (cyc + 1)) = 0) by (unfold blen; rewrite Q2; reflexivity). lia.
  Qed.

  Lemma step_ret ord d s : GR d s ->
    (exists s', step6 app labels ord s = SCont s' /\ GR d s' /\ qlen (m_wbus (s_m s')) < qlen (m_wbus (s_m s))) \/
    (exists r os, step6 app labels ord s = SDone r os /\ Fin r).
  Proof.
    intros [GB GE GW GWne GN Geb Gwb Gwq Gbw Gex Gcyc Gmode].
    unfold step6. rewrite Gmode. rewrite (eus_skip labels ord (s_cycle s) (s_m s) euo_none (s_eus s) GE). cbn [res_of].
    unfold drain6.
    destruct (wus_ok app labels regs0 mem0 base Hreg Hlen0 Hbase Hsem d (s_eus s) (s_wus s) (s_m s) GB GW)
      as (m6 & Ew & B6 & V1 & V2 & V3 & V4 & V5 & V6 & V7 & V8 & V9 & V10 & V11 & V12 & V13 & V14 & V15 & V16 & V17 & V18).
    rewrite Ew. cbn [res_of].
    assert (Hq6 : qlen (m_wbus m6) < qlen (m_wbus (s_m s))).
    { unfold qlen, zlen. rewrite V16, skipn_length. destruct (bb_q (m_wbus (s_m s))); [contradiction|].
      destruct (s_wus s); [contradiction|]. cbn [length]. lia. }
    destruct (ret_tail d (s_cycle s) m6 (s_eus s) (s_wus s) (s_os s || false) B6 GE GW GWne GN ltac:(rewrite V12; exact Geb)
                ltac:(right; rewrite V13; exact Gwb) (V18 _ Gbw) Gex Gcyc) as [(E & G2 & P2)|(r & E & HF)].
    - left. eexists. split; [exact E|]. split; [exact G2|]. cbn [s_m].
      assert (blen (m_wbus m6) = 0) by (unfold blen; rewrite V13, Gwb; reflexivity). lia.
    - right. exists r, (s_os s || false). split; [exact E | exact HF].
  Qed.

  (* one tick of the write-back loop before a flush *)
  Lemma step_flush ord d E t s : GF d E t s ->
    (exists s', step6 app labels ord s = SCont s' /\ GF d E t s' /\ qlen (m_wbus (s_m s')) < qlen (m_wbus (s_m s))) \/
    (exists s', step6 app labels ord s = SCont s' /\ Fresh app mem0 t (sreg (S E)) s' /\ s_cycle s' = s_cycle s + 1 + Flush).
  Proof.
    intros [(D & GFl) GE Glen GW GWne Gl1 Gbtb GEt Gex Gout Gwb Gwq Gbw Gpar Gmode].
    unfold step6. rewrite Gmode.
    destruct (s_wus s) as [|w0 wt] eqn:Ewus; [contradiction|]. cbn [nth_error].
    assert (Hw0 : u_co w0 = WNone) by (inversion GW; assumption).
    destruct (wu_flush_step app labels regs0 mem0 base Hreg Hlen0 Hbase Hsem d E (s_m s) D w0 GFl Hw0)
      as (m1 & D' & Ew & F1 & R1 & R2 & R3 & R4 & R5 & R6 & R7 & R8 & R9 & R10 & R11 & R12 & R13).
    rewrite Ew. cbn [res_of fst snd]. rewrite (set_nth6_same (w0 :: wt) 0 w0 eq_refl).
    unfold flush_advance. cbn [s_wus s_m s_eus s_cycle s_os skipn].
    assert (Hb1 : bb_buf (m_wbus m1) = []) by (rewrite R7; exact Gwb).
    destruct Gpar as (P1 & P2 & P3 & P4 & P5 & P6).
    destruct (bb_q (m_wbus m1)) as [|y q1] eqn:Eq1.
    - (* the write bus is empty: m.flush(pc) *)
      right. assert (Hemp : bb_isempty (m_wbus m1) = true) by (unfold bb_isempty; rewrite Eq1, Hb1; reflexivity).
      rewrite Hemp, (flush_next_none _ 0 GW). eexists. split; [reflexivity|]. split; [|reflexivity].
      destruct GEt as (HE1 & HE2 & Hdn & HEN). destruct F1 as [W1 W2 W3 W4 W5 W6].
      assert (Hfl : flat (m_wbus m1) = []) by (unfold flat; rewrite Eq1, Hb1; reflexivity).
      rewrite Hfl in W2, W6. cbn [map List.app] in W2, W6.
      assert (Hregs : m_regs m1 = sreg (S E)).
      { eapply bw_squash; [exact Hlen0 | exact W2 | lia|]. intros k. split.
        - intros Hk. split; [apply W5; exact Hk | apply (bw_lt _ _ _ _ _ _ _ W2 k Hk)].
        - intros Hk. apply W6. exact Hk. }
      destruct Gbw as [B1 B2 _ _].
      assert (Hcl : forall T (b : bbus T), bb_ql b = 2 -> bb_bl b = 2 -> bb_clean b = bb_new 2 2).
      { intros T b A B. unfold bb_clean, bb_new. rewrite A, B. reflexivity. }
      rewrite R1 in W3. rewrite R3 in W4.
      constructor; cbn [s_m s_eus s_wus s_mode do_flush6 m_regs m_mem m_pw m_pr m_l3 m_fu m_l1i m_dret m_dpbr m_cu m_bu m_dbus m_cbus m_ebus m_wbus fu_flush6 f_pc f_complete f_co];
        rewrite ?R1, ?R2, ?R3, ?R6; auto.
      + apply Hcl; rewrite R11; assumption.
      + apply Hcl; rewrite R12; assumption.
      + apply Hcl; rewrite R13; assumption.
      + apply Hcl; rewrite ?R8, ?R9; assumption.
      + apply Forall_forall. intros e He. apply in_map_iff in He as (e0 & <- & He0). rewrite Forall_forall in GE. destruct (GE e0 He0) as [A _]. split; [exact A | reflexivity].
      + rewrite map_length. exact Glen.
    - (* go on *)
      left. assert (Hemp : bb_isempty (m_wbus m1) = false) by (unfold bb_isempty; rewrite Eq1; reflexivity).
      rewrite Hemp, flush_next_some. eexists. split; [reflexivity|]. split.
      + constructor; cbn [s_m s_eus s_wus s_cycle s_mode]; rewrite ?R2, ?R6, ?R11, ?R12, ?R13; auto.
        * exists D'. exact F1.
        * rewrite ?Eq1. discriminate.
        * destruct Gbw as [B1 B2 B3 B4]. constructor; rewrite ?R7, ?R8, ?R9; auto; try (eapply Forall_impl; [|exact B4]; cbn beta; intros; lia).
          unfold qlen in *. rewrite Eq1, R10. destruct (bb_q (m_wbus (s_m s))); cbn [tl]; rewrite ?zlen_cons in *; lia.
        * repeat split; assumption.
      + cbn [s_m]. unfold qlen. rewrite Eq1, R10. destruct (bb_q (m_wbus (s_m s))); [contradiction|]. cbn [tl]. rewrite zlen_cons. lia.
  Qed.

  Lemma kout_ret_inv k : kout k = mk_euo6 false 0 0 true -> is_ret (ik k) = true.
  Proof.
    unfold Mvp60RefBack.kout. destruct (is_ret (ik k)); [reflexivity|]. destruct (etarget (eff k)); [|discriminate].
    destruct (is_jump (ik k) || negb (pcz (S k) =? z)); discriminate.
  Qed.

  Lemma map_kr_rn l : map kr (map rn l) = l.
  Proof. induction l as [|k t IH]; [reflexivity|]. cbn [map]. rewrite (kr_rn app), IH. reflexivity. Qed.

  Lemma map_kw_wbn (g : nat -> Z) l : map kw (map snd (map (fun k => (g k, wbn k)) l)) = l.
  Proof. induction l as [|k t IH]; [reflexivity|]. cbn [map snd]. rewrite (kw_wbn app labels regs0 base), IH. reflexivity. Qed.

  (* one tick of the main loop *)
  Lemma step_normal ord d c f x s : GI d c f x s ->
    (exists s' d' c' f' x', step6 app labels ord s = SCont s' /\ GI d' c' f' x' s' /\ phis s' < phis s) \/
    (exists r os, step6 app labels ord s = SDone r os /\ Fin r) \/
    (exists s' d', step6 app labels ord s = SCont s' /\ GR d' s') \/
    (exists s' d' E t, step6 app labels ord s = SCont s' /\ GF d' E t s').
  Proof.
    intros HG.
    destruct (normal_ok app labels regs0 mem0 base off Happ Hreg Hlen0 Hbase Hsem ord d c f x s HG)
      as (m4 & m5 & m6 & eus' & d' & c' & f' & lq & Efront & Ee & Ew & HF6 & Hl1 & Hbtb & HW6 & Hpar & Hdn & HdN & B6 & A1 & A2 & Hfe6 & Hxj & Hlq2 & Hq6 & Hb6 & Hpair & Hseq & Hplj & Hcyc & Hphi).
    cbv zeta in *.
    destruct HG as [GF0 GB GT GW GWne GC GM]. pose proof GT as [T1 T2 T3 T3' T4 T5 T6 T7 T8].
    set (j := Nat.min (length (s_eus s)) lq) in *.
    assert (GEne : s_eus s <> []) by (intros E; apply GWne; destruct (s_wus s); [reflexivity | rewrite E in T4; discriminate]).
    assert (Hj1 : lq <> O -> (1 <= j)%nat) by (intros Hl; unfold j; destruct (s_eus s); [contradiction | cbn [length]; lia]).
    assert (Hj2 : (j <= 2)%nat) by (unfold j; lia).
    assert (Hblen6 : blen (m_wbus m6) <= Z.of_nat j).
    { unfold blen, zlen. rewrite Hb6, map_length. pose proof (filter_len_le (notret app) (seq x j)) as Hx. rewrite seq_length in Hx. lia. }
    assert (Hjw : (j <= length (s_wus s))%nat) by (unfold j; lia).
    unfold step6. rewrite GM, Efront. cbn [res_of]. rewrite Ee. cbn [res_of]. unfold back6. rewrite Ew. cbn [res_of].
    (* no ret, no flush: the loop goes on or ends *)
    assert (Hcont : (if (lq =? 0)%nat then euo_none else kout x) = euo_none ->
      (exists s' d' c' f' x', (if is_empty6 m6 eus' (s_wus s) then SDone (finish6 m6 (s_cycle s + 1)) (s_os s || false)
                               else SCont (mk_st6 m6 eus' (s_wus s) (s_cycle s + 1) MNormal (s_os s || false))) = SCont s' /\
                              GI d' c' f' x' s' /\ phis s' < phis s) \/
      (exists r os, (if is_empty6 m6 eus' (s_wus s) then SDone (finish6 m6 (s_cycle s + 1)) (s_os s || false)
                     else SCont (mk_st6 m6 eus' (s_wus s) (s_cycle s + 1) MNormal (s_os s || false))) = SDone r os /\ Fin r)).
    { intros Hout. rewrite Hout in HF6, Hphi. specialize (HF6 eq_refl). destruct (Hphi eq_refl) as [Hle Hlt].
      assert (Hexec : forall k, (base <= k < x + j)%nat -> kout k = euo_none).
      { intros k Hk. destruct (Nat.lt_ge_cases k x) as [Hkx|Hkx]; [apply T8; lia|].
        destruct (Nat.eq_dec k x) as [->|Hne].
        - destruct lq; [unfold j in Hk; rewrite Nat.min_0_r in Hk; lia | exact Hout].
        - destruct (Hseq k ltac:(apply in_seq; lia)) as (K1 & K2 & K3).
          apply (plain_kout app labels regs0 base Hsem k ltac:(lia) K3). apply Hplj. lia. }
      destruct (is_empty6 m6 eus' (s_wus s)) eqn:Eemp.
      - right. eexists _, _. split; [reflexivity|].
        unfold is_empty6 in Eemp. repeat (apply andb_prop in Eemp as [Eemp ?]).
        rewrite (finish_ok m6 (s_cycle s + 1) (bi_l3 _ _ _ _ _ _ _ _ B6)). exists (s_cycle s + 1), d'.
        assert (Hfd : flat (m_dbus m6) = []) by (apply isempty_flat; assumption).
        assert (Hfc : flat (m_cbus m6) = []) by (apply isempty_flat; assumption).
        assert (Hfe : flat (m_ebus m6) = []) by (apply isempty_flat; assumption).
        assert (Hfw : flat (m_wbus m6) = []) by (apply isempty_flat; assumption).
        assert (Hcu : m_cu m6 = []) by (apply zlen_zero; apply Z.eqb_eq; assumption).
        assert (HFL : FL m6 eus' = []) by (unfold FL; rewrite Hfe, Hfw, (eul_none _ A1); reflexivity).
        pose proof (bi_sem _ _ _ _ _ _ _ _ B6) as HS. rewrite HFL in HS. apply bs_empty in HS.
        pose proof (fr_dbus _ _ _ _ _ _ _ HF6) as Hdb. rewrite Hfd in Hdb. symmetry in Hdb. apply map_eq_nil in Hdb.
        apply (f_equal (@length nat)) in Hdb. rewrite seq_length in Hdb. cbn [length] in Hdb.
        pose proof (fr_cl _ _ _ _ _ _ _ HF6) as Hcl. rewrite Hcu, Hfc in Hcl. cbn [List.app] in Hcl. symmetry in Hcl. apply map_eq_nil in Hcl.
        apply (f_equal (@length nat)) in Hcl. rewrite seq_length in Hcl. cbn [length] in Hcl.
        destruct (fi_c _ _ _ _ (fr_fetch _ _ _ _ _ _ _ HF6) Eemp) as (_ & HfM & _).
        pose proof (fr_cf _ _ _ _ _ _ _ HF6). pose proof (fr_dc _ _ _ _ _ _ _ HF6). pose proof (fr_bd _ _ _ _ _ _ _ HF6).
        assert (Hd'n : d' = n) by (fold n in Hcl; lia).
        assert (Hxe : (x + j)%nat = d').
        { rewrite Hfe in Hfe6. symmetry in Hfe6. apply map_eq_nil in Hfe6. apply (f_equal (@length nat)) in Hfe6.
          rewrite seq_length in Hfe6. cbn [length] in Hfe6. lia. }
        rewrite HS, (bi_mem _ _ _ _ _ _ _ _ B6). split; [reflexivity|]. split; [lia|].
        split; [intros k Hk; apply Hexec; lia|]. left. split; [exact Hd'n | lia].
      - left. eexists _, d', c', f', (x + j)%nat. split; [reflexivity|]. split.
        + constructor; cbn [s_m s_eus s_wus s_cycle s_mode]; auto.
          constructor; auto; try lia.
          rewrite A2. exact Hpair.
        + destruct Hlt as [Hlt|[_ Hx]]; [exact Hlt | congruence]. }
    destruct (Nat.eq_dec lq 0) as [Hlq0|Hlq0].
    { subst lq. cbn [Nat.eqb o_ret o_flush euo_none] in *. destruct (Hcont eq_refl) as [H|H]; [left; exact H | right; left; exact H]. }
    assert (Elq : (lq =? 0)%nat = false) by (apply Nat.eqb_neq; exact Hlq0). rewrite Elq in *.
    specialize (Hj1 Hlq0).
    destruct (Hseq x ltac:(apply in_seq; lia)) as (X1 & X2 & X3).
    destruct (kout_cases app labels regs0 base x) as [Ko|[Ko|(a & Ko & Ea & Hnr)]]; rewrite Ko in *; cbn [o_ret o_flush].
    - destruct (Hcont eq_refl) as [H|H]; [left; exact H | right; left; exact H].
    - (* the ret has been executed: drain loop *)
      pose proof (kout_ret_inv x Ko) as Hret.
      assert (HxN : x = N).
      { destruct (Nat.eq_dec x N) as [|Hne]; [assumption|]. exfalso.
        pose proof (stop_from_before app dfl base x ltac:(fold N; lia)) as Hs. unfold is_stop in Hs.
        unfold ik in Hret. rewrite Hret in Hs. discriminate. }
      assert (Hd' : d' = S N) by (fold N in HdN; lia).
      assert (Hebus : flat (m_ebus m6) = []).
      { rewrite Hfe6. replace (d' - (x + j))%nat with O by lia. reflexivity. }
      assert (HNf : (N < n)%nat /\ d' = S N /\ is_ret (ik N) = true).
      { rewrite <- HxN. split; [exact X3|]. split; [lia | exact Hret]. }
      destruct (ret_tail d' (s_cycle s + 1) m6 eus' (s_wus s) (s_os s || false) B6 A1 GW GWne
                  HNf Hebus ltac:(left; split; [exact Hq6 | lia]) HW6
                  ltac:(intros k Hk; apply T8; lia) Hcyc) as [(E & G2 & _)|(r & E & HFin)].
      + right. right. left. eexists _, d'. split; [exact E | exact G2].
      + right. left. exists r, (s_os s || false). split; [exact E | exact HFin].
    - (* a flush is requested by x *)
      destruct (Hsem x ltac:(lia) X3) as [_ Htgt]. destruct (Htgt a Ea) as (t & -> & Ht).
      destruct (connect_allq (s_cycle s + 1) (m_wbus m6) HW6 Hq6 ltac:(lia)) as (Q1 & Q2 & Q3 & Q4).
      destruct (connect_spec (s_cycle s + 1) (m_wbus m6) HW6) as (W1 & W2 & _).
      set (m7 := set_wbus m6 (bb_connect (m_wbus m6) (s_cycle s + 1 + 1))).
      assert (Hinx : In x (filter (notret app) (seq x j))).
      { apply filter_In. split; [apply in_seq; lia|]. unfold notret. fold (ik x). rewrite Hnr. reflexivity. }
      assert (Hq7 : bb_q (m_wbus m7) <> []).
      { unfold m7. cbn [set_wbus m_wbus]. rewrite Q1, Hb6. intros Hx. apply map_eq_nil, map_eq_nil in Hx. rewrite Hx in Hinx. destruct Hinx. }
      assert (Hemp : bb_isempty (m_wbus m7) = false).
      { unfold bb_isempty. destruct (bb_q (m_wbus m7)); [contradiction | reflexivity]. }
      unfold flush_advance. cbn [s_wus s_m s_eus s_cycle s_os skipn]. fold m7. rewrite Hemp.
      destruct (s_wus s) as [|w0 wt] eqn:Ewus; [contradiction|]. rewrite flush_next_some.
      right. right. right. eexists _, d', x, t. split; [reflexivity|].
      assert (Hkw7 : map kw (flat (m_wbus m7)) = filter (notret app) (seq x j)).
      { unfold m7. cbn [set_wbus m_wbus]. unfold flat. rewrite Q1, Q2, Hb6. cbn [map]. rewrite app_nil_r. apply map_kw_wbn. }
      assert (HD0 : map kr (flat (m_ebus m7)) = seq (x + j) (d' - (x + j))).
      { change (m_ebus m7) with (m_ebus m6). rewrite Hfe6. apply map_kr_rn. }
      constructor; cbn [s_m s_eus s_wus s_cycle s_mode]; auto.
      + exists (map kr (flat (m_ebus m7))). constructor.
        * unfold m7. cbn [set_wbus m_wbus]. rewrite W1. exact (bi_w _ _ _ _ _ _ _ _ B6).
        * eapply bw_perm; [|apply (bs_weak _ _ _ _ _ _ _ _ _ (bi_sem _ _ _ _ _ _ _ _ B6))].
          unfold FL. rewrite (eul_none _ A1). cbn [map List.app]. change (m_ebus m7) with (m_ebus m6).
          unfold m7 at 1. cbn [set_wbus m_wbus]. rewrite W1. apply Permutation_app_comm.
        * exact (bi_mem _ _ _ _ _ _ _ _ B6).
        * exact (bi_l3 _ _ _ _ _ _ _ _ B6).
        * intros k Hk. rewrite HD0 in Hk. apply in_seq in Hk. lia.
        * intros k Hk. rewrite Hkw7, HD0. apply in_or_app. destruct (Nat.lt_ge_cases k (x + j)) as [Hlt|Hge].
          -- left. apply filter_In. split; [apply in_seq; lia|]. destruct (Hplj k ltac:(lia)) as [Hr _]. unfold notret. rewrite Hr. reflexivity.
          -- right. apply in_seq. lia.
      + rewrite A2. exact T4.
      + eapply Forall_impl; [|exact Hbtb]. cbn beta. intros en Hen. unfold pcz in *. lia.
  Qed.
End Step2.
