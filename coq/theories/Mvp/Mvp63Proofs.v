(* Facts about the cycle-level model of MVP-6.3 (Mvp63.v).

   1. Witnesses, closed by vm_compute on the model (every one of them is also a case of
      bin/one_m63.py, where the Go code gives the same line):
        war_unsound        "renaming" lets a younger writer overtake an older reader (WAR): wrong value
        waw_unsound        ... and an older slow writer overwrite a younger one (WAW)
        flush_error        an instruction that fails inside the flush loop ends Run with its error (since
                           /repo 1ed8ef8; before, Run returned (0, nil) there)
        forward_order      the forwarding source depends on the iteration order of a Go map; the ghost
                           flag is raised
        store_miss_hang    a store whose line is not in L3, followed by nothing that brings it in, never
                           leaves the pipeline (out of fuel whatever the fuel)  [bounded: 20000 ticks]
   2. mvp63_cycles_pos: a run that returns reports at least one cycle.
   4. mvp63_ord_irrelevant: soundness of the ghost flag - a run that ends with the flag clear returns the
      same result for all iteration orders of the stores' MemoryChanges maps and of
      controlUnit.pushedRunnersInPreviousCycle (order functions that agree on the RAT value maps, whose
      order is not observable: every key is written once and committedRAT is read at its newest slot only).
   3. cu_dispatch_bound3 / mvp63_dispatch_width: the control unit never fills the execute bus beyond its
      buffer length (2): at most two instructions are dispatched per cycle whatever the number of units. *)
From Coq Require Import ZArith List Bool Lia.
From Maj Require Import Base.Outcome Base.GoInt Base.GoTypes Isa.Spec Isa.Seq.
From Maj Require Import Gen.Latency Gen.RiscTables Gen.Opcodes Comp.Cache Comp.Rat Mvp.Mvp12 Mvp.Mvp3 Mvp.Mvp5 Mvp.Mvp60 Mvp.Mvp63.
From Maj Require Import Mvp.Mvp60Proofs.
Import ListNotations.
Open Scope Z_scope.

(* ------------------------------------------------------------------ *)
(* 1. witnesses                                                         *)
(* ------------------------------------------------------------------ *)

Definition st_of (rs : list (Z * Z)) (ms : list (Z * Z)) : arch :=
  mk_arch (fold_left (fun r p => Seq.upd r (Z.to_nat (fst p)) (snd p)) rs (repeat 0 32))
          (fold_left (fun m p => Seq.upd m (Z.to_nat (fst p)) (snd p)) ms (repeat 0 256)).
Definition no_labels : Z -> option Z := fun _ => None.
Definition one_label (a : Z) : Z -> option Z := fun l => if l =? 1 then Some a else None.
Definition ord_asc : Z -> Z -> list Z -> list Z := fun _ _ l => l.
Definition ord_desc : Z -> Z -> list Z -> list Z := fun _ _ l => rev l.
Definition reg_of (r : mres) (k : nat) : option Z :=
  match r with MDone _ s => Some (nth k (regs s) 0) | _ => None end.

(* lw t1, 0(zero) ; add t2, t1, t0 ; li t0, 77 ; ret     t0 = 1, mem[0] = 5: t2 must be 6 *)
Definition war_prog : list instr :=
  [I_lw (mk_lw 6 0 0); I_add (mk_add 7 6 5); I_li (mk_li 5 77); I_ret mk_ret].
Example war_unsound :
  reg_of (mvp12_run V1 1000 war_prog no_labels (st_of [(5, 1)] [(0, 5)])) 7 = Some 6 /\
  reg_of (mvp63_run 1 ord_asc 2000 war_prog no_labels (st_of [(5, 1)] [(0, 5)])) 7 = Some 6 /\
  reg_of (mvp63_run 3 ord_asc 2000 war_prog no_labels (st_of [(5, 1)] [(0, 5)])) 7 = Some 82.
Proof. vm_compute. repeat split. Qed.

(* lw t1, 0(zero) ; li t1, 3 ; addi t2, t1, 0 ; ret     mem[0] = 5: t1 must end as 3 *)
Definition waw_prog : list instr :=
  [I_lw (mk_lw 6 0 0); I_li (mk_li 6 3); I_addi (mk_addi 0 7 6); I_ret mk_ret].
Example waw_unsound :
  reg_of (mvp12_run V1 1000 waw_prog no_labels (st_of [] [(0, 5)])) 6 = Some 3 /\
  reg_of (mvp63_run 1 ord_asc 2000 waw_prog no_labels (st_of [] [(0, 5)])) 6 = Some 3 /\
  reg_of (mvp63_run 2 ord_asc 2000 waw_prog no_labels (st_of [] [(0, 5)])) 6 = Some 5.
Proof. vm_compute. repeat split. Qed.

(* lw t1, 0(zero) ; div t2, t3, t1 ; beq zero, zero, L1 ; li t0, 7 ; L1: li a0, 9 ; ret     t3 = 5, mem = 0:
   with three units the div is still waiting for the loaded value when the branch asks for a flush and fails
   inside the flush loop; the error is returned as in the main loop *)
Definition flusherr_prog : list instr :=
  [I_lw (mk_lw 6 0 0); I_div (mk_div 7 28 6); I_beq (mk_beq 0 0 1); I_li (mk_li 5 7); I_li (mk_li 10 9); I_ret mk_ret].
Example flush_error :
  mvp12_run V1 1000 flusherr_prog (one_label 16) (st_of [(28, 5)] []) = MErr EDivZero /\
  mvp63_run 2 ord_asc 2000 flusherr_prog (one_label 16) (st_of [(28, 5)] []) = MErr EDivZero /\
  mvp63_run 3 ord_asc 2000 flusherr_prog (one_label 16) (st_of [(28, 5)] []) = MErr EDivZero.
Proof. vm_compute. repeat split. Qed.

(* nop ; li a5, 2 ; li a5, 92 ; addi t0, a5, 1 ; ret: both li are dispatched in one cycle (the second one
   "renamed" through the WAW hazard), the addi in the next one takes its operand from whichever of the two
   comes first in the Go map pushedRunnersInPreviousCycle *)
Definition fwd_prog : list instr :=
  [I_nop mk_nop; I_li (mk_li 15 2); I_li (mk_li 15 92); I_addi (mk_addi 1 5 15); I_ret mk_ret].
Example forward_order :
  (let r := mvp63_run_os 2 ord_asc 2000 fwd_prog no_labels (st_of [] []) in (reg_of (fst r) 5, snd r)) = (Some 3, true) /\
  (let r := mvp63_run_os 2 ord_desc 2000 fwd_prog no_labels (st_of [] []) in (reg_of (fst r) 5, snd r)) = (Some 93, true).
Proof. vm_compute. split; reflexivity. Qed.

(* li t0, 11 ; sw t0, 8(zero) ; lw t1, 8(zero) ; ret: the store misses L3, its line is marked pending, the load
   of the same line waits for the pending line for ever (nobody fetches it) *)
Definition stld_prog : list instr :=
  [I_li (mk_li 5 11); I_sw (mk_sw 5 8 0); I_lw (mk_lw 6 8 0); I_ret mk_ret].
Example store_miss_hang :
  mvp63_run 1 ord_asc 20000 stld_prog no_labels (st_of [] []) = MOutOfFuel.
Proof. vm_compute. reflexivity. Qed.

(* ------------------------------------------------------------------ *)
(* 2. cycles                                                            *)
(* ------------------------------------------------------------------ *)

Lemma finish3_ge : forall ord x cycle c st, finish3 ord x cycle = MDone c st -> cycle <= c.
Proof.
  intros ord x cycle c st H. unfold finish3 in H.
  destruct (flush_lines (lines (m_l3 (x_m x))) (m_mem (x_m x)) 0) as [[mem' c']| |] eqn:E; try discriminate.
  inversion H; subst. apply flush_lines_ge in E. lia.
Qed.

Lemma ret_check3_done : forall ord s c st os, ret_check3 ord s = TDone (MDone c st) os -> t_cycle s <= c.
Proof.
  intros ord s c st os H. unfold ret_check3 in H.
  destruct (_ && _) in H; try discriminate. inversion H as [[HF HO]]. now apply finish3_ge in HF.
Qed.

Lemma ret_check3_cont : forall ord s s', ret_check3 ord s = TCont s' -> t_cycle s' = t_cycle s.
Proof.
  intros ord s s' H. unfold ret_check3 in H.
  destruct (_ && _) in H; try discriminate. inversion H; reflexivity.
Qed.

Lemma flush_advance3_res : forall s k seq pc from empty,
  exists s', flush_advance3 s k seq pc from empty = TCont s' /\ t_cycle s <= t_cycle s'.
Proof.
  intros. unfold flush_advance3.
  destruct (flush_next _ _ _); [| destruct empty]; eexists; split; try reflexivity; simpl; unfold Flush; lia.
Qed.

Lemma res_of3_inv : forall A os (o : outcome A) k r,
  res_of3 os o k = r ->
  (exists x, o = Ok x /\ k x = r) \/ (exists e, o = Err e /\ r = TDone (MErr e) os) \/ (o = Panic /\ r = TDone MPanic os).
Proof. intros A os o k r H. destruct o; simpl in H; eauto. Qed.

Ltac res_step3 H x :=
  apply res_of3_inv in H;
  destruct H as [[x [? H]] | [[? [? H]] | [? H]]]; [ | discriminate H | discriminate H ].

(* how a step can end *)
Lemma back3_done : forall ord s cycle z c st os,
  back3 ord s cycle z = TDone (MDone c st) os -> cycle <= c.
Proof.
  intros ord s cycle [[x eus1] o] c st os H. unfold back3 in H.
  destruct (y_err o); try discriminate.
  res_step3 H r. destruct r as [x2 wus1].
  destruct (y_ret o).
  - apply ret_check3_done in H. simpl in H. lia.
  - destruct (y_flush o); try discriminate.
    destruct (is_empty3 x2 eus1 wus1); try discriminate.
    inversion H as [[HF HO]]. now apply finish3_ge in HF.
Qed.

Lemma back3_cont : forall ord s cycle z s',
  back3 ord s cycle z = TCont s' -> cycle <= t_cycle s'.
Proof.
  intros ord s cycle [[x eus1] o] s' H. unfold back3 in H.
  destruct (y_err o); try discriminate.
  res_step3 H r. destruct r as [x2 wus1].
  destruct (y_ret o).
  - apply ret_check3_cont in H. simpl in H. lia.
  - destruct (y_flush o).
    + inversion H; simpl; lia.
    + destruct (is_empty3 x2 eus1 wus1); try discriminate. inversion H; simpl; lia.
Qed.

Lemma step3_done : forall app labels ord s c st os,
  step3 app labels ord s = TDone (MDone c st) os -> t_cycle s + 1 <= c.
Proof.
  intros app labels ord s c st os H. unfold step3 in H.
  destruct (t_mode s) as [| | seq pc from | k seq pc from empty].
  - res_step3 H x1.
    destruct (eus_main3 labels ord (t_cycle s + 1) x1 (t_eus s) yo_none) as [os1 re].
    res_step3 H z. destruct z as [[x2 eus1] o].
    apply back3_done in H. lia.
  - destruct (eus_drain3 labels ord (t_cycle s) (t_x s) (t_eus s)) as [os1 re].
    res_step3 H z. destruct z as [[x1 eus1] er].
    destruct er; try discriminate.
    res_step3 H r. destruct r as [x2 wus1].
    apply ret_check3_done in H. simpl in H. lia.
  - destruct (eus_flush3 labels ord from (t_x s) (t_eus s) (mk_fla true seq pc None)) as [os1 re].
    res_step3 H z. destruct z as [[x1 eus1] acc].
    destruct (a_err acc).
    + discriminate.
    + match type of H with flush_advance3 ?a ?b ?c ?d ?e ?f = _ =>
        destruct (flush_advance3_res a b c d e f) as [s' [E _]]; rewrite E in H; discriminate end.
  - destruct (nth_error (t_wus s) k); try discriminate.
    res_step3 H r.
    match type of H with flush_advance3 ?a ?b ?c ?d ?e ?f = _ =>
      destruct (flush_advance3_res a b c d e f) as [s' [E _]]; rewrite E in H; discriminate end.
Qed.

Lemma step3_cont : forall app labels ord s s',
  step3 app labels ord s = TCont s' -> t_cycle s <= t_cycle s'.
Proof.
  intros app labels ord s s' H. unfold step3 in H.
  destruct (t_mode s) as [| | seq pc from | k seq pc from empty].
  - res_step3 H x1.
    destruct (eus_main3 labels ord (t_cycle s + 1) x1 (t_eus s) yo_none) as [os1 re].
    res_step3 H z. destruct z as [[x2 eus1] o].
    apply back3_cont in H. lia.
  - destruct (eus_drain3 labels ord (t_cycle s) (t_x s) (t_eus s)) as [os1 re].
    res_step3 H z. destruct z as [[x1 eus1] er].
    destruct er; try discriminate.
    res_step3 H r. destruct r as [x2 wus1].
    apply ret_check3_cont in H. simpl in H. lia.
  - destruct (eus_flush3 labels ord from (t_x s) (t_eus s) (mk_fla true seq pc None)) as [os1 re].
    res_step3 H z. destruct z as [[x1 eus1] acc].
    destruct (a_err acc); try discriminate.
    match type of H with flush_advance3 ?a ?b ?c ?d ?e ?f = _ =>
      destruct (flush_advance3_res a b c d e f) as [s2 [E L]]; rewrite E in H; inversion H; subst; simpl in L; lia end.
  - destruct (nth_error (t_wus s) k); try discriminate.
    res_step3 H r.
    match type of H with flush_advance3 ?a ?b ?c ?d ?e ?f = _ =>
      destruct (flush_advance3_res a b c d e f) as [s2 [E L]]; rewrite E in H; inversion H; subst; simpl in L; lia end.
Qed.

Lemma run3_st_cycles : forall fuel app labels ord s c st os,
  0 <= t_cycle s ->
  run3_st fuel app labels ord s = inl (MDone c st, os) -> 1 <= c.
Proof.
  induction fuel as [|f IH]; intros app labels ord s c st os Hs H; simpl in H; try discriminate.
  destruct (step3 app labels ord s) as [r os'|s'] eqn:E.
  - inversion H; subst. apply step3_done in E. lia.
  - apply step3_cont in E. eapply IH; [|exact H]. lia.
Qed.

(* a run that returns reports at least one cycle *)
Theorem mvp63_cycles_pos : forall par ord fuel app labels st c st',
  mvp63_run par ord fuel app labels st = MDone c st' -> 1 <= c.
Proof.
  intros par ord fuel app labels st c st' H. unfold mvp63_run, mvp63_run_os in H.
  destruct (init3 par ord app st) as [s| |] eqn:EI; try discriminate.
  destruct (run3_st fuel app labels ord s) as [[r os]|s'] eqn:ER; simpl in H; try discriminate.
  subst r. eapply run3_st_cycles; [|exact ER].
  unfold init3 in EI.
  destruct (new_cache l1LineSize l1Size); try discriminate.
  destruct (new_cache l3LineSize l3Size); try discriminate.
  inversion EI; simpl; lia.
Qed.

(* ------------------------------------------------------------------ *)
(* 3. dispatch width                                                    *)
(* ------------------------------------------------------------------ *)

(* the execute bus holds at most bb_bl runners in its buffer *)
Definition ebus_ok (x : mx) : Prop := zlen (bb_buf (x_ebus x)) <= bb_bl (x_ebus x).

Lemma zlen_app1 : forall A (l : list A) a, zlen (l ++ [a]) = zlen l + 1.
Proof. intros. unfold zlen. rewrite app_length. simpl. lia. Qed.

Lemma zlen_map : forall A B (f : A -> B) l, zlen (map f l) = zlen l.
Proof. intros. unfold zlen. now rewrite map_length. Qed.

Lemma push_runner3_ok : forall x cycle r x' r',
  ebus_ok x -> push_runner3 x cycle r = Some (x', r') ->
  ebus_ok x' /\ bb_bl (x_ebus x') = bb_bl (x_ebus x).
Proof.
  intros x cycle r x' r' Hx H. unfold push_runner3 in H.
  destruct (bb_canadd (x_ebus x)) eqn:EC; simpl in H; try discriminate.
  inversion H; subst; clear H. unfold ebus_ok in *. simpl.
  unfold bb_canadd in EC. rewrite zlen_app1.
  destruct (zlen (bb_buf (x_ebus x)) =? bb_bl (x_ebus x)) eqn:E; simpl in EC; try discriminate.
  apply Z.eqb_neq in E. split; [lia | reflexivity].
Qed.

Lemma push_or_stop3_ok : forall x cycle r stop p s r' x',
  ebus_ok x -> push_or_stop3 x cycle r stop = (p, s, r', x') ->
  ebus_ok x' /\ bb_bl (x_ebus x') = bb_bl (x_ebus x).
Proof.
  intros x cycle r stop p s r' x' Hx H. unfold push_or_stop3 in H.
  destruct (push_runner3 x cycle r) as [[x1 r1]|] eqn:E.
  - inversion H; subst. eapply push_runner3_ok; eauto.
  - inversion H; subst. auto.
Qed.

Lemma ebus_mark_ok : forall x id ch n b,
  ebus_ok x -> ebus_ok (set_os3 (set_next3 (set_ebus3 x (ebus_mark (x_ebus x) id ch)) n) b) /\
               bb_bl (x_ebus (set_os3 (set_next3 (set_ebus3 x (ebus_mark (x_ebus x) id ch)) n) b)) = bb_bl (x_ebus x).
Proof.
  intros x id ch n b H. unfold ebus_ok in *. simpl. rewrite zlen_map. auto.
Qed.

Lemma handle_runner3_ok : forall ord cycle x sk pb r p s r' x',
  ebus_ok x -> handle_runner3 ord cycle x sk pb r = (p, s, r', x') ->
  ebus_ok x' /\ bb_bl (x_ebus x') = bb_bl (x_ebus x).
Proof.
  intros ord cycle x sk pb r p s r' x' Hx H. unfold handle_runner3 in H.
  destruct (_ && pb); [inversion H; subst; auto|].
  destruct (_ && _); [inversion H; subst; auto|].
  destruct (skipped_hazard3 sk (q_instr r)); [inversion H; subst; auto|].
  destruct (zlen (hazards_of x (q_instr r)) =? 0).
  - eapply push_or_stop3_ok; eauto.
  - destruct (should_forward3 ord cycle x r (hazards_of x (q_instr r))) as [[pr reg]|].
    + match type of H with push_or_stop3 ?x1 _ _ _ = _ =>
        assert (H1 : ebus_ok x1 /\ bb_bl (x_ebus x1) = bb_bl (x_ebus x)) by (apply ebus_mark_ok; auto) end.
      destruct H1 as [H1 H2]. eapply push_or_stop3_ok in H; [|exact H1]. destruct H as [H3 H4]. split; [auto | congruence].
    + destruct (should_rename3 _).
      * eapply push_or_stop3_ok; eauto.
      * inversion H; subst; auto.
Qed.

Lemma after_push3_ebus : forall x l r, x_ebus (fst (after_push3 x l r)) = x_ebus x.
Proof. intros. unfold after_push3. simpl. destruct (InstructionType_IsConditionalBranch _); reflexivity. Qed.

Lemma cu_pending3_ok : forall ord cycle ps kept l x st pend l' x',
  ebus_ok x -> cu_pending3 ord cycle ps kept l x = (st, pend, l', x') ->
  ebus_ok x' /\ bb_bl (x_ebus x') = bb_bl (x_ebus x).
Proof.
  induction ps as [|r t IH]; intros kept l x st pend l' x' Hx H; simpl in H.
  - inversion H; subst; auto.
  - destruct (handle_runner3 ord cycle x (l_skipped l) (l_pbranch l) r) as [[[p s] r1] x1] eqn:EH.
    apply handle_runner3_ok in EH; auto. destruct EH as [H1 H2].
    destruct p.
    + destruct (after_push3 x1 l r1) as [x2 l2] eqn:EA.
      assert (HE : x_ebus x2 = x_ebus x1) by (pose proof (after_push3_ebus x1 l r1) as Q; rewrite EA in Q; exact Q).
      assert (H3 : ebus_ok x2) by (unfold ebus_ok in *; rewrite HE; auto).
      destruct s.
      * inversion H; subst. split; [auto | congruence].
      * apply IH in H; auto. destruct H as [H4 H5]. split; [auto | congruence].
    + destruct s.
      * inversion H; subst. auto.
      * apply IH in H; auto. destruct H as [H4 H5]. split; [auto | congruence].
Qed.

Lemma cu_incoming3_ok : forall ord cycle q pend l x q' pend' l' x',
  ebus_ok x -> cu_incoming3 ord cycle q pend l x = (q', pend', l', x') ->
  ebus_ok x' /\ bb_bl (x_ebus x') = bb_bl (x_ebus x).
Proof.
  induction q as [|r0 t IH]; intros pend l x q' pend' l' x' Hx H; simpl in H.
  - destruct (pendingLength <=? zlen pend); inversion H; subst; auto.
  - destruct (pendingLength <=? zlen pend); [inversion H; subst; auto|].
    destruct (handle_runner3 ord cycle x (l_skipped l) (l_pbranch l) (r3_of r0)) as [[[p s] r1] x1] eqn:EH.
    apply handle_runner3_ok in EH; auto. destruct EH as [H1 H2].
    destruct p.
    + destruct (after_push3 x1 l r1) as [x2 l2] eqn:EA.
      assert (HE : x_ebus x2 = x_ebus x1) by (pose proof (after_push3_ebus x1 l r1) as Q; rewrite EA in Q; exact Q).
      assert (H3 : ebus_ok x2) by (unfold ebus_ok in *; rewrite HE; auto).
      destruct s.
      * inversion H; subst. split; [auto | congruence].
      * apply IH in H; auto. destruct H as [H4 H5]. split; [auto | congruence].
    + destruct s.
      * inversion H; subst. auto.
      * apply IH in H; auto. destruct H as [H4 H5]. split; [auto | congruence].
Qed.

(* controlUnit.cycle keeps the buffer of the execute bus within its length *)
Theorem cu_dispatch_bound3 : forall ord cycle x,
  ebus_ok x -> ebus_ok (cu_cycle3 ord cycle x) /\ bb_bl (x_ebus (cu_cycle3 ord cycle x)) = bb_bl (x_ebus x).
Proof.
  intros ord cycle x Hx. unfold cu_cycle3.
  destruct (bb_canadd (x_ebus x)); simpl; [|auto].
  destruct (cu_pending3 ord cycle (x_pend x) [] (mk_cul [] [] false) x) as [[[st pend1] l1] x1] eqn:E1.
  apply cu_pending3_ok in E1; auto. destruct E1 as [H1 H2].
  destruct st; simpl; [auto|].
  destruct (cu_incoming3 ord cycle (bb_q (m_cbus (x_m x1))) pend1 l1 x1) as [[[q' pend2] l2] x2] eqn:E2.
  apply cu_incoming3_ok in E2; auto. destruct E2 as [H3 H4]. simpl.
  split; [exact H3 | congruence].
Qed.

(* the number of runners the control unit adds in one cycle is at most the free room of the buffer;
   NewCPU builds the execute bus with busSize = 2, so at most two per cycle *)
Corollary mvp63_dispatch_width : forall ord cycle x,
  bb_bl (x_ebus x) = 2 -> ebus_ok x ->
  zlen (bb_buf (x_ebus (cu_cycle3 ord cycle x))) <= 2.
Proof.
  intros ord cycle x HB Hx. destruct (cu_dispatch_bound3 ord cycle x Hx) as [H1 H2].
  unfold ebus_ok in H1. rewrite H2, HB in H1. exact H1.
Qed.

(* ------------------------------------------------------------------ *)
(* 4. the ghost flag is sound: a run that ends with the flag clear is   *)
(*    the same for every iteration order of the stores' maps and of the *)
(*    control unit's map of the runners pushed in the previous cycle    *)
(* ------------------------------------------------------------------ *)


(* destruct every match / if of hypothesis H, then close by inversion *)
Ltac split_hyp H :=
  repeat match type of H with
         | context [match ?e with _ => _ end] => destruct e eqn:?
         | context [if ?e then _ else _] => destruct e eqn:?
         end.

Lemma du_loop3_os : forall q app cycle ret pbr cbus x ret' pbr' q' cbus' x',
  du_loop3 q app cycle ret pbr cbus x = Ok (ret', pbr', q', cbus', x') -> x_os x' = x_os x.
Proof.
  induction q as [|pc q IH]; intros app cycle ret pbr cbus x ret' pbr' q' cbus' x' H; simpl in H.
  - inversion H; reflexivity.
  - destruct (nlen6 app <=? Z.quot pc 4); [inversion H; reflexivity|].
    destruct (Z.quot pc 4 <? 0); [discriminate|].
    destruct (nth_error app (Z.to_nat (Z.quot pc 4))) as [i|]; [|discriminate].
    destruct (InstructionType_IsUnconditionalBranch (instr_InstructionType i)); [inversion H; reflexivity|].
    destruct (instr_InstructionType i =? Ret); [inversion H; reflexivity|].
    apply IH in H. exact H.
Qed.

Lemma du_cycle3_os : forall app cycle x x', du_cycle3 app cycle x = Ok x' -> x_os x' = x_os x.
Proof.
  intros app cycle x x' H. unfold du_cycle3 in H.
  destruct (m_dret (x_m x)); [inversion H; reflexivity|].
  destruct (m_dpbr (x_m x)); [inversion H; reflexivity|].
  destruct (du_loop3 _ _ _ _ _ _ _) as [[[[[ret pbr] q'] cbus'] x1]| |] eqn:E; simpl in H; try discriminate.
  inversion H; subst. simpl. eapply du_loop3_os; eauto.
Qed.

Lemma bu_assert3_os : forall x r, x_os (bu_assert3 x r) = x_os x.
Proof.
  intros. unfold bu_assert3.
  destruct (InstructionType_IsUnconditionalBranch _).
  - destruct (btb_get _ _); reflexivity.
  - destruct (InstructionType_IsConditionalBranch _); reflexivity.
Qed.

Lemma eu_run3_os : forall labels ord cycle x e b x' e' o,
  eu_run3 labels ord cycle x e = (b, Ok (x', e', o)) -> x_os x' = x_os x.
Proof.
  intros labels ord cycle x e b x' e' o H. unfold eu_run3, quiet3, bind in H.
  split_hyp H; simpl in *; try discriminate; inversion H; subst; simpl; auto.
Qed.

Lemma eu_prepare3_os : forall labels ord cycle x e b x' e' o,
  eu_prepare3 labels ord cycle x e = (b, Ok (x', e', o)) -> x_os x' = x_os x.
Proof.
  intros labels ord cycle x e b x' e' o H. unfold eu_prepare3, quiet3 in H.
  destruct (negb (bb_canadd (m_wbus (x_m x)))); [inversion H; reflexivity|].
  destruct (g_runner e) as [r|]; [|discriminate].
  match type of H with context [match ?rcv with Some _ => _ | None => _ end] =>
    destruct rcv as [[x0 r1]|] eqn:ER end; [|inversion H; reflexivity].
  assert (HX : x_os x0 = x_os x).
  { destruct (q_recv r); [|inversion ER; reflexivity].
    destruct (aget z (x_chan x)); [|discriminate]. inversion ER; reflexivity. }
  destruct (instr_MemoryRead _ _ _) eqn:EA.
  - apply eu_run3_os in H. rewrite H, bu_assert3_os. exact HX.
  - unfold bind in H.
    split_hyp H; simpl in *; try discriminate; inversion H; subst; simpl; rewrite bu_assert3_os; exact HX.
Qed.

Lemma eu_cycle3_os : forall labels ord cycle x e b x' e' o,
  eu_cycle3 labels ord cycle x e = (b, Ok (x', e', o)) -> x_os x' = x_os x.
Proof.
  intros labels ord cycle x e b x' e' o H. unfold eu_cycle3, quiet3 in H.
  destruct (eu_pre3 e); [inversion H; reflexivity|].
  destruct (g_co e).
  - destruct (bb_get (x_ebus x)) as [ebus' [r|]]; [|inversion H; reflexivity].
    apply eu_prepare3_os in H. exact H.
  - apply eu_prepare3_os in H. exact H.
  - destruct (0 <? rem); [inversion H; reflexivity|]. apply eu_run3_os in H. exact H.
  - destruct (0 <? rem); [inversion H; reflexivity|].
    destruct (eu_fill6 _ _ _) as [[m1 e1]| |]; try discriminate.
    apply eu_run3_os in H. exact H.
Qed.

Lemma eus_main3_os : forall labels ord cycle eus x acc b x' eus' o,
  eus_main3 labels ord cycle x eus acc = (b, Ok (x', eus', o)) -> x_os x' = x_os x.
Proof.
  induction eus as [|e t IH]; intros x acc b x' eus' o H; simpl in H.
  - inversion H; reflexivity.
  - destruct (eu_cycle3 _ _ _ _ _) as [os1 r1] eqn:E1.
    destruct r1 as [[[x1 e1] o1]| |]; try discriminate.
    apply eu_cycle3_os in E1.
    destruct (y_err o1); [inversion H; subst; exact E1|].
    destruct (eus_main3 labels ord cycle x1 t _) as [os2 r] eqn:E2.
    destruct r as [[[x2 t'] acc2]| |]; simpl in H; try discriminate.
    inversion H; subst. apply IH in E2. congruence.
Qed.

Lemma eus_drain3_os : forall labels ord cycle eus x b x' eus' o,
  eus_drain3 labels ord cycle x eus = (b, Ok (x', eus', o)) -> x_os x' = x_os x.
Proof.
  induction eus as [|e t IH]; intros x b x' eus' o H; simpl in H.
  - inversion H; reflexivity.
  - destruct (eu_empty3 e).
    + destruct (eus_drain3 labels ord cycle x t) as [os2 r] eqn:E2.
      destruct r as [[[x2 t'] er]| |]; simpl in H; try discriminate.
      inversion H; subst. eapply IH; eauto.
    + destruct (eu_cycle3 _ _ _ _ _) as [os1 r1] eqn:E1.
      destruct r1 as [[[x1 e1] o1]| |]; try discriminate.
      apply eu_cycle3_os in E1.
      destruct (y_err o1); [inversion H; subst; exact E1|].
      destruct (eus_drain3 labels ord cycle x1 t) as [os2 r] eqn:E2.
      destruct r as [[[x2 t'] er]| |]; simpl in H; try discriminate.
      inversion H; subst. apply IH in E2. congruence.
Qed.

Lemma eus_flush3_os : forall labels ord from eus x acc b x' eus' o,
  eus_flush3 labels ord from x eus acc = (b, Ok (x', eus', o)) -> x_os x' = x_os x.
Proof.
  induction eus as [|e t IH]; intros x acc b x' eus' o H; simpl in H.
  - inversion H; reflexivity.
  - destruct (eu_empty3 e).
    + destruct (eus_flush3 labels ord from x t acc) as [os2 r] eqn:E2.
      destruct r as [[[x2 t'] er]| |]; simpl in H; try discriminate.
      inversion H; subst. eapply IH; eauto.
    + destruct (eu_cycle3 _ _ _ _ _) as [os1 r1] eqn:E1.
      destruct r1 as [[[x1 e1] o1]| |]; try discriminate.
      apply eu_cycle3_os in E1.
      destruct (y_err o1); [inversion H; subst; exact E1|].
      destruct (eus_flush3 labels ord from x1 t _) as [os2 r] eqn:E2.
      destruct r as [[[x2 t'] er]| |]; simpl in H; try discriminate.
      inversion H; subst. apply IH in E2. congruence.
Qed.

Lemma wu_cycle3_os : forall x w before x' w', wu_cycle3 x w before = Ok (x', w') -> x_os x' = x_os x.
Proof.
  intros x w before x' w' H. unfold wu_cycle3, bind in H.
  split_hyp H; simpl in *; try discriminate; inversion H; subst; simpl; auto.
Qed.

Lemma wus_cycle3_os : forall wus x before x' wus', wus_cycle3 x wus before = Ok (x', wus') -> x_os x' = x_os x.
Proof.
  induction wus as [|w t IH]; intros x before x' wus' H; simpl in H.
  - inversion H; reflexivity.
  - destruct (wu_cycle3 x w before) as [[x1 w1]| |] eqn:E1; simpl in H; try discriminate.
    destruct (wus_cycle3 x1 t before) as [[x2 t']| |] eqn:E2; simpl in H; try discriminate.
    inversion H; subst. apply wu_cycle3_os in E1. apply IH in E2. congruence.
Qed.

(* ---------- orders ---------- *)

Lemma memZ_In : forall k l, memZ k l = true <-> In k l.
Proof.
  intros k l. unfold memZ. rewrite existsb_exists. split.
  - intros [x [H1 H2]]. apply Z.eqb_eq in H2. subst. exact H1.
  - intros H. exists k. split; [exact H | apply Z.eqb_refl].
Qed.

Lemma in_iter_order : forall h keys k, In k (iter_order h keys) <-> In k keys.
Proof.
  intros h keys k. unfold iter_order. rewrite in_app_iff, nodup_In, !filter_In. split.
  - intros [[_ H]|[H _]]; [apply memZ_In in H|]; exact H.
  - intros H. destruct (memZ k h) eqn:E.
    + left. split; [apply memZ_In; exact E | apply memZ_In; exact H].
    + right. split; [exact H | reflexivity].
Qed.

Lemma first_some_some : forall A B (f : A -> option B) l v,
  first_some f l = Some v -> exists a, In a l /\ f a = Some v.
Proof.
  induction l as [|a t IH]; intros v H; simpl in H; [discriminate|].
  destruct (f a) eqn:E.
  - inversion H; subst. exists a. split; [left; reflexivity | exact E].
  - destruct (IH v H) as [b [H1 H2]]. exists b. split; [right; exact H1 | exact H2].
Qed.

Lemma first_some_none : forall A B (f : A -> option B) l,
  first_some f l = None -> forall a, In a l -> f a = None.
Proof.
  induction l as [|a t IH]; intros H b Hb; simpl in *; [contradiction|].
  destruct (f a) eqn:E; [discriminate|].
  destruct Hb as [Hb|Hb]; [subst; exact E | apply IH; auto].
Qed.

Lemma first_some_in : forall A B (f : A -> option B) l a v,
  In a l -> f a = Some v -> exists b w, In b l /\ f b = Some w /\ first_some f l = Some w.
Proof.
  induction l as [|c t IH]; intros a v Ha Hf; simpl in *; [contradiction|].
  destruct (f c) eqn:E.
  - exists c, b. auto.
  - destruct Ha as [Ha|Ha]; [subst; congruence|].
    destruct (IH a v Ha Hf) as [b [w [H1 [H2 H3]]]]. exists b, w. auto.
Qed.

Lemma first_some_set : forall A B (f : A -> option B) l1 l2,
  (forall a, In a l1 <-> In a l2) ->
  (forall a b u v, In a l1 -> In b l1 -> f a = Some u -> f b = Some v -> a = b) ->
  first_some f l1 = first_some f l2.
Proof.
  intros A B f l1 l2 Hs Hu.
  destruct (first_some f l1) as [v|] eqn:E1.
  - destruct (first_some_some _ _ _ _ _ E1) as [a [Ha Hf]].
    destruct (first_some_in _ _ f l2 a v (proj1 (Hs a) Ha) Hf) as [b [w [Hb [Hfb Hw]]]].
    rewrite Hw. assert (a = b) by (eapply Hu; eauto; apply Hs; exact Hb). subst. congruence.
  - destruct (first_some f l2) as [w|] eqn:E2; [|reflexivity].
    destruct (first_some_some _ _ _ _ _ E2) as [b [Hb Hf]].
    rewrite (first_some_none _ _ _ _ E1 b (proj2 (Hs b) Hb)) in Hf. discriminate.
Qed.

Lemma filter_two : forall A (c : A -> bool) l a b,
  In a l -> In b l -> a <> b -> c a = true -> c b = true -> 1 < zlen (filter c l).
Proof.
  intros A c l a b Ha Hb Hab Ca Cb.
  assert (Ia : In a (filter c l)) by (apply filter_In; auto).
  assert (Ib : In b (filter c l)) by (apply filter_In; auto).
  unfold zlen. destruct (filter c l) as [|x [|y t]]; simpl in *.
  - contradiction.
  - destruct Ia as [Ia|[]], Ib as [Ib|[]]. congruence.
  - lia.
Qed.

(* with the flag clear the forwarding source does not depend on the order *)
Lemma should_forward3_ord : forall ord1 ord2 cycle x r hz,
  forward_order_matters x r = false ->
  should_forward3 ord1 cycle x r hz = should_forward3 ord2 cycle x r hz.
Proof.
  intros ord1 ord2 cycle x r hz H. unfold should_forward3.
  destruct hz as [|[[|?|?] ?] [|? ?]]; try reflexivity.
  apply first_some_set.
  - intros a. unfold map_order. rewrite !in_iter_order. tauto.
  - intros a b u v _ _ Fa Fb.
    destruct (find (fun p => q_id p =? a) (x_prev x)) as [pa|] eqn:Ea; [|discriminate].
    destruct (find (fun p => q_id p =? b) (x_prev x)) as [pb|] eqn:Eb; [|discriminate].
    destruct (fwd_match _ pa) eqn:Ma; [|discriminate].
    destruct (fwd_match _ pb) eqn:Mb; [|discriminate].
    apply find_some in Ea. apply find_some in Eb. destruct Ea as [Ia Qa], Eb as [Ib Qb].
    apply Z.eqb_eq in Qa. apply Z.eqb_eq in Qb.
    destruct (Z.eq_dec a b) as [|N]; [assumption|]. exfalso.
    unfold forward_order_matters in H. apply Z.ltb_ge in H.
    assert (pa <> pb) by (intros E; subst; congruence).
    pose proof (filter_two _ (fun p => match fwd_match (instr_ReadRegisters (q_instr r)) p with Some _ => true | None => false end)
                           (x_prev x) pa pb Ia Ib H0) as F.
    simpl in F. rewrite Ma, Mb in F. specialize (F eq_refl eq_refl). lia.
Qed.

Lemma first_some_none_set : forall A B (f : A -> option B) l1 l2,
  (forall a, In a l2 -> In a l1) -> first_some f l1 = None -> first_some f l2 = None.
Proof.
  intros A B f l1 l2 Hs H.
  destruct (first_some f l2) as [w|] eqn:E2; [|reflexivity].
  destruct (first_some_some _ _ _ _ _ E2) as [b [Hb Hf]].
  rewrite (first_some_none _ _ _ _ H b (Hs b Hb)) in Hf. discriminate.
Qed.

Lemma should_forward3_none : forall ord1 ord2 cycle x r hz,
  should_forward3 ord1 cycle x r hz = None -> should_forward3 ord2 cycle x r hz = None.
Proof.
  intros ord1 ord2 cycle x r hz H. unfold should_forward3 in *.
  destruct hz as [|[[|?|?] ?] [|? ?]]; try reflexivity.
  eapply first_some_none_set; [|exact H].
  intros a. unfold map_order. rewrite !in_iter_order. tauto.
Qed.

Lemma push_or_stop3_os : forall x cycle r stop p s r' x',
  push_or_stop3 x cycle r stop = (p, s, r', x') -> x_os x' = x_os x.
Proof.
  intros x cycle r stop p s r' x' H. unfold push_or_stop3, push_runner3 in H.
  destruct (negb (bb_canadd (x_ebus x))); inversion H; reflexivity.
Qed.

(* x_os of the result false: same result under the other order, and the flag was clear before *)
Lemma handle_runner3_ord : forall ord1 ord2 cycle x sk pb r p s r' x',
  handle_runner3 ord1 cycle x sk pb r = (p, s, r', x') -> x_os x' = false ->
  handle_runner3 ord2 cycle x sk pb r = (p, s, r', x') /\ x_os x = false.
Proof.
  intros ord1 ord2 cycle x sk pb r p s r' x' H Hos. unfold handle_runner3 in *.
  destruct (_ && pb); [inversion H; subst; auto|].
  destruct (_ && _); [inversion H; subst; auto|].
  destruct (skipped_hazard3 sk (q_instr r)); [inversion H; subst; auto|].
  destruct (zlen (hazards_of x (q_instr r)) =? 0).
  - split; [exact H|]. apply push_or_stop3_os in H. congruence.
  - destruct (should_forward3 ord1 cycle x r (hazards_of x (q_instr r))) as [[pr reg]|] eqn:E1.
    + pose proof (push_or_stop3_os _ _ _ _ _ _ _ _ H) as Hp. simpl in Hp.
      rewrite Hos in Hp. symmetry in Hp. apply orb_false_iff in Hp. destruct Hp as [Hx Hf].
      rewrite <- (should_forward3_ord ord1 ord2 cycle x r _ Hf), E1. auto.
    + rewrite (should_forward3_none ord1 ord2 cycle x r _ E1).
      destruct (should_rename3 _).
      * split; [exact H|]. apply push_or_stop3_os in H. congruence.
      * inversion H; subst; auto.
Qed.

Lemma after_push3_os : forall x l r, x_os (fst (after_push3 x l r)) = x_os x.
Proof. intros. unfold after_push3. simpl. destruct (InstructionType_IsConditionalBranch _); reflexivity. Qed.

Lemma cu_pending3_ord : forall ord1 ord2 cycle ps kept l x st pend l' x',
  cu_pending3 ord1 cycle ps kept l x = (st, pend, l', x') -> x_os x' = false ->
  cu_pending3 ord2 cycle ps kept l x = (st, pend, l', x') /\ x_os x = false.
Proof.
  induction ps as [|r t IH]; intros kept l x st pend l' x' H Hos; simpl in *.
  - inversion H; subst; auto.
  - destruct (handle_runner3 ord1 cycle x (l_skipped l) (l_pbranch l) r) as [[[p s] r1] x1] eqn:EH.
    assert (K : x_os x1 = false /\ forall y, (let '(x2, l2) :=
                  if p then after_push3 x1 l r1 else (x1, mk_cul (l_cur l) (l_skipped l ++ [r1]) (l_pbranch l)) in y x2 l2) = (st, pend, l', x') -> True) by (split; [|auto]; 
      destruct p; [destruct (after_push3 x1 l r1) as [x2 l2] eqn:EA;
                    assert (HE : x_os x2 = x_os x1) by (pose proof (after_push3_os x1 l r1) as Q; rewrite EA in Q; exact Q);
                    destruct s; [inversion H; subst; congruence | apply IH in H; auto; destruct H; congruence]
                  | destruct s; [inversion H; subst; auto | apply IH in H; auto; destruct H; auto]]).
    destruct K as [K _].
    destruct (handle_runner3_ord ord1 ord2 cycle x _ _ r p s r1 x1 EH K) as [E2 Hx]. rewrite E2.
    split; [|exact Hx].
    destruct p.
    + destruct (after_push3 x1 l r1) as [x2 l2].
      destruct s; [exact H | apply IH in H; auto; destruct H; auto].
    + destruct s; [exact H | apply IH in H; auto; destruct H; auto].
Qed.


Lemma cu_incoming3_ord : forall ord1 ord2 cycle q pend l x q' pend' l' x',
  cu_incoming3 ord1 cycle q pend l x = (q', pend', l', x') -> x_os x' = false ->
  cu_incoming3 ord2 cycle q pend l x = (q', pend', l', x') /\ x_os x = false.
Proof.
  induction q as [|r0 t IH]; intros pend l x q' pend' l' x' H Hos; simpl in *.
  - destruct (pendingLength <=? zlen pend); inversion H; subst; auto.
  - destruct (pendingLength <=? zlen pend); [inversion H; subst; auto|].
    destruct (handle_runner3 ord1 cycle x (l_skipped l) (l_pbranch l) (r3_of r0)) as [[[p s] r1] x1] eqn:EH.
    assert (K : x_os x1 = false).
    { destruct p.
      - destruct (after_push3 x1 l r1) as [x2 l2] eqn:EA.
        assert (HE : x_os x2 = x_os x1) by (pose proof (after_push3_os x1 l r1) as Q; rewrite EA in Q; exact Q).
        destruct s; [inversion H; subst; congruence | apply IH in H; auto; destruct H; congruence].
      - destruct s; [inversion H; subst; auto | apply IH in H; auto; destruct H; auto]. }
    destruct (handle_runner3_ord ord1 ord2 cycle x _ _ _ p s r1 x1 EH K) as [E2 Hx]. rewrite E2.
    split; [|exact Hx].
    destruct p.
    + destruct (after_push3 x1 l r1) as [x2 l2].
      destruct s; [exact H | apply IH in H; auto; destruct H; auto].
    + destruct s; [exact H | apply IH in H; auto; destruct H; auto].
Qed.

Lemma cu_cycle3_ord : forall ord1 ord2 cycle x,
  x_os (cu_cycle3 ord1 cycle x) = false ->
  cu_cycle3 ord2 cycle x = cu_cycle3 ord1 cycle x /\ x_os x = false.
Proof.
  intros ord1 ord2 cycle x H. unfold cu_cycle3 in *.
  destruct (negb (bb_canadd (x_ebus x))); [auto|].
  destruct (cu_pending3 ord1 cycle (x_pend x) [] (mk_cul [] [] false) x) as [[[st pend1] l1] x1] eqn:E1.
  assert (K : x_os x1 = false).
  { destruct st; [exact H|].
    destruct (cu_incoming3 ord1 cycle (bb_q (m_cbus (x_m x1))) pend1 l1 x1) as [[[q' pend2] l2] x2] eqn:E2.
    simpl in H. apply (cu_incoming3_ord ord1 ord2) in E2; [|exact H]. tauto. }
  destruct (cu_pending3_ord ord1 ord2 _ _ _ _ _ _ _ _ _ E1 K) as [E1' Hx]. rewrite E1'.
  split; [|exact Hx].
  destruct st; [reflexivity|].
  destruct (cu_incoming3 ord1 cycle (bb_q (m_cbus (x_m x1))) pend1 l1 x1) as [[[q' pend2] l2] x2] eqn:E2.
  simpl in H. apply (cu_incoming3_ord ord1 ord2) in E2; [|exact H]. destruct E2 as [E2 _]. rewrite E2. reflexivity.
Qed.

(* the four Connect calls at the beginning of a cycle *)
Definition connected3 (x : mx) (cycle : Z) : mx :=
  let m := x_m x in
  let m := set_wbus (set_cbus (set_dbus m (bb_connect (m_dbus m) cycle)) (bb_connect (m_cbus m) cycle))
                    (bb_connect (m_wbus m) cycle) in
  set_ebus3 (set_m x m) (bb_connect (x_ebus x) cycle).

Lemma front3_eq : forall app ord cycle x,
  front3 app ord cycle x =
  match fu_cycle6 app cycle (m_fu (x_m (connected3 x cycle))) (m_l1i (x_m (connected3 x cycle))) (m_dbus (x_m (connected3 x cycle))) with
  | Ok (fu1, l1i1, dbus1) =>
      match du_cycle3 app cycle (set_m (connected3 x cycle) (set_dbus (set_l1i (set_fu (x_m (connected3 x cycle)) fu1) l1i1) dbus1)) with
      | Ok x1 => Ok (cu_cycle3 ord cycle x1)
      | Err e => Err e
      | Panic => Panic
      end
  | Err e => Err e
  | Panic => Panic
  end.
Proof. reflexivity. Qed.

Lemma connected3_os : forall x cycle, x_os (connected3 x cycle) = x_os x.
Proof. reflexivity. Qed.

(* front3: the flag of the result is that of cu_cycle3 *)
Lemma front3_ord : forall app ord1 ord2 cycle x x',
  front3 app ord1 cycle x = Ok x' -> x_os x' = false ->
  front3 app ord2 cycle x = Ok x' /\ x_os x = false.
Proof.
  intros app ord1 ord2 cycle x x' H Hos. rewrite front3_eq in *.
  destruct (fu_cycle6 app cycle _ _ _) as [[[fu1 l1i1] dbus1]| |]; try discriminate H.
  destruct (du_cycle3 app cycle _) as [x1| |] eqn:ED; try discriminate H.
  injection H as H. subst x'.
  destruct (cu_cycle3_ord ord1 ord2 cycle x1 Hos) as [E Hx1]. rewrite E. split; [reflexivity|].
  apply du_cycle3_os in ED. rewrite Hx1 in ED. symmetry. exact ED.
Qed.

Lemma front3_err : forall app ord1 ord2 cycle x,
  (forall x', front3 app ord1 cycle x <> Ok x') -> front3 app ord2 cycle x = front3 app ord1 cycle x.
Proof.
  intros app ord1 ord2 cycle x H. rewrite !front3_eq in *.
  destruct (fu_cycle6 app cycle _ _ _) as [[[fu1 l1i1] dbus1]| |]; try reflexivity.
  destruct (du_cycle3 app cycle _) as [x1| |]; try reflexivity.
  exfalso. eapply H. reflexivity.
Qed.

(* ---------- execute units ---------- *)

(* the two order functions are iteration orders, and they agree on the maps whose order is not
   observable (the RAT value maps, pc < 0) *)
Definition ords_ok3 (ord1 ord2 : Z -> Z -> list Z -> list Z) : Prop :=
  ord_ok ord1 /\ ord_ok ord2 /\ forall cycle pc keys, pc < 0 -> ord1 cycle pc keys = ord2 cycle pc keys.

Lemma commit_vals_ord : forall ord1 ord2 cycle crat vals,
  ords_ok3 ord1 ord2 -> commit_vals ord1 cycle crat vals = commit_vals ord2 cycle crat vals.
Proof.
  intros ord1 ord2 cycle crat vals [_ [_ A]]. unfold commit_vals, map_order. rewrite (A cycle (-1)); [reflexivity | lia].
Qed.

Lemma rat_commit3_ord : forall ord1 ord2 cycle x,
  ords_ok3 ord1 ord2 -> rat_commit3 ord1 cycle x = rat_commit3 ord2 cycle x.
Proof. intros. unfold rat_commit3. rewrite (commit_vals_ord ord1 ord2); auto. Qed.

Lemma rat_rollback3_ord : forall ord1 ord2 cycle x s,
  ords_ok3 ord1 ord2 -> rat_rollback3 ord1 cycle x s = rat_rollback3 ord2 cycle x s.
Proof. intros. unfold rat_rollback3. rewrite (commit_vals_ord ord1 ord2); auto. Qed.

Lemma rat_flush3_ord : forall ord1 ord2 cycle x,
  ords_ok3 ord1 ord2 -> rat_flush3 ord1 cycle x = rat_flush3 ord2 cycle x.
Proof.
  intros ord1 ord2 cycle x [_ [_ A]]. unfold rat_flush3, map_order. rewrite (A cycle (-1)); [reflexivity | lia].
Qed.

Lemma eu_run3_fst : forall labels ord1 ord2 cycle x e,
  fst (eu_run3 labels ord1 cycle x e) = fst (eu_run3 labels ord2 cycle x e).
Proof.
  intros. unfold eu_run3. destruct (g_runner e); [|reflexivity].
  destruct (instr_Run _ _ _ _ _ _) as [exe| |]; try reflexivity.
  destruct (Return exe); reflexivity.
Qed.

Lemma eu_run3_ord : forall labels ord1 ord2 cycle x e,
  ords_ok3 ord1 ord2 -> fst (eu_run3 labels ord1 cycle x e) = false ->
  eu_run3 labels ord1 cycle x e = eu_run3 labels ord2 cycle x e.
Proof.
  intros labels ord1 ord2 cycle x e O H. pose proof O as [O1 [O2 A]]. unfold eu_run3 in *.
  destruct (g_runner e) as [r|]; [|reflexivity].
  destruct (instr_Run _ _ _ _ _ _) as [exe| |]; try reflexivity.
  destruct (Return exe); [reflexivity|].
  cbn [fst] in H. f_equal.
  destruct (MemoryChange exe) eqn:MC.
  - cbn [andb] in H.
    match goal with |- bind (bind (get_from_l3 ?c ?p _ _) ?k) _ = _ =>
      rewrite (l3_same_bind _ (get_from_l3 c p (ord1 cycle (q_pc r) (map fst (sort_changes (MemoryChanges exe)))) [])
                              (get_from_l3 c p (ord2 cycle (q_pc r) (map fst (sort_changes (MemoryChanges exe)))) [])
                              (get_from_l3 c p (map fst (sort_changes (MemoryChanges exe))) []) k)
    end.
    + match goal with |- bind ?a _ = bind ?a _ => destruct a as [[m1 in_l3]| |]; try reflexivity end.
      cbn [bind]. cbv zeta.
      rewrite ?(rat_rollback3_ord ord1 ord2), ?(rat_commit3_ord ord1 ord2) by exact O. reflexivity.
    + apply som_false; auto.
    + apply som_false; auto.
    + intros; reflexivity.
  - cbn [bind]. cbv zeta.
    rewrite ?(rat_rollback3_ord ord1 ord2), ?(rat_commit3_ord ord1 ord2) by exact O. reflexivity.
Qed.

Lemma eu_prepare3_ord : forall labels ord1 ord2 cycle x e,
  ords_ok3 ord1 ord2 -> fst (eu_prepare3 labels ord1 cycle x e) = false ->
  eu_prepare3 labels ord1 cycle x e = eu_prepare3 labels ord2 cycle x e.
Proof.
  intros labels ord1 ord2 cycle x e O H. unfold eu_prepare3 in *.
  destruct (negb (bb_canadd (m_wbus (x_m x)))); [reflexivity|].
  destruct (g_runner e) as [r|]; [|reflexivity].
  match goal with |- match ?rcv with Some _ => _ | None => _ end = _ => destruct rcv as [[x0 r1]|] end; [|reflexivity].
  destruct (instr_MemoryRead _ _ _); [|reflexivity].
  now apply eu_run3_ord.
Qed.

Lemma eu_cycle3_ord : forall labels ord1 ord2 cycle x e,
  ords_ok3 ord1 ord2 -> fst (eu_cycle3 labels ord1 cycle x e) = false ->
  eu_cycle3 labels ord1 cycle x e = eu_cycle3 labels ord2 cycle x e.
Proof.
  intros labels ord1 ord2 cycle x e O H. unfold eu_cycle3 in *.
  destruct (eu_pre3 e); [reflexivity|].
  destruct (g_co e).
  - destruct (bb_get (x_ebus x)) as [ebus' [r|]]; [|reflexivity]. now apply eu_prepare3_ord.
  - now apply eu_prepare3_ord.
  - destruct (0 <? rem); [reflexivity|]. now apply eu_run3_ord.
  - destruct (0 <? rem); [reflexivity|].
    destruct (eu_fill6 _ _ _) as [[m1 e1]| |]; try reflexivity. now apply eu_run3_ord.
Qed.

Lemma eus_main3_ord : forall labels ord1 ord2 cycle eus x acc,
  ords_ok3 ord1 ord2 -> fst (eus_main3 labels ord1 cycle x eus acc) = false ->
  eus_main3 labels ord1 cycle x eus acc = eus_main3 labels ord2 cycle x eus acc.
Proof.
  intros labels ord1 ord2 cycle eus. induction eus as [|e t IH]; intros x acc O H; [reflexivity|].
  simpl in *.
  destruct (eu_cycle3 labels ord1 cycle x _) as [os1 r1] eqn:E1.
  assert (os1 = false) as Hos1.
  { destruct r1 as [[[x1 e1] o]| |]; simpl in H; auto.
    destruct (y_err o); simpl in H; auto.
    destruct (eus_main3 labels ord1 cycle x1 t _) as [os2 r]. simpl in H.
    apply orb_false_iff in H. tauto. }
  subst os1.
  rewrite <- (eu_cycle3_ord labels ord1 ord2 cycle x _ O) by (rewrite E1; reflexivity). rewrite E1.
  destruct r1 as [[[x1 e1] o]| |]; try reflexivity.
  destruct (y_err o); [reflexivity|].
  match goal with |- context [eus_main3 labels ord1 cycle x1 t ?a] =>
    destruct (eus_main3 labels ord1 cycle x1 t a) as [os2 r] eqn:E2;
    simpl in H; subst os2;
    rewrite <- (IH x1 a O) by (rewrite E2; reflexivity); rewrite E2 end.
  reflexivity.
Qed.

Lemma eus_drain3_ord : forall labels ord1 ord2 cycle eus x,
  ords_ok3 ord1 ord2 -> fst (eus_drain3 labels ord1 cycle x eus) = false ->
  eus_drain3 labels ord1 cycle x eus = eus_drain3 labels ord2 cycle x eus.
Proof.
  intros labels ord1 ord2 cycle eus. induction eus as [|e t IH]; intros x O H; [reflexivity|].
  simpl in *. destruct (eu_empty3 e).
  - destruct (eus_drain3 labels ord1 cycle x t) as [os r] eqn:E1.
    simpl in H. subst os.
    rewrite <- (IH x O) by (rewrite E1; reflexivity). rewrite E1. reflexivity.
  - destruct (eu_cycle3 labels ord1 cycle x e) as [os1 r1] eqn:E1.
    assert (os1 = false) as Hos1.
    { destruct r1 as [[[x1 e1] o]| |]; simpl in H; auto.
      destruct (y_err o); simpl in H; auto.
      destruct (eus_drain3 labels ord1 cycle x1 t) as [os2 r]. simpl in H.
      apply orb_false_iff in H. tauto. }
    subst os1.
    rewrite <- (eu_cycle3_ord labels ord1 ord2 cycle x e O) by (rewrite E1; reflexivity). rewrite E1.
    destruct r1 as [[[x1 e1] o]| |]; try reflexivity.
    destruct (y_err o); [reflexivity|].
    destruct (eus_drain3 labels ord1 cycle x1 t) as [os2 r] eqn:E2.
    simpl in H. subst os2.
    rewrite <- (IH x1 O) by (rewrite E2; reflexivity). rewrite E2. reflexivity.
Qed.

Lemma eus_flush3_ord : forall labels ord1 ord2 from eus x acc,
  ords_ok3 ord1 ord2 -> fst (eus_flush3 labels ord1 from x eus acc) = false ->
  eus_flush3 labels ord1 from x eus acc = eus_flush3 labels ord2 from x eus acc.
Proof.
  intros labels ord1 ord2 from eus. induction eus as [|e t IH]; intros x acc O H; [reflexivity|].
  simpl in *. destruct (eu_empty3 e).
  - destruct (eus_flush3 labels ord1 from x t acc) as [os r] eqn:E1.
    simpl in H. subst os.
    rewrite <- (IH x acc O) by (rewrite E1; reflexivity). rewrite E1. reflexivity.
  - destruct (eu_cycle3 labels ord1 from x e) as [os1 r1] eqn:E1.
    assert (os1 = false) as Hos1.
    { destruct r1 as [[[x1 e1] o]| |]; simpl in H; auto.
      destruct (y_err o); simpl in H; auto.
      destruct (eus_flush3 labels ord1 from x1 t _) as [os2 r]. simpl in H.
      apply orb_false_iff in H. tauto. }
    subst os1.
    rewrite <- (eu_cycle3_ord labels ord1 ord2 from x e O) by (rewrite E1; reflexivity). rewrite E1.
    destruct r1 as [[[x1 e1] o]| |]; try reflexivity.
    destruct (y_err o); [reflexivity|].
    match goal with |- context [eus_flush3 labels ord1 from x1 t ?a] =>
      destruct (eus_flush3 labels ord1 from x1 t a) as [os2 r] eqn:E2;
      simpl in H; subst os2;
      rewrite <- (IH x1 a O) by (rewrite E2; reflexivity); rewrite E2 end.
    reflexivity.
Qed.

(* ---------- steps ---------- *)

(* the flag a step ends with *)
Definition res_os3 (r : step_res3) : bool := match r with TDone _ os => os | TCont s' => x_os (t_x s') end.

Lemma res_of3_os : forall A os (o : outcome A) k,
  (forall x, res_os3 (k x) = os) -> res_os3 (res_of3 os o k) = os.
Proof. intros A os o k H. destruct o; simpl; auto. Qed.

Lemma finish3_ord : forall ord1 ord2 x cycle, ords_ok3 ord1 ord2 -> finish3 ord1 x cycle = finish3 ord2 x cycle.
Proof.
  intros ord1 ord2 x cycle O. unfold finish3.
  rewrite (rat_commit3_ord ord1 ord2 cycle x O), (rat_flush3_ord ord1 ord2 cycle _ O). reflexivity.
Qed.

Lemma ret_check3_ord : forall ord1 ord2 s, ords_ok3 ord1 ord2 -> ret_check3 ord1 s = ret_check3 ord2 s.
Proof. intros ord1 ord2 s O. unfold ret_check3. rewrite (finish3_ord ord1 ord2 _ _ O). reflexivity. Qed.

Lemma ret_check3_os : forall ord s, res_os3 (ret_check3 ord s) = x_os (t_x s).
Proof. intros. unfold ret_check3. destruct (_ && _); reflexivity. Qed.

Lemma flush_advance3_os : forall s k seq pc from empty, res_os3 (flush_advance3 s k seq pc from empty) = x_os (t_x s).
Proof. intros. unfold flush_advance3. destruct (flush_next _ _ _); [reflexivity|]. destruct empty; reflexivity. Qed.

Lemma back3_os : forall ord s cycle x eus o, res_os3 (back3 ord s cycle (x, eus, o)) = x_os x.
Proof.
  intros. unfold back3. destruct (y_err o); [reflexivity|].
  destruct (wus_cycle3 x (t_wus s) _) as [[x2 wus1]| |] eqn:E; cbn [res_of3]; try reflexivity.
  apply wus_cycle3_os in E.
  destruct (y_ret o); [rewrite ret_check3_os; exact E|].
  destruct (y_flush o); [exact E|].
  destruct (is_empty3 x2 eus wus1); exact E.
Qed.

Lemma back3_ord : forall ord1 ord2 s cycle z, ords_ok3 ord1 ord2 -> back3 ord1 s cycle z = back3 ord2 s cycle z.
Proof.
  intros ord1 ord2 s cycle [[x eus] o] O. unfold back3.
  destruct (y_err o); [reflexivity|].
  destruct (wus_cycle3 x (t_wus s) _) as [[x2 wus1]| |]; cbn [res_of3]; try reflexivity.
  rewrite (ret_check3_ord ord1 ord2 _ O), (finish3_ord ord1 ord2 _ _ O). reflexivity.
Qed.

Lemma step3_ord : forall app labels ord1 ord2 s,
  ords_ok3 ord1 ord2 -> res_os3 (step3 app labels ord1 s) = false ->
  step3 app labels ord1 s = step3 app labels ord2 s /\ x_os (t_x s) = false.
Proof.
  intros app labels ord1 ord2 s O H. unfold step3 in *.
  destruct (t_mode s) as [| | seq pc from | k seq pc from empty].
  - (* main loop *)
    destruct (front3 app ord1 (t_cycle s + 1) (t_x s)) as [x1| |] eqn:EF.
    + cbn [res_of3] in H |- *.
      destruct (eus_main3 labels ord1 (t_cycle s + 1) x1 (t_eus s) yo_none) as [os1 re] eqn:E1.
      assert (K : x_os x1 || os1 = false).
      { destruct re as [[[x2 eus1] o]| |]; cbn [res_of3] in H; try exact H.
        rewrite back3_os in H. apply eus_main3_os in E1. unfold or_os in H. simpl in H. rewrite E1 in H. exact H. }
      apply orb_false_iff in K. destruct K as [K1 K2]. subst os1.
      destruct (front3_ord app ord1 ord2 _ _ _ EF K1) as [EF2 Hx]. rewrite EF2. cbn [res_of3].
      rewrite <- (eus_main3_ord labels ord1 ord2 _ _ _ _ O) by (rewrite E1; reflexivity). rewrite E1.
      split; [|exact Hx].
      destruct re as [[[x2 eus1] o]| |]; cbn [res_of3]; try reflexivity.
      apply back3_ord; exact O.
    + rewrite (front3_err app ord1 ord2) by (intros x' C; rewrite EF in C; discriminate). rewrite EF. auto.
    + rewrite (front3_err app ord1 ord2) by (intros x' C; rewrite EF in C; discriminate). rewrite EF. auto.
  - (* drain loop after ret *)
    destruct (eus_drain3 labels ord1 (t_cycle s) (t_x s) (t_eus s)) as [os1 re] eqn:E1.
    assert (K : x_os (t_x s) || os1 = false).
    { destruct re as [[[x1 eus1] er]| |]; cbn [res_of3] in H; try exact H.
      apply eus_drain3_os in E1.
      destruct er; [simpl in H; rewrite E1 in H; exact H|].
      destruct (wus_cycle3 _ _ _) as [[x2 wus1]| |] eqn:EW; cbn [res_of3] in H.
      - rewrite ret_check3_os in H. apply wus_cycle3_os in EW. simpl in H, EW. rewrite EW, E1 in H. exact H.
      - simpl in H. rewrite E1 in H. exact H.
      - simpl in H. rewrite E1 in H. exact H. }
    apply orb_false_iff in K. destruct K as [K1 K2]. subst os1.
    rewrite <- (eus_drain3_ord labels ord1 ord2 _ _ _ O) by (rewrite E1; reflexivity). rewrite E1.
    split; [|exact K1].
    destruct re as [[[x1 eus1] er]| |]; cbn [res_of3]; try reflexivity.
    destruct er; [reflexivity|].
    destruct (wus_cycle3 _ _ _) as [[x2 wus1]| |]; cbn [res_of3]; try reflexivity.
    apply ret_check3_ord; exact O.
  - (* flush loop *)
    destruct (eus_flush3 labels ord1 from (t_x s) (t_eus s) _) as [os1 re] eqn:E1.
    assert (K : x_os (t_x s) || os1 = false).
    { destruct re as [[[x1 eus1] acc]| |]; cbn [res_of3] in H; try exact H.
      apply eus_flush3_os in E1.
      destruct (a_err acc); [simpl in H; rewrite E1 in H; exact H|].
      rewrite flush_advance3_os in H. simpl in H. rewrite E1 in H. exact H. }
    apply orb_false_iff in K. destruct K as [K1 K2]. subst os1.
    rewrite <- (eus_flush3_ord labels ord1 ord2 _ _ _ _ O) by (rewrite E1; reflexivity). rewrite E1.
    auto.
  - split; [reflexivity|].
    destruct (nth_error (t_wus s) k); [|exact H].
    destruct (wu_cycle3 (t_x s) w seq) as [[x1 w1]| |] eqn:EW; cbn [res_of3] in H; try exact H.
    rewrite flush_advance3_os in H. apply wu_cycle3_os in EW. simpl in H. congruence.
Qed.

(* the flag a run ends with *)
Definition final_os3 (r : (mres * bool) + st3) : bool :=
  match r with inl (_, os) => os | inr s' => x_os (t_x s') end.

Theorem run3_st_ord_irrelevant : forall fuel app labels ord1 ord2 s,
  ords_ok3 ord1 ord2 -> final_os3 (run3_st fuel app labels ord1 s) = false ->
  run3_st fuel app labels ord1 s = run3_st fuel app labels ord2 s /\ x_os (t_x s) = false.
Proof.
  induction fuel as [|f IH]; intros app labels ord1 ord2 s O H; simpl in *; [auto|].
  destruct (step3 app labels ord1 s) as [r os|s'] eqn:E.
  - simpl in H. subst os.
    destruct (step3_ord app labels ord1 ord2 s O) as [E2 Hs]; [rewrite E; reflexivity|].
    rewrite <- E2, E. auto.
  - destruct (IH app labels ord1 ord2 s' O H) as [R Hs'].
    destruct (step3_ord app labels ord1 ord2 s O) as [E2 Hs]; [rewrite E; exact Hs'|].
    rewrite <- E2, E. auto.
Qed.

Lemma init3_ord : forall par ord1 ord2 app st, ords_ok3 ord1 ord2 -> init3 par ord1 app st = init3 par ord2 app st.
Proof.
  intros par ord1 ord2 app st [_ [_ A]]. unfold init3, init_rat3, map_order.
  rewrite (A 0 (-2)); [reflexivity | lia].
Qed.

(* a run of MVP-6.3 that ends with the ghost flag clear returns the same result whatever the iteration
   orders of the stores' MemoryChanges maps and of the control unit's map of the runners pushed in the
   previous cycle *)
Theorem mvp63_ord_irrelevant : forall par fuel app labels st ord1 ord2 r,
  ords_ok3 ord1 ord2 ->
  mvp63_run_os par ord1 fuel app labels st = (r, false) ->
  mvp63_run_os par ord2 fuel app labels st = (r, false).
Proof.
  intros par fuel app labels st ord1 ord2 r O H. unfold mvp63_run_os in *.
  rewrite <- (init3_ord par ord1 ord2 app st O).
  destruct (init3 par ord1 app st) as [s| |]; auto.
  destruct (run3_st_ord_irrelevant fuel app labels ord1 ord2 s O) as [E _].
  - destruct (run3_st fuel app labels ord1 s) as [[r1 os1]|s1]; inversion H; reflexivity.
  - rewrite <- E. exact H.
Qed.


Print Assumptions mvp63_cycles_pos.
Print Assumptions cu_dispatch_bound3.
Print Assumptions war_unsound.
Print Assumptions forward_order.
Print Assumptions mvp63_ord_irrelevant.
