(* Refinement of MVP-6.3 to the sequential machine on single-assignment register-only programs with FORWARD
   control flow - the front end.

   After a flush ctx.sequenceID = sq > 0 and the decode unit tags the runner of instruction k with
   sid3 sq k = pcz k + 1000 sq, so the control bus no longer holds the runners rn app k the front-end invariant
   Mvp60RefStep.FrontI speaks about.  The bridge: erase the tags (untag_m) and keep the fact that every runner
   of the control bus carries the tag of the current sequence id (TagOK).

     sequence_id_sq     ctx.SequenceID(pc) = sid3 sq k;
     untag_* / TagOK_*  elementary facts;
     du_cycle3_untag    decodeUnit.cycle of MVP-6.3 is that of MVP-6.0 on the untagged machine;
     fd_ok3q, conn3_okq the versions of Mvp63RefStep.fd_ok3 / conn3_ok for FrontI (untag_m m) + TagOK;
     front_mincq, front_cqq, FrontI_cuq, FrontI_frameq, front_cl_lenq
                        the versions of front_minc / front_cq / FrontI_cu / FrontI_frame / front_cl_len;
     fresh3_front, fresh3_phi   a Fresh3 state satisfies the front-end invariant at base t; its potential.

   NOTES on the statements:
     - du_cycle3_untag is stated without a placeholder conjunct: "m3 and m' agree on every field except the tags
       of the control bus" is  untag_m m3 = m'; du_cycle3_untag_ok is its corollary for  du_cycle6 .. = Ok m'.
     - every lemma takes only the section hypotheses it needs (Proof using): sequence_id_sq / du_*_untag take
       app sq Hsq; fd_ok3q takes app labels regs0 base sq Happ Hlen0 Hbase Hsq Hsem; conn3_okq, front_cqq,
       FrontI_cuq take app base sq; front_mincq, FrontI_frameq, front_cl_lenq take app base (no TagOK needed);
       the variable ord is used by no lemma.
     - the lemmas of Mvp63RefInv / Mvp63RefStep (front_minc, front_cq, FrontI_cu, FrontI_frame, front_cl_len,
       conn3_ok) are stated at base 0 inside sections that assume straight app, so they are re-proved here for
       FrontI app base on a plain machine (front_minc_b .. front_cl_len_b, FrontI_connm) and then transported.
     - "a bus whose queue is replaced by a sublist": TagOK_subq (incl), TagOK_newq (any tagged list), TagOK_skipn.
     - fresh3_phi: the constant 400 n + 1600 is provable as asked (MemoryAccess = 309). *)
From Coq Require Import ZArith List Bool Lia Permutation.
From Maj Require Import Base.Outcome Base.GoInt Base.GoTypes Isa.Spec Isa.Embed Isa.Seq Isa.Refine.
From Maj Require Import Gen.Latency Gen.RiscTables Gen.Opcodes Comp.Cache Comp.Rat Comp.RatProofs.
From Maj Require Import Mvp.Mvp12 Mvp.Mvp12Proofs Mvp.Mvp3 Mvp.Mvp3Proofs Mvp.Mvp4Skel Mvp.Mvp4Inv Mvp.Mvp5 Mvp.Mvp60
     Mvp.Mvp60RefSem Mvp.Mvp60RefDefs Mvp.Mvp60RefFront Mvp.Mvp60RefBack Mvp.Mvp60RefStep Mvp.Mvp60RefStep2
     Mvp.Mvp63 Mvp.Mvp63Proofs Mvp.Mvp63RefDefs Mvp.Mvp63RefInv Mvp.Mvp63RefExec Mvp.Mvp63RefRat
     Mvp.Mvp63RefStep Mvp.Mvp63RefFwdDefs.
Import ListNotations.
Open Scope Z_scope.

(* ------------------------------------------------------------------ *)
(* erasing the tags: the buses                                          *)

Definition untag_p (p : Z * runner) : Z * runner := (fst p, untag_r (snd p)).

Lemma untag_b_eq b : untag_b b = mk_bb (map untag_p (bb_buf b)) (map untag_r (bb_q b)) (bb_ql b) (bb_bl b).
Proof. reflexivity. Qed.

Lemma map_snd_untag buf : map snd (map untag_p buf) = map untag_r (map snd buf).
Proof. rewrite !map_map. reflexivity. Qed.

Lemma flat_untag b : flat (untag_b b) = map untag_r (flat b).
Proof. unfold flat. rewrite untag_b_eq. cbn [bb_q bb_buf]. rewrite map_app, map_snd_untag. reflexivity. Qed.

Lemma blen_untag b : blen (untag_b b) = blen b.
Proof. unfold blen, zlen. rewrite untag_b_eq. cbn [bb_buf]. rewrite map_length. reflexivity. Qed.
Lemma qlen_untag b : qlen (untag_b b) = qlen b.
Proof. unfold qlen, zlen. rewrite untag_b_eq. cbn [bb_q]. rewrite map_length. reflexivity. Qed.
Lemma bb_ql_untag b : bb_ql (untag_b b) = bb_ql b. Proof. reflexivity. Qed.
Lemma bb_bl_untag b : bb_bl (untag_b b) = bb_bl b. Proof. reflexivity. Qed.
Lemma bb_q_untag b : bb_q (untag_b b) = map untag_r (bb_q b). Proof. reflexivity. Qed.
Lemma bb_buf_untag b : bb_buf (untag_b b) = map untag_p (bb_buf b). Proof. reflexivity. Qed.

Lemma bb_canadd_untag b : bb_canadd (untag_b b) = bb_canadd b.
Proof. unfold bb_canadd. fold (blen (untag_b b)) (blen b). rewrite blen_untag. reflexivity. Qed.
Lemma bb_isempty_untag b : bb_isempty (untag_b b) = bb_isempty b.
Proof.
  unfold bb_isempty. fold (blen (untag_b b)) (blen b) (qlen (untag_b b)) (qlen b). rewrite blen_untag, qlen_untag. reflexivity.
Qed.

Lemma untag_add b r c : untag_b (bb_add b r c) = bb_add (untag_b b) (untag_r r) c.
Proof. unfold bb_add. rewrite !untag_b_eq. cbn [bb_buf bb_q bb_ql bb_bl]. rewrite map_app. reflexivity. Qed.

Lemma untag_new ql bl : untag_b (bb_new ql bl) = bb_new ql bl. Proof. reflexivity. Qed.
Lemma untag_clean b : untag_b (bb_clean b) = bb_clean (untag_b b). Proof. reflexivity. Qed.

Lemma untag_push b c l : untag_b (bus_push b c l) = bus_push (untag_b b) c (map untag_r l).
Proof.
  unfold bus_push. rewrite !untag_b_eq. cbn [bb_buf bb_q bb_ql bb_bl]. rewrite map_app. unfold stamped. rewrite !map_map. reflexivity.
Qed.

(* bb_connect_loop only looks at stamps and lengths *)
Lemma untag_connect_loop ql c : forall buf q,
  bb_connect_loop ql c (map untag_r q) (map untag_p buf) =
  (map untag_r (fst (bb_connect_loop ql c q buf)), map untag_p (snd (bb_connect_loop ql c q buf))).
Proof.
  induction buf as [|[a t] buf IH]; intros q; cbn [map bb_connect_loop untag_p fst snd]; [reflexivity|].
  unfold zlen. rewrite map_length. fold (zlen q).
  destruct (zlen q =? ql); [reflexivity|]. destruct (a >? c); [reflexivity|].
  specialize (IH (q ++ [t])). rewrite map_app in IH. exact IH.
Qed.

Lemma untag_connect b c : untag_b (bb_connect b c) = bb_connect (untag_b b) c.
Proof.
  unfold bb_connect. rewrite bb_ql_untag, bb_q_untag, bb_buf_untag, bb_bl_untag.
  unfold zlen at 2. rewrite map_length. fold (zlen (bb_q b)).
  destruct (zlen (bb_q b) =? bb_ql b); [reflexivity|].
  rewrite untag_connect_loop. destruct (bb_connect_loop (bb_ql b) c (bb_q b) (bb_buf b)) as [q' buf']. reflexivity.
Qed.

Lemma BusOK_untag c b : BusOK c (untag_b b) <-> BusOK c b.
Proof.
  split; intros [H1 H2 H3 H4]; constructor; rewrite ?bb_ql_untag, ?bb_bl_untag, ?qlen_untag in *; auto.
  - rewrite bb_buf_untag in H4. apply Forall_forall. intros p Hp. rewrite Forall_forall in H4.
    apply (H4 (untag_p p)). apply in_map. exact Hp.
  - rewrite bb_buf_untag. apply Forall_forall. intros p Hp. apply in_map_iff in Hp as (p0 & <- & Hp0).
    rewrite Forall_forall in H4. exact (H4 p0 Hp0).
Qed.

(* the flat view of a bus does not change in Connect, whatever the bus *)
Lemma flat_connect_any {T} (b : bbus T) c : flat (bb_connect b c) = flat b.
Proof.
  unfold bb_connect. destruct (zlen (bb_q b) =? bb_ql b); [reflexivity|].
  destruct (bb_connect_loop (bb_ql b) c (bb_q b) (bb_buf b)) as [q' buf'] eqn:E.
  apply connect_loop_spec in E as (E & _). exact E.
Qed.

(* ------------------------------------------------------------------ *)
(* erasing the tags: the machine                                        *)

Lemma untag_m_regs m : m_regs (untag_m m) = m_regs m. Proof. reflexivity. Qed.
Lemma untag_m_mem m : m_mem (untag_m m) = m_mem m. Proof. reflexivity. Qed.
Lemma untag_m_pw m : m_pw (untag_m m) = m_pw m. Proof. reflexivity. Qed.
Lemma untag_m_pr m : m_pr (untag_m m) = m_pr m. Proof. reflexivity. Qed.
Lemma untag_m_l1i m : m_l1i (untag_m m) = m_l1i m. Proof. reflexivity. Qed.
Lemma untag_m_l3 m : m_l3 (untag_m m) = m_l3 m. Proof. reflexivity. Qed.
Lemma untag_m_pend m : m_pend (untag_m m) = m_pend m. Proof. reflexivity. Qed.
Lemma untag_m_fu m : m_fu (untag_m m) = m_fu m. Proof. reflexivity. Qed.
Lemma untag_m_dret m : m_dret (untag_m m) = m_dret m. Proof. reflexivity. Qed.
Lemma untag_m_dpbr m : m_dpbr (untag_m m) = m_dpbr m. Proof. reflexivity. Qed.
Lemma untag_m_cu m : m_cu (untag_m m) = m_cu m. Proof. reflexivity. Qed.
Lemma untag_m_bu m : m_bu (untag_m m) = m_bu m. Proof. reflexivity. Qed.
Lemma untag_m_dbus m : m_dbus (untag_m m) = m_dbus m. Proof. reflexivity. Qed.
Lemma untag_m_ebus m : m_ebus (untag_m m) = m_ebus m. Proof. reflexivity. Qed.
Lemma untag_m_wbus m : m_wbus (untag_m m) = m_wbus m. Proof. reflexivity. Qed.
Lemma untag_m_cbus m : m_cbus (untag_m m) = untag_b (m_cbus m). Proof. reflexivity. Qed.

Lemma untag_set_dbus m b : untag_m (set_dbus m b) = set_dbus (untag_m m) b. Proof. reflexivity. Qed.
Lemma untag_set_l1i m c : untag_m (set_l1i m c) = set_l1i (untag_m m) c. Proof. reflexivity. Qed.
Lemma untag_set_fu m f : untag_m (set_fu m f) = set_fu (untag_m m) f. Proof. reflexivity. Qed.
Lemma untag_set_wbus m b : untag_m (set_wbus m b) = set_wbus (untag_m m) b. Proof. reflexivity. Qed.
Lemma untag_set_ebus m b : untag_m (set_ebus m b) = set_ebus (untag_m m) b. Proof. reflexivity. Qed.
Lemma untag_set_sb m pw pr : untag_m (set_sb m pw pr) = set_sb (untag_m m) pw pr. Proof. reflexivity. Qed.
Lemma untag_set_du m r p : untag_m (set_du m r p) = set_du (untag_m m) r p. Proof. reflexivity. Qed.
Lemma untag_set_bu m b : untag_m (set_bu m b) = set_bu (untag_m m) b. Proof. reflexivity. Qed.
Lemma untag_set_cu m l : untag_m (set_cu m l) = set_cu (untag_m m) l. Proof. reflexivity. Qed.
Lemma untag_set_regs m l : untag_m (set_regs m l) = set_regs (untag_m m) l. Proof. reflexivity. Qed.
Lemma untag_set_l3 m c p : untag_m (set_l3 m c p) = set_l3 (untag_m m) c p. Proof. reflexivity. Qed.
Lemma untag_set_cbus m b : untag_m (set_cbus m b) = set_cbus (untag_m m) (untag_b b). Proof. reflexivity. Qed.

(* ------------------------------------------------------------------ *)
(* the tags                                                             *)

Definition Tagged (sq : Z) (r : runner) : Prop := r_seq r = r_pc r + 1000 * sq.

Lemma TagOK_eq sq b : TagOK sq b <-> Forall (Tagged sq) (flat b).
Proof. reflexivity. Qed.

Lemma TagOK_flat sq b b' : flat b' = flat b -> TagOK sq b -> TagOK sq b'.
Proof. unfold TagOK. intros ->. auto. Qed.

Lemma TagOK_connect sq b c : TagOK sq b -> TagOK sq (bb_connect b c).
Proof. apply TagOK_flat. apply flat_connect_any. Qed.

Lemma TagOK_add sq b r c : TagOK sq b -> r_seq r = r_pc r + 1000 * sq -> TagOK sq (bb_add b r c).
Proof. unfold TagOK. intros H Hr. rewrite add_flat. apply Forall_app. split; [exact H|]. constructor; [exact Hr | constructor]. Qed.

Lemma TagOK_new sq ql bl : TagOK sq (bb_new ql bl).
Proof. unfold TagOK, flat, bb_new. cbn. constructor. Qed.

Lemma TagOK_clean sq b : TagOK sq (bb_clean b).
Proof. unfold TagOK, flat, bb_clean. cbn. constructor. Qed.

(* the queue is replaced by tagged runners *)
Lemma TagOK_newq sq b q : TagOK sq b -> Forall (Tagged sq) q -> TagOK sq (mk_bb (bb_buf b) q (bb_ql b) (bb_bl b)).
Proof.
  unfold TagOK, flat. cbn [bb_q bb_buf]. intros H Hq. apply Forall_app in H as [_ H]. apply Forall_app. split; assumption.
Qed.

(* ... by a sublist *)
Lemma TagOK_subq sq b q : TagOK sq b -> incl q (bb_q b) -> TagOK sq (mk_bb (bb_buf b) q (bb_ql b) (bb_bl b)).
Proof.
  intros H Hi. apply TagOK_newq; [exact H|]. unfold TagOK, flat in H. apply Forall_app in H as [H _].
  apply Forall_forall. intros r Hr. rewrite Forall_forall in H. apply H, Hi, Hr.
Qed.

Lemma TagOK_skipn sq b t : TagOK sq b -> TagOK sq (mk_bb (bb_buf b) (skipn t (bb_q b)) (bb_ql b) (bb_bl b)).
Proof.
  intros H. apply TagOK_subq; [exact H|]. intros r Hr. rewrite <- (firstn_skipn t (bb_q b)). apply in_or_app. right. exact Hr.
Qed.

(* untag_r is injective on the runners of one sequence id *)
Lemma untag_r_inj sq r r' : Tagged sq r -> Tagged sq r' -> untag_r r = untag_r r' -> r = r'.
Proof.
  unfold Tagged, untag_r. destruct r as [i p s], r' as [i' p' s']. cbn [r_instr r_pc r_seq]. intros -> -> H.
  injection H as -> ->. reflexivity.
Qed.

Lemma untag_map_inj sq : forall l l', Forall (Tagged sq) l -> Forall (Tagged sq) l' -> map untag_r l = map untag_r l' -> l = l'.
Proof.
  induction l as [|r l IH]; intros [|r' l'] H H' E; cbn [map] in E; try discriminate; [reflexivity|].
  apply Forall_cons_iff in H as [Hr Hl]. apply Forall_cons_iff in H' as [Hr' Hl']. 
  assert (E1 : untag_r r = untag_r r') by congruence. assert (E2 : map untag_r l = map untag_r l') by congruence.
  f_equal; [exact (untag_r_inj sq r r' Hr Hr' E1) | apply IH; assumption].
Qed.

Lemma TagOK_q sq b : TagOK sq b -> Forall (Tagged sq) (bb_q b).
Proof. unfold TagOK, flat. intros H. apply Forall_app in H. apply H. Qed.

Section Runners.
  Variables (app : list instr) (sq : Z).

  Lemma untag_rnq k : untag_r (rnq app sq k) = rn app k.
  Proof. reflexivity. Qed.

  Lemma rnq_tagged k : Tagged sq (rnq app sq k).
  Proof. reflexivity. Qed.

  Lemma rnq_seq k : r_seq (rnq app sq k) = r_pc (rnq app sq k) + 1000 * sq.
  Proof. reflexivity. Qed.

  Lemma untag_rn_inv r k : untag_r r = rn app k -> r_seq r = r_pc r + 1000 * sq -> r = rnq app sq k.
  Proof.
    intros H Ht. apply (untag_r_inj sq); [exact Ht | apply rnq_tagged | rewrite untag_rnq; exact H].
  Qed.

  Lemma map_untag_rnq l : map untag_r (map (rnq app sq) l) = map (rn app) l.
  Proof. rewrite map_map. reflexivity. Qed.

  Lemma rnq_all_tagged l : Forall (Tagged sq) (map (rnq app sq) l).
  Proof. apply Forall_forall. intros r Hr. apply in_map_iff in Hr as (k & <- & _). apply rnq_tagged. Qed.

  (* a tagged list that is a list of rn's once untagged is the list of the rnq's *)
  Lemma untag_map_rn_inv l ks : Forall (Tagged sq) l -> map untag_r l = map (rn app) ks -> l = map (rnq app sq) ks.
  Proof.
    intros H E. apply (untag_map_inj sq); [exact H | apply rnq_all_tagged | rewrite map_untag_rnq; exact E].
  Qed.
End Runners.

(* ------------------------------------------------------------------ *)
(* FrontI at a base: the plain versions of Mvp63RefInv.front_minc / front_cq / FrontI_cu and of
   Mvp63RefStep.FrontI_frame / front_cl_len (those are stated at base 0 inside the straight-line sections) *)

Definition connm (m : mach) (c : Z) : mach :=
  set_wbus (set_cbus (set_dbus m (bb_connect (m_dbus m) c)) (bb_connect (m_cbus m) c)) (bb_connect (m_wbus m) c).

Lemma connected3_m x c : x_m (connected3 x c) = connm (x_m x) c.
Proof. reflexivity. Qed.

Lemma untag_connm m c : untag_m (connm m c) = connm (untag_m m) c.
Proof.
  unfold connm, untag_m. cbn [set_wbus set_cbus set_dbus m_regs m_mem m_pw m_pr m_l1i m_l3 m_pend m_fu m_dret m_dpbr m_cu m_bu m_dbus m_cbus m_ebus m_wbus].
  rewrite untag_connect. reflexivity.
Qed.

Lemma busok_new3 {T} cyc : BusOK cyc (@bb_new T 2 2).
Proof. constructor; try reflexivity; [unfold qlen, bb_new; cbn; lia | constructor]. Qed.

Section FrontB.
  Variables (app : list instr) (base : nat).
  Let n := length app.
  Let N := stop_from app base.
  Notation FrontI := (Mvp60RefStep.FrontI app base).
  Notation rn := (rn app).

  Lemma front_minc_b D c f cy m : FrontI D c f cy m -> (Nat.min c n <= S N)%nat.
  Proof using Type.
    intros H. destruct (m_dret m) eqn:E.
    - destruct (fr_dret_t _ _ _ _ _ _ _ H E) as (A & B & _). fold n N in A, B |- *. lia.
    - destruct (m_dpbr m) eqn:E2.
      + destruct (fr_dpbr_t _ _ _ _ _ _ _ H E2) as (A & B & _). fold n N in A, B |- *. lia.
      + pose proof (fr_flags_f _ _ _ _ _ _ _ H E E2) as A. fold n N in A |- *. lia.
  Qed.

  Lemma front_cq_b D c f cy m : FrontI D c f cy m -> m_cu m = [] ->
    bb_q (m_cbus m) = map rn (seq D (length (bb_q (m_cbus m)))) /\ (D + length (bb_q (m_cbus m)) <= Nat.min c n)%nat.
  Proof using Type.
    intros H Hcu. pose proof (fr_cl _ _ _ _ _ _ _ H) as Hcl. rewrite Hcu in Hcl. cbn [List.app] in Hcl. unfold flat in Hcl.
    destruct (seq_split rn _ _ _ _ Hcl) as (A & _ & B). fold n in B. split; [exact A|].
    pose proof (fr_dc _ _ _ _ _ _ _ H) as Hdc. fold n in Hdc. rewrite map_length in B. lia.
  Qed.

  Lemma FrontI_cu_b D c f cy m pw pr t : FrontI D c f cy m -> m_cu m = [] -> (t <= length (bb_q (m_cbus m)))%nat ->
    FrontI (D + t) c f cy
      (set_cbus (set_sb m pw pr) (mk_bb (bb_buf (m_cbus m)) (map rn (seq (D + t) (length (bb_q (m_cbus m)) - t)))
                                       (bb_ql (m_cbus m)) (bb_bl (m_cbus m)))).
  Proof using Type.
    intros H Hcu Ht. destruct (front_cq_b _ _ _ _ _ H Hcu) as [Hq Hle].
    pose proof H as [F1 Fc F2 F3 Fb F4 F5 F6 F7 F8 F9 Fbt F10 F11 F12 F13 F14].
    set (len := length (bb_q (m_cbus m))) in *.
    constructor; cbn [set_cbus set_sb m_fu m_l1i m_bu m_dbus m_cbus m_ebus m_wbus m_cu m_dret m_dpbr]; auto.
    - lia.
    - rewrite Hcu in *. cbn [List.app] in *. unfold flat in *. cbn [bb_q bb_buf]. rewrite Hq in F4. fold n in F4 |- *.
      destruct (seq_split rn _ _ _ _ F4) as (_ & B & C). rewrite map_length, seq_length in B, C. fold len in B, C. rewrite B.
      replace (D + len)%nat with (D + t + (len - t))%nat by lia. rewrite seq_join. f_equal. f_equal. lia.
    - fold n. lia.
    - apply busok_newq; [exact F11|]. unfold zlen. rewrite map_length, seq_length. pose proof (bus_q _ _ F11) as Hx.
      unfold qlen, zlen in Hx. fold len in Hx. lia.
  Qed.

  Lemma FrontI_frame_b D c f cy m m' : FrontI D c f cy m ->
    m_fu m' = m_fu m -> m_l1i m' = m_l1i m -> m_dret m' = m_dret m -> m_dpbr m' = m_dpbr m -> m_cu m' = m_cu m ->
    m_dbus m' = m_dbus m -> m_cbus m' = m_cbus m -> m_ebus m' = m_ebus m -> b_btb (m_bu m') = b_btb (m_bu m) ->
    BusOK cy (m_wbus m') -> FrontI D c f cy m'.
  Proof using Type.
    intros [F1 Fc F2 F3 Fb F4 F5 F6 F7 F8 F9 Fbt F10 F11 F12 F13 F14] E1 E2 E3 E4 E5 E6 E7 E8 E9 HW.
    constructor; rewrite ?E1, ?E2, ?E3, ?E4, ?E5, ?E6, ?E7, ?E8, ?E9; auto.
  Qed.

  Lemma front_cl_len_b D c f cy m : FrontI D c f cy m -> m_cu m = [] ->
    qlen (m_cbus m) + blen (m_cbus m) = Z.of_nat (Nat.min c n - D) /\ (D <= Nat.min c n)%nat.
  Proof using Type.
    intros H Hcu. pose proof (fr_cl _ _ _ _ _ _ _ H) as Hcl. rewrite Hcu in Hcl. cbn [List.app] in Hcl.
    apply (f_equal (@length _)) in Hcl. rewrite map_length, seq_length in Hcl. rewrite <- flat_len. unfold zlen. rewrite Hcl. fold n.
    split; [reflexivity | exact (fr_dc _ _ _ _ _ _ _ H)].
  Qed.

  (* the three Connect calls on the shared machine *)
  Lemma FrontI_connm D c f cyc m : FrontI D c f cyc m -> FrontI D c f cyc (connm m (cyc + 1)).
  Proof using Type.
    intros HF. pose proof HF as [F1 Fc F2 F3 Fb F4 F5 F6 F7 F8 F9 Fbt F10 F11 F12 F13 F14].
    destruct (connect_spec cyc (m_dbus m) F10) as (D1 & D2 & D3 & D4 & D5).
    destruct (connect_spec cyc (m_cbus m) F11) as (C1 & C2 & C3 & C4 & C5).
    destruct (connect_spec cyc (m_wbus m) F13) as (W1 & W2 & W3 & W4 & W5).
    unfold connm.
    constructor; cbn [set_wbus set_cbus set_dbus m_fu m_l1i m_dret m_dpbr m_cu m_bu m_dbus m_cbus m_ebus m_wbus];
      rewrite ?D1, ?C1; auto.
    intros Hc. destruct (Fc Hc) as [A B]. assert (Hx : flat (bb_connect (m_dbus m) (cyc + 1)) = []) by (rewrite D1; unfold flat; rewrite A, B; reflexivity).
    apply flat_nil_inv in Hx. tauto.
  Qed.
End FrontB.

(* ------------------------------------------------------------------ *)
(* the front end of one segment                                         *)

Section FwdFront.
  Variables (app : list instr) (labels : Z -> option Z) (regs0 : list Z) (base : nat) (sq : Z) (ord : Z -> Z -> list Z -> list Z).
  Hypothesis Happ : wf_app app.
  Hypothesis Hlen0 : (length regs0 <= 32)%nat.
  Hypothesis Hbase : (base <= length app)%nat.
  Hypothesis Hsq : 0 <= sq /\ 1000 * sq + 4 * Z.of_nat (length app) + 4 < 2147483648.
  Let n := length app.
  Let N := stop_from app base.

  Notation sreg := (sreg app labels regs0 base).
  Notation eff := (eff app labels regs0 base).
  Notation rn := (rn app).
  Notation rnq := (rnq app sq).
  Notation ik := (ik app).
  Notation FrontI := (Mvp60RefStep.FrontI app base).
  Notation phiF := (phiF app).

  Hypothesis Hsem : forall k, (base <= k <= N)%nat -> (k < n)%nat ->
    exec (sinstr_of (ik k)) (rget (sreg k)) labels (pcz k) [] = Ok (eff k) /\
    (forall a, etarget (eff k) = Some a -> exists t, a = pcz t /\ (k < t <= n)%nat).

  (* 1. ctx.SequenceID(pc) *)
  Lemma sequence_id_sq x k : x_seq x = sq -> (k < n)%nat -> sequence_id x (pcz k) = sid3 sq k.
  Proof using Hsq.
    intros Hs Hk. unfold n in Hk. unfold sequence_id, sid3, addS, mulS. rewrite Hs.
    assert (B0 : 0 < 32) by (clear; lia).
    assert (B1 : int32 (sq * 1000)) by (apply int32_bounds; clear - Hsq; lia).
    assert (B2 : int32 (pcz k + 1000 * sq)) by (apply int32_bounds; unfold pcz; clear - Hsq Hk; lia).
    rewrite (wrapS_id 32 (sq * 1000) B0 B1). rewrite (Z.mul_comm sq 1000). exact (wrapS_id 32 _ B0 B2).
  Qed.

  Lemma set_forward3_idq x pc : x_fwd x = repeat (0, 0) n -> set_forward3 x pc 0 0 = x.
  Proof using Type. intros H. unfold set_forward3. rewrite H, upd3_repeat, <- H. apply set_fwd3_same. Qed.

  (* 3. the decode unit *)
  Lemma du_loop3_untag cycle : forall l ret pbr cbus x, x_seq x = sq -> x_fwd x = repeat (0, 0) n -> TagOK sq cbus ->
    match du_loop (map pcz l) app cycle ret pbr (untag_b cbus) with
    | Ok (a, b, c, d) => exists cb, du_loop3 (map pcz l) app cycle ret pbr cbus x = Ok (a, b, c, cb, x) /\ untag_b cb = d /\ TagOK sq cb
    | Err e => du_loop3 (map pcz l) app cycle ret pbr cbus x = Err e
    | Panic => du_loop3 (map pcz l) app cycle ret pbr cbus x = Panic
    end.
  Proof using Hsq.
    induction l as [|k t IH]; intros ret pbr cbus x Hs Hf Ht; cbn [map du_loop3 du_loop].
    - exists cbus. auto.
    - rewrite pcz_quot. unfold nlen6. fold n.
      destruct (Z.leb_spec (Z.of_nat n) (Z.of_nat k)) as [Hout|Hin]; [exists cbus; auto|].
      destruct (Z.of_nat k <? 0); [reflexivity|]. destruct (nth_error app (Z.to_nat (Z.of_nat k))) as [i|]; [|reflexivity].
      cbv zeta. rewrite (set_forward3_idq x (pcz k) Hf).
      rewrite (sequence_id_sq x k Hs ltac:(clear - Hin; lia)).
      set (cb1 := bb_add cbus (mk_runner i (pcz k) (sid3 sq k)) cycle).
      assert (Hu : untag_b cb1 = bb_add (untag_b cbus) (mk_runner i (pcz k) (pcz k)) cycle) by (unfold cb1; apply untag_add).
      assert (Ht1 : TagOK sq cb1) by (unfold cb1; apply TagOK_add; [exact Ht | reflexivity]).
      rewrite <- Hu.
      destruct (InstructionType_IsUnconditionalBranch (instr_InstructionType i)); [exists cb1; auto|].
      destruct (instr_InstructionType i =? Ret); [exists cb1; auto|]. apply IH; assumption.
  Qed.

  (* NOTE: stated without the placeholder conjunct; "m3 and m' agree on every field except the tags of the
     control bus" is  untag_m m3 = m'. *)
  Lemma du_cycle3_untag cycle x l : x_seq x = sq -> x_fwd x = repeat (0, 0) n -> bb_q (m_dbus (x_m x)) = map pcz l ->
    TagOK sq (m_cbus (x_m x)) ->
    match du_cycle6 app cycle (untag_m (x_m x)) with
    | Ok m' => exists m3, du_cycle3 app cycle x = Ok (set_m x m3) /\ untag_m m3 = m' /\ TagOK sq (m_cbus m3)
    | Err e => du_cycle3 app cycle x = Err e
    | Panic => du_cycle3 app cycle x = Panic
    end.
  Proof using Hsq.
    intros Hs Hf Hq Ht. unfold du_cycle3, du_cycle6. rewrite untag_m_dret, untag_m_dpbr, untag_m_dbus, untag_m_cbus.
    destruct (m_dret (x_m x)); [exists (x_m x); rewrite set_m_same; auto|].
    destruct (m_dpbr (x_m x)); [exists (x_m x); rewrite set_m_same; auto|].
    rewrite Hq. pose proof (du_loop3_untag cycle l false false (m_cbus (x_m x)) x Hs Hf Ht) as HL.
    destruct (du_loop (map pcz l) app cycle false false (untag_b (m_cbus (x_m x)))) as [[[[a b] c] d]| |].
    - destruct HL as (cb & E & Hu & Ht'). rewrite E. cbn [bind].
      eexists. split; [reflexivity|]. split; [|exact Ht'].
      rewrite untag_set_cbus, Hu. reflexivity.
    - rewrite HL. reflexivity.
    - rewrite HL. reflexivity.
  Qed.

  Lemma du_cycle3_untag_ok cycle x l m' : x_seq x = sq -> x_fwd x = repeat (0, 0) n -> bb_q (m_dbus (x_m x)) = map pcz l ->
    TagOK sq (m_cbus (x_m x)) -> du_cycle6 app cycle (untag_m (x_m x)) = Ok m' ->
    exists m3, du_cycle3 app cycle x = Ok (set_m x m3) /\ untag_m m3 = m' /\ TagOK sq (m_cbus m3).
  Proof using Hsq.
    intros Hs Hf Hq Ht E. pose proof (du_cycle3_untag cycle x l Hs Hf Hq Ht) as H. rewrite E in H. exact H.
  Qed.

  (* 4. fetchUnit.cycle ; decodeUnit.cycle *)
  Lemma fd_ok3q d c f cyc x : FrontI d c f cyc (untag_m (x_m x)) -> TagOK sq (m_cbus (x_m x)) -> x_seq x = sq -> x_fwd x = repeat (0, 0) n ->
    exists fu1 l1i1 dbus1 m3 c' f',
      fu_cycle6 app (cyc + 1) (m_fu (x_m x)) (m_l1i (x_m x)) (m_dbus (x_m x)) = Ok (fu1, l1i1, dbus1) /\
      du_cycle3 app (cyc + 1) (set_m x (set_dbus (set_l1i (set_fu (x_m x) fu1) l1i1) dbus1)) = Ok (set_m x m3) /\
      FrontI d c' f' (cyc + 1) (untag_m m3) /\ TagOK sq (m_cbus m3) /\
      m_regs m3 = m_regs (x_m x) /\ m_mem m3 = m_mem (x_m x) /\ m_pw m3 = m_pw (x_m x) /\ m_pr m3 = m_pr (x_m x) /\ m_l3 m3 = m_l3 (x_m x) /\
      m_ebus m3 = m_ebus (x_m x) /\ m_wbus m3 = m_wbus (x_m x) /\ m_cu m3 = m_cu (x_m x) /\ bb_q (m_cbus m3) = bb_q (m_cbus (x_m x)) /\
      phiF (m_fu m3) + 10 * blen (m_dbus m3) + 9 * qlen (m_dbus m3) + 8 * blen (m_cbus m3)
        <= phiF (m_fu (x_m x)) + 10 * blen (m_dbus (x_m x)) + 9 * qlen (m_dbus (x_m x)) + 8 * blen (m_cbus (x_m x)) /\
      (phiF (m_fu m3) + 10 * blen (m_dbus m3) + 9 * qlen (m_dbus m3) + 8 * blen (m_cbus m3)
        < phiF (m_fu (x_m x)) + 10 * blen (m_dbus (x_m x)) + 9 * qlen (m_dbus (x_m x)) + 8 * blen (m_cbus (x_m x)) \/
       (((f_co (m_fu (x_m x)) = FDone /\ phiF (m_fu m3) = phiF (m_fu (x_m x)) /\ f_complete (m_fu m3) = f_complete (m_fu (x_m x))) \/
         (f_co (m_fu (x_m x)) = FNone /\ bb_canadd (m_dbus (x_m x)) = false)) /\
        (m_dret (x_m x) = true \/ m_dpbr (x_m x) = true \/ bb_q (m_dbus (x_m x)) = []))).
  Proof using Happ Hlen0 Hbase Hsq Hsem.
    intros HF Ht Hs Hf. set (m := x_m x) in *.
    destruct (fd_ok app labels regs0 base Happ Hlen0 Hbase Hsem d c f cyc (untag_m m) HF)
      as (m3' & c' & f' & E & HF' & R1 & R2 & R3 & R4 & R5 & R6 & R7 & R8 & R9 & P1 & P2).
    pose proof HF as [F1 Fc F2 F3 Fb F4 F5 F6 F7 F8 F9 Fbt F10 F11 F12 F13 F14].
    destruct (fu_ok app base Happ cyc f (m_fu m) (m_l1i m) (m_dbus m) F1 F10 Fc) as (fu' & l1i' & k & Efu & _).
    set (dbus1 := bus_push (m_dbus m) (cyc + 2) (map pcz (seq f k))) in *.
    assert (E' : du_cycle6 app (cyc + 1) (untag_m (set_dbus (set_l1i (set_fu m fu') l1i') dbus1)) = Ok m3').
    { rewrite untag_m_fu, untag_m_l1i, untag_m_dbus, Efu in E. exact E. }
    clear E.
    destruct (seq_split pcz (bb_q (m_dbus m)) (map snd (bb_buf (m_dbus m))) c (f - c) F2) as (Q1 & _ & _).
    set (x2 := set_m x (set_dbus (set_l1i (set_fu m fu') l1i') dbus1)).
    destruct (du_cycle3_untag_ok (cyc + 1) x2 (seq c (length (bb_q (m_dbus m)))) m3' Hs Hf Q1 Ht E') as (m3 & ED & Hu & Ht3).
    subst m3'.
    exists fu', l1i', dbus1, m3, c', f'.
    split; [exact Efu|]. split; [exact ED|]. split; [exact HF'|]. split; [exact Ht3|].
    split; [exact R1|]. split; [exact R2|]. split; [exact R3|]. split; [exact R4|]. split; [exact R5|].
    split; [exact R6|]. split; [exact R7|]. split; [exact R8|].
    rewrite !untag_m_cbus, !blen_untag in P1, P2.
    split; [|split; [exact P1 | exact P2]].
    rewrite !untag_m_cbus, !bb_q_untag in R9.
    apply (untag_map_inj sq); [apply TagOK_q; exact Ht3 | apply TagOK_q; exact Ht | exact R9].
  Qed.

  (* 5. the four Connect calls *)
  Lemma conn3_okq D c f cyc x : FrontI D c f cyc (untag_m (x_m x)) -> TagOK sq (m_cbus (x_m x)) -> BusOK cyc (x_ebus x) ->
    let x1 := connected3 x (cyc + 1) in
    FrontI D c f cyc (untag_m (x_m x1)) /\ TagOK sq (m_cbus (x_m x1)) /\ BusOK cyc (x_ebus x1) /\
    flat (x_ebus x1) = flat (x_ebus x) /\ flat (m_wbus (x_m x1)) = flat (m_wbus (x_m x)) /\
    m_fu (x_m x1) = m_fu (x_m x) /\ m_dret (x_m x1) = m_dret (x_m x) /\ m_dpbr (x_m x1) = m_dpbr (x_m x) /\ m_cu (x_m x1) = m_cu (x_m x) /\
    qlen (m_dbus (x_m x1)) + blen (m_dbus (x_m x1)) = qlen (m_dbus (x_m x)) + blen (m_dbus (x_m x)) /\ qlen (m_dbus (x_m x)) <= qlen (m_dbus (x_m x1)) /\
    qlen (m_cbus (x_m x1)) + blen (m_cbus (x_m x1)) = qlen (m_cbus (x_m x)) + blen (m_cbus (x_m x)) /\ qlen (m_cbus (x_m x)) <= qlen (m_cbus (x_m x1)) /\
    qlen (x_ebus x1) + blen (x_ebus x1) = qlen (x_ebus x) + blen (x_ebus x) /\ qlen (x_ebus x) <= qlen (x_ebus x1) /\
    (blen (m_dbus (x_m x1)) = 0 \/ qlen (m_dbus (x_m x1)) = 2) /\ (blen (m_cbus (x_m x1)) = 0 \/ qlen (m_cbus (x_m x1)) = 2) /\
    (blen (x_ebus x1) = 0 \/ qlen (x_ebus x1) = 2).
  Proof using Type.
    intros HF Ht HE. cbv zeta. pose proof HF as [F1 Fc F2 F3 Fb F4 F5 F6 F7 F8 F9 Fbt F10 F11 F12 F13 F14].
    set (m := x_m x) in *.
    assert (F11' : BusOK cyc (m_cbus m)) by (apply BusOK_untag; exact F11).
    destruct (connect_spec cyc (m_dbus m) F10) as (D1 & D2 & D3 & D4 & D5).
    destruct (connect_spec cyc (m_cbus m) F11') as (C1 & C2 & C3 & C4 & C5).
    destruct (connect_spec cyc (x_ebus x) HE) as (E1 & E2 & E3 & E4 & E5).
    destruct (connect_spec cyc (m_wbus m) F13) as (W1 & W2 & W3 & W4 & W5).
    assert (X : forall T (b : bbus T), bb_buf b = [] \/ qlen b = 2 -> blen b = 0 \/ qlen b = 2).
    { intros T b [A|A]; [left; unfold blen; rewrite A; reflexivity | right; exact A]. }
    split; [rewrite connected3_m, untag_connm; apply FrontI_connm; exact HF|].
    split; [rewrite connected3_m; unfold connm; cbn [set_wbus set_cbus m_cbus]; apply TagOK_connect; exact Ht|].
    unfold connected3. fold m. cbn [x_m x_ebus set_ebus3 set_m set_wbus set_cbus set_dbus m_fu m_dret m_dpbr m_cu m_dbus m_cbus m_wbus].
    split; [exact E2|]. split; [exact E1|]. split; [exact W1|].
    repeat split; auto; lia.
  Qed.

  (* 6. the control unit and the frame *)
  Lemma front_mincq D c f cy m : FrontI D c f cy (untag_m m) -> (Nat.min c n <= S N)%nat.
  Proof using Type. apply front_minc_b. Qed.

  (* the queue of the control bus is the head of the stream *)
  Lemma front_cqq D c f cy m : FrontI D c f cy (untag_m m) -> TagOK sq (m_cbus m) -> m_cu m = [] ->
    bb_q (m_cbus m) = map rnq (seq D (length (bb_q (m_cbus m)))) /\ (D + length (bb_q (m_cbus m)) <= Nat.min c n)%nat.
  Proof using Type.
    intros H Ht Hcu. destruct (front_cq_b app base _ _ _ _ _ H Hcu) as [A B]. fold n in B.
    rewrite untag_m_cbus, bb_q_untag, map_length in A, B. split; [|exact B].
    apply untag_map_rn_inv; [apply TagOK_q; exact Ht | exact A].
  Qed.

  (* the control unit took t runners from the queue of the control bus *)
  Lemma FrontI_cuq D c f cy m pw pr t : FrontI D c f cy (untag_m m) -> TagOK sq (m_cbus m) -> m_cu m = [] ->
    (t <= length (bb_q (m_cbus m)))%nat ->
    let m' := set_cbus (set_sb m pw pr) (mk_bb (bb_buf (m_cbus m)) (map rnq (seq (D + t) (length (bb_q (m_cbus m)) - t)))
                                                (bb_ql (m_cbus m)) (bb_bl (m_cbus m))) in
    FrontI (D + t) c f cy (untag_m m') /\ TagOK sq (m_cbus m').
  Proof using Type.
    intros H Ht Hcu Hle. cbv zeta. split.
    - assert (Hle' : (t <= length (bb_q (m_cbus (untag_m m))))%nat) by (rewrite untag_m_cbus, bb_q_untag, map_length; exact Hle).
      pose proof (FrontI_cu_b app base D c f cy (untag_m m) pw pr t H Hcu Hle') as H'.
      rewrite untag_m_cbus, bb_q_untag, map_length in H'.
      rewrite untag_set_cbus, untag_set_sb, untag_b_eq. cbn [bb_buf bb_q bb_ql bb_bl]. rewrite map_untag_rnq. exact H'.
    - cbn [set_cbus m_cbus]. apply TagOK_newq; [exact Ht | apply rnq_all_tagged].
  Qed.

  Lemma FrontI_frameq D c f cy m m' : FrontI D c f cy (untag_m m) ->
    m_fu m' = m_fu m -> m_l1i m' = m_l1i m -> m_dret m' = m_dret m -> m_dpbr m' = m_dpbr m -> m_cu m' = m_cu m ->
    m_dbus m' = m_dbus m -> m_cbus m' = m_cbus m -> m_ebus m' = m_ebus m -> b_btb (m_bu m') = b_btb (m_bu m) ->
    BusOK cy (m_wbus m') -> FrontI D c f cy (untag_m m').
  Proof using Type.
    intros H E1 E2 E3 E4 E5 E6 E7 E8 E9 HW.
    apply (FrontI_frame_b app base D c f cy (untag_m m) (untag_m m') H); try assumption.
    rewrite !untag_m_cbus, E7. reflexivity.
  Qed.

  Lemma front_cl_lenq D c f cy m : FrontI D c f cy (untag_m m) -> m_cu m = [] ->
    qlen (m_cbus m) + blen (m_cbus m) = Z.of_nat (Nat.min c n - D) /\ (D <= Nat.min c n)%nat.
  Proof using Type.
    intros H Hcu. destruct (front_cl_len_b app base _ _ _ _ _ H Hcu) as [A B].
    rewrite untag_m_cbus, qlen_untag, blen_untag in A. split; [exact A | exact B].
  Qed.
End FwdFront.

(* ------------------------------------------------------------------ *)
(* 7. a fresh state                                                     *)

Lemma fresh3_front app labels mem0 t sq R s : Fresh3 app labels mem0 t sq R s -> (t <= length app)%nat ->
  Mvp60RefStep.FrontI app t t t t (t_cycle s) (untag_m (x_m (t_x s))) /\ TagOK sq (m_cbus (x_m (t_x s))) /\ m_cu (x_m (t_x s)) = [].
Proof.
  intros HFr Ht. pose proof HFr as [H1 H2 H3 H4 H5 H6 H7 H8 H9 H10 H11 H12 H13 H14 H15 H16 H17 _ _ _ _ _ _ _ _ _ _ _ _ _ _ _].
  split; [|split; [rewrite H15; apply TagOK_new | exact H12]].
  constructor; rewrite ?untag_m_cbus, ?untag_m_fu, ?untag_m_l1i, ?untag_m_dret, ?untag_m_dpbr, ?untag_m_cu, ?untag_m_bu, ?untag_m_dbus,
    ?untag_m_ebus, ?untag_m_wbus, ?H14, ?H15, ?H16, ?H17, ?H12, ?untag_new; try apply busok_new3; auto; try lia.
  - constructor; auto.
    + rewrite H8. discriminate.
    + intros _. split; [lia | rewrite H8; discriminate].
    + rewrite H7. discriminate.
  - rewrite Nat.sub_diag. reflexivity.
  - replace (Nat.min t (length app) - t)%nat with O by lia. reflexivity.
  - intros _ _. pose proof (stop_from_ge app t). lia.
  - rewrite H10. discriminate.
  - rewrite H11. discriminate.
  - unfold blen, bb_new. cbn. lia.
Qed.

Lemma fresh3_phi app labels mem0 t sq R s : Fresh3 app labels mem0 t sq R s ->
  Mvp63RefStep.phiX app (t_x s) + 3 < Z.of_nat (400 * length app + 1600).
Proof.
  intros HFr. pose proof HFr as [H1 H2 H3 H4 H5 H6 H7 H8 H9 H10 H11 H12 H13 H14 H15 H16 H17 H18 H19 _ _ _ _ _ _ _ _ _ _ _ _ _].
  unfold phiX. rewrite H14, H15, H17, H18, H19. unfold phiF, phi_co. rewrite H6, H8.
  unfold blen, qlen, zlen, bb_new. cbn [bb_buf bb_q length]. unfold MemoryAccess, pcz. lia.
Qed.

Print Assumptions sequence_id_sq.
Print Assumptions untag_connect.
Print Assumptions BusOK_untag.
Print Assumptions du_cycle3_untag.
Print Assumptions fd_ok3q.
Print Assumptions conn3_okq.
Print Assumptions front_mincq.
Print Assumptions front_cqq.
Print Assumptions FrontI_cuq.
Print Assumptions FrontI_frameq.
Print Assumptions front_cl_lenq.
Print Assumptions fresh3_front.
Print Assumptions fresh3_phi.
