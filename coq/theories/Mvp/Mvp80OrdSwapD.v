(* Soundness of the ghost flag of the model of MVP-8.0, part 6 D: two l1WriteBack closures of one snoop list that are
   about the two different 64-byte halves of ONE L3 line commute (sn_swap_stmt of Mvp80OrdCommDefs.v). *)
From Coq Require Import ZArith List Bool Lia.
From Maj Require Import Base.Outcome Base.GoInt Base.GoTypes Isa.Spec Isa.Seq.
From Maj Require Import Gen.Latency Gen.RiscTables Gen.Opcodes Comp.Cache Comp.Rat Mvp.Mvp12 Mvp.Mvp3 Mvp.Mvp5 Mvp.Mvp60 Mvp.Mvp63 Mvp.Mvp80.
From Maj Require Import Mvp.Mvp80OrdSnoop Mvp.Mvp80OrdCache Mvp.Mvp80OrdInvDefs Mvp.Mvp80OrdCommDefs.
Import ListNotations.
Open Scope Z_scope.

(* ------------------------------------------------------------------ *)
(* 1. lists of bytes: a run of stores                                   *)
(* ------------------------------------------------------------------ *)

(* d[n] = v0; d[n+1] = v1; ... (stores beyond the end are dropped) *)
Fixpoint sb (d : list Z) (n : nat) (vs : list Z) : list Z :=
  match vs with
  | [] => d
  | v :: t => sb (upd d n v) (S n) t
  end.

Lemma upd_length : forall d n v, length (upd d n v) = length d.
Proof. induction d as [|x t IH]; intros [|n] v; cbn [upd length]; auto. Qed.

Lemma upd_oob : forall d n v, (length d <= n)%nat -> upd d n v = d.
Proof.
  induction d as [|x t IH]; intros [|n] v H; cbn [upd length] in *; try reflexivity; try lia.
  f_equal. apply IH. lia.
Qed.

Lemma upd_upd_comm : forall d i j x y, i <> j -> upd (upd d i x) j y = upd (upd d j y) i x.
Proof.
  induction d as [|h t IH]; intros [|i] [|j] x y H; cbn [upd]; try reflexivity; try congruence.
  f_equal. apply IH. congruence.
Qed.

Lemma sb_length : forall vs d n, length (sb d n vs) = length d.
Proof. induction vs as [|v t IH]; intros d n; cbn [sb]; [reflexivity|]. rewrite IH. apply upd_length. Qed.

Lemma sb_oob : forall vs d n, (length d <= n)%nat -> sb d n vs = d.
Proof.
  induction vs as [|v t IH]; intros d n H; cbn [sb]; [reflexivity|].
  rewrite upd_oob by exact H. apply IH. lia.
Qed.

Lemma sb_upd_comm : forall vs d m n v, (n < m \/ m + length vs <= n)%nat ->
  sb (upd d n v) m vs = upd (sb d m vs) n v.
Proof.
  induction vs as [|x t IH]; intros d m n v H; cbn [sb length] in *; [reflexivity|].
  rewrite (upd_upd_comm d n m) by lia. apply IH. lia.
Qed.

Lemma sb_sb_comm : forall va vb d n m, (n + length va <= m \/ m + length vb <= n)%nat ->
  sb (sb d n va) m vb = sb (sb d m vb) n va.
Proof.
  induction va as [|x t IH]; intros vb d n m H; cbn [sb length] in *; [reflexivity|].
  rewrite IH by lia. f_equal. apply sb_upd_comm. lia.
Qed.

Lemma zlen_upd : forall d n v, zlen (upd d n v) = zlen d.
Proof. intros. unfold zlen. rewrite upd_length. reflexivity. Qed.

Lemma zlen_sb : forall vs d n, zlen (sb d n vs) = zlen d.
Proof. intros. unfold zlen. rewrite sb_length. reflexivity. Qed.

Lemma seq_upd_eq : forall (d : list Z) n v, Seq.upd d n v = upd d n v.
Proof. induction d as [|x t IH]; intros [|n] v; cbn [Seq.upd upd]; try reflexivity. f_equal. apply IH. Qed.

(* write_to_memory at a non-negative address *)
Lemma write_to_memory_sb : forall d mem a, 0 <= a -> write_to_memory mem a d = Ok (sb mem (Z.to_nat a) d).
Proof.
  induction d as [|v t IH]; intros mem a Ha; cbn [write_to_memory sb]; [reflexivity|].
  destruct (Z.leb_spec (Z.of_nat (length mem)) a) as [H|H].
  - rewrite upd_oob by lia. rewrite sb_oob by lia. reflexivity.
  - destruct (Z.ltb_spec a 0); [lia|].
    rewrite IH by lia. unfold mset. rewrite seq_upd_eq. replace (Z.to_nat (a + 1)) with (S (Z.to_nat a)) by lia. reflexivity.
Qed.

(* Line.set in a loop, inside the line *)
Lemma set_bytes_sb : forall vs d lo_ a i,
  0 <= lo_ -> 0 <= a -> 0 <= i -> lo_ <= a + i -> a + i + zlen vs <= lo_ + zlen d -> a + i + zlen vs <= 2^31 ->
  set_bytes d lo_ a i vs = Ok (sb d (Z.to_nat (a + i - lo_)) vs).
Proof.
  induction vs as [|v t IH]; intros d lo_ a i H0 Ha H1 H2 H3 H4; cbn [set_bytes sb]; [reflexivity|].
  unfold zlen in H3, H4. cbn [length] in H3, H4.
  assert (E : subS 32 (addS 32 a (to_i32 i)) lo_ = a + i - lo_).
  { unfold subS, addS, to_i32.
    assert (E1 : wrapS 32 i = i) by (unfold wrapS; lia). rewrite E1.
    assert (E2 : wrapS 32 (a + i) = a + i) by (unfold wrapS; lia). rewrite E2.
    unfold wrapS; lia. }
  rewrite E. unfold idx_set.
  assert (R : (0 <=? a + i - lo_) && (a + i - lo_ <? zlen d) = true).
  { apply andb_true_iff. split; [apply Z.leb_le | apply Z.ltb_lt]; unfold zlen; lia. }
  rewrite R. cbn [bind].
  rewrite IH; unfold zlen; rewrite ?upd_length; try lia.
  replace (Z.to_nat (a + (i + 1) - lo_)) with (S (Z.to_nat (a + i - lo_))) by lia. reflexivity.
Qed.

(* ------------------------------------------------------------------ *)
(* 2. well-formed caches: the first covering line                       *)
(* ------------------------------------------------------------------ *)

Fixpoint fl (ls : list line) (a : Z) : option (line * list line) :=
  match ls with
  | [] => None
  | l :: t =>
      if covers l a then Some (l, t)
      else match fl t a with Some (l', t') => Some (l', l :: t') | None => None end
  end.

Lemma covers_range : forall n l a, 0 < n <= 2^30 -> wf_line n l -> covers l a = true ->
  lo l <= a < lo l + n /\ hi l = lo l + n /\ lo l + n < 2^31.
Proof.
  intros n l a Hn (L & R & Hh & Z) C. unfold covers in C. apply andb_true_iff in C. destruct C as [C1 C2].
  apply Z.leb_le in C1. apply Z.ltb_lt in C2. unfold addS, wrapS in Hh. lia.
Qed.

Lemma covers_intro : forall l a, lo l <= a < hi l -> covers l a = true.
Proof. intros l a H. unfold covers. apply andb_true_iff. split; [apply Z.leb_le | apply Z.ltb_lt]; lia. Qed.

Lemma find_line_fl : forall n ls a, 0 < n <= 2^30 -> Forall (wf_line n) ls ->
  find_line ls a =
  Ok (match fl ls a with
      | Some (l, t) => Some (nth (Z.to_nat (subS 32 a (lo l))) (data l) 0, l, t)
      | None => None
      end).
Proof.
  intros n ls a Hn. induction ls as [|l t IH]; intros W; [reflexivity|].
  inversion W as [|? ? Wl Wt]; subst. cbn [find_line fl]. unfold line_get. fold (covers l a).
  destruct (covers l a) eqn:C.
  - destruct (covers_range n l a Hn Wl C) as (R1 & R2 & R3). destruct Wl as (L & R & Hh & Zl).
    unfold idx_get.
    assert (E : subS 32 a (lo l) = a - lo l) by (unfold subS, wrapS; lia). rewrite E.
    assert (B : (0 <=? a - lo l) && (a - lo l <? zlen (data l)) = true).
    { apply andb_true_iff. split; [apply Z.leb_le | apply Z.ltb_lt]; lia. }
    rewrite B. reflexivity.
  - cbn [bind]. rewrite (IH Wt). cbn [bind]. destruct (fl t a) as [[l' t']|]; reflexivity.
Qed.

Lemma fl_some : forall ls a l r, fl ls a = Some (l, r) ->
  covers l a = true /\ In l ls /\ (forall x, In x r -> In x ls).
Proof.
  induction ls as [|h t IH]; intros a l r H; cbn [fl] in H; [discriminate|].
  destruct (covers h a) eqn:C.
  - inversion H; subst. split; [exact C|]. split; [left; reflexivity | intros x Hx; right; exact Hx].
  - destruct (fl t a) as [[l' t']|] eqn:F; [|discriminate]. inversion H; subst.
    destruct (IH a l t' F) as (A & B & D). split; [exact A|]. split; [right; exact B|].
    intros x [Hx|Hx]; [left; exact Hx | right; apply D; exact Hx].
Qed.

Lemma fl_some_wf : forall P ls a l r, Forall P ls -> fl ls a = Some (l, r) -> P l /\ Forall P r.
Proof.
  intros P ls a l r W H. destruct (fl_some ls a l r H) as (_ & B & D). rewrite Forall_forall in W.
  split; [apply W; exact B|]. apply Forall_forall. intros x Hx. apply W. apply D. exact Hx.
Qed.

Lemma fl_head : forall l t a, covers l a = true -> fl (l :: t) a = Some (l, t).
Proof. intros l t a C. cbn [fl]. rewrite C. reflexivity. Qed.

(* a miss stays a miss after the other address's line is removed *)
Lemma fl_none_rest : forall ls a b lb rb, fl ls a = None -> fl ls b = Some (lb, rb) -> fl rb a = None.
Proof.
  induction ls as [|h t IH]; intros a b lb rb Ha Hb; cbn [fl] in *; [discriminate|].
  destruct (covers h a) eqn:Ca; [discriminate|].
  destruct (fl t a) as [[l' t']|] eqn:Fa; [discriminate|].
  destruct (covers h b) eqn:Cb.
  - injection Hb as X1 X2. subst lb rb. exact Fa.
  - destruct (fl t b) as [[l'' t'']|] eqn:Fb; [|discriminate]. injection Hb as X1 X2. subst lb rb.
    cbn [fl]. rewrite Ca. rewrite (IH a b l'' t'' Fa Fb). reflexivity.
Qed.

(* two hits on different lines: removing one does not change what the other finds *)
Lemma fl_frame : forall ls a b la ra lb rb,
  (forall l, In l ls -> covers l a && covers l b = false) ->
  fl ls a = Some (la, ra) -> fl ls b = Some (lb, rb) ->
  exists rab, fl ra b = Some (lb, rab) /\ fl rb a = Some (la, rab).
Proof.
  induction ls as [|h t IH]; intros a b la ra lb rb D Ha Hb; cbn [fl] in *; [discriminate|].
  pose proof (D h (or_introl eq_refl)) as Dh.
  assert (Dt : forall l, In l t -> covers l a && covers l b = false) by (intros; apply D; right; assumption).
  destruct (covers h a) eqn:Ca, (covers h b) eqn:Cb; cbn [andb] in Dh; try discriminate.
  - injection Ha as X1 X2. subst la ra. destruct (fl t b) as [[l' t']|] eqn:Fb; [|discriminate].
    injection Hb as X1 X2. subst lb rb.
    exists t'. split; [reflexivity|]. cbn [fl]. rewrite Ca. reflexivity.
  - injection Hb as X1 X2. subst lb rb. destruct (fl t a) as [[l' t']|] eqn:Fa; [|discriminate].
    injection Ha as X1 X2. subst la ra.
    exists t'. split; [|reflexivity]. cbn [fl]. rewrite Cb. reflexivity.
  - destruct (fl t a) as [[l1 t1]|] eqn:Fa; [|discriminate]. injection Ha as X1 X2. subst la ra.
    destruct (fl t b) as [[l2 t2]|] eqn:Fb; [|discriminate]. injection Hb as X1 X2. subst lb rb.
    destruct (IH a b l1 t1 l2 t2 Dt Fa Fb) as (rab & E1 & E2).
    exists (h :: rab). cbn [fl]. rewrite Ca, Cb, E1, E2. split; reflexivity.
Qed.

(* lines that cover the same addresses *)
Lemma fl_same_cover : forall ls a b, (forall l, In l ls -> covers l a = covers l b) -> fl ls a = fl ls b.
Proof.
  induction ls as [|h t IH]; intros a b H; cbn [fl]; [reflexivity|].
  rewrite (H h (or_introl eq_refl)). rewrite (IH a b) by (intros; apply H; right; assumption). reflexivity.
Qed.

(* the cache operations on a well-formed cache *)
Lemma get_fl : forall n c a, 0 < n <= 2^30 -> Forall (wf_line n) (lines c) ->
  get c a = Ok (match fl (lines c) a with
                | Some (l, r) => (set_lines c (l :: r), Some (nth (Z.to_nat (subS 32 a (lo l))) (data l) 0))
                | None => (c, None)
                end).
Proof.
  intros n c a Hn W. unfold get. rewrite (find_line_fl n _ a Hn W). cbn [bind].
  destruct (fl (lines c) a) as [[l r]|]; reflexivity.
Qed.

Lemma get_cache_line_fl : forall n c a, 0 < n <= 2^30 -> Forall (wf_line n) (lines c) ->
  get_cache_line c a = Ok (match fl (lines c) a with Some (l, _) => Some (data l) | None => None end).
Proof.
  intros n c a Hn W. unfold get_cache_line. rewrite (find_line_fl n _ a Hn W). cbn [bind].
  destruct (fl (lines c) a) as [[l r]|]; reflexivity.
Qed.

Lemma evict_fl : forall n c a, 0 < n <= 2^30 -> Forall (wf_line n) (lines c) ->
  evict_cache_line c a = Ok (match fl (lines c) a with
                             | Some (l, r) => (set_lines c r, Some (data l))
                             | None => (c, None)
                             end).
Proof.
  intros n c a Hn W. unfold evict_cache_line. rewrite (find_line_fl n _ a Hn W). cbn [bind].
  destruct (fl (lines c) a) as [[l r]|]; reflexivity.
Qed.

(* ------------------------------------------------------------------ *)
(* 3. the addresses of l1WriteBack closures                             *)
(* ------------------------------------------------------------------ *)

Definition aok (a : Z) : Prop := 0 <= a /\ a + 64 <= 2^31 /\ a mod 64 = 0.

Lemma l1_hit_addr : forall l a, wf_line 64 l -> covers l a = true -> l1_align a = a -> a = lo l /\ aok a.
Proof.
  intros l a W C A. destruct (covers_range 64 l a ltac:(lia) W C) as (R1 & R2 & R3).
  destruct W as (L & R & Hh & Zl). rewrite Z.rem_mod_nonneg in R by lia.
  unfold l1_align, align8, subS, remS, l1dLineSize in A. rewrite Z.rem_mod_nonneg in A by lia.
  assert (E : a mod 64 = 0) by (unfold wrapS in A; lia).
  assert (a = lo l) by lia. split; [assumption|]. unfold aok. lia.
Qed.

Lemma l3_align_ok : forall a, aok a -> l3_align a = a - a mod 128.
Proof.
  intros a (A1 & A2 & A3). unfold l3_align, align8, subS, remS, l3LineSize8.
  rewrite Z.rem_mod_nonneg by lia. unfold wrapS. lia.
Qed.

Lemma l3_cover_off : forall l a, wf_line 128 l -> covers l a = true -> aok a ->
  (a = lo l \/ a = lo l + 64) /\ l3_align a = lo l /\ hi l = lo l + 128.
Proof.
  intros l a W C K. destruct (covers_range 128 l a ltac:(lia) W C) as (R1 & R2 & R3).
  rewrite (l3_align_ok a K). destruct K as (A1 & A2 & A3).
  destruct W as (L & R & Hh & Zl). rewrite Z.rem_mod_nonneg in R by lia. lia.
Qed.

Lemma l3_cover_same1 : forall l a b, wf_line 128 l -> aok a -> aok b -> l3_align a = l3_align b ->
  covers l a = true -> covers l b = true.
Proof.
  intros l a b W Ka Kb E C. destruct (l3_cover_off l a W C Ka) as (_ & A & Hh).
  rewrite E, (l3_align_ok b Kb) in A. destruct Kb as (B1 & B2 & B3).
  apply covers_intro. lia.
Qed.

Lemma l3_cover_same : forall l a b, wf_line 128 l -> aok a -> aok b -> l3_align a = l3_align b ->
  covers l a = covers l b.
Proof.
  intros l a b W Ka Kb E. destruct (covers l a) eqn:Ca, (covers l b) eqn:Cb; try reflexivity.
  - rewrite (l3_cover_same1 l a b W Ka Kb E Ca) in Cb. discriminate.
  - rewrite (l3_cover_same1 l b a W Kb Ka (eq_sym E) Cb) in Ca. discriminate.
Qed.

(* Write of a 64-byte half into the line at the front *)
Lemma write_head : forall c l r a vs, lines c = l :: r -> wf_line 128 l -> covers l a = true -> aok a -> zlen vs = 64 ->
  write c a vs = Ok (set_lines c (mkLine (lo l) (hi l) (sb (data l) (Z.to_nat (a - lo l)) vs) :: r)).
Proof.
  intros c l r a vs E W C K Zv. destruct (l3_cover_off l a W C K) as (O & _ & _).
  destruct (covers_range 128 l a ltac:(lia) W C) as (R1 & R2 & R3).
  unfold write. rewrite E. cbn [write_lines]. unfold line_get. fold (covers l a). rewrite C.
  destruct W as (L & R & Hh & Zl). destruct K as (A1 & A2 & A3).
  unfold idx_get.
  assert (E1 : subS 32 a (lo l) = a - lo l) by (unfold subS, wrapS; lia). rewrite E1.
  assert (B : (0 <=? a - lo l) && (a - lo l <? zlen (data l)) = true).
  { apply andb_true_iff. split; [apply Z.leb_le | apply Z.ltb_lt]; lia. }
  rewrite B. cbn [bind].
  rewrite set_bytes_sb by lia. cbn [bind]. replace (a + 0 - lo l) with (a - lo l) by lia. reflexivity.
Qed.

(* ------------------------------------------------------------------ *)
(* 4. one call of an l1WriteBack closure, in terms of the first covering lines *)
(* ------------------------------------------------------------------ *)

Definition wb_nf (w : mw) (c : cc8) (key : cmdk) (cid c1 c2 c3 : Z) : outcome (mw * cc8 * option snoop_cl) :=
  match fl (lines (c_l1d c)) (ck_addr key) with
  | None => Panic
  | Some (la, r1) =>
      match fl (lines (w_l3 w)) (ck_addr key) with
      | None =>
          if 0 <? c2 then Ok (set_wl3 w (w_l3 w), c, Some (SnL1WriteBack key cid c1 (c2 - 1) c3)) else
          Ok (mk_mw (sb (w_mem w) (Z.to_nat (ck_addr key)) (data la)) (w_l3 w) (cmd_done (w_msi w) key cid),
              set_l1d c (set_lines (c_l1d c) r1), None)
      | Some (l, r3) =>
          if 0 <? c3 then Ok (set_wl3 w (set_lines (w_l3 w) (l :: r3)), c, Some (SnL1WriteBack key cid c1 c2 (c3 - 1))) else
          Ok (mk_mw (w_mem w)
                    (set_lines (w_l3 w) (mkLine (lo l) (hi l) (sb (data l) (Z.to_nat (ck_addr key - lo l)) (data la)) :: r3))
                    (cmd_done (set_l3write (w_msi w) (aset (l3_align (ck_addr key)) true (k_l3write (w_msi w)))) key cid),
              set_l1d c (set_lines (c_l1d c) r1), None)
      end
  end.

Lemma sn_step_nf : forall w c key cid c1 c2 c3,
  Forall (wf_line 64) (lines (c_l1d c)) -> Forall (wf_line 128) (lines (w_l3 w)) ->
  (0 <? c1) = false -> l1_align (ck_addr key) = ck_addr key ->
  sn_step w c (SnL1WriteBack key cid c1 c2 c3) = wb_nf w c key cid c1 c2 c3.
Proof.
  intros w c key cid c1 c2 c3 W1 W3 C1 A. unfold sn_step, wb_nf. cbv zeta. rewrite C1.
  rewrite (get_cache_line_fl 64) by (try lia; exact W1). cbn [bind].
  destruct (fl (lines (c_l1d c)) (ck_addr key)) as [[la r1]|] eqn:F1; [|reflexivity].
  destruct (fl_some _ _ _ _ F1) as (Ca & _ & _).
  destruct (fl_some_wf _ _ _ _ _ W1 F1) as (Wla & Wr1).
  destruct (l1_hit_addr la _ Wla Ca A) as (Ea & Ka).
  rewrite (get_fl 128) by (try lia; exact W3). cbn [bind].
  destruct (fl (lines (w_l3 w)) (ck_addr key)) as [[l r3]|] eqn:F3.
  - destruct (0 <? c3); [reflexivity|].
    destruct (fl_some _ _ _ _ F3) as (C3 & _ & _).
    destruct (fl_some_wf _ _ _ _ _ W3 F3) as (Wl & Wr3).
    unfold cc_write_l3. cbn [w_l3 w_mem w_msi set_wl3].
    rewrite (write_head _ l r3 _ (data la)); [| reflexivity | exact Wl | exact C3 | exact Ka | apply Wla].
    cbn [bind]. rewrite (evict_fl 64) by (try lia; exact W1). rewrite F1. cbn [bind fst snd set_wmsi w_mem w_l3 w_msi].
    reflexivity.
  - destruct (0 <? c2); [reflexivity|].
    rewrite write_to_memory_sb by apply Ka. cbn [bind].
    rewrite (evict_fl 64) by (try lia; exact W1). rewrite F1. cbn [bind fst snd]. reflexivity.
Qed.

(* ------------------------------------------------------------------ *)
(* 5. the directory                                                     *)
(* ------------------------------------------------------------------ *)

Lemma aset_idem : forall (m : list (Z * bool)) k v, aset k v (aset k v m) = aset k v m.
Proof.
  induction m as [|[k' v'] t IH]; intros k v; cbn [aset].
  - rewrite Z.eqb_refl. reflexivity.
  - destruct (k =? k') eqn:E; cbn [aset].
    + rewrite Z.eqb_refl. reflexivity.
    + rewrite E, IH. reflexivity.
Qed.

Lemma set_l3write_cmd_done : forall k key cid m,
  set_l3write (cmd_done k key cid) m = cmd_done (set_l3write k m) key cid.
Proof. intros k key cid m. unfold cmd_done. destruct (_ || _); reflexivity. Qed.

Lemma k_l3write_cmd_done : forall k key cid, k_l3write (cmd_done k key cid) = k_l3write k.
Proof. intros k key cid. unfold cmd_done. destruct (_ || _); reflexivity. Qed.

Lemma key_aligned_wb : forall k, ck_req k = rq_l1WriteBack -> key_aligned k -> l1_align (ck_addr k) = ck_addr k.
Proof. intros k E H. unfold key_aligned, is_l1_req in H. rewrite E in H. exact H. Qed.

Lemma is_l1_req_wb : forall k, ck_req k = rq_l1WriteBack -> is_l1_req k = true.
Proof. intros k E. unfold is_l1_req. rewrite E. reflexivity. Qed.

Lemma conflict_wb : forall k1 k2, ck_req k1 = rq_l1WriteBack -> ck_req k2 = rq_l1WriteBack ->
  sn_conflict k1 k2 = false -> l3_align (ck_addr k1) = l3_align (ck_addr k2).
Proof.
  intros k1 k2 E1 E2 H. unfold sn_conflict in H. rewrite E1, E2 in H.
  change (negb (l3_align (ck_addr k1) =? l3_align (ck_addr k2)) = false) in H.
  apply negb_false_iff in H. apply Z.eqb_eq in H. exact H.
Qed.

(* ------------------------------------------------------------------ *)
(* 6. the swap                                                          *)
(* ------------------------------------------------------------------ *)

Lemma wf_line_sb : forall l n vs, wf_line 128 l -> wf_line 128 (mkLine (lo l) (hi l) (sb (data l) n vs)).
Proof. intros l n vs (A & B & C & D). unfold wf_line. cbn [lo hi data]. rewrite zlen_sb. auto. Qed.

Ltac step2 :=
  rewrite sn_step_nf by
    (cbn [w_l3 w_mem w_msi set_wl3 c_l1d set_l1d lines set_lines];
     first [assumption | constructor; [apply wf_line_sb; assumption | assumption]]).

Ltac simp2 :=
  cbn [bind fst snd w_l3 w_mem w_msi set_wl3 c_l1d set_l1d lines set_lines].

(* a closure that only counts commutes with everything *)
Lemma swap_idle_l : forall x y o w c, (forall w c, sn_step w c x = Ok (w, c, o)) ->
  orel_sw sn2_swapped (sn2 w c x y) (sn2 w c y x).
Proof.
  intros x y o w c H. unfold sn2. rewrite H. cbn [bind fst snd].
  destruct (sn_step w c y) as [[[w' c'] o']| e |]; cbn [bind fst snd].
  - rewrite H. cbn [bind fst snd orel_sw]. unfold sn2_swapped. cbn [fst snd].
    repeat split.
  - reflexivity.
  - exact I.
Qed.

Lemma swap_idle_r : forall x y o w c, (forall w c, sn_step w c y = Ok (w, c, o)) ->
  orel_sw sn2_swapped (sn2 w c x y) (sn2 w c y x).
Proof.
  intros x y o w c H. unfold sn2. rewrite H. cbn [bind fst snd].
  destruct (sn_step w c x) as [[[w' c'] o']| e |]; cbn [bind fst snd].
  - rewrite H. cbn [bind fst snd orel_sw]. unfold sn2_swapped. cbn [fst snd].
    repeat split.
  - reflexivity.
  - exact I.
Qed.

Theorem swap_W1_W1 : forall k1 c1 x1 y1 z1 k2 c2 x2 y2 z2,
  sn_swap_stmt (SnL1WriteBack k1 c1 x1 y1 z1) (SnL1WriteBack k2 c2 x2 y2 z2).
Proof.
  intros k1 cid1 x1 y1 z1 k2 cid2 x2 y2 z2 w c MW CC Ux Uy Cxy.
  destruct (0 <? x1) eqn:X1.
  { apply (swap_idle_l _ _ (Some (SnL1WriteBack k1 cid1 (x1 - 1) y1 z1))). intros w' c'. cbn [sn_step]. rewrite X1. reflexivity. }
  destruct (0 <? x2) eqn:X2.
  { apply (swap_idle_r _ _ (Some (SnL1WriteBack k2 cid2 (x2 - 1) y2 z2))). intros w' c'. cbn [sn_step]. rewrite X2. reflexivity. }
  destruct Ux as (Kx & Ix & Ax & Px). destruct Uy as (Ky & Iy & Ay & Py). destruct Cxy as (Cf & Ne).
  cbn [sn_kind_ok sn_key sn_isl1] in *.
  specialize (Px eq_refl). specialize (Py eq_refl). specialize (Ne eq_refl eq_refl).
  pose proof (key_aligned_wb k1 Kx Ax) as Aa. pose proof (key_aligned_wb k2 Ky Ay) as Ab.
  pose proof (conflict_wb k1 k2 Kx Ky Cf) as E3.
  destruct MW as ((_ & W3) & _). destruct CC as ((_ & W1) & _).
  unfold l1dLineSize in W1. unfold l3LineSize8 in W3.
  set (a := ck_addr k1) in *. set (b := ck_addr k2) in *.
  unfold sn2.
  rewrite (sn_step_nf w c k1 cid1 x1 y1 z1 W1 W3 X1 Aa).
  rewrite (sn_step_nf w c k2 cid2 x2 y2 z2 W1 W3 X2 Ab).
  unfold wb_nf. fold a. fold b.
  destruct (fl (lines (c_l1d c)) a) as [[la ra]|] eqn:F1a; destruct (fl (lines (c_l1d c)) b) as [[lb rb]|] eqn:F1b.
  - (* both lines are in the L1 *)
    destruct (fl_some _ _ _ _ F1a) as (C1a & _ & _). destruct (fl_some_wf _ _ _ _ _ W1 F1a) as (Wla & Wra).
    destruct (fl_some _ _ _ _ F1b) as (C1b & _ & _). destruct (fl_some_wf _ _ _ _ _ W1 F1b) as (Wlb & Wrb).
    destruct (l1_hit_addr la a Wla C1a Aa) as (Ea & Ka). destruct (l1_hit_addr lb b Wlb C1b Ab) as (Eb & Kb).
    assert (D : forall l, In l (lines (c_l1d c)) -> covers l a && covers l b = false).
    { intros l Hl. rewrite Forall_forall in W1. specialize (W1 l Hl).
      destruct (covers l a) eqn:Ca, (covers l b) eqn:Cb; try reflexivity. exfalso.
      destruct (l1_hit_addr l a W1 Ca Aa) as (E1 & _). destruct (l1_hit_addr l b W1 Cb Ab) as (E2 & _). congruence. }
    destruct (fl_frame _ a b la ra lb rb D F1a F1b) as (rab & E1 & E2).
    assert (F3 : fl (lines (w_l3 w)) b = fl (lines (w_l3 w)) a).
    { apply fl_same_cover. intros l Hl. rewrite Forall_forall in W3. apply l3_cover_same; auto. }
    rewrite F3.
    destruct (fl (lines (w_l3 w)) a) as [[l r3]|] eqn:F3a.
    + (* both hit the same L3 line *)
      destruct (fl_some _ _ _ _ F3a) as (C3a & _ & _). destruct (fl_some_wf _ _ _ _ _ W3 F3a) as (Wl & Wr3).
      pose proof (l3_cover_same1 l a b Wl Ka Kb E3 C3a) as C3b.
      destruct (l3_cover_off l a Wl C3a Ka) as (Oa & La & _). destruct (l3_cover_off l b Wl C3b Kb) as (Ob & Lb & _).
      assert (Wlr : Forall (wf_line 128) (l :: r3)) by (constructor; assumption).
      destruct (0 <? z1) eqn:Z1; destruct (0 <? z2) eqn:Z2; simp2; step2; unfold wb_nf; simp2; fold a; fold b;
        rewrite ?E1, ?E2, ?F1a, ?F1b; rewrite !fl_head by assumption; rewrite ?Z1, ?Z2; simp2;
        step2; unfold wb_nf; simp2; fold a; fold b;
        rewrite ?E1, ?E2, ?F1a, ?F1b; rewrite !fl_head by assumption; rewrite ?Z1, ?Z2; simp2;
        cbn [orel_sw]; unfold sn2_swapped; simp2; cbn [lo hi data]; try solve [repeat split].
      split; [reflexivity|]. split; [|split; [|repeat split]].
      * rewrite (sb_sb_comm (data la) (data lb)); [reflexivity|].
        destruct Wla as (_ & _ & _ & Zla). destruct Wlb as (_ & _ & _ & Zlb). unfold zlen in Zla, Zlb. lia.
      * rewrite !k_l3write_cmd_done, !set_l3write_cmd_done. rewrite La, Lb.
        cbn [k_l3write set_l3write k_sems k_states k_stale k_cmds k_done k_next k_l3lock].
        rewrite aset_idem.
        apply cmd_done_comm; intros _; cbn [k_states]; [rewrite Ix | rewrite Iy]; assumption.
    + (* both miss the L3 *)
      destruct (0 <? y1) eqn:Y1; destruct (0 <? y2) eqn:Y2; simp2; step2; unfold wb_nf; simp2; fold a; fold b;
        rewrite ?E1, ?E2, ?F1a, ?F1b, ?F3a, ?F3; rewrite ?Y1, ?Y2; simp2;
        step2; unfold wb_nf; simp2; fold a; fold b;
        rewrite ?E1, ?E2, ?F1a, ?F1b, ?F3a, ?F3; rewrite ?Y1, ?Y2; simp2;
        cbn [orel_sw]; unfold sn2_swapped; simp2; try solve [repeat split].
      split; [|split; [reflexivity|split; [|repeat split]]].
      * apply sb_sb_comm.
        destruct Wla as (_ & _ & _ & Zla). destruct Wlb as (_ & _ & _ & Zlb). unfold zlen in Zla, Zlb.
        destruct Ka as (? & ? & ?). destruct Kb as (? & ? & ?). lia.
      * apply cmd_done_comm; intros _; [rewrite Ix | rewrite Iy]; assumption.
  - (* the line of the second closure is not in the L1: panic("memory address should exist") in both orders *)
    destruct (fl_some_wf _ _ _ _ _ W1 F1a) as (Wla & Wra).
    pose proof (fl_none_rest _ b a la ra F1b F1a) as Nb.
    destruct (fl (lines (w_l3 w)) a) as [[l r3]|] eqn:F3a.
    + destruct (fl_some_wf _ _ _ _ _ W3 F3a) as (Wl & Wr3).
      assert (Wlr : Forall (wf_line 128) (l :: r3)) by (constructor; assumption).
      destruct (0 <? z1) eqn:Z1; simp2; step2; unfold wb_nf; simp2; fold a; fold b;
        rewrite ?Nb, ?F1b; cbn [bind orel_sw]; exact I.
    + destruct (0 <? y1) eqn:Y1; simp2; step2; unfold wb_nf; simp2; fold a; fold b;
        rewrite ?Nb, ?F1b; cbn [bind orel_sw]; exact I.
  - (* the line of the first closure is not in the L1 *)
    destruct (fl_some_wf _ _ _ _ _ W1 F1b) as (Wlb & Wrb).
    pose proof (fl_none_rest _ a b lb rb F1a F1b) as Na.
    destruct (fl (lines (w_l3 w)) b) as [[l r3]|] eqn:F3b.
    + destruct (fl_some_wf _ _ _ _ _ W3 F3b) as (Wl & Wr3).
      assert (Wlr : Forall (wf_line 128) (l :: r3)) by (constructor; assumption).
      destruct (0 <? z2) eqn:Z2; simp2; step2; unfold wb_nf; simp2; fold a; fold b;
        rewrite ?Na, ?F1a; cbn [bind orel_sw]; exact I.
    + destruct (0 <? y2) eqn:Y2; simp2; step2; unfold wb_nf; simp2; fold a; fold b;
        rewrite ?Na, ?F1a; cbn [bind orel_sw]; exact I.
  - cbn [bind orel_sw]. exact I.
Qed.

Print Assumptions swap_W1_W1.
