(* H: faithful cycle-level model of proc/mvp4 (the five-stage in-order pipeline:
   fetch unit, decode unit, execute unit with the simple branch unit, write
   unit, SimpleBus latches, scoreboard of pending writes, L1I/L1D caches and
   the memory management unit shared with MVP-3).  One Gallina step per
   iteration of the Go Run loop ("cycle").  The model is tied to the Go code by
   exact equality of (cycles, registers, memory) on every generated program
   (lib/vf/c12.py, c01.py); no theorem about it is claimed yet beyond what the
   correspondence gives. *)
From Coq Require Import ZArith List Bool Lia.
From Maj Require Import Base.Outcome Base.GoInt Base.GoTypes Isa.Spec Isa.Seq.
From Maj Require Import Gen.Latency Gen.RiscTables Gen.Opcodes Comp.Cache Mvp.Mvp12 Mvp.Mvp3.
Import ListNotations.
Open Scope Z_scope.

(* comp.SimpleBus *)
Record sbus (T : Type) := mk_sbus { sb_pending : option T; sb_current : option T }.
Arguments mk_sbus {T}. Arguments sb_pending {T}. Arguments sb_current {T}.
Definition sbus_empty {T} : sbus T := mk_sbus None None.
Definition sbus_get {T} (b : sbus T) : sbus T * option T := (mk_sbus None (sb_pending b), sb_current b).
Definition sbus_can_add {T} (b : sbus T) : bool := match sb_pending b with None => true | Some _ => false end.
Definition sbus_add {T} (b : sbus T) (t : T) : sbus T := mk_sbus (Some t) (sb_current b).
Definition sbus_is_empty {T} (b : sbus T) : bool :=
  match sb_pending b, sb_current b with None, None => true | _, _ => false end.

Record fu_t := mk_fu { fu_pc : Z; fu_remaining : Z; fu_complete : bool; fu_processing : bool }.
Record eu_t := mk_eu { eu_processing : bool; eu_pending_read : bool; eu_addrs : list Z;
                       eu_memory : option (list Z); eu_remaining : Z; eu_runner : option (instr * Z) }.
Record wu_t := mk_wu { wu_pending : bool; wu_cycles : Z }.
Record bu_t := mk_bu { bu_to_check : bool; bu_expectation : Z }.

(* what travels on the write bus: the execution and the declared write registers *)
Definition wb_item := (execution * list Z)%type.

Record m4state := mk_m4 {
  s_regs : list Z; s_mem : list Z; s_pw : list Z;           (* ctx.Registers, ctx.Memory, ctx.PendingWriteRegisters *)
  s_l1i : cache; s_l1d : cache;
  s_fu : fu_t; s_dbus : sbus Z; s_ebus : sbus (instr * Z); s_eu : eu_t;
  s_wbus : sbus wb_item; s_wu : wu_t; s_bu : bu_t }.

Definition pw_get (pw : list Z) (r : Z) : Z := nth (Z.to_nat r) pw 0.
Definition pw_add (pw : list Z) (rs : list Z) : list Z :=
  fold_left (fun p r => upd p (Z.to_nat r) (pw_get p r + 1)) rs pw.
Definition pw_del (pw : list Z) (rs : list Z) : list Z :=
  fold_left (fun p r => upd p (Z.to_nat r) (Z.max 0 (pw_get p r - 1))) rs pw.
(* IsWriteDataHazard *)
Definition pw_hazard (pw : list Z) (rs : list Z) : bool :=
  existsb (fun r => negb (r =? 0) && (0 <? pw_get pw r)) rs.

Definition nlen (app : list instr) : Z := Z.of_nat (length app).

(* fetchUnit.cycle *)
Definition fu_cycle (app : list instr) (f : fu_t) (l1i : cache) (dbus : sbus Z)
  : outcome (fu_t * cache * sbus Z) :=
  if fu_complete f then Ok (f, l1i, dbus) else
  r <- (if fu_processing f then Ok (f, l1i)
        else
          g <- get_all l1i [fu_pc f] [] ;;
          match g with
          | (c1, Some _) => Ok (mk_fu (fu_pc f) 1 (fu_complete f) true, c1)
          | (c1, None) =>
              p <- push_line c1 (fu_pc f) (repeat 0 (Z.to_nat l1LineSize)) ;;
              Ok (mk_fu (fu_pc f) MemoryAccess (fu_complete f) true, fst p)
          end) ;;
  let '(f1, c1) := r in
  let rem := fu_remaining f1 - 1 in
  if rem =? 0 then
    if negb (sbus_can_add dbus) then Ok (mk_fu (fu_pc f1) 1 (fu_complete f1) (fu_processing f1), c1, dbus)
    else
      let pc' := addS 32 (fu_pc f1) 4 in
      Ok (mk_fu pc' rem (nlen app <=? Z.quot pc' 4) false, c1, sbus_add dbus (fu_pc f1))
  else Ok (mk_fu (fu_pc f1) rem (fu_complete f1) (fu_processing f1), c1, dbus).

(* decodeUnit.cycle *)
Definition du_cycle (app : list instr) (dbus : sbus Z) (ebus : sbus (instr * Z))
  : outcome (sbus Z * sbus (instr * Z)) :=
  if negb (sbus_can_add ebus) then Ok (dbus, ebus) else
  let '(dbus', got) := sbus_get dbus in
  match got with
  | None => Ok (dbus', ebus)
  | Some pc =>
      if nlen app <=? Z.quot pc 4 then Ok (dbus', ebus)
      else if Z.quot pc 4 <? 0 then Panic
      else match nth_error app (Z.to_nat (Z.quot pc 4)) with
           | Some i => Ok (dbus', sbus_add ebus (i, pc))
           | None => Panic
           end
  end.

(* simpleBranchUnit *)
Definition bu_assert (b : bu_t) (i : instr) (pc : Z) : bu_t :=
  let ty := instr_InstructionType i in
  if InstructionType_IsUnconditionalBranch ty then mk_bu true (-1)
  else if InstructionType_IsConditionalBranch ty then mk_bu true (addS 32 pc 4)
  else b.
Definition bu_should_flush (b : bu_t) (pc : Z) : bu_t * bool :=
  if negb (bu_to_check b) then (b, false)
  else (mk_bu false (bu_expectation b), negb (bu_expectation b =? pc)).

(* result of executeUnit.cycle *)
Record eu_out := mk_euo { eo_flush : bool; eo_pc : Z; eo_ret : bool }.
Definition eu_none : eu_out := mk_euo false 0 false.

Record eu_env := mk_env { e_regs : list Z; e_mem : list Z; e_pw : list Z; e_l1d : cache;
                          e_eu : eu_t; e_wbus : sbus wb_item; e_bu : bu_t }.

(* executeUnit.run *)
Definition eu_run (labels : Z -> option Z) (env : eu_env) (i : instr) (pc : Z) (memory : list Z)
  : outcome (eu_env * eu_out) + err_class :=
  match instr_Run i (rget (e_regs env)) labels pc memory 0 with
  | Panic => inl Panic
  | Err e => inr e
  | Ok exe =>
      if Return exe then inl (Ok (env, mk_euo false 0 true)) else
      let eu1 := mk_eu false (eu_pending_read (e_eu env)) (eu_addrs (e_eu env)) (eu_memory (e_eu env))
                       (eu_remaining (e_eu env)) (eu_runner (e_eu env)) in
      let stored :=
        if MemoryChange exe then
          g <- get_all (e_l1d env) (map fst (MemoryChanges exe)) [] ;;
          match g with
          | (d2, Some _) =>
              let ch := sort_changes (MemoryChanges exe) in
              match ch with
              | [] => Panic
              | (a0, _) :: _ => d3 <- write d2 a0 (map snd ch) ;; Ok (d3, true)
              end
          | (d2, None) => Ok (d2, false)
          end
        else Ok (e_l1d env, false) in
      inl (r <- stored ;;
           let '(d', in_cache) := r in
           if in_cache then Ok (mk_env (e_regs env) (e_mem env) (e_pw env) d' eu1 (e_wbus env) (e_bu env), eu_none)
           else
             let wr := instr_WriteRegisters i in
             let wbus' := sbus_add (e_wbus env) (exe, wr) in
             let pw' := pw_add (e_pw env) wr in
             let '(bu', fl) := if PcChange exe then bu_should_flush (e_bu env) (NextPc exe) else (e_bu env, false) in
             Ok (mk_env (e_regs env) (e_mem env) pw' d' eu1 wbus' bu',
                 if fl then mk_euo true (NextPc exe) false else eu_none))
  end.

Definition clear_runner (e : eu_t) : eu_t :=
  mk_eu (eu_processing e) (eu_pending_read e) (eu_addrs e) (eu_memory e) (eu_remaining e) None.

(* executeUnit.cycle *)
Definition eu_cycle (labels : Z -> option Z) (env : eu_env) (ebus : sbus (instr * Z))
  : outcome (eu_env * sbus (instr * Z) * eu_out) + err_class :=
  let e := e_eu env in
  let with_eu env' e' := mk_env (e_regs env') (e_mem env') (e_pw env') (e_l1d env') e' (e_wbus env') (e_bu env') in
  if eu_pending_read e then
    let rem := eu_remaining e - 1 in
    if negb (rem =? 0) then
      inl (Ok (with_eu env (mk_eu (eu_processing e) true (eu_addrs e) (eu_memory e) rem (eu_runner e)), ebus, eu_none))
    else
      match eu_runner e with
      | None => inl Panic
      | Some (i, pc) =>
          let got :=
            match eu_memory e with
            | Some m => Ok (e_l1d env, e_mem env, m)
            | None =>
                match eu_addrs e with
                | [] => Panic
                | a0 :: _ =>
                    ln <- fetch_cache_line (e_mem env) a0 ;;
                    r2 <- push_line_to_l1d (e_l1d env) (e_mem env) a0 ln ;;
                    r3 <- get_all (fst r2) (eu_addrs e) [] ;;
                    match r3 with
                    | (d3, Some bytes) => Ok (d3, snd r2, bytes)
                    | (_, None) => Panic
                    end
                end
            end in
          match got with
          | Ok (d', mem', bytes) =>
              let e1 := mk_eu (eu_processing e) false (eu_addrs e) None rem (eu_runner e) in
              let env1 := mk_env (e_regs env) mem' (e_pw env) d' e1 (e_wbus env) (e_bu env) in
              match eu_run labels env1 i pc bytes with
              | inr er => inr er
              | inl (Ok (env2, o)) => inl (Ok (with_eu env2 (clear_runner (e_eu env2)), ebus, o))
              | inl (Err er) => inl (Err er)
              | inl Panic => inl Panic
              end
          | Err er => inl (Err er)
          | Panic => inl Panic
          end
      end
  else
    let '(e1, ebus1, have) :=
      if eu_processing e then (e, ebus, true)
      else
        let '(ebus', got) := sbus_get ebus in
        match got with
        | None => (e, ebus', false)
        | Some (i, pc) =>
            (mk_eu true false (eu_addrs e) (eu_memory e)
                   (match InstructionType_Cycles (instr_InstructionType i) with Ok c => c | _ => 0 end)
                   (Some (i, pc)), ebus', true)
        end in
    if negb have then inl (Ok (with_eu env e1, ebus1, eu_none)) else
    let rem := eu_remaining e1 - 1 in
    let e2 := mk_eu (eu_processing e1) (eu_pending_read e1) (eu_addrs e1) (eu_memory e1) rem (eu_runner e1) in
    if negb (rem =? 0) then inl (Ok (with_eu env e2, ebus1, eu_none)) else
    let stall := mk_eu (eu_processing e1) (eu_pending_read e1) (eu_addrs e1) (eu_memory e1) 1 (eu_runner e1) in
    if negb (sbus_can_add (e_wbus env)) then inl (Ok (with_eu env stall, ebus1, eu_none)) else
    match eu_runner e1 with
    | None => inl Panic
    | Some (i, pc) =>
        let bu' := bu_assert (e_bu env) i pc in
        let envb := mk_env (e_regs env) (e_mem env) (e_pw env) (e_l1d env) e2 (e_wbus env) bu' in
        if pw_hazard (e_pw env) (instr_ReadRegisters i) then inl (Ok (with_eu envb stall, ebus1, eu_none)) else
        let addrs := instr_MemoryRead i (rget (e_regs env)) 0 in
        match addrs with
        | _ :: _ =>
            match get_all (e_l1d env) addrs [] with
            | Ok (d1, Some bytes) =>
                inl (Ok (mk_env (e_regs env) (e_mem env) (e_pw env) d1
                                (mk_eu (eu_processing e1) true (eu_addrs e1) (Some bytes) L1Access (eu_runner e1))
                                (e_wbus env) bu', ebus1, eu_none))
            | Ok (d1, None) =>
                inl (Ok (mk_env (e_regs env) (e_mem env) (e_pw env) d1
                                (mk_eu (eu_processing e1) true addrs (eu_memory e1) MemoryAccess (eu_runner e1))
                                (e_wbus env) bu', ebus1, eu_none))
            | Err er => inl (Err er)
            | Panic => inl Panic
            end
        | [] =>
            match eu_run labels envb i pc [] with
            | inr er => inr er
            | inl (Ok (env2, o)) => inl (Ok (with_eu env2 (clear_runner (e_eu env2)), ebus1, o))
            | inl (Err er) => inl (Err er)
            | inl Panic => inl Panic
            end
        end
    end.

(* writeUnit.cycle *)
Definition wu_cycle (regs mem pw : list Z) (w : wu_t) (wbus : sbus wb_item)
  : outcome (list Z * list Z * list Z * wu_t * sbus wb_item) :=
  if wu_pending w then
    let c := wu_cycles w - 1 in
    Ok (regs, mem, pw, mk_wu (negb (c =? 0)) c, wbus)
  else
    let '(wbus', got) := sbus_get wbus in
    match got with
    | None => Ok (regs, mem, pw, w, wbus')
    | Some (exe, wr) =>
        if RegisterChange exe then
          Ok (rset regs (Register exe) (RegisterValue exe), mem, pw_del pw wr, w, wbus')
        else if MemoryChange exe then
          if negb (forallb (in_mem mem) (map fst (MemoryChanges exe))) then Panic
          else Ok (regs, mset_all mem (MemoryChanges exe), pw, mk_wu true MemoryAccess, wbus')
        else Ok (regs, mem, pw, w, wbus')
    end.

Definition zero_pw : list Z := repeat 0 32.

Definition m4_is_complete (s : m4state) : bool :=
  fu_complete (s_fu s) && negb (eu_processing (s_eu s)) && negb (wu_pending (s_wu s)) &&
  sbus_is_empty (s_dbus s) && sbus_is_empty (s_ebus s) && sbus_is_empty (s_wbus s).

(* drain of the write unit / write bus; tick = whether each iteration counts a cycle *)
Fixpoint m4_drain (fuel : nat) (regs mem pw : list Z) (w : wu_t) (wbus : sbus wb_item) (cycle : Z) (tick : bool)
  : outcome (list Z * list Z * list Z * wu_t * sbus wb_item * Z) :=
  match fuel with
  | O => Err EOther
  | S f =>
      if negb (wu_pending w) && sbus_is_empty wbus then Ok (regs, mem, pw, w, wbus, cycle)
      else
        r <- wu_cycle regs mem pw w wbus ;;
        let '(regs', mem', pw', w', wbus') := r in
        m4_drain f regs' mem' pw' w' wbus' (if tick then cycle + 1 else cycle) tick
  end.

Definition m4_finish (s : m4state) (cycle : Z) : mres :=
  match flush_lines (lines (s_l1d s)) (s_mem s) 0 with
  | Ok (mem', c) => MDone (cycle + c) (mk_arch (s_regs s) mem')
  | _ => MPanic
  end.

Fixpoint m4run (fuel : nat) (app : list instr) (labels : Z -> option Z) (s : m4state) (cycle : Z) : mres :=
  match fuel with
  | O => MOutOfFuel
  | S f =>
      let cycle := cycle + 1 in
      match fu_cycle app (s_fu s) (s_l1i s) (s_dbus s) with
      | Ok (fu1, l1i1, dbus1) =>
          match du_cycle app dbus1 (s_ebus s) with
          | Ok (dbus2, ebus1) =>
              let env := mk_env (s_regs s) (s_mem s) (s_pw s) (s_l1d s) (s_eu s) (s_wbus s) (s_bu s) in
              match eu_cycle labels env ebus1 with
              | inr e => MErr e
              | inl (Ok (env1, ebus2, o)) =>
                  match wu_cycle (e_regs env1) (e_mem env1) (e_pw env1) (s_wu s) (e_wbus env1) with
                  | Ok (regs2, mem2, pw2, wu2, wbus2) =>
                      let s2 := mk_m4 regs2 mem2 pw2 l1i1 (e_l1d env1) fu1 dbus2 ebus2 (e_eu env1) wbus2 wu2 (e_bu env1) in
                      if eo_ret o then
                        match m4_drain (S (S (Z.to_nat MemoryAccess * 4)%nat)) regs2 mem2 pw2 wu2 wbus2 cycle false with
                        | Ok (regs3, mem3, pw3, wu3, wbus3, cycle3) =>
                            m4_finish (mk_m4 regs3 mem3 pw3 l1i1 (e_l1d env1) fu1 dbus2 ebus2 (e_eu env1) wbus3 wu3 (e_bu env1)) cycle3
                        | _ => MPanic
                        end
                      else if eo_flush o then
                        match m4_drain (S (S (Z.to_nat MemoryAccess * 4)%nat)) regs2 mem2 pw2 wu2 wbus2 cycle true with
                        | Ok (regs3, mem3, pw3, wu3, wbus3, cycle3) =>
                            (* m.flush(pc) *)
                            let fu3 := mk_fu (eo_pc o) (fu_remaining fu1) false false in
                            m4run f app labels
                                  (mk_m4 regs3 mem3 zero_pw l1i1 (e_l1d env1) fu3 sbus_empty sbus_empty (e_eu env1) sbus_empty wu3 (e_bu env1))
                                  cycle3
                        | _ => MPanic
                        end
                      else if m4_is_complete s2 then m4_finish s2 cycle
                      else m4run f app labels s2 cycle
                  | _ => MPanic
                  end
              | inl _ => MPanic
              end
          | _ => MPanic
          end
      | _ => MPanic
      end
  end.

Definition mvp4_run (fuel : nat) (app : list instr) (labels : Z -> option Z) (st : arch) : mres :=
  match new_cache l1LineSize l1Size, new_cache l1LineSize l1Size with
  | Ok ci, Ok cd =>
      m4run fuel app labels
            (mk_m4 (regs st) (mem st) zero_pw ci cd (mk_fu 0 0 false false) sbus_empty sbus_empty
                   (mk_eu false false [] None 0 None) sbus_empty (mk_wu false 0) (mk_bu false 0)) 0
  | _, _ => MPanic
  end.
