(* Auxiliary definitions for the proofs about the MVP-5 model (Mvp5.v): the
   "skeleton" of the pipeline, as for MVP-4 (Mvp4Skel.v): the control part of an
   m5state (fetch unit with its clean flag, the decode stall flag, L1I, the two
   front-end latches, the execute unit's counter, the scoreboard, the shape of the
   write bus) plus the CONTENT OF THE BRANCH TARGET BUFFER, without any register
   value.  One skeleton cycle is driven by the path (the pcs the sequential machine
   visits): the BTB only stores (pc of an unconditional jump, pc that followed it),
   so it is a function of the path as well.  Nothing here changes the model. *)
From Coq Require Import ZArith List Bool Lia.
From Maj Require Import Base.Outcome Base.GoInt Base.GoTypes Isa.Spec Isa.Seq Isa.Refine.
From Maj Require Import Gen.Latency Gen.RiscTables Gen.Opcodes Comp.Cache Mvp.Mvp12 Mvp.Mvp3 Mvp.Mvp4 Mvp.Mvp5 Mvp.Mvp4Skel Mvp.Mvp4Inv.
Import ListNotations.
Open Scope Z_scope.

Record sk5 := mk_sk5 { k5_fu : fu5_t; k5_du : bool; k5_l1i : cache; k5_dbus : sbus Z; k5_ebus : sbus (instr * Z);
                       k5_eu : eu_t; k5_pw : list Z;
                       k5_wb : option (list Z);   (* declared write registers of the entry in the write bus *)
                       k5_btb : list (Z * Z) }.

(* the instruction for which the branch unit's assert is called this cycle: the one
   whose execute counter reaches zero (whether or not it then stalls on a hazard) *)
Definition eu_issue (e : eu_t) (ebus : sbus (instr * Z)) : option (instr * Z) :=
  let '(e1, _, have) := eu_intake e ebus in
  if negb have then None else
  if negb (eu_remaining e1 - 1 =? 0) then None else eu_runner e1.

(* btbBranchUnit.assert, effect on the fetch unit: an unconditional jump found in
   the BTB redirects the fetch unit to the predicted target *)
Definition sk5_assert (f : fu5_t) (btb : list (Z * Z)) (x : option (instr * Z)) : fu5_t :=
  match x with
  | Some (i, pc) =>
      if uncond i then match btb_get btb pc with Some t => fu5_reset f t | None => f end else f
  | None => f
  end.

(* does executing (i, pc), followed on the path by [next], flush the pipeline:
   an unconditional jump flushes iff it is NOT in the BTB (whatever the BTB
   predicted, the fetch unit is redirected to the actual target without a flush);
   a conditional branch flushes iff it is taken to somewhere else than pc + 4 *)
Definition sk5_flush (btb : list (Z * Z)) (i : instr) (pc next : Z) : bool :=
  if uncond i then match btb_get btb pc with None => true | Some _ => false end
  else negb (next =? addS 32 pc 4).

Definition eu_flushed (e : eu_t) : eu_t :=
  mk_eu false (eu_pending_read e) (eu_addrs e) (eu_memory e) 0 (eu_runner e).

Definition sk5_complete (a : sk5) : bool :=
  f5_complete (k5_fu a) && negb (eu_processing (k5_eu a)) &&
  sbus_is_empty (k5_dbus a) && sbus_is_empty (k5_ebus a) &&
  match k5_wb a with None => true | Some _ => false end.

Inductive sk5_res :=
| K5Step (a : sk5) (path : list Z) (dc : Z)    (* dc: cycles counted by this iteration of the Run loop *)
| K5Done (dc : Z)
| K5Stuck.

Definition sk5_cycle (app : list instr) (a : sk5) (path : list Z) : sk5_res :=
  match fu5_cycle app (k5_fu a) (k5_l1i a) (k5_dbus a) with
  | Ok (fu1, l1i1, dbus1) =>
      match du5_cycle app (k5_du a) dbus1 (k5_ebus a) with
      | Ok (du1, dbus2, ebus1) =>
          let '(e1, ebus2, act) := sk_eu (k5_eu a) ebus1 (k5_pw a) in
          let fuA := sk5_assert fu1 (k5_btb a) (eu_issue (k5_eu a) ebus1) in
          match act with
          | AStuck => K5Stuck
          | ANone =>
              let a2 := mk_sk5 fuA du1 l1i1 dbus2 ebus2 e1 (wdel (k5_pw a) (k5_wb a)) None (k5_btb a) in
              if sk5_complete a2 then K5Done 1 else K5Step a2 path 1
          | AExec i pc =>
              match path with
              | [] => K5Stuck
              | p :: rest =>
                  if negb (p =? pc) then K5Stuck
                  else if is_ret i then match rest with [] => K5Done 1 | _ :: _ => K5Stuck end
                  else match rest with
                       | [] => K5Stuck
                       | next :: _ =>
                           let wr := instr_WriteRegisters i in
                           (* notifyJumpAddressResolved *)
                           let fuR := if uncond i then fu5_reset fuA next else fuA in
                           let duR := if uncond i then false else du1 in
                           let btb' := if uncond i then btb_add (k5_btb a) pc next else k5_btb a in
                           if sk5_flush (k5_btb a) i pc next then
                             K5Step (mk_sk5 (mk_fu5 next (f5_remaining fuR) false false (f5_clean fuR)) false l1i1
                                            sbus_empty sbus_empty (eu_flushed e1) zero_pw None btb') rest 2
                           else
                             K5Step (mk_sk5 fuR duR l1i1 dbus2 ebus2 e1 (wdel (pw_add (k5_pw a) wr) (k5_wb a)) (Some wr) btb')
                                    rest 1
                       end
              end
          end
      | _ => K5Stuck
      end
  | _ => K5Stuck
  end.

Fixpoint sk5_run (fuel : nat) (app : list instr) (a : sk5) (path : list Z) (cycle : Z) : option Z :=
  match fuel with
  | O => None
  | S f =>
      match sk5_cycle app a path with
      | K5Step a' path' dc => sk5_run f app a' path' (cycle + dc)
      | K5Done dc => Some (cycle + dc)
      | K5Stuck => None
      end
  end.

Definition sk5_init (ci : cache) : sk5 :=
  mk_sk5 (mk_fu5 0 0 false false false) false ci sbus_empty sbus_empty (mk_eu false false [] None 0 None) zero_pw None [].

(* the cycle count of MVP-5 on a register-only program, as a function of the
   program and the path only *)
Definition mvp5_cost (fuel : nat) (app : list instr) (path : list Z) : option Z :=
  match new_cache l1LineSize l1Size with
  | Ok ci => sk5_run fuel app (sk5_init ci) path 0
  | _ => None
  end.
